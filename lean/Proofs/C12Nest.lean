import Proofs.C12Scalar
import Proofs.C12Coll
import Proofs.C12Frame
import Proofs.C12Vint
import Proofs.C12BigInt
/-!
# C12: conformance of `marshal` with the specification for EVERY scalar column and by structural induction for
every nesting of list / set / map / tuple (helpers; the property theorems are in Proofs/C12.lean)

`Conf p t r oc`: the result `r` of the model of gocql.Marshal is what the specification prescribes for the
documented meaning `oc` of the Go value: a nil slice exactly for null, otherwise the specification's bytes; an error
produces no bytes; a panic or an unmodelled combination never occurs.
-/
namespace C12Nest
open ValueSpec Marshal C12Bytes C12Int C12Varint C12Scalar

/-- the scalar `g` is a value of its Go type (the harness can only build such values) -/
def wfScalar : GoVal → Prop
  | .int k _ v => k.holds v = true
  | .f32 _ x => x < 2^32
  | .f64 _ x => x < 2^64
  | .dec _ s => fitsS 4 s = true                      -- inf.Scale is an int32
  | .time _ nsec => 0 ≤ nsec ∧ nsec < 1000000000
  | .dur ns => fitsS 8 ns = true
  | .cqldur m d n => fitsS 4 m = true ∧ fitsS 4 d = true ∧ fitsS 8 n = true
  | .uuid b => b.length = 16
  | .arr16 b => b.length = 16
  | _ => True

def Conf (p : Nat) (t : CqlTy) (r : MRes) (oc : Option CqlVal) : Prop :=
  match r with
  | .ok none => oc = some .null
  | .ok (some b) => b.length < 2^31 → ∃ c, oc = some c ∧ c.isNull = false ∧ specEnc p t c = some b
  | .err => True
  | .crash => False
  | .unmodelled => False

theorem conf_some {p : Nat} {t : CqlTy} {b : Bytes} {c : CqlVal} (hn : c.isNull = false) (hs : specEnc p t c = some b) :
    Conf p t (.ok (some b)) (some c) := fun _ => ⟨c, rfl, hn, hs⟩

theorem holds_int64 (v : Int) : IntKind.int64.holds v = true ↔ fitsS 8 v = true := by
  simp [IntKind.holds, IntKind.signed, IntKind.bits, fitsS, leB_iff, ltB_iff]; omega

theorem encInt_u32 (n : Nat) (h : n < 2^32) : encInt (toS 32 (n:Int)) = beBytes 4 n := by
  rw [encInt_eq, tcEnc_toS32]
  simp only [tcEnc]
  have e : ((n:Int) % (256:Int)^4).toNat = n := by omega
  rw [e]

theorem encBigInt_u64 (n : Nat) (h : n < 2^64) : encBigInt (toS 64 (n:Int)) = beBytes 8 n := by
  rw [encBigInt_eq, tcEnc_toS64]
  simp only [tcEnc]
  have e : ((n:Int) % (256:Int)^8).toNat = n := by omega
  rw [e]

theorem pairUp_length : ∀ (ns : List Nat), (pairUp ns).length = ns.length / 2
  | [] => rfl
  | [_] => by simp [pairUp]
  | a :: b :: r => by
    rw [pairUp, List.length_cons, pairUp_length r]
    simp only [List.length_cons]; omega

theorem parseUUID_length (s b : Bytes) (h : parseUUID s = some b) : b.length = 16 := by
  unfold parseUUID at h
  split at h
  · rename_i ns _
    split at h
    · rename_i hl
      injection h with h
      rw [← h, pairUp_length, hl]
    · cases h
  · cases h

/-! ## integer columns -/

theorem specEnc_intcol' (p : Nat) (t : CqlTy) (col : IntCol) (ht : intColOf t = some col) (v : Int) :
    specEnc p t (.int v) = if fitsS col.bytes v = true then some (tcEnc col.bytes v) else none := by
  cases t <;> simp [intColOf] at ht <;> subst ht <;> rfl

theorem intkind_conf (p : Nat) (t : CqlTy) (col : IntCol) (ht : intColOf t = some col) (k : IntKind) (named : Bool)
    (v : Int) (hv : k.holds v = true)
    (hx : (!k.signed && decide (v ≥ (2:Int)^(8*col.bytes-1))) = false) :
    Conf p t (optM (marshalIntKind col k named v)) (some (.int v)) := by
  rw [marshalIntKind_char col k named v hv]
  have hw : wrapsAccepted col k named v = true → fitsS col.bytes v = true := by
    intro hw
    exfalso
    cases col <;> cases hs : k.signed <;>
      simp [wrapsAccepted, hs, IntCol.bytes, leB_iff, ltB_iff] at hw hx <;> omega
  by_cases hf : fitsS col.bytes v = true
  · rw [if_pos (.inl hf)]
    exact conf_some rfl (by rw [specEnc_intcol' p t col ht, if_pos hf])
  · rw [if_neg (fun h => hf (h.elim id hw))]
    trivial

theorem intstring_conf (p : Nat) (t : CqlTy) (col : IntCol) (ht : intColOf t = some col) (s : Bytes) :
    Conf p t (optM (marshalIntString col s)) ((parseDec s).map CqlVal.int) := by
  cases h : marshalIntString col s with
  | none => trivial
  | some b =>
    unfold marshalIntString at h
    cases hp : parseInt (8 * col.bytes) s with
    | none => rw [hp] at h; simp at h
    | some n =>
      rw [hp] at h
      injection h with h
      unfold parseInt at hp
      cases hd : parseDec s with
      | none => rw [hd] at hp; simp at hp
      | some m =>
        rw [hd] at hp
        dsimp only at hp
        split at hp
        · rename_i hr
          injection hp with hp
          subst hp
          refine conf_some (c := .int m) rfl ?_
          rw [specEnc_intcol' p t col ht, ← h]
          cases col <;>
            simp [IntCol.bytes, fitsS, leB_iff, ltB_iff, encTiny_eq, encShort_eq, encInt_eq, encBigInt_eq,
              tcEnc_toS16, tcEnc_toS32] at hr ⊢ <;> omega
        · simp at hp

theorem bigcol_conf (p : Nat) (t : CqlTy) (ht : intColOf t = some .big) (v : Int) :
    Conf p t (marshalIntColumn .big (.big v)) (some (.int v)) := by
  by_cases h : (-9223372036854775808 ≤ v ∧ v < 9223372036854775808)
  · have hf : fitsS 8 v = true := by simp [fitsS, leB_iff, ltB_iff]; omega
    have : marshalIntColumn .big (.big v) = .ok (some (tcEnc 8 v)) := by
      simp [marshalIntColumn, leB, ltB, h.1, h.2, encBigInt_eq]
    rw [this]
    exact conf_some rfl (by rw [specEnc_intcol' p t .big ht]; simp [IntCol.bytes, hf])
  · have : (leB (-9223372036854775808) v && ltB v 9223372036854775808) = false := by
      simp only [leB, ltB, Bool.and_eq_false_iff, decide_eq_false_iff_not]
      omega
    have : marshalIntColumn .big (.big v) = .err := by simp [marshalIntColumn, this]
    rw [this]; trivial

/-! ## varint -/

theorem varintkind_conf (p : Nat) (k : IntKind) (named : Bool) (v : Int) (hv : k.holds v = true) :
    Conf p .varint (optM (marshalVarintKind k named v)) (some (.int v)) := by
  cases h : marshalVarintKind k named v with
  | none => trivial
  | some b => exact conf_some rfl (by simp [specEnc, marshalVarintKind_spec k named v hv b h])

theorem varintstring_conf (p : Nat) (s : Bytes) :
    Conf p .varint (optM (marshalVarintString s)) ((parseDec s).map CqlVal.int) := by
  cases h : marshalVarintString s with
  | none => trivial
  | some b =>
    obtain ⟨n, hn, hb⟩ := marshalVarintString_spec s b h
    rw [hn]
    exact conf_some (c := .int n) rfl (by simp [specEnc, hb])

/-- big.Int → varint: encBigInt2C and then the trimming loop give the specification's varint, for every integer -/
theorem marshalVarintBig_spec (n : Int) : marshalVarintBig n = specVarint n := by
  unfold marshalVarintBig
  rw [C12BigInt.encBigInt2C_spec, trimTC_spec _ (specVarint_ne_nil n), tcDec_specVarint]

/-! ## every scalar column × every documented Go scalar -/

theorem ipTo4_length (b v4 : Bytes) (h : ipTo4 b = some v4) : v4.length = 4 := by
  unfold ipTo4 at h
  split at h
  · injection h with h; subst h; assumption
  · split at h
    · rename_i hc
      injection h with h
      rw [← h, List.length_drop, hc.1]
    · cases h

theorem ipTo4_none_16 (b : Bytes) (h : ipTo4 b = none) (hl : b.length = 4 ∨ b.length = 16) :
    ipTo16 b = some b ∧ b.length = 16 := by
  unfold ipTo4 at h
  split at h
  · cases h
  · rename_i h4
    have h16 : b.length = 16 := by omega
    simp [ipTo16, h4, h16]

/-- date from a millisecond count (repair of KF-C12-5): the specification's day (FLOOR) + 2^31 when the day is in the
    range of a date, an error otherwise — for every int64 -/
theorem date_conf (p : Nat) (ts : Int) : Conf p .date (marshalDateMillis ts) (some (.int (ts / 86400000))) := by
  unfold marshalDateMillis
  rw [daysSinceEpoch_floor]
  by_cases hr : fitsU 4 (ts / 86400000 + 2147483648) = true
  · rw [if_pos hr]
    exact conf_some rfl (by simp [specEnc, hr, encDateMillis_spec ts hr])
  · rw [if_neg hr]; trivial

macro "sc_simp" : tactic => `(tactic|
  simp [Conf, marshalScalar, interpScalar, documentedScalar, excludedScalar, CqlTy.isIntCol, CqlTy.isText,
    Marshal.CqlTy.isScalar, marshalIntColumn, marshalVarintColumn, marshalVarcharColumn, intColOf, wfScalar,
    CqlVal.isNull, specEnc, optM] at *)

theorem scalar_conf (p : Nat) (t : CqlTy) (g : GoVal) (ht : Marshal.CqlTy.isScalar t = true) (hwf : wfScalar g)
    (hd : documentedScalar t g = true) (hx : excludedScalar t g = false) :
    Conf p t (marshalScalar t g) (interpScalar t g) := by
  cases g with
  | nil => cases t <;> sc_simp
  | int k named v =>
    have hwf' : k.holds v = true := hwf
    cases t <;> first
      | (simp [Marshal.CqlTy.isScalar] at ht; done)
      | (simp [documentedScalar, CqlTy.isIntCol] at hd; done)
      | exact intkind_conf p _ _ rfl k named v hwf' (by simpa [excludedScalar, intColOf] using hx)
      | exact varintkind_conf p k named v hwf'
      | skip
    -- time, timestamp, date, duration: int64 only
    all_goals (
      have h0 : fitsS 4 0 = true := by decide
      have e0 := C12Vint.encVint_spec 0 (by decide)
      simp [documentedScalar, CqlTy.isIntCol] at hd
      first
        | (obtain ⟨hk, hnm⟩ := hd; subst hk; subst hnm
           exact date_conf p v)
        | (subst hd
           have h8 := (holds_int64 v).mp hwf'
           cases named <;>
           simp [Conf, marshalScalar, interpScalar, CqlTy.isIntCol, CqlVal.isNull, specEnc, encBigInt_eq, h8, h0, e0,
             encVints, C12Vint.encVint_spec v h8]))
  | unset => simp [documentedScalar] at hd
  | str named s =>
    cases named
    · cases t <;> first
        | (simp [Marshal.CqlTy.isScalar] at ht; done)
        | (simp [documentedScalar, CqlTy.isIntCol, CqlTy.isText] at hd; done)
        | (simp [excludedScalar, intColOf] at hx; done)
        | exact intstring_conf p _ _ rfl s
        | exact varintstring_conf p s
        | (cases h : parseUUID s with
           | none => simp [Conf, marshalScalar, optM, h]
           | some b =>
             have hl := parseUUID_length s b h
             simp [Conf, marshalScalar, interpScalar, CqlTy.isIntCol, CqlTy.isText, CqlVal.isNull, specEnc, optM, h, hl])
        | sc_simp
    · cases t <;> sc_simp
  | bytes named isNil b =>
    cases t <;> first
      | (simp [Marshal.CqlTy.isScalar] at ht; done)
      | (simp [documentedScalar, CqlTy.isIntCol, CqlTy.isText] at hd; done)
      | (cases isNil <;> sc_simp; done)
      | (simp [documentedScalar, CqlTy.isIntCol, CqlTy.isText] at hd; subst hd
         by_cases hl : b.length = 16 <;>
         simp [Conf, marshalScalar, interpScalar, CqlTy.isIntCol, CqlTy.isText, CqlVal.isNull, specEnc, hl])
  | bool named b => cases t <;> first | (cases b <;> sc_simp <;> simp [encBool]; done) | sc_simp
  | f32 named x =>
    have hx32 : x < 2^32 := hwf
    cases t <;> first
      | (simp [Marshal.CqlTy.isScalar] at ht; done)
      | (simp [documentedScalar] at hd; done)
      | (cases named
         · simp [Conf, marshalScalar, interpScalar, specEnc, CqlVal.isNull, hx32, encInt_u32 x hx32]
         · have hq : quiet32 x = x := by simpa [excludedScalar, intColOf] using hx
           simp [Conf, marshalScalar, interpScalar, specEnc, CqlVal.isNull, hx32, hq, encInt_u32 x hx32])
  | f64 named x =>
    have hx64 : x < 2^64 := hwf
    cases t <;> first
      | (simp [Marshal.CqlTy.isScalar] at ht; done)
      | (simp [documentedScalar] at hd; done)
      | simp [Conf, marshalScalar, interpScalar, specEnc, CqlVal.isNull, hx64, encBigInt_u64 x hx64]
  | big v =>
    cases t <;> first
      | (simp [Marshal.CqlTy.isScalar] at ht; done)
      | (simp [documentedScalar] at hd; done)
      | exact bigcol_conf p _ rfl v
      | simp [Conf, marshalScalar, marshalVarintColumn, interpScalar, specEnc, CqlVal.isNull, marshalVarintBig_spec]
  | dec u sc =>
    have hs : fitsS 4 sc = true := hwf
    cases t <;> first
      | (simp [Marshal.CqlTy.isScalar] at ht; done)
      | (simp [documentedScalar] at hd; done)
      | simp [Conf, marshalScalar, interpScalar, specEnc, CqlVal.isNull, hs, encInt_eq, tcEnc_toS32,
          C12BigInt.encBigInt2C_spec]
  | time sec nsec =>
    have hn : 0 ≤ nsec ∧ nsec < 1000000000 := hwf
    cases t <;> first
      | (simp [Marshal.CqlTy.isScalar] at ht; done)
      | (simp [documentedScalar] at hd; done)
      | (simp [excludedScalar, intColOf] at hx
         obtain ⟨⟨hz, h1⟩, h2⟩ := hx
         have hd' := day_of_millis sec nsec hn
         have hc := date_conf p (exactMillis sec nsec)
         rw [hd'] at hc
         simpa [marshalScalar, interpScalar, hz, timeMillis_exact sec nsec h1 h2] using hc)
      | (simp [excludedScalar, intColOf] at hx
         obtain ⟨⟨hz, h1⟩, h2⟩ := hx
         simp [Conf, marshalScalar, interpScalar, specEnc, CqlVal.isNull, hz, h2, timeMillis_exact sec nsec h1 h2,
           encBigInt_eq])
  | dur ns =>
    have h8 : fitsS 8 ns = true := hwf
    have hh := (holds_int64 ns).mpr h8
    have h0 : fitsS 4 0 = true := by decide
    have e0 := C12Vint.encVint_spec 0 (by decide)
    cases t <;> first
      | (simp [Marshal.CqlTy.isScalar] at ht; done)
      | (simp [documentedScalar, CqlTy.isIntCol] at hd; done)
      | exact intkind_conf p _ _ rfl .int64 true ns hh rfl
      | exact intkind_conf p .bigint .big rfl .int64 true ns hh rfl
      | exact intkind_conf p .counter .big rfl .int64 true ns hh rfl
      | exact varintkind_conf p .int64 true ns hh
      | simp [Conf, marshalScalar, interpScalar, CqlTy.isIntCol, CqlVal.isNull, specEnc, encBigInt_eq, h8, h0, e0,
             encVints, C12Vint.encVint_spec ns h8]
  | cqldur m d n =>
    obtain ⟨hm, hd', hn⟩ : fitsS 4 m = true ∧ fitsS 4 d = true ∧ fitsS 8 n = true := hwf
    have f48 : ∀ x, fitsS 4 x = true → fitsS 8 x = true := by
      intro x h; simp [fitsS, leB_iff, ltB_iff] at h ⊢; omega
    cases t <;> first
      | (simp [Marshal.CqlTy.isScalar] at ht; done)
      | (simp [documentedScalar] at hd; done)
      | simp [Conf, marshalScalar, interpScalar, CqlVal.isNull, specEnc, hm, hd', hn, encVints,
          C12Vint.encVint_spec m (f48 m hm), C12Vint.encVint_spec d (f48 d hd'), C12Vint.encVint_spec n hn]
  | uuid b =>
    have hl : b.length = 16 := hwf
    cases t <;> first
      | (simp [Marshal.CqlTy.isScalar] at ht; done)
      | (simp [documentedScalar] at hd; done)
      | simp [Conf, marshalScalar, interpScalar, CqlVal.isNull, specEnc, hl]
  | arr16 b =>
    have hl : b.length = 16 := hwf
    cases t <;> first
      | (simp [Marshal.CqlTy.isScalar] at ht; done)
      | (simp [documentedScalar] at hd; done)
      | simp [Conf, marshalScalar, interpScalar, CqlVal.isNull, specEnc, hl]
  | ip b =>
    cases t <;> first
      | (simp [Marshal.CqlTy.isScalar] at ht; done)
      | (simp [documentedScalar] at hd; done)
      | (cases h4 : ipTo4 b with
         | some v4 =>
           have := ipTo4_length b v4 h4
           simp [Conf, marshalScalar, interpScalar, CqlVal.isNull, specEnc, h4, this]
         | none =>
           have hn4 : b.length ≠ 4 := by intro h; simp [ipTo4, h] at h4
           by_cases hb : b = []
           · subst hb; simp [Conf, marshalScalar, interpScalar, h4]
           · by_cases h16 : b.length = 16
             · simp [Conf, marshalScalar, interpScalar, CqlVal.isNull, specEnc, h4, hb, h16, ipTo16, optM]
             · simp [Conf, marshalScalar, h4, hb, ipTo16, hn4, h16, optM])
  | _ => simp [documentedScalar] at hd

/-! ## nesting: list / set / map / tuple of anything, by structural induction -/

/- every Go value inside `g` is a value of its Go type -/
mutual
def wf : GoVal → Prop
  | .ptr v => wf v
  | .slice _ vs => wfAll vs
  | .array vs => wfAll vs
  | .ifaces vs => wfAll vs
  | .mapset vs => wfAll vs
  | .struct vs => wfAll vs
  | .udtmap _ _ vs => wfAll vs
  | .udtstruct _ vs => wfAll vs
  | .map _ kvs => wfPairs kvs
  | g => wfScalar g
def wfAll : List GoVal → Prop
  | [] => True
  | v :: vs => wf v ∧ wfAll vs
def wfPairs : List (GoVal × GoVal) → Prop
  | [] => True
  | (k, v) :: r => wf k ∧ wf v ∧ wfPairs r
end

/- the type trees of this section: scalars, list, set, map and NON-EMPTY tuples at any depth (Cassandra has no
    tuple without fields; gocql writes a nil slice for one).  UDTs: framing by `udtAssemble`, not in this induction -/
/-- no field name twice (a UDT definition: `CREATE TYPE` refuses duplicate field names) -/
def nodupB : List String → Bool
  | [] => true
  | n :: r => !r.contains n && nodupB r

mutual
def nest : CqlTy → Bool
  | .list e => nest e
  | .set e => nest e
  | .map k v => nest k && nest v
  | .tuple ts => !ts.isEmpty && nestAll ts
  | .udt names ts => !names.isEmpty && nodupB names && names.length == ts.length && nestAll ts
  | _ => true
def nestAll : List CqlTy → Bool
  | [] => true
  | t :: ts => nest t && nestAll ts
end

theorem collSize_count (p : Nat) (n : Nat) : collSize p (n:Int) = countFrame p n := by
  by_cases hp : p ≥ 3
  · have hp2 : p > 2 := by omega
    simp only [collSize, countFrame, hp2, hp, if_true]
    by_cases h : n < 2^31
    · rw [if_neg (by omega), if_pos h, C12Frame.encInt_nat n h]
    · rw [if_pos (by omega), if_neg h]
  · rw [C12Frame.collSize_v2 p (by omega)]
    simp only [countFrame, hp, if_false]
    by_cases h : n ≤ 65535
    · rw [if_pos h, if_pos (by omega)]
    · rw [if_neg h, if_neg (by omega)]

theorem collItem_some (p : Nat) (b : Bytes) : collItem p (some b) = elemFrame p (some b) := by
  by_cases hp : p ≥ 3
  · have hp2 : p > 2 := by omega
    simp only [collItem, collSize, elemFrame, hp2, hp, if_true]
    by_cases h : b.length < 2^31
    · rw [if_neg (by omega), if_pos h, encInt_eq, tcEnc_toS32]; rfl
    · rw [if_pos (by omega), if_neg h]; rfl
  · simp only [collItem, C12Frame.collSize_v2 p (by omega), elemFrame, hp, if_false]
    by_cases h : b.length ≤ 65535
    · rw [if_pos h, if_pos (by omega)]; rfl
    · rw [if_neg h, if_neg (by omega)]; rfl

theorem collItem_none (p : Nat) (hp : p ≥ 3) : collItem p none = some [255, 255, 255, 255] := by
  have hp2 : p > 2 := by omega
  have : encInt (toS 32 (-1)) = [255, 255, 255, 255] := by decide
  simp [collItem, collSize, hp2, this]

theorem elemFrame_len (p : Nat) (b e : Bytes) (h : elemFrame p (some b) = some e) : b.length ≤ e.length := by
  simp only [elemFrame] at h
  split at h <;> split at h <;> cases h <;> simp [List.length_append]

def ConfElems (p : Nat) (et : CqlTy) (n : Nat) (r : MRes) (ocs : Option (List CqlVal)) : Prop :=
  match r with
  | .ok (some body) => body.length < 2^31 → ∃ cs, ocs = some cs ∧ cs.length = n ∧ specEncElems p et cs = some body
  | .err => True
  | _ => False

/-- one framed collection item: null only from protocol 3 (`hnn`: under protocol ≤ 2 the value is not null) -/
def ConfItem (p : Nat) (t : CqlTy) (r : MRes) (oc : Option CqlVal) : Prop :=
  match r with
  | .ok item => (match collItem p item with
      | none => True
      | some e => e.length < 2^31 → ∃ c, oc = some c ∧ elemOrNull p c.isNull (specEnc p t c) = some e)
  | .err => True
  | _ => False

theorem item_conf (p : Nat) (t : CqlTy) (r : MRes) (oc : Option CqlVal) (h : Conf p t r oc)
    (hnn : p ≤ 2 → oc ≠ some .null) : ConfItem p t r oc := by
  unfold ConfItem
  cases r with
  | ok item =>
    cases item with
    | none =>
      by_cases hp : p ≥ 3
      · simp only [collItem_none p hp]
        intro _
        exact ⟨.null, h, by simp [elemOrNull, CqlVal.isNull, elemFrame, hp]⟩
      · exact absurd h (hnn (by omega))
    | some b =>
      simp only [collItem_some p]
      cases he : elemFrame p (some b) with
      | none => trivial
      | some e =>
        simp only
        intro hl
        have := elemFrame_len p b e he
        obtain ⟨c, hc, hnn', hs⟩ := h (by omega)
        exact ⟨c, hc, by simp [elemOrNull, hnn', hs, he]⟩
  | err => trivial
  | crash => exact h
  | unmodelled => exact h

theorem elems_conf (p : Nat) (et : CqlTy) :
    ∀ vs : List GoVal, (∀ v ∈ vs, Conf p et (marshal p et v) (interp et v)) →
      (p ≤ 2 → ∀ v ∈ vs, interp et v ≠ some .null) →
      ConfElems p et vs.length (marshalElems p et vs) (interpList et vs)
  | [], _, _ => by
    simp [ConfElems, marshalElems, interpList, specEncElems]
  | v :: vs, h, hnn => by
    have hv := h v (List.mem_cons_self ..)
    have ih := elems_conf p et vs (fun w hw => h w (List.mem_cons_of_mem _ hw))
      (fun hp w hw => hnn hp w (List.mem_cons_of_mem _ hw))
    have iv := item_conf p et _ _ hv (fun hp => hnn hp v (List.mem_cons_self ..))
    rw [marshalElems, interpList]
    generalize marshal p et v = rv at iv ⊢
    generalize interp et v = ov at iv ⊢
    generalize marshalElems p et vs = rr at ih ⊢
    generalize interpList et vs = ocs at ih ⊢
    cases rv with
    | ok item =>
      simp only [ConfItem] at iv ⊢
      cases hce : collItem p item with
      | none => trivial
      | some e =>
        rw [hce] at iv
        simp only at iv ⊢
        cases rr with
        | ok ob =>
          cases ob with
          | none => exact ih.elim
          | some rest =>
            simp only [ConfElems] at ih ⊢
            intro hl
            simp only [List.length_append] at hl
            obtain ⟨c, hc, hsc⟩ := iv (by omega)
            obtain ⟨cs, hcs, hlen, hspec⟩ := ih (by omega)
            refine ⟨c :: cs, by simp [hc, hcs], by simp [hlen], ?_⟩
            simp [specEncElems, hsc, hspec]
        | err => trivial
        | crash => exact ih.elim
        | unmodelled => exact ih.elim
    | err => trivial
    | crash => exact iv.elim
    | unmodelled => exact iv.elim

/-- count + elements: a list or a set -/
theorem seq_conf (p : Nat) (et : CqlTy) (n : Nat) (r : MRes) (ocs : Option (List CqlVal))
    (h : ConfElems p et n r ocs) :
    Conf p (.list et) (wrapSeq p n r) (ocs.map CqlVal.list) ∧ Conf p (.set et) (wrapSeq p n r) (ocs.map CqlVal.list) := by
  unfold wrapSeq
  rw [collSize_count p]
  cases hc : countFrame p n with
  | none => exact ⟨trivial, trivial⟩
  | some c =>
    cases r with
    | ok ob =>
      cases ob with
      | none => exact h.elim
      | some body =>
        simp only [ConfElems] at h
        constructor <;>
        · intro hl
          obtain ⟨cs, hcs, hlen, hspec⟩ := h (by simp at hl; omega)
          refine ⟨.list cs, by simp [hcs], rfl, ?_⟩
          simp [specEnc, hlen, hc, hspec]
    | err => exact ⟨trivial, trivial⟩
    | crash => exact h.elim
    | unmodelled => exact h.elim

def ConfPairs (p : Nat) (kt vt : CqlTy) (n : Nat) (r : MRes) (ocs : Option (List (CqlVal × CqlVal))) : Prop :=
  match r with
  | .ok (some body) => body.length < 2^31 → ∃ cs, ocs = some cs ∧ cs.length = n ∧ specEncPairs p kt vt cs = some body
  | .err => True
  | _ => False

theorem pairs_conf (p : Nat) (kt vt : CqlTy) :
    ∀ kvs : List (GoVal × GoVal),
      (∀ kv ∈ kvs, Conf p kt (marshal p kt kv.1) (interp kt kv.1) ∧ Conf p vt (marshal p vt kv.2) (interp vt kv.2)) →
      (p ≤ 2 → ∀ kv ∈ kvs, interp kt kv.1 ≠ some .null ∧ interp vt kv.2 ≠ some .null) →
      ConfPairs p kt vt kvs.length (marshalPairs p kt vt kvs) (interpPairs kt vt kvs)
  | [], _, _ => by
    simp [ConfPairs, marshalPairs, interpPairs, specEncPairs]
  | (k, v) :: r, h, hnn => by
    obtain ⟨hk, hv⟩ := h (k, v) (List.mem_cons_self ..)
    have ih := pairs_conf p kt vt r (fun w hw => h w (List.mem_cons_of_mem _ hw))
      (fun hp w hw => hnn hp w (List.mem_cons_of_mem _ hw))
    have ik := item_conf p kt _ _ hk (fun hp => (hnn hp (k, v) (List.mem_cons_self ..)).1)
    have iv := item_conf p vt _ _ hv (fun hp => (hnn hp (k, v) (List.mem_cons_self ..)).2)
    rw [marshalPairs, interpPairs]
    simp only [] at hk hv
    generalize marshal p kt k = rk at ik ⊢
    generalize marshal p vt v = rv at iv ⊢
    generalize interp kt k = ok at ik ⊢
    generalize interp vt v = ov at iv ⊢
    generalize marshalPairs p kt vt r = rr at ih ⊢
    generalize interpPairs kt vt r = ocs at ih ⊢
    cases rk with
    | ok ki =>
      simp only [ConfItem] at ik ⊢
      cases hke : collItem p ki with
      | none => trivial
      | some ke =>
        rw [hke] at ik
        simp only at ik ⊢
        cases rv with
        | ok vi =>
          simp only [ConfItem] at iv ⊢
          cases hve : collItem p vi with
          | none => trivial
          | some ve =>
            rw [hve] at iv
            simp only at iv ⊢
            cases rr with
            | ok ob =>
              cases ob with
              | none => exact ih.elim
              | some rest =>
                simp only [ConfPairs] at ih ⊢
                intro hl
                simp only [List.length_append] at hl
                obtain ⟨a, ha, hsa⟩ := ik (by omega)
                obtain ⟨b, hb, hsb⟩ := iv (by omega)
                obtain ⟨cs, hcs, hlen, hspec⟩ := ih (by omega)
                refine ⟨(a, b) :: cs, by simp [ha, hb, hcs], by simp [hlen], ?_⟩
                simp [specEncPairs, hsa, hsb, hspec]
            | err => trivial
            | crash => exact ih.elim
            | unmodelled => exact ih.elim
        | err => trivial
        | crash => exact iv.elim
        | unmodelled => exact iv.elim
    | err => trivial
    | crash => exact ik.elim
    | unmodelled => exact ik.elim

theorem map_conf (p : Nat) (kt vt : CqlTy) (n : Nat) (r : MRes) (ocs : Option (List (CqlVal × CqlVal)))
    (h : ConfPairs p kt vt n r ocs) :
    Conf p (.map kt vt) (wrapSeq p n r) (ocs.map CqlVal.map) := by
  unfold wrapSeq
  rw [collSize_count p]
  cases hc : countFrame p n with
  | none => trivial
  | some c =>
    cases r with
    | ok ob =>
      cases ob with
      | none => exact h.elim
      | some body =>
        simp only [ConfPairs] at h
        intro hl
        obtain ⟨cs, hcs, hlen, hspec⟩ := h (by simp at hl; omega)
        refine ⟨.map cs, by simp [hcs], rfl, ?_⟩
        simp [specEnc, hlen, hc, hspec]
    | err => trivial
    | crash => exact h.elim
    | unmodelled => exact h.elim

/-! ### tuples -/

def AllConf (p : Nat) : List CqlTy → List GoVal → Prop
  | t :: ts, v :: vs => Conf p t (marshal p t v) (interp t v) ∧ AllConf p ts vs
  | _, _ => True

def ConfFields (p : Nat) (ts : List CqlTy) (r : MRes) (ocs : Option (List CqlVal)) : Prop :=
  match r with
  | .ok (some body) => body.length < 2^31 → ∃ cs, ocs = some cs ∧ specEncFields p ts cs = some body
  | .err => True
  | _ => False

theorem interp_nil (t : CqlTy) (hd : documented t .nil = true) : interp t .nil = some .null := by
  cases t <;> simp [interp, interpScalar, documented] at hd ⊢

theorem ifaces_conf (p : Nat) : ∀ (ts : List CqlTy) (vs : List GoVal), documentedFields ts vs = true → AllConf p ts vs →
    ConfFields p ts (marshalTupleIfaces p ts vs) (interpFields ts vs)
  | [], _, _, _ => by simp [marshalTupleIfaces, interpFields, ConfFields, specEncFields]
  | _ :: _, [], _, _ => by simp [marshalTupleIfaces, interpFields, ConfFields, specEncFields]
  | t :: ts, v :: vs, hn, hall => by
    simp only [documentedFields, Bool.and_eq_true] at hn
    obtain ⟨hv, hrest⟩ := hall
    have ih := ifaces_conf p ts vs hn.2 hrest
    rw [marshalTupleIfaces, interpFields]
    have h0 : Conf p t (if v.isNil = true then MRes.ok none else marshal p t v) (interp t v) := by
      by_cases hs : v.isNil = true
      · rw [if_pos hs]
        have := C12Coll.isNil_eq hs; subst this; exact interp_nil t hn.1
      · rw [if_neg hs]; exact hv
    generalize (if v.isNil = true then MRes.ok none else marshal p t v) = r0 at h0 ⊢
    generalize interp t v = oc at h0 ⊢
    generalize marshalTupleIfaces p ts vs = rr at ih ⊢
    generalize interpFields ts vs = ocs at ih ⊢
    cases r0 with
    | ok item =>
      cases rr with
      | ok ob =>
        cases ob with
        | none => exact ih.elim
        | some rest =>
          simp only [ConfFields] at ih ⊢
          intro hl
          cases item with
          | none =>
            simp only [Conf] at h0
            obtain ⟨cs, hcs, hspec⟩ := ih (by simp [List.length_append] at hl; omega)
            refine ⟨.null :: cs, by simp [h0, hcs], ?_⟩
            simp [specEncFields, fieldOrNull, CqlVal.isNull, bytesFrame, C12Coll.appendBytes_null, hspec]
          | some b =>
            simp only [Conf] at h0
            have hb : b.length < 2^31 := by
              rw [C12Coll.appendBytes_some] at hl
              simp [List.length_append] at hl; omega
            obtain ⟨c, hc, hnn, hs⟩ := h0 hb
            obtain ⟨cs, hcs, hspec⟩ := ih (by simp [List.length_append] at hl; omega)
            refine ⟨c :: cs, by simp [hc, hcs], ?_⟩
            have hb' : b.length < 2147483648 := hb
            simp [specEncFields, fieldOrNull, hnn, hs, hb', bytesFrame, C12Coll.appendBytes_some, hspec]
      | err => trivial
      | crash => exact ih.elim
      | unmodelled => exact ih.elim
    | err => trivial
    | crash => exact h0.elim
    | unmodelled => exact h0.elim

theorem fields_conf (p : Nat) : ∀ (ts : List CqlTy) (vs : List GoVal), nestAll ts = true → AllConf p ts vs →
    ConfFields p ts (marshalTupleFields p ts vs) (interpFields ts vs)
  | [], _, _, _ => by simp [marshalTupleFields, interpFields, ConfFields, specEncFields]
  | _ :: _, [], _, _ => by simp [marshalTupleFields, interpFields, ConfFields, specEncFields]
  | t :: ts, v :: vs, hn, hall => by
    simp only [nestAll, Bool.and_eq_true] at hn
    obtain ⟨hv, hrest⟩ := hall
    have ih := fields_conf p ts vs hn.2 hrest
    rw [marshalTupleFields, interpFields]
    have h0 : Conf p t (if v.isNilPtr = true then MRes.ok none else marshal p t v) (interp t v) := by
      by_cases hs : v.isNilPtr = true
      · rw [if_pos hs]
        have := C12Coll.isNilPtr_eq hs; subst this; simp [Conf, interp]
      · rw [if_neg hs]; exact hv
    generalize (if v.isNilPtr = true then MRes.ok none else marshal p t v) = r0 at h0 ⊢
    generalize interp t v = oc at h0 ⊢
    generalize marshalTupleFields p ts vs = rr at ih ⊢
    generalize interpFields ts vs = ocs at ih ⊢
    cases r0 with
    | ok item =>
      cases rr with
      | ok ob =>
        cases ob with
        | none => exact ih.elim
        | some rest =>
          simp only [ConfFields] at ih ⊢
          intro hl
          cases item with
          | none =>
            simp only [Conf] at h0
            obtain ⟨cs, hcs, hspec⟩ := ih (by simp [List.length_append] at hl; omega)
            refine ⟨.null :: cs, by simp [h0, hcs], ?_⟩
            simp [specEncFields, fieldOrNull, CqlVal.isNull, bytesFrame, C12Coll.appendBytes_null, hspec]
          | some b =>
            simp only [Conf] at h0
            have hb : b.length < 2^31 := by
              rw [C12Coll.appendBytes_some] at hl
              simp [List.length_append] at hl; omega
            obtain ⟨c, hc, hnn, hs⟩ := h0 hb
            obtain ⟨cs, hcs, hspec⟩ := ih (by simp [List.length_append] at hl; omega)
            refine ⟨c :: cs, by simp [hc, hcs], ?_⟩
            have hb' : b.length < 2147483648 := hb
            simp [specEncFields, fieldOrNull, hnn, hs, hb', bytesFrame, C12Coll.appendBytes_some, hspec]
      | err => trivial
      | crash => exact ih.elim
      | unmodelled => exact ih.elim
    | err => trivial
    | crash => exact h0.elim
    | unmodelled => exact h0.elim

theorem tuple_conf (p : Nat) (ts : List CqlTy) (hne : ts ≠ []) (r : MRes) (ocs : Option (List CqlVal))
    (h : ConfFields p ts r ocs) : Conf p (.tuple ts) (wrapTuple ts r) (ocs.map CqlVal.tuple) := by
  unfold wrapTuple
  rw [if_neg hne]
  cases r with
  | ok ob =>
    cases ob with
    | none => exact h.elim
    | some body =>
      simp only [ConfFields] at h
      intro hl
      obtain ⟨cs, hcs, hspec⟩ := h hl
      exact ⟨.tuple cs, by simp [hcs], rfl, by simp [specEnc, hspec]⟩
  | err => trivial
  | crash => exact h.elim
  | unmodelled => exact h.elim

/-! ### the induction -/

theorem wfAll_mem : ∀ vs, wfAll vs → ∀ v ∈ vs, wf v
  | [], _, _, hv => by cases hv
  | a :: r, h, v, hv => by
    simp only [wfAll] at h
    rcases List.mem_cons.mp hv with rfl | hv
    · exact h.1
    · exact wfAll_mem r h.2 v hv

theorem documentedAll_mem (et : CqlTy) : ∀ vs, documentedAll et vs = true → ∀ v ∈ vs, documented et v = true
  | [], _, _, hv => by cases hv
  | a :: r, h, v, hv => by
    simp only [documentedAll, Bool.and_eq_true] at h
    rcases List.mem_cons.mp hv with rfl | hv
    · exact h.1
    · exact documentedAll_mem et r h.2 v hv

theorem excludedElems_mem (p : Nat) (et : CqlTy) : ∀ vs, excludedElems p et vs = false → ∀ v ∈ vs, excluded p et v = false
  | [], _, _, hv => by cases hv
  | a :: r, h, v, hv => by
    simp only [excludedElems, Bool.or_eq_false_iff] at h
    rcases List.mem_cons.mp hv with rfl | hv
    · exact h.1.1
    · exact excludedElems_mem p et r h.2 v hv

theorem wfPairs_mem : ∀ kvs, wfPairs kvs → ∀ kv ∈ kvs, wf kv.1 ∧ wf kv.2
  | [], _, _, hv => by cases hv
  | (a, b) :: r, h, kv, hv => by
    simp only [wfPairs] at h
    rcases List.mem_cons.mp hv with rfl | hv
    · exact ⟨h.1, h.2.1⟩
    · exact wfPairs_mem r h.2.2 kv hv

theorem documentedPairs_mem (kt vt : CqlTy) : ∀ kvs, documentedPairs kt vt kvs = true →
    ∀ kv ∈ kvs, documented kt kv.1 = true ∧ documented vt kv.2 = true
  | [], _, _, hv => by cases hv
  | (a, b) :: r, h, kv, hv => by
    simp only [documentedPairs, Bool.and_eq_true] at h
    rcases List.mem_cons.mp hv with rfl | hv
    · exact ⟨h.1.1, h.1.2⟩
    · exact documentedPairs_mem kt vt r h.2 kv hv

theorem excludedPairs_mem (p : Nat) (kt vt : CqlTy) : ∀ kvs, excludedPairs p kt vt kvs = false →
    ∀ kv ∈ kvs, excluded p kt kv.1 = false ∧ excluded p vt kv.2 = false
  | [], _, _, hv => by cases hv
  | (a, b) :: r, h, kv, hv => by
    simp only [excludedPairs, Bool.or_eq_false_iff] at h
    rcases List.mem_cons.mp hv with rfl | hv
    · exact ⟨h.1.1.1, h.1.1.2⟩
    · exact excludedPairs_mem p kt vt r h.2 kv hv

/-- a Go value whose documented meaning is null is in the `nullish` class (what `excludedElems` / `excludedPairs` keep
    out of collections under protocol ≤ 2) -/
theorem interp_null : ∀ (v : GoVal) (t : CqlTy), interp t v = some .null → nullish v = true
  | .ptr w, t, h => by
    have := interp_null w t (by simpa [interp] using h)
    simpa [nullish, derefAll] using this
  | .nilptr, _, _ => by simp [nullish, derefAll, marshalsNil]
  | .nil, _, _ => by simp [nullish, derefAll, GoVal.isNil]
  | .unset, t, h => by cases t <;> simp [interp, interpScalar] at h
  | .int k n v, t, h => by cases t <;> simp [interp, interpScalar, CqlTy.isIntCol] at h <;> (repeat' split at h) <;> simp at h
  | .str n s, t, h => by cases n <;> cases t <;> simp [interp, interpScalar, CqlTy.isIntCol, CqlTy.isText] at h
  | .bytes n isNil b, t, h => by
    cases t <;> simp [interp, interpScalar, CqlTy.isIntCol, CqlTy.isText] at h <;>
      first | (simp [nullish, derefAll, marshalsNil, GoVal.isNil, h]; done) | (split at h <;> simp at h)
  | .bool n b, t, h => by cases t <;> simp [interp, interpScalar] at h
  | .f32 n x, t, h => by cases t <;> simp [interp, interpScalar] at h
  | .f64 n x, t, h => by cases t <;> simp [interp, interpScalar] at h
  | .big v, t, h => by cases t <;> simp [interp, interpScalar] at h
  | .dec u s, t, h => by cases t <;> simp [interp, interpScalar] at h
  | .time a b, t, h => by cases t <;> simp [interp, interpScalar] at h
  | .dur n, t, h => by cases t <;> simp [interp, interpScalar, CqlTy.isIntCol] at h
  | .cqldur m d n, t, h => by cases t <;> simp [interp, interpScalar] at h
  | .uuid b, t, h => by cases t <;> simp [interp, interpScalar] at h
  | .arr16 b, t, h => by cases t <;> simp [interp, interpScalar] at h
  | .ip b, t, h => by
    cases t <;> simp [interp, interpScalar] at h <;> (repeat' split at h) <;>
      simp_all [nullish, derefAll, marshalsNil, GoVal.isNil]
  | .slice isNil vs, t, h => by
    cases t <;> simp [interp, interpScalar] at h <;>
      first | (simp [nullish, derefAll, marshalsNil, GoVal.isNil, h]; done) | (split at h <;> simp at h)
  | .array vs, t, h => by cases t <;> simp [interp, interpScalar] at h <;> (split at h <;> simp at h)
  | .ifaces vs, t, h => by cases t <;> simp [interp, interpScalar] at h <;> (split at h <;> simp at h)
  | .map isNil kvs, t, h => by
    cases t <;> simp [interp, interpScalar] at h <;> simp [nullish, derefAll, marshalsNil, GoVal.isNil, h]
  | .mapset ks, t, h => by cases t <;> simp [interp, interpScalar] at h
  | .struct vs, t, h => by cases t <;> simp [interp, interpScalar] at h <;> (split at h <;> simp at h)
  | .udtmap i ns vs, t, h => by cases t <;> simp [interp, interpScalar, interpUdt] at h
  | .udtstruct ns vs, t, h => by cases t <;> simp [interp, interpScalar, interpUdt] at h

theorem excludedElems_nullish (p : Nat) (et : CqlTy) : ∀ vs, excludedElems p et vs = false →
    ∀ v ∈ vs, (decide (p ≤ 2) && nullish v) = false
  | [], _, _, hv => by cases hv
  | a :: r, h, v, hv => by
    simp only [excludedElems, Bool.or_eq_false_iff] at h
    rcases List.mem_cons.mp hv with rfl | hv
    · exact h.1.2
    · exact excludedElems_nullish p et r h.2 v hv

theorem excludedPairs_nullish (p : Nat) (kt vt : CqlTy) : ∀ kvs, excludedPairs p kt vt kvs = false →
    ∀ kv ∈ kvs, (decide (p ≤ 2) && (nullish kv.1 || nullish kv.2)) = false
  | [], _, _, hv => by cases hv
  | (a, b) :: r, h, kv, hv => by
    simp only [excludedPairs, Bool.or_eq_false_iff] at h
    rcases List.mem_cons.mp hv with rfl | hv
    · exact h.1.2
    · exact excludedPairs_nullish p kt vt r h.2 kv hv

theorem allconf_of (p : Nat) : ∀ (ts : List CqlTy) (vs : List GoVal),
    (∀ v ∈ vs, ∀ t, nest t = true → wf v → documented t v = true → excluded p t v = false →
      Conf p t (marshal p t v) (interp t v)) →
    nestAll ts = true → wfAll vs → documentedFields ts vs = true → excludedFields p ts vs = false → AllConf p ts vs
  | [], _, _, _, _, _, _ => by simp [AllConf]
  | _ :: _, [], _, _, _, _, _ => by simp [AllConf]
  | t :: ts, v :: vs, H, hn, hw, hd, hx => by
    simp only [nestAll, Bool.and_eq_true] at hn
    simp only [wfAll] at hw
    simp only [documentedFields, Bool.and_eq_true] at hd
    simp only [excludedFields, Bool.or_eq_false_iff] at hx
    exact ⟨H v (List.mem_cons_self ..) t hn.1 hw.1 hd.1 hx.1,
      allconf_of p ts vs (fun w hw' => H w (List.mem_cons_of_mem _ hw')) hn.2 hw.2 hd.2 hx.2⟩

/-! ### UDT: for each field of the type, in order, the Go entry of that name (absent → null), `appendBytes` -/

theorem lookupIdx_some (n : String) : ∀ (l : List String) (k i : Nat), lookupIdx n l k = some i → k ≤ i ∧ l[i - k]? = some n
  | [], _, _, h => by simp [lookupIdx] at h
  | m :: r, k, i, h => by
    simp only [lookupIdx] at h
    split at h
    · rename_i hm
      injection h with h
      subst h
      simp [hm]
    · obtain ⟨h1, h2⟩ := lookupIdx_some n r (k + 1) i h
      refine ⟨by omega, ?_⟩
      have : i - k = (i - (k + 1)) + 1 := by omega
      rw [this]
      simpa using h2

theorem lookupIdx_nodup (n : String) : ∀ (l : List String) (k j : Nat), nodupB l = true → l[j]? = some n →
    lookupIdx n l k = some (k + j)
  | [], _, _, _, h => by simp at h
  | m :: r, k, j, hnd, h => by
    simp only [nodupB, Bool.and_eq_true, Bool.not_eq_true'] at hnd
    cases j with
    | zero =>
      simp at h
      simp [lookupIdx, h]
    | succ j' =>
      simp at h
      have hne : ¬ m = n := by
        intro e
        subst e
        have : m ∈ r := List.mem_of_getElem? h
        have h1 := hnd.1
        simp [this] at h1
      simp only [lookupIdx, hne, if_false]
      rw [lookupIdx_nodup n r (k + 1) j' hnd.2 h]
      congr 1
      omega

theorem nestAll_get : ∀ (ts : List CqlTy) (j : Nat) (t : CqlTy), nestAll ts = true → ts[j]? = some t → nest t = true
  | [], _, _, _, h => by simp at h
  | a :: r, j, t, hn, h => by
    simp only [nestAll, Bool.and_eq_true] at hn
    cases j with
    | zero => simp at h; subst h; exact hn.1
    | succ j' => simp at h; exact nestAll_get r j' t hn.2 h

/-- what marshalNamed / interpNamed compute for one Go entry (name, value) -/
def entryM (p : Nat) (names : List String) (ts : List CqlTy) (fn : String) (v : GoVal) : MRes :=
  match lookupIdx fn names 0 with
  | some i => (match ts[i]? with
      | some t => marshal p t v
      | none => .ok none)
  | none => .ok none

def entryI (names : List String) (ts : List CqlTy) (fn : String) (v : GoVal) : Option CqlVal :=
  match lookupIdx fn names 0 with
  | some i => (match ts[i]? with
      | some t => interp t v
      | none => some .null)
  | none => some .null

theorem named_at (p : Nat) (names : List String) (ts : List CqlTy) : ∀ (fnames : List String) (vs : List GoVal) (i : Nat),
    (marshalNamed p names ts fnames vs)[i]? =
      (match fnames[i]?, vs[i]? with | some fn, some v => some (entryM p names ts fn v) | _, _ => none) ∧
    (interpNamed names ts fnames vs)[i]? =
      (match fnames[i]?, vs[i]? with | some fn, some v => some (entryI names ts fn v) | _, _ => none)
  | [], _, _ => by simp [marshalNamed, interpNamed]
  | _ :: _, [], i => by
    simp only [marshalNamed, interpNamed]
    cases i <;> simp <;> split <;> simp_all
  | fn :: fr, v :: vr, 0 => by
    simp only [marshalNamed, interpNamed, List.getElem?_cons_zero]
    exact ⟨rfl, rfl⟩
  | fn :: fr, v :: vr, i + 1 => by
    have := named_at p names ts fr vr i
    simpa [marshalNamed, interpNamed] using this

theorem named_props (p : Nat) (names : List String) (ts : List CqlTy) :
    ∀ (fnames : List String) (vs : List GoVal) (i : Nat) (fn : String) (v : GoVal),
      fnames[i]? = some fn → vs[i]? = some v → documentedNamed names ts fnames vs = true →
      excludedNamed p names ts fnames vs = false →
      ∀ j t, lookupIdx fn names 0 = some j → ts[j]? = some t → documented t v = true ∧ excluded p t v = false
  | [], _, _, _, _, h, _, _, _ => by simp at h
  | _ :: _, [], _, _, _, _, h, _, _ => by simp at h
  | f0 :: fr, v0 :: vr, 0, fn, v, hf, hv, hd, hx => by
    intro j t hj ht
    simp at hf hv
    subst hf; subst hv
    simp only [documentedNamed, excludedNamed, hj, ht, Bool.and_eq_true, Bool.or_eq_false_iff] at hd hx
    exact ⟨hd.1, hx.1⟩
  | f0 :: fr, v0 :: vr, i + 1, fn, v, hf, hv, hd, hx => by
    simp at hf hv
    simp only [documentedNamed, excludedNamed, Bool.and_eq_true, Bool.or_eq_false_iff] at hd hx
    exact named_props p names ts fr vr i fn v hf hv hd.2 hx.2

/-- the contribution of one field of the UDT type -/
theorem udt_field_conf (p : Nat) (names : List String) (ts : List CqlTy) (fnames : List String) (vs : List GoVal)
    (IH : ∀ v ∈ vs, ∀ t, nest t = true → wf v → documented t v = true → excluded p t v = false →
      Conf p t (marshal p t v) (interp t v))
    (hnd : nodupB names = true) (hnest : nestAll ts = true) (hw : wfAll vs)
    (hd : documentedNamed names ts fnames vs = true) (hx : excludedNamed p names ts fnames vs = false)
    (j : Nat) (n : String) (t : CqlTy) (hn : names[j]? = some n) (ht : ts[j]? = some t) :
    Conf p t
      (match lookupIdx n fnames 0 with
        | some i => (match (marshalNamed p names ts fnames vs)[i]? with | some r => r | none => .ok none)
        | none => .ok none)
      (match lookupIdx n fnames 0 with
        | some i => (match (interpNamed names ts fnames vs)[i]? with | some r => r | none => some CqlVal.null)
        | none => some CqlVal.null) := by
  cases hl : lookupIdx n fnames 0 with
  | none => simp [Conf]
  | some i =>
    have hfi : fnames[i]? = some n := by simpa using (lookupIdx_some n fnames 0 i hl).2
    obtain ⟨hE, hI⟩ := named_at p names ts fnames vs i
    rw [hfi] at hE hI
    cases hv : vs[i]? with
    | none =>
      rw [hv] at hE hI
      simp only [hE, hI]
      simp [Conf]
    | some v =>
      rw [hv] at hE hI
      simp only [hE, hI]
      have hj : lookupIdx n names 0 = some j := by
        have := lookupIdx_nodup n names 0 j hnd hn
        simpa using this
      obtain ⟨hdv, hxv⟩ := named_props p names ts fnames vs i n v hfi hv hd hx j t hj ht
      have hmem : v ∈ vs := List.mem_of_getElem? hv
      have := IH v hmem t (nestAll_get ts j t hnest ht) (wfAll_mem vs hw v hmem) hdv hxv
      simpa [entryM, entryI, hj, ht] using this

theorem assemble_conf (p : Nat) (R : String → MRes) (O : String → Option CqlVal) :
    ∀ (names : List String) (ts : List CqlTy), names.length = ts.length →
      (∀ (j : Nat) (n : String) (t : CqlTy), names[j]? = some n → ts[j]? = some t → Conf p t (R n) (O n)) →
      ConfFields p ts (seqItems (fun item => some (appendBytes item)) (names.map R)) (names.mapM O)
  | [], [], _, _ => by simp [seqItems, ConfFields, specEncFields]
  | [], _ :: _, h, _ => by simp at h
  | _ :: _, [], h, _ => by simp at h
  | n :: ns, t :: ts, hlen, H => by
    have h0 := H 0 n t rfl rfl
    have ih := assemble_conf p R O ns ts (by simpa using hlen) (fun j n' t' hn' ht' => H (j + 1) n' t' (by simpa using hn') (by simpa using ht'))
    simp only [List.map_cons, seqItems, List.mapM_cons]
    generalize R n = r0 at h0 ⊢
    generalize O n = oc at h0 ⊢
    generalize seqItems (fun item => some (appendBytes item)) (ns.map R) = rr at ih ⊢
    generalize ns.mapM O = ocs at ih ⊢
    cases r0 with
    | ok item =>
      cases rr with
      | ok ob =>
        cases ob with
        | none => exact ih.elim
        | some rest =>
          simp only [ConfFields] at ih ⊢
          intro hl
          cases item with
          | none =>
            simp only [Conf] at h0
            obtain ⟨cs, hcs, hspec⟩ := ih (by simp [List.length_append] at hl; omega)
            refine ⟨.null :: cs, by simp [h0, hcs], ?_⟩
            simp [specEncFields, fieldOrNull, CqlVal.isNull, bytesFrame, C12Coll.appendBytes_null, hspec]
          | some b =>
            simp only [Conf] at h0
            have hb : b.length < 2^31 := by
              rw [C12Coll.appendBytes_some] at hl
              simp [List.length_append] at hl; omega
            obtain ⟨c, hc, hnn, hs⟩ := h0 hb
            obtain ⟨cs, hcs, hspec⟩ := ih (by simp [List.length_append] at hl; omega)
            refine ⟨c :: cs, by simp [hc, hcs], ?_⟩
            have hb' : b.length < 2147483648 := hb
            simp [specEncFields, fieldOrNull, hnn, hs, hb', bytesFrame, C12Coll.appendBytes_some, hspec]
      | err => trivial
      | crash => exact ih.elim
      | unmodelled => exact ih.elim
    | err => trivial
    | crash => exact h0.elim
    | unmodelled => exact h0.elim

theorem udt_conf (p : Nat) (names : List String) (ts : List CqlTy) (r : MRes) (ocs : Option (List CqlVal))
    (h : ConfFields p ts r ocs) : Conf p (.udt names ts) r (ocs.map CqlVal.tuple) := by
  cases r with
  | ok ob =>
    cases ob with
    | none => exact h.elim
    | some body =>
      simp only [ConfFields] at h
      intro hl
      obtain ⟨cs, hcs, hspec⟩ := h hl
      exact ⟨.tuple cs, by simp [hcs], rfl, by simp [specEnc, hspec]⟩
  | err => trivial
  | crash => exact h.elim
  | unmodelled => exact h.elim

theorem conf_aux (p : Nat) : ∀ (n : Nat) (g : GoVal) (t : CqlTy), sizeOf g ≤ n → nest t = true → wf g →
    documented t g = true → excluded p t g = false → Conf p t (marshal p t g) (interp t g) := by
  intro n
  induction n with
  | zero =>
    intro g t hs
    exfalso
    cases g <;> simp at hs
  | succ n ih =>
    intro g t hs hn hw hd hx
    cases g with
    | nilptr => simp [marshal, interp, Conf]
    | ptr v =>
      simp only [wf, documented, excluded] at hw hd hx
      simp only [marshal, interp]
      exact ih v t (by simp at hs; omega) hn hw hd hx
    | nil =>
      cases t <;> first
        | (simp [nest] at hn; done)
        | (simp only [marshal, interp, wf, documented, excluded] at *; exact scalar_conf p _ _ rfl hw hd hx)
        | (simp [marshal, interp, Conf]; done)
        | (simp [documented] at hd; done)
    | unset =>
      cases t <;> first
        | (simp [nest] at hn; done)
        | (simp only [marshal, interp, wf, documented, excluded] at *; exact scalar_conf p _ _ rfl hw hd hx)
        | (simp [marshal, interp, Conf]; done)
        | (simp [documented] at hd; done)
    | int k named v =>
      cases t <;> first
        | (simp [nest] at hn; done)
        | (simp only [marshal, interp, wf, documented, excluded] at *; exact scalar_conf p _ _ rfl hw hd hx)
        | (simp [marshal, interp, Conf]; done)
        | (simp [documented] at hd; done)
    | str named s =>
      cases t <;> first
        | (simp [nest] at hn; done)
        | (simp only [marshal, interp, wf, documented, excluded] at *; exact scalar_conf p _ _ rfl hw hd hx)
        | (simp [marshal, interp, Conf]; done)
        | (simp [documented] at hd; done)
    | bytes named isNil b =>
      cases t <;> first
        | (simp [nest] at hn; done)
        | (simp only [marshal, interp, wf, documented, excluded] at *; exact scalar_conf p _ _ rfl hw hd hx)
        | (simp [marshal, interp, Conf]; done)
        | (simp [documented] at hd; done)
    | bool named b =>
      cases t <;> first
        | (simp [nest] at hn; done)
        | (simp only [marshal, interp, wf, documented, excluded] at *; exact scalar_conf p _ _ rfl hw hd hx)
        | (simp [marshal, interp, Conf]; done)
        | (simp [documented] at hd; done)
    | f32 named x =>
      cases t <;> first
        | (simp [nest] at hn; done)
        | (simp only [marshal, interp, wf, documented, excluded] at *; exact scalar_conf p _ _ rfl hw hd hx)
        | (simp [marshal, interp, Conf]; done)
        | (simp [documented] at hd; done)
    | f64 named x =>
      cases t <;> first
        | (simp [nest] at hn; done)
        | (simp only [marshal, interp, wf, documented, excluded] at *; exact scalar_conf p _ _ rfl hw hd hx)
        | (simp [marshal, interp, Conf]; done)
        | (simp [documented] at hd; done)
    | big v =>
      cases t <;> first
        | (simp [nest] at hn; done)
        | (simp only [marshal, interp, wf, documented, excluded] at *; exact scalar_conf p _ _ rfl hw hd hx)
        | (simp [marshal, interp, Conf]; done)
        | (simp [documented] at hd; done)
    | dec u sc =>
      cases t <;> first
        | (simp [nest] at hn; done)
        | (simp only [marshal, interp, wf, documented, excluded] at *; exact scalar_conf p _ _ rfl hw hd hx)
        | (simp [marshal, interp, Conf]; done)
        | (simp [documented] at hd; done)
    | time sec nsec =>
      cases t <;> first
        | (simp [nest] at hn; done)
        | (simp only [marshal, interp, wf, documented, excluded] at *; exact scalar_conf p _ _ rfl hw hd hx)
        | (simp [marshal, interp, Conf]; done)
        | (simp [documented] at hd; done)
    | dur ns =>
      cases t <;> first
        | (simp [nest] at hn; done)
        | (simp only [marshal, interp, wf, documented, excluded] at *; exact scalar_conf p _ _ rfl hw hd hx)
        | (simp [marshal, interp, Conf]; done)
        | (simp [documented] at hd; done)
    | cqldur m d n2 =>
      cases t <;> first
        | (simp [nest] at hn; done)
        | (simp only [marshal, interp, wf, documented, excluded] at *; exact scalar_conf p _ _ rfl hw hd hx)
        | (simp [marshal, interp, Conf]; done)
        | (simp [documented] at hd; done)
    | uuid b =>
      cases t <;> first
        | (simp [nest] at hn; done)
        | (simp only [marshal, interp, wf, documented, excluded] at *; exact scalar_conf p _ _ rfl hw hd hx)
        | (simp [marshal, interp, Conf]; done)
        | (simp [documented] at hd; done)
    | arr16 b =>
      cases t <;> first
        | (simp [nest] at hn; done)
        | (simp only [marshal, interp, wf, documented, excluded] at *; exact scalar_conf p _ _ rfl hw hd hx)
        | (simp [marshal, interp, Conf]; done)
        | (simp [documented] at hd; done)
    | ip b =>
      cases t <;> first
        | (simp [nest] at hn; done)
        | (simp only [marshal, interp, wf, documented, excluded] at *; exact scalar_conf p _ _ rfl hw hd hx)
        | (simp [marshal, interp, Conf]; done)
        | (simp [documented] at hd; done)
    | slice isNil vs =>
      cases t with
      | list et =>
        have hn' : nest et = true := by simpa [nest] using hn
        simp only [wf, documented, excluded] at hw hd hx
        have hel : ∀ v ∈ vs, Conf p et (marshal p et v) (interp et v) := fun v hv =>
          ih v et (by have := List.sizeOf_lt_of_mem hv; simp at hs; omega) hn' (wfAll_mem vs hw v hv)
            (documentedAll_mem et vs hd v hv) (excludedElems_mem p et vs hx v hv)
        have hc := seq_conf p et _ _ _ (elems_conf p et vs hel (fun hp2 v hv hnull => by
          have := interp_null v et hnull
          have hxx := excludedElems_nullish p et vs hx v hv
          simp [hp2, this] at hxx))
        simp only [marshal, interp]
        cases isNil <;> first | exact hc.1 | exact hc.2 | simp [Conf]
      | set et =>
        have hn' : nest et = true := by simpa [nest] using hn
        simp only [wf, documented, excluded] at hw hd hx
        have hel : ∀ v ∈ vs, Conf p et (marshal p et v) (interp et v) := fun v hv =>
          ih v et (by have := List.sizeOf_lt_of_mem hv; simp at hs; omega) hn' (wfAll_mem vs hw v hv)
            (documentedAll_mem et vs hd v hv) (excludedElems_mem p et vs hx v hv)
        have hc := seq_conf p et _ _ _ (elems_conf p et vs hel (fun hp2 v hv hnull => by
          have := interp_null v et hnull
          have hxx := excludedElems_nullish p et vs hx v hv
          simp [hp2, this] at hxx))
        simp only [marshal, interp]
        cases isNil <;> first | exact hc.1 | exact hc.2 | simp [Conf]
      | tuple ts =>
        simp only [nest, Bool.and_eq_true, Bool.not_eq_true', List.isEmpty_eq_false_iff] at hn
        simp only [wf, documented, excluded, Bool.and_eq_true, beq_iff_eq] at hw hd hx
        have hal : AllConf p ts vs := allconf_of p ts vs (fun v hv t' => ih v t'
          (by have := List.sizeOf_lt_of_mem hv; simp at hs; omega)) hn.2 hw hd.2 hx
        have hc := tuple_conf p ts hn.1 _ _ (fields_conf p ts vs hn.2 hal)
        simp only [marshal, interp, hd.1, ne_eq, not_true_eq_false, if_false, if_true]
        exact hc
      | _ => first | (simp [nest] at hn; done) | (simp [documented, documentedScalar] at hd; done)
    | array vs =>
      cases t with
      | list et =>
        have hn' : nest et = true := by simpa [nest] using hn
        simp only [wf, documented, excluded] at hw hd hx
        have hel : ∀ v ∈ vs, Conf p et (marshal p et v) (interp et v) := fun v hv =>
          ih v et (by have := List.sizeOf_lt_of_mem hv; simp at hs; omega) hn' (wfAll_mem vs hw v hv)
            (documentedAll_mem et vs hd v hv) (excludedElems_mem p et vs hx v hv)
        have hc := seq_conf p et _ _ _ (elems_conf p et vs hel (fun hp2 v hv hnull => by
          have := interp_null v et hnull
          have hxx := excludedElems_nullish p et vs hx v hv
          simp [hp2, this] at hxx))
        simp only [marshal, interp]
        first | exact hc.1 | exact hc.2
      | set et =>
        have hn' : nest et = true := by simpa [nest] using hn
        simp only [wf, documented, excluded] at hw hd hx
        have hel : ∀ v ∈ vs, Conf p et (marshal p et v) (interp et v) := fun v hv =>
          ih v et (by have := List.sizeOf_lt_of_mem hv; simp at hs; omega) hn' (wfAll_mem vs hw v hv)
            (documentedAll_mem et vs hd v hv) (excludedElems_mem p et vs hx v hv)
        have hc := seq_conf p et _ _ _ (elems_conf p et vs hel (fun hp2 v hv hnull => by
          have := interp_null v et hnull
          have hxx := excludedElems_nullish p et vs hx v hv
          simp [hp2, this] at hxx))
        simp only [marshal, interp]
        first | exact hc.1 | exact hc.2
      | tuple ts =>
        simp only [nest, Bool.and_eq_true, Bool.not_eq_true', List.isEmpty_eq_false_iff] at hn
        simp only [wf, documented, excluded, Bool.and_eq_true, beq_iff_eq] at hw hd hx
        have hal : AllConf p ts vs := allconf_of p ts vs (fun v hv t' => ih v t'
          (by have := List.sizeOf_lt_of_mem hv; simp at hs; omega)) hn.2 hw hd.2 hx
        have hc := tuple_conf p ts hn.1 _ _ (fields_conf p ts vs hn.2 hal)
        simp only [marshal, interp, hd.1, ne_eq, not_true_eq_false, if_false, if_true]
        exact hc
      | _ => first | (simp [nest] at hn; done) | (simp [documented, documentedScalar] at hd; done)
    | ifaces vs =>
      cases t with
      | list et =>
        have hn' : nest et = true := by simpa [nest] using hn
        simp only [wf, documented, excluded] at hw hd hx
        have hel : ∀ v ∈ vs, Conf p et (marshal p et v) (interp et v) := fun v hv =>
          ih v et (by have := List.sizeOf_lt_of_mem hv; simp at hs; omega) hn' (wfAll_mem vs hw v hv)
            (documentedAll_mem et vs hd v hv) (excludedElems_mem p et vs hx v hv)
        have hc := seq_conf p et _ _ _ (elems_conf p et vs hel (fun hp2 v hv hnull => by
          have := interp_null v et hnull
          have hxx := excludedElems_nullish p et vs hx v hv
          simp [hp2, this] at hxx))
        simp only [marshal, interp]
        first | exact hc.1 | exact hc.2
      | set et =>
        have hn' : nest et = true := by simpa [nest] using hn
        simp only [wf, documented, excluded] at hw hd hx
        have hel : ∀ v ∈ vs, Conf p et (marshal p et v) (interp et v) := fun v hv =>
          ih v et (by have := List.sizeOf_lt_of_mem hv; simp at hs; omega) hn' (wfAll_mem vs hw v hv)
            (documentedAll_mem et vs hd v hv) (excludedElems_mem p et vs hx v hv)
        have hc := seq_conf p et _ _ _ (elems_conf p et vs hel (fun hp2 v hv hnull => by
          have := interp_null v et hnull
          have hxx := excludedElems_nullish p et vs hx v hv
          simp [hp2, this] at hxx))
        simp only [marshal, interp]
        first | exact hc.1 | exact hc.2
      | tuple ts =>
        simp only [nest, Bool.and_eq_true, Bool.not_eq_true', List.isEmpty_eq_false_iff] at hn
        simp only [wf, documented, excluded, Bool.and_eq_true, beq_iff_eq] at hw hd hx
        have hal : AllConf p ts vs := allconf_of p ts vs (fun v hv t' => ih v t'
          (by have := List.sizeOf_lt_of_mem hv; simp at hs; omega)) hn.2 hw hd.2 hx
        have hc := tuple_conf p ts hn.1 _ _ (ifaces_conf p ts vs hd.2 hal)
        simp only [marshal, interp, hd.1, ne_eq, not_true_eq_false, if_false, if_true]
        exact hc
      | _ => first | (simp [nest] at hn; done) | (simp [documented, documentedScalar] at hd; done)
    | mapset vs =>
      cases t with
      | list et =>
        have hn' : nest et = true := by simpa [nest] using hn
        simp only [wf, documented, excluded] at hw hd hx
        have hel : ∀ v ∈ vs, Conf p et (marshal p et v) (interp et v) := fun v hv =>
          ih v et (by have := List.sizeOf_lt_of_mem hv; simp at hs; omega) hn' (wfAll_mem vs hw v hv)
            (documentedAll_mem et vs hd v hv) (excludedElems_mem p et vs hx v hv)
        have hc := seq_conf p et _ _ _ (elems_conf p et vs hel (fun hp2 v hv hnull => by
          have := interp_null v et hnull
          have hxx := excludedElems_nullish p et vs hx v hv
          simp [hp2, this] at hxx))
        simp only [marshal, interp]
        first | exact hc.1 | exact hc.2
      | set et =>
        have hn' : nest et = true := by simpa [nest] using hn
        simp only [wf, documented, excluded] at hw hd hx
        have hel : ∀ v ∈ vs, Conf p et (marshal p et v) (interp et v) := fun v hv =>
          ih v et (by have := List.sizeOf_lt_of_mem hv; simp at hs; omega) hn' (wfAll_mem vs hw v hv)
            (documentedAll_mem et vs hd v hv) (excludedElems_mem p et vs hx v hv)
        have hc := seq_conf p et _ _ _ (elems_conf p et vs hel (fun hp2 v hv hnull => by
          have := interp_null v et hnull
          have hxx := excludedElems_nullish p et vs hx v hv
          simp [hp2, this] at hxx))
        simp only [marshal, interp]
        first | exact hc.1 | exact hc.2
      | _ => first | (simp [nest] at hn; done) | (simp [documented, documentedScalar] at hd; done)
    | struct vs =>
      cases t with
      | tuple ts =>
        simp only [nest, Bool.and_eq_true, Bool.not_eq_true', List.isEmpty_eq_false_iff] at hn
        simp only [wf, documented, excluded, Bool.and_eq_true, beq_iff_eq] at hw hd hx
        have hal : AllConf p ts vs := allconf_of p ts vs (fun v hv t' => ih v t'
          (by have := List.sizeOf_lt_of_mem hv; simp at hs; omega)) hn.2 hw hd.2 hx
        have hc := tuple_conf p ts hn.1 _ _ (fields_conf p ts vs hn.2 hal)
        simp only [marshal, interp, hd.1, ne_eq, not_true_eq_false, if_false, if_true]
        exact hc
      | _ => first | (simp [nest] at hn; done) | (simp [documented, documentedScalar] at hd; done)
    | map isNil kvs =>
      cases t with
      | map kt vt =>
        simp only [nest, Bool.and_eq_true] at hn
        simp only [wf, documented, excluded] at hw hd hx
        have hel : ∀ kv ∈ kvs, Conf p kt (marshal p kt kv.1) (interp kt kv.1) ∧ Conf p vt (marshal p vt kv.2) (interp vt kv.2) :=
          fun kv hv => by
            have hsz := List.sizeOf_lt_of_mem hv
            have hkv : sizeOf kv = 1 + sizeOf kv.1 + sizeOf kv.2 := by cases kv; simp
            have hw' := wfPairs_mem kvs hw kv hv
            have hd' := documentedPairs_mem kt vt kvs hd kv hv
            have hx' := excludedPairs_mem p kt vt kvs hx kv hv
            exact ⟨ih kv.1 kt (by simp at hs; omega) hn.1 hw'.1 hd'.1 hx'.1,
                   ih kv.2 vt (by simp at hs; omega) hn.2 hw'.2 hd'.2 hx'.2⟩
        have hc := map_conf p kt vt _ _ _ (pairs_conf p kt vt kvs hel (fun hp2 kv hv => by
          have hxx := excludedPairs_nullish p kt vt kvs hx kv hv
          simp only [hp2, decide_true, Bool.true_and, Bool.or_eq_false_iff] at hxx
          exact ⟨fun hnull => by have := interp_null kv.1 kt hnull; simp [this] at hxx,
                 fun hnull => by have := interp_null kv.2 vt hnull; simp [this] at hxx⟩))
        simp only [marshal, interp]
        cases isNil <;> first | exact hc | simp [Conf]
      | _ => first | (simp [nest] at hn; done) | (simp [documented, documentedScalar] at hd; done)
    | udtmap isNil names vs =>
      cases t with
      | udt unames ts =>
        simp only [nest, Bool.and_eq_true, Bool.not_eq_true', List.isEmpty_eq_false_iff, beq_iff_eq] at hn
        obtain ⟨⟨⟨hne, hnd⟩, hlen⟩, hnest⟩ := hn
        simp only [wf, excluded] at hw hx
        have hf := assemble_conf p _ _ unames ts hlen
          (udt_field_conf p unames ts names vs (fun v hv t' => ih v t'
            (by have := List.sizeOf_lt_of_mem hv; simp at hs; omega)) hnd hnest hw hd hx)
        have hc := udt_conf p unames ts _ _ hf
        simp only [marshal, interp, udtAssemble, interpUdt, if_neg hne]
        exact hc
      | _ => first | (simp [nest] at hn; done) | (simp [documented, documentedScalar] at hd; done)
    | udtstruct names vs =>
      cases t with
      | udt unames ts =>
        simp only [nest, Bool.and_eq_true, Bool.not_eq_true', List.isEmpty_eq_false_iff, beq_iff_eq] at hn
        obtain ⟨⟨⟨hne, hnd⟩, hlen⟩, hnest⟩ := hn
        simp only [wf, excluded] at hw hx
        have hf := assemble_conf p _ _ unames ts hlen
          (udt_field_conf p unames ts names vs (fun v hv t' => ih v t'
            (by have := List.sizeOf_lt_of_mem hv; simp at hs; omega)) hnd hnest hw hd hx)
        have hc := udt_conf p unames ts _ _ hf
        simp only [marshal, interp, udtAssemble, interpUdt, if_neg hne]
        exact hc
      | _ => first | (simp [nest] at hn; done) | (simp [documented, documentedScalar] at hd; done)

/-- CONFORMANCE BY STRUCTURAL INDUCTION -/
theorem marshal_conforms (p : Nat) (t : CqlTy) (g : GoVal) (hn : nest t = true) (hw : wf g)
    (hd : documented t g = true) (hx : excluded p t g = false) : Conf p t (marshal p t g) (interp t g) :=
  conf_aux p (sizeOf g) g t (Nat.le_refl _) hn hw hd hx

end C12Nest
