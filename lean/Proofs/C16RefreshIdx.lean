import Model.Ring
import Proofs.C16Ring
import Proofs.C16Refresh
import Proofs.C16Index
/-! helper lemmas: the by-address index along the diff loop of refreshRing (repaired `removeHost`).

Inside the loop two hosts can share an address (a new host id on the address of a host that has not
been removed yet; two hosts swapping addresses), so full consistency (`RInv`) is NOT a loop invariant.
The loop invariant `IdxCore acc accA` is: weak consistency (`Cov`: every address of a host of the ring
is indexed to a host of the ring with that address), every host ACCEPTED so far (id in `acc`) is the one
its address is indexed to, accepted hosts have their address in `accA`, and the not-yet-accepted hosts
(the old ones) have pairwise distinct addresses. -/
namespace C16
open Ring

structure IdxCore (acc accA : List Nat) (r : Ring.Ring) : Prop where
  knodup : (keys r.byId).Nodup
  cov : Cov r
  accIdx : ∀ e ∈ r.byId, e.1 ∈ acc → lookup r.byIp e.2.addr = some e.1
  accAddr : ∀ e ∈ r.byId, e.1 ∈ acc → e.2.addr ∈ accA
  oldUniq : ∀ e1 ∈ r.byId, ∀ e2 ∈ r.byId, e1.1 ∉ acc → e2.1 ∉ acc → e1.2.addr = e2.2.addr → e1.1 = e2.1

theorem IdxCore_of_RInv (r : Ring.Ring) (hr : RInv r) : IdxCore [] [] r :=
  ⟨hr.knodup, RInv_cov r hr, by simp, by simp, fun e1 h1 e2 h2 _ _ heq => hr.uniq e1 h1 e2 h2 heq⟩

/-- at the end (every host accepted) the loop invariant is full consistency -/
theorem RInv_of_IdxCore (acc accA : List Nat) (r : Ring.Ring) (hw : WF r.byId) (hc : IdxCore acc accA r)
    (hall : ∀ e ∈ r.byId, e.1 ∈ acc) : RInv r := by
  refine ⟨hw, hc.knodup, fun e he => hc.accIdx e he (hall e he), ?_⟩
  intro e1 he1 e2 he2 heq
  have a := hc.accIdx e1 he1 (hall e1 he1)
  have b := hc.accIdx e2 he2 (hall e2 he2)
  rw [heq, b] at a
  exact (Option.some.inj a).symm

/-- removing a host that has not been accepted (an old host: vanished, or about to be re-added on its
new address) -/
theorem IdxCore_remove (acc accA : List Nat) (r : Ring.Ring) (hc : IdxCore acc accA r) (k : Nat) (hk : k ∉ acc) :
    IdxCore acc accA (r.remove k).1 := by
  have hK : ∀ e ∈ r.byId, e.1 ≠ k → lookup r.byIp e.2.addr ≠ some k := by
    intro e he hne hidx
    obtain ⟨e', he', h1, h2⟩ := hc.cov e he
    rw [h2] at hidx
    have hk' : e'.1 = k := Option.some.inj hidx
    by_cases hacc : e.1 ∈ acc
    · have := hc.accIdx e he hacc
      rw [h2] at this
      exact hne ((Option.some.inj this).symm.trans hk')
    · have := hc.oldUniq e he e' he' hacc (fun h => hk (hk' ▸ h)) h1.symm
      exact hne (this.trans hk')
  refine ⟨knodup_remove r hc.knodup k, Cov_remove r hc.cov k hK, ?_, ?_, ?_⟩
  · intro e he hacc
    rw [mem_remove] at he
    rw [byIp_remove_keep r k _ (hK e he.1 he.2)]
    exact hc.accIdx e he.1 hacc
  · intro e he hacc
    rw [mem_remove] at he
    exact hc.accAddr e he.1 hacc
  · intro e1 he1 e2 he2 h1 h2 heq
    rw [mem_remove] at he1 he2
    exact hc.oldUniq e1 he1.1 e2 he2.1 h1 h2 heq

/-- adding an accepted host with a new id; its address is not the address of an earlier accepted host -/
theorem IdxCore_add_new (acc accA : List Nat) (r : Ring.Ring) (hc : IdxCore acc accA r) (h : RHost)
    (hn : lookup r.byId h.id = none) (ha : h.addr ∉ accA) :
    IdxCore (acc ++ [h.id]) (accA ++ [h.addr]) (r.addIfMissing h).1 := by
  have hnk : ∀ e ∈ r.byId, e.1 ≠ h.id := by
    intro e he hk
    rw [lookup_eq_none] at hn
    exact hn (hk ▸ List.mem_map.mpr ⟨e, he, rfl⟩)
  have old : ∀ e ∈ r.byId, e.1 ∈ acc ++ [h.id] → e.1 ∈ acc := by
    intro e he hacc
    rcases List.mem_append.mp hacc with h1 | h1
    · exact h1
    · exact absurd (List.mem_singleton.mp h1) (hnk e he)
  have isOld : ∀ e ∈ (r.addIfMissing h).1.byId, e.1 ∉ acc ++ [h.id] → e ∈ r.byId := by
    intro e he hna
    rcases (mem_add_new r h hn e).mp he with rfl | he
    · exact absurd (List.mem_append_right _ (List.mem_singleton.mpr rfl)) hna
    · exact he
  refine ⟨knodup_addIfMissing r hc.knodup h, Cov_addIfMissing r hc.cov h, ?_, ?_, ?_⟩
  · intro e he hacc
    rw [byIp_add_new r h hn]
    rcases (mem_add_new r h hn e).mp he with rfl | he
    · exact lookup_put_self _ _ _
    · have hacc' := old e he hacc
      have hne : e.2.addr ≠ h.addr := fun heq => ha (heq ▸ hc.accAddr e he hacc')
      rw [lookup_put_ne _ _ _ _ hne]
      exact hc.accIdx e he hacc'
  · intro e he hacc
    rcases (mem_add_new r h hn e).mp he with rfl | he
    · exact List.mem_append_right _ (List.mem_singleton.mpr rfl)
    · exact List.mem_append_left _ (hc.accAddr e he (old e he hacc))
  · intro e1 he1 e2 he2 h1 h2 heq
    exact hc.oldUniq e1 (isOld e1 he1 h1) e2 (isOld e2 he2 h2)
      (fun h => h1 (List.mem_append_left _ h)) (fun h => h2 (List.mem_append_left _ h)) heq

/-- accepting a host that stays in place (same id, same address: `host.update(h)`) -/
theorem IdxCore_accept (acc accA : List Nat) (r : Ring.Ring) (hc : IdxCore acc accA r) (e0 : Nat × RHost)
    (he0 : e0 ∈ r.byId) (hk : e0.1 ∉ acc) (ha : e0.2.addr ∉ accA) :
    IdxCore (acc ++ [e0.1]) (accA ++ [e0.2.addr]) r := by
  refine ⟨hc.knodup, hc.cov, ?_, ?_, ?_⟩
  · intro e he hacc
    rcases List.mem_append.mp hacc with h1 | h1
    · exact hc.accIdx e he h1
    · have : e = e0 := mem_key_unique _ hc.knodup e e0 he he0 (List.mem_singleton.mp h1)
      subst this
      obtain ⟨e', he', h1', h2⟩ := hc.cov e he
      have hnacc : e'.1 ∉ acc := fun h => ha (h1' ▸ hc.accAddr e' he' h)
      have := hc.oldUniq e' he' e he hnacc hk h1'
      rw [h2, this]
  · intro e he hacc
    rcases List.mem_append.mp hacc with h1 | h1
    · exact List.mem_append_left _ (hc.accAddr e he h1)
    · have : e = e0 := mem_key_unique _ hc.knodup e e0 he he0 (List.mem_singleton.mp h1)
      subst this
      exact List.mem_append_right _ (List.mem_singleton.mpr rfl)
  · intro e1 he1 e2 he2 h1 h2 heq
    exact hc.oldUniq e1 he1 e2 he2 (fun h => h1 (List.mem_append_left _ h)) (fun h => h2 (List.mem_append_left _ h)) heq

theorem IdxCore_removeAll (acc accA : List Nat) (prev : List (Nat × RHost)) (hp : ∀ p ∈ prev, p.2.id ∉ acc)
    (r : Ring.Ring) (hc : IdxCore acc accA r) : IdxCore acc accA (removeAll r prev) := by
  induction prev generalizing r with
  | nil => exact hc
  | cons p t ih =>
    obtain ⟨k, v⟩ := p
    unfold removeAll
    exact ih (fun p hp' => hp p (List.mem_cons_of_mem _ hp')) _
      (IdxCore_remove acc accA r hc v.id (hp (k, v) List.mem_cons_self))

/-- the part of the loop invariant that speaks of the indexes: `IdxCore` + every entry of `prevHosts`
is the ring's entry of a not-yet-accepted host -/
structure IdxInv (acc accA : List Nat) (st : Ring.Ring × List (Nat × RHost) × Effects) : Prop where
  core : IdxCore acc accA st.1
  prevSub : ∀ e ∈ st.2.1, e ∈ st.1.byId ∧ e.1 ∉ acc

theorem prevSub_erase (acc : List Nat) (prev byId byId' : List (Nat × RHost)) (k : Nat)
    (hp : ∀ e ∈ prev, e ∈ byId ∧ e.1 ∉ acc) (hk : ∀ e ∈ byId, e.1 ≠ k → e ∈ byId') :
    ∀ e ∈ erase prev k, e ∈ byId' ∧ e.1 ∉ acc ++ [k] := by
  intro e he
  rw [mem_erase] at he
  have ⟨h1, h2⟩ := hp e he.1
  refine ⟨hk e h1 he.2, ?_⟩
  intro hacc
  rcases List.mem_append.mp hacc with h3 | h3
  · exact h2 h3
  · exact he.2 (List.mem_singleton.mp h3)

theorem step_idx (filter : RHost → Bool) (r0 : Ring.Ring) (acc accA : List Nat)
    (st : Ring.Ring × List (Nat × RHost) × Effects) (h : RHost) (hi : LoopInv r0 acc st) (hx : IdxInv acc accA st)
    (hf : filter h = false) (hnew : h.id ∉ acc) (ha : h.addr ∉ accA) :
    IdxInv (acc ++ [h.id]) (accA ++ [h.addr]) (refreshStep filter st h).1 := by
  obtain ⟨r, prev, eff⟩ := st
  have hcore : IdxCore acc accA r := hx.core
  have hps : ∀ e ∈ prev, e ∈ r.byId ∧ e.1 ∉ acc := hx.prevSub
  unfold refreshStep
  simp only [hf, Bool.false_eq_true, ↓reduceIte]
  cases hl : lookup r.byId h.id with
  | none =>
    have e1 : r.addIfMissing h = ((r.addIfMissing h).1, h, false) := by rw [addIfMissing_of_none r h hl]
    rw [e1]
    dsimp only
    refine ⟨IdxCore_add_new acc accA r hcore h hl ha, ?_⟩
    exact prevSub_erase acc prev r.byId _ h.id hps (fun e he _ => (mem_add_new r h hl e).mpr (Or.inr he))
  | some e0 =>
    rw [addIfMissing_of_some r h e0 hl]
    dsimp only
    have hex : h.id ∈ keys r.byId := lookup_mem_keys _ _ _ hl
    have hin0 : h.id ∈ keys r0.byId := by
      rcases (hi.ids h.id).mp hex with h1 | h1
      · exact h1
      · exact absurd h1 hnew
    have hinp : h.id ∈ keys prev := (hi.prev h.id).mpr ⟨hin0, hnew⟩
    cases hlp : lookup prev h.id with
    | none => rw [lookup_eq_none] at hlp; exact absurd hinp hlp
    | some ex =>
      dsimp only
      have hexm : (h.id, ex) ∈ prev := lookup_some_mem _ _ _ hlp
      have hexr : (h.id, ex) ∈ r.byId := (hps _ hexm).1
      have hexid : ex.id = h.id := hi.wfp _ hexm
      by_cases hcond : (h.caddr == ex.caddr && h.addr == ex.addr) = true
      · rw [if_pos hcond]
        dsimp only
        have hadr : ex.addr = h.addr := by
          simp only [Bool.and_eq_true, beq_iff_eq] at hcond
          exact hcond.2.symm
        refine ⟨?_, prevSub_erase acc prev r.byId _ h.id hps (fun e he _ => he)⟩
        have := IdxCore_accept acc accA r hcore (h.id, ex) hexr hnew (by rw [hadr]; exact ha)
        dsimp only at this
        rw [hadr] at this
        exact this
      · rw [if_neg hcond]
        rw [hexid]
        have hl2 : lookup (r.remove h.id).1.byId h.id = none := by
          rw [lookup_eq_none, ids_remove]
          exact fun hh => hh.2 rfl
        have e2 : (r.remove h.id).1.addIfMissing h = (((r.remove h.id).1.addIfMissing h).1, h, false) := by
          rw [addIfMissing_of_none _ h hl2]
        rw [e2]
        dsimp only
        refine ⟨IdxCore_add_new acc accA _ (IdxCore_remove acc accA r hcore h.id hnew) h hl2 ha, ?_⟩
        exact prevSub_erase acc prev r.byId _ h.id hps (fun e he hne =>
          (mem_add_new _ h hl2 e).mpr (Or.inr ((mem_remove r h.id e).mpr ⟨he, hne⟩)))

def acceptedAddrs (filter : RHost → Bool) (reported : List RHost) : List Nat :=
  (reported.filter (fun h => !filter h)).map (·.addr)

theorem loop_idx (filter : RHost → Bool) (r0 : Ring.Ring) (reported : List RHost) :
    ∀ (acc accA : List Nat) (st : Ring.Ring × List (Nat × RHost) × Effects), LoopInv r0 acc st → IdxInv acc accA st →
      (acceptedIds filter reported).Nodup → (∀ id ∈ acceptedIds filter reported, id ∉ acc) →
      (acceptedAddrs filter reported).Nodup → (∀ a ∈ acceptedAddrs filter reported, a ∉ accA) →
      IdxInv (acc ++ acceptedIds filter reported) (accA ++ acceptedAddrs filter reported) (refreshLoop filter reported st).1 := by
  induction reported with
  | nil =>
    intro acc accA st _ hx _ _ _ _
    simp only [acceptedIds, acceptedAddrs, List.filter_nil, List.map_nil, List.append_nil]
    exact hx
  | cons h t ih =>
    intro acc accA st hi hx hn hd hna hda
    unfold refreshLoop
    cases hf : filter h with
    | true =>
      rw [step_filtered filter st h hf]
      simp only [if_true]
      have e : acceptedIds filter (h :: t) = acceptedIds filter t := by simp [acceptedIds, hf]
      have e' : acceptedAddrs filter (h :: t) = acceptedAddrs filter t := by simp [acceptedAddrs, hf]
      rw [e] at hn hd ⊢
      rw [e'] at hna hda ⊢
      exact ih acc accA st hi hx hn hd hna hda
    | false =>
      have e : acceptedIds filter (h :: t) = h.id :: acceptedIds filter t := by simp [acceptedIds, hf]
      have e' : acceptedAddrs filter (h :: t) = h.addr :: acceptedAddrs filter t := by simp [acceptedAddrs, hf]
      rw [e] at hn hd ⊢
      rw [e'] at hna hda ⊢
      rw [List.nodup_cons] at hn hna
      have hnew := hd h.id List.mem_cons_self
      have hanew := hda h.addr List.mem_cons_self
      have ⟨hok, hi'⟩ := step_inv filter r0 acc st h hi hf hnew
      have hx' := step_idx filter r0 acc accA st h hi hx hf hnew hanew
      generalize refreshStep filter st h = res at hok hi' hx'
      obtain ⟨st', res'⟩ := res
      dsimp only at hok hi' hx' ⊢
      subst hok
      simp only [if_true]
      have := ih (acc ++ [h.id]) (accA ++ [h.addr]) st' hi' hx' hn.2 (by
        intro id hid hacc
        rw [List.mem_append, List.mem_singleton] at hacc
        rcases hacc with h1 | h1
        · exact hd id (List.mem_cons_of_mem _ hid) h1
        · subst h1; exact hn.1 hid) hna.2 (by
        intro a hid hacc
        rw [List.mem_append, List.mem_singleton] at hacc
        rcases hacc with h1 | h1
        · exact hda a (List.mem_cons_of_mem _ hid) h1
        · subst h1; exact hna.1 hid)
      rw [List.append_assoc, List.append_assoc] at this
      exact this

/-- every ring reachable by ring operations and refreshes stores each host under its own id -/
theorem WF_refresh (r : Ring.Ring) (hw : WF r.byId) (filter : RHost → Bool) (reported : List RHost)
    (hn : (acceptedIds filter reported).Nodup) : WF (r.refresh filter reported).1.byId := by
  have h0 : LoopInv r [] (r, r.byId, {}) := ⟨by simp, by simp, hw, hw⟩
  have ⟨hok, hi⟩ := loop_inv filter r reported [] _ h0 hn (by simp)
  unfold Ring.refresh
  generalize refreshLoop filter reported (r, r.byId, {}) = res at hok hi
  obtain ⟨⟨r1, prev, eff⟩, res'⟩ := res
  dsimp only at hok hi
  subst hok
  dsimp only
  have : ∀ (p : List (Nat × RHost)) (r : Ring.Ring), WF r.byId → WF (removeAll r p).byId := by
    intro p
    induction p with
    | nil => intro r h; exact h
    | cons e t ih => intro r h; obtain ⟨k, v⟩ := e; exact ih _ (WF_remove r v.id h)
  exact this prev r1 hi.wf

/-- a refresh whose accepted reported hosts have pairwise distinct ids and pairwise distinct addresses
takes a fully consistent ring to a fully consistent ring -/
theorem refresh_RInv (r : Ring.Ring) (hr : RInv r) (filter : RHost → Bool) (reported : List RHost)
    (hn : (acceptedIds filter reported).Nodup) (hna : (acceptedAddrs filter reported).Nodup) :
    RInv (r.refresh filter reported).1 := by
  have hwf := WF_refresh r hr.wf filter reported hn
  have hex := (refresh_exact r hr.wf filter reported hn).2
  have h0 : LoopInv r [] (r, r.byId, {}) := ⟨by simp, by simp, hr.wf, hr.wf⟩
  have hx0 : IdxInv [] [] (r, r.byId, {}) := ⟨IdxCore_of_RInv r hr, fun e he => ⟨he, by simp⟩⟩
  have ⟨hok, hi⟩ := loop_inv filter r reported [] _ h0 hn (by simp)
  have hx := loop_idx filter r reported [] [] _ h0 hx0 hn (by simp) hna (by simp)
  unfold Ring.refresh at hwf hex ⊢
  generalize refreshLoop filter reported (r, r.byId, {}) = res at hok hi hx hwf hex
  obtain ⟨⟨r1, prev, eff⟩, res'⟩ := res
  dsimp only at hok hi hx
  subst hok
  dsimp only at hwf hex ⊢
  simp only [List.nil_append] at hx
  have hp : ∀ p ∈ prev, p.2.id ∉ acceptedIds filter reported := by
    intro p hp
    rw [hi.wfp p hp]
    exact (hx.prevSub p hp).2
  have hc := IdxCore_removeAll _ _ prev hp r1 hx.core
  exact RInv_of_IdxCore _ _ _ hwf hc (fun e he => (hex e.1).mp (List.mem_map.mpr ⟨e, he, rfl⟩))

/-! ### any property kept by the two mutating ring operations is kept by a refresh (whatever is reported) -/

theorem step_preserves (P : Ring.Ring → Prop) (hadd : ∀ r h, P r → P (r.addIfMissing h).1)
    (hrm : ∀ r k, P r → P (r.remove k).1) (filter : RHost → Bool)
    (st : Ring.Ring × List (Nat × RHost) × Effects) (h : RHost) (hp : P st.1) : P (refreshStep filter st h).1.1 := by
  obtain ⟨r, prev, eff⟩ := st
  unfold refreshStep
  cases hf : filter h with
  | true => simpa using hp
  | false =>
    simp only [Bool.false_eq_true, ↓reduceIte]
    cases hl : lookup r.byId h.id with
    | none =>
      have e1 : r.addIfMissing h = ((r.addIfMissing h).1, h, false) := by rw [addIfMissing_of_none r h hl]
      rw [e1]
      exact hadd r h hp
    | some e0 =>
      rw [addIfMissing_of_some r h e0 hl]
      dsimp only
      cases hlp : lookup prev h.id with
      | none => exact hp
      | some ex =>
        dsimp only
        by_cases hcond : (h.caddr == ex.caddr && h.addr == ex.addr) = true
        · rw [if_pos hcond]; exact hp
        · rw [if_neg hcond]
          have hp2 := hrm r ex.id hp
          cases hl2 : lookup (r.remove ex.id).1.byId h.id with
          | none =>
            have e2 : (r.remove ex.id).1.addIfMissing h = (((r.remove ex.id).1.addIfMissing h).1, h, false) := by
              rw [addIfMissing_of_none _ h hl2]
            rw [e2]
            exact hadd _ h hp2
          | some e3 =>
            rw [addIfMissing_of_some _ h e3 hl2]
            exact hp2

theorem loop_preserves (P : Ring.Ring → Prop) (hadd : ∀ r h, P r → P (r.addIfMissing h).1)
    (hrm : ∀ r k, P r → P (r.remove k).1) (filter : RHost → Bool) (reported : List RHost) :
    ∀ (st : Ring.Ring × List (Nat × RHost) × Effects), P st.1 → P (refreshLoop filter reported st).1.1 := by
  induction reported with
  | nil => intro st hp; exact hp
  | cons h t ih =>
    intro st hp
    unfold refreshLoop
    have := step_preserves P hadd hrm filter st h hp
    generalize refreshStep filter st h = res at this
    obtain ⟨st', res'⟩ := res
    dsimp only at this ⊢
    split
    · exact ih st' this
    · exact this

theorem removeAll_preserves (P : Ring.Ring → Prop) (hrm : ∀ r k, P r → P (r.remove k).1)
    (prev : List (Nat × RHost)) : ∀ r, P r → P (removeAll r prev) := by
  induction prev with
  | nil => intro r hp; exact hp
  | cons p t ih => intro r hp; obtain ⟨k, v⟩ := p; exact ih _ (hrm r v.id hp)

theorem refresh_preserves (P : Ring.Ring → Prop) (hadd : ∀ r h, P r → P (r.addIfMissing h).1)
    (hrm : ∀ r k, P r → P (r.remove k).1) (r : Ring.Ring) (hp : P r) (filter : RHost → Bool) (reported : List RHost) :
    P (r.refresh filter reported).1 := by
  have := loop_preserves P hadd hrm filter reported (r, r.byId, {}) hp
  unfold Ring.refresh
  generalize refreshLoop filter reported (r, r.byId, {}) = res at this
  obtain ⟨⟨r1, prev, eff⟩, res'⟩ := res
  dsimp only at this
  cases res' with
  | ok => exact removeAll_preserves P hrm prev r1 this
  | errCannotFind => exact this
  | errAlreadyExists => exact this

end C16
