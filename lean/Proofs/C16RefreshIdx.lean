import Model.Ring
import Proofs.C16Ring
import Proofs.C16Refresh
import Proofs.C16Index
/-! helper lemmas: the by-address index along refreshRing (repaired: removals first, then additions).

Pass 1 only removes hosts, which keeps full consistency (`RInv_remove`). Every host that is left has the
node address of an accepted reported row of its id; pass 2 adds accepted rows whose id is missing, so a
host added never meets a host with another id on its address as long as the accepted rows have pairwise
distinct node addresses: full consistency (`RInv`) is an invariant of both loops. (Before the repair hosts
were added while the previous owner of their address was still in the ring.) -/
namespace C16
open Ring

/-! ### any property kept by the two mutating ring operations is kept by a refresh (whatever is reported) -/

theorem removeAll_preserves (P : Ring.Ring → Prop) (hrm : ∀ r k, P r → P (r.remove k).1)
    (prev : List (Nat × RHost)) : ∀ r, P r → P (removeAll r prev) := by
  induction prev with
  | nil => intro r hp; exact hp
  | cons p t ih => intro r hp; obtain ⟨k, v⟩ := p; exact ih _ (hrm r v.id hp)

theorem addAll_preserves (P : Ring.Ring → Prop) (hadd : ∀ r h, P r → P (r.addIfMissing h).1)
    (l : List RHost) : ∀ r, P r → P (l.foldl (fun r h => (r.addIfMissing h).1) r) := by
  induction l with
  | nil => intro r hp; exact hp
  | cons h t ih => intro r hp; exact ih _ (hadd r h hp)

theorem refresh_preserves (P : Ring.Ring → Prop) (hadd : ∀ r h, P r → P (r.addIfMissing h).1)
    (hrm : ∀ r k, P r → P (r.remove k).1) (r : Ring.Ring) (hp : P r) (filter : RHost → Bool) (reported : List RHost) :
    P (r.refresh filter reported).1 := by
  rw [refresh_ring]
  exact addAll_preserves P hadd _ _ (removeAll_preserves P hrm _ r hp)

/-! ### full consistency -/

def acceptedAddrs (filter : RHost → Bool) (reported : List RHost) : List Nat :=
  (reported.filter (fun h => !filter h)).map (·.addr)

theorem eq_of_nodup_map {α β : Type} (f : α → β) (l : List α) (hn : (l.map f).Nodup) (x y : α) (hx : x ∈ l) (hy : y ∈ l)
    (he : f x = f y) : x = y := by
  induction l with
  | nil => cases hx
  | cons a t ih =>
    simp only [List.map_cons, List.nodup_cons] at hn
    rcases List.mem_cons.mp hx with rfl | hx' <;> rcases List.mem_cons.mp hy with rfl | hy'
    · rfl
    · exact absurd (List.mem_map.mpr ⟨y, hy', he.symm⟩) hn.1
    · exact absurd (List.mem_map.mpr ⟨x, hx', he⟩) hn.1
    · exact ih hn.2 hx' hy'

/-- every host of the ring has the id and node address of a host of `acc` -/
def Matched (acc : List RHost) (r : Ring.Ring) : Prop := ∀ e ∈ r.byId, ∃ h ∈ acc, h.id = e.1 ∧ h.addr = e.2.addr

theorem addAll_RInv (acc : List RHost) (hna : (acc.map (·.addr)).Nodup) (l : List RHost) (hl : ∀ h ∈ l, h ∈ acc) :
    ∀ (r : Ring.Ring), RInv r → Matched acc r →
      RInv (l.foldl (fun r h => (r.addIfMissing h).1) r) ∧ Matched acc (l.foldl (fun r h => (r.addIfMissing h).1) r) := by
  induction l with
  | nil => intro r hr hm; exact ⟨hr, hm⟩
  | cons h t ih =>
    intro r hr hm
    simp only [List.foldl_cons]
    apply ih (fun x hx => hl x (List.mem_cons_of_mem _ hx))
    · apply RInv_addIfMissing r hr h
      intro e he heq
      obtain ⟨h', hh', hid, had⟩ := hm e he
      have : h' = h := eq_of_nodup_map (·.addr) acc hna h' h hh' (hl h List.mem_cons_self) (had.trans heq)
      rw [← hid, this]
    · cases hlk : lookup r.byId h.id with
      | some e0 => rw [addIfMissing_of_some r h e0 hlk]; exact hm
      | none =>
        intro e he
        rcases (mem_add_new r h hlk e).mp he with rfl | he
        · exact ⟨h, hl h List.mem_cons_self, rfl, rfl⟩
        · exact hm e he

/-- a refresh whose accepted reported hosts have pairwise distinct node addresses takes a fully consistent
ring to a fully consistent ring (host ids may be reported twice: the first row counts) -/
theorem refresh_RInv (r : Ring.Ring) (hr : RInv r) (filter : RHost → Bool) (reported : List RHost)
    (hna : (acceptedAddrs filter reported).Nodup) : RInv (r.refresh filter reported).1 := by
  rw [refresh_ring]
  have h1 : RInv (removeAll r (goneOf r filter reported)) := removeAll_preserves RInv (fun r k h => RInv_remove r h k) _ r hr
  have h2 : Matched (reported.filter (fun h => !filter h)) (removeAll r (goneOf r filter reported)) := by
    intro e he
    have hm := (mem_pass1 r hr.wf hr.knodup filter reported e).mp he
    have hst := hm.2
    unfold stays at hst
    cases hl : lookup (reportedMap filter reported) e.1 with
    | none => rw [hl] at hst; cases hst
    | some x =>
      rw [hl] at hst
      simp only [Bool.and_eq_true, beq_iff_eq] at hst
      have hmem := lookup_some_mem _ _ _ hl
      unfold reportedMap at hmem
      obtain ⟨y, hy, hyx⟩ := List.mem_map.mp hmem
      have h1 : y.id = e.1 := congrArg Prod.fst hyx
      have h2 : y = x := congrArg Prod.snd hyx
      exact ⟨y, hy, h1, by rw [h2]; exact hst.2⟩
  exact (addAll_RInv _ hna _ (fun _ h => h) _ h1 h2).1

end C16
