import Model.Uuid
import Proofs.C19Parse
/-! helper lemmas for C19: bit packing of the timestamp, version / variant stamping -/
namespace Uuid

theorem forall_byte (P : UInt8 → Prop) (h : ∀ n : Fin 256, P (UInt8.ofNat n.val)) : ∀ x : UInt8, P x := by
  intro x
  have := h ⟨x.toNat, x.toNat_lt⟩
  simpa using this

set_option maxRecDepth 8192 in
theorem v1_version (x : UInt8) : ((((x &&& 0x0F) ||| 0x10) &&& 0xF0) >>> 4).toNat = 1 := by
  revert x; apply forall_byte; decide

set_option maxRecDepth 8192 in
theorem v1_low (x : UInt8) : (((x &&& 0x0F) ||| 0x10) &&& 0x0F).toNat = x.toNat % 16 := by
  revert x; apply forall_byte; decide

set_option maxRecDepth 8192 in
theorem v4_version (x : UInt8) : ((((x &&& 0x0F) ||| 0x40) &&& 0xF0) >>> 4).toNat = 4 := by
  revert x; apply forall_byte; decide

set_option maxRecDepth 8192 in
theorem v4_low (x : UInt8) : (((x &&& 0x0F) ||| 0x40) &&& 0x0F) = x &&& 0x0F := by
  revert x; apply forall_byte; decide

set_option maxRecDepth 8192 in
theorem var_stamp (x : UInt8) :
    (((x &&& 0x3F) ||| 0x80) &&& 0x80 ≠ 0) ∧ (((x &&& 0x3F) ||| 0x80) &&& 0x40 = 0) := by
  revert x; apply forall_byte; decide

set_option maxRecDepth 8192 in
theorem var_low (x : UInt8) : (((x &&& 0x3F) ||| 0x80) &&& 0x3F).toNat = x.toNat % 64 := by
  revert x; apply forall_byte; decide

set_option maxRecDepth 8192 in
theorem var_toNat (x : UInt8) : ((x &&& 0x3F) ||| 0x80).toNat = x.toNat % 64 + 128 := by
  revert x; apply forall_byte; decide

set_option maxRecDepth 8192 in
theorem v1_toNat (x : UInt8) : ((x &&& 0x0F) ||| 0x10).toNat = x.toNat % 16 + 16 := by
  revert x; apply forall_byte; decide

set_option maxRecDepth 8192 in
theorem version_eq_div (x : UInt8) : ((x &&& 0xF0) >>> 4).toNat = x.toNat / 16 := by
  revert x; apply forall_byte; decide

set_option maxRecDepth 8192 in
theorem low4_eq_mod (x : UInt8) : (x &&& 0x0F).toNat = x.toNat % 16 := by
  revert x; apply forall_byte; decide

set_option maxRecDepth 8192 in
theorem low6_eq_mod (x : UInt8) : (x &&& 0x3F).toNat = x.toNat % 64 := by
  revert x; apply forall_byte; decide

/-- variant = IETF ⇔ the byte is 0x80..0xBF -/
theorem variant_ietf_iff_byte : ∀ x : UInt8,
    ((if x &&& 0x80 = 0 then 0 else if x &&& 0x40 = 0 then 2 else if x &&& 0x20 = 0 then 6 else 7) = 2) ↔
      (128 ≤ x.toNat ∧ x.toNat < 192) := by
  set_option maxRecDepth 8192 in
  apply forall_byte; decide

theorem tbyte_toNat (t k : Nat) : (tbyte t k).toNat = t / 2 ^ k % 256 := by
  simp [tbyte, UInt8.toNat_ofNat', Nat.shiftRight_eq_div_pow]

theorem or_shl (a i y : Nat) (hy : y < 2 ^ i) : a <<< i ||| y = a * 2 ^ i + y := by
  rw [← Nat.shiftLeft_add_eq_or_of_lt hy, Nat.shiftLeft_eq]

/-- the three `|`-groups of `Timestamp()` are plain positional sums -/
theorem ts_sum (a b c d e f g h : Nat) (_ha : a < 256) (hb : b < 256) (hc : c < 256) (hd : d < 256)
    (_he : e < 256) (hf : f < 256) (_hg : g < 256) (hh : h < 256) :
    (a <<< 24 ||| b <<< 16 ||| c <<< 8 ||| d) + (e <<< 40 ||| f <<< 32) + (g <<< 56 ||| h <<< 48)
      = a * 2^24 + b * 2^16 + c * 2^8 + d + (e * 2^40 + f * 2^32) + (g * 2^56 + h * 2^48) := by
  have e1 : c <<< 8 ||| d = c * 2^8 + d := or_shl c 8 d (by omega)
  have e2 : b <<< 16 ||| (c <<< 8 ||| d) = b * 2^16 + (c * 2^8 + d) := by
    rw [e1]; exact or_shl b 16 _ (by omega)
  have e3 : a <<< 24 ||| (b <<< 16 ||| (c <<< 8 ||| d)) = a * 2^24 + (b * 2^16 + (c * 2^8 + d)) := by
    rw [e2]; exact or_shl a 24 _ (by omega)
  have e4 : e <<< 40 ||| f <<< 32 = e * 2^40 + f * 2^32 := by
    rw [Nat.shiftLeft_eq f 32]; exact or_shl e 40 _ (by omega)
  have e5 : g <<< 56 ||| h <<< 48 = g * 2^56 + h * 2^48 := by
    rw [Nat.shiftLeft_eq h 48]; exact or_shl g 56 _ (by omega)
  rw [Nat.or_assoc, Nat.or_assoc, e3, e4, e5]; omega

end Uuid
