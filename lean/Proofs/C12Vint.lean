import Proofs.C12Scalar
/-!
# C12: zig-zag and the unsigned vint of marshal.go (encIntZigZag, encVint) against the specification
-/
namespace C12Vint
open ValueSpec Marshal C12Bytes

/-- `uint64((n >> 63) ^ (n << 1))` is the zig-zag code, for every int64 -/
theorem encIntZigZag_spec (n : Int) (h : fitsS 8 n = true) : encIntZigZag n = zigzag n := by
  simp [fitsS, leB_iff, ltB_iff] at h
  unfold encIntZigZag zigzag
  have hx : (BitVec.ofInt 64 n).toInt = n := by
    rw [BitVec.toInt_ofInt]
    unfold Int.bmod
    simp
    omega
  have hs : ((BitVec.ofInt 64 n).sshiftRight 63).toInt = n >>> 63 := by
    rw [BitVec.toInt_sshiftRight, hx]
  have hnat : (BitVec.ofInt 64 n).toNat = (n % 2^64).toNat := by
    rw [BitVec.toNat_ofInt]; simp
  by_cases hn : 0 ≤ n
  · have h0 : (BitVec.ofInt 64 n).sshiftRight 63 = 0#64 := by
      apply BitVec.eq_of_toInt_eq
      rw [hs]
      simp [Int.shiftRight_eq_div_pow]
      omega
    rw [h0, if_pos hn]
    simp [BitVec.toNat_shiftLeft, hnat]
    omega
  · have h1 : (BitVec.ofInt 64 n).sshiftRight 63 = BitVec.allOnes 64 := by
      apply BitVec.eq_of_toInt_eq
      rw [hs]
      simp [Int.shiftRight_eq_div_pow]
      omega
    rw [h1, if_neg hn, BitVec.allOnes_xor]
    simp [BitVec.toNat_not, BitVec.toNat_shiftLeft, hnat]
    omega

theorem zigzag_lt (n : Int) (h : fitsS 8 n = true) : zigzag n < 2^64 := by
  simp [fitsS, leB_iff, ltB_iff] at h
  unfold zigzag; split <;> omega

theorem unzigzag_zigzag (n : Int) : unzigzag (zigzag n) = n := by
  unfold unzigzag zigzag
  split <;> split <;> omega

/-- bits.Len64 -/
theorem bitLen_le_iff (u : Nat) : ∀ j, bitLen u ≤ j ↔ u < 2 ^ j := by
  induction u using Nat.strongRecOn with
  | _ u ih =>
    intro j
    rw [bitLen]
    split
    · rename_i h0; subst h0
      have := Nat.pow_pos (n := j) (show 0 < 2 by decide)
      omega
    · rename_i h0
      cases j with
      | zero => simp; omega
      | succ j' =>
        have := ih (u / 2) (by omega) j'
        rw [Nat.pow_succ]
        generalize 2 ^ j' = P at *
        omega

/-- `(639 - lead0*9) >> 6` is the size of the unsigned vint (0 and 1 both mean one byte) -/
theorem numBytes_spec (u : Nat) (hu : u < 2^64) :
    max 1 ((639 - leadingZeros64 u * 9) >>> 6) = uvintSize u := by
  have h64 := (bitLen_le_iff u 64).mpr hu
  have h7 := bitLen_le_iff u 7
  have h14 := bitLen_le_iff u 14
  have h21 := bitLen_le_iff u 21
  have h28 := bitLen_le_iff u 28
  have h35 := bitLen_le_iff u 35
  have h42 := bitLen_le_iff u 42
  have h49 := bitLen_le_iff u 49
  have h56 := bitLen_le_iff u 56
  unfold leadingZeros64 uvintSize
  simp only [Nat.shiftRight_eq_div_pow]
  generalize bitLen u = L at *
  simp only [Nat.reducePow] at *
  repeat' split
  all_goals omega

theorem lowBytes_eq (e u : Nat) : lowBytes e u = beBytes (e + 1) u := by
  induction e generalizing u with
  | zero => simp [lowBytes, beBytes]
  | succ e ih => rw [lowBytes, ih]; rfl

theorem beBytes_head (e n : Nat) : beBytes (e + 1) n = byteOfNat (n / 256 ^ e) :: beBytes e n := by
  induction e generalizing n with
  | zero => simp [beBytes]
  | succ e ih =>
    rw [beBytes, ih, beBytes, Nat.div_div_eq_div_mul, Nat.pow_succ, Nat.mul_comm 256]
    simp

theorem byteOfNat_add_mul (n m : Nat) : byteOfNat (n + m * 256) = byteOfNat n := by
  simp [byteOfNat]

theorem beBytes_add_mul (e n M : Nat) : beBytes e (n + M * 256 ^ e) = beBytes e n := by
  induction e generalizing n M with
  | zero => simp [beBytes]
  | succ e ih =>
    rw [beBytes, beBytes]
    have h1 : (n + M * 256 ^ (e + 1)) / 256 = n / 256 + M * 256 ^ e := by
      rw [Nat.pow_succ, ← Nat.mul_assoc, Nat.add_mul_div_right _ _ (by decide : 0 < 256)]
    have h2 : byteOfNat (n + M * 256 ^ (e + 1)) = byteOfNat n := by
      rw [Nat.pow_succ, ← Nat.mul_assoc]; exact byteOfNat_add_mul _ _
    rw [h1, h2, ih]

/-- OR-ing the length marker into the first byte = adding it (the bits do not overlap) -/
theorem or_marker (e : Nat) (he : 1 ≤ e ∧ e ≤ 8) (x : Nat) (hx : x < 2 ^ (8 - e)) :
    byteOfNat x ||| UInt8.ofNat (255 - (255 >>> e)) = byteOfNat (x + (256 - 2 ^ (8 - e))) := by
  obtain ⟨h1, h8⟩ := he
  have : e = 1 ∨ e = 2 ∨ e = 3 ∨ e = 4 ∨ e = 5 ∨ e = 6 ∨ e = 7 ∨ e = 8 := by omega
  rcases this with rfl | rfl | rfl | rfl | rfl | rfl | rfl | rfl <;> (revert x; decide)

theorem marked (e : Nat) (he : 1 ≤ e ∧ e ≤ 8) (u : Nat) (hx : u / 256 ^ e < 2 ^ (8 - e)) :
    (match lowBytes e u with
      | b0 :: r => (b0 ||| UInt8.ofNat (255 - (255 >>> e))) :: r
      | [] => []) = beBytes (e + 1) (u + (256 - 2 ^ (8 - e)) * 256 ^ e) := by
  rw [lowBytes_eq, beBytes_head, beBytes_head]
  simp only
  rw [or_marker e he _ hx, beBytes_add_mul, Nat.add_mul_div_right _ _ (Nat.pow_pos (by decide))]

theorem uvintSize_cases (u : Nat) (hu : u < 2 ^ 64) :
    (uvintSize u = 1 ∧ u < 2^7) ∨ (uvintSize u = 2 ∧ u < 2^14) ∨ (uvintSize u = 3 ∧ u < 2^21) ∨
    (uvintSize u = 4 ∧ u < 2^28) ∨ (uvintSize u = 5 ∧ u < 2^35) ∨ (uvintSize u = 6 ∧ u < 2^42) ∨
    (uvintSize u = 7 ∧ u < 2^49) ∨ (uvintSize u = 8 ∧ u < 2^56) ∨ (uvintSize u = 9 ∧ u < 2^64) := by
  unfold uvintSize
  repeat' split
  all_goals simp_all

/-- encVint (marshal.go:1534-1551) writes the specification's signed vint, for every int64 -/
theorem encVint_spec (n : Int) (h : fitsS 8 n = true) : encVint n = specVint n := by
  have hu := zigzag_lt n h
  unfold encVint specVint specUVint
  rw [encIntZigZag_spec n h]
  generalize zigzag n = u at *
  have hN := numBytes_spec u hu
  simp only
  generalize (639 - leadingZeros64 u * 9) >>> 6 = N at *
  rcases uvintSize_cases u hu with ⟨hs, hb⟩ | ⟨hs, hb⟩ | ⟨hs, hb⟩ | ⟨hs, hb⟩ | ⟨hs, hb⟩ | ⟨hs, hb⟩ | ⟨hs, hb⟩ | ⟨hs, hb⟩ | ⟨hs, hb⟩ <;>
    rw [hs] at hN ⊢
  · have : N ≤ 1 := by omega
    rw [if_pos this]
    simp [beBytes]
  all_goals (
    have hNe : ¬ N ≤ 1 := by omega
    rw [if_neg hNe]
    first
      | (have e1 : N - 1 = 1 := by omega
         rw [e1]; exact marked 1 (by omega) u (by simp only [Nat.reducePow, Nat.reduceSub] at *; omega))
      | (have e1 : N - 1 = 2 := by omega
         rw [e1]; exact marked 2 (by omega) u (by simp only [Nat.reducePow, Nat.reduceSub] at *; omega))
      | (have e1 : N - 1 = 3 := by omega
         rw [e1]; exact marked 3 (by omega) u (by simp only [Nat.reducePow, Nat.reduceSub] at *; omega))
      | (have e1 : N - 1 = 4 := by omega
         rw [e1]; exact marked 4 (by omega) u (by simp only [Nat.reducePow, Nat.reduceSub] at *; omega))
      | (have e1 : N - 1 = 5 := by omega
         rw [e1]; exact marked 5 (by omega) u (by simp only [Nat.reducePow, Nat.reduceSub] at *; omega))
      | (have e1 : N - 1 = 6 := by omega
         rw [e1]; exact marked 6 (by omega) u (by simp only [Nat.reducePow, Nat.reduceSub] at *; omega))
      | (have e1 : N - 1 = 7 := by omega
         rw [e1]; exact marked 7 (by omega) u (by simp only [Nat.reducePow, Nat.reduceSub] at *; omega))
      | (have e1 : N - 1 = 8 := by omega
         rw [e1]; exact marked 8 (by omega) u (by simp only [Nat.reducePow, Nat.reduceSub] at *; omega)))

end C12Vint
