import Gen.Marshal
import Model.MarshalScalar
/-!
  Tie theorems between the definitions REGENERATED from /repo/marshal.go by tools/go2lean (`Gen.Marshal`, fixed-width
  BitVec arithmetic as the Go code computes) and the hand-written `Int`/`Nat` model the C02/C12 theorems are about
  (`MarshalScalar`).
-/
namespace GenTie.C12
open Marshal

/-- `encIntZigZag` -/
theorem encIntZigZag (n : Int) : (Gen.Marshal.encIntZigZag (BitVec.ofInt 64 n)).toNat = Marshal.encIntZigZag n := rfl

/-- `decIntZigZag` -/
theorem decIntZigZag (u : Nat) : (Gen.Marshal.decIntZigZag (BitVec.ofNat 64 u)).toInt = Marshal.decIntZigZag u := rfl

/-- `byte(v)` of a fixed-width value is `byteOf` of its integer value -/
theorem byte_of {w : Nat} (hw : 8 ≤ w) (v : BitVec w) : UInt8.ofBitVec (v.setWidth 8) = byteOf v.toInt := by
  unfold byteOf
  apply UInt8.toBitVec_inj.mp
  apply BitVec.eq_of_toNat_eq
  have h256 : (256:Int) ∣ (2:Int)^w := by
    obtain ⟨k, rfl⟩ : ∃ k, w = 8 + k := ⟨w - 8, by omega⟩
    exact ⟨(2:Int)^k, by rw [Int.pow_add]; rfl⟩
  have key : (v.toInt % 256).toNat = v.toNat % 256 := by
    rw [BitVec.toInt_eq_toNat_cond]
    split
    · omega
    · obtain ⟨c, hc⟩ := h256
      have : ((v.toNat : Int) - (2:Int)^w) % 256 = (v.toNat : Int) % 256 := by
        rw [hc, Int.sub_mul_emod_self_left]
      have e : ((2 ^ w : Nat) : Int) = (2:Int) ^ w := by simp
      rw [e, this]; omega
  simp [key]

/-- `byte(x >> k)` of a signed fixed-width value that holds the integer `x` -/
theorem byte_shift {w : Nat} (hw : 8 ≤ w) (x : Int) (k : Nat)
    (hx : -(2:Int)^(w-1) ≤ x ∧ x < (2:Int)^(w-1)) :
    UInt8.ofBitVec ((BitVec.sshiftRight (BitVec.ofInt w x) k).setWidth 8) = byteOf (x >>> k) := by
  rw [byte_of hw, BitVec.toInt_sshiftRight, BitVec.toInt_ofInt]
  congr 2
  obtain ⟨m, rfl⟩ : ∃ m, w = m + 1 := ⟨w - 1, by omega⟩
  have e : ((2 ^ (m + 1) : Nat) : Int) = 2 * (2:Int) ^ m := by
    rw [Nat.pow_succ]; simp [Int.mul_comm]
  simp only [Nat.add_sub_cancel] at hx
  apply Int.bmod_eq_of_le
  · rw [e]; omega
  · rw [e]; omega

theorem byte_low {w : Nat} (hw : 8 ≤ w) (x : Int) (hx : -(2:Int)^(w-1) ≤ x ∧ x < (2:Int)^(w-1)) :
    UInt8.ofBitVec ((BitVec.ofInt w x).setWidth 8) = byteOf x := by
  have := byte_shift hw x 0 hx
  simpa using this

/-- `encInt(x int32)` -/
theorem encInt (x : Int) (hx : -(2:Int)^31 ≤ x ∧ x < (2:Int)^31) :
    (Gen.Marshal.encInt (BitVec.ofInt 32 x)).map UInt8.ofBitVec = Marshal.encInt x := by
  simp only [Gen.Marshal.encInt, Marshal.encInt, List.map_cons, List.map_nil]
  rw [byte_shift (by decide) x 24 hx, byte_shift (by decide) x 16 hx, byte_shift (by decide) x 8 hx,
      byte_low (by decide) x hx]

/-- `encShort(x int16)` (`p := make([]byte, 2); p[0] = …; p[1] = …`) -/
theorem encShort (x : Int) (hx : -(2:Int)^15 ≤ x ∧ x < (2:Int)^15) :
    (Gen.Marshal.encShort (BitVec.ofInt 16 x)).map UInt8.ofBitVec = Marshal.encShort x := by
  simp only [Gen.Marshal.encShort, Marshal.encShort, List.replicate, List.set, List.map_cons, List.map_nil]
  rw [byte_shift (by decide) x 8 hx, byte_low (by decide) x hx]

/-- `encBigInt(x int64)` -/
theorem encBigInt (x : Int) (hx : -(2:Int)^63 ≤ x ∧ x < (2:Int)^63) :
    (Gen.Marshal.encBigInt (BitVec.ofInt 64 x)).map UInt8.ofBitVec = Marshal.encBigInt x := by
  simp only [Gen.Marshal.encBigInt, Marshal.encBigInt, List.map_cons, List.map_nil]
  rw [byte_shift (by decide) x 56 hx, byte_shift (by decide) x 48 hx, byte_shift (by decide) x 40 hx,
      byte_shift (by decide) x 32 hx, byte_shift (by decide) x 24 hx, byte_shift (by decide) x 16 hx,
      byte_shift (by decide) x 8 hx, byte_low (by decide) x hx]

end GenTie.C12
