import Gen.Marshal
import Model.MarshalScalar
/-!
  Tie theorems between the definitions REGENERATED from /repo/marshal.go by tools/go2lean (`Gen.Marshal`, fixed-width
  BitVec arithmetic as the Go code computes) and the hand-written `Int`/`Nat` model the C02/C12 theorems are about
  (`MarshalScalar`).
-/
namespace GenTie.C12
open Marshal

/-- `encIntZigZag` -/
theorem encIntZigZag (n : Int) : (Gen.Marshal.encIntZigZag (BitVec.ofInt 64 n)).toNat = Marshal.encIntZigZag n := rfl

/-- `decIntZigZag` -/
theorem decIntZigZag (u : Nat) : (Gen.Marshal.decIntZigZag (BitVec.ofNat 64 u)).toInt = Marshal.decIntZigZag u := rfl

/-- `byte(v)` of a fixed-width value is `byteOf` of its integer value -/
theorem byte_of {w : Nat} (hw : 8 ≤ w) (v : BitVec w) : UInt8.ofBitVec (v.setWidth 8) = byteOf v.toInt := by
  unfold byteOf
  apply UInt8.toBitVec_inj.mp
  apply BitVec.eq_of_toNat_eq
  have h256 : (256:Int) ∣ (2:Int)^w := by
    obtain ⟨k, rfl⟩ : ∃ k, w = 8 + k := ⟨w - 8, by omega⟩
    exact ⟨(2:Int)^k, by rw [Int.pow_add]; rfl⟩
  have key : (v.toInt % 256).toNat = v.toNat % 256 := by
    rw [BitVec.toInt_eq_toNat_cond]
    split
    · omega
    · obtain ⟨c, hc⟩ := h256
      have : ((v.toNat : Int) - (2:Int)^w) % 256 = (v.toNat : Int) % 256 := by
        rw [hc, Int.sub_mul_emod_self_left]
      have e : ((2 ^ w : Nat) : Int) = (2:Int) ^ w := by simp
      rw [e, this]; omega
  simp [key]

/-- `byte(x >> k)` of a signed fixed-width value that holds the integer `x` -/
theorem byte_shift {w : Nat} (hw : 8 ≤ w) (x : Int) (k : Nat)
    (hx : -(2:Int)^(w-1) ≤ x ∧ x < (2:Int)^(w-1)) :
    UInt8.ofBitVec ((BitVec.sshiftRight (BitVec.ofInt w x) k).setWidth 8) = byteOf (x >>> k) := by
  rw [byte_of hw, BitVec.toInt_sshiftRight, BitVec.toInt_ofInt]
  congr 2
  obtain ⟨m, rfl⟩ : ∃ m, w = m + 1 := ⟨w - 1, by omega⟩
  have e : ((2 ^ (m + 1) : Nat) : Int) = 2 * (2:Int) ^ m := by
    rw [Nat.pow_succ]; simp [Int.mul_comm]
  simp only [Nat.add_sub_cancel] at hx
  apply Int.bmod_eq_of_le
  · rw [e]; omega
  · rw [e]; omega

theorem byte_low {w : Nat} (hw : 8 ≤ w) (x : Int) (hx : -(2:Int)^(w-1) ≤ x ∧ x < (2:Int)^(w-1)) :
    UInt8.ofBitVec ((BitVec.ofInt w x).setWidth 8) = byteOf x := by
  have := byte_shift hw x 0 hx
  simpa using this

/-- `encInt(x int32)` -/
theorem encInt (x : Int) (hx : -(2:Int)^31 ≤ x ∧ x < (2:Int)^31) :
    (Gen.Marshal.encInt (BitVec.ofInt 32 x)).map UInt8.ofBitVec = Marshal.encInt x := by
  simp only [Gen.Marshal.encInt, Marshal.encInt, List.map_cons, List.map_nil]
  rw [byte_shift (by decide) x 24 hx, byte_shift (by decide) x 16 hx, byte_shift (by decide) x 8 hx,
      byte_low (by decide) x hx]

/-- `encShort(x int16)` (`p := make([]byte, 2); p[0] = …; p[1] = …`) -/
theorem encShort (x : Int) (hx : -(2:Int)^15 ≤ x ∧ x < (2:Int)^15) :
    (Gen.Marshal.encShort (BitVec.ofInt 16 x)).map UInt8.ofBitVec = Marshal.encShort x := by
  simp only [Gen.Marshal.encShort, Marshal.encShort, List.replicate, List.set, List.map_cons, List.map_nil]
  rw [byte_shift (by decide) x 8 hx, byte_low (by decide) x hx]

/-- `encBigInt(x int64)` -/
theorem encBigInt (x : Int) (hx : -(2:Int)^63 ≤ x ∧ x < (2:Int)^63) :
    (Gen.Marshal.encBigInt (BitVec.ofInt 64 x)).map UInt8.ofBitVec = Marshal.encBigInt x := by
  simp only [Gen.Marshal.encBigInt, Marshal.encBigInt, List.map_cons, List.map_nil]
  rw [byte_shift (by decide) x 56 hx, byte_shift (by decide) x 48 hx, byte_shift (by decide) x 40 hx,
      byte_shift (by decide) x 32 hx, byte_shift (by decide) x 24 hx, byte_shift (by decide) x 16 hx,
      byte_shift (by decide) x 8 hx, byte_low (by decide) x hx]


theorem or_shl (x b : Nat) (hb : b < 256) : x <<< 8 ||| b = x * 256 + b := by
  rw [← Nat.shiftLeft_add_eq_or_of_lt (by omega : b < 2^8), Nat.shiftLeft_eq]

/-- big-endian OR of shifted bytes in the shape the Go code writes it: Horner form -/
theorem be2 (a b : Nat) (hb : b < 256) : a <<< 8 ||| b = a * 256 + b := or_shl a b hb

theorem be4 (a b c d : Nat) (hb : b < 256) (hc : c < 256) (hd : d < 256) :
    a <<< 24 ||| b <<< 16 ||| c <<< 8 ||| d = a * 2^24 + b * 2^16 + c * 2^8 + d := by
  have e1 : a <<< 24 = (a <<< 8) <<< 16 := by rw [← Nat.shiftLeft_add]
  rw [e1, ← Nat.shiftLeft_or_distrib, or_shl a b hb]
  have e2 : (a * 256 + b) <<< 16 = ((a * 256 + b) <<< 8) <<< 8 := by rw [← Nat.shiftLeft_add]
  rw [e2, ← Nat.shiftLeft_or_distrib, or_shl _ c hc, or_shl _ d hd]
  omega

theorem be8 (a b c d e f g h : Nat) (hb : b < 256) (hc : c < 256) (hd : d < 256) (he : e < 256) (hf : f < 256)
    (hg : g < 256) (hh : h < 256) :
    a <<< 56 ||| b <<< 48 ||| c <<< 40 ||| d <<< 32 ||| e <<< 24 ||| f <<< 16 ||| g <<< 8 ||| h
      = a * 2^56 + b * 2^48 + c * 2^40 + d * 2^32 + e * 2^24 + f * 2^16 + g * 2^8 + h := by
  have s (x : Nat) (k : Nat) : x <<< (k + 8) = (x <<< 8) <<< k := by rw [← Nat.shiftLeft_add, Nat.add_comm]
  rw [s a 48, ← Nat.shiftLeft_or_distrib, or_shl a b hb,
    s _ 40, ← Nat.shiftLeft_or_distrib, or_shl _ c hc,
    s _ 32, ← Nat.shiftLeft_or_distrib, or_shl _ d hd,
    s _ 24, ← Nat.shiftLeft_or_distrib, or_shl _ e he,
    s _ 16, ← Nat.shiftLeft_or_distrib, or_shl _ f hf,
    s _ 8, ← Nat.shiftLeft_or_distrib, or_shl _ g hg, or_shl _ h hh]
  omega

theorem getD_map (l : List UInt8) (i : Nat) :
    (l.map (·.toBitVec)).getD i 0#8 = (l.getD i 0).toBitVec := by
  simp [List.getD_eq_getElem?_getD, List.getElem?_map]

theorem toS_of_toNat {w : Nat} (hw : 0 < w) (v : BitVec w) : v.toInt = toS w v.toNat := by
  obtain ⟨m, rfl⟩ : ∃ m, w = m + 1 := ⟨w - 1, by omega⟩
  have hlt : v.toNat < 2 * 2^m := by have := v.isLt; rwa [Nat.pow_succ, Nat.mul_comm] at this
  have cm : (2:Int)^m = ((2^m : Nat) : Int) := by norm_cast
  have c : (2:Int)^(m+1) = 2 * ((2^m : Nat) : Int) := by rw [Int.pow_succ, cm]; omega
  have e' : (2:Nat)^(m+1) = 2 * 2^m := by rw [Nat.pow_succ]; omega
  unfold toS
  rw [BitVec.toInt_eq_toNat_cond, Nat.add_sub_cancel, c, cm, e']
  generalize (2^m : Nat) = d at *
  split
  · rw [Int.emod_eq_of_lt (by omega) (by omega)]; omega
  · have : ((v.toNat : Int) + d) = ((v.toNat : Int) - d) + 1 * (2 * (d : Int)) := by omega
    rw [this, Int.add_mul_emod_self_right, Int.emod_eq_of_lt (by omega) (by omega)]; push_cast; omega

theorem len_ne (n k : Nat) (h : n < 2^63) (hk : k < 2^63) : (BitVec.ofNat 64 n != BitVec.ofNat 64 k) = decide (n ≠ k) := by
  by_cases e : n = k
  · simp [e]
  · simp only [e, ne_eq, not_false_eq_true, decide_true, bne_iff_ne]
    intro h'
    have := congrArg BitVec.toNat h'
    simp at this; omega

theorem byte_mod (x : UInt8) (w : Nat) (h : 8 ≤ w) : x.toNat % 2^w = x.toNat := by
  have hb : x.toNat < 2^8 := UInt8.toNat_lt x
  exact Nat.mod_eq_of_lt (Nat.lt_of_lt_of_le hb (Nat.pow_le_pow_right (by decide) h))

theorem byte_shl (x : UInt8) (k w : Nat) (h : k + 8 ≤ w) :
    (x.toNat % 2^w) <<< k % 2^w = x.toNat <<< k ∧ x.toNat <<< k < 2^(k+8) := by
  have hb : x.toNat < 2^8 := UInt8.toNat_lt x
  have h1 : x.toNat <<< k < 2^(k+8) := by
    rw [Nat.shiftLeft_eq, Nat.pow_add, Nat.mul_comm]
    exact Nat.mul_lt_mul_of_pos_left hb (Nat.two_pow_pos k)
  rw [byte_mod x w (by omega), Nat.mod_eq_of_lt (Nat.lt_of_lt_of_le h1 (Nat.pow_le_pow_right (by decide) h))]
  exact ⟨rfl, h1⟩

/-- `decShort`: 0 unless exactly 2 bytes, else the big-endian int16 -/
theorem decShort (l : List UInt8) (hl : l.length < 2^63) :
    (Gen.Marshal.decShort (l.map (·.toBitVec))).toInt = Marshal.decShort l := by
  unfold Gen.Marshal.decShort
  rw [List.length_map, show (0x2#64 : BitVec 64) = BitVec.ofNat 64 2 from rfl, len_ne _ _ hl (by decide)]
  rcases l with _ | ⟨a, _ | ⟨b, _ | ⟨c, t⟩⟩⟩
  · simp [Marshal.decShort]
  · simp [Marshal.decShort]
  · simp only [List.map_cons, List.map_nil, List.length_cons, List.length_nil, Marshal.decShort]
    rw [toS_of_toNat (by decide)]
    congr 1
    have ha := UInt8.toNat_lt a; have hb := UInt8.toNat_lt b
    simp only [Nat.zero_add, Nat.reduceAdd, ne_eq, not_true_eq_false, decide_false, Bool.false_eq_true, if_false,
      List.getD_cons_zero, List.getD_cons_succ, BitVec.toNat_or, BitVec.toNat_shiftLeft, BitVec.toNat_setWidth, UInt8.toNat_toBitVec]
    rw [(byte_shl a 8 16 (by decide)).1, byte_mod b 16 (by decide), be2 _ _ hb]
    omega
  · simp only [List.length_cons, Marshal.decShort]
    rfl

/-- `decTiny` -/
theorem decTiny (l : List UInt8) (hl : l.length < 2^63) :
    (Gen.Marshal.decTiny (l.map (·.toBitVec))).toInt = Marshal.decTiny l := by
  unfold Gen.Marshal.decTiny
  rw [List.length_map, show (0x1#64 : BitVec 64) = BitVec.ofNat 64 1 from rfl, len_ne _ _ hl (by decide)]
  rcases l with _ | ⟨a, _ | ⟨b, t⟩⟩
  · simp [Marshal.decTiny]
  · simp only [List.map_cons, List.map_nil, List.length_cons, List.length_nil, Marshal.decTiny]
    rw [toS_of_toNat (by decide)]
    simp
  · simp [Marshal.decTiny]

/-- `decInt`: 0 unless exactly 4 bytes, else the big-endian int32 -/
theorem decInt (l : List UInt8) (hl : l.length < 2^63) :
    (Gen.Marshal.decInt (l.map (·.toBitVec))).toInt = Marshal.decInt l := by
  unfold Gen.Marshal.decInt
  rw [List.length_map, show (0x4#64 : BitVec 64) = BitVec.ofNat 64 4 from rfl, len_ne _ _ hl (by decide)]
  rcases l with _ | ⟨a, _ | ⟨b, _ | ⟨c, _ | ⟨d, _ | ⟨e, t⟩⟩⟩⟩⟩
  · simp [Marshal.decInt]
  · simp [Marshal.decInt]
  · simp [Marshal.decInt]
  · simp [Marshal.decInt]
  · simp only [List.map_cons, List.map_nil, List.length_cons, List.length_nil, Marshal.decInt]
    rw [toS_of_toNat (by decide)]
    congr 1
    have hb := UInt8.toNat_lt b; have hc := UInt8.toNat_lt c; have hd := UInt8.toNat_lt d
    simp only [Nat.zero_add, Nat.reduceAdd, ne_eq, not_true_eq_false, decide_false, Bool.false_eq_true, if_false,
      List.getD_cons_zero, List.getD_cons_succ, BitVec.toNat_or, BitVec.toNat_shiftLeft, BitVec.toNat_setWidth, UInt8.toNat_toBitVec]
    rw [(byte_shl a 24 32 (by decide)).1, (byte_shl b 16 32 (by decide)).1, (byte_shl c 8 32 (by decide)).1,
      byte_mod d 32 (by decide), be4 _ _ _ _ hb hc hd]
    omega
  · simp only [List.length_cons, Marshal.decInt]
    rfl

/-- `decBigInt`: 0 unless exactly 8 bytes, else the big-endian int64 -/
theorem decBigInt (l : List UInt8) (hl : l.length < 2^63) :
    (Gen.Marshal.decBigInt (l.map (·.toBitVec))).toInt = Marshal.decBigInt l := by
  unfold Gen.Marshal.decBigInt
  rw [List.length_map, show (0x8#64 : BitVec 64) = BitVec.ofNat 64 8 from rfl, len_ne _ _ hl (by decide)]
  rcases l with _ | ⟨a, _ | ⟨b, _ | ⟨c, _ | ⟨d, _ | ⟨e, _ | ⟨f, _ | ⟨g, _ | ⟨h, _ | ⟨i, t⟩⟩⟩⟩⟩⟩⟩⟩⟩
  · simp [Marshal.decBigInt]
  · simp [Marshal.decBigInt]
  · simp [Marshal.decBigInt]
  · simp [Marshal.decBigInt]
  · simp [Marshal.decBigInt]
  · simp [Marshal.decBigInt]
  · simp [Marshal.decBigInt]
  · simp [Marshal.decBigInt]
  · simp only [List.map_cons, List.map_nil, List.length_cons, List.length_nil, Marshal.decBigInt]
    rw [toS_of_toNat (by decide)]
    congr 1
    have hb := UInt8.toNat_lt b; have hc := UInt8.toNat_lt c; have hd := UInt8.toNat_lt d
    have he := UInt8.toNat_lt e; have hf := UInt8.toNat_lt f; have hg := UInt8.toNat_lt g; have hh := UInt8.toNat_lt h
    simp only [Nat.zero_add, Nat.reduceAdd, ne_eq, not_true_eq_false, decide_false, Bool.false_eq_true, if_false,
      List.getD_cons_zero, List.getD_cons_succ, BitVec.toNat_or, BitVec.toNat_shiftLeft, BitVec.toNat_setWidth, UInt8.toNat_toBitVec]
    rw [(byte_shl a 56 64 (by decide)).1, (byte_shl b 48 64 (by decide)).1, (byte_shl c 40 64 (by decide)).1,
      (byte_shl d 32 64 (by decide)).1, (byte_shl e 24 64 (by decide)).1, (byte_shl f 16 64 (by decide)).1,
      (byte_shl g 8 64 (by decide)).1, byte_mod h 64 (by decide), be8 _ _ _ _ _ _ _ _ hb hc hd he hf hg hh]
    omega
  · simp only [List.length_cons, Marshal.decBigInt]
    rfl

end GenTie.C12
