import Gen.Marshal
import Model.MarshalScalar
import Model.MarshalDecode
import Model.Marshal
/-!
  Tie theorems between the definitions REGENERATED from /repo/marshal.go by tools/go2lean (`Gen.Marshal`, fixed-width
  BitVec arithmetic as the Go code computes) and the hand-written `Int`/`Nat` model the C02/C12 theorems are about
  (`MarshalScalar`).
-/
namespace GenTie.C12
open Marshal

/-- `encIntZigZag` -/
theorem encIntZigZag (n : Int) : (Gen.Marshal.encIntZigZag (BitVec.ofInt 64 n)).toNat = Marshal.encIntZigZag n := rfl

/-- `decIntZigZag` -/
theorem decIntZigZag (u : Nat) : (Gen.Marshal.decIntZigZag (BitVec.ofNat 64 u)).toInt = Marshal.decIntZigZag u := rfl

/-- `byte(v)` of a fixed-width value is `byteOf` of its integer value -/
theorem byte_of {w : Nat} (hw : 8 ≤ w) (v : BitVec w) : UInt8.ofBitVec (v.setWidth 8) = byteOf v.toInt := by
  unfold byteOf
  apply UInt8.toBitVec_inj.mp
  apply BitVec.eq_of_toNat_eq
  have h256 : (256:Int) ∣ (2:Int)^w := by
    obtain ⟨k, rfl⟩ : ∃ k, w = 8 + k := ⟨w - 8, by omega⟩
    exact ⟨(2:Int)^k, by rw [Int.pow_add]; rfl⟩
  have key : (v.toInt % 256).toNat = v.toNat % 256 := by
    rw [BitVec.toInt_eq_toNat_cond]
    split
    · omega
    · obtain ⟨c, hc⟩ := h256
      have : ((v.toNat : Int) - (2:Int)^w) % 256 = (v.toNat : Int) % 256 := by
        rw [hc, Int.sub_mul_emod_self_left]
      have e : ((2 ^ w : Nat) : Int) = (2:Int) ^ w := by simp
      rw [e, this]; omega
  simp [key]

/-- `byte(x >> k)` of a signed fixed-width value that holds the integer `x` -/
theorem byte_shift {w : Nat} (hw : 8 ≤ w) (x : Int) (k : Nat)
    (hx : -(2:Int)^(w-1) ≤ x ∧ x < (2:Int)^(w-1)) :
    UInt8.ofBitVec ((BitVec.sshiftRight (BitVec.ofInt w x) k).setWidth 8) = byteOf (x >>> k) := by
  rw [byte_of hw, BitVec.toInt_sshiftRight, BitVec.toInt_ofInt]
  congr 2
  obtain ⟨m, rfl⟩ : ∃ m, w = m + 1 := ⟨w - 1, by omega⟩
  have e : ((2 ^ (m + 1) : Nat) : Int) = 2 * (2:Int) ^ m := by
    rw [Nat.pow_succ]; simp [Int.mul_comm]
  simp only [Nat.add_sub_cancel] at hx
  apply Int.bmod_eq_of_le
  · rw [e]; omega
  · rw [e]; omega

theorem byte_low {w : Nat} (hw : 8 ≤ w) (x : Int) (hx : -(2:Int)^(w-1) ≤ x ∧ x < (2:Int)^(w-1)) :
    UInt8.ofBitVec ((BitVec.ofInt w x).setWidth 8) = byteOf x := by
  have := byte_shift hw x 0 hx
  simpa using this

/-- `encInt(x int32)` -/
theorem encInt (x : Int) (hx : -(2:Int)^31 ≤ x ∧ x < (2:Int)^31) :
    (Gen.Marshal.encInt (BitVec.ofInt 32 x)).map UInt8.ofBitVec = Marshal.encInt x := by
  simp only [Gen.Marshal.encInt, Marshal.encInt, List.map_cons, List.map_nil]
  rw [byte_shift (by decide) x 24 hx, byte_shift (by decide) x 16 hx, byte_shift (by decide) x 8 hx,
      byte_low (by decide) x hx]

/-- `encShort(x int16)` (`p := make([]byte, 2); p[0] = …; p[1] = …`) -/
theorem encShort (x : Int) (hx : -(2:Int)^15 ≤ x ∧ x < (2:Int)^15) :
    (Gen.Marshal.encShort (BitVec.ofInt 16 x)).map UInt8.ofBitVec = Marshal.encShort x := by
  simp only [Gen.Marshal.encShort, Marshal.encShort, List.replicate, List.set, List.map_cons, List.map_nil]
  rw [byte_shift (by decide) x 8 hx, byte_low (by decide) x hx]

/-- `encBigInt(x int64)` -/
theorem encBigInt (x : Int) (hx : -(2:Int)^63 ≤ x ∧ x < (2:Int)^63) :
    (Gen.Marshal.encBigInt (BitVec.ofInt 64 x)).map UInt8.ofBitVec = Marshal.encBigInt x := by
  simp only [Gen.Marshal.encBigInt, Marshal.encBigInt, List.map_cons, List.map_nil]
  rw [byte_shift (by decide) x 56 hx, byte_shift (by decide) x 48 hx, byte_shift (by decide) x 40 hx,
      byte_shift (by decide) x 32 hx, byte_shift (by decide) x 24 hx, byte_shift (by decide) x 16 hx,
      byte_shift (by decide) x 8 hx, byte_low (by decide) x hx]


theorem or_shl (x b : Nat) (hb : b < 256) : x <<< 8 ||| b = x * 256 + b := by
  rw [← Nat.shiftLeft_add_eq_or_of_lt (by omega : b < 2^8), Nat.shiftLeft_eq]

/-- big-endian OR of shifted bytes in the shape the Go code writes it: Horner form -/
theorem be2 (a b : Nat) (hb : b < 256) : a <<< 8 ||| b = a * 256 + b := or_shl a b hb

theorem be4 (a b c d : Nat) (hb : b < 256) (hc : c < 256) (hd : d < 256) :
    a <<< 24 ||| b <<< 16 ||| c <<< 8 ||| d = a * 2^24 + b * 2^16 + c * 2^8 + d := by
  have e1 : a <<< 24 = (a <<< 8) <<< 16 := by rw [← Nat.shiftLeft_add]
  rw [e1, ← Nat.shiftLeft_or_distrib, or_shl a b hb]
  have e2 : (a * 256 + b) <<< 16 = ((a * 256 + b) <<< 8) <<< 8 := by rw [← Nat.shiftLeft_add]
  rw [e2, ← Nat.shiftLeft_or_distrib, or_shl _ c hc, or_shl _ d hd]
  omega

theorem be8 (a b c d e f g h : Nat) (hb : b < 256) (hc : c < 256) (hd : d < 256) (he : e < 256) (hf : f < 256)
    (hg : g < 256) (hh : h < 256) :
    a <<< 56 ||| b <<< 48 ||| c <<< 40 ||| d <<< 32 ||| e <<< 24 ||| f <<< 16 ||| g <<< 8 ||| h
      = a * 2^56 + b * 2^48 + c * 2^40 + d * 2^32 + e * 2^24 + f * 2^16 + g * 2^8 + h := by
  have s (x : Nat) (k : Nat) : x <<< (k + 8) = (x <<< 8) <<< k := by rw [← Nat.shiftLeft_add, Nat.add_comm]
  rw [s a 48, ← Nat.shiftLeft_or_distrib, or_shl a b hb,
    s _ 40, ← Nat.shiftLeft_or_distrib, or_shl _ c hc,
    s _ 32, ← Nat.shiftLeft_or_distrib, or_shl _ d hd,
    s _ 24, ← Nat.shiftLeft_or_distrib, or_shl _ e he,
    s _ 16, ← Nat.shiftLeft_or_distrib, or_shl _ f hf,
    s _ 8, ← Nat.shiftLeft_or_distrib, or_shl _ g hg, or_shl _ h hh]
  omega

theorem getD_map (l : List UInt8) (i : Nat) :
    (l.map (·.toBitVec)).getD i 0#8 = (l.getD i 0).toBitVec := by
  simp [List.getD_eq_getElem?_getD, List.getElem?_map]

theorem toS_of_toNat {w : Nat} (hw : 0 < w) (v : BitVec w) : v.toInt = toS w v.toNat := by
  obtain ⟨m, rfl⟩ : ∃ m, w = m + 1 := ⟨w - 1, by omega⟩
  have hlt : v.toNat < 2 * 2^m := by have := v.isLt; rwa [Nat.pow_succ, Nat.mul_comm] at this
  have cm : (2:Int)^m = ((2^m : Nat) : Int) := by norm_cast
  have c : (2:Int)^(m+1) = 2 * ((2^m : Nat) : Int) := by rw [Int.pow_succ, cm]; omega
  have e' : (2:Nat)^(m+1) = 2 * 2^m := by rw [Nat.pow_succ]; omega
  unfold toS
  rw [BitVec.toInt_eq_toNat_cond, Nat.add_sub_cancel, c, cm, e']
  generalize (2^m : Nat) = d at *
  split
  · rw [Int.emod_eq_of_lt (by omega) (by omega)]; omega
  · have : ((v.toNat : Int) + d) = ((v.toNat : Int) - d) + 1 * (2 * (d : Int)) := by omega
    rw [this, Int.add_mul_emod_self_right, Int.emod_eq_of_lt (by omega) (by omega)]; push_cast; omega

theorem len_ne (n k : Nat) (h : n < 2^63) (hk : k < 2^63) : (BitVec.ofNat 64 n != BitVec.ofNat 64 k) = decide (n ≠ k) := by
  by_cases e : n = k
  · simp [e]
  · simp only [e, ne_eq, not_false_eq_true, decide_true, bne_iff_ne]
    intro h'
    have := congrArg BitVec.toNat h'
    simp at this; omega

theorem byte_mod (x : UInt8) (w : Nat) (h : 8 ≤ w) : x.toNat % 2^w = x.toNat := by
  have hb : x.toNat < 2^8 := UInt8.toNat_lt x
  exact Nat.mod_eq_of_lt (Nat.lt_of_lt_of_le hb (Nat.pow_le_pow_right (by decide) h))

theorem byte_shl (x : UInt8) (k w : Nat) (h : k + 8 ≤ w) :
    (x.toNat % 2^w) <<< k % 2^w = x.toNat <<< k ∧ x.toNat <<< k < 2^(k+8) := by
  have hb : x.toNat < 2^8 := UInt8.toNat_lt x
  have h1 : x.toNat <<< k < 2^(k+8) := by
    rw [Nat.shiftLeft_eq, Nat.pow_add, Nat.mul_comm]
    exact Nat.mul_lt_mul_of_pos_left hb (Nat.two_pow_pos k)
  rw [byte_mod x w (by omega), Nat.mod_eq_of_lt (Nat.lt_of_lt_of_le h1 (Nat.pow_le_pow_right (by decide) h))]
  exact ⟨rfl, h1⟩

/-- `decShort`: 0 unless exactly 2 bytes, else the big-endian int16 -/
theorem decShort (l : List UInt8) (hl : l.length < 2^63) :
    (Gen.Marshal.decShort (l.map (·.toBitVec))).toInt = Marshal.decShort l := by
  unfold Gen.Marshal.decShort
  rw [List.length_map, show (0x2#64 : BitVec 64) = BitVec.ofNat 64 2 from rfl, len_ne _ _ hl (by decide)]
  rcases l with _ | ⟨a, _ | ⟨b, _ | ⟨c, t⟩⟩⟩
  · simp [Marshal.decShort]
  · simp [Marshal.decShort]
  · simp only [List.map_cons, List.map_nil, List.length_cons, List.length_nil, Marshal.decShort]
    rw [toS_of_toNat (by decide)]
    congr 1
    have ha := UInt8.toNat_lt a; have hb := UInt8.toNat_lt b
    simp only [Nat.zero_add, Nat.reduceAdd, ne_eq, not_true_eq_false, decide_false, Bool.false_eq_true, if_false,
      List.getD_cons_zero, List.getD_cons_succ, BitVec.toNat_or, BitVec.toNat_shiftLeft, BitVec.toNat_setWidth, UInt8.toNat_toBitVec]
    rw [(byte_shl a 8 16 (by decide)).1, byte_mod b 16 (by decide), be2 _ _ hb]
    omega
  · simp only [List.length_cons, Marshal.decShort]
    rfl

/-- `decTiny` -/
theorem decTiny (l : List UInt8) (hl : l.length < 2^63) :
    (Gen.Marshal.decTiny (l.map (·.toBitVec))).toInt = Marshal.decTiny l := by
  unfold Gen.Marshal.decTiny
  rw [List.length_map, show (0x1#64 : BitVec 64) = BitVec.ofNat 64 1 from rfl, len_ne _ _ hl (by decide)]
  rcases l with _ | ⟨a, _ | ⟨b, t⟩⟩
  · simp [Marshal.decTiny]
  · simp only [List.map_cons, List.map_nil, List.length_cons, List.length_nil, Marshal.decTiny]
    rw [toS_of_toNat (by decide)]
    simp
  · simp [Marshal.decTiny]

/-- `decInt`: 0 unless exactly 4 bytes, else the big-endian int32 -/
theorem decInt (l : List UInt8) (hl : l.length < 2^63) :
    (Gen.Marshal.decInt (l.map (·.toBitVec))).toInt = Marshal.decInt l := by
  unfold Gen.Marshal.decInt
  rw [List.length_map, show (0x4#64 : BitVec 64) = BitVec.ofNat 64 4 from rfl, len_ne _ _ hl (by decide)]
  rcases l with _ | ⟨a, _ | ⟨b, _ | ⟨c, _ | ⟨d, _ | ⟨e, t⟩⟩⟩⟩⟩
  · simp [Marshal.decInt]
  · simp [Marshal.decInt]
  · simp [Marshal.decInt]
  · simp [Marshal.decInt]
  · simp only [List.map_cons, List.map_nil, List.length_cons, List.length_nil, Marshal.decInt]
    rw [toS_of_toNat (by decide)]
    congr 1
    have hb := UInt8.toNat_lt b; have hc := UInt8.toNat_lt c; have hd := UInt8.toNat_lt d
    simp only [Nat.zero_add, Nat.reduceAdd, ne_eq, not_true_eq_false, decide_false, Bool.false_eq_true, if_false,
      List.getD_cons_zero, List.getD_cons_succ, BitVec.toNat_or, BitVec.toNat_shiftLeft, BitVec.toNat_setWidth, UInt8.toNat_toBitVec]
    rw [(byte_shl a 24 32 (by decide)).1, (byte_shl b 16 32 (by decide)).1, (byte_shl c 8 32 (by decide)).1,
      byte_mod d 32 (by decide), be4 _ _ _ _ hb hc hd]
    omega
  · simp only [List.length_cons, Marshal.decInt]
    rfl

/-- `decBigInt`: 0 unless exactly 8 bytes, else the big-endian int64 -/
theorem decBigInt (l : List UInt8) (hl : l.length < 2^63) :
    (Gen.Marshal.decBigInt (l.map (·.toBitVec))).toInt = Marshal.decBigInt l := by
  unfold Gen.Marshal.decBigInt
  rw [List.length_map, show (0x8#64 : BitVec 64) = BitVec.ofNat 64 8 from rfl, len_ne _ _ hl (by decide)]
  rcases l with _ | ⟨a, _ | ⟨b, _ | ⟨c, _ | ⟨d, _ | ⟨e, _ | ⟨f, _ | ⟨g, _ | ⟨h, _ | ⟨i, t⟩⟩⟩⟩⟩⟩⟩⟩⟩
  · simp [Marshal.decBigInt]
  · simp [Marshal.decBigInt]
  · simp [Marshal.decBigInt]
  · simp [Marshal.decBigInt]
  · simp [Marshal.decBigInt]
  · simp [Marshal.decBigInt]
  · simp [Marshal.decBigInt]
  · simp [Marshal.decBigInt]
  · simp only [List.map_cons, List.map_nil, List.length_cons, List.length_nil, Marshal.decBigInt]
    rw [toS_of_toNat (by decide)]
    congr 1
    have hb := UInt8.toNat_lt b; have hc := UInt8.toNat_lt c; have hd := UInt8.toNat_lt d
    have he := UInt8.toNat_lt e; have hf := UInt8.toNat_lt f; have hg := UInt8.toNat_lt g; have hh := UInt8.toNat_lt h
    simp only [Nat.zero_add, Nat.reduceAdd, ne_eq, not_true_eq_false, decide_false, Bool.false_eq_true, if_false,
      List.getD_cons_zero, List.getD_cons_succ, BitVec.toNat_or, BitVec.toNat_shiftLeft, BitVec.toNat_setWidth, UInt8.toNat_toBitVec]
    rw [(byte_shl a 56 64 (by decide)).1, (byte_shl b 48 64 (by decide)).1, (byte_shl c 40 64 (by decide)).1,
      (byte_shl d 32 64 (by decide)).1, (byte_shl e 24 64 (by decide)).1, (byte_shl f 16 64 (by decide)).1,
      (byte_shl g 8 64 (by decide)).1, byte_mod h 64 (by decide), be8 _ _ _ _ _ _ _ _ hb hc hd he hf hg hh]
    omega
  · simp only [List.length_cons, Marshal.decBigInt]
    rfl


/-! ### Loops: `bytesToInt64` / `bytesToUint64` (range loops, translated since go2lean handles counted loops)

  The generated helper `bytes…_loop1` is the Go loop by recursion on a fuel argument (= `len(data)`); `orBE` is what it
  accumulates; `orBE_val` is the big-endian value modulo 2^64 (the shifted bytes occupy disjoint bit ranges, bytes
  beyond the lowest eight are shifted out exactly as in Go). -/

/-- what the loop of `bytesToInt64` / `bytesToUint64` accumulates over the rest of the slice -/
def orBE : List (BitVec 8) → BitVec 64
  | [] => 0#64
  | b :: bs => (b.setWidth 64 <<< (8 * bs.length)) ||| orBE bs

theorem slt_small (i n : Nat) (h : i < n) (hn : n < 2^62) :
    BitVec.slt (BitVec.ofNat 64 i) (BitVec.ofNat 64 n) = true := by
  simp only [BitVec.slt, BitVec.toInt_eq_toNat_cond, BitVec.toNat_ofNat, decide_eq_true_eq]
  have a : i % 2^64 = i := Nat.mod_eq_of_lt (by omega)
  have b : n % 2^64 = n := Nat.mod_eq_of_lt (by omega)
  rw [a, b]
  have : 2 * i < 2^64 := by omega
  have : 2 * n < 2^64 := by omega
  simp [*]

theorem shiftAmount (len i k : Nat) (h : len = i + k + 1) (hl : len < 2^60) :
    (0x8#64 * ((BitVec.ofNat 64 len - BitVec.ofNat 64 i) - 0x1#64)).toNat = 8 * k := by
  subst h
  have e : (BitVec.ofNat 64 (i + k + 1) - BitVec.ofNat 64 i) - 0x1#64 = BitVec.ofNat 64 k := by
    apply BitVec.eq_of_toNat_eq
    simp [BitVec.toNat_sub]
    omega
  rw [e]
  simp [BitVec.toNat_mul]
  omega

theorem loopU (pre rest : List (BitVec 8)) (hl : (pre ++ rest).length < 2^60) (ret : BitVec 64) :
    Gen.Marshal.bytesToUint64_loop1 (pre ++ rest) rest.length (BitVec.ofNat 64 pre.length) ret = ret ||| orBE rest := by
  induction rest generalizing pre ret with
  | nil => simp [Gen.Marshal.bytesToUint64_loop1, orBE]
  | cons b bs ih =>
    rw [List.length_cons, Gen.Marshal.bytesToUint64_loop1]
    have hlen : (pre ++ b :: bs).length = pre.length + bs.length + 1 := by simp; omega
    rw [slt_small pre.length (pre ++ b :: bs).length (by omega) (by omega)]
    simp only [if_true]
    rw [shiftAmount _ _ bs.length hlen hl]
    have hi : (BitVec.ofNat 64 pre.length).toNat = pre.length := by simp; omega
    have hget : (pre ++ b :: bs).getD (BitVec.ofNat 64 pre.length).toNat 0#8 = b := by
      rw [hi]; simp [List.getD_eq_getElem?_getD]
    rw [hget]
    have hadd : BitVec.ofNat 64 pre.length + 0x1#64 = BitVec.ofNat 64 (pre ++ [b]).length := by
      apply BitVec.eq_of_toNat_eq; simp
    rw [hadd]
    have hpre : pre ++ b :: bs = (pre ++ [b]) ++ bs := by simp
    rw [hpre, ih (pre ++ [b]) (by rw [← hpre]; exact hl)]
    simp [orBE, BitVec.or_assoc]


theorem beNat_foldl (bs : List UInt8) (a : Nat) :
    bs.foldl (fun a x => a * 256 + x.toNat) a = a * 256 ^ bs.length + ValueSpec.beNat bs := by
  induction bs generalizing a with
  | nil => simp [ValueSpec.beNat]
  | cons b bs ih =>
    simp only [List.foldl_cons, List.length_cons, ValueSpec.beNat]
    rw [ih, ih (0 * 256 + b.toNat)]
    rw [Nat.pow_succ]
    simp [Nat.add_mul, Nat.mul_assoc, Nat.add_assoc, Nat.mul_comm 256]

theorem beNat_cons (b : UInt8) (bs : List UInt8) :
    ValueSpec.beNat (b :: bs) = b.toNat * 256 ^ bs.length + ValueSpec.beNat bs := by
  have := beNat_foldl bs (0 * 256 + b.toNat)
  simpa [ValueSpec.beNat] using this

theorem beNat_lt (bs : List UInt8) : ValueSpec.beNat bs < 256 ^ bs.length := by
  induction bs with
  | nil => simp [ValueSpec.beNat]
  | cons b bs ih =>
    rw [beNat_cons, List.length_cons, Nat.pow_succ]
    have : b.toNat < 256 := b.toNat_lt
    calc b.toNat * 256 ^ bs.length + ValueSpec.beNat bs
        < b.toNat * 256 ^ bs.length + 256 ^ bs.length := by omega
      _ = (b.toNat + 1) * 256 ^ bs.length := by rw [Nat.add_mul]; simp
      _ ≤ 256 * 256 ^ bs.length := Nat.mul_le_mul_right _ (by omega)
      _ = 256 ^ bs.length * 256 := Nat.mul_comm _ _

theorem pow256 (n : Nat) : 256 ^ n = 2 ^ (8 * n) := by
  rw [show (256:Nat) = 2^8 from rfl, ← Nat.pow_mul]

theorem or_step (b X n : Nat) (hX : X < 2 ^ (8 * n)) :
    ((b <<< (8 * n)) % 2^64) ||| (X % 2^64) = (b * 2 ^ (8 * n) + X) % 2^64 := by
  by_cases hk : 8 * n < 64
  · have hX64 : X % 2^64 = X := Nat.mod_eq_of_lt (Nat.lt_of_lt_of_le hX (Nat.pow_le_pow_right (by decide) (by omega)))
    rw [hX64, Nat.shiftLeft_eq]
    have hsplit : (2:Nat)^64 = 2 ^ (64 - 8 * n) * 2 ^ (8 * n) := by rw [← Nat.pow_add]; congr 1; omega
    have hm : b * 2 ^ (8 * n) % 2^64 = (b % 2 ^ (64 - 8 * n)) * 2 ^ (8 * n) := by
      rw [hsplit, Nat.mul_mod_mul_right]
    rw [hm, ← Nat.shiftLeft_eq, ← Nat.shiftLeft_add_eq_or_of_lt hX, Nat.shiftLeft_eq]
    have hlt : (b % 2 ^ (64 - 8 * n)) * 2 ^ (8 * n) + X < 2^64 := by
      have h1 : b % 2 ^ (64 - 8 * n) + 1 ≤ 2 ^ (64 - 8 * n) := Nat.mod_lt _ (Nat.two_pow_pos _)
      calc (b % 2 ^ (64 - 8 * n)) * 2 ^ (8 * n) + X
          < (b % 2 ^ (64 - 8 * n)) * 2 ^ (8 * n) + 2 ^ (8 * n) := by omega
        _ = (b % 2 ^ (64 - 8 * n) + 1) * 2 ^ (8 * n) := by rw [Nat.add_mul]; simp
        _ ≤ 2 ^ (64 - 8 * n) * 2 ^ (8 * n) := Nat.mul_le_mul_right _ h1
        _ = 2^64 := hsplit.symm
    rw [Nat.add_mod, hm, hX64]
    rw [Nat.mod_eq_of_lt hlt]
  · have hd : (2:Nat)^64 ∣ b * 2 ^ (8 * n) := by
      obtain ⟨j, hj⟩ : ∃ j, 8 * n = 64 + j := ⟨8 * n - 64, by omega⟩
      rw [hj, Nat.pow_add]; exact ⟨b * 2^j, by rw [Nat.mul_comm (2^64) (2^j), ← Nat.mul_assoc, Nat.mul_comm]⟩
    rw [Nat.shiftLeft_eq, Nat.mod_eq_zero_of_dvd hd, Nat.zero_or, Nat.add_mod, Nat.mod_eq_zero_of_dvd hd, Nat.zero_add, Nat.mod_mod]

theorem orBE_val (bs : List UInt8) : (orBE (bs.map (·.toBitVec))).toNat = ValueSpec.beNat bs % 2^64 := by
  induction bs with
  | nil => simp [orBE, ValueSpec.beNat]
  | cons b bs ih =>
    simp only [List.map_cons, orBE, BitVec.toNat_or, BitVec.toNat_shiftLeft, List.length_map, ih]
    have hb : (BitVec.setWidth 64 b.toBitVec).toNat = b.toNat := by
      have := b.toNat_lt; simp
    rw [hb, beNat_cons, pow256]
    have := or_step b.toNat (ValueSpec.beNat bs) bs.length (by rw [← pow256]; exact beNat_lt bs)
    exact this

/-- `bytesToUint64` for every byte slice (below 2^60 bytes): the big-endian value modulo 2^64 -/
theorem bytesToUint64 (l : List UInt8) (hl : l.length < 2^60) :
    ((Gen.Marshal.bytesToUint64 (l.map (·.toBitVec))).toNat : Int) = Marshal.bytesToUint64 l := by
  unfold Gen.Marshal.bytesToUint64 Marshal.bytesToUint64 toU
  have hf : ((BitVec.ofNat 64 (l.map (·.toBitVec)).length) - 0x0#64).toNat = (l.map (·.toBitVec)).length := by
    simp; omega
  simp only [hf]
  have := loopU [] (l.map (·.toBitVec)) (by simpa using hl) 0x0#64
  simp only [List.nil_append, List.length_nil] at this
  rw [show (0x0#64 : BitVec 64) = BitVec.ofNat 64 0 from rfl, this]
  simp only [BitVec.zero_or, orBE_val]
  norm_cast


theorem loopS (pre rest : List (BitVec 8)) (hl : (pre ++ rest).length < 2^60) (ret : BitVec 64) :
    Gen.Marshal.bytesToInt64_loop1 (pre ++ rest) rest.length (BitVec.ofNat 64 pre.length) ret = ret ||| orBE rest := by
  induction rest generalizing pre ret with
  | nil => simp [Gen.Marshal.bytesToInt64_loop1, orBE]
  | cons b bs ih =>
    rw [List.length_cons, Gen.Marshal.bytesToInt64_loop1]
    have hlen : (pre ++ b :: bs).length = pre.length + bs.length + 1 := by simp; omega
    rw [slt_small pre.length (pre ++ b :: bs).length (by omega) (by omega)]
    simp only [if_true]
    rw [shiftAmount _ _ bs.length hlen hl]
    have hi : (BitVec.ofNat 64 pre.length).toNat = pre.length := by simp; omega
    have hget : (pre ++ b :: bs).getD (BitVec.ofNat 64 pre.length).toNat 0#8 = b := by
      rw [hi]; simp [List.getD_eq_getElem?_getD]
    rw [hget]
    have hadd : BitVec.ofNat 64 pre.length + 0x1#64 = BitVec.ofNat 64 (pre ++ [b]).length := by
      apply BitVec.eq_of_toNat_eq; simp
    rw [hadd]
    have hpre : pre ++ b :: bs = (pre ++ [b]) ++ bs := by simp
    rw [hpre, ih (pre ++ [b]) (by rw [← hpre]; exact hl)]
    simp [orBE, BitVec.or_assoc]

theorem toS_mod (x : Nat) : toS 64 ((x % 2^64 : Nat) : Int) = toS 64 (x : Int) := by
  unfold toS
  have : ((x % 2^64 : Nat) : Int) = (x : Int) % (2:Int)^64 := by norm_cast
  rw [this]
  omega

/-- `bytesToInt64` for every byte slice (below 2^60 bytes): the big-endian value as a signed 64-bit number -/
theorem bytesToInt64 (l : List UInt8) (hl : l.length < 2^60) :
    (Gen.Marshal.bytesToInt64 (l.map (·.toBitVec))).toInt = Marshal.bytesToInt64 l := by
  rw [toS_of_toNat (by decide)]
  unfold Gen.Marshal.bytesToInt64 Marshal.bytesToInt64
  have hf : ((BitVec.ofNat 64 (l.map (·.toBitVec)).length) - 0x0#64).toNat = (l.map (·.toBitVec)).length := by
    simp; omega
  simp only [hf]
  have := loopS [] (l.map (·.toBitVec)) (by simpa using hl) 0x0#64
  simp only [List.nil_append, List.length_nil] at this
  rw [show (0x0#64 : BitVec 64) = BitVec.ofNat 64 0 from rfl, this]
  simp only [BitVec.zero_or, orBE_val]
  exact toS_mod _

example : (Gen.Marshal.bytesToInt64 [0xff#8, 0xfe#8]).toInt = 65534 := by decide
example : Gen.Marshal.bytesToUint64 [1#8, 2#8, 3#8, 4#8, 5#8, 6#8, 7#8, 8#8, 9#8] = 0x0203040506070809#64 := by decide



/-! ### The accumulation loop of `decVint` (duration vints), a statement segment translated as a counted loop -/

/-- one step of the `decVint` loop on the 64-bit accumulator: `ret <<= 8; ret |= uint64(data[i+1] & 0xff)` -/
def vstep (acc : BitVec 64) (x : BitVec 8) : BitVec 64 := (acc <<< 8) ||| ((x &&& 0xff#8).setWidth 64)

theorem vloop (d : List (BitVec 8)) (s0 n0 : Nat) (hB : s0 + n0 + 1 ≤ d.length) (hd : d.length < 2^60) :
    ∀ (n s : Nat) (ret : BitVec 64), s + n = s0 + n0 →
      Gen.Marshal.decVint_decVintLoop_loop1 d (BitVec.ofNat 64 s0) (BitVec.ofNat 64 n0) n (BitVec.ofNat 64 s) ret
        = ((d.drop (s + 1)).take n).foldl vstep ret := by
  intro n
  induction n with
  | zero => intro s ret _; simp [Gen.Marshal.decVint_decVintLoop_loop1]
  | succ n ih =>
    intro s ret hs
    rw [Gen.Marshal.decVint_decVintLoop_loop1]
    have hb : BitVec.ofNat 64 s0 + BitVec.ofNat 64 n0 = BitVec.ofNat 64 (s0 + n0) := by
      apply BitVec.eq_of_toNat_eq; simp
    rw [hb, slt_small s (s0 + n0) (by omega) (by omega)]
    simp only [if_true]
    have hi : (BitVec.ofNat 64 s + 0x1#64).toNat = s + 1 := by simp; omega
    have hadd : BitVec.ofNat 64 s + 0x1#64 = BitVec.ofNat 64 (s + 1) := by
      apply BitVec.eq_of_toNat_eq; simp
    rw [hi, hadd, ih (s + 1) _ (by omega)]
    have hlt : s + 1 < d.length := by omega
    have hR : (d.drop (s + 1)).take (n + 1) = d[s+1] :: (d.drop (s + 1 + 1)).take n := by
      rw [List.drop_eq_getElem_cons hlt]; rfl
    have hg : d.getD (s + 1) 0#8 = d[s+1] := by
      rw [List.getD_eq_getElem?_getD, List.getElem?_eq_getElem hlt]; rfl
    rw [hR, List.foldl_cons, hg]
    rfl

/-- the loop of `decVint` (`for i := start; i < start+numBytes; i++ { ret <<= 8; ret |= uint64(data[i+1] & 0xff) }`),
    whenever the bytes are there (`decVint` has checked `len(data) ≥ start+numBytes+1` before): the fold of `vstep`
    over the `numBytes` bytes after the first -/
theorem decVintLoop (d : List (BitVec 8)) (s n : Nat) (hB : s + n + 1 ≤ d.length) (hd : d.length < 2^60) (ret : BitVec 64) :
    Gen.Marshal.decVintLoop d (BitVec.ofNat 64 s) (BitVec.ofNat 64 n) ret = ((d.drop (s + 1)).take n).foldl vstep ret := by
  unfold Gen.Marshal.decVintLoop
  have hf : ((BitVec.ofNat 64 s + BitVec.ofNat 64 n) - BitVec.ofNat 64 s).toNat = n := by
    have : BitVec.ofNat 64 s + BitVec.ofNat 64 n - BitVec.ofNat 64 s = BitVec.ofNat 64 n := by
      apply BitVec.eq_of_toNat_eq; simp [BitVec.toNat_sub]; omega
    rw [this]; simp; omega
  simp only [hf]
  exact vloop d s n hB hd n s ret rfl

/-- `vstep` on the value level is the model's accumulator step `(acc * 256 + x) % 2^64` -/
theorem vstep_val (acc : BitVec 64) (x : UInt8) :
    (vstep acc x.toBitVec).toNat = (acc.toNat * 256 + x.toNat) % 2^64 := by
  unfold vstep
  have hx256 := x.toNat_lt
  have hx : ((x.toBitVec &&& 0xff#8).setWidth 64).toNat = x.toNat := by
    have := x.toNat_lt
    simp [BitVec.toNat_and]
    have h255 : (255:Nat) = 2^8 - 1 := rfl
    rw [h255, Nat.and_two_pow_sub_one_eq_mod]; omega
  rw [BitVec.toNat_or, BitVec.toNat_shiftLeft, hx, Nat.shiftLeft_eq]
  have hsplit : (2:Nat)^64 = 2^56 * 2^8 := by decide
  have hm : acc.toNat * 2^8 % 2^64 = (acc.toNat % 2^56) * 2^8 := by rw [hsplit, Nat.mul_mod_mul_right]
  rw [hm, ← Nat.shiftLeft_eq, ← Nat.shiftLeft_add_eq_or_of_lt (by have := x.toNat_lt; omega), Nat.shiftLeft_eq]
  omega

theorem vfold_val (xs : List UInt8) (acc : BitVec 64) :
    ((xs.map (·.toBitVec)).foldl vstep acc).toNat = xs.foldl (fun a x => (a * 256 + x.toNat) % 2^64) acc.toNat := by
  induction xs generalizing acc with
  | nil => rfl
  | cons x xs ih => simp only [List.map_cons, List.foldl_cons]; rw [ih, vstep_val]



/-! ### `bits.LeadingZeros64` (translated to `BitVec.clz`) against the model's `leadingZeros64 u = 64 - bitLen u` -/

theorem bitLen_of_bounds (k n : Nat) (h1 : 2^k ≤ n) (h2 : n < 2^(k+1)) : Marshal.bitLen n = k + 1 := by
  induction k generalizing n with
  | zero =>
    have : n = 1 := by simp at h1 h2; omega
    subst this
    rw [Marshal.bitLen]; simp; rw [Marshal.bitLen]; simp
  | succ k ih =>
    have hn : n ≠ 0 := by
      intro h; subst h; have := Nat.two_pow_pos (k+1); omega
    rw [Marshal.bitLen]; simp only [hn, if_false]
    have := ih (n / 2) (by rw [Nat.pow_succ] at h1; omega) (by rw [Nat.pow_succ] at h2; omega)
    omega

theorem clz_bitLen (x : BitVec 64) : (BitVec.clz x).toNat = 64 - Marshal.bitLen x.toNat := by
  by_cases hx : x = 0#64
  · subst hx
    have : BitVec.clz (0#64) = 64#64 := by decide
    rw [this, Marshal.bitLen]; simp
  · have hlt : (BitVec.clz x).toNat < 64 := by
      have := (BitVec.clz_lt_iff_ne_zero (x := x)).mpr hx
      have := BitVec.lt_def.mp this
      simpa using this
    have h1 := BitVec.two_pow_sub_clz_le_toNat_of_ne_zero (x := x) (by decide) hx
    have h2 := BitVec.toNat_lt_two_pow_sub_clz (x := x)
    have e : 64 - (BitVec.clz x).toNat = (64 - 1 - (BitVec.clz x).toNat) + 1 := by omega
    rw [e] at h2
    have := bitLen_of_bounds _ _ h1 h2
    omega


/-! ### The whole `encVint` (descending store loop): for each of the ten possible byte counts the loop unfolds to an
  explicit list, compared entry by entry with the model's `lowBytes` -/

set_option linter.unusedVariables false

theorem numBytes_of_lead0 : ∀ l, l ≤ 64 →
    BitVec.sshiftRight (0x27f#64 - (BitVec.ofNat 64 l * 0x9#64)) 6 = BitVec.ofNat 64 ((639 - l * 9) >>> 6) := by
  decide

theorem byteNat_bv (x : BitVec 64) : ValueSpec.byteOfNat x.toNat = UInt8.ofBitVec (x.setWidth 8) := by
  unfold ValueSpec.byteOfNat
  apply UInt8.toBitVec_inj.mp
  apply BitVec.eq_of_toNat_eq
  simp

theorem div256_bv (x : BitVec 64) : x.toNat / 256 = (x >>> 8).toNat := by
  rw [BitVec.toNat_ushiftRight, Nat.shiftRight_eq_div_pow]

/-- the part of the generated `encVint` after `numBytes` has been computed -/
def encVintBody (vEnc numBytes : BitVec 64) : List (BitVec 8) :=
  if (BitVec.sle numBytes 0x1#64) then
    [(vEnc.setWidth 8)]
  else
    let extraBytes := (numBytes - 0x1#64)
    let buf : List (BitVec 8) := (List.replicate (numBytes).toNat 0#8)
    let (buf, vEnc) := Gen.Marshal.encVint_loop1  ((extraBytes - 0x0#64).toNat + 1) extraBytes buf vEnc
    let buf := buf.set 0 ((buf.getD 0 0#8) ||| (~~~(0xff#8 >>> (extraBytes).toNat)))
    buf

def encVintModelBody (vEnc numBytes : Nat) : List UInt8 :=
  if numBytes ≤ 1 then [ValueSpec.byteOfNat vEnc]
  else
    let extraBytes := numBytes - 1
    match lowBytes extraBytes vEnc with
    | b0 :: r => (b0 ||| UInt8.ofNat (255 - (255 >>> extraBytes))) :: r
    | [] => []

theorem ofBitVec_or (a b : BitVec 8) : UInt8.ofBitVec (a ||| b) = UInt8.ofBitVec a ||| UInt8.ofBitVec b := rfl

theorem encVintBody_eq (u : BitVec 64) (k : Nat) (hk : k ≤ 9) :
    (encVintBody u (BitVec.ofNat 64 k)).map UInt8.ofBitVec = encVintModelBody u.toNat k := by
  obtain rfl | rfl | rfl | rfl | rfl | rfl | rfl | rfl | rfl | rfl :
    k = 0 ∨ k = 1 ∨ k = 2 ∨ k = 3 ∨ k = 4 ∨ k = 5 ∨ k = 6 ∨ k = 7 ∨ k = 8 ∨ k = 9 := by omega
  all_goals
    simp [encVintBody, encVintModelBody, Gen.Marshal.encVint_loop1, lowBytes]
  all_goals repeat' apply And.intro
  all_goals first | (apply congrArg (· ||| _)) | skip
  all_goals
    unfold ValueSpec.byteOfNat
    apply UInt8.toBitVec_inj.mp
    apply BitVec.eq_of_toNat_eq
    simp [Nat.shiftRight_eq_div_pow]
    try omega


theorem encVint_all (n : Int) :
    (Gen.Marshal.encVint (BitVec.ofInt 64 n)).map UInt8.ofBitVec = Marshal.encVint n := by
  have hg : Gen.Marshal.encVint (BitVec.ofInt 64 n)
      = encVintBody (Gen.Marshal.encIntZigZag (BitVec.ofInt 64 n))
          (BitVec.sshiftRight (0x27f#64 - (((BitVec.clz (Gen.Marshal.encIntZigZag (BitVec.ofInt 64 n))).setWidth 64) * 0x9#64)) 6) := rfl
  have hm : Marshal.encVint n
      = encVintModelBody (Marshal.encIntZigZag n) ((639 - Marshal.leadingZeros64 (Marshal.encIntZigZag n) * 9) >>> 6) := rfl
  rw [hg, hm, ← GenTie.C12.encIntZigZag n]
  generalize Gen.Marshal.encIntZigZag (BitVec.ofInt 64 n) = u
  have hl := clz_bitLen u
  have hc : (BitVec.clz u).setWidth 64 = BitVec.ofNat 64 (64 - Marshal.bitLen u.toNat) := by
    apply BitVec.eq_of_toNat_eq
    simp only [BitVec.setWidth_eq, hl, BitVec.toNat_ofNat]
    omega
  unfold Marshal.leadingZeros64
  rw [hc, numBytes_of_lead0 _ (by omega)]
  apply encVintBody_eq
  rw [Nat.shiftRight_eq_div_pow]
  omega

/-- `encVint(v int64)` (zig-zag, `bits.LeadingZeros64`, byte count, the descending store loop, the length prefix bits)
    equals the model's `Marshal.encVint` for every int64 -/
theorem encVint (n : Int) (hn : -(2:Int)^63 ≤ n ∧ n < (2:Int)^63) :
    (Gen.Marshal.encVint (BitVec.ofInt 64 n)).map UInt8.ofBitVec = Marshal.encVint n := encVint_all n

/-! ### `readCollectionSize` (a struct parameter passed as the field it uses; `error` results as the Bool "non-nil") against
  the decode model's `Marshal.readCollSize` -/

theorem slt_nat (a b : Nat) (ha : a < 2^63) (hb : b < 2^63) :
    BitVec.slt (BitVec.ofNat 64 a) (BitVec.ofNat 64 b) = decide (a < b) := by
  simp only [BitVec.slt, BitVec.toInt_eq_toNat_cond, BitVec.toNat_ofNat]
  have a' : a % 2^64 = a := Nat.mod_eq_of_lt (by omega)
  have b' : b % 2^64 = b := Nat.mod_eq_of_lt (by omega)
  rw [a', b']
  have : 2 * a < 2^64 := by omega
  have : 2 * b < 2^64 := by omega
  simp [*]

theorem shorter_eq {α : Type} (l : List α) (n : Nat) : ValueSpec.shorter l n = decide (l.length < n) := by
  by_cases h : l.length < n
  · simp [h, (ValueSpec.shorter_iff l n).mpr h]
  · have : ValueSpec.shorter l n ≠ true := fun c => h ((ValueSpec.shorter_iff l n).mp c)
    simp [h, this]

/-- `readCollectionSize(info, data)`: error on a short prefix, else the int32 (protocol > 2) / uint16 size and the number
    of bytes read -/
theorem readCollectionSize (p : BitVec 8) (data : List UInt8) (h : data.length < 2^63) :
    (match Gen.Marshal.readCollectionSize p (data.map (·.toBitVec)) with
     | (size, read, err) => if err then none else some (size.toInt, data.drop read.toNat))
      = Marshal.readCollSize p.toNat data := by
  unfold Gen.Marshal.readCollectionSize Marshal.readCollSize
  rw [List.length_map, show (0x4#64 : BitVec 64) = BitVec.ofNat 64 4 from rfl, show (0x2#64 : BitVec 64) = BitVec.ofNat 64 2 from rfl,
    slt_nat _ _ h (by decide), slt_nat _ _ h (by decide), shorter_eq, shorter_eq]
  have hp : BitVec.ult 0x2#8 p = decide (p.toNat > 2) := by simp [BitVec.ult]
  rw [hp]
  by_cases h2 : p.toNat > 2
  · simp only [h2, decide_true, if_true]
    by_cases hl : data.length < 4
    · simp [hl]
    · obtain ⟨a, b, c, d, r, rfl⟩ : ∃ a b c d r, data = a :: b :: c :: d :: r := by
        rcases data with _ | ⟨a, _ | ⟨b, _ | ⟨c, _ | ⟨d, r⟩⟩⟩⟩
        · simp at hl
        · simp at hl
        · simp at hl
        · simp at hl
        · exact ⟨a, b, c, d, r, rfl⟩
      have hd := GenTie.C12.decInt [a, b, c, d] (by simp)
      simp only [Gen.Marshal.decInt, List.map_cons, List.map_nil, List.length_cons, List.length_nil] at hd
      simp only [hl, decide_false, Bool.false_eq_true, if_false, List.map_cons, List.getD_cons_zero, List.getD_cons_succ]
      rw [BitVec.toInt_signExtend_of_le (by decide)]
      simp at hd
      simp [hd]
  · simp only [h2, decide_false, Bool.false_eq_true, if_false]
    by_cases hl : data.length < 2
    · simp [hl]
    · obtain ⟨a, b, r, rfl⟩ : ∃ a b r, data = a :: b :: r := by
        rcases data with _ | ⟨a, _ | ⟨b, r⟩⟩
        · simp at hl
        · simp at hl
        · exact ⟨a, b, r, rfl⟩
      simp only [hl, decide_false, Bool.false_eq_true, if_false, List.map_cons, List.getD_cons_zero, List.getD_cons_succ]
      have hb := UInt8.toNat_lt b; have ha := UInt8.toNat_lt a
      have hv : ((a.toBitVec.setWidth 64 <<< 8) ||| b.toBitVec.setWidth 64).toNat = a.toNat * 256 + b.toNat := by
        simp only [BitVec.toNat_or, BitVec.toNat_shiftLeft, BitVec.toNat_setWidth, UInt8.toNat_toBitVec]
        rw [(byte_shl a 8 64 (by decide)).1, byte_mod b 64 (by decide), be2 _ _ hb]
      have hi : ((a.toBitVec.setWidth 64 <<< 8) ||| b.toBitVec.setWidth 64).toInt = ((a.toNat * 256 + b.toNat : Nat) : Int) := by
        rw [BitVec.toInt_eq_toNat_cond, hv]; split <;> omega
      rw [hi]
      simp [ValueSpec.beNat]

/-! ### The WHOLE `decVint` (early returns with an error, `LeadingZeros32`, the accumulation loop, zig-zag) against `Marshal.decVint` -/

theorem loop_same (d : List (BitVec 8)) (s n : BitVec 64) (fuel : Nat) (i ret : BitVec 64) :
    Gen.Marshal.decVint_loop1 d s n fuel i ret = Gen.Marshal.decVint_decVintLoop_loop1 d s n fuel i ret := by
  induction fuel generalizing i ret with
  | zero => rfl
  | succ k ih => simp only [Gen.Marshal.decVint_loop1, Gen.Marshal.decVint_decVintLoop_loop1, ih]

theorem bitLen_le (k n : Nat) (h : n < 2^k) : Marshal.bitLen n ≤ k := by
  induction k generalizing n with
  | zero => have : n = 0 := by simpa using h
            subst this; rw [Marshal.bitLen]; simp
  | succ k ih =>
    rw [Marshal.bitLen]
    split
    · omega
    · have := ih (n / 2) (by rw [Nat.pow_succ] at h; omega)
      omega

theorem clz_bitLen32 (x : BitVec 32) : (BitVec.clz x).toNat = 32 - Marshal.bitLen x.toNat := by
  by_cases hx : x = 0#32
  · subst hx
    have : BitVec.clz (0#32) = 32#32 := by decide
    rw [this, Marshal.bitLen]; simp
  · have hlt : (BitVec.clz x).toNat < 32 := by
      have := (BitVec.clz_lt_iff_ne_zero (x := x)).mpr hx
      have := BitVec.lt_def.mp this
      simpa using this
    have h1 := BitVec.two_pow_sub_clz_le_toNat_of_ne_zero (x := x) (by decide) hx
    have h2 := BitVec.toNat_lt_two_pow_sub_clz (x := x)
    have e : 32 - (BitVec.clz x).toNat = (32 - 1 - (BitVec.clz x).toNat) + 1 := by omega
    rw [e] at h2
    have := bitLen_of_bounds _ _ h1 h2
    omega

theorem small_iff : ∀ b : BitVec 8, ((b &&& 0x80#8) == 0x0#8) = decide (b.toNat < 128) := by decide

theorem not_val : ∀ b : BitVec 8, ((~~~b).setWidth 32).toNat = 255 - b.toNat := by decide

/-- `numBytes := bits.LeadingZeros32(uint32(^firstByte)) - 24` is the model's `leadOnes` -/
theorem numBytes_val (b : UInt8) :
    (((BitVec.clz ((~~~b.toBitVec).setWidth 32)).setWidth 64) - 0x18#64) = BitVec.ofNat 64 (Marshal.leadOnes b) := by
  apply BitVec.eq_of_toNat_eq
  have h1 := clz_bitLen32 ((~~~b.toBitVec).setWidth 32)
  have h2 := not_val b.toBitVec
  have hb := UInt8.toNat_lt b
  have h3 := bitLen_le 8 (255 - b.toNat) (by omega)
  unfold Marshal.leadOnes
  rw [h2] at h1
  simp only [UInt8.toNat_toBitVec] at h1
  rw [BitVec.toNat_sub, BitVec.toNat_setWidth, h1]
  simp
  omega


theorem sle_nat (a b : Nat) (ha : a < 2^63) (hb : b < 2^63) :
    BitVec.sle (BitVec.ofNat 64 a) (BitVec.ofNat 64 b) = decide (a ≤ b) := by
  simp only [BitVec.sle, BitVec.toInt_eq_toNat_cond, BitVec.toNat_ofNat]
  have a' : a % 2^64 = a := Nat.mod_eq_of_lt (by omega)
  have b' : b % 2^64 = b := Nat.mod_eq_of_lt (by omega)
  rw [a', b']
  have : 2 * a < 2^64 := by omega
  have : 2 * b < 2^64 := by omega
  simp [*]

theorem slt_small_dec (a b : Nat) (ha : a < 2^63) (hb : b < 2^63) :
    BitVec.slt (BitVec.ofNat 64 a) (BitVec.ofNat 64 b) = decide (a < b) := by
  simp only [BitVec.slt, BitVec.toInt_eq_toNat_cond, BitVec.toNat_ofNat]
  have a' : a % 2^64 = a := Nat.mod_eq_of_lt (by omega)
  have b' : b % 2^64 = b := Nat.mod_eq_of_lt (by omega)
  rw [a', b']
  have : 2 * a < 2^64 := by omega
  have : 2 * b < 2^64 := by omega
  simp [*]

theorem zz_toInt (x : BitVec 64) : (Gen.Marshal.decIntZigZag x).toInt = Marshal.decIntZigZag x.toNat := by
  have := GenTie.C12.decIntZigZag x.toNat
  rwa [BitVec.ofNat_toNat, BitVec.setWidth_eq] at this

/-- the WHOLE `decVint(data, start)`: error / (value, next position) as the model's `decVint` on the suffix at `start` -/
theorem decVint (data : List UInt8) (s : Nat) (hd : data.length < 2^60) (hs : s ≤ data.length) :
    (match Gen.Marshal.decVint (data.map (·.toBitVec)) (BitVec.ofNat 64 s) with
     | (v, nxt, err) => if err then none else some (v.toInt, data.drop nxt.toNat)) = Marshal.decVint (data.drop s) := by
  unfold Gen.Marshal.decVint
  rw [List.length_map, sle_nat _ _ (by omega) (by omega)]
  by_cases h1 : data.length ≤ s
  · have : data.drop s = [] := List.drop_eq_nil_of_le h1
    simp [h1, this, Marshal.decVint]
  · have hlt : s < data.length := by omega
    have hdrop : data.drop s = data[s] :: data.drop (s + 1) := List.drop_eq_getElem_cons hlt
    have hsn : (BitVec.ofNat 64 s).toNat = s := by simp only [BitVec.toNat_ofNat]; omega
    have hget : (data.map (·.toBitVec)).getD (BitVec.ofNat 64 s).toNat 0#8 = (data[s]).toBitVec := by
      rw [hsn, List.getD_eq_getElem?_getD, List.getElem?_map, List.getElem?_eq_getElem hlt]; rfl
    simp only [h1, decide_false, Bool.false_eq_true, if_false, hget, small_iff, hdrop, Marshal.decVint, UInt8.toNat_toBitVec]
    generalize data[s] = first
    by_cases hsm : first.toNat < 128
    · have h64 : first.toBitVec.setWidth 64 = BitVec.ofNat 64 first.toNat := by
        apply BitVec.eq_of_toNat_eq; have := UInt8.toNat_lt first; simp
      have hn : (BitVec.ofNat 64 s + 0x1#64).toNat = s + 1 := by simp; omega
      simp [hsm, zz_toInt, hn]
    · simp only [hsm, decide_false, Bool.false_eq_true, if_false, numBytes_val]
      have hnb : Marshal.leadOnes first ≤ 8 := by unfold Marshal.leadOnes; omega
      generalize Marshal.leadOnes first = nb at hnb
      have hadd : BitVec.ofNat 64 s + BitVec.ofNat 64 nb + 0x1#64 = BitVec.ofNat 64 (s + nb + 1) := by
        apply BitVec.eq_of_toNat_eq; simp
      have hnbn : (BitVec.ofNat 64 nb).toNat = nb := by simp only [BitVec.toNat_ofNat]; omega
      rw [hadd, slt_small_dec _ _ (by omega) (by omega), hnbn]
      have hrl : (data.drop (s + 1)).length = data.length - (s + 1) := by simp
      by_cases hshort : data.length < s + nb + 1
      · have : (data.drop (s + 1)).length < nb := by omega
        simp [hshort]; omega
      · have hnot : ¬ (data.drop (s + 1)).length < nb := by omega
        simp only [hshort, hnot, decide_false, Bool.false_eq_true, if_false]
        rw [loop_same]
        have hL := GenTie.C12.decVintLoop (data.map (·.toBitVec)) s nb (by simp; omega) (by simpa using hd)
          (BitVec.setWidth 64 (first.toBitVec &&& 255#8 >>> nb))
        unfold Gen.Marshal.decVintLoop at hL
        simp only [] at hL
        rw [hL, zz_toInt, List.drop_drop, ← List.map_drop, ← List.map_take, vfold_val]
        have hr0 : (BitVec.setWidth 64 (first.toBitVec &&& 255#8 >>> nb)).toNat = first.toNat &&& 255 >>> nb := by
          simp [BitVec.toNat_and]
        have hn : (BitVec.ofNat 64 (s + nb + 1)).toNat = s + nb + 1 := by simp only [BitVec.toNat_ofNat]; omega
        rw [hr0, hn]
        congr 3
        omega

/-! ### `writeCollectionSize` (`*bytes.Buffer` parameter = the list of bytes written, returned) against `Marshal.collSize` -/

theorem bmod64 (a : Int) (ha : -(2:Int)^63 ≤ a ∧ a < 2^63) : a.bmod (2^64) = a := by
  apply Int.bmod_eq_of_le
  · have e : ((2 ^ 64 : Nat) : Int) = 18446744073709551616 := rfl
    rw [e]; omega
  · have e : ((2 ^ 64 : Nat) : Int) = 18446744073709551616 := rfl
    rw [e]; omega

theorem slt_int (a b : Int) (ha : -(2:Int)^63 ≤ a ∧ a < 2^63) (hb : -(2:Int)^63 ≤ b ∧ b < 2^63) :
    BitVec.slt (BitVec.ofInt 64 a) (BitVec.ofInt 64 b) = decide (a < b) := by
  simp only [BitVec.slt, BitVec.toInt_ofInt, bmod64 a ha, bmod64 b hb]

theorem byteOf_shift_toS32 (n : Int) (k : Nat) (hk : k = 0 ∨ k = 8 ∨ k = 16 ∨ k = 24) :
    byteOf (toS 32 n >>> k) = byteOf (n >>> k) := by
  unfold byteOf toS
  congr 2
  simp only [Int.shiftRight_eq_div_pow]
  obtain rfl | rfl | rfl | rfl := hk
  all_goals (simp only [Nat.reducePow, Nat.reduceSub, Int.reducePow]; omega)

theorem byteOf_shift_toS16 (n : Int) (k : Nat) (hk : k = 0 ∨ k = 8) :
    byteOf (toS 16 n >>> k) = byteOf (n >>> k) := by
  unfold byteOf toS
  congr 2
  simp only [Int.shiftRight_eq_div_pow]
  obtain rfl | rfl := hk
  all_goals (simp only [Nat.reducePow, Nat.reduceSub, Int.reducePow]; omega)

/-- `writeCollectionSize(info, n, buf)` (the `*bytes.Buffer` is the list of the bytes written): "too large" or the
    buffer followed by the model's `collSize` bytes, both protocol framings, every int -/
theorem writeCollectionSize (p : BitVec 8) (n : Int) (hn : -(2:Int)^63 ≤ n ∧ n < 2^63) (buf : List (BitVec 8)) :
    (match Gen.Marshal.writeCollectionSize p (BitVec.ofInt 64 n) buf with
     | (b, err) => if err then none else some (b.map UInt8.ofBitVec))
      = (Marshal.collSize p.toNat n).map (buf.map UInt8.ofBitVec ++ ·) := by
  unfold Gen.Marshal.writeCollectionSize Marshal.collSize
  have hp : BitVec.ult 0x2#8 p = decide (p.toNat > 2) := by simp [BitVec.ult]
  have h1 : (0x7fffffff#64 : BitVec 64) = BitVec.ofInt 64 2147483647 := by decide
  have h2 : (0xffff#64 : BitVec 64) = BitVec.ofInt 64 65535 := by decide
  rw [hp, h1, h2, slt_int _ _ (by omega) hn, slt_int _ _ (by omega) hn]
  by_cases hv : p.toNat > 2
  · by_cases hbig : (2147483647:Int) < n
    · simp [hv, hbig]
    · have : ¬ n > 2147483647 := by omega
      simp only [hv, hbig, decide_true, decide_false, if_true, if_false, Bool.false_eq_true, Option.map_some,
        Marshal.encInt, List.map_append, List.map_cons, List.map_nil, List.append_assoc, List.cons_append, List.nil_append]
      rw [byte_shift (by decide) n 24 hn, byte_shift (by decide) n 16 hn, byte_shift (by decide) n 8 hn, byte_low (by decide) n hn,
        byteOf_shift_toS32 n 24 (by omega), byteOf_shift_toS32 n 16 (by omega), byteOf_shift_toS32 n 8 (by omega)]
      have := byteOf_shift_toS32 n 0 (by omega)
      simp only [Int.shiftRight_zero] at this
      rw [this]
  · by_cases hbig : (65535:Int) < n
    · simp [hv, hbig]
    · have : ¬ n > 65535 := by omega
      simp only [hv, hbig, decide_true, decide_false, if_true, if_false, Bool.false_eq_true, Option.map_some,
        Marshal.encShort, List.map_append, List.map_cons, List.map_nil, List.append_assoc, List.cons_append, List.nil_append]
      rw [byte_shift (by decide) n 8 hn, byte_low (by decide) n hn, byteOf_shift_toS16 n 8 (by omega)]
      have := byteOf_shift_toS16 n 0 (by omega)
      simp only [Int.shiftRight_zero] at this
      rw [this]

/-! ### `decVints`: three `decVint` calls threaded through the returned position -/

theorem decVint_next (data : List UInt8) (s : Nat) (hd : data.length < 2^60) (hs : s ≤ data.length) :
    (Gen.Marshal.decVint (data.map (·.toBitVec)) (BitVec.ofNat 64 s)).2.2 = false →
      (Gen.Marshal.decVint (data.map (·.toBitVec)) (BitVec.ofNat 64 s)).2.1.toNat ≤ data.length := by
  unfold Gen.Marshal.decVint
  rw [List.length_map, sle_nat _ _ (by omega) (by omega)]
  by_cases h1 : data.length ≤ s
  · simp [h1]
  · have hlt : s < data.length := by omega
    have hsn : (BitVec.ofNat 64 s).toNat = s := by simp only [BitVec.toNat_ofNat]; omega
    have hget : (data.map (·.toBitVec)).getD (BitVec.ofNat 64 s).toNat 0#8 = (data[s]).toBitVec := by
      rw [hsn, List.getD_eq_getElem?_getD, List.getElem?_map, List.getElem?_eq_getElem hlt]; rfl
    simp only [h1, decide_false, Bool.false_eq_true, if_false, hget, small_iff, UInt8.toNat_toBitVec]
    generalize data[s] = first
    by_cases hsm : first.toNat < 128
    · have hn : (BitVec.ofNat 64 s + 0x1#64).toNat = s + 1 := by simp; omega
      simp only [hsm, decide_true, if_true, hn]
      intro _; omega
    · simp only [hsm, decide_false, Bool.false_eq_true, if_false, numBytes_val]
      have hnb : Marshal.leadOnes first ≤ 8 := by unfold Marshal.leadOnes; omega
      generalize Marshal.leadOnes first = nb at hnb
      have hadd : BitVec.ofNat 64 s + BitVec.ofNat 64 nb + 0x1#64 = BitVec.ofNat 64 (s + nb + 1) := by
        apply BitVec.eq_of_toNat_eq; simp
      rw [hadd, slt_small_dec _ _ (by omega) (by omega)]
      by_cases hshort : data.length < s + nb + 1
      · simp [hshort]
      · have hn : (BitVec.ofNat 64 (s + nb + 1)).toNat = s + nb + 1 := by simp only [BitVec.toNat_ofNat]; omega
        simp only [hshort, decide_false, Bool.false_eq_true, if_false, hn]
        intro _; omega


theorem toInt_trunc32 (v : BitVec 64) : (v.setWidth 32).toInt = toS 32 v.toInt := by
  rw [toS_of_toNat (by decide)]
  unfold toS
  rw [BitVec.toNat_setWidth, BitVec.toInt_eq_toNat_cond]
  have := v.isLt
  simp only [Nat.reducePow, Nat.reduceSub, Int.reducePow]
  split <;> omega

theorem trunc32' (v : BitVec 64) : ((v.toNat : Nat) : Int).bmod 4294967296 = toS 32 v.toInt := by
  have := toInt_trunc32 v
  simpa using this

/-- one call of the generated `decVint` at a position inside the data, in destructured form -/
theorem decVint_step (data : List UInt8) (s : BitVec 64) (hd : data.length < 2^60) (hs : s.toNat ≤ data.length)
    (v p : BitVec 64) (e : Bool) (hg : Gen.Marshal.decVint (data.map (·.toBitVec)) s = (v, p, e)) :
    (e = true ∧ Marshal.decVint (data.drop s.toNat) = none) ∨
    (e = false ∧ p.toNat ≤ data.length ∧ Marshal.decVint (data.drop s.toNat) = some (v.toInt, data.drop p.toNat)) := by
  have t := decVint data s.toNat hd hs
  have n := decVint_next data s.toNat hd hs
  rw [BitVec.ofNat_toNat, BitVec.setWidth_eq, hg] at t n
  cases e
  · right; exact ⟨rfl, n rfl, by simpa using t.symm⟩
  · left; exact ⟨rfl, by simpa using t.symm⟩

/-- `decVints`: months, days (truncated to int32), nanoseconds, or an error -/
theorem decVints (data : List UInt8) (hd : data.length < 2^60) :
    (match Gen.Marshal.decVints (data.map (·.toBitVec)) with
     | (m, d, n, err) => if err then none else some (m.toInt, d.toInt, n.toInt)) = Marshal.decVints data := by
  unfold Gen.Marshal.decVints Marshal.decVints
  rcases h1 : Gen.Marshal.decVint (data.map (·.toBitVec)) 0x0#64 with ⟨v1, p1, e1⟩
  rcases decVint_step data 0x0#64 hd (by simp) v1 p1 e1 h1 with ⟨rfl, m1⟩ | ⟨rfl, b1, m1⟩
  · simp at m1; simp [m1, h1]
  · simp at m1
    rcases h2 : Gen.Marshal.decVint (data.map (·.toBitVec)) p1 with ⟨v2, p2, e2⟩
    rcases decVint_step data p1 hd b1 v2 p2 e2 h2 with ⟨rfl, m2⟩ | ⟨rfl, b2, m2⟩
    · simp [m1, m2, h1, h2]
    · rcases h3 : Gen.Marshal.decVint (data.map (·.toBitVec)) p2 with ⟨v3, p3, e3⟩
      rcases decVint_step data p2 hd b2 v3 p3 e3 h3 with ⟨rfl, m3⟩ | ⟨rfl, b3, m3⟩
      · simp [m1, m2, m3, h1, h2, h3]
      · simp [m1, m2, m3, h1, h2, h3]
        exact ⟨trunc32' v1, trunc32' v2⟩

end GenTie.C12
