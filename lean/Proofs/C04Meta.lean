/- C04 helper lemmas: result / prepared metadata (list induction over the columns) -/
import Proofs.C04Types
namespace C04
open FrameRead RespSpec

theorem viewTypes_length : ∀ (es : TypeDescs), (viewTypes es).length = es.length
  | .nil => rfl
  | .cons _ r => by simp [viewTypes, TypeDescs.length, viewTypes_length r]

theorem colExtra_view (t : TypeDesc) : colExtra (viewType t) = (destWidth t : Int) - 1 := by
  cases t <;> simp [viewType, colExtra, destWidth, viewTypes_length]

theorem readCol_global (ks tb name : FrameRead.Bytes) (t : TypeDesc) (r : FrameRead.Bytes)
    (hn : fitsShort name = true) (hw : wfType t = true) :
    readCol true ks tb (eString name ++ eType t ++ r)
      = .ok ({ keyspace := ks, table := tb, name := name, typ := viewType t }, r) := by
  unfold readCol
  simp only [Bool.not_true, Bool.false_eq_true, if_false, List.append_assoc]
  rw [bind_ok (pure_apply _ _), bind_ok (readString_eString name _ hn), bind_ok (readTypeInfo_ok t r hw)]
  rfl

theorem readCol_perCol (c : ColSpec) (r : FrameRead.Bytes) (k t : FrameRead.Bytes)
    (h1 : fitsShort c.ks = true) (h2 : fitsShort c.table = true) (h3 : fitsShort c.name = true)
    (hw : wfType c.typ = true) :
    readCol false k t (eString c.ks ++ (eString c.table ++ (eString c.name ++ eType c.typ)) ++ r)
      = .ok ({ keyspace := c.ks, table := c.table, name := c.name, typ := viewType c.typ }, r) := by
  unfold readCol
  simp only [Bool.not_false, if_true, List.append_assoc]
  rw [bind_bind_ok (readString_eString c.ks _ h1), bind_bind_ok (readString_eString c.table _ h2),
    bind_ok (pure_apply _ _), bind_ok (readString_eString c.name _ h3), bind_ok (readTypeInfo_ok c.typ r hw)]
  rfl

theorem hasFlag_small (n bit : Nat) (h : n < 2147483648) : hasFlag (n : Int) bit = (n &&& bit == bit) := by
  unfold hasFlag
  have : ((n : Int) % 4294967296).toNat = n := by omega
  rw [this]

theorem readPagingState_ok (p r : FrameRead.Bytes) (h : fitsInt p = true) :
    readPagingState (eBytes (some p) ++ r) = .ok (p, r) := by
  unfold readPagingState
  rw [bind_ok (readBytes_eBytes (some p) r (by simpa [optFitsInt] using h))]
  rfl

theorem sum_map_congr {α : Type} (l : List α) (f g : α → Int) (h : ∀ x, f x = g x) :
    (l.map f).sum = (l.map g).sum := by
  have : f = g := funext h
  rw [this]

/-- flags, column count and the tail, for the three shapes of column specifications -/
theorem readMetaTail_ok (m : Meta) (r : FrameRead.Bytes) (hw : wfMeta m = true) :
    readMetaTail (m.flagBits : Int) (m.cols.count : Int) (ePaging m.paging ++ eColsBody m.cols ++ r)
      = .ok ((viewMeta m, (globalOf m.cols).1, (globalOf m.cols).2), r) := by
  obtain ⟨paging, cols⟩ := m
  have hw' : optFitsInt paging = true ∧ wfCols cols = true := by
    simpa [wfMeta] using hw
  have hfl : (Meta.flagBits ⟨paging, cols⟩) < 2147483648 := by
    cases paging <;> cases cols <;> simp [Meta.flagBits, Cols.flagBits] <;> split <;> omega
  unfold readMetaTail
  simp only [hasFlag_small _ _ hfl]
  -- paging state
  have hpg : ∀ rest : FrameRead.Bytes,
      (if ((Meta.flagBits ⟨paging, cols⟩) &&& flagHasMorePages == flagHasMorePages) = true then
          (do let p ← readPagingState; pure (some p) : P (Option FrameRead.Bytes))
        else pure none) (ePaging paging ++ rest) = .ok (paging, rest) := by
    intro rest
    cases paging with
    | none =>
      have : ((Meta.flagBits ⟨none, cols⟩) &&& flagHasMorePages == flagHasMorePages) = false := by
        cases cols <;> simp [Meta.flagBits, Cols.flagBits, flagHasMorePages] <;> split <;> decide
      simp [this, ePaging, pure_apply]
    | some p =>
      have : ((Meta.flagBits ⟨some p, cols⟩) &&& flagHasMorePages == flagHasMorePages) = true := by
        cases cols <;> simp [Meta.flagBits, Cols.flagBits, flagHasMorePages] <;> split <;> decide
      simp only [this, if_true, ePaging]
      rw [bind_ok (readPagingState_ok p rest (by simpa [optFitsInt] using hw'.1))]
      rfl
  rw [List.append_assoc, bind_ok (hpg _)]
  cases cols with
  | omitted n g =>
    have : ((Meta.flagBits ⟨paging, .omitted n g⟩) &&& flagNoMetaData == flagNoMetaData) = true := by
      cases paging <;> cases g <;> simp [Meta.flagBits, Cols.flagBits, flagNoMetaData, flagGlobalTableSpec]
    simp [this, pure_apply, eColsBody, viewMeta, viewCols, actualCount, Cols.count, globalOf]
  | global ks tb cs =>
    have hnm : ((Meta.flagBits ⟨paging, .global ks tb cs⟩) &&& flagNoMetaData == flagNoMetaData) = false := by
      cases paging <;> simp [Meta.flagBits, Cols.flagBits, flagNoMetaData, flagGlobalTableSpec]
    have hg : ((Meta.flagBits ⟨paging, .global ks tb cs⟩) &&& flagGlobalTableSpec == flagGlobalTableSpec) = true := by
      cases paging <;> simp [Meta.flagBits, Cols.flagBits, flagNoMetaData, flagGlobalTableSpec]
    have hwc : ((fitsShort ks = true ∧ fitsShort tb = true) ∧ cs.length < 2147483648) ∧
        ∀ c ∈ cs, fitsShort c.1 = true ∧ wfType c.2 = true := by
      simpa [wfCols] using hw'.2
    simp only [hnm, hg, Bool.false_eq_true, if_false, if_true, eColsBody, List.append_assoc, Cols.count,
      Int.toNat_natCast]
    rw [bind_bind_ok (readString_eString ks _ hwc.1.1.1), bind_bind_ok (readString_eString tb _ hwc.1.1.2),
      bind_ok (pure_apply _ _)]
    rw [bind_ok (readN_flatMap (readCol true ks tb) (fun c : FrameRead.Bytes × TypeDesc => eString c.1 ++ eType c.2)
      (fun c => ({ keyspace := ks, table := tb, name := c.1, typ := viewType c.2 } : ColumnInfo)) cs r
      (fun c hcm r' => readCol_global ks tb c.1 c.2 r' (hwc.2 c hcm).1 (hwc.2 c hcm).2))]
    simp only [pure_apply, viewMeta, viewCols, globalOf, actualCount, Cols.count, colTypes, List.map_map]
    have hs := sum_map_congr cs (fun c => colExtra (viewType c.2)) (fun c => (destWidth c.2 : Int) - 1) (fun c => colExtra_view c.2)
    simp only [Function.comp_def]
    rw [hs]
  | perCol cs =>
    have hnm : ((Meta.flagBits ⟨paging, .perCol cs⟩) &&& flagNoMetaData == flagNoMetaData) = false := by
      cases paging <;> simp [Meta.flagBits, Cols.flagBits, flagNoMetaData, flagGlobalTableSpec]
    have hg : ((Meta.flagBits ⟨paging, .perCol cs⟩) &&& flagGlobalTableSpec == flagGlobalTableSpec) = false := by
      cases paging <;> simp [Meta.flagBits, Cols.flagBits, flagNoMetaData, flagGlobalTableSpec]
    have hwc : cs.length < 2147483648 ∧
        ∀ c ∈ cs, ((fitsShort c.ks = true ∧ fitsShort c.table = true) ∧ fitsShort c.name = true) ∧ wfType c.typ = true := by
      simpa [wfCols] using hw'.2
    simp only [hnm, hg, Bool.false_eq_true, if_false, eColsBody, Cols.count, Int.toNat_natCast]
    rw [bind_ok (pure_apply _ _)]
    rw [bind_ok (readN_flatMap (readCol false [] [])
      (fun c : ColSpec => eString c.ks ++ (eString c.table ++ (eString c.name ++ eType c.typ)))
      (fun c => ({ keyspace := c.ks, table := c.table, name := c.name, typ := viewType c.typ } : ColumnInfo)) cs r
      (fun c hcm r' => readCol_perCol c r' [] [] (hwc.2 c hcm).1.1.1 (hwc.2 c hcm).1.1.2 (hwc.2 c hcm).1.2
        (hwc.2 c hcm).2))]
    simp only [pure_apply, viewMeta, viewCols, globalOf, actualCount, Cols.count, colTypes, List.map_map]
    have hs := sum_map_congr cs (fun c => colExtra (viewType c.typ)) (fun c => (destWidth c.typ : Int) - 1) (fun c => colExtra_view c.typ)
    simp only [Function.comp_def]
    rw [hs]

theorem flagBits_lt (m : Meta) : m.flagBits < 8 := by
  obtain ⟨paging, cols⟩ := m
  cases paging <;> cases cols <;> simp [Meta.flagBits, Cols.flagBits] <;> split <;> omega

theorem count_lt (m : Meta) (hw : wfMeta m = true) : m.cols.count < 2147483648 := by
  obtain ⟨paging, cols⟩ := m
  have h2 : optFitsInt paging = true ∧ wfCols cols = true := by simpa [wfMeta] using hw
  have := h2.2
  cases cols <;> simp [wfCols] at this <;> simp [Cols.count] <;> omega

theorem parseResultMetadata_ok (m : Meta) (r : FrameRead.Bytes) (hw : wfMeta m = true) :
    parseResultMetadata (eMeta m ++ r) = .ok (viewMeta m, r) := by
  unfold parseResultMetadata eMeta
  have hf := flagBits_lt m
  have hn := count_lt m hw
  simp only [List.append_assoc]
  rw [bind_ok (readInt_eInt_nat _ _ (by omega)), bind_ok (readInt_eInt_nat _ _ hn)]
  have : ¬ ((m.cols.count : Int) < 0) := by omega
  simp only [this, if_false]
  have h := readMetaTail_ok m r hw
  simp only [List.append_assoc] at h
  rw [bind_ok h]
  rfl

theorem parsePreparedMetadata_ok (v : Nat) (pk : List Nat) (m : Meta) (r : FrameRead.Bytes)
    (hw : wfMeta m = true)
    (hpk : pk.length < 2147483648) (hpks : pk.all isShort = true) :
    parsePreparedMetadata v (ePreparedMeta v pk m ++ r) = .ok (viewPrepared v pk m, r) := by
  unfold parsePreparedMetadata ePreparedMeta
  have hf := flagBits_lt m
  have hn := count_lt m hw
  simp only [List.append_assoc]
  rw [bind_ok (readInt_eInt_nat _ _ (by omega)), bind_ok (readInt_eInt_nat _ _ hn)]
  have : ¬ ((m.cols.count : Int) < 0) := by omega
  simp only [this, if_false]
  have h := readMetaTail_ok m r hw
  simp only [List.append_assoc] at h
  by_cases hv : v ≥ 4
  · have hv' : (decide (v ≥ 4)) = true := by simpa using hv
    simp only [hv, if_true, List.append_assoc]
    rw [bind_bind_ok (readInt_eInt_nat _ _ hpk)]
    have hpklen : 2 * pk.length ≤ (pk.flatMap eShort).length := by
      clear hpk hpks
      induction pk with
      | nil => simp
      | cons x xs ih => simp [List.flatMap_cons, eShort] at *; omega
    simp only [Int.toNat_natCast]
    rw [bind_bind_ok (f := fun _ => _) (show checkPkeyCount (pk.length : Int) _ = .ok ((), _) by
      unfold checkPkeyCount
      rw [if_neg (by omega), if_neg (by simp only [Int.toNat_natCast, List.length_append]; omega)])]
    rw [bind_bind_ok (readN_flatMap_id readShort eShort pk _
      (fun x hx r' => readShort_eShort x r' (by simpa [isShort] using List.all_eq_true.mp hpks x hx)))]
    rw [bind_ok (pure_apply _ _), bind_ok h]
    simp [pure_apply, viewPrepared, hv]
  · have hv' : (decide (v ≥ 4)) = false := by simpa using hv
    simp only [hv, if_false, List.nil_append]
    rw [bind_ok (pure_apply _ _), bind_ok h]
    simp [pure_apply, viewPrepared, hv]

end C04
