import Proofs.C12Heap
/-!
C12, OWNERSHIP of what crosses gocql.Marshal / gocql.Unmarshal (the heap machine of Model/MarshalHeap.lean).

FULL STATEMENT of the sub-property: the bytes Marshal returned for a value are the specification's encoding
of THAT value for as long as somebody holds them — conn.go encodes every bind value of a statement / of all
statements of a batch before it writes the frame, applications keep results — however many Marshal and
Unmarshal calls of whatever types and sizes run afterwards, on whatever goroutine, and whatever the callers do
to their own inputs afterwards; and a decoded value stays the value when the caller recycles the data buffer.

That holds for the memory discipline of the code that exists (`fresh`: a new buffer per result slice —
`&bytes.Buffer{}` per marshalList / marshalMap call, `make` / `append` to a nil slice elsewhere, copies in the
decoders): theorems below, for ALL op sequences and every function table. One exception is part of the code that
exists and is stated as such: the ZERO-COPY paths (`case []byte: return v, nil` of marshalVarchar / marshalUUID,
`To4()` / `To16()` of a net.IP in marshalInet) hand the caller's own slice back when it is bound to the column
itself — such a result is, by construction, a view of the caller's buffer (`C12_passthrough_is_input`,
`C12_passthrough_witness`); the hypothesis `sl.pass = false` of `C12_held_intact` excludes exactly these.
It does not hold for every discipline: kernel-checked counterexamples for a pooled-and-returned scratch buffer
(`C12_cex_pooled_collection`, the replay input of op `held`) and for decoded byte slices that alias the data
buffer (`C12_cex_alias_data`).
-/
namespace C12
open MarshalHeap
open ValueSpec (Bytes CqlTy)
open Marshal

/-- **Held results are never modified by later operations.** For every table of calls (any encoder /
    decoder), every op sequence (hold / drop / callers scribbling over their inputs; any number, kinds, sizes):
    a result that is held at the end and did not come through the zero-copy path shows exactly the byte
    slices its call returned, and these are what the table gives for the slot's argument — independent of
    everything that ran in between. -/
theorem C12_held_intact {α : Type} (S : Sig α) (ops : List (Op α)) (k : Nat) (sl : Slot α)
    (h : (run .fresh S ops).lookup k = some sl) (hp : sl.pass = false) :
    S.F sl.arg = some sl.want ∧ (run .fresh S ops).heap.reads sl.res = sl.want :=
  have ⟨h1, _, h3, _⟩ := (good_run S ops).ok k sl (mem_of_lookupSlot h)
  ⟨h1, (h3 hp).2⟩

/-- op `c` answers with the table's value for that slot's own argument -/
theorem C12_chk_spec {α : Type} (S : Sig α) (ops : List (Op α)) (k : Nat) (sl : Slot α)
    (h : (run .fresh S ops).lookup k = some sl) (hp : sl.pass = false) :
    (run .fresh S ops).chk k = S.F sl.arg := by
  have ⟨h1, h2⟩ := C12_held_intact S ops k sl h hp
  simp [St.chk, h, h2, h1]

/-- **… whatever runs later.** A slot that holds `sl` after `ops₁` holds the same slices with the same bytes
    after any continuation `ops₂` that does not itself re-use or drop that slot. -/
theorem C12_held_stable {α : Type} (S : Sig α) (ops₁ ops₂ : List (Op α)) (k : Nat) (sl : Slot α)
    (h : (run .fresh S ops₁).lookup k = some sl) (hp : sl.pass = false)
    (hn : ∀ op ∈ ops₂, op.touches k = false) :
    (run .fresh S (ops₁ ++ ops₂)).lookup k = some sl ∧
    (run .fresh S (ops₁ ++ ops₂)).heap.reads sl.res = (run .fresh S ops₁).heap.reads sl.res := by
  have hl : (run .fresh S (ops₁ ++ ops₂)).lookup k = some sl := by
    unfold run; rw [List.foldl_append]
    rw [lookup_foldl .fresh S k ops₂ hn]; exact h
  exact ⟨hl, by rw [(C12_held_intact S _ k sl hl hp).2, (C12_held_intact S _ k sl h hp).2]⟩

/-- **Marshal and Unmarshal do not write to their callers' memory** (nor keep it): whatever calls run later
    (any number; no `mutIn` by the caller itself), the input buffers of a held slot — in fact every buffer
    that existed — show the same bytes. -/
theorem C12_input_untouched {α : Type} (S : Sig α) (ops₁ ops₂ : List (Op α)) (k : Nat) (sl : Slot α)
    (h : (run .fresh S ops₁).lookup k = some sl) (hn : ∀ op ∈ ops₂, op.isMut = false) :
    (run .fresh S (ops₁ ++ ops₂)).heap.reads sl.inp = (run .fresh S ops₁).heap.reads sl.inp := by
  have hid := ((good_run S ops₁).ok k sl (mem_of_lookupSlot h)).2.1
  apply reads_congr
  intro w hw
  unfold run; rw [List.foldl_append]
  exact buf_foldl_noMut S ops₂ hn _ _ (hid w hw)

/-- the zero-copy paths: such a result IS a sub-slice of the slot's own input buffer (so it shows whatever
    the caller's buffer shows), never of anybody else's -/
theorem C12_passthrough_is_input {α : Type} (S : Sig α) (ops : List (Op α)) (k : Nat) (sl : Slot α)
    (h : (run .fresh S ops).lookup k = some sl) (hp : sl.pass = true) :
    ∃ i off n, S.pass sl.arg = some (i, off, n) ∧ sl.res = [(sl.inp.getD i ⟨0, 0, 0⟩).sub off n] :=
  ((good_run S ops).ok k sl (mem_of_lookupSlot h)).2.2.2 hp

/-- **The instance the driver answers op `held` / `conn` with** (`callSig`: Marshal / Unmarshal as the
    SPECIFICATION defines them): a held Marshal result that is not a zero-copy view reads `specEnc (interp g)` of
    its own value; a held decoded value's byte slices are those of `representAny (specDec data)`. -/
theorem C12_held_marshal_spec (ops : List (Op Call)) (k : Nat) (sl : Slot Call)
    (h : (run .fresh callSig ops).lookup k = some sl) :
    (∀ p t g, sl.arg = .enc p t g → passthrough t g = none →
        ∃ b, specEncode p t g = some (some b) ∧ (run .fresh callSig ops).heap.reads sl.res = [b]) ∧
    (∀ p t ty data, sl.arg = .dec p t ty data →
        ∃ v, specDecode p t ty data = some v ∧ (run .fresh callSig ops).heap.reads sl.res = leaves v) := by
  have hg := (good_run callSig ops).ok k sl (mem_of_lookupSlot h)
  refine ⟨fun p t g ha hpass => ?_, fun p t ty data ha => ?_⟩
  · have hp : sl.pass = false := by
      cases hb : sl.pass with
      | false => rfl
      | true =>
        have ⟨i, off, n, e, _⟩ := hg.2.2.2 hb
        rw [ha] at e; simp [callSig, hpass] at e
    have ⟨h1, h2⟩ := C12_held_intact callSig ops k sl h hp
    rw [ha] at h1
    simp only [callSig] at h1
    cases hs : specEncode p t g with
    | none => simp [hs] at h1
    | some o =>
      cases o with
      | none => simp [hs] at h1
      | some b =>
        simp only [hs, Option.some.injEq] at h1
        exact ⟨b, rfl, by rw [h2, ← h1]⟩
  · have hp : sl.pass = false := by
      cases hb : sl.pass with
      | false => rfl
      | true =>
        have ⟨i, off, n, e, _⟩ := hg.2.2.2 hb
        rw [ha] at e; simp [callSig] at e
    have ⟨h1, h2⟩ := C12_held_intact callSig ops k sl h hp
    rw [ha] at h1
    simp only [callSig] at h1
    cases hs : specDecode p t ty data with
    | none => simp [hs] at h1
    | some v =>
      simp only [hs, Option.map_some, Option.some.injEq] at h1
      exact ⟨v, rfl, by rw [h2, ← h1]⟩

/-! ### witnesses (a toy table keeps the kernel computations small: the argument names its own result) -/

/-- argument = (scratch?, zero-copy?, the result bytes); the input buffer is the argument itself -/
def toySig : Sig (Bool × Bool × Bytes) where
  ins := fun a => [a.2.2]
  F := fun a => some [a.2.2]
  pass := fun a => if a.2.1 then some (0, 0, a.2.2.length) else none
  scratch := fun a => a.1

/-- non-vacuity: three results of different kinds held across later calls, a scribbled input, a drop -/
example :
    let s := run .fresh toySig
      [.hold 0 (true, false, [1, 2, 3]), .hold 1 (true, false, [9, 8, 7]), .hold 2 (false, false, [4, 4]),
       .mutIn 0 0xFF, .hold 3 (true, false, [5]), .drop 1]
    s.chk 0 = some [[1, 2, 3]] ∧ s.chk 1 = none ∧ s.chk 2 = some [[4, 4]] ∧ s.chk 3 = some [[5]] ∧
    s.input 0 = some [[0xFE, 0xFD, 0xFC]] := by decide

/-- FULL STATEMENT ("held results stay intact under EVERY memory discipline of Marshal") is false.
    Kernel-checked witness for the pooled-and-returned scratch buffer (`buf := pool.Get(); buf.Reset();
    defer pool.Put(buf); …; return buf.Bytes()`): two collection values, the second assembled while the first
    is still held and not longer than the recycled buffer — the holder of the first reads the bytes of the
    second (a SHORTER one leaves a mixture, a LONGER one makes the buffer grow and leaves the first intact:
    why comparing each result at once, or growing sizes, never show it). Under `fresh` all three stay. -/
theorem C12_cex_pooled_collection :
    (run .pooled toySig [.hold 0 (true, false, [1, 2, 3]), .hold 1 (true, false, [9, 8, 7])]).chk 0 = some [[9, 8, 7]] ∧
    (run .pooled toySig [.hold 0 (true, false, [1, 2, 3]), .hold 1 (true, false, [9, 8])]).chk 0 = some [[9, 8, 3]] ∧
    (run .pooled toySig [.hold 0 (true, false, [1, 2, 3]), .hold 1 (true, false, [7, 7, 7, 7])]).chk 0 = some [[1, 2, 3]] ∧
    (run .pooled toySig [.hold 0 (true, false, [1, 2, 3]), .hold 1 (false, false, [9, 8, 7])]).chk 0 = some [[1, 2, 3]] ∧
    (run .fresh toySig [.hold 0 (true, false, [1, 2, 3]), .hold 1 (true, false, [9, 8, 7])]).chk 0 = some [[1, 2, 3]] := by
  decide

/-- … and for a decoder whose result slices alias the data buffer (`*v = data[a:b]` instead of a copy): the
    caller recycling its data buffer afterwards changes the held decoded value. -/
theorem C12_cex_alias_data :
    let s := run .aliasIn toySig [.hold 0 (false, false, [1, 2, 3]), .mutIn 0 0xFF]
    (s.lookup 0).map (·.want) = some [[1, 2, 3]] ∧ s.chk 0 = some [[0xFE, 0xFD, 0xFC]] := by
  decide

/-- the zero-copy paths of the code that exists, on the real table: a `[]byte` bound to a blob column comes
    back as the caller's own slice (scribbling over it afterwards shows in the held result), the same bytes
    inside a list are copied (the held result stays the specification's encoding) — op `held` replays both. -/
theorem C12_passthrough_witness :
    passthrough .blob (.bytes false false [1, 2, 3]) = some (0, 0, 3) ∧
    passthrough (.list .blob) (.slice false [.bytes false false [1, 2, 3]]) = none ∧
    passthrough .inet (.ip [0, 0, 0, 0, 0, 0, 0, 0, 0, 0, 0xff, 0xff, 10, 0, 0, 1]) = some (0, 12, 4) ∧
    (let s := run .fresh toySig [.hold 0 (false, true, [1, 2, 3]), .mutIn 0 0xFF]
     (s.lookup 0).map (·.want) = some [[1, 2, 3]] ∧ s.chk 0 = some [[0xFE, 0xFD, 0xFC]]) := by
  decide

end C12
