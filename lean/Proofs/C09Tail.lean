import Model.Murmur
namespace Murmur
set_option linter.unusedSimpArgs false
attribute [local irreducible] sext
theorem xlc (a b c : W) : a ^^^ (b ^^^ c) = b ^^^ (a ^^^ c) := by
  rw [← BitVec.xor_assoc, BitVec.xor_comm a b, BitVec.xor_assoc]

theorem k1_eq_0 : tailK1 [] 0 = Spec.xorBytes [] 0 := by
  unfold tailK1 tb
  simp only [ge_iff_le, Nat.reduceLeDiff, ite_true, ite_false, BitVec.zero_xor, BitVec.xor_zero]
  simp only [List.getD_cons_zero, List.getD_cons_succ, Spec.xorBytes, BitVec.zero_xor, BitVec.xor_zero, Nat.reduceMul, Nat.reduceAdd, BitVec.shiftLeft_zero]
  try simp only [BitVec.xor_assoc, BitVec.xor_comm, xlc]

theorem k2_eq_0 : tailK2 [] 0 = Spec.xorBytes [] 0 := by
  unfold tailK2 tb
  simp only [ge_iff_le, Nat.reduceLeDiff, ite_true, ite_false, BitVec.zero_xor, BitVec.xor_zero]
  simp only [List.getD_cons_zero, List.getD_cons_succ, Spec.xorBytes, BitVec.zero_xor, BitVec.xor_zero, Nat.reduceMul, Nat.reduceAdd, BitVec.shiftLeft_zero]
  try simp only [BitVec.xor_assoc, BitVec.xor_comm, xlc]

theorem tail_eq_0 (h : W × W) :
    mixTail h (tailK1 [] 0) (tailK2 [] 0) 0 = Spec.tail h [] := by
  rw [k1_eq_0, k2_eq_0]
  simp [mixTail, Spec.tail]

theorem k1_eq_1 (a0 : UInt8) : tailK1 [a0] 1 = Spec.xorBytes [a0] 0 := by
  unfold tailK1 tb
  simp only [ge_iff_le, Nat.reduceLeDiff, ite_true, ite_false, BitVec.zero_xor, BitVec.xor_zero]
  simp only [List.getD_cons_zero, List.getD_cons_succ, Spec.xorBytes, BitVec.zero_xor, BitVec.xor_zero, Nat.reduceMul, Nat.reduceAdd, BitVec.shiftLeft_zero]
  try simp only [BitVec.xor_assoc, BitVec.xor_comm, xlc]

theorem k2_eq_1 (a0 : UInt8) : tailK2 [a0] 1 = Spec.xorBytes [] 0 := by
  unfold tailK2 tb
  simp only [ge_iff_le, Nat.reduceLeDiff, ite_true, ite_false, BitVec.zero_xor, BitVec.xor_zero]
  simp only [List.getD_cons_zero, List.getD_cons_succ, Spec.xorBytes, BitVec.zero_xor, BitVec.xor_zero, Nat.reduceMul, Nat.reduceAdd, BitVec.shiftLeft_zero]
  try simp only [BitVec.xor_assoc, BitVec.xor_comm, xlc]

theorem tail_eq_1 (h : W × W) (a0 : UInt8) :
    mixTail h (tailK1 [a0] 1) (tailK2 [a0] 1) 1 = Spec.tail h [a0] := by
  rw [k1_eq_1, k2_eq_1]
  simp [mixTail, Spec.tail]

theorem k1_eq_2 (a0 a1 : UInt8) : tailK1 [a0, a1] 2 = Spec.xorBytes [a0, a1] 0 := by
  unfold tailK1 tb
  simp only [ge_iff_le, Nat.reduceLeDiff, ite_true, ite_false, BitVec.zero_xor, BitVec.xor_zero]
  simp only [List.getD_cons_zero, List.getD_cons_succ, Spec.xorBytes, BitVec.zero_xor, BitVec.xor_zero, Nat.reduceMul, Nat.reduceAdd, BitVec.shiftLeft_zero]
  try simp only [BitVec.xor_assoc, BitVec.xor_comm, xlc]

theorem k2_eq_2 (a0 a1 : UInt8) : tailK2 [a0, a1] 2 = Spec.xorBytes [] 0 := by
  unfold tailK2 tb
  simp only [ge_iff_le, Nat.reduceLeDiff, ite_true, ite_false, BitVec.zero_xor, BitVec.xor_zero]
  simp only [List.getD_cons_zero, List.getD_cons_succ, Spec.xorBytes, BitVec.zero_xor, BitVec.xor_zero, Nat.reduceMul, Nat.reduceAdd, BitVec.shiftLeft_zero]
  try simp only [BitVec.xor_assoc, BitVec.xor_comm, xlc]

theorem tail_eq_2 (h : W × W) (a0 a1 : UInt8) :
    mixTail h (tailK1 [a0, a1] 2) (tailK2 [a0, a1] 2) 2 = Spec.tail h [a0, a1] := by
  rw [k1_eq_2, k2_eq_2]
  simp [mixTail, Spec.tail]

theorem k1_eq_3 (a0 a1 a2 : UInt8) : tailK1 [a0, a1, a2] 3 = Spec.xorBytes [a0, a1, a2] 0 := by
  unfold tailK1 tb
  simp only [ge_iff_le, Nat.reduceLeDiff, ite_true, ite_false, BitVec.zero_xor, BitVec.xor_zero]
  simp only [List.getD_cons_zero, List.getD_cons_succ, Spec.xorBytes, BitVec.zero_xor, BitVec.xor_zero, Nat.reduceMul, Nat.reduceAdd, BitVec.shiftLeft_zero]
  try simp only [BitVec.xor_assoc, BitVec.xor_comm, xlc]

theorem k2_eq_3 (a0 a1 a2 : UInt8) : tailK2 [a0, a1, a2] 3 = Spec.xorBytes [] 0 := by
  unfold tailK2 tb
  simp only [ge_iff_le, Nat.reduceLeDiff, ite_true, ite_false, BitVec.zero_xor, BitVec.xor_zero]
  simp only [List.getD_cons_zero, List.getD_cons_succ, Spec.xorBytes, BitVec.zero_xor, BitVec.xor_zero, Nat.reduceMul, Nat.reduceAdd, BitVec.shiftLeft_zero]
  try simp only [BitVec.xor_assoc, BitVec.xor_comm, xlc]

theorem tail_eq_3 (h : W × W) (a0 a1 a2 : UInt8) :
    mixTail h (tailK1 [a0, a1, a2] 3) (tailK2 [a0, a1, a2] 3) 3 = Spec.tail h [a0, a1, a2] := by
  rw [k1_eq_3, k2_eq_3]
  simp [mixTail, Spec.tail]

theorem k1_eq_4 (a0 a1 a2 a3 : UInt8) : tailK1 [a0, a1, a2, a3] 4 = Spec.xorBytes [a0, a1, a2, a3] 0 := by
  unfold tailK1 tb
  simp only [ge_iff_le, Nat.reduceLeDiff, ite_true, ite_false, BitVec.zero_xor, BitVec.xor_zero]
  simp only [List.getD_cons_zero, List.getD_cons_succ, Spec.xorBytes, BitVec.zero_xor, BitVec.xor_zero, Nat.reduceMul, Nat.reduceAdd, BitVec.shiftLeft_zero]
  try simp only [BitVec.xor_assoc, BitVec.xor_comm, xlc]

theorem k2_eq_4 (a0 a1 a2 a3 : UInt8) : tailK2 [a0, a1, a2, a3] 4 = Spec.xorBytes [] 0 := by
  unfold tailK2 tb
  simp only [ge_iff_le, Nat.reduceLeDiff, ite_true, ite_false, BitVec.zero_xor, BitVec.xor_zero]
  simp only [List.getD_cons_zero, List.getD_cons_succ, Spec.xorBytes, BitVec.zero_xor, BitVec.xor_zero, Nat.reduceMul, Nat.reduceAdd, BitVec.shiftLeft_zero]
  try simp only [BitVec.xor_assoc, BitVec.xor_comm, xlc]

theorem tail_eq_4 (h : W × W) (a0 a1 a2 a3 : UInt8) :
    mixTail h (tailK1 [a0, a1, a2, a3] 4) (tailK2 [a0, a1, a2, a3] 4) 4 = Spec.tail h [a0, a1, a2, a3] := by
  rw [k1_eq_4, k2_eq_4]
  simp [mixTail, Spec.tail]

theorem k1_eq_5 (a0 a1 a2 a3 a4 : UInt8) : tailK1 [a0, a1, a2, a3, a4] 5 = Spec.xorBytes [a0, a1, a2, a3, a4] 0 := by
  unfold tailK1 tb
  simp only [ge_iff_le, Nat.reduceLeDiff, ite_true, ite_false, BitVec.zero_xor, BitVec.xor_zero]
  simp only [List.getD_cons_zero, List.getD_cons_succ, Spec.xorBytes, BitVec.zero_xor, BitVec.xor_zero, Nat.reduceMul, Nat.reduceAdd, BitVec.shiftLeft_zero]
  try simp only [BitVec.xor_assoc, BitVec.xor_comm, xlc]

theorem k2_eq_5 (a0 a1 a2 a3 a4 : UInt8) : tailK2 [a0, a1, a2, a3, a4] 5 = Spec.xorBytes [] 0 := by
  unfold tailK2 tb
  simp only [ge_iff_le, Nat.reduceLeDiff, ite_true, ite_false, BitVec.zero_xor, BitVec.xor_zero]
  simp only [List.getD_cons_zero, List.getD_cons_succ, Spec.xorBytes, BitVec.zero_xor, BitVec.xor_zero, Nat.reduceMul, Nat.reduceAdd, BitVec.shiftLeft_zero]
  try simp only [BitVec.xor_assoc, BitVec.xor_comm, xlc]

theorem tail_eq_5 (h : W × W) (a0 a1 a2 a3 a4 : UInt8) :
    mixTail h (tailK1 [a0, a1, a2, a3, a4] 5) (tailK2 [a0, a1, a2, a3, a4] 5) 5 = Spec.tail h [a0, a1, a2, a3, a4] := by
  rw [k1_eq_5, k2_eq_5]
  simp [mixTail, Spec.tail]

theorem k1_eq_6 (a0 a1 a2 a3 a4 a5 : UInt8) : tailK1 [a0, a1, a2, a3, a4, a5] 6 = Spec.xorBytes [a0, a1, a2, a3, a4, a5] 0 := by
  unfold tailK1 tb
  simp only [ge_iff_le, Nat.reduceLeDiff, ite_true, ite_false, BitVec.zero_xor, BitVec.xor_zero]
  simp only [List.getD_cons_zero, List.getD_cons_succ, Spec.xorBytes, BitVec.zero_xor, BitVec.xor_zero, Nat.reduceMul, Nat.reduceAdd, BitVec.shiftLeft_zero]
  try simp only [BitVec.xor_assoc, BitVec.xor_comm, xlc]

theorem k2_eq_6 (a0 a1 a2 a3 a4 a5 : UInt8) : tailK2 [a0, a1, a2, a3, a4, a5] 6 = Spec.xorBytes [] 0 := by
  unfold tailK2 tb
  simp only [ge_iff_le, Nat.reduceLeDiff, ite_true, ite_false, BitVec.zero_xor, BitVec.xor_zero]
  simp only [List.getD_cons_zero, List.getD_cons_succ, Spec.xorBytes, BitVec.zero_xor, BitVec.xor_zero, Nat.reduceMul, Nat.reduceAdd, BitVec.shiftLeft_zero]
  try simp only [BitVec.xor_assoc, BitVec.xor_comm, xlc]

theorem tail_eq_6 (h : W × W) (a0 a1 a2 a3 a4 a5 : UInt8) :
    mixTail h (tailK1 [a0, a1, a2, a3, a4, a5] 6) (tailK2 [a0, a1, a2, a3, a4, a5] 6) 6 = Spec.tail h [a0, a1, a2, a3, a4, a5] := by
  rw [k1_eq_6, k2_eq_6]
  simp [mixTail, Spec.tail]

theorem k1_eq_7 (a0 a1 a2 a3 a4 a5 a6 : UInt8) : tailK1 [a0, a1, a2, a3, a4, a5, a6] 7 = Spec.xorBytes [a0, a1, a2, a3, a4, a5, a6] 0 := by
  unfold tailK1 tb
  simp only [ge_iff_le, Nat.reduceLeDiff, ite_true, ite_false, BitVec.zero_xor, BitVec.xor_zero]
  simp only [List.getD_cons_zero, List.getD_cons_succ, Spec.xorBytes, BitVec.zero_xor, BitVec.xor_zero, Nat.reduceMul, Nat.reduceAdd, BitVec.shiftLeft_zero]
  try simp only [BitVec.xor_assoc, BitVec.xor_comm, xlc]

theorem k2_eq_7 (a0 a1 a2 a3 a4 a5 a6 : UInt8) : tailK2 [a0, a1, a2, a3, a4, a5, a6] 7 = Spec.xorBytes [] 0 := by
  unfold tailK2 tb
  simp only [ge_iff_le, Nat.reduceLeDiff, ite_true, ite_false, BitVec.zero_xor, BitVec.xor_zero]
  simp only [List.getD_cons_zero, List.getD_cons_succ, Spec.xorBytes, BitVec.zero_xor, BitVec.xor_zero, Nat.reduceMul, Nat.reduceAdd, BitVec.shiftLeft_zero]
  try simp only [BitVec.xor_assoc, BitVec.xor_comm, xlc]

theorem tail_eq_7 (h : W × W) (a0 a1 a2 a3 a4 a5 a6 : UInt8) :
    mixTail h (tailK1 [a0, a1, a2, a3, a4, a5, a6] 7) (tailK2 [a0, a1, a2, a3, a4, a5, a6] 7) 7 = Spec.tail h [a0, a1, a2, a3, a4, a5, a6] := by
  rw [k1_eq_7, k2_eq_7]
  simp [mixTail, Spec.tail]

theorem k1_eq_8 (a0 a1 a2 a3 a4 a5 a6 a7 : UInt8) : tailK1 [a0, a1, a2, a3, a4, a5, a6, a7] 8 = Spec.xorBytes [a0, a1, a2, a3, a4, a5, a6, a7] 0 := by
  unfold tailK1 tb
  simp only [ge_iff_le, Nat.reduceLeDiff, ite_true, ite_false, BitVec.zero_xor, BitVec.xor_zero]
  simp only [List.getD_cons_zero, List.getD_cons_succ, Spec.xorBytes, BitVec.zero_xor, BitVec.xor_zero, Nat.reduceMul, Nat.reduceAdd, BitVec.shiftLeft_zero]
  try simp only [BitVec.xor_assoc, BitVec.xor_comm, xlc]

theorem k2_eq_8 (a0 a1 a2 a3 a4 a5 a6 a7 : UInt8) : tailK2 [a0, a1, a2, a3, a4, a5, a6, a7] 8 = Spec.xorBytes [] 0 := by
  unfold tailK2 tb
  simp only [ge_iff_le, Nat.reduceLeDiff, ite_true, ite_false, BitVec.zero_xor, BitVec.xor_zero]
  simp only [List.getD_cons_zero, List.getD_cons_succ, Spec.xorBytes, BitVec.zero_xor, BitVec.xor_zero, Nat.reduceMul, Nat.reduceAdd, BitVec.shiftLeft_zero]
  try simp only [BitVec.xor_assoc, BitVec.xor_comm, xlc]

theorem tail_eq_8 (h : W × W) (a0 a1 a2 a3 a4 a5 a6 a7 : UInt8) :
    mixTail h (tailK1 [a0, a1, a2, a3, a4, a5, a6, a7] 8) (tailK2 [a0, a1, a2, a3, a4, a5, a6, a7] 8) 8 = Spec.tail h [a0, a1, a2, a3, a4, a5, a6, a7] := by
  rw [k1_eq_8, k2_eq_8]
  simp [mixTail, Spec.tail]

theorem k1_eq_9 (a0 a1 a2 a3 a4 a5 a6 a7 a8 : UInt8) : tailK1 [a0, a1, a2, a3, a4, a5, a6, a7, a8] 9 = Spec.xorBytes [a0, a1, a2, a3, a4, a5, a6, a7] 0 := by
  unfold tailK1 tb
  simp only [ge_iff_le, Nat.reduceLeDiff, ite_true, ite_false, BitVec.zero_xor, BitVec.xor_zero]
  simp only [List.getD_cons_zero, List.getD_cons_succ, Spec.xorBytes, BitVec.zero_xor, BitVec.xor_zero, Nat.reduceMul, Nat.reduceAdd, BitVec.shiftLeft_zero]
  try simp only [BitVec.xor_assoc, BitVec.xor_comm, xlc]

theorem k2_eq_9 (a0 a1 a2 a3 a4 a5 a6 a7 a8 : UInt8) : tailK2 [a0, a1, a2, a3, a4, a5, a6, a7, a8] 9 = Spec.xorBytes [a8] 0 := by
  unfold tailK2 tb
  simp only [ge_iff_le, Nat.reduceLeDiff, ite_true, ite_false, BitVec.zero_xor, BitVec.xor_zero]
  simp only [List.getD_cons_zero, List.getD_cons_succ, Spec.xorBytes, BitVec.zero_xor, BitVec.xor_zero, Nat.reduceMul, Nat.reduceAdd, BitVec.shiftLeft_zero]
  try simp only [BitVec.xor_assoc, BitVec.xor_comm, xlc]

theorem tail_eq_9 (h : W × W) (a0 a1 a2 a3 a4 a5 a6 a7 a8 : UInt8) :
    mixTail h (tailK1 [a0, a1, a2, a3, a4, a5, a6, a7, a8] 9) (tailK2 [a0, a1, a2, a3, a4, a5, a6, a7, a8] 9) 9 = Spec.tail h [a0, a1, a2, a3, a4, a5, a6, a7, a8] := by
  rw [k1_eq_9, k2_eq_9]
  simp [mixTail, Spec.tail]

theorem k1_eq_10 (a0 a1 a2 a3 a4 a5 a6 a7 a8 a9 : UInt8) : tailK1 [a0, a1, a2, a3, a4, a5, a6, a7, a8, a9] 10 = Spec.xorBytes [a0, a1, a2, a3, a4, a5, a6, a7] 0 := by
  unfold tailK1 tb
  simp only [ge_iff_le, Nat.reduceLeDiff, ite_true, ite_false, BitVec.zero_xor, BitVec.xor_zero]
  simp only [List.getD_cons_zero, List.getD_cons_succ, Spec.xorBytes, BitVec.zero_xor, BitVec.xor_zero, Nat.reduceMul, Nat.reduceAdd, BitVec.shiftLeft_zero]
  try simp only [BitVec.xor_assoc, BitVec.xor_comm, xlc]

theorem k2_eq_10 (a0 a1 a2 a3 a4 a5 a6 a7 a8 a9 : UInt8) : tailK2 [a0, a1, a2, a3, a4, a5, a6, a7, a8, a9] 10 = Spec.xorBytes [a8, a9] 0 := by
  unfold tailK2 tb
  simp only [ge_iff_le, Nat.reduceLeDiff, ite_true, ite_false, BitVec.zero_xor, BitVec.xor_zero]
  simp only [List.getD_cons_zero, List.getD_cons_succ, Spec.xorBytes, BitVec.zero_xor, BitVec.xor_zero, Nat.reduceMul, Nat.reduceAdd, BitVec.shiftLeft_zero]
  try simp only [BitVec.xor_assoc, BitVec.xor_comm, xlc]

theorem tail_eq_10 (h : W × W) (a0 a1 a2 a3 a4 a5 a6 a7 a8 a9 : UInt8) :
    mixTail h (tailK1 [a0, a1, a2, a3, a4, a5, a6, a7, a8, a9] 10) (tailK2 [a0, a1, a2, a3, a4, a5, a6, a7, a8, a9] 10) 10 = Spec.tail h [a0, a1, a2, a3, a4, a5, a6, a7, a8, a9] := by
  rw [k1_eq_10, k2_eq_10]
  simp [mixTail, Spec.tail]

theorem k1_eq_11 (a0 a1 a2 a3 a4 a5 a6 a7 a8 a9 a10 : UInt8) : tailK1 [a0, a1, a2, a3, a4, a5, a6, a7, a8, a9, a10] 11 = Spec.xorBytes [a0, a1, a2, a3, a4, a5, a6, a7] 0 := by
  unfold tailK1 tb
  simp only [ge_iff_le, Nat.reduceLeDiff, ite_true, ite_false, BitVec.zero_xor, BitVec.xor_zero]
  simp only [List.getD_cons_zero, List.getD_cons_succ, Spec.xorBytes, BitVec.zero_xor, BitVec.xor_zero, Nat.reduceMul, Nat.reduceAdd, BitVec.shiftLeft_zero]
  try simp only [BitVec.xor_assoc, BitVec.xor_comm, xlc]

theorem k2_eq_11 (a0 a1 a2 a3 a4 a5 a6 a7 a8 a9 a10 : UInt8) : tailK2 [a0, a1, a2, a3, a4, a5, a6, a7, a8, a9, a10] 11 = Spec.xorBytes [a8, a9, a10] 0 := by
  unfold tailK2 tb
  simp only [ge_iff_le, Nat.reduceLeDiff, ite_true, ite_false, BitVec.zero_xor, BitVec.xor_zero]
  simp only [List.getD_cons_zero, List.getD_cons_succ, Spec.xorBytes, BitVec.zero_xor, BitVec.xor_zero, Nat.reduceMul, Nat.reduceAdd, BitVec.shiftLeft_zero]
  try simp only [BitVec.xor_assoc, BitVec.xor_comm, xlc]

theorem tail_eq_11 (h : W × W) (a0 a1 a2 a3 a4 a5 a6 a7 a8 a9 a10 : UInt8) :
    mixTail h (tailK1 [a0, a1, a2, a3, a4, a5, a6, a7, a8, a9, a10] 11) (tailK2 [a0, a1, a2, a3, a4, a5, a6, a7, a8, a9, a10] 11) 11 = Spec.tail h [a0, a1, a2, a3, a4, a5, a6, a7, a8, a9, a10] := by
  rw [k1_eq_11, k2_eq_11]
  simp [mixTail, Spec.tail]

theorem k1_eq_12 (a0 a1 a2 a3 a4 a5 a6 a7 a8 a9 a10 a11 : UInt8) : tailK1 [a0, a1, a2, a3, a4, a5, a6, a7, a8, a9, a10, a11] 12 = Spec.xorBytes [a0, a1, a2, a3, a4, a5, a6, a7] 0 := by
  unfold tailK1 tb
  simp only [ge_iff_le, Nat.reduceLeDiff, ite_true, ite_false, BitVec.zero_xor, BitVec.xor_zero]
  simp only [List.getD_cons_zero, List.getD_cons_succ, Spec.xorBytes, BitVec.zero_xor, BitVec.xor_zero, Nat.reduceMul, Nat.reduceAdd, BitVec.shiftLeft_zero]
  try simp only [BitVec.xor_assoc, BitVec.xor_comm, xlc]

theorem k2_eq_12 (a0 a1 a2 a3 a4 a5 a6 a7 a8 a9 a10 a11 : UInt8) : tailK2 [a0, a1, a2, a3, a4, a5, a6, a7, a8, a9, a10, a11] 12 = Spec.xorBytes [a8, a9, a10, a11] 0 := by
  unfold tailK2 tb
  simp only [ge_iff_le, Nat.reduceLeDiff, ite_true, ite_false, BitVec.zero_xor, BitVec.xor_zero]
  simp only [List.getD_cons_zero, List.getD_cons_succ, Spec.xorBytes, BitVec.zero_xor, BitVec.xor_zero, Nat.reduceMul, Nat.reduceAdd, BitVec.shiftLeft_zero]
  try simp only [BitVec.xor_assoc, BitVec.xor_comm, xlc]

theorem tail_eq_12 (h : W × W) (a0 a1 a2 a3 a4 a5 a6 a7 a8 a9 a10 a11 : UInt8) :
    mixTail h (tailK1 [a0, a1, a2, a3, a4, a5, a6, a7, a8, a9, a10, a11] 12) (tailK2 [a0, a1, a2, a3, a4, a5, a6, a7, a8, a9, a10, a11] 12) 12 = Spec.tail h [a0, a1, a2, a3, a4, a5, a6, a7, a8, a9, a10, a11] := by
  rw [k1_eq_12, k2_eq_12]
  simp [mixTail, Spec.tail]

theorem k1_eq_13 (a0 a1 a2 a3 a4 a5 a6 a7 a8 a9 a10 a11 a12 : UInt8) : tailK1 [a0, a1, a2, a3, a4, a5, a6, a7, a8, a9, a10, a11, a12] 13 = Spec.xorBytes [a0, a1, a2, a3, a4, a5, a6, a7] 0 := by
  unfold tailK1 tb
  simp only [ge_iff_le, Nat.reduceLeDiff, ite_true, ite_false, BitVec.zero_xor, BitVec.xor_zero]
  simp only [List.getD_cons_zero, List.getD_cons_succ, Spec.xorBytes, BitVec.zero_xor, BitVec.xor_zero, Nat.reduceMul, Nat.reduceAdd, BitVec.shiftLeft_zero]
  try simp only [BitVec.xor_assoc, BitVec.xor_comm, xlc]

theorem k2_eq_13 (a0 a1 a2 a3 a4 a5 a6 a7 a8 a9 a10 a11 a12 : UInt8) : tailK2 [a0, a1, a2, a3, a4, a5, a6, a7, a8, a9, a10, a11, a12] 13 = Spec.xorBytes [a8, a9, a10, a11, a12] 0 := by
  unfold tailK2 tb
  simp only [ge_iff_le, Nat.reduceLeDiff, ite_true, ite_false, BitVec.zero_xor, BitVec.xor_zero]
  simp only [List.getD_cons_zero, List.getD_cons_succ, Spec.xorBytes, BitVec.zero_xor, BitVec.xor_zero, Nat.reduceMul, Nat.reduceAdd, BitVec.shiftLeft_zero]
  try simp only [BitVec.xor_assoc, BitVec.xor_comm, xlc]

theorem tail_eq_13 (h : W × W) (a0 a1 a2 a3 a4 a5 a6 a7 a8 a9 a10 a11 a12 : UInt8) :
    mixTail h (tailK1 [a0, a1, a2, a3, a4, a5, a6, a7, a8, a9, a10, a11, a12] 13) (tailK2 [a0, a1, a2, a3, a4, a5, a6, a7, a8, a9, a10, a11, a12] 13) 13 = Spec.tail h [a0, a1, a2, a3, a4, a5, a6, a7, a8, a9, a10, a11, a12] := by
  rw [k1_eq_13, k2_eq_13]
  simp [mixTail, Spec.tail]

theorem k1_eq_14 (a0 a1 a2 a3 a4 a5 a6 a7 a8 a9 a10 a11 a12 a13 : UInt8) : tailK1 [a0, a1, a2, a3, a4, a5, a6, a7, a8, a9, a10, a11, a12, a13] 14 = Spec.xorBytes [a0, a1, a2, a3, a4, a5, a6, a7] 0 := by
  unfold tailK1 tb
  simp only [ge_iff_le, Nat.reduceLeDiff, ite_true, ite_false, BitVec.zero_xor, BitVec.xor_zero]
  simp only [List.getD_cons_zero, List.getD_cons_succ, Spec.xorBytes, BitVec.zero_xor, BitVec.xor_zero, Nat.reduceMul, Nat.reduceAdd, BitVec.shiftLeft_zero]
  try simp only [BitVec.xor_assoc, BitVec.xor_comm, xlc]

theorem k2_eq_14 (a0 a1 a2 a3 a4 a5 a6 a7 a8 a9 a10 a11 a12 a13 : UInt8) : tailK2 [a0, a1, a2, a3, a4, a5, a6, a7, a8, a9, a10, a11, a12, a13] 14 = Spec.xorBytes [a8, a9, a10, a11, a12, a13] 0 := by
  unfold tailK2 tb
  simp only [ge_iff_le, Nat.reduceLeDiff, ite_true, ite_false, BitVec.zero_xor, BitVec.xor_zero]
  simp only [List.getD_cons_zero, List.getD_cons_succ, Spec.xorBytes, BitVec.zero_xor, BitVec.xor_zero, Nat.reduceMul, Nat.reduceAdd, BitVec.shiftLeft_zero]
  try simp only [BitVec.xor_assoc, BitVec.xor_comm, xlc]

theorem tail_eq_14 (h : W × W) (a0 a1 a2 a3 a4 a5 a6 a7 a8 a9 a10 a11 a12 a13 : UInt8) :
    mixTail h (tailK1 [a0, a1, a2, a3, a4, a5, a6, a7, a8, a9, a10, a11, a12, a13] 14) (tailK2 [a0, a1, a2, a3, a4, a5, a6, a7, a8, a9, a10, a11, a12, a13] 14) 14 = Spec.tail h [a0, a1, a2, a3, a4, a5, a6, a7, a8, a9, a10, a11, a12, a13] := by
  rw [k1_eq_14, k2_eq_14]
  simp [mixTail, Spec.tail]

theorem k1_eq_15 (a0 a1 a2 a3 a4 a5 a6 a7 a8 a9 a10 a11 a12 a13 a14 : UInt8) : tailK1 [a0, a1, a2, a3, a4, a5, a6, a7, a8, a9, a10, a11, a12, a13, a14] 15 = Spec.xorBytes [a0, a1, a2, a3, a4, a5, a6, a7] 0 := by
  unfold tailK1 tb
  simp only [ge_iff_le, Nat.reduceLeDiff, ite_true, ite_false, BitVec.zero_xor, BitVec.xor_zero]
  simp only [List.getD_cons_zero, List.getD_cons_succ, Spec.xorBytes, BitVec.zero_xor, BitVec.xor_zero, Nat.reduceMul, Nat.reduceAdd, BitVec.shiftLeft_zero]
  try simp only [BitVec.xor_assoc, BitVec.xor_comm, xlc]

theorem k2_eq_15 (a0 a1 a2 a3 a4 a5 a6 a7 a8 a9 a10 a11 a12 a13 a14 : UInt8) : tailK2 [a0, a1, a2, a3, a4, a5, a6, a7, a8, a9, a10, a11, a12, a13, a14] 15 = Spec.xorBytes [a8, a9, a10, a11, a12, a13, a14] 0 := by
  unfold tailK2 tb
  simp only [ge_iff_le, Nat.reduceLeDiff, ite_true, ite_false, BitVec.zero_xor, BitVec.xor_zero]
  simp only [List.getD_cons_zero, List.getD_cons_succ, Spec.xorBytes, BitVec.zero_xor, BitVec.xor_zero, Nat.reduceMul, Nat.reduceAdd, BitVec.shiftLeft_zero]
  try simp only [BitVec.xor_assoc, BitVec.xor_comm, xlc]

theorem tail_eq_15 (h : W × W) (a0 a1 a2 a3 a4 a5 a6 a7 a8 a9 a10 a11 a12 a13 a14 : UInt8) :
    mixTail h (tailK1 [a0, a1, a2, a3, a4, a5, a6, a7, a8, a9, a10, a11, a12, a13, a14] 15) (tailK2 [a0, a1, a2, a3, a4, a5, a6, a7, a8, a9, a10, a11, a12, a13, a14] 15) 15 = Spec.tail h [a0, a1, a2, a3, a4, a5, a6, a7, a8, a9, a10, a11, a12, a13, a14] := by
  rw [k1_eq_15, k2_eq_15]
  simp [mixTail, Spec.tail]

/-- the 16-arm fallthrough switch equals the xor-fold of sign-extended bytes (all tails, all bytes) -/
theorem tail_eq (h : W × W) (t : List UInt8) (hlen : t.length < 16) :
    mixTail h (tailK1 t t.length) (tailK2 t t.length) t.length = Spec.tail h t := by
  cases t with
  | nil => exact tail_eq_0 h 
  | cons a0 t =>
    cases t with
    | nil => exact tail_eq_1 h a0
    | cons a1 t =>
      cases t with
      | nil => exact tail_eq_2 h a0 a1
      | cons a2 t =>
        cases t with
        | nil => exact tail_eq_3 h a0 a1 a2
        | cons a3 t =>
          cases t with
          | nil => exact tail_eq_4 h a0 a1 a2 a3
          | cons a4 t =>
            cases t with
            | nil => exact tail_eq_5 h a0 a1 a2 a3 a4
            | cons a5 t =>
              cases t with
              | nil => exact tail_eq_6 h a0 a1 a2 a3 a4 a5
              | cons a6 t =>
                cases t with
                | nil => exact tail_eq_7 h a0 a1 a2 a3 a4 a5 a6
                | cons a7 t =>
                  cases t with
                  | nil => exact tail_eq_8 h a0 a1 a2 a3 a4 a5 a6 a7
                  | cons a8 t =>
                    cases t with
                    | nil => exact tail_eq_9 h a0 a1 a2 a3 a4 a5 a6 a7 a8
                    | cons a9 t =>
                      cases t with
                      | nil => exact tail_eq_10 h a0 a1 a2 a3 a4 a5 a6 a7 a8 a9
                      | cons a10 t =>
                        cases t with
                        | nil => exact tail_eq_11 h a0 a1 a2 a3 a4 a5 a6 a7 a8 a9 a10
                        | cons a11 t =>
                          cases t with
                          | nil => exact tail_eq_12 h a0 a1 a2 a3 a4 a5 a6 a7 a8 a9 a10 a11
                          | cons a12 t =>
                            cases t with
                            | nil => exact tail_eq_13 h a0 a1 a2 a3 a4 a5 a6 a7 a8 a9 a10 a11 a12
                            | cons a13 t =>
                              cases t with
                              | nil => exact tail_eq_14 h a0 a1 a2 a3 a4 a5 a6 a7 a8 a9 a10 a11 a12 a13
                              | cons a14 t =>
                                cases t with
                                | nil => exact tail_eq_15 h a0 a1 a2 a3 a4 a5 a6 a7 a8 a9 a10 a11 a12 a13 a14
                                | cons a15 t =>
                                  simp at hlen; omega

end Murmur
