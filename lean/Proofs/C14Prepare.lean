import Proofs.C14LRU
import Model.Prepare
/-! helper lemmas for C14: the inductive invariant of the single-flight protocol -/
namespace Prepare
open LRU
variable {κ : Type} [DecidableEq κ]

/-- the inductive invariant -/
def Good (s : State κ) : Prop :=
  s.cache.Inv ∧
  (∀ e ∈ s.cache.items, ∃ fl, s.flights[e.2]? = some fl ∧ fl.key = e.1 ∧ fl.status ≠ .failed) ∧
  (∀ x, prepares s.log x = removals s.log x + s.cache.keys.count x) ∧
  s.crashed = false

theorem good_init (cap : Int) : Good (init cap : State κ) := by
  refine ⟨inv_new cap, ?_, ?_, rfl⟩
  · intro e he; simp [init, LRU.new] at he
  · intro x; simp [init, prepares, removals, LRU.new, Cache.keys]

theorem get_hit_parts (c : Cache κ Nat) (hinv : c.Inv) (k : κ) (f : Nat) (c' : Cache κ Nat)
    (h : c.get k = (some f, c')) :
    c'.Inv ∧ (∀ e ∈ c'.items, e ∈ c.items) ∧ (∀ x, c'.keys.count x = c.keys.count x) ∧
    (k, f) ∈ c.items ∧ c'.items = (k, f) :: without k c.items := by
  have hi := get_inv c hinv k
  unfold Cache.get at h hi
  cases hf : c.find k with
  | none => simp [hf] at h
  | some v =>
    simp only [hf] at h hi
    injection h with h1 h2
    injection h1 with h1
    subst h1; subst h2
    have hm := find_some_mem c k v hf
    refine ⟨hi.1, ?_, ?_, hm, rfl⟩
    · intro e he
      simp only [List.mem_cons] at he
      rcases he with rfl | he
      · exact hm
      · exact (mem_without k c.items e he).1
    · intro x; exact count_keys_move c hinv.1 k v hf x

theorem get_miss_parts (c : Cache κ Nat) (k : κ) (c' : Cache κ Nat) (h : c.get k = (none, c')) :
    c.find k = none := by
  unfold Cache.get at h
  cases hf : c.find k with
  | none => rfl
  | some v => simp [hf] at h

theorem remove_parts (c : Cache κ Nat) (hinv : c.Inv) (k : κ) :
    (c.remove k).2.1.Inv ∧ (∀ e ∈ (c.remove k).2.1.items, e ∈ c.items ∧ e.1 ≠ k) ∧
    (∀ x, (c.remove k).2.1.keys.count x + ((c.remove k).2.2.map (·.1)).count x = c.keys.count x) := by
  have hi := remove_inv c hinv k
  unfold Cache.remove at hi ⊢
  cases hf : c.find k with
  | none =>
    simp only [hf] at hi ⊢
    refine ⟨hinv, ?_, by simp⟩
    intro e he
    refine ⟨he, fun hk => ?_⟩
    have := keys_not_mem_of_find_none c k hf
    exact this (hk ▸ List.mem_map_of_mem (f := (·.1)) he)
  | some v =>
    simp only [hf] at hi ⊢
    refine ⟨hi.1, fun e he => mem_without k c.items e he, ?_⟩
    intro x
    have hm : k ∈ c.keys := List.mem_map_of_mem (f := (·.1)) (find_some_mem c k v hf)
    have := count_keys_without c hinv.1 k x
    simp only [hm, true_and] at this
    simp only [Cache.keys, List.map_cons, List.map_nil, List.count_cons, List.count_nil] at this ⊢
    by_cases hx : x = k
    · subst hx; simpa using this
    · have hx' : ¬ k = x := fun e => hx e.symm
      simpa [hx, hx'] using this

/-! counting events -/

theorem cntI_evicted (x : κ) (l : List (κ × Nat)) :
    List.countP (Event.isInsert x) (l.map (fun e => Event.evicted e.1 e.2)) = 0 := by
  induction l with
  | nil => rfl
  | cons e t ih => simp [List.countP_cons, Event.isInsert, ih]

theorem cntI_failRemoved (x : κ) (l : List (κ × Nat)) :
    List.countP (Event.isInsert x) (l.map (fun e => Event.failRemoved e.1 e.2)) = 0 := by
  induction l with
  | nil => rfl
  | cons e t ih => simp [List.countP_cons, Event.isInsert, ih]

theorem cntI_unprepRemoved (x : κ) (l : List (κ × Nat)) :
    List.countP (Event.isInsert x) (l.map (fun e => Event.unprepRemoved e.1 e.2)) = 0 := by
  induction l with
  | nil => rfl
  | cons e t ih => simp [List.countP_cons, Event.isInsert, ih]

theorem cntR_evicted (x : κ) (l : List (κ × Nat)) :
    List.countP (Event.isRemoval x) (l.map (fun e => Event.evicted e.1 e.2)) = (l.map (·.1)).count x := by
  induction l with
  | nil => rfl
  | cons e t ih => simp [List.countP_cons, Event.isRemoval, List.count_cons, ih]

theorem cntR_failRemoved (x : κ) (l : List (κ × Nat)) :
    List.countP (Event.isRemoval x) (l.map (fun e => Event.failRemoved e.1 e.2)) = (l.map (·.1)).count x := by
  induction l with
  | nil => rfl
  | cons e t ih => simp [List.countP_cons, Event.isRemoval, List.count_cons, ih]

theorem cntR_unprepRemoved (x : κ) (l : List (κ × Nat)) :
    List.countP (Event.isRemoval x) (l.map (fun e => Event.unprepRemoved e.1 e.2)) = (l.map (·.1)).count x := by
  induction l with
  | nil => rfl
  | cons e t ih => simp [List.countP_cons, Event.isRemoval, List.count_cons, ih]

theorem flights_set_other (fl : List (Flight κ)) (f g : Nat) (v : Flight κ) (h : g ≠ f) :
    (fl.set f v)[g]? = fl[g]? := by
  rw [List.getElem?_set_ne (fun e => h e.symm)]

/-- every step keeps the invariant -/
theorem step_good (s s' : State κ) (a : Action κ) (hg : Good s) (h : step s a = some s') : Good s' := by
  obtain ⟨hinv, hb, hc, hcr⟩ := hg
  cases a with
  | lookup k =>
    simp only [step] at h
    cases hget : s.cache.get k with
    | mk o c' =>
      cases o with
      | some f =>
        simp only [hget] at h
        injection h with h; subst h
        obtain ⟨hi', hsub, hcnt, _, _⟩ := get_hit_parts s.cache hinv k f c' hget
        refine ⟨hi', fun e he => hb e (hsub e he), ?_, hcr⟩
        intro x
        simp only [prepares, removals, List.countP_append, List.countP_cons, List.countP_nil,
          Event.isInsert, Event.isRemoval, hcnt x] at hc ⊢
        simpa using hc x
      | none =>
        simp only [hget] at h
        injection h with h; subst h
        have hnone := get_miss_parts s.cache k c' hget
        obtain ⟨hkeys, hmem⟩ := add_miss_keys s.cache k s.flights.length hnone
        refine ⟨(add_inv s.cache hinv k _).1, ?_, ?_, hcr⟩
        · intro e he
          rcases hmem e he with rfl | he'
          · exact ⟨{ key := k, status := .inflight }, by simp, rfl, by simp⟩
          · obtain ⟨fl, h1, h2, h3⟩ := hb e he'
            refine ⟨fl, ?_, h2, h3⟩
            have hlt : e.2 < s.flights.length := by
              have := List.getElem?_eq_some_iff.1 h1; exact this.1
            simp only []
            rw [List.getElem?_append_left hlt]; exact h1
        · intro x
          have hk := congrArg (List.count x) hkeys
          rw [List.count_append, List.count_cons] at hk
          simp only [prepares, removals, List.countP_append, List.countP_cons, List.countP_nil,
            Event.isInsert, Event.isRemoval, cntI_evicted, cntR_evicted] at hc ⊢
          have := hc x
          by_cases hx : k = x
          · simp [hx] at hk ⊢; omega
          · simp [hx] at hk ⊢; omega
  | complete f r =>
    simp only [step] at h
    cases hfl : s.flights[f]? with
    | none => simp [hfl] at h
    | some fl =>
      simp only [hfl] at h
      by_cases hst : fl.status = .inflight
      · simp only [hst, if_true] at h
        cases r with
        | some id =>
          injection h with h; subst h
          refine ⟨hinv, ?_, hc, hcr⟩
          intro e he
          obtain ⟨fl0, h1, h2, h3⟩ := hb e he
          by_cases hef : e.2 = f
          · have hlt : f < s.flights.length := (List.getElem?_eq_some_iff.1 hfl).1
            have : fl0 = fl := by rw [hef, hfl] at h1; injection h1 with h1; exact h1.symm
            subst this
            refine ⟨{ fl0 with status := .ok id }, ?_, h2, by simp⟩
            simp only []
            rw [hef, List.getElem?_set_self hlt]
          · exact ⟨fl0, by simp only []; rw [flights_set_other _ _ _ _ hef]; exact h1, h2, h3⟩
        | none =>
          injection h with h; subst h
          obtain ⟨hi', hsub, hcnt⟩ := remove_parts s.cache hinv fl.key
          refine ⟨hi', ?_, ?_, hcr⟩
          · intro e he
            obtain ⟨hin, hne⟩ := hsub e he
            obtain ⟨fl0, h1, h2, h3⟩ := hb e hin
            have hef : e.2 ≠ f := by
              intro hef
              rw [hef, hfl] at h1; injection h1 with h1
              exact hne (h1 ▸ h2).symm
            exact ⟨fl0, by simp only []; rw [flights_set_other _ _ _ _ hef]; exact h1, h2, h3⟩
          · intro x
            simp only [prepares, removals, List.countP_append, cntI_failRemoved, cntR_failRemoved] at hc ⊢
            have := hc x; have := hcnt x; omega
      · simp [hst] at h
  | unprepared k id =>
    simp only [step] at h
    cases hget : s.cache.get k with
    | mk o c' =>
      cases o with
      | none =>
        simp only [hget] at h
        injection h with h; subst h
        exact ⟨hinv, hb, hc, hcr⟩
      | some f =>
        simp only [hget] at h
        obtain ⟨hi', hsub, hcnt, hmemf, _⟩ := get_hit_parts s.cache hinv k f c' hget
        obtain ⟨fl, h1, h2, h3⟩ := hb (k, f) hmemf
        simp only [] at h1
        have hb' : ∀ e ∈ c'.items, ∃ fl, s.flights[e.2]? = some fl ∧ fl.key = e.1 ∧ fl.status ≠ .failed :=
          fun e he => hb e (hsub e he)
        have hc' : ∀ x, prepares s.log x = removals s.log x + c'.keys.count x := by
          intro x; rw [hcnt x]; exact hc x
        rw [h1] at h
        simp only [Option.map_some] at h
        cases hs : fl.status with
        | failed => exact absurd hs h3
        | inflight =>
          simp only [hs] at h
          injection h with h; subst h
          exact ⟨hi', hb', hc', hcr⟩
        | ok id' =>
          simp only [hs] at h
          by_cases hid : id = id'
          · simp only [hid, if_true] at h
            injection h with h; subst h
            obtain ⟨hi'', hsub', hcnt'⟩ := remove_parts c' hi' k
            refine ⟨hi'', fun e he => hb' e (hsub' e he).1, ?_, hcr⟩
            intro x
            simp only [prepares, removals, List.countP_append, cntI_unprepRemoved, cntR_unprepRemoved] at hc' ⊢
            have := hc' x; have := hcnt' x; omega
          · simp only [hid, if_false] at h
            injection h with h; subst h
            exact ⟨hi', hb', hc', hcr⟩

theorem run_good (s s' : State κ) (as : List (Action κ)) (hg : Good s) (h : run s as = some s') : Good s' := by
  induction as generalizing s with
  | nil => simp only [run] at h; injection h with h; exact h ▸ hg
  | cons a t ih =>
    simp only [run] at h
    cases hs : step s a with
    | none => simp [hs] at h
    | some s1 =>
      simp only [hs] at h
      exact ih s1 (step_good s s1 a hg hs) h

end Prepare
