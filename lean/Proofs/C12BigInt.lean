import Proofs.C12Varint
import Proofs.C12Vint
/-!
# C12: encBigInt2C (marshal.go:1224, big.Int → two's complement) is the specification's varint, for every integer

`encBigInt2C` is what marshalDecimal writes after the 4-byte scale (it does NOT go through marshalVarint's trimming
loop) and what marshalVarint starts from for a *big.Int.  The specification (`specVarint`) is the SHORTEST two's
complement form.  Proved here: the two are the same byte string for every `n : Int` — in particular at the
boundaries −2^(8k−1) (−128, −32768, …), where `n.BitLen()` is a multiple of 8 and the code has to strip one 0xFF.
-/
namespace C12BigInt
open ValueSpec Marshal C12Bytes C12Varint C12Vint

theorem beNat_natBytes (m : Nat) : beNat (natBytes m) = m := by
  induction m using Nat.strongRecOn with
  | _ m ih =>
    rw [natBytes]
    split
    · rename_i h; subst h; rfl
    · rename_i h
      rw [beNat_snoc, ih (m / 256) (by omega), byteOfNat_toNat]; omega

/-- `big.Int.Bytes()` has no leading zero byte: its length is the least `L` with `m < 256^L` -/
theorem natBytes_length_le_iff (m : Nat) : ∀ L, (natBytes m).length ≤ L ↔ m < 256 ^ L := by
  induction m using Nat.strongRecOn with
  | _ m ih =>
    intro L
    rw [natBytes]
    split
    · rename_i h; subst h
      have := pow256_pos L
      simp; omega
    · rename_i h
      cases L with
      | zero => simp; omega
      | succ L' =>
        have := ih (m / 256) (by omega) L'
        rw [Nat.pow_succ, List.length_append]
        simp only [List.length_singleton]
        generalize 256 ^ L' = P at *
        omega

theorem pow2_eq (L : Nat) : 2 ^ (L * 8) = 256 ^ L := by
  have : (2:Nat) ^ 8 = 256 := by decide
  rw [Nat.mul_comm, Nat.pow_mul, this]

theorem u8_eq_ff {x : UInt8} (h : x.toNat = 255) : x = 255 := UInt8.toNat_inj.mp (by simpa using h)

/-- minimality and value of a byte string whose first byte is not redundant, in the form the case analysis needs -/
theorem spec_of (e : Bytes) (n : Int) (hm : minimalTC e = true) (hv : tcDec e = n) : e = specVarint n := by
  rw [← hv]; exact (specVarint_tcDec e hm).symm

theorem encBigInt2C_pos (n : Int) (hn : n > 0) : encBigInt2C n = specVarint n := by
  have hm0 : n.toNat ≠ 0 := by omega
  have hcast : ((n.toNat : Nat) : Int) = n := by omega
  have hbe := beNat_natBytes n.toNat
  have hlen := natBytes_length_le_iff n.toNat
  unfold encBigInt2C
  rw [if_neg (by omega), if_pos hn]
  generalize hb : natBytes n.toNat = b at hbe hlen
  cases b with
  | nil =>
    exfalso
    have := (hlen 0).mp (by simp)
    simp at this; omega
  | cons x r =>
    have hx256 : x.toNat < 256 := x.toNat_lt
    have hr := beNat_lt r
    have hc := beNat_cons x r
    -- no leading zero
    have hx0 : x.toNat ≠ 0 := by
      intro h0
      have : n.toNat < 256 ^ r.length := by rw [← hbe, hc, h0]; omega
      have := (hlen r.length).mpr this
      simp at this
      omega
    dsimp only
    by_cases h128 : x.toNat ≥ 128
    · rw [if_pos h128]
      apply spec_of
      · simp [minimalTC]; omega
      · rw [tcDec_cons 0]
        simp only [show (0:UInt8).toNat = 0 by rfl]
        rw [if_neg (by omega), hbe]
        omega
    · rw [if_neg h128]
      apply spec_of
      · cases r with
        | nil => rfl
        | cons y r' => simp [minimalTC]; omega
      · rw [tcDec_cons, if_neg h128, ← hcast, ← hbe, hc, ← cast_pow256]
        simp

theorem encBigInt2C_neg (n : Int) (hn : n < 0) : encBigInt2C n = specVarint n := by
  have ha1 : n.natAbs ≥ 1 := by omega
  have hb1 := (bitLen_le_iff n.natAbs (bitLen n.natAbs)).mp (Nat.le_refl _)
  unfold encBigInt2C
  rw [if_neg (by omega), if_neg (by omega)]
  dsimp only
  generalize hL : bitLen n.natAbs / 8 + 1 = L
  have hLpos : 1 ≤ L := by omega
  -- 2^(8L) = 256^L = 2 · 2^(8L−1), and |n| < 2^(8L−1)
  have hQ : (2:Int) ^ (L * 8) = ((256 ^ L : Nat) : Int) := by
    rw [← pow2_eq]; simp
  have hH : 256 ^ L = 2 * 2 ^ (L * 8 - 1) := by
    rw [← pow2_eq]
    have : L * 8 = (L * 8 - 1) + 1 := by omega
    rw [this, Nat.pow_succ]; simp; omega
  have hle : 2 ^ bitLen n.natAbs ≤ 2 ^ (L * 8 - 1) := Nat.pow_le_pow_right (by decide) (by omega)
  rw [hQ]
  generalize hm : (n + ((256 ^ L : Nat) : Int)).toNat = m
  have hmn : (m : Int) = n + ((256 ^ L : Nat) : Int) := by omega
  have hmQ : m < 256 ^ L := by omega
  have hmH : 2 * m > 256 ^ L := by omega
  have hbe := beNat_natBytes m
  have hlen := natBytes_length_le_iff m
  have hlenL : (natBytes m).length = L := by
    have h1 := (hlen L).mpr hmQ
    have h2 : ¬ (natBytes m).length ≤ L - 1 := by
      intro h
      have := (hlen (L - 1)).mp h
      have e : 256 ^ L = 256 ^ (L - 1) * 256 := by
        have : L = (L - 1) + 1 := by omega
        rw [this, Nat.pow_succ]; simp
      omega
    omega
  generalize hb : natBytes m = b at hbe hlen hlenL
  -- value of the unstripped bytes
  have hval : tcDec b = n := by
    unfold tcDec
    rw [hbe, hlenL, if_pos (by omega), ← cast_pow256]
    omega
  cases b with
  | nil => simp at hlenL; omega
  | cons x r =>
    have hx128 : x.toNat ≥ 128 := (sign_iff_head x r).mp (by rw [hbe, hlenL]; omega)
    cases r with
    | nil => exact spec_of _ _ rfl hval
    | cons y r' =>
      dsimp only
      by_cases hs : x = 255 ∧ y.toNat ≥ 128
      · rw [if_pos hs]
        obtain ⟨hx, hy⟩ := hs
        subst hx
        apply spec_of
        · cases r' with
          | nil => rfl
          | cons z r'' =>
            simp only [minimalTC, Bool.not_eq_true', decide_eq_false_iff_not]
            intro hc
            rcases hc with ⟨h0, _⟩ | ⟨hff, _⟩
            · omega
            · -- y = 255 as well: |n| ≤ 256^(L−2), so bitLen would give a smaller L
              exfalso
              have hc1 := beNat_cons (255:UInt8) (y :: z :: r'')
              have hc2 := beNat_cons y (z :: r'')
              have hr := beNat_lt (z :: r'')
              have h255 : (255:UInt8).toNat = 255 := rfl
              rw [h255] at hc1
              rw [hff] at hc2
              have hl1 : (y :: z :: r'').length = (z :: r'').length + 1 := rfl
              have hlL : L = (z :: r'').length + 2 := by
                have : (z :: r'').length = r''.length + 1 := rfl
                simp only [List.length_cons] at hlenL
                omega
              rw [hl1, Nat.pow_succ] at hc1
              generalize (z :: r'').length = K at hc1 hc2 hr hlL
              have e2 : 256 ^ L = 256 ^ K * 256 * 256 := by rw [hlL, Nat.pow_succ, Nat.pow_succ]
              have e3 : 2 * 256 ^ K = 2 ^ (K * 8 + 1) := by rw [Nat.pow_succ, pow2_eq]; omega
              have hsmall : n.natAbs < 2 ^ (K * 8 + 1) := by
                rw [← e3]
                rw [hc1, hc2] at hbe
                generalize 256 ^ K = P at *
                omega
              have := (bitLen_le_iff n.natAbs _).mpr hsmall
              omega
        · rw [← tcDec_ff_ext y r' hy]; exact hval
      · rw [if_neg hs]
        apply spec_of _ _ _ hval
        simp only [minimalTC, Bool.not_eq_true', decide_eq_false_iff_not]
        intro hc
        rcases hc with ⟨h0, _⟩ | ⟨hff, hy⟩
        · omega
        · exact hs ⟨u8_eq_ff hff, hy⟩

/-- marshal.go encBigInt2C = the specification's varint (shortest two's complement), for EVERY integer -/
theorem encBigInt2C_spec (n : Int) : encBigInt2C n = specVarint n := by
  by_cases h0 : n = 0
  · subst h0
    rw [specVarint]; simp [encBigInt2C, byteOfNat]
  · by_cases hp : n > 0
    · exact encBigInt2C_pos n hp
    · exact encBigInt2C_neg n (by omega)

end C12BigInt
