import Model.Mux
namespace Mux

/-- inductive invariant of the multiplexing machine -/
structure Inv (st : St) : Prop where
  own_pc : ∀ s c, st.owner s = some c → st.clears c = 0 ∧ 1 ≤ s ∧ s < st.cap ∧
    (st.pc c = .acquired s ∨ st.pc c = .waiting s ∨ (st.abandoned c = true ∧ ∃ o, st.pc c = .done o))
  pc_own : ∀ c s, (st.pc c = .acquired s ∨ st.pc c = .waiting s) → st.owner s = some c
  wire_own : ∀ s, st.wire s = .none ∨ ∃ c, (st.wire s = .pending c ∨ ∃ k w, st.wire s = .answered c k w) ∧ st.owner s = some c ∧ st.pc c ≠ .acquired s
  acq_wire : ∀ c s, st.pc c = .acquired s → st.wire s = .none
  clears_le : ∀ c, st.clears c ≤ 1
  idle_clears : ∀ c, st.pc c = .idle → st.clears c = 0
  resp_origin : ∀ d c k w, st.pc d = .done (.resp c k w) → c = d
  resp_clear : ∀ d c k w, st.pc d = .done (.resp c k w) → st.clears d = 1
  own_unique : ∀ s s' c, st.owner s = some c → st.owner s' = some c → s = s'
  ans_sent : ∀ s c k w, st.wire s = .answered c k w → st.sent c = some (k, w)
  resp_sent : ∀ d c k w, st.pc d = .done (.resp c k w) → st.sent c = some (k, w)

theorem inv_init (cap : Nat) : Inv (init cap) := by
  constructor <;> simp [init]

macro "close_inv" h:ident : tactic => `(tactic| (
  obtain ⟨h1, h2, h3, h4, h5, h6, h7, h8, h9, h10, h11⟩ := $h
  constructor <;> simp only [upd] <;> grind))

theorem inv_step (st st' : St) (a : Act) (h : Inv st) (hs : step st a = some st') : Inv st' := by
  cases a with
  | acquire c s =>
    simp only [step] at hs
    split at hs
    · rename_i hc; injection hs with hs; subst hs; close_inv h
    · simp at hs
  | noStreams c =>
    simp only [step] at hs
    split at hs
    · rename_i hc; injection hs with hs; subst hs; close_inv h
    · simp at hs
  | buildFail c =>
    simp only [step] at hs
    split at hs
    · rename_i s hc; injection hs with hs; subst hs; close_inv h
    · simp at hs
  | writeCancelled c =>
    simp only [step] at hs
    split at hs
    · rename_i s hc; injection hs with hs; subst hs; close_inv h
    · simp at hs
  | writeFailed c =>
    simp only [step] at hs
    split at hs
    · rename_i s hc; injection hs with hs; subst hs; close_inv h
    · simp at hs
  | wrote c =>
    simp only [step] at hs
    split at hs
    · rename_i s hc; injection hs with hs; subst hs; close_inv h
    · simp at hs
  | answer s k w =>
    simp only [step] at hs
    split at hs
    · rename_i c hc; injection hs with hs; subst hs; close_inv h
    · simp at hs
  | stray s =>
    simp only [step] at hs
    split at hs
    · injection hs with hs; subst hs; exact h
    · simp at hs
  | event =>
    simp only [step] at hs
    injection hs with hs; subst hs; exact h
  | deliver s =>
    simp only [step] at hs
    split at hs
    · rename_i c k w hw
      split at hs
      · simp at hs
      · split at hs
        · rename_i d hd
          split at hs
          · rename_i hp; injection hs with hs; subst hs; close_inv h
          · rename_i hp; injection hs with hs; subst hs; close_inv h
        · rename_i hd; injection hs with hs; subst hs; close_inv h
    · simp at hs
  | timeout c =>
    simp only [step] at hs
    split at hs
    · rename_i s hc; injection hs with hs; subst hs; close_inv h
    · simp at hs
  | cancel c =>
    simp only [step] at hs
    split at hs
    · rename_i s hc; injection hs with hs; subst hs; close_inv h
    · simp at hs
  | connDone c =>
    simp only [step] at hs
    split at hs
    · rename_i s hc
      split at hs
      · injection hs with hs; subst hs; close_inv h
      · simp at hs
    · simp at hs
  | close =>
    simp only [step] at hs
    injection hs with hs; subst hs; close_inv h

theorem inv_run : ∀ (as : List Act) (s s' : St), Inv s → run s as = some s' → Inv s'
  | [], s, s', h, hr => by simp [run] at hr; subst hr; exact h
  | a :: as, s, s', h, hr => by
    simp only [run] at hr
    split at hr
    · rename_i s1 hs1
      exact inv_run as s1 s' (inv_step s s1 a h hs1) hr
    · simp at hr

/-- a finished call never changes its outcome again -/
theorem done_step (st st' : St) (a : Act) (c : Nat) (o : Outcome) (hd : st.pc c = .done o)
    (hs : step st a = some st') : st'.pc c = .done o := by
  cases a <;> simp only [step] at hs <;> (repeat' split at hs) <;>
    first
    | (simp at hs; done)
    | (injection hs with hs; subst hs; (try simp only [upd]); grind)

theorem done_run : ∀ (as : List Act) (st st' : St) (c : Nat) (o : Outcome), st.pc c = .done o →
    run st as = some st' → st'.pc c = .done o
  | [], st, st', c, o, h, hr => by simp [run] at hr; subst hr; exact h
  | a :: as, st, st', c, o, h, hr => by
    simp only [run] at hr
    split at hr
    · rename_i s1 hs1
      exact done_run as s1 st' c o (done_step st s1 a c o h hs1) hr
    · simp at hr

end Mux
