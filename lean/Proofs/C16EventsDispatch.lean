import Proofs.C16EventsOrder
/-! helper lemmas: `dispatch` as a fold of effects; independence of the effects of a batch; refresh-request count -/
namespace C16
open Ring ClusterView

theorem foldl_status_eq (env : Env) (evs : List (Nat × Change)) : ∀ (v : View),
    evs.foldl (View.status env) v = (evs.map (effectOf env v.ring)).foldl (applyG env) v := by
  induction evs with
  | nil => intro v; rfl
  | cons e t ih =>
    intro v
    simp only [List.foldl_cons, List.map_cons]
    rw [status_eq, ih, applyG_ring]

theorem foldl_applyG_ring (env : Env) (l : List Eff) : ∀ (v : View), (l.foldl (applyG env) v).ring = v.ring := by
  induction l with
  | nil => intro v; rfl
  | cons f t ih => intro v; simp only [List.foldl_cons]; rw [ih, applyG_ring]

/-- the hosts which two DIFFERENT addresses of the list lead to have different connect addresses -/
def ConnSep (r : Ring.Ring) (addrs : List Nat) : Prop :=
  ∀ a1 ∈ addrs, ∀ a2 ∈ addrs, a1 ≠ a2 → ∀ h1 h2, r.getHostByIP a1 = (some h1, true) → r.getHostByIP a2 = (some h2, true) →
    cAddr h1 ≠ cAddr h2

theorem effectOf_host (env : Env) (r : Ring.Ring) (e : Nat × Change) (h : RHost) (hh : (effectOf env r e).host = some h) :
    r.getHostByIP e.1 = (some h, true) := by
  obtain ⟨a, c⟩ := e
  cases c with
  | other => simp [effectOf, Eff.host] at hh
  | up =>
    simp only [effectOf] at hh
    rcases hg : r.getHostByIP a with ⟨x, ok⟩
    rw [hg] at hh
    simp only [upEff] at hh
    cases ok with
    | false => simp [Eff.host] at hh
    | true =>
      cases x with
      | none => simp [Eff.host] at hh
      | some h' =>
        dsimp only at hh
        split at hh
        · simp [Eff.host] at hh
        · simp only [Eff.host, Option.some.injEq] at hh; rw [hh]
  | down =>
    simp only [effectOf] at hh
    rcases hg : r.getHostByIP a with ⟨x, ok⟩
    rw [hg] at hh
    simp only [downEff] at hh
    cases ok with
    | false => simp [Eff.host] at hh
    | true =>
      cases x with
      | none => simp [Eff.host] at hh
      | some h' =>
        dsimp only at hh
        split at hh
        · simp only [Eff.host, Option.some.injEq] at hh; rw [hh]
        · simp only [Eff.host, Option.some.injEq] at hh; rw [hh]

theorem effectOf_noCrash (env : Env) (r : Ring.Ring) (hs : SInv r) (e : Nat × Change) : (effectOf env r e).isCrash = false := by
  obtain ⟨a, c⟩ := e
  cases c with
  | other => rfl
  | up =>
    simp only [effectOf]
    rcases hg : r.getHostByIP a with ⟨x, ok⟩
    cases ok with
    | false => rfl
    | true =>
      obtain ⟨h, rfl, _, _⟩ := NoStale_lookup r hs.knodup hs.ns a x hg
      simp only [upEff]
      split <;> rfl
  | down =>
    simp only [effectOf]
    rcases hg : r.getHostByIP a with ⟨x, ok⟩
    cases ok with
    | false => rfl
    | true =>
      obtain ⟨h, rfl, _, _⟩ := NoStale_lookup r hs.knodup hs.ns a x hg
      simp only [downEff]
      split <;> rfl

/-- under the ring invariant, two different addresses lead to hosts with different ids -/
theorem ids_ne_of_addrs_ne (r : Ring.Ring) (hs : SInv r) (a1 a2 : Nat) (h1 h2 : RHost) (hne : a1 ≠ a2)
    (g1 : r.getHostByIP a1 = (some h1, true)) (g2 : r.getHostByIP a2 = (some h2, true)) : h1.id ≠ h2.id := by
  obtain ⟨x1, e1, m1, ad1⟩ := NoStale_lookup r hs.knodup hs.ns a1 _ g1
  obtain ⟨x2, e2, m2, ad2⟩ := NoStale_lookup r hs.knodup hs.ns a2 _ g2
  cases e1; cases e2
  intro hid
  simp only [Ring.allHosts, List.mem_map] at m1 m2
  obtain ⟨p1, hp1, rfl⟩ := m1
  obtain ⟨p2, hp2, rfl⟩ := m2
  have l1 := getHost_of_mem r hs.wf hs.knodup p1 hp1
  have l2 := getHost_of_mem r hs.wf hs.knodup p2 hp2
  rw [hid, l2] at l1
  have : p2.2 = p1.2 := Option.some.inj l1
  apply hne
  rw [← ad1, ← ad2, this]

theorem effects_pairwise (env : Env) (r : Ring.Ring) (hs : SInv r) (evs : List (Nat × Change))
    (hn : (keys evs).Nodup) (hc : ConnSep r (keys evs)) : (evs.map (effectOf env r)).Pairwise Indep := by
  rw [List.pairwise_map]
  have hk : evs.Pairwise (fun e1 e2 => e1.1 ≠ e2.1) := by
    have := hn
    simp only [keys] at this
    exact (List.pairwise_map.mp this)
  have hall : ∀ e ∈ evs, e.1 ∈ keys evs := fun e he => List.mem_map.mpr ⟨e, he, rfl⟩
  refine List.Pairwise.imp_of_mem ?_ hk
  intro e1 e2 he1 he2 hne
  refine ⟨effectOf_noCrash env r hs e1, effectOf_noCrash env r hs e2, ?_⟩
  intro h1 h2 x1 x2
  have g1 := effectOf_host env r e1 h1 x1
  have g2 := effectOf_host env r e2 h2 x2
  exact ⟨ids_ne_of_addrs_ne r hs e1.1 e2.1 h1 h2 hne g1 g2, hc e1.1 (hall e1 he1) e2.1 (hall e2 he2) hne h1 h2 g1 g2⟩

/-! ### refresh requests -/

theorem applyG_req_le (env : Env) (v : View) (f : Eff) : (applyG env v f).refreshReq ≤ v.refreshReq + f.req := by
  unfold applyG; split
  · omega
  · simp [applyEff]

theorem applyG_req_eq (env : Env) (v : View) (f : Eff) (hc : v.crashed = false) :
    (applyG env v f).refreshReq = v.refreshReq + f.req := by
  unfold applyG; simp [hc, applyEff]

theorem applyG_crashed_eq (env : Env) (v : View) (f : Eff) (hf : f.isCrash = false) : (applyG env v f).crashed = v.crashed := by
  unfold applyG; split
  · rfl
  · exact applyEff_crashed env v f hf

def reqSum (l : List Eff) : Nat := (l.map Eff.req).sum

theorem foldl_req_le (env : Env) (l : List Eff) : ∀ (v : View), (l.foldl (applyG env) v).refreshReq ≤ v.refreshReq + reqSum l := by
  induction l with
  | nil => intro v; simp [reqSum]
  | cons f t ih =>
    intro v
    simp only [List.foldl_cons, reqSum, List.map_cons, List.sum_cons]
    have h1 := ih (applyG env v f)
    have h2 := applyG_req_le env v f
    simp only [reqSum] at h1
    omega

theorem foldl_req_eq (env : Env) (l : List Eff) (hl : ∀ f ∈ l, f.isCrash = false) : ∀ (v : View), v.crashed = false →
    (l.foldl (applyG env) v).refreshReq = v.refreshReq + reqSum l ∧ (l.foldl (applyG env) v).crashed = false := by
  induction l with
  | nil => intro v hc; simp [reqSum, hc]
  | cons f t ih =>
    intro v hc
    simp only [List.foldl_cons, reqSum, List.map_cons, List.sum_cons]
    have hf := hl f (List.mem_cons_self)
    have hc2 : (applyG env v f).crashed = false := by rw [applyG_crashed_eq env v f hf]; exact hc
    have h1 := ih (fun g hg => hl g (List.mem_cons_of_mem _ hg)) (applyG env v f) hc2
    have h2 := applyG_req_eq env v f hc
    simp only [reqSum] at h1
    exact ⟨by omega, h1.2⟩

/-- an UP whose address the ring does not know -/
def unknownUp (r : Ring.Ring) (e : Nat × Change) : Bool := e.2 == .up && (r.getHostByIP e.1).2 == false

theorem upEff_req (env : Env) (p : Option RHost × Bool) : (upEff env p).req = if p.2 == false then 1 else 0 := by
  obtain ⟨x, ok⟩ := p
  cases ok with
  | false => simp [upEff, Eff.req]
  | true =>
    cases x with
    | none => simp [upEff, Eff.req]
    | some h => simp only [upEff]; split <;> simp [Eff.req]

theorem downEff_req (env : Env) (p : Option RHost × Bool) : (downEff env p).req = 0 := by
  obtain ⟨x, ok⟩ := p
  cases ok with
  | false => simp [downEff, Eff.req]
  | true =>
    cases x with
    | none => simp [downEff, Eff.req]
    | some h => simp only [downEff]; split <;> simp [Eff.req]

theorem effectOf_req (env : Env) (r : Ring.Ring) (e : Nat × Change) :
    (effectOf env r e).req = if unknownUp r e then 1 else 0 := by
  obtain ⟨a, c⟩ := e
  cases c with
  | other => simp [effectOf, Eff.req, unknownUp]
  | up => simp [effectOf, unknownUp, upEff_req]
  | down => simp [effectOf, unknownUp, downEff_req]

theorem reqSum_effects (env : Env) (r : Ring.Ring) (evs : List (Nat × Change)) :
    reqSum (evs.map (effectOf env r)) = (evs.filter (unknownUp r)).length := by
  induction evs with
  | nil => rfl
  | cons e t ih =>
    simp only [reqSum, List.map_cons, List.sum_cons, List.filter_cons] at ih ⊢
    rw [ih, effectOf_req]
    split <;> simp <;> omega

end C16
