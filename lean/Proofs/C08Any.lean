import Proofs.C08Step
/-! C08 WITHOUT the client protocol: an invariant of the concurrent machine that every action
preserves, whatever the threads call (any `Clear(id)` by anybody at any time: double / stale / racing
releases, `Clear(0)`, ids beyond the capacity).

* `count` : `inuse + #g7 − #c11 = popcount − 1`
* `cons`  : per id `x`:  #(`Clear(x)` calls that flipped the bit and returned) + #(threads at `c11 x`) + [bit x]
                       = #(`GetStream` calls that returned x) + #(threads at `g7 x`) + [bit x initially]
-/
namespace C08
open Streams

def isG7 : PC → Bool
  | .g7 _ => true
  | _ => false
def isC11 : PC → Bool
  | .c11 _ => true
  | _ => false

def g7x (x : Nat) (pc : PC) : Bool := decide (pc = .g7 x)
def c11x (x : Nat) (pc : PC) : Bool := decide (pc = .c11 x)
def b2n (b : Bool) : Nat := if b then 1 else 0

/-- thread-local facts that hold without any protocol -/
def localA (n : Nat) : PC → Prop
  | .g5 _ _ j b => b.getLsbD (streamOffset j) = false ∧ j < 64
  | .g7 id => id < 64 * n
  | .c9 id b => b.getLsbD (streamOffset id) = true ∧ id / 64 < n
  | .c10 id => id / 64 < n
  | _ => True

structure InvA (b0 : Nat → Bool) (c0 : Int) (sh : Shared) (ths : List PC) (evs : List Ev) : Prop where
  npos : 0 < sh.words.length
  locals : ∀ (t : Nat) (pc : PC), ths[t]? = some pc → localA sh.words.length pc
  count : sh.inuse + (ths.countP isG7 : Nat) - (ths.countP isC11 : Nat)
            = (countBelow (bitAt sh.words) (64 * sh.words.length) : Nat) - 1 + c0
  cons : ∀ x : Nat, evs.count (.released x) + ths.countP (c11x x) + b2n (bitAt sh.words x)
            = evs.count (.got x) + ths.countP (g7x x) + b2n (b0 x)

/-- replacing the pc of thread `t` (and the shared state, and the event list) when the contributions
    to the two equations change consistently -/
theorem invA_set {b0 : Nat → Bool} {c0 : Int} {sh : Shared} {ths : List PC} {evs : List Ev}
    (hI : InvA b0 c0 sh ths evs) {t : Nat} {pc : PC} (ht : ths[t]? = some pc)
    (sh' : Shared) (pc' : PC) (evs' : List Ev)
    (hlen : sh'.words.length = sh.words.length)
    (hloc : localA sh.words.length pc')
    (hcount : sh'.inuse + (b2n (isG7 pc') : Nat) - (b2n (isC11 pc') : Nat)
                - (countBelow (bitAt sh'.words) (64 * sh.words.length) : Nat)
              = sh.inuse + (b2n (isG7 pc) : Nat) - (b2n (isC11 pc) : Nat)
                - (countBelow (bitAt sh.words) (64 * sh.words.length) : Nat))
    (hcons : ∀ x : Nat,
        (evs'.count (.released x) + b2n (c11x x pc') + b2n (bitAt sh'.words x)) + (evs.count (.got x) + b2n (g7x x pc))
        = (evs.count (.released x) + b2n (c11x x pc) + b2n (bitAt sh.words x)) + (evs'.count (.got x) + b2n (g7x x pc'))) :
    InvA b0 c0 sh' (ths.set t pc') evs' := by
  refine ⟨by rw [hlen]; exact hI.npos, ?_, ?_, ?_⟩
  · intro u pcu hu
    rw [hlen]
    simp only [get_set ht] at hu
    split at hu
    · cases hu; exact hloc
    · exact hI.locals u pcu hu
  · have h1 := countP_set isG7 ths t pc' pc ht
    have h2 := countP_set isC11 ths t pc' pc ht
    have h3 := hI.count
    rw [hlen]
    simp only [b2n] at hcount
    omega
  · intro x
    have h1 := countP_set (g7x x) ths t pc' pc ht
    have h2 := countP_set (c11x x) ths t pc' pc ht
    have h3 := hI.cons x
    have h4 := hcons x
    simp only [b2n] at h3 h4 ⊢
    omega

/-- a pc that contributes to neither equation and produces no event -/
def quiet (pc : PC) : Prop := isG7 pc = false ∧ isC11 pc = false

theorem quiet_x {pc : PC} (h : quiet pc) (x : Nat) : g7x x pc = false ∧ c11x x pc = false ∧ evOfPC pc = [] := by
  cases pc <;> simp_all [quiet, isG7, isC11, g7x, c11x, evOfPC]

/-- transitions that touch neither the bitset nor the counter, between quiet pcs -/
theorem invA_quiet {b0 : Nat → Bool} {c0 : Int} {sh : Shared} {ths : List PC} {evs : List Ev}
    (hI : InvA b0 c0 sh ths evs) {t : Nat} {pc : PC} (ht : ths[t]? = some pc) (hq : quiet pc)
    (sh' : Shared) (pc' : PC) (hw : sh'.words = sh.words) (hu : sh'.inuse = sh.inuse)
    (hq' : quiet pc') (hloc : localA sh.words.length pc') :
    InvA b0 c0 sh' (ths.set t pc') (evOfPC pc ++ evs) := by
  rw [(quiet_x hq 0).2.2]
  refine invA_set hI ht sh' pc' _ (by rw [hw]) hloc ?_ ?_
  · rw [hw, hu, hq.1, hq.2, hq'.1, hq'.2]
  · intro x
    rw [hw, (quiet_x hq x).1, (quiet_x hq x).2.1, (quiet_x hq' x).1, (quiet_x hq' x).2.1]
    simp only [List.nil_append]

theorem scanPc_quiet {pc : PC} (n : Nat) (h : scanPc pc) : quiet pc ∧ localA n pc := by
  cases pc <;> simp_all [scanPc, owns, inClear, localOk, quiet, isG7, isC11, localA]

theorem count_cons_got (x id : Nat) (evs : List Ev) :
    (Ev.got id :: evs).count (.got x) = evs.count (.got x) + (if x = id then 1 else 0) ∧
    (Ev.got id :: evs).count (.released x) = evs.count (.released x) := by
  constructor
  · rw [List.count_cons]
    by_cases h : x = id
    · subst h; simp
    · have : ¬ id = x := fun e => h e.symm
      simp [h, this]
  · rw [List.count_cons]; simp

theorem count_cons_released (x id : Nat) (evs : List Ev) :
    (Ev.released id :: evs).count (.released x) = evs.count (.released x) + (if x = id then 1 else 0) ∧
    (Ev.released id :: evs).count (.got x) = evs.count (.got x) := by
  constructor
  · rw [List.count_cons]
    by_cases h : x = id
    · subst h; simp
    · have : ¬ id = x := fun e => h e.symm
      simp [h, this]
  · rw [List.count_cons]; simp

/-- ONE atomic operation of thread `t` standing at `pc` preserves the invariant (no protocol) -/
theorem invA_tstep {b0 : Nat → Bool} {c0 : Int} {sh : Shared} {ths : List PC} {evs : List Ev}
    (hI : InvA b0 c0 sh ths evs) {t : Nat} {pc : PC} (ht : ths[t]? = some pc) :
    InvA b0 c0 (tstep sh pc).1 (ths.set t (tstep sh pc).2.1) (evOfPC pc ++ evs) := by
  have hn := hI.npos
  have hq0 : ∀ {p : PC}, isG7 p = false → isC11 p = false → quiet p := fun a b => ⟨a, b⟩
  cases pc with
  | idle => exact invA_quiet hI ht (hq0 rfl rfl) _ _ rfl rfl (hq0 rfl rfl) trivial
  | g1 => exact invA_quiet hI ht (hq0 rfl rfl) _ _ rfl rfl (hq0 rfl rfl) trivial
  | g2 o =>
    by_cases h : sh.offset = o
    · simp only [tstep, h, ↓reduceIte]
      exact invA_quiet hI ht (hq0 rfl rfl) _ _ rfl rfl (hq0 rfl rfl) trivial
    · simp only [tstep, h, ↓reduceIte]
      exact invA_quiet hI ht (hq0 rfl rfl) _ _ rfl rfl (hq0 rfl rfl) trivial
  | g3 => exact invA_quiet hI ht (hq0 rfl rfl) _ _ rfl rfl (hq0 rfl rfl) trivial
  | g4 off i =>
    simp only [tstep]
    generalize sh.words.getD ((i + off) % sh.words.length) 0 = b
    by_cases hall : b = allOnes
    · simp only [hall, ↓reduceIte]
      obtain ⟨h1, h2⟩ := scanPc_quiet sh.words.length (nextWord_spec sh.words.length off i).1
      exact invA_quiet hI ht (hq0 rfl rfl) _ _ rfl rfl h1 h2
    · simp only [hall, ↓reduceIte]
      obtain ⟨h1, h2⟩ := scanPc_quiet sh.words.length (afterLoad_spec sh.words.length off i 0 b).1
      exact invA_quiet hI ht (hq0 rfl rfl) _ _ rfl rfl h1 h2
  | g5 off i j b =>
    obtain ⟨hbit, hj⟩ := hI.locals t _ ht
    by_cases h : sh.words.getD ((i + off) % sh.words.length) 0 = b
    · simp only [tstep, h, ↓reduceIte]
      have hpos : (i + off) % sh.words.length < sh.words.length := Nat.mod_lt _ hn
      generalize (i + off) % sh.words.length = pos at *
      have hid1 : streamFromBucket pos j / 64 = pos := by unfold streamFromBucket; omega
      have hso : streamOffset (streamFromBucket pos j) = streamOffset j := by
        unfold streamOffset streamFromBucket; omega
      have hmask : mask (streamFromBucket pos j) = mask j := by unfold mask; rw [hso]
      have hset : sh.words.set pos (b ||| mask j) = setBit sh.words (streamFromBucket pos j) := by
        unfold setBit; rw [hid1, hmask, h]
      have hfree : bitAt sh.words (streamFromBucket pos j) = false := by
        unfold bitAt; rw [hid1, hso, h]; exact hbit
      have hlt : streamFromBucket pos j < 64 * sh.words.length := by unfold streamFromBucket; omega
      generalize streamFromBucket pos j = id at *
      have hbits : ∀ x, bitAt (setBit sh.words id) x = (decide (x = id) || bitAt sh.words x) :=
        fun x => bitAt_setBit _ _ _ (by omega)
      rw [hset]
      refine invA_set hI ht _ _ _ (by simp [length_setBit]) hlt ?_ ?_
      · have h4 := countBelow_set (p := bitAt sh.words) (q := bitAt (setBit sh.words id)) id hbits hfree
          (64 * sh.words.length)
        simp only [hlt, ↓reduceIte] at h4
        simp only [isG7, isC11, b2n, h4]
        simp
        omega
      · intro x
        simp only [evOfPC, List.nil_append, hbits, g7x, c11x, b2n]
        by_cases hx : x = id
        · subst hx; simp [hfree] <;> omega
        · have : ¬ id = x := fun e => hx e.symm
          simp [hx, this] <;> omega
    · simp only [tstep, h, ↓reduceIte]
      exact invA_quiet hI ht (hq0 rfl rfl) _ _ rfl rfl (hq0 rfl rfl) trivial
  | g6 off i j =>
    simp only [tstep]
    generalize sh.words.getD ((i + off) % sh.words.length) 0 = b
    obtain ⟨h1, h2⟩ := scanPc_quiet sh.words.length (afterLoad_spec sh.words.length off i j b).1
    exact invA_quiet hI ht (hq0 rfl rfl) _ _ rfl rfl h1 h2
  | g7 id =>
    simp only [tstep]
    refine invA_set hI ht _ _ _ rfl trivial ?_ ?_
    · simp only [isG7, isC11, b2n]; simp <;> omega
    · intro x
      simp only [evOfPC, List.singleton_append, g7x, c11x, b2n]
      rw [(count_cons_got x id evs).1, (count_cons_got x id evs).2]
      by_cases hx : x = id
      · subst hx; simp <;> omega
      · have : ¬ id = x := fun e => hx e.symm
        simp [hx, this] <;> omega
  | c8 id =>
    by_cases hlt : bucketOffset id < sh.words.length
    · generalize hb : sh.words.getD (bucketOffset id) 0 = b
      by_cases hbit : b &&& mask id ≠ mask id
      · have e : tstep sh (.c8 id) = (sh, .idle, some (.cleared false)) := by
          simp only [tstep, hlt, hb, ↓reduceIte, if_pos hbit]
        rw [e]
        exact invA_quiet hI ht (hq0 rfl rfl) _ _ rfl rfl (hq0 rfl rfl) trivial
      · have e : tstep sh (.c8 id) = (sh, .c9 id b, none) := by
          simp only [tstep, hlt, hb, ↓reduceIte, if_neg hbit]
        rw [e]
        have hset : b.getLsbD (streamOffset id) = true := by
          cases hc : b.getLsbD (streamOffset id)
          · exact absurd ((and_mask_ne_mask b id).mpr hc) hbit
          · rfl
        exact invA_quiet hI ht (hq0 rfl rfl) _ _ rfl rfl (hq0 rfl rfl) ⟨hset, hlt⟩
    · have e : tstep sh (.c8 id) = (sh, .idle, some (.cleared false)) := by
        simp only [tstep, hlt, ↓reduceIte]
      rw [e]
      exact invA_quiet hI ht (hq0 rfl rfl) _ _ rfl rfl (hq0 rfl rfl) trivial
  | c9 id b =>
    obtain ⟨hbit, hlt⟩ := hI.locals t _ ht
    by_cases h : sh.words.getD (bucketOffset id) 0 = b
    · simp only [tstep, h, ↓reduceIte]
      have hset : sh.words.set (bucketOffset id) (b &&& ~~~ mask id) = clrBit sh.words id := by
        unfold clrBit bucketOffset; rw [← h]; rfl
      have hbits : ∀ x, bitAt (clrBit sh.words id) x = (!decide (x = id) && bitAt sh.words x) :=
        fun x => bitAt_clrBit _ _ _ hlt
      have hwas : bitAt sh.words id = true := by
        unfold bitAt; rw [show id / 64 = bucketOffset id from rfl, h]; exact hbit
      have hid : id < 64 * sh.words.length := by omega
      rw [hset]
      refine invA_set hI ht _ _ _ (by simp [length_clrBit]) trivial ?_ ?_
      · have h5 := countBelow_clr (p := bitAt sh.words) (q := bitAt (clrBit sh.words id)) id hbits hwas
          (64 * sh.words.length)
        simp only [hid, ↓reduceIte] at h5
        simp only [isG7, isC11, b2n, ← h5]
        simp
        omega
      · intro x
        simp only [evOfPC, List.nil_append, hbits, g7x, c11x, b2n]
        by_cases hx : x = id
        · subst hx; simp [hwas] <;> omega
        · have : ¬ id = x := fun e => hx e.symm
          simp [hx, this] <;> omega
    · simp only [tstep, h, ↓reduceIte]
      exact invA_quiet hI ht (hq0 rfl rfl) _ _ rfl rfl (hq0 rfl rfl) hlt
  | c10 id =>
    have hlt : id / 64 < sh.words.length := hI.locals t _ ht
    generalize hb : sh.words.getD (bucketOffset id) 0 = b
    by_cases hbit : b &&& mask id ≠ mask id
    · have e : tstep sh (.c10 id) = (sh, .idle, some (.cleared false)) := by
        simp only [tstep, hb, if_pos hbit]
      rw [e]
      exact invA_quiet hI ht (hq0 rfl rfl) _ _ rfl rfl (hq0 rfl rfl) trivial
    · have e : tstep sh (.c10 id) = (sh, .c9 id b, none) := by
        simp only [tstep, hb, if_neg hbit]
      rw [e]
      have hset : b.getLsbD (streamOffset id) = true := by
        cases hc : b.getLsbD (streamOffset id)
        · exact absurd ((and_mask_ne_mask b id).mpr hc) hbit
        · rfl
      exact invA_quiet hI ht (hq0 rfl rfl) _ _ rfl rfl (hq0 rfl rfl) ⟨hset, hlt⟩
  | c11 id =>
    simp only [tstep]
    refine invA_set hI ht _ _ _ rfl trivial ?_ ?_
    · simp only [isG7, isC11, b2n]; simp <;> omega
    · intro x
      simp only [evOfPC, List.singleton_append, g7x, c11x, b2n]
      rw [(count_cons_released x id evs).1, (count_cons_released x id evs).2]
      by_cases hx : x = id
      · subst hx; simp <;> omega
      · have : ¬ id = x := fun e => hx e.symm
        simp [hx, this] <;> omega
  | a12 => exact invA_quiet hI ht (hq0 rfl rfl) _ _ rfl rfl (hq0 rfl rfl) trivial

/-! ### the machine: every action, every schedule -/

theorem invA_step {b0 : Nat → Bool} {c0 : Int} {s s' : State} {a : Action} {r : Option Ret} {evs : List Ev}
    (hI : InvA b0 c0 s.sh s.threads evs) (hs : step s a = some (s', r)) :
    InvA b0 c0 s'.sh s'.threads (evOf s a ++ evs) := by
  cases a with
  | start t op =>
    simp only [step] at hs
    split at hs
    · rename_i hidle
      simp only [Option.some.injEq] at hs
      have hq : quiet (startPC op) := by cases op <;> exact ⟨rfl, rfl⟩
      have h1 : InvA b0 c0 s.sh (s.threads.set t (startPC op)) evs := by
        have := invA_quiet hI hidle ⟨rfl, rfl⟩ s.sh (startPC op) rfl rfl hq (by cases op <;> trivial)
        simpa [evOfPC] using this
      have h2 := invA_tstep h1 (t := t) (pc := startPC op) (by simp [get_set hidle])
      rw [List.set_set, (quiet_x hq 0).2.2] at h2
      have e1 := congrArg Prod.fst hs
      simp only at e1
      rw [← e1]
      simp only [evOf, List.nil_append] at h2 ⊢
      exact h2
    · cases hs
  | step t =>
    simp only [step] at hs
    split at hs
    · rename_i pc hpc
      split at hs
      · cases hs
      · simp only [Option.some.injEq] at hs
        have h2 := invA_tstep hI hpc
        have e1 := congrArg Prod.fst hs
        simp only at e1
        rw [← e1]
        simp only [evOf, hpc]
        exact h2
    · cases hs

theorem invA_runAny {b0 : Nat → Bool} {c0 : Int} (ok : State → Action → Bool) (as : List Action) :
    ∀ (s : State) (evs : List Ev) (s' : State) (evs' : List Ev), InvA b0 c0 s.sh s.threads evs →
      runAny ok s evs as = some (s', evs') → InvA b0 c0 s'.sh s'.threads evs' := by
  induction as with
  | nil =>
    intro s evs s' evs' hI h
    simp only [runAny, Option.some.injEq, Prod.mk.injEq] at h
    obtain ⟨rfl, rfl⟩ := h
    exact hI
  | cons a as ih =>
    intro s evs s' evs' hI h
    simp only [runAny] at h
    split at h
    · split at h
      · rename_i s1 r hs
        exact ih s1 _ s' evs' (invA_step hI hs) h
      · cases h
    · cases h

theorem countP_idle {f : PC → Bool} (hf : f .idle = false) {ths : List PC} (h : ∀ pc, pc ∈ ths → pc = .idle) :
    ths.countP f = 0 := by
  rw [List.countP_eq_zero]
  intro pc hpc
  rw [h pc hpc, hf]; simp

/-- any state in which no call is in progress is a starting point -/
theorem invA_start (s0 : State) (hn : 0 < s0.sh.words.length) (hidle : ∀ pc, pc ∈ s0.threads → pc = .idle) :
    InvA (bitAt s0.sh.words)
      (s0.sh.inuse - ((countBelow (bitAt s0.sh.words) (64 * s0.sh.words.length) : Nat) - 1))
      s0.sh s0.threads [] := by
  refine ⟨hn, ?_, ?_, ?_⟩
  · intro t pc ht
    rw [hidle pc (List.mem_of_getElem? ht)]; trivial
  · rw [countP_idle (f := isG7) rfl hidle, countP_idle (f := isC11) rfl hidle]
    simp <;> omega
  · intro x
    rw [countP_idle (f := g7x x) (by simp [g7x]) hidle, countP_idle (f := c11x x) (by simp [c11x]) hidle]
    simp

end C08
