/- C03 helper definitions and lemmas for the counterexample theorems and the map-order theorem -/
import Proofs.C03Reject
namespace C03
open FrameSpec FrameWrite

/-- consistency ONE, nothing else -/
def p0 : GParams := ⟨1, false, [], 0, [], 0, false, 0, []⟩

/-- EXECUTE of prepared id ab with one UnsetValue -/
def cexUnset : GReq := .execute [0xab] { p0 with values := [⟨[], true, none⟩] } []
/-- EXECUTE with values (positional 01, named "n" 02): the name is not on the first value -/
def cexNameLater : GReq := .execute [0xab] { p0 with values := [⟨[], false, some [1]⟩, ⟨[0x6e], false, some [2]⟩] } []
/-- EXECUTE with values (named "n" 01, positional 02) -/
def cexNameFirst : GReq := .execute [0xab] { p0 with values := [⟨[0x6e], false, some [1]⟩, ⟨[], false, some [2]⟩] } []
/-- EXECUTE with one named value -/
def cexNamed : GReq := .execute [0xab] { p0 with values := [⟨[0x6e], false, some [1]⟩] } []
/-- BATCH of one statement "x" with timestamp 5 -/
def cexBatchTs : GReq := .batch 0 [⟨[], [0x78], []⟩] 1 0 true 5 []
/-- QUERY "x" with one bound value -/
def cexQueryValue : GReq := .query [0x78] { p0 with values := [⟨[], false, some [1]⟩] } []
/-- QUERY "x" with page size 2^31 -/
def cexPageSize : GReq := .query [0x78] { p0 with pageSize := 2147483648 } []
/-- QUERY "x" with timestamp 5 -/
def cexQueryTs : GReq := .query [0x78] { p0 with defaultTimestamp := true, tsValue := 5 } []
/-- EXECUTE with n null values -/
def cexMany (n : Nat) : GReq := .execute [0xab] { p0 with values := List.replicate n ⟨[], false, none⟩ } []
/-- BATCH of n statements "x" -/
def cexManyStmts (n : Nat) : GReq := .batch 0 (List.replicate n ⟨[], [0x78], []⟩) 1 0 false 0 []
/-- EXECUTE of a prepared id `id` -/
def cexLongId (id : Bytes) : GReq := .execute id p0 []

theorem many_len (n : Nat) :
    (List.flatMap (wQVal false) (List.replicate n (⟨[], false, none⟩ : GVal))).length = 4 * n := by
  induction n with
  | zero => rfl
  | succ k ih =>
    simp only [List.replicate_succ, List.flatMap_cons, List.length_append, ih]
    simp [wQVal, wVal, wBytes, wInt, wUInt]; omega

theorem many_stmts_len (n : Nat) :
    (List.flatMap wStmt (List.replicate n (⟨[], [0x78], []⟩ : GStmt))).length = 8 * n := by
  induction n with
  | zero => rfl
  | succ k ih =>
    simp only [List.replicate_succ, List.flatMap_cons, List.length_append, ih]
    simp [wStmt, wLongString, wInt, wUInt, wShort]; omega

theorem valuesOk_too_many (v : Nat) (b : Bool) (l : List NVal) (h : l.length > 65535) : valuesOk v b l = false := by
  have : ¬ l.length ≤ 65535 := by omega
  simp [valuesOk, this]

/-- equal up to the order in which maps (STARTUP options, custom payload) are listed -/
def mapEquiv : Req → Req → Prop
  | Req.startup a, Req.startup b => a.Perm b
  | Req.options, Req.options => True
  | Req.authResponse a, Req.authResponse b => a = b
  | Req.register a, Req.register b => a = b
  | Req.query s p a, Req.query s' p' b => s = s' ∧ p = p' ∧ a.Perm b
  | Req.prepare s k a, Req.prepare s' k' b => s = s' ∧ k = k' ∧ a.Perm b
  | Req.execute i p a, Req.execute i' p' b => i = i' ∧ p = p' ∧ a.Perm b
  | Req.batch t s c se ts ks a, Req.batch t' s' c' se' ts' ks' b =>
      t = t' ∧ s = s' ∧ c = c' ∧ se = se' ∧ ts = ts' ∧ ks = ks' ∧ a.Perm b
  | _, _ => False

theorem all_perm {α : Type} (p : α → Bool) {a b : List α} (h : a.Perm b) : a.all p = b.all p := by
  rw [Bool.eq_iff_iff]
  simp only [List.all_eq_true]
  exact ⟨fun ha x hx => ha x (h.mem_iff.mpr hx), fun hb x hx => hb x (h.mem_iff.mp hx)⟩

theorem payloadOk_perm (v : Nat) {a b : Payload} (h : a.Perm b) : payloadOk v a = payloadOk v b := by
  have hl := h.length_eq
  have he : a.isEmpty = b.isEmpty := by
    cases a <;> cases b <;> simp at hl ⊢
  simp only [payloadOk, he, hl, all_perm _ h]

theorem expressible_mapEquiv (v : Nat) (r1 r2 : Req) (h : mapEquiv r1 r2) :
    Expressible v r1 = Expressible v r2 := by
  cases r1 <;> cases r2 <;> simp only [mapEquiv] at h
  · simp only [Expressible, h.length_eq, all_perm _ h]
  · rfl
  · rw [h]
  · rw [h]
  · obtain ⟨h1, h2, h3⟩ := h; subst h1; subst h2; simp only [Expressible, payloadOk_perm v h3]
  · obtain ⟨h1, h2, h3⟩ := h; subst h1; subst h2; simp only [Expressible, payloadOk_perm v h3]
  · obtain ⟨h1, h2, h3⟩ := h; subst h1; subst h2; simp only [Expressible, payloadOk_perm v h3]
  · obtain ⟨h1, h2, h3, h4, h5, h6, h7⟩ := h
    subst h1; subst h2; subst h3; subst h4; subst h5; subst h6
    simp only [Expressible, payloadOk_perm v h7]

end C03
