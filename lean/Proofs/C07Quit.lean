import Proofs.C07Machine
/-!
  The shutdown leg of the two writers (`quit` closes = `c.cancel()`, which precedes `c.close()`): invariants of the
  machine of `Model/Writer.lean` about the flusher's batch state, and the step lemmas behind
  `C07_nothing_after_torn_partial`, `C07_nothing_written_after_flusher_quit`, `C07_outcome_final`.
  `cfg.flushOnQuit = false` is conn.go as it is (the flusher's quit branch tells every queued writer `(0, io.EOF)`).
-/
namespace Writer

structure InvQ (cfg : Cfg) (s : St) : Prop where
  /-- no queued writer is lost: it is in the flusher's queue or in the batch being flushed -/
  qAcc : ∀ w, s.pc w = .queued → w ∈ s.queue ∨ w ∈ s.todo
  idleTodo : s.flushing = false → s.todo = []
  /-- coalescer: a buffer is inside the socket Write only during a flush -/
  ownFl : cfg.coalesce = true → ∀ w, s.owner = some w → s.flushing = true
  goneIdle : s.gone = true → s.flushing = false
  goneQuit : s.gone = true → s.quit = true
  queueIdle : s.flushing = true → s.queue = []
  dirIdle : cfg.coalesce = false → s.flushing = false ∧ s.gone = false

theorem invq_init (cfg : Cfg) : InvQ cfg init := by
  constructor <;> simp [init]

theorem invq_step (cfg : Cfg) (hq : cfg.flushOnQuit = false) (s s' : St) (a : Act) (inv : Inv cfg s) (h : InvQ cfg s)
    (hs : step cfg s a = some s') : InvQ cfg s' := by
  obtain ⟨hqa, hit, hof, hgi, hgq, hqi, hdi⟩ := h
  have htq := inv.todoQ
  cases a with
  | submit w | cancel w =>
    simp only [step] at hs
    split at hs
    · injection hs with hs; subst hs
      refine ⟨?_, hit, hof, hgi, hgq, hqi, hdi⟩
      intro x hx; dsimp only at hx ⊢
      by_cases e : x = w
      · subst e; simp [setPc_same] at hx
      · rw [setPc_other _ _ _ _ e] at hx; exact hqa x hx
    · simp at hs
  | enqueue w =>
    simp only [step] at hs
    split at hs
    · rename_i hg
      injection hs with hs; subst hs
      refine ⟨?_, hit, hof, hgi, hgq, ?_, ?_⟩
      · intro x hx; dsimp only at hx ⊢
        by_cases e : x = w
        · subst e; simp
        · rw [setPc_other _ _ _ _ e] at hx
          rcases hqa x hx with h1 | h1
          · exact Or.inl (by simp [h1])
          · exact Or.inr h1
      · intro hf; dsimp only at hf; simp [hg.2.2.1] at hf
      · intro hc; simp [hg.1] at hc
    · simp at hs
  | tick =>
    simp only [step] at hs
    split at hs
    · rename_i hg
      injection hs with hs; subst hs
      refine ⟨?_, ?_, ?_, ?_, hgq, ?_, ?_⟩
      · intro x hx; dsimp only at hx ⊢
        rcases hqa x hx with h1 | h1
        · exact Or.inr h1
        · rw [hit hg.2.1] at h1; simp at h1
      · intro hf; simp at hf
      · intro _ _ _; rfl
      · intro hg'; dsimp only at hg'; simp [hg.2.2.2] at hg'
      · intro _; rfl
      · intro hc; simp [hg.1] at hc
    · simp at hs
  | enter w =>
    simp only [step] at hs
    split at hs
    · rename_i hg
      injection hs with hs; subst hs
      refine ⟨?_, ?_, ?_, hgi, hgq, hqi, hdi⟩
      · intro x hx; dsimp only at hx ⊢
        by_cases e : x = w
        · subst e; simp [setPc_same] at hx
        · rw [setPc_other _ _ _ _ e] at hx
          rcases hqa x hx with h1 | h1
          · exact Or.inl h1
          · exact Or.inr (by simp [List.mem_filter, h1, e])
      · intro hf; dsimp only at hf ⊢; rw [hit hf]; rfl
      · intro hc x _
        dsimp only
        rcases hg.2 with ⟨h1, _⟩ | ⟨_, _, h3, _⟩
        · rw [hc] at h1; cases h1
        · exact h3
    · simp at hs
  | piece w k =>
    simp only [step] at hs
    split at hs
    · rename_i off hw
      split at hs
      · injection hs with hs; subst hs
        refine ⟨?_, hit, hof, hgi, hgq, hqi, hdi⟩
        intro x hx; dsimp only at hx ⊢
        by_cases e : x = w
        · subst e; simp [setPc_same] at hx
        · rw [setPc_other _ _ _ _ e] at hx; exact hqa x hx
      · simp at hs
    · simp at hs
  | endWrite w ok =>
    simp only [step] at hs
    split at hs
    · rename_i off hw
      split at hs
      · injection hs with hs; subst hs
        refine ⟨?_, ?_, ?_, ?_, hgq, ?_, ?_⟩
        · intro x hx; dsimp only at hx ⊢
          by_cases e : x = w
          · subst e; simp [setPc_same] at hx
          · rw [setPc_other _ _ _ _ e] at hx
            by_cases hfa : (cfg.coalesce && !ok) = true
            · simp only [hfa, if_true] at hx ⊢
              by_cases hm : x ∈ s.todo
              · rw [setMany_mem _ _ _ _ hm] at hx; cases hx
              · rw [setMany_not_mem _ _ _ _ hm] at hx
                rcases hqa x hx with h1 | h1
                · exact Or.inl h1
                · exact absurd h1 hm
            · simp only [hfa] at hx ⊢
              exact hqa x hx
        · dsimp only
          cases hc : cfg.coalesce <;> cases ok <;> simp <;> intro h1 <;> first | exact hit h1 | skip
          all_goals (first | exact List.isEmpty_iff.mp h1 | (cases hte : s.todo.isEmpty <;> simp_all))
        · intro _ x hx; simp at hx
        · intro hg'; dsimp only at hg' ⊢
          have := hgi hg'
          simp [this]
        · intro hf; dsimp only at hf ⊢
          apply hqi
          by_cases hcond : (cfg.coalesce && (!ok || s.todo.isEmpty)) = true
          · simp [hcond] at hf
          · simpa [hcond] using hf
        · intro hc
          have := hdi hc
          dsimp only
          simp [hc, this.1, this.2]
      · simp at hs
    · simp at hs
  | quit w =>
    simp only [step] at hs
    split at hs
    · injection hs with hs; subst hs
      refine ⟨?_, hit, hof, hgi, hgq, ?_, hdi⟩
      · intro x hx; dsimp only at hx ⊢
        by_cases e : x = w
        · subst e; simp [setPc_same] at hx
        · rw [setPc_other _ _ _ _ e] at hx
          rcases hqa x hx with h1 | h1
          · exact Or.inl (by simp [List.mem_filter, h1, e])
          · exact Or.inr h1
      · intro hf; dsimp only at hf ⊢; rw [hqi hf]; rfl
    · simp at hs
  | ret w =>
    simp only [step] at hs
    split at hs <;> first
      | (injection hs with hs; subst hs
         refine ⟨?_, hit, hof, hgi, hgq, hqi, hdi⟩
         intro x hx; dsimp only at hx ⊢
         by_cases e : x = w
         · subst e; simp [setPc_same] at hx
         · rw [setPc_other _ _ _ _ e] at hx; exact hqa x hx)
      | (simp at hs)
  | close w =>
    simp only [step] at hs
    split at hs
    · injection hs with hs; subst hs
      refine ⟨?_, hit, hof, hgi, hgq, hqi, hdi⟩
      intro x hx; dsimp only at hx ⊢
      by_cases e : x = w
      · subst e; rw [setPc_same] at hx; split at hx <;> cases hx
      · rw [setPc_other _ _ _ _ e] at hx; exact hqa x hx
    · simp at hs
  | closeFinish w =>
    simp only [step] at hs
    split at hs
    · split at hs
      · injection hs with hs; subst hs
        refine ⟨?_, hit, hof, hgi, hgq, hqi, hdi⟩
        intro x hx; dsimp only at hx ⊢
        by_cases e : x = w
        · subst e; simp [setPc_same] at hx
        · rw [setPc_other _ _ _ _ e] at hx; exact hqa x hx
      · simp at hs
    · simp at hs
  | shutdown =>
    simp only [step] at hs
    injection hs with hs; subst hs
    exact ⟨hqa, hit, hof, hgi, fun _ => rfl, hqi, hdi⟩
  | cancelCtx w =>
    simp only [step] at hs
    split at hs
    · injection hs with hs; subst hs
      exact ⟨hqa, hit, hof, hgi, fun _ => rfl, hqi, hdi⟩
    · simp at hs
  | shutQuit =>
    simp only [step] at hs
    split at hs
    · injection hs with hs; subst hs
      exact ⟨hqa, hit, hof, hgi, fun _ => rfl, hqi, hdi⟩
    · simp at hs
  | flusherQuit =>
    simp only [step] at hs
    split at hs
    · rename_i hg
      simp only [hq] at hs
      injection hs with hs; subst hs
      refine ⟨hqa, hit, hof, fun _ => hg.2.2.1, fun _ => hg.2.1, hqi, ?_⟩
      intro hc; simp [hg.1] at hc
    · simp at hs

theorem invq_run (cfg : Cfg) (hser : cfg.serialised = true) (hq : cfg.flushOnQuit = false) :
    ∀ (as : List Act) (s s' : St), Inv cfg s → InvQ cfg s → run cfg s as = some s' → InvQ cfg s'
  | [], s, s', _, h, hr => by simp [run] at hr; subst hr; exact h
  | a :: as, s, s', inv, h, hr => by
    simp only [run] at hr
    split at hr
    · rename_i s1 hs1
      exact invq_run cfg hser hq as s1 s' (inv_step cfg hser s s1 a inv hs1) (invq_step cfg hq s s1 a inv h hs1) hr
    · simp at hr

/-- no Write in progress and no batch in progress -/
def St.idle (s : St) : Prop := s.owner = none ∧ s.flushing = false

/-- from an idle state, an action that does not "take the next one" leaves the wire as it is and the state idle:
    in particular every action of the shutdown leg (`cancelCtx`, `shutQuit`, `flusherQuit`, `quit w`, `shutdown`) -/
theorem idle_step (cfg : Cfg) (hq : cfg.flushOnQuit = false) (s s' : St) (a : Act) (inv : Inv cfg s)
    (hi : s.idle) (hn : a.takesNext cfg.coalesce = false) (hs : step cfg s a = some s') :
    s'.wire = s.wire ∧ s'.idle := by
  obtain ⟨hown, hfl⟩ := hi
  have noWrite : ∀ w off, s.pc w ≠ .inWrite off := fun w off hw => by
    have := inv.mutex w off hw; rw [hown] at this; cases this
  cases a with
  | piece w k =>
    simp only [step] at hs
    split at hs
    · rename_i off hw; exact absurd hw (noWrite w off)
    · simp at hs
  | endWrite w ok =>
    simp only [step] at hs
    split at hs
    · rename_i off hw; exact absurd hw (noWrite w off)
    · simp at hs
  | tick => simp [Act.takesNext] at hn
  | enter w =>
    simp only [step] at hs
    split at hs
    · rename_i hg
      rcases hg.2 with ⟨h1, _⟩ | ⟨_, _, h3, _⟩
      · simp [Act.takesNext, h1] at hn
      · rw [hfl] at h3; cases h3
    · simp at hs
  | flusherQuit =>
    simp only [step] at hs
    split at hs
    · simp only [hq] at hs
      injection hs with hs; subst hs
      exact ⟨rfl, hown, hfl⟩
    · simp at hs
  | closeFinish w =>
    simp only [step] at hs
    split at hs
    · split at hs
      · injection hs with hs; subst hs; exact ⟨rfl, hown, hfl⟩
      · simp at hs
    · simp at hs
  | ret w =>
    simp only [step] at hs
    split at hs <;> first
      | (injection hs with hs; subst hs; exact ⟨rfl, hown, hfl⟩)
      | (simp at hs)
  | submit w | cancel w | enqueue w | quit w | close w | cancelCtx w | shutQuit =>
    simp only [step] at hs
    split at hs
    · injection hs with hs; subst hs; exact ⟨rfl, hown, hfl⟩
    · simp at hs
  | shutdown =>
    simp only [step] at hs
    injection hs with hs; subst hs; exact ⟨rfl, hown, hfl⟩

theorem idle_run (cfg : Cfg) (hser : cfg.serialised = true) (hq : cfg.flushOnQuit = false) :
    ∀ (bs : List Act) (s s' : St), Inv cfg s → s.idle → (∀ a ∈ bs, a.takesNext cfg.coalesce = false) →
      run cfg s bs = some s' → s'.wire = s.wire ∧ s'.idle
  | [], s, s', _, hi, _, hr => by simp [run] at hr; subst hr; exact ⟨rfl, hi⟩
  | a :: bs, s, s', inv, hi, hn, hr => by
    simp only [run] at hr
    split at hr
    · rename_i s1 hs1
      have h1 := idle_step cfg hq s s1 a inv hi (hn a (by simp)) hs1
      have h2 := idle_run cfg hser hq bs s1 s' (inv_step cfg hser s s1 a inv hs1) h1.2
        (fun b hb => hn b (by simp [hb])) hr
      exact ⟨h2.1.trans h1.1, h2.2⟩
    · simp at hr

/-- once the flusher has taken its quit branch it never takes a tick again, so nothing "takes the next one" -/
theorem gone_step (cfg : Cfg) (hq : cfg.flushOnQuit = false) (hc : cfg.coalesce = true) (s s' : St) (a : Act)
    (inv : Inv cfg s) (invq : InvQ cfg s) (hg : s.gone = true) (hs : step cfg s a = some s') :
    s'.wire = s.wire ∧ s'.gone = true := by
  have hi : s.idle := by
    refine ⟨?_, invq.goneIdle hg⟩
    cases ho : s.owner with
    | none => rfl
    | some w => have := invq.ownFl hc w ho; rw [invq.goneIdle hg] at this; cases this
  have hgone : s'.gone = true := by
    cases a <;> simp only [step] at hs <;> (try split at hs) <;> (try split at hs) <;>
      (try (simp at hs)) <;> (try (injection hs with hs; subst hs; simp_all))
    all_goals (first | (subst hs; simp_all) | skip)
  by_cases hn : a.takesNext cfg.coalesce = false
  · exact ⟨(idle_step cfg hq s s' a inv hi hn hs).1, hgone⟩
  · cases a <;> simp [Act.takesNext, hc] at hn
    simp only [step] at hs
    split at hs
    · rename_i hgd; rw [hg] at hgd; simp at hgd
    · simp at hs

theorem gone_run (cfg : Cfg) (hser : cfg.serialised = true) (hq : cfg.flushOnQuit = false) (hc : cfg.coalesce = true) :
    ∀ (bs : List Act) (s s' : St), Inv cfg s → InvQ cfg s → s.gone = true → run cfg s bs = some s' → s'.wire = s.wire
  | [], s, s', _, _, _, hr => by simp [run] at hr; subst hr; rfl
  | a :: bs, s, s', inv, invq, hg, hr => by
    simp only [run] at hr
    split at hr
    · rename_i s1 hs1
      have h1 := gone_step cfg hq hc s s1 a inv invq hg hs1
      have h2 := gone_run cfg hser hq hc bs s1 s' (inv_step cfg hser s s1 a inv hs1) (invq_step cfg hq s s1 a inv invq hs1) h1.2 hr
      exact h2.trans h1.1
    · simp at hr

/-- the outcome handed to a caller never changes -/
theorem outcome_step (cfg : Cfg) (s s' : St) (a : Act) (inv : Inv cfg s) (w : Nat) (o : Nat × Bool)
    (ho : (s.pc w).outcome = some o) (hs : step cfg s a = some s') : (s'.pc w).outcome = some o := by
  have htodo : w ∉ s.todo := fun hm => by have := inv.todoQ w hm; rw [this] at ho; cases ho
  cases a with
  | piece x k =>
    simp only [step] at hs
    split at hs
    · rename_i off hx
      split at hs
      · injection hs with hs; subst hs
        have hxw : w ≠ x := by intro e; rw [e, hx] at ho; cases ho
        simp only [setPc_other _ _ _ _ hxw, ho]
      · simp at hs
    · simp at hs
  | endWrite x ok' =>
    simp only [step] at hs
    split at hs
    · rename_i off hx
      split at hs
      · injection hs with hs; subst hs
        have hxw : w ≠ x := by intro e; rw [e, hx] at ho; cases ho
        simp only [setPc_other _ _ _ _ hxw]
        split
        · rw [setMany_not_mem _ _ _ _ htodo, ho]
        · exact ho
      · simp at hs
    · simp at hs
  | ret x =>
    simp only [step] at hs
    by_cases e : w = x
    · subst e
      split at hs <;> first
        | (rename_i hp; injection hs with hs; subst hs; rw [hp] at ho; simpa [setPc_same, Pc.outcome] using ho)
        | (simp at hs)
    · split at hs <;> first
        | (injection hs with hs; subst hs; simp only [setPc_other _ _ _ _ e, ho])
        | (simp at hs)
  | close x =>
    simp only [step] at hs
    split at hs
    · rename_i n hp
      injection hs with hs; subst hs
      by_cases e : w = x
      · subst e; rw [hp] at ho; dsimp only; rw [setPc_same]; split <;> simpa [Pc.outcome] using ho
      · simp only [setPc_other _ _ _ _ e, ho]
    · simp at hs
  | closeFinish x =>
    simp only [step] at hs
    split at hs
    · rename_i n hp
      split at hs
      · injection hs with hs; subst hs
        by_cases e : w = x
        · subst e; rw [hp] at ho; dsimp only; rw [setPc_same]; simpa [Pc.outcome] using ho
        · simp only [setPc_other _ _ _ _ e, ho]
      · simp at hs
    · simp at hs
  | quit x =>
    simp only [step] at hs
    split at hs
    · rename_i hg
      injection hs with hs; subst hs
      have hxw : w ≠ x := by
        intro e; subst e
        rcases hg with ⟨_, h1⟩ | ⟨_, h1, _⟩ <;> (rw [h1] at ho; cases ho)
      simp only [setPc_other _ _ _ _ hxw, ho]
    · simp at hs
  | enter x =>
    simp only [step] at hs
    split at hs
    · rename_i hg
      injection hs with hs; subst hs
      have hxw : w ≠ x := by
        intro e; subst e
        rcases hg.2 with ⟨_, h1⟩ | ⟨_, h1, _⟩ <;> (rw [h1] at ho; cases ho)
      simp only [setPc_other _ _ _ _ hxw, ho]
    · simp at hs
  | submit x | cancel x | enqueue x =>
    simp only [step] at hs
    split at hs
    · injection hs with hs; subst hs
      have hxw : w ≠ x := by intro e; subst e; simp_all [Pc.outcome]
      simp only [setPc_other _ _ _ _ hxw, ho]
    · simp at hs
  | tick | shutQuit | cancelCtx _ =>
    simp only [step] at hs
    split at hs
    · injection hs with hs; subst hs; exact ho
    · simp at hs
  | flusherQuit =>
    simp only [step] at hs
    split at hs
    · split at hs <;> (injection hs with hs; subst hs; exact ho)
    · simp at hs
  | shutdown =>
    simp only [step] at hs
    injection hs with hs; subst hs; exact ho

theorem outcome_run (cfg : Cfg) (hser : cfg.serialised = true) (w : Nat) (o : Nat × Bool) :
    ∀ (bs : List Act) (s s' : St), Inv cfg s → (s.pc w).outcome = some o → run cfg s bs = some s' →
      (s'.pc w).outcome = some o
  | [], s, s', _, ho, hr => by simp [run] at hr; subst hr; exact ho
  | a :: bs, s, s', inv, ho, hr => by
    simp only [run] at hr
    split at hr
    · rename_i s1 hs1
      exact outcome_run cfg hser w o bs s1 s' (inv_step cfg hser s s1 a inv hs1) (outcome_step cfg s s1 a inv w o ho hs1) hr
    · simp at hr

end Writer
