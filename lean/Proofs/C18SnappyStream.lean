import Proofs.C18Snappy
/-! C18 helper: the snappy decoder computes the LZ77 meaning of EVERY well-formed element stream —
    whatever encoder chose the elements (golang/snappy's matcher emits literals of at most 65536 bytes,
    1-byte-offset copies of 4..11 bytes below offset 2048 and 2-byte-offset copies of 1..64 bytes). -/
namespace Compress

/-- an element as an encoder means it -/
inductive SnapEl
  | lit (bs : Bytes)
  | copy (offset length : Nat)

/-- what an element does to the output (LZ77 semantics; a copy may overlap what it writes) -/
def SnapEl.apply (out : Array UInt8) : SnapEl → Array UInt8
  | .lit bs => out ++ bs.toArray
  | .copy off len => copyFwd off len out

def snapInterp (es : List SnapEl) (out : Array UInt8) : Array UInt8 := es.foldl SnapEl.apply out

/-- well-formed at output position `d`: literal of 1..65536 bytes; copy of 1..64 bytes from 1..min(d,65535) back -/
def SnapEl.wf (d : Nat) : SnapEl → Prop
  | .lit bs => 1 ≤ bs.length ∧ bs.length ≤ 65536
  | .copy off len => 1 ≤ off ∧ off ≤ d ∧ off < 65536 ∧ 1 ≤ len ∧ len ≤ 64

def SnapEl.size : SnapEl → Nat
  | .lit bs => bs.length
  | .copy _ len => len

def snapWF : Nat → List SnapEl → Prop
  | _, [] => True
  | d, e :: es => e.wf d ∧ snapWF (d + e.size) es

/-- the bytes of an element: shortest literal header; the 1-byte-offset copy when it applies -/
def SnapEl.ser : SnapEl → Bytes
  | .lit bs =>
    let n := bs.length - 1
    (if n < 60 then [UInt8.ofNat (n * 4)]
     else if n < 256 then [0xF0, UInt8.ofNat n]
     else [0xF4, UInt8.ofNat (n % 256), UInt8.ofNat (n / 256)]) ++ bs
  | .copy off len =>
    if 4 ≤ len ∧ len ≤ 11 ∧ off < 2048 then
      [UInt8.ofNat (1 + (len - 4) * 4 + (off / 256) * 32), UInt8.ofNat (off % 256)]
    else [UInt8.ofNat (2 + (len - 1) * 4), UInt8.ofNat (off % 256), UInt8.ofNat (off / 256)]

def snapSer (es : List SnapEl) : Bytes := es.flatMap SnapEl.ser

theorem copyFwd_size (off : Nat) : ∀ (k : Nat) (out : Array UInt8), (copyFwd off k out).size = out.size + k := by
  intro k
  induction k with
  | zero => intro out; rfl
  | succ k ih => intro out; simp [copyFwd, ih]; omega

theorem SnapEl.apply_size (out : Array UInt8) (e : SnapEl) : (e.apply out).size = out.size + e.size := by
  cases e with
  | lit bs => simp [SnapEl.apply, SnapEl.size]
  | copy off len => simp [SnapEl.apply, SnapEl.size, copyFwd_size]

theorem snapInterp_size_ge (es : List SnapEl) : ∀ out : Array UInt8, out.size ≤ (snapInterp es out).size := by
  induction es with
  | nil => intro out; exact Nat.le_refl _
  | cons e es ih =>
    intro out
    have := ih (e.apply out)
    rw [SnapEl.apply_size] at this
    simp only [snapInterp, List.foldl] at this ⊢
    omega

theorem ser_length_pos (e : SnapEl) : 1 ≤ e.ser.length := by
  cases e with
  | lit bs => simp only [SnapEl.ser]; split <;> (try split) <;> simp <;> omega
  | copy off len => simp only [SnapEl.ser]; split <;> simp

/-! #### tags -/

theorem tag_copy1 : ∀ (l : Fin 8) (h : Fin 8),
    (UInt8.ofNat (1 + l.val * 4 + h.val * 32)) &&& 3 = 1 ∧
    ((UInt8.ofNat (1 + l.val * 4 + h.val * 32)) >>> 2).toNat % 8 = l.val ∧
    ((UInt8.ofNat (1 + l.val * 4 + h.val * 32)) &&& 0xe0).toNat * 8 = h.val * 256 := by decide

theorem tag_copy2 : ∀ l : Fin 64,
    (UInt8.ofNat (2 + l.val * 4)) &&& 3 = 2 ∧ ((UInt8.ofNat (2 + l.val * 4)) >>> 2).toNat = l.val := by decide

/-! #### one element -/

theorem snapElem_lit (tag : UInt8) (x k : Nat) (hdr bs rest : Bytes) (n : Nat) (out : Array UInt8)
    (hk : tag &&& 3 = 0) (hhi : ((tag >>> 2).toNat < 60 ∧ k = 0 ∧ x = (tag >>> 2).toNat) ∨
                               (¬ (tag >>> 2).toNat < 60 ∧ k = (tag >>> 2).toNat - 59 ∧ x = leNat hdr))
    (hhdr : hdr.length = k) (hx : x + 1 = bs.length) (hfit : out.size + bs.length ≤ n) :
    snapElem tag (hdr ++ bs ++ rest) n out = some (rest, out ++ bs.toArray) := by
  unfold snapElem
  simp only [hk, if_true]
  rcases hhi with ⟨h60, hk0, hxx⟩ | ⟨h60, hkk, hxx⟩
  · subst hk0
    have : hdr = [] := List.eq_nil_of_length_eq_zero hhdr
    subst this
    simp only [h60, if_true, Nat.not_lt_zero, if_false, List.drop_zero, List.nil_append]
    have hA : ¬ ((tag >>> 2).toNat + 1 > n - out.size ∨ (tag >>> 2).toNat + 1 > (bs ++ rest).length) := by
      rw [← hxx, hx]; simp; omega
    rw [if_neg hA, ← hxx, hx, List.take_left' rfl, List.drop_left' rfl]
  · simp only [h60, if_false]
    rw [← hkk]
    have hl : ¬ (hdr ++ bs ++ rest).length < k := by simp; omega
    rw [if_neg hl]
    have ht : (hdr ++ bs ++ rest).take k = hdr := by rw [List.append_assoc]; exact List.take_left' hhdr
    have hd : (hdr ++ bs ++ rest).drop k = bs ++ rest := by rw [List.append_assoc]; exact List.drop_left' hhdr
    rw [ht, hd, ← hxx]
    have hA : ¬ (x + 1 > n - out.size ∨ x + 1 > (bs ++ rest).length) := by
      rw [hx]; simp; omega
    rw [if_neg hA, hx, List.take_left' rfl, List.drop_left' rfl]

theorem snapElem_copy1 (tag b : UInt8) (off len : Nat) (rest : Bytes) (n : Nat) (out : Array UInt8)
    (hk : tag &&& 3 = 1) (hl : 4 + (tag >>> 2).toNat % 8 = len)
    (ho : (tag &&& 0xe0).toNat * 8 + b.toNat = off)
    (h1 : 1 ≤ off) (h2 : off ≤ out.size) (hfit : out.size + len ≤ n) :
    snapElem tag (b :: rest) n out = some (rest, copyFwd off len out) := by
  unfold snapElem
  have e10 : ((1:UInt8) = 0) = False := by decide
  simp only [hk, e10, if_false, if_true]
  have hlen : ¬ (b :: rest).length < 1 := by simp
  rw [if_neg hlen]
  have hle : leNat ((b :: rest).take 1) = b.toNat := by simp [leNat]
  rw [hle, ho, hl]
  have hA : ¬ (off = 0 ∨ out.size < off ∨ len > n - out.size) := by omega
  rw [if_neg hA]; simp

theorem snapElem_copy2 (tag b0 b1 : UInt8) (off len : Nat) (rest : Bytes) (n : Nat) (out : Array UInt8)
    (hk : tag &&& 3 = 2) (hl : 1 + (tag >>> 2).toNat = len)
    (ho : b0.toNat + 256 * b1.toNat = off)
    (h1 : 1 ≤ off) (h2 : off ≤ out.size) (hfit : out.size + len ≤ n) :
    snapElem tag (b0 :: b1 :: rest) n out = some (rest, copyFwd off len out) := by
  unfold snapElem
  have e20 : ((2:UInt8) = 0) = False := by decide
  have e21 : ((2:UInt8) = 1) = False := by decide
  simp only [hk, e20, e21, if_false, if_true]
  have hlen : ¬ (b0 :: b1 :: rest).length < 2 := by simp
  rw [if_neg hlen]
  have hle : leNat ((b0 :: b1 :: rest).take 2) = b0.toNat + 256 * b1.toNat := by simp [leNat]
  rw [hle, ho, hl]
  have hA : ¬ (off = 0 ∨ out.size < off ∨ len > n - out.size) := by omega
  rw [if_neg hA]; simp

/-- the serialized element, decoded at a position where it is well-formed and fits, does what it means -/
theorem snapElem_ser (e : SnapEl) (rest : Bytes) (n : Nat) (out : Array UInt8)
    (hwf : e.wf out.size) (hfit : out.size + e.size ≤ n) :
    ∃ tag tl, e.ser ++ rest = tag :: tl ∧ snapElem tag tl n out = some (rest, e.apply out) := by
  cases e with
  | lit bs =>
    obtain ⟨h1, h2⟩ := hwf
    simp only [SnapEl.size] at hfit
    simp only [SnapEl.ser, SnapEl.apply]
    by_cases h60 : bs.length - 1 < 60
    · obtain ⟨hk, hh⟩ := tag_lit ⟨bs.length - 1, h60⟩
      simp only at hk hh
      refine ⟨UInt8.ofNat ((bs.length - 1) * 4), bs ++ rest, by simp [h60], ?_⟩
      have := snapElem_lit (UInt8.ofNat ((bs.length - 1) * 4)) (bs.length - 1) 0 [] bs rest n out hk
        (.inl ⟨by rw [hh]; exact h60, rfl, hh.symm⟩) rfl (by omega) hfit
      simpa using this
    · by_cases h256 : bs.length - 1 < 256
      · have hF : (0xF0 : UInt8) &&& 3 = 0 ∧ ((0xF0 : UInt8) >>> 2).toNat = 60 := by decide
        refine ⟨0xF0, UInt8.ofNat (bs.length - 1) :: (bs ++ rest), by simp [h60, h256], ?_⟩
        have hb : (UInt8.ofNat (bs.length - 1)).toNat = bs.length - 1 := by rw [toNat_ofNat8']; omega
        have := snapElem_lit 0xF0 (bs.length - 1) 1 [UInt8.ofNat (bs.length - 1)] bs rest n out hF.1
          (.inr ⟨by rw [hF.2]; omega, by rw [hF.2], by simp [leNat, hb]⟩) rfl (by omega) hfit
        simpa using this
      · have hF : (0xF4 : UInt8) &&& 3 = 0 ∧ ((0xF4 : UInt8) >>> 2).toNat = 61 := by decide
        refine ⟨0xF4, UInt8.ofNat ((bs.length - 1) % 256) :: UInt8.ofNat ((bs.length - 1) / 256) :: (bs ++ rest),
          by simp [h60, h256], ?_⟩
        have hb0 : (UInt8.ofNat ((bs.length - 1) % 256)).toNat = (bs.length - 1) % 256 := by rw [toNat_ofNat8']; omega
        have hb1 : (UInt8.ofNat ((bs.length - 1) / 256)).toNat = (bs.length - 1) / 256 := by rw [toNat_ofNat8']; omega
        have := snapElem_lit 0xF4 (bs.length - 1) 2
          [UInt8.ofNat ((bs.length - 1) % 256), UInt8.ofNat ((bs.length - 1) / 256)] bs rest n out hF.1
          (.inr ⟨by rw [hF.2]; omega, by rw [hF.2], by simp [leNat, hb0, hb1]; omega⟩) rfl (by omega) hfit
        simpa using this
  | copy off len =>
    obtain ⟨h1, h2, h3, h4, h5⟩ := hwf
    simp only [SnapEl.size] at hfit
    simp only [SnapEl.ser, SnapEl.apply]
    by_cases hc1 : 4 ≤ len ∧ len ≤ 11 ∧ off < 2048
    · obtain ⟨ha, hb, hc⟩ := hc1
      have hl8 : len - 4 < 8 := by omega
      have hh8 : off / 256 < 8 := by omega
      obtain ⟨hk, hl, ho⟩ := tag_copy1 ⟨len - 4, hl8⟩ ⟨off / 256, hh8⟩
      simp only at hk hl ho
      refine ⟨UInt8.ofNat (1 + (len - 4) * 4 + (off / 256) * 32), UInt8.ofNat (off % 256) :: rest, by simp [ha, hb, hc], ?_⟩
      have hb0 : (UInt8.ofNat (off % 256)).toNat = off % 256 := by rw [toNat_ofNat8']; omega
      exact snapElem_copy1 _ _ off len rest n out hk (by rw [hl]; omega) (by rw [ho, hb0]; omega) h1 h2 hfit
    · have hl64 : len - 1 < 64 := by omega
      obtain ⟨hk, hl⟩ := tag_copy2 ⟨len - 1, hl64⟩
      simp only at hk hl
      refine ⟨UInt8.ofNat (2 + (len - 1) * 4), UInt8.ofNat (off % 256) :: UInt8.ofNat (off / 256) :: rest, by simp [hc1], ?_⟩
      have hb0 : (UInt8.ofNat (off % 256)).toNat = off % 256 := by rw [toNat_ofNat8']; omega
      have hb1 : (UInt8.ofNat (off / 256)).toNat = off / 256 := by rw [toNat_ofNat8']; omega
      exact snapElem_copy2 _ _ _ off len rest n out hk (by rw [hl]; omega) (by rw [hb0, hb1]; omega) h1 h2 hfit

/-- the element loop on a serialized well-formed stream -/
theorem snapLoop_stream (es : List SnapEl) : ∀ (out : Array UInt8) (n g : Nat), snapWF out.size es →
    (snapInterp es out).size = n → (snapSer es).length < g →
    snapLoop g (snapSer es) n out = .ok (snapInterp es out) := by
  induction es with
  | nil =>
    intro out n g _ hn hg
    cases g with
    | zero => omega
    | succ g => simp [snapInterp] at hn; simp [snapSer, snapLoop, snapInterp, hn]
  | cons e es ih =>
    intro out n g hwf hn hg
    obtain ⟨hwe, hwr⟩ := hwf
    have hsz := SnapEl.apply_size out e
    have hge := snapInterp_size_ge es (e.apply out)
    have hfit : out.size + e.size ≤ n := by
      simp only [snapInterp, List.foldl] at hn hge; omega
    obtain ⟨tag, tl, hser, hel⟩ := snapElem_ser e (snapSer es) n out hwe hfit
    have hcons : snapSer (e :: es) = e.ser ++ snapSer es := by simp [snapSer]
    rw [hcons] at hg ⊢
    rw [hser] at hg ⊢
    cases g with
    | zero => omega
    | succ g =>
      simp only [snapLoop, hel]
      have hlen : (snapSer es).length < g := by
        have h1 := ser_length_pos e
        have h2 : (tag :: tl).length = e.ser.length + (snapSer es).length := by rw [← hser]; simp
        simp at hg h2; omega
      have := ih (e.apply out) n g (by rw [hsz]; exact hwr) (by simpa [snapInterp] using hn) hlen
      simpa [snapInterp] using this

/-- **the decoder computes the meaning of every well-formed stream** -/
theorem snappyDecode_stream (es : List SnapEl) (hwf : snapWF 0 es)
    (hlen : (snapInterp es #[]).size ≤ 0xffffffff) :
    snappyDecode (putUvarint 4 (snapInterp es #[]).size ++ snapSer es) = .ok (snapInterp es #[]).toList := by
  have hu : uvarint (putUvarint 4 (snapInterp es #[]).size ++ snapSer es) = some ((snapInterp es #[]).size, snapSer es) := by
    have := uvarintGo_put 4 0 1 0 (snapInterp es #[]).size (snapSer es) (by
      have : (128:Nat) ^ (4 + 1) = 34359738368 := by decide
      rw [this]; omega) (by omega)
    simpa [uvarint] using this
  have hl := snapLoop_stream es #[] (snapInterp es #[]).size ((snapSer es).length + 1) (by simpa using hwf) rfl (by omega)
  have hgt : ¬ (snapInterp es #[]).size > 0xffffffff := by omega
  simp [snappyDecode, snappyDecodedLen, hu, hgt, hl]

end Compress
