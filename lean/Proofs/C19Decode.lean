import Model.UuidDecode
import Proofs.C19Parse
/-! helper lemmas for C19: the decoding entry points and their destination (Model/UuidDecode.lean) -/
namespace Uuid


def orNibs (u : List UInt8) (j : Nat) : List Nat → List UInt8
  | [] => u
  | d :: ds => orNibs (orNibble u j d) (j + 1) ds

theorem nib_pack : ∀ hi lo : Fin 16,
    (UInt8.ofNat hi.val <<< UInt8.ofNat 4) ||| (UInt8.ofNat lo.val <<< UInt8.ofNat 0) = UInt8.ofNat (hi.val * 16 + lo.val) := by
  decide

theorem or_nibbles (b : UInt8) (hi lo : Nat) (h1 : hi < 16) (h2 : lo < 16) :
    (b ||| (UInt8.ofNat hi <<< UInt8.ofNat 4)) ||| (UInt8.ofNat lo <<< UInt8.ofNat 0) = b ||| UInt8.ofNat (hi * 16 + lo) := by
  rw [UInt8.or_assoc]
  have := nib_pack ⟨hi, h1⟩ ⟨lo, h2⟩
  simp only at this
  rw [this]

theorem orNibble_even (pre suf : List UInt8) (b : UInt8) (d : Nat) :
    orNibble (pre ++ b :: suf) (2 * pre.length) d = pre ++ (b ||| (UInt8.ofNat d <<< UInt8.ofNat 4)) :: suf := by
  have e : 2 * pre.length / 2 = pre.length := by omega
  have e2 : 2 * pre.length % 2 = 0 := by omega
  simp [orNibble, byteAt, e, e2]

theorem orNibble_odd (pre suf : List UInt8) (b : UInt8) (d : Nat) :
    orNibble (pre ++ b :: suf) (2 * pre.length + 1) d = pre ++ (b ||| (UInt8.ofNat d <<< UInt8.ofNat 0)) :: suf := by
  have e : (2 * pre.length + 1) / 2 = pre.length := by omega
  have e2 : (2 * pre.length + 1) % 2 = 1 := by omega
  simp [orNibble, byteAt, e, e2]

theorem orNibs_pack (suf : List UInt8) : ∀ (pre : List UInt8) (ds : List Nat),
    ds.length = 2 * suf.length → (∀ d ∈ ds, d < 16) →
    orNibs (pre ++ suf) (2 * pre.length) ds = pre ++ orBytes suf (pack ds) := by
  induction suf with
  | nil =>
    intro pre ds hl _
    have : ds = [] := by cases ds <;> simp_all
    subst this; simp [orNibs, orBytes]
  | cons b suf ih =>
    intro pre ds hl hd
    match ds, hl, hd with
    | hi :: lo :: ds', hl, hd =>
      have h1 : hi < 16 := hd hi (by simp)
      have h2 : lo < 16 := hd lo (by simp)
      simp only [orNibs]
      rw [orNibble_even, orNibble_odd, or_nibbles b hi lo h1 h2]
      have := ih (pre ++ [b ||| UInt8.ofNat (hi * 16 + lo)]) ds' (by simp at hl; omega)
        (fun d hd' => hd d (by simp [hd']))
      simp only [List.length_append, List.length_cons, List.length_nil, List.append_assoc,
        List.cons_append, List.nil_append] at this
      have e : 2 * (pre.length + 1) = 2 * pre.length + 1 + 1 := by omega
      rw [e] at this
      rw [this]
      simp [orBytes, pack]
    | [], hl, _ => simp at hl
    | [_], hl, _ => simp at hl; omega


theorem parseLoop_prefix (s : List Char) (acc r : List Nat) (h : parseLoop s acc = some r) :
    r = acc ++ digitVals s := ((parseLoop_iff s acc r).mp h).2.2.2

theorem option_map_congr {α β} (o : Option α) (f g : α → β) (h : ∀ a, o = some a → f a = g a) :
    o.map f = o.map g := by
  cases o with
  | none => rfl
  | some a => simp [h a rfl]

theorem hexVal_lt (c : Char) (d : Nat) (h : hexVal c = some d) : d < 16 := by
  unfold hexVal at h
  split at h
  · injection h; omega
  · split at h
    · injection h; omega
    · split at h
      · injection h; omega
      · cases h

theorem parseLoop_length (s : List Char) : ∀ (acc r : List Nat), parseLoop s acc = some r → r.length = 32 := by
  induction s with
  | nil => intro acc r h; simp only [parseLoop] at h; split at h <;> simp_all
  | cons c cs ih =>
    intro acc r h
    simp only [parseLoop] at h
    split at h
    · exact ih _ _ h
    · cases hv : hexVal c with
      | none => simp [hv] at h
      | some d =>
        simp only [hv] at h
        split at h
        · exact ih _ _ h
        · cases h

theorem parseLoop_lt (s : List Char) : ∀ (acc r : List Nat), parseLoop s acc = some r →
    (∀ d ∈ acc, d < 16) → ∀ d ∈ r, d < 16 := by
  induction s with
  | nil => intro acc r h; simp only [parseLoop] at h; split at h <;> simp_all
  | cons c cs ih =>
    intro acc r h ha
    simp only [parseLoop] at h
    split at h
    · exact ih _ _ h ha
    · cases hv : hexVal c with
      | none => simp [hv] at h
      | some d =>
        simp only [hv] at h
        split at h
        · refine ih _ _ h ?_
          intro x hx
          rcases List.mem_append.mp hx with hx | hx
          · exact ha x hx
          · simp at hx; subst hx; exact hexVal_lt c _ hv
        · cases h

theorem pack_length : ∀ (n : Nat) (r : List Nat), r.length = 2 * n → (pack r).length = n
  | 0, r, h => by have : r = [] := by cases r <;> simp_all
                  subst this; rfl
  | n + 1, hi :: lo :: r, h => by
      simp only [pack, List.length_cons]
      have := pack_length n r (by simp at h; omega)
      omega
  | n + 1, [], h => by simp at h
  | n + 1, [_], h => by simp at h; omega

theorem orBytes_zero : ∀ (n : Nat) (x : List UInt8), x.length = n → orBytes (List.replicate n 0) x = x
  | 0, x, h => by have : x = [] := by cases x <;> simp_all
                  subst this; rfl
  | n + 1, b :: x, h => by
      have := orBytes_zero n x (by simpa using h)
      simp only [orBytes] at this ⊢
      simp [List.replicate_succ, this]
  | n + 1, [], h => by simp at h


theorem parseLoopArr_eq (s : List Char) : ∀ (u : List UInt8) (acc : List Nat),
    parseLoopArr s u acc.length = (parseLoop s acc).map (fun r => orNibs u acc.length (r.drop acc.length)) := by
  induction s with
  | nil =>
    intro u acc
    simp only [parseLoopArr, parseLoop]
    split <;> simp [orNibs]
  | cons c cs ih =>
    intro u acc
    simp only [parseLoopArr, parseLoop]
    split
    · exact ih u acc
    · cases hv : hexVal c with
      | none => simp
      | some d =>
        simp only
        split
        · have := ih (orNibble u acc.length d) (acc ++ [d])
          simp only [List.length_append, List.length_cons, List.length_nil, Nat.zero_add] at this
          rw [this]
          apply option_map_congr
          intro r hr
          have hp := parseLoop_prefix _ _ _ hr
          subst hp
          simp [orNibs]
        · simp


/-- the loop invariant of `ParseUUID`'s OR-accumulation, for an arbitrary initial array -/
theorem parseLoopArr_or (dst : List UInt8) (hd : dst.length = 16) (s : List Char) :
    parseLoopArr s dst 0 = (parse s).map (orBytes dst) := by
  have := parseLoopArr_eq s dst []
  simp only [List.length_nil, List.drop_zero] at this
  rw [this, parse, Option.map_map]
  apply option_map_congr
  intro r hr
  have hl := parseLoop_length _ _ _ hr
  have hlt := parseLoop_lt _ _ _ hr (by simp)
  have := orNibs_pack dst [] r (by omega) hlt
  simpa using this

theorem parseUUID_eq_parse (s : List Char) : parseUUID s = parse s := by
  rw [parseUUID, parseLoopArr_or zero16 (by simp [zero16]) s, parse, Option.map_map]
  have : (parseLoop s []).map (fun r => pack r) = (parseLoop s []).map pack := rfl
  rw [← this]
  apply option_map_congr
  intro r hr
  have hl := parseLoop_length _ _ _ hr
  exact orBytes_zero 16 _ (pack_length 16 r (by omega))

/-! ### print is ASCII; quotes and Trim -/


theorem hexDigit_ascii : ∀ n : Fin 16, (hexDigit n.val).toNat < 128 ∧ UInt8.ofNat (hexDigit n.val).toNat ≠ 34 := by decide

theorem rune_ascii (c : Char) (h : c.toNat < 128) :
    (if (UInt8.ofNat c.toNat).toNat < 128 then Char.ofNat (UInt8.ofNat c.toNat).toNat else Char.ofNat 0xFFFD) = c := by
  have e : (UInt8.ofNat c.toNat).toNat = c.toNat := by simp [UInt8.toNat_ofNat']; omega
  rw [e, if_pos h]
  exact Char.ofNat_toNat c

theorem runes_asciiBytes (s : List Char) (h : ∀ c ∈ s, c.toNat < 128) : runes (asciiBytes s) = s := by
  induction s with
  | nil => rfl
  | cons c cs ih =>
    simp only [runes, asciiBytes, List.map_cons, List.map_map] at ih ⊢
    rw [rune_ascii c (h c (by simp))]
    congr 1
    exact ih (fun c hc => h c (by simp [hc]))

theorem hexBytes_ascii (bs : List UInt8) : ∀ c ∈ hexBytes bs, c.toNat < 128 := by
  induction bs with
  | nil => simp [hexBytes]
  | cons b bs ih =>
    intro c hc
    have hb := b.toNat_lt
    simp only [hexBytes, hexByte, List.cons_append, List.nil_append, List.mem_cons] at hc
    rcases hc with rfl | rfl | hc
    · exact (hexDigit_ascii ⟨b.toNat / 16, by omega⟩).1
    · exact (hexDigit_ascii ⟨b.toNat % 16, by omega⟩).1
    · exact ih c hc

theorem print_ascii (u : List UInt8) : ∀ c ∈ print u, c.toNat < 128 := by
  intro c hc
  simp only [print, List.mem_append, List.mem_cons] at hc
  rcases hc with (((hc | hc | hc) | hc | hc) | hc | hc) | hc | hc
  all_goals first | exact hexBytes_ascii _ c hc | (subst hc; decide)

theorem runes_print (u : List UInt8) : runes (asciiBytes (print u)) = print u :=
  runes_asciiBytes _ (print_ascii u)

theorem trimRightQ_snoc (xs : List UInt8) (z : UInt8) (hz : z ≠ 34) : trimRightQ (xs ++ [z]) = xs ++ [z] := by
  induction xs with
  | nil => simp [trimRightQ, hz]
  | cons x xs ih =>
    simp only [List.cons_append, trimRightQ, ih]
    cases h : xs ++ [z] with
    | nil => simp at h
    | cons a b => rfl

theorem trimRightQ_snoc_q (xs : List UInt8) : trimRightQ (xs ++ [34]) = trimRightQ xs := by
  induction xs with
  | nil => simp [trimRightQ]
  | cons x xs ih => simp only [List.cons_append, trimRightQ, ih]


theorem trimQuotes_quoted (l : List UInt8) (hne : l ≠ []) (hh : l.head hne ≠ 34) (hl : l.getLast hne ≠ 34) :
    trimQuotes (34 :: l ++ [34]) = l ∧ trimQuotes l = l := by
  have e : l = l.dropLast ++ [l.getLast hne] := (List.dropLast_concat_getLast hne).symm
  have tr : trimRightQ l = l := by rw [e]; exact trimRightQ_snoc _ _ hl
  cases l with
  | nil => exact absurd rfl hne
  | cons a t =>
    simp only [List.head_cons] at hh
    constructor
    · simp only [trimQuotes, List.cons_append, trimLeftQ, if_neg hh, if_true]
      rw [← List.cons_append, trimRightQ_snoc_q, tr]
    · simp only [trimQuotes, trimLeftQ, if_neg hh, tr]

theorem print_bytes_facts (u : List UInt8) (h : u.length = 16) :
    ∃ hne : asciiBytes (print u) ≠ [], (asciiBytes (print u)).head hne ≠ 34 ∧
      (asciiBytes (print u)).getLast hne ≠ 34 ∧ (asciiBytes (print u)).length = 36 := by
  obtain ⟨b0, b1, b2, b3, b4, b5, b6, b7, b8, b9, b10, b11, b12, b13, b14, b15, rfl⟩ := list16 u h
  have h0 := b0.toNat_lt
  have h15 := b15.toNat_lt
  refine ⟨by simp [print, hexBytes, hexByte, asciiBytes], ?_, ?_, ?_⟩
  · simp only [print, hexBytes, hexByte, asciiBytes, List.take, List.drop, List.cons_append, List.nil_append,
      List.map_cons, List.head_cons]
    exact (hexDigit_ascii ⟨b0.toNat / 16, by omega⟩).2
  · simp [print, hexBytes, hexByte, asciiBytes]
    exact (hexDigit_ascii ⟨b15.toNat % 16, by omega⟩).2
  · simp [print, hexBytes, hexByte, asciiBytes]

end Uuid
