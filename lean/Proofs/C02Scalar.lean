import Proofs.C02Big
/-!
# C02 — scalar columns: Marshal then Unmarshal into the same Go type gives back the value (helpers)

Per-kind round trips over the model's `marshalScalar` / `unmarshalScalar` (Model/Marshal.lean, MarshalDecode.lean), each for
ALL values of the kind.  `SRT t ty g`: whatever `marshalScalar t g` returns without error, `unmarshalScalar` of it into
a fresh value of type `ty` is `g`.
-/
namespace C02Scalar
open ValueSpec Marshal C12Bytes C12Int C12Varint C12Scalar C12 C02Cross C02Big

/-- the same-type round trip of a scalar column, on the model -/
def SRT (t : CqlTy) (ty : GoTy) (g : GoVal) : Prop :=
  ∀ ob, marshalScalar t g = .ok ob → unmarshalScalar t ob.isNone (dataBytes ob) ty = .ok g

/-! ## byte-level facts -/

theorem decInt_encInt' (x : Int) : decInt (encInt x) = toS 32 x := C12Frame.decInt_encInt x

theorem decBigInt_encBigInt (x : Int) : decBigInt (encBigInt x) = toS 64 x := by
  rw [encBigInt_eq]
  simp [decBigInt, tcEnc, beBytes, byteOfNat, toS]; omega

theorem encInt_length (x : Int) : (encInt x).length = 4 := rfl
theorem encBigInt_length (x : Int) : (encBigInt x).length = 8 := rfl
theorem encBigInt_ne_nil (x : Int) : encBigInt x ≠ [] := by simp [encBigInt]
theorem encInt_ne_nil (x : Int) : encInt x ≠ [] := by simp [encInt]

theorem toS64_fits (x : Int) (h : fitsS 8 x = true) : toS 64 x = x := toS64_id x h

theorem toS32_fits (x : Int) (h : fitsS 4 x = true) : toS 32 x = x := by
  simp [fitsS, leB_iff, ltB_iff] at h
  simp [toS]; omega

theorem toU32_toS32 (x : Nat) (h : x < 2^32) : (toU 32 (toS 32 (toS 32 (x:Int)))).toNat = x := by
  simp [toS, toU]; omega

theorem toU64_toS64 (x : Nat) (h : x < 2^64) : (toU 64 (toS 64 (toS 64 (x:Int)))).toNat = x := by
  simp [toS, toU]; omega

theorem beNat_encInt (y : Int) : (beNat (encInt y) : Int) = y % 4294967296 := by
  rw [encInt_eq, tcEnc, beNat_beBytes]
  have h : (256:Int)^4 = 4294967296 := by decide
  have h' : (256:Nat)^4 = 4294967296 := by decide
  rw [h, h']
  omega

/-! ## the equations of the model used below (all by computation) -/

def isTextual (t : CqlTy) : Prop := t = .ascii ∨ t = .text ∨ t = .varchar ∨ t = .blob
def isUuid (t : CqlTy) : Prop := t = .uuid ∨ t = .timeuuid

theorem ms_text (t : CqlTy) (ht : isTextual t) (g : GoVal) : marshalScalar t g = marshalVarcharColumn g := by
  rcases ht with rfl | rfl | rfl | rfl <;> rfl
theorem us_text_str (t : CqlTy) (ht : isTextual t) (isNil : Bool) (d : Bytes) (named : Bool) :
    unmarshalScalar t isNil d (.str named) = .ok (.str named d) := by
  rcases ht with rfl | rfl | rfl | rfl <;> rfl
theorem us_text_bytes (t : CqlTy) (ht : isTextual t) (isNil : Bool) (d : Bytes) :
    unmarshalScalar t isNil d (.bytes false) = .ok (if d = [] then .bytes false true [] else .bytes false false d) := by
  rcases ht with rfl | rfl | rfl | rfl <;> rfl
theorem us_text_nbytes (t : CqlTy) (ht : isTextual t) (isNil : Bool) (d : Bytes) :
    unmarshalScalar t isNil d (.bytes true) = .ok (if isNil then .bytes true true [] else .bytes true false d) := by
  rcases ht with rfl | rfl | rfl | rfl <;> rfl
theorem us_bool (isNil : Bool) (d : Bytes) (named : Bool) :
    unmarshalScalar .boolean isNil d (.bool named) = .ok (.bool named (decBool d)) := rfl
theorem ms_f32 (named : Bool) (x : Nat) :
    marshalScalar .float (.f32 named x) = .ok (some (encInt (toS 32 (if named then quiet32 x else x)))) := rfl
theorem us_f32 (isNil : Bool) (d : Bytes) (named : Bool) :
    unmarshalScalar .float isNil d (.f32 named) = .ok (.f32 named (quiet32If named (toU 32 (decInt d)).toNat)) := rfl
theorem ms_f64 (named : Bool) (x : Nat) : marshalScalar .double (.f64 named x) = .ok (some (encBigInt (toS 64 x))) := rfl
theorem us_f64 (isNil : Bool) (d : Bytes) (named : Bool) :
    unmarshalScalar .double isNil d (.f64 named) = .ok (.f64 named (toU 64 (decBigInt d)).toNat) := rfl
theorem ms_varint_big (v : Int) : marshalScalar .varint (.big v) = .ok (some (marshalVarintBig v)) := rfl
theorem us_varint_big (isNil : Bool) (d : Bytes) : unmarshalScalar .varint isNil d .big = .ok (.big (decBigInt2C d)) := rfl
theorem ms_bigcol (t : CqlTy) (ht : t = .bigint ∨ t = .counter) (g : GoVal) : marshalScalar t g = marshalIntColumn .big g := by
  rcases ht with rfl | rfl <;> rfl
theorem us_bigcol (t : CqlTy) (ht : t = .bigint ∨ t = .counter) (isNil : Bool) (d : Bytes) (ty : GoTy) :
    unmarshalScalar t isNil d ty = unmarshalIntlike .big (decBigInt d) d ty := by
  rcases ht with rfl | rfl <;> rfl
theorem ms_decimal (u s : Int) : marshalScalar .decimal (.dec u s) = .ok (some (encInt (toS 32 s) ++ encBigInt2C u)) := rfl
theorem us_decimal (isNil : Bool) (d : Bytes) :
    unmarshalScalar .decimal isNil d .dec =
      if d.length < 4 then .err else .ok (.dec (decBigInt2C (d.drop 4)) (decInt (d.take 4))) := rfl
theorem ms_time_i64 (named : Bool) (v : Int) : marshalScalar .time (.int .int64 named v) = .ok (some (encBigInt v)) := rfl
theorem ms_time_dur (v : Int) : marshalScalar .time (.dur v) = .ok (some (encBigInt v)) := rfl
theorem us_time_i64 (isNil : Bool) (d : Bytes) (named : Bool) :
    unmarshalScalar .time isNil d (.int .int64 named) = .ok (.int .int64 named (decBigInt d)) := rfl
theorem us_time_dur (isNil : Bool) (d : Bytes) : unmarshalScalar .time isNil d .dur = .ok (.dur (decBigInt d)) := rfl
theorem ms_ts_i64 (named : Bool) (v : Int) : marshalScalar .timestamp (.int .int64 named v) = .ok (some (encBigInt v)) := rfl
theorem ms_ts_dur (v : Int) : marshalScalar .timestamp (.dur v) = .ok (some (encBigInt v)) := rfl
theorem us_ts_i64 (isNil : Bool) (d : Bytes) (named : Bool) :
    unmarshalScalar .timestamp isNil d (.int .int64 named) = .ok (.int .int64 named (decBigInt d)) := rfl
theorem us_ts_dur (isNil : Bool) (d : Bytes) : unmarshalScalar .timestamp isNil d .dur = .ok (.dur (decBigInt d)) := rfl
theorem ms_ts_time (sec nsec : Int) : marshalScalar .timestamp (.time sec nsec) =
    if timeIsZero sec nsec then .ok (some []) else .ok (some (encBigInt (timeMillis sec nsec))) := rfl
theorem us_ts_time (isNil : Bool) (d : Bytes) : unmarshalScalar .timestamp isNil d .time =
    if d = [] then .ok (.time zeroTimeSec 0) else .ok (.time (timeOfMillis (decBigInt d)).1 (timeOfMillis (decBigInt d)).2) := rfl
theorem ms_date_time (sec nsec : Int) : marshalScalar .date (.time sec nsec) =
    if timeIsZero sec nsec then .ok (some []) else marshalDateMillis (timeMillis sec nsec) := rfl
theorem us_date_time (isNil : Bool) (d : Bytes) : unmarshalScalar .date isNil d .time =
    if d = [] then .ok (.time zeroTimeSec 0) else if d.length < 4 then .err
    else .ok (.time (((beNat (d.take 4) : Int) - 2147483648) * 86400) 0) := rfl
theorem ms_uuid (t : CqlTy) (ht : isUuid t) (b : Bytes) : marshalScalar t (.uuid b) = .ok (some b) := by
  rcases ht with rfl | rfl <;> rfl
theorem ms_arr16 (t : CqlTy) (ht : isUuid t) (b : Bytes) : marshalScalar t (.arr16 b) = .ok (some b) := by
  rcases ht with rfl | rfl <;> rfl
theorem us_uuid (t : CqlTy) (ht : isUuid t) (isNil : Bool) (d : Bytes) : unmarshalScalar t isNil d .uuid =
    if d = [] then .ok (.uuid (List.replicate 16 0)) else if d.length ≠ 16 then .err else .ok (.uuid d) := by
  have h1 : (GoTy.uuid == GoTy.time) = false := rfl
  rcases ht with rfl | rfl <;> (unfold unmarshalScalar; simp [h1])
theorem us_arr16 (t : CqlTy) (ht : isUuid t) (isNil : Bool) (d : Bytes) : unmarshalScalar t isNil d .arr16 =
    if d = [] then .err else if d.length ≠ 16 then .err else .ok (.arr16 d) := by
  have h1 : (GoTy.arr16 == GoTy.time) = false := rfl
  rcases ht with rfl | rfl <;> (unfold unmarshalScalar; simp [h1])
theorem ms_inet (b : Bytes) : marshalScalar .inet (.ip b) =
    (match ipTo4 b with | some v4 => .ok (some v4) | none => if b = [] then .ok none else optM (ipTo16 b)) := rfl
theorem us_inet (isNil : Bool) (d : Bytes) : unmarshalScalar .inet isNil d .ip =
    if d.length ≠ 4 ∧ d.length ≠ 16 then .err else (match ipTo4 d with | some v4 => .ok (.ip v4) | none => .ok (.ip d)) := rfl

theorem ok_inj {a b : Option Bytes} (h : MRes.ok a = MRes.ok b) : a = b := by injection h

/-! ## text / blob -/

theorem srt_str (t : CqlTy) (ht : isTextual t) (named : Bool) (s : Bytes) : SRT t (.str named) (.str named s) := by
  intro ob h
  rw [ms_text t ht] at h
  have := ok_inj h; subst this
  exact us_text_str t ht _ _ named

theorem srt_bytes (t : CqlTy) (ht : isTextual t) (b : Bytes) (hb : b ≠ []) :
    SRT t (.bytes false) (.bytes false false b) := by
  intro ob h
  rw [ms_text t ht] at h
  have := ok_inj h; subst this
  rw [us_text_bytes t ht]
  simp [dataBytes, hb]

theorem srt_named_bytes (t : CqlTy) (ht : isTextual t) (b : Bytes) : SRT t (.bytes true) (.bytes true false b) := by
  intro ob h
  rw [ms_text t ht] at h
  have := ok_inj h; subst this
  rw [us_text_nbytes t ht]
  simp [dataBytes]

/-- a nil []byte is null and null is a nil []byte -/
theorem srt_nil_bytes (t : CqlTy) (ht : isTextual t) (named : Bool) : SRT t (.bytes named) (.bytes named true []) := by
  intro ob h
  rw [ms_text t ht] at h
  have := ok_inj h; subst this
  cases named
  · rw [us_text_bytes t ht]; simp [dataBytes]
  · rw [us_text_nbytes t ht]; simp

/-! ## boolean, float, double — every bit pattern -/

theorem srt_bool (named b : Bool) : SRT .boolean (.bool named) (.bool named b) := by
  intro ob h
  have := ok_inj h; subst this
  rw [us_bool]
  cases b <;> simp [dataBytes, encBool, decBool]

/-- all 2^32 bit patterns of a float32 (−0, subnormals, infinities, every NaN payload); a NAMED float32 passes through
    float64 (`float32(rv.Float())`), which quiets a signalling NaN: `quiet32 x = x` excludes exactly those -/
theorem srt_f32 (named : Bool) (x : Nat) (hx : x < 2^32) (hq : named = true → quiet32 x = x) :
    SRT .float (.f32 named) (.f32 named x) := by
  intro ob h
  have hm : marshalScalar .float (.f32 named x) = .ok (some (encInt (toS 32 (x:Int)))) := by
    cases named
    · rfl
    · rw [ms_f32]; simp [hq rfl]
  rw [hm] at h
  have := ok_inj h; subst this
  rw [us_f32]
  simp only [dataBytes, Option.getD, decInt_encInt', toU32_toS32 x hx, quiet32If]
  cases named <;> simp_all

/-- all 2^64 bit patterns of a float64 -/
theorem srt_f64 (named : Bool) (x : Nat) (hx : x < 2^64) : SRT .double (.f64 named) (.f64 named x) := by
  intro ob h
  rw [ms_f64] at h
  have := ok_inj h; subst this
  rw [us_f64]
  simp only [dataBytes, Option.getD, decBigInt_encBigInt, toU64_toS64 x hx]

/-! ## varint ↔ *big.Int, decimal ↔ *inf.Dec — arbitrary precision -/

theorem srt_varint_big (v : Int) : SRT .varint .big (.big v) := by
  intro ob h
  rw [ms_varint_big] at h
  have := ok_inj h; subst this
  rw [us_varint_big]
  simp [dataBytes, marshalVarintBig_spec, decBigInt2C_specVarint]

/-- a big.Int in a bigint / counter column: the numbers of int64 come back, the others are refused -/
theorem srt_bigint_big (t : CqlTy) (ht : t = .bigint ∨ t = .counter) (v : Int) : SRT t .big (.big v) := by
  intro ob h
  rw [ms_bigcol t ht] at h
  rw [us_bigcol t ht]
  simp only [marshalIntColumn] at h
  by_cases hr : (-9223372036854775808 ≤ v ∧ v < 9223372036854775808)
  · have hb : (leB (-9223372036854775808) v && ltB v 9223372036854775808) = true := by
      simp [leB, ltB, hr.1, hr.2]
    simp only [hb, if_true] at h
    have := ok_inj h; subst this
    have hf : fitsS 8 v = true := by simp [fitsS, leB_iff, ltB_iff]; omega
    simp only [unmarshalIntlike, dataBytes, Option.getD, decBigInt2C_eq_tcDec, encBigInt_eq]
    rw [tcDec_tcEnc 8 v (by decide) hf]
  · have hb : (leB (-9223372036854775808) v && ltB v 9223372036854775808) = false := by
      simp only [leB, ltB, Bool.and_eq_false_iff, decide_eq_false_iff_not]
      omega
    simp [hb] at h

/-- every unscaled value, every scale of int32 -/
theorem srt_decimal (u s : Int) (hs : fitsS 4 s = true) : SRT .decimal .dec (.dec u s) := by
  intro ob h
  rw [ms_decimal] at h
  have := ok_inj h; subst this
  have hl : ¬ (encInt (toS 32 s) ++ encBigInt2C u).length < 4 := by simp [encInt_length]
  have hd : (encInt (toS 32 s) ++ encBigInt2C u).drop 4 = encBigInt2C u := by
    simp [encInt]
  have ht : (encInt (toS 32 s) ++ encBigInt2C u).take 4 = encInt (toS 32 s) := by
    simp [encInt]
  rw [us_decimal]
  have e : dataBytes (some (encInt (toS 32 s) ++ encBigInt2C u)) = encInt (toS 32 s) ++ encBigInt2C u := rfl
  rw [e, if_neg hl, hd, ht, decBigInt2C_encBigInt2C, decInt_encInt', toS32_fits s hs, toS32_fits s hs]

/-! ## time, timestamp, date -/

theorem srt_time_int64 (named : Bool) (v : Int) (hv : fitsS 8 v = true) :
    SRT .time (.int .int64 named) (.int .int64 named v) := by
  intro ob h
  rw [ms_time_i64] at h
  have := ok_inj h; subst this
  rw [us_time_i64]
  simp only [dataBytes, Option.getD, decBigInt_encBigInt, toS64_fits v hv]

theorem srt_time_dur (v : Int) (hv : fitsS 8 v = true) : SRT .time .dur (.dur v) := by
  intro ob h
  rw [ms_time_dur] at h
  have := ok_inj h; subst this
  rw [us_time_dur]
  simp only [dataBytes, Option.getD, decBigInt_encBigInt, toS64_fits v hv]

theorem srt_timestamp_int64 (named : Bool) (v : Int) (hv : fitsS 8 v = true) :
    SRT .timestamp (.int .int64 named) (.int .int64 named v) := by
  intro ob h
  rw [ms_ts_i64] at h
  have := ok_inj h; subst this
  rw [us_ts_i64]
  simp only [dataBytes, Option.getD, decBigInt_encBigInt, toS64_fits v hv]

theorem srt_timestamp_dur (v : Int) (hv : fitsS 8 v = true) : SRT .timestamp .dur (.dur v) := by
  intro ob h
  rw [ms_ts_dur] at h
  have := ok_inj h; subst this
  rw [us_ts_dur]
  simp only [dataBytes, Option.getD, decBigInt_encBigInt, toS64_fits v hv]

/-- Go's truncating division by 1000 -/
theorem goDiv_1000 (x : Int) : goDiv x 1000 = if 0 ≤ x ∨ x % 1000 = 0 then x / 1000 else x / 1000 + 1 := by
  unfold goDiv
  simp only [Int.tdiv_eq_ediv]
  have hs : Int.sign 1000 = 1 := by decide
  by_cases h0 : 0 ≤ x
  · simp [h0]
  · by_cases hd : (1000:Int) ∣ x
    · have := Int.emod_eq_zero_of_dvd hd
      simp [hd, this]
    · have hm : x % 1000 ≠ 0 := fun h => hd (Int.dvd_of_emod_eq_zero h)
      simp [h0, hd, hs, hm]

/-- unmarshalTimestamp inverts the millisecond count of an instant with whole milliseconds — before 1970 as well
    (truncating division, negative remainder, normalisation by time.Unix) -/
theorem timeOfMillis_exact (sec nsec : Int) (hn : 0 ≤ nsec ∧ nsec < 1000000000) (hms : nsec % 1000000 = 0) :
    timeOfMillis (exactMillis sec nsec) = (sec, nsec) := by
  unfold timeOfMillis exactMillis
  simp only [goDiv_1000]
  split
  · have : (sec * 1000 + nsec / 1000000) / 1000 = sec := by omega
    rw [this]
    ext <;> simp <;> omega
  · rename_i hneg
    have : (sec * 1000 + nsec / 1000000) / 1000 = sec := by omega
    rw [this]
    ext <;> simp <;> omega

/-- a time.Time with whole milliseconds whose millisecond count is an int64 (years ≈ −292275055 … 292278994), the zero
    time.Time included (↦ the empty value ↦ the zero time.Time) -/
theorem srt_timestamp_time (sec nsec : Int) (hn : 0 ≤ nsec ∧ nsec < 1000000000) (hms : nsec % 1000000 = 0)
    (h1 : fitsS 8 (sec * 1000) = true) (h2 : fitsS 8 (exactMillis sec nsec) = true) :
    SRT .timestamp .time (.time sec nsec) := by
  intro ob h
  rw [ms_ts_time] at h
  rw [us_ts_time]
  split at h
  · rename_i hz
    have := ok_inj h; subst this
    simp [timeIsZero] at hz
    simp [dataBytes, hz.1, hz.2]
  · have := ok_inj h; subst this
    simp only [dataBytes, Option.getD, if_neg (encBigInt_ne_nil _), decBigInt_encBigInt,
      timeMillis_exact sec nsec h1 h2, toS64_fits _ h2, timeOfMillis_exact sec nsec hn hms]

/-- a midnight (UTC) whose day number is in the date range — pre-epoch days included -/
theorem srt_date_time (sec : Int) (hmid : sec % 86400 = 0)
    (h1 : fitsS 8 (sec * 1000) = true) (hrange : fitsU 4 (sec / 86400 + 2147483648) = true) :
    SRT .date .time (.time sec 0) := by
  intro ob h
  rw [ms_date_time] at h
  rw [us_date_time]
  split at h
  · rename_i hz
    have := ok_inj h; subst this
    simp [timeIsZero] at hz
    simp [dataBytes, hz]
  · have hex : exactMillis sec 0 = sec * 1000 := by simp [exactMillis]
    have h2 : fitsS 8 (exactMillis sec 0) = true := by rw [hex]; exact h1
    have hday : daysSinceEpoch (sec * 1000) = sec / 86400 := by rw [daysSinceEpoch_floor]; omega
    rw [timeMillis_exact sec 0 h1 h2, hex, marshalDateMillis, hday, if_pos hrange] at h
    have := ok_inj h; subst this
    simp [fitsU, leB_iff, ltB_iff] at hrange
    have hv : ((beNat (encInt (toS 32 (sec / 86400 + 2147483648))) : Int) - 2147483648) * 86400 = sec := by
      rw [beNat_encInt]
      simp [toS]; omega
    have ht : (encInt (toS 32 (sec / 86400 + 2147483648))).take 4 = encInt (toS 32 (sec / 86400 + 2147483648)) := rfl
    have hl : ¬ (encInt (toS 32 (sec / 86400 + 2147483648))).length < 4 := by simp [encInt_length]
    simp only [dataBytes, Option.getD, encDateMillis, hday,
      if_neg (encInt_ne_nil _), if_neg hl, ht, hv]

/-! ## uuid / timeuuid, inet -/

theorem srt_uuid (t : CqlTy) (ht : isUuid t) (b : Bytes) (hb : b.length = 16) : SRT t .uuid (.uuid b) := by
  intro ob h
  have hne : b ≠ [] := by intro h0; subst h0; simp at hb
  rw [ms_uuid t ht] at h
  have := ok_inj h; subst this
  rw [us_uuid t ht]
  simp [dataBytes, hne, hb]

theorem srt_arr16 (t : CqlTy) (ht : isUuid t) (b : Bytes) (hb : b.length = 16) : SRT t .arr16 (.arr16 b) := by
  intro ob h
  have hne : b ≠ [] := by intro h0; subst h0; simp at hb
  rw [ms_arr16 t ht] at h
  have := ok_inj h; subst this
  rw [us_arr16 t ht]
  simp [dataBytes, hne, hb]

/-- a net.IP of 4 bytes, or of 16 bytes that is not an IPv4-mapped address -/
theorem srt_inet (b : Bytes) (hb : b.length = 4 ∨ (b.length = 16 ∧ ipTo4 b = none)) : SRT .inet .ip (.ip b) := by
  intro ob h
  rw [ms_inet] at h
  rw [us_inet]
  rcases hb with h4 | ⟨h16, hn⟩
  · have h4' : ipTo4 b = some b := by simp [ipTo4, h4]
    rw [h4'] at h
    have := ok_inj h; subst this
    simp [dataBytes, h4, h4']
  · have h16' : ipTo16 b = some b := by simp [ipTo16, h16]
    have hne : b ≠ [] := by intro h0; subst h0; simp at h16
    rw [hn, h16'] at h
    simp only [if_neg hne, optM] at h
    have := ok_inj h; subst this
    simp [dataBytes, h16, hn]

/-- an IPv4-mapped IPv6 address (::ffff:a.b.c.d, 16 bytes) is written as the 4-byte address and comes back as the 4-byte
    net.IP — the same address (`net.IP.Equal`; its 16-byte form is the original), not the same byte slice -/
theorem inet_mapped (b : Bytes) (h16 : b.length = 16) (hz : b.take 10 = List.replicate 10 0) (hf : (b.drop 10).take 2 = [255, 255]) :
    marshalScalar .inet (.ip b) = .ok (some (b.drop 12)) ∧
    unmarshalScalar .inet false (b.drop 12) .ip = .ok (.ip (b.drop 12)) ∧
    ipTo16 (b.drop 12) = some b := by
  have hl : (b.drop 12).length = 4 := by simp [h16]
  have h4 : ipTo4 b = some (b.drop 12) := by
    simp only [ipTo4, h16, hz, hf]
    simp
  have h4' : ipTo4 (b.drop 12) = some (b.drop 12) := by simp [ipTo4, hl]
  refine ⟨by rw [ms_inet, h4], by rw [us_inet]; simp [hl, h4'], ?_⟩
  simp only [ipTo16, hl, if_true]
  congr 1
  have e1 : b = b.take 10 ++ b.drop 10 := (List.take_append_drop 10 b).symm
  have e2 : b.drop 10 = (b.drop 10).take 2 ++ (b.drop 10).drop 2 := (List.take_append_drop 2 _).symm
  have e3 : (b.drop 10).drop 2 = b.drop 12 := by simp [List.drop_drop]
  rw [e3, hf] at e2
  rw [e2, hz] at e1
  simpa [List.append_assoc] using e1.symm

end C02Scalar
