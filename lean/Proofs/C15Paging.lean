import Model.Paging
/-! helper lemmas for C15 -/
namespace Paging
variable {ρ ε : Type}

theorem script_ok (pages : List (List ρ)) (e : ε) (req : Option Nat) (i : Nat) (hreq : req.getD 0 = i)
    (hi : i < pages.length) :
    script pages none e req = .ok (pages[i], if i + 1 < pages.length then some (i + 1) else none) := by
  simp [script, hreq, hi]

/-- consuming the scripted cluster from page `i` on: all remaining rows in order, one request per
    following page carrying exactly the previous page's state, no error, nothing after the last page -/
theorem drain_script (pages : List (List ρ)) (e : ε) (pp : Nat → Nat) :
    ∀ k i, i + k = pages.length → 0 < k → ∀ f, k ≤ f → ∀ req : Option Nat, req.getD 0 = i →
      (drain (script pages none e) pp f (executeQuery (script pages none e) pp false req)).rows = (pages.drop i).flatten ∧
      (drain (script pages none e) pp f (executeQuery (script pages none e) pp false req)).reqs
          = (List.range' (i + 1) (k - 1)).map some ∧
      (drain (script pages none e) pp f (executeQuery (script pages none e) pp false req)).err = none := by
  intro k
  induction k with
  | zero => intro i _ h; omega
  | succ k ih =>
    intro i hik _ f hf req hreq
    have hi : i < pages.length := by omega
    obtain ⟨f', rfl⟩ : ∃ f', f = f' + 1 := ⟨f - 1, by omega⟩
    have hdrop : pages.drop i = pages[i] :: pages.drop (i + 1) := List.drop_eq_getElem_cons hi
    by_cases hlast : i + 1 < pages.length
    · -- more pages
      have hk : 0 < k := by omega
      have hex : executeQuery (script pages none e) pp false req =
          { err := none, pos := 0, rows := pages[i], next := some { req := i + 1, pos := clampPos pp pages[i].length } } := by
        simp [executeQuery, script_ok pages e req i hreq hi, hlast]
      have ih' := ih (i + 1) (by omega) hk f' (by omega) (some (i + 1)) rfl
      rw [hex]
      simp only [drain, List.drop_zero]
      refine ⟨?_, ?_, ih'.2.2⟩
      · rw [ih'.1, hdrop, List.flatten_cons]
      · rw [ih'.2.1]
        have : k + 1 - 1 = (k - 1) + 1 := by omega
        rw [this, List.range'_succ, List.map_cons]
    · -- last page
      have hk : k = 0 := by omega
      subst hk
      have hex : executeQuery (script pages none e) pp false req =
          { err := none, pos := 0, rows := pages[i], next := none } := by
        simp [executeQuery, script_ok pages e req i hreq hi, hlast]
      rw [hex]
      have hd1 : pages.drop (i + 1) = [] := List.drop_eq_nil_of_le (by omega)
      simp [drain, hdrop, hd1]

theorem script_fail (pages : List (List ρ)) (e : ε) (j : Nat) (req : Option Nat) (hreq : req.getD 0 = j) :
    script pages (some j) e req = .error e := by
  simp [script, hreq]

theorem script_ok' (pages : List (List ρ)) (e : ε) (j : Nat) (req : Option Nat) (i : Nat) (hreq : req.getD 0 = i)
    (hi : i < pages.length) (hij : i ≠ j) :
    script pages (some j) e req = .ok (pages[i], if i + 1 < pages.length then some (i + 1) else none) := by
  have : ¬ (j = i) := fun h => hij h.symm
  simp [script, hreq, hi, this]

/-- a failing fetch of page `j`: the rows of the pages before it, then the error -/
theorem drain_script_fail (pages : List (List ρ)) (e : ε) (pp : Nat → Nat) (j : Nat) (hj : j < pages.length) :
    ∀ k i, i + k = j → ∀ f, k + 1 ≤ f → ∀ req : Option Nat, req.getD 0 = i →
      (drain (script pages (some j) e) pp f (executeQuery (script pages (some j) e) pp false req)).rows
          = ((pages.take j).drop i).flatten ∧
      (drain (script pages (some j) e) pp f (executeQuery (script pages (some j) e) pp false req)).reqs
          = (List.range' (i + 1) k).map some ∧
      (drain (script pages (some j) e) pp f (executeQuery (script pages (some j) e) pp false req)).err = some e := by
  intro k
  induction k with
  | zero =>
    intro i hik f hf req hreq
    obtain ⟨f', rfl⟩ : ∃ f', f = f' + 1 := ⟨f - 1, by omega⟩
    have hij : i = j := by omega
    subst hij
    have hex : executeQuery (script pages (some i) e) pp false req =
        { err := some e, pos := 0, rows := [], next := none } := by
      simp [executeQuery, script_fail pages e i req hreq]
    rw [hex]
    have : (pages.take i).drop i = [] := List.drop_eq_nil_of_le (by simp; omega)
    simp [drain, this]
  | succ k ih =>
    intro i hik f hf req hreq
    obtain ⟨f', rfl⟩ : ∃ f', f = f' + 1 := ⟨f - 1, by omega⟩
    have hi : i < pages.length := by omega
    have hlast : i + 1 < pages.length := by omega
    have hex : executeQuery (script pages (some j) e) pp false req =
        { err := none, pos := 0, rows := pages[i], next := some { req := i + 1, pos := clampPos pp pages[i].length } } := by
      simp [executeQuery, script_ok' pages e j req i hreq hi (by omega), hlast]
    have ih' := ih (i + 1) (by omega) f' (by omega) (some (i + 1)) rfl
    have hit : i < (pages.take j).length := by simp; omega
    have hdrop : (pages.take j).drop i = pages[i] :: (pages.take j).drop (i + 1) := by
      rw [List.drop_eq_getElem_cons hit, List.getElem_take]
    rw [hex]
    simp only [drain, List.drop_zero]
    refine ⟨?_, ?_, ih'.2.2⟩
    · rw [ih'.1, hdrop, List.flatten_cons]
    · rw [ih'.2.1, List.range'_succ, List.map_cons]

end Paging
