import Model.Paging
/-! helper lemmas for C15: the model (`run`, `manual`) against the specification (`Spec.*`) for every
    script, and the specification evaluated on well-formed page lists -/
namespace Paging

theorem request_eq (q : Qry) : request q = template q (firstState q) := by
  simp [request, template, firstState]

theorem template_next (q : Qry) (s : Bytes) : template { q with pageState := s } = template q := by
  funext st; simp [template]

theorem firstState_next (q : Qry) (s : Bytes) (hs : s ≠ []) : firstState { q with pageState := s } = some s := by
  have : 0 < s.length := List.length_pos_iff.2 hs
  simp [firstState, this]

theorem prep_eq (c : Bool) (q : Qry) : prep c q = if q.prepared && !c then [Req.prepare] else [] := rfl

/-- rows and final error of the model are the specification's, for EVERY script (empty pages, empty
    paging states, failures and UNPREPARED anywhere), every prefetch position, cached or not -/
theorem run_rows_err (pp : Nat → Nat) : ∀ (script : List Reply) (c : Bool) (q : Qry), q.disableAutoPage = false →
    (run pp script c q).rows = Spec.rows script ∧ (run pp script c q).err = Spec.err script := by
  intro script
  induction script with
  | nil => intro c q _; simp [run, Spec.rows, Spec.err]
  | cons r rest ih =>
    intro c q hq
    cases r with
    | unprepared => simpa [run, Spec.rows, Spec.err] using ih false q hq
    | fail f => simp [run, errIter, Spec.rows, Spec.err]
    | page rows st =>
      cases st with
      | none => simp [run, pageIter, Spec.rows, Spec.err]
      | some s =>
        have h := ih true { q with pageState := s } hq
        rw [hq] at h
        simp [run, pageIter, hq, Spec.rows, Spec.err, h.1, h.2]

/-- the request sequence of the model is the specification's whenever no paging state in the script
    is present-but-empty -/
theorem run_reqs (pp : Nat → Nat) : ∀ (script : List Reply) (c : Bool) (q : Qry), q.disableAutoPage = false →
    NoEmptyState script →
    (run pp script c q).reqs = Spec.reqs (template q) q.prepared script (!c) (firstState q) := by
  intro script
  induction script with
  | nil => intro c q _ _; simp [run, Spec.reqs, prep_eq, request_eq]
  | cons r rest ih =>
    intro c q hq hne
    cases r with
    | unprepared =>
      have h := ih false q hq (by simpa [NoEmptyState] using hne)
      simp [run, Spec.reqs, prep_eq, request_eq, h]
    | fail f => simp [run, Spec.reqs, prep_eq, request_eq]
    | page rows st =>
      cases st with
      | none => simp [run, pageIter, Spec.reqs, prep_eq, request_eq]
      | some s =>
        have hs : s ≠ [] ∧ NoEmptyState rest := by simpa [NoEmptyState] using hne
        have h := ih true { q with pageState := s } hq hs.2
        rw [template_next, firstState_next q s hs.1] at h
        simp only [Bool.not_true] at h
        rw [hq] at h
        simp [run, pageIter, hq, Spec.reqs, prep_eq, request_eq, h]

/-- the manual paging loop (one Iter per page, resumed from PageState()) against the specification -/
theorem manual_spec (pp : Nat → Nat) : ∀ (script : List Reply) (c : Bool) (q : Qry), NoEmptyState script →
    (manual pp script c q).rows = Spec.rows script ∧ (manual pp script c q).err = Spec.err script ∧
    (manual pp script c q).reqs = Spec.reqs (template q) q.prepared script (!c) (firstState q) := by
  intro script
  induction script with
  | nil => intro c q _; simp [manual, Spec.rows, Spec.err, Spec.reqs, prep_eq, request_eq]
  | cons r rest ih =>
    intro c q hne
    cases r with
    | unprepared =>
      have h := ih false q (by simpa [NoEmptyState] using hne)
      simp [manual, Spec.rows, Spec.err, Spec.reqs, prep_eq, request_eq, h.1, h.2.1, h.2.2]
    | fail f => simp [manual, Spec.rows, Spec.err, Spec.reqs, prep_eq, request_eq]
    | page rows st =>
      cases st with
      | none => simp [manual, pageIter, Spec.rows, Spec.err, Spec.reqs, prep_eq, request_eq]
      | some s =>
        have hs : s ≠ [] ∧ NoEmptyState rest := by simpa [NoEmptyState] using hne
        have hl : ¬ s.length = 0 := by
          intro h0; exact hs.1 (List.length_eq_zero_iff.1 h0)
        have h := ih true { q with pageState := s } hs.2
        rw [template_next, firstState_next q s hs.1] at h
        simp only [Bool.not_true] at h
        simp [manual, pageIter, hl, Spec.rows, Spec.err, Spec.reqs, prep_eq, request_eq, h.1, h.2.1, h.2.2]

/-! ### the specification on well-formed page lists -/

/-- `k` pages with has_more_pages (rows, paging state), as replies -/
def morePages (pages : List (List Int × Bytes)) : List Reply := pages.map (fun p => .page p.1 (some p.2))

theorem noEmpty_more (pages : List (List Int × Bytes)) (tail : List Reply)
    (h : ∀ p ∈ pages, p.2 ≠ []) (ht : NoEmptyState tail) : NoEmptyState (morePages pages ++ tail) := by
  induction pages with
  | nil => simpa [morePages] using ht
  | cons p ps ih =>
    have h1 : p.2 ≠ [] := h p (by simp)
    have h2 := ih (fun x hx => h x (by simp [hx]))
    simpa [morePages, NoEmptyState, h1] using h2

theorem spec_rows_more (pages : List (List Int × Bytes)) (tail : List Reply) :
    Spec.rows (morePages pages ++ tail) = (pages.map (·.1)).flatten ++ Spec.rows tail := by
  induction pages with
  | nil => simp [morePages]
  | cons p ps ih => simpa [morePages, Spec.rows, List.append_assoc] using ih

theorem spec_err_more (pages : List (List Int × Bytes)) (tail : List Reply) :
    Spec.err (morePages pages ++ tail) = Spec.err tail := by
  induction pages with
  | nil => simp [morePages]
  | cons p ps ih => simpa [morePages, Spec.err] using ih

/-- requests for `k` pages followed by a reply that ends the iteration (a last page or a failure):
    an optional PREPARE, the first request, then one request per page carrying exactly that page's
    state — `k + 1` requests, nothing else -/
theorem spec_reqs_more (mk : Option Bytes → Req) (prepared : Bool) (pages : List (List Int × Bytes))
    (last : Reply) (tail : List Reply) (hl : (∃ r, last = .page r none) ∨ (∃ f, last = .fail f)) :
    ∀ (needPrep : Bool) (cur : Option Bytes),
    Spec.reqs mk prepared (morePages pages ++ last :: tail) needPrep cur
      = (if prepared && needPrep then [Req.prepare] else []) ++ (cur :: pages.map (fun p => some p.2)).map mk := by
  induction pages with
  | nil =>
    intro needPrep cur
    rcases hl with ⟨r, rfl⟩ | ⟨f, rfl⟩ <;> simp [morePages, Spec.reqs]
  | cons p ps ih =>
    intro needPrep cur
    have h := ih false (some p.2)
    simp only [Bool.and_false, Bool.false_eq_true, if_false, List.nil_append] at h
    simp only [morePages] at h
    simp [morePages, Spec.reqs, h]

end Paging
