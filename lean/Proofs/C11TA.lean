import Model.Policies
import Proofs.C11Cow
import Proofs.C11RR
import Proofs.C11Pol
/-! helper lemmas about the token-aware generator -/
namespace C11
open Policies

/-! ### fallback minus used -/

theorem mem_minusUsed (used fb : List Host) (x : Host) :
    x ∈ minusUsed used fb ↔ x ∈ fb ∧ x ∉ used := by
  induction fb generalizing used with
  | nil => simp [minusUsed]
  | cons h r ih =>
    unfold minusUsed
    split
    · rename_i hc
      have hc' : h ∈ used := by simpa using hc
      rw [ih]
      constructor
      · rintro ⟨h1, h2⟩; exact ⟨List.mem_cons_of_mem _ h1, h2⟩
      · rintro ⟨h1, h2⟩
        rcases List.mem_cons.mp h1 with e | e
        · subst e; exact absurd hc' h2
        · exact ⟨e, h2⟩
    · rename_i hc
      have hc' : h ∉ used := by simpa using hc
      rw [List.mem_cons, ih]
      constructor
      · rintro (e | ⟨h1, h2⟩)
        · subst e; exact ⟨List.mem_cons_self, hc'⟩
        · exact ⟨List.mem_cons_of_mem _ h1, fun hu => h2 (List.mem_cons_of_mem _ hu)⟩
      · rintro ⟨h1, h2⟩
        rcases List.mem_cons.mp h1 with e | e
        · exact Or.inl e
        · by_cases hx : x = h
          · exact Or.inl hx
          · refine Or.inr ⟨e, fun hu => ?_⟩
            rcases List.mem_cons.mp hu with e' | e'
            · exact hx e'
            · exact h2 e'

theorem minusUsed_nodup (used fb : List Host) : (minusUsed used fb).Nodup := by
  induction fb generalizing used with
  | nil => simp [minusUsed]
  | cons h r ih =>
    unfold minusUsed
    split
    · exact ih used
    · rw [List.nodup_cons]
      refine ⟨?_, ih _⟩
      rw [mem_minusUsed]
      rintro ⟨_, h2⟩
      exact h2 List.mem_cons_self

theorem minusUsed_sublist (used fb : List Host) : (minusUsed used fb).Sublist fb := by
  induction fb generalizing used with
  | nil => simp [minusUsed]
  | cons h r ih =>
    unfold minusUsed
    split
    · exact (ih used).cons _
    · exact (ih _).cons_cons _

/-! ### remote walk -/

/-- the walk visits every bucket to its end: it offers the up hosts of all buckets, bucket after bucket -/
theorem remoteWalk_full (up : Nat → Bool) (bs : List (List Host)) :
    remoteWalk up bs = bs.flatten.filter (fun h => up h.id) := by
  induction bs with
  | nil => simp [remoteWalk]
  | cons b rest ih =>
    unfold remoteWalk
    rw [List.flatten_cons, List.filter_append, ih]

theorem remoteWalk_sublist (up : Nat → Bool) (bs : List (List Host)) :
    (remoteWalk up bs).Sublist (bs.flatten.filter (fun h => up h.id)) := by
  rw [remoteWalk_full]
  exact List.Sublist.refl _

theorem mem_bucket (tier : Host → Nat) (m : Nat) (reps : List Host) (x : Host)
    (hx : x ∈ (remoteBuckets tier m reps).flatten) : x ∈ reps ∧ 1 ≤ tier x ∧ tier x ≤ m := by
  simp only [remoteBuckets, List.mem_flatten, List.mem_map, List.mem_range] at hx
  obtain ⟨l, ⟨t, ht, rfl⟩, hx⟩ := hx
  rw [List.mem_filter] at hx
  have : tier x = t + 1 := by simpa using hx.2
  exact ⟨hx.1, by omega, by omega⟩

theorem buckets_nodup (tier : Host → Nat) (m : Nat) (reps : List Host) (hn : reps.Nodup) :
    (remoteBuckets tier m reps).flatten.Nodup := by
  unfold List.Nodup
  rw [List.pairwise_flatten]
  constructor
  · intro l hl
    simp only [remoteBuckets, List.mem_map] at hl
    obtain ⟨t, _, rfl⟩ := hl
    exact List.Sublist.nodup List.filter_sublist hn
  · simp only [remoteBuckets]
    rw [List.pairwise_map]
    refine List.Pairwise.imp ?_ (List.pairwise_lt_range (n := m))
    intro t1 t2 hlt x hx y hy e
    subst e
    rw [List.mem_filter] at hx hy
    have h1 : tier x = t1 + 1 := by simpa using hx.2
    have h2 : tier x = t2 + 1 := by simpa using hy.2
    omega

theorem mem_localReplicas (tier : Host → Nat) (up : Nat → Bool) (reps : List Host) (x : Host) :
    x ∈ localReplicas tier up reps ↔ x ∈ reps ∧ tier x = 0 ∧ up x.id = true := by
  simp [localReplicas, List.mem_filter]

theorem mem_taHead (tier : Host → Nat) (m : Nat) (up : Nat → Bool) (nl : Bool) (reps : List Host) (x : Host)
    (hx : x ∈ taHead tier m up nl reps) : x ∈ reps ∧ up x.id = true := by
  unfold taHead at hx
  rw [List.mem_append] at hx
  rcases hx with hx | hx
  · rw [mem_localReplicas] at hx; exact ⟨hx.1, hx.2.2⟩
  · split at hx
    · have := (remoteWalk_sublist up _).subset hx
      rw [List.mem_filter] at this
      exact ⟨(mem_bucket tier m reps x this.1).1, this.2⟩
    · simp at hx

theorem taHead_nodup (tier : Host → Nat) (m : Nat) (up : Nat → Bool) (nl : Bool) (reps : List Host)
    (hn : reps.Nodup) : (taHead tier m up nl reps).Nodup := by
  unfold taHead
  rw [List.nodup_append]
  refine ⟨List.Sublist.nodup List.filter_sublist hn, ?_, ?_⟩
  · split
    · exact List.Sublist.nodup ((remoteWalk_sublist up _).trans List.filter_sublist) (buckets_nodup tier m reps hn)
    · exact List.nodup_nil
  · intro a ha b hb e
    subst e
    rw [mem_localReplicas] at ha
    split at hb
    · have := (remoteWalk_sublist up _).subset hb
      rw [List.mem_filter] at this
      have := (mem_bucket tier m reps a this.1).2.1
      omega
    · simp at hb

theorem taSeq_nodup (tier : Host → Nat) (m : Nat) (up : Nat → Bool) (nl : Bool) (reps fb : List Host)
    (hn : reps.Nodup) : (taSeq tier m up nl reps fb).Nodup := by
  unfold taSeq
  simp only
  rw [List.nodup_append]
  refine ⟨taHead_nodup tier m up nl reps hn, minusUsed_nodup _ _, ?_⟩
  intro a ha b hb e
  subst e
  rw [mem_minusUsed] at hb
  exact hb.2 ha

theorem mem_taSeq_of_fallback (tier : Host → Nat) (m : Nat) (up : Nat → Bool) (nl : Bool) (reps fb : List Host)
    (x : Host) (hx : x ∈ fb) : x ∈ taSeq tier m up nl reps fb := by
  unfold taSeq
  simp only
  rw [List.mem_append, mem_minusUsed]
  by_cases h : x ∈ taHead tier m up nl reps
  · exact Or.inl h
  · exact Or.inr ⟨hx, h⟩

theorem taSeq_up (tier : Host → Nat) (m : Nat) (up : Nat → Bool) (nl : Bool) (reps fb : List Host)
    (hfb : ∀ x ∈ fb, up x.id = true) (x : Host) (hx : x ∈ taSeq tier m up nl reps fb) : up x.id = true := by
  unfold taSeq at hx
  simp only at hx
  rw [List.mem_append, mem_minusUsed] at hx
  rcases hx with hx | hx
  · exact (mem_taHead tier m up nl reps x hx).2
  · exact hfb x hx.1

/-- the replica phases offer exactly the specified head: the up replicas tier by tier (all tiers with
non-local fallback, tier 0 only without), for EVERY replica list -/
theorem taHead_eq_specHead (tier : Host → Nat) (m : Nat) (up : Nat → Bool) (nl : Bool) (reps : List Host) :
    taHead tier m up nl reps = specHead tier m up nl reps := by
  unfold taHead specHead localReplicas
  cases nl
  · simp
  · simp only [if_true]
    rw [remoteWalk_full up _, List.range_succ_eq_map, List.map_cons, List.flatten_cons]
    congr 1
    simp only [remoteBuckets, List.map_map]
    generalize List.range m = ts
    induction ts with
    | nil => simp
    | cons t r ih =>
      simp only [List.map_cons, List.flatten_cons, List.filter_append, ih, List.filter_filter, Function.comp]
      congr 1
      apply List.filter_congr
      intro x _
      simp [Bool.and_comm]

end C11
