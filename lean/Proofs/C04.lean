/-
# C04 — well-formed server responses are decoded to exactly what the server said (property theorems)
-/
import Proofs.C04Resp
namespace C04
open FrameRead RespSpec

/- FULL PROPERTY (not true of the unchanged code, see C04_cex_custom_collection_class):
   ∀ v r, wf v r → parseResp v (hdr v r) (encodeBody v r) = ok (view v r, restOf r)            -/

/-- For every protocol version 1..5 and every well-formed logical response `r` (any message kind,
    any header flags, type descriptors of any depth, any number of columns / rows) whose custom class
    names do not name a bare collection / tuple marshal class: the model of gocql's parseFrame, run
    with the header fields the server sent on the specification's encoding of `r`, returns exactly the
    expected driver view of `r`, and what is left in the buffer is exactly the encoded rows (nothing
    for every other kind): the body is consumed exactly. -/
theorem C04_decode_encode_partial (v : Nat) (r : LResp) (hw : wf v r = true) (hx : noCollClassResp r = true) :
    parseResp v (hdr v r) (encodeBody v r) = .ok (view v r, restOf r) := by
  have := parseResp_ok v r [] hw hx
  simpa using this

end C04
