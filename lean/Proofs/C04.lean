/-
# C04 — well-formed server responses are decoded to exactly what the server said (property theorems)

Model: `Model/FrameRead.lean` (gocql's parseFrame and everything under it), `Model/Rows.lean` (Iter.Scan,
Scanner, MapScan, SliceMap, the iterator built by executeQuery). Specification: `Model/RespSpec.lean`
(logical responses, ENCODER from the protocol documents, `view` = the content the driver must report).
Helper lemmas: `Proofs/C04Prim|Types|Meta|Frames|Resp|Wire|Rows.lean`.
-/
import Proofs.C04Wire
import Proofs.C04Rows
import Proofs.C04Maps
namespace C04
open FrameRead RespSpec Rows

/-! ## 1. decode ∘ encode = view, body consumed exactly

FULL PROPERTY (not true of the unchanged code, see `C04_cex_custom_collection_class`):
  ∀ v r, wf v r → parseResp v (hdr v r) (encodeBody v r) = ok (view v r, restOf r)                  -/

/-- For every protocol version 1..5 and every well-formed logical response `r` (every message kind,
    every ERROR code with its fields, all header flags, all metadata flag combinations, type
    descriptors of any depth, any number of columns / rows / map entries) whose custom class names
    do not name a bare collection / tuple marshal class: gocql's parseFrame, run with the header
    fields the server sent on the specification's encoding of `r`, returns exactly the expected
    driver view of `r` (error type and fields, columns and types, paging state, prepared id, bind /
    result metadata, pk indexes, warnings, custom payload, trace id), and what is left in the buffer
    is exactly the encoded rows (nothing for every other kind): the body is consumed exactly. -/
theorem C04_decode_encode_partial (v : Nat) (r : LResp) (hw : wf v r = true) (hx : noCollClassResp r = true) :
    parseResp v (hdr v r) (encodeBody v r) = .ok (view v r, restOf r) := by
  have := parseResp_ok v r [] hw hx
  simpa using this

/-- the same through the whole receive path on the wire bytes (readHeader, readFrame, parseFrame),
    whether or not the connection has a compressor -/
theorem C04_wire_partial (comp : Option Compress.Codec) (v : Nat) (r : LResp)
    (hw : wf v r = true) (hx : noCollClassResp r = true) (hlen : (encodeBody v r).length ≤ Compress.maxFrameSize) :
    recvParse (Compress.newFramer comp (UInt8.ofNat v)) v (encodeFrame v r) = .ok (view v r, restOf r) :=
  recvParse_plain comp v r hw hx hlen

/-- the custom-class exclusion is the only one: types without custom classes satisfy it -/
theorem noCollClass_of_mapped (cls : FrameRead.Bytes) (h : ¬ [0x20, 0x21, 0x22, 0x31].contains (classType cls)) :
    noCollClass (.custom cls) = true := by
  simpa [noCollClass] using h

/-! ## 2. compression is transparent -/

/-- For ANY compressor satisfying the round-trip hypothesis: when the server compresses the body
    (flag 0x01, length of the compressed body in the header), the driver's view is the same. -/
theorem C04_compressed_partial (c : Compress.Codec) (hrt : c.RoundTrips) (v : Nat) (r : LResp) (z : FrameRead.Bytes)
    (hw : wf v r = true) (hx : noCollClassResp r = true)
    (hz : c.enc (encodeBody v r) = .ok z) (hlen : z.length ≤ Compress.maxFrameSize) :
    recvParse (Compress.newFramer (some c) (UInt8.ofNat v)) v (encodeFrameCompressed v r z) = .ok (view v r, restOf r) :=
  recvParse_compressed c hrt v r z hw hx hz hlen

/-! ## 3. every cell of every row through Iter.Scan -/

/-- the rows of a logical response paired with the column types -/
def typedRows (ts : List TypeDesc) (rs : List (List Cell)) : List (List (TypeDesc × Cell)) := rs.map (fun row => ts.zip row)

/-- every row has one cell per column and every cell fits its column (tuple columns: ≥ 1 element,
    null or one field per element) -/
def wfRows (ts : List TypeDesc) (rs : List (List Cell)) : Bool :=
  rs.all (fun row => row.length == ts.length && wfRow (ts.zip row))

theorem typedRows_props (ts : List TypeDesc) (rs : List (List Cell)) (hw : wfRows ts rs = true) :
    (∀ row ∈ typedRows ts rs, row.map (·.1) = ts) ∧ (∀ row ∈ typedRows ts rs, wfRow row = true) ∧
    (typedRows ts rs).map (fun row => row.map (·.2)) = rs := by
  have h : ∀ row ∈ rs, row.length = ts.length ∧ wfRow (ts.zip row) = true := by
    simpa [wfRows] using hw
  refine ⟨?_, ?_, ?_⟩
  · intro row hr
    obtain ⟨r0, hr0, rfl⟩ := List.mem_map.mp hr
    exact List.map_fst_zip (by rw [(h r0 hr0).1]; exact Nat.le_refl _)
  · intro row hr
    obtain ⟨r0, hr0, rfl⟩ := List.mem_map.mp hr
    exact (h r0 hr0).2
  · simp only [typedRows, List.map_map]
    conv => rhs; rw [← List.map_id rs]
    apply List.map_congr_left
    intro r0 hr0
    exact List.map_snd_zip (by rw [(h r0 hr0).1]; exact Nat.le_refl _)

/-- FULL PROPERTY for Scan: as below for every destination pattern; nil destinations deviate on
    tuple columns (`C04_cex_scan_nil_on_tuple`). The theorem is for a recorder on every destination.

    The iterator executeQuery builds from a RESULT/Rows response (metadata present): `rs.length`
    calls of Iter.Scan all return true; destination `i + j` of a tuple column starting at `i`
    receives field `j` (null for a null tuple), every other column's destination receives the cell
    (null as nil), each with the column's (element's) type; the buffer is consumed exactly; the next
    Scan returns false with no error. -/
theorem C04_cells_scan (m : Meta) (rs : List (List Cell)) (hcols : ∀ n g, m.cols ≠ .omitted n g)
    (hw : wfRows (colTypes m.cols) rs = true) :
    let it := iterOf (viewMeta m) rs.length (eRows rs)
    let W := totalWidth (colTypes m.cols)
    scanRows (List.replicate W true) rs.length it
        = some ((typedRows (colTypes m.cols) rs).map (rowCalls 0), { it with pos := rs.length, buf := [] }) ∧
      scan { it with pos := rs.length, buf := [] } (List.replicate W true) = .stop { it with pos := rs.length, buf := [] } [] := by
  intro it W
  obtain ⟨h1, h2, h3⟩ := typedRows_props (colTypes m.cols) rs hw
  constructor
  · have := scanRows_ok (typedRows (colTypes m.cols) rs) (colTypes m.cols) it W [] rfl
      (by simp [it, iterOf, typedRows]) (by simpa [it, iterOf, viewMeta] using colsMatch_view m.cols) h1 h2 rfl
      (by simpa [it, iterOf, viewMeta] using actualCount_eq m.cols hcols)
      (by simp [it, iterOf, h3])
    simpa [typedRows, it, iterOf] using this
  · exact scan_end _ _ rfl rfl

/-- FULL PROPERTY for the Scanner: as C04_cells_scan for every page. Not true of the unchanged code
    (`C04_cex_scanner_tuple_not_last`); the theorem needs `narrow`: every column but the last
    occupies exactly one destination (no tuple column of width ≠ 1 before another column).

    `rs.length` rounds of `Next()` = true and `Scan(dests)` = nil deliver exactly the calls each row
    stands for; the buffer is consumed exactly; the next `Next()` returns false with no error. -/
theorem C04_cells_scanner_partial (m : Meta) (rs : List (List Cell)) (hcols : ∀ n g, m.cols ≠ .omitted n g)
    (hw : wfRows (colTypes m.cols) rs = true) (hnar : narrow (colTypes m.cols) = true) :
    let it := iterOf (viewMeta m) rs.length (eRows rs)
    let W := totalWidth (colTypes m.cols)
    ∃ s, scannerRows (List.replicate W true) rs.length it.scanner
          = some ((typedRows (colTypes m.cols) rs).map (rowCalls 0), s) ∧
      s.it = { it with pos := rs.length, buf := [] } ∧ s.next = .ok (s, false) := by
  intro it W
  obtain ⟨h1, h2, h3⟩ := typedRows_props (colTypes m.cols) rs hw
  have hcm : colsMatch (viewCols m.cols) (colTypes m.cols) := colsMatch_view m.cols
  have hlen : (viewCols m.cols).length = (colTypes m.cols).length := by
    have := congrArg List.length hcm
    simpa using this
  obtain ⟨s, hs1, hs2⟩ := scannerRows_ok (typedRows (colTypes m.cols) rs) (colTypes m.cols) it.scanner W [] rfl
    (by simp [it, iterOf, Iter.scanner, typedRows]) (by simp [it, iterOf, Iter.scanner, viewMeta, hlen])
    (by simpa [it, iterOf, Iter.scanner, viewMeta] using hcm) h1 h2 hnar rfl
    (by simpa [it, iterOf, Iter.scanner, viewMeta] using actualCount_eq m.cols hcols)
    (by simp [it, iterOf, Iter.scanner, h3])
  refine ⟨s, by simpa [typedRows] using hs1, by simpa [it, iterOf, Iter.scanner] using hs2, ?_⟩
  apply scanner_end
  · rw [hs2]; rfl
  · rw [hs2]

/-- MapScan with a recorder supplied under every RowData column name (`name` for a plain column,
    `name[i]` for element i of a tuple column): when every column type has a Go type (goType
    succeeds: `rowDataColumns = ok names`) and the names are distinct, the map entry of each name is
    the cell (tuple field) of the destination carrying that name. One row: -/
theorem C04_cells_mapscan (m : Meta) (row : List Cell) (more : List (List Cell)) (names : List FrameRead.Bytes)
    (hcols : ∀ n g, m.cols ≠ .omitted n g) (hw : wfRows (colTypes m.cols) (row :: more) = true)
    (hnames : rowDataColumns (viewCols m.cols) = .ok names) (hd : names.Nodup) :
    let it := iterOf (viewMeta m) ((row :: more).length) (eRows (row :: more))
    mapScan it = .row { it with pos := 1, buf := eRows more }
      (names.zip ((rowCalls 0 ((colTypes m.cols).zip row)).map (·.data))) := by
  intro it
  have h : (row.length = (colTypes m.cols).length ∧ wfRow ((colTypes m.cols).zip row) = true) ∧ True := by
    simp only [wfRows, List.all_cons, Bool.and_eq_true, beq_iff_eq] at hw
    exact ⟨hw.1, trivial⟩
  have hfst : ((colTypes m.cols).zip row).map (·.1) = colTypes m.cols :=
    List.map_fst_zip (by rw [h.1.1]; exact Nat.le_refl _)
  have hsnd : ((colTypes m.cols).zip row).map (·.2) = row :=
    List.map_snd_zip (by rw [h.1.1]; exact Nat.le_refl _)
  have := mapScan_row it ((colTypes m.cols).zip row) (eRows more) names rfl
    (by simp [it, iterOf]) (by rw [hfst]; simpa [it, iterOf, viewMeta] using colsMatch_view m.cols) h.1.2
    (by simpa [it, iterOf, viewMeta] using hnames) hd
    (by rw [hfst]; simpa [it, iterOf, viewMeta] using actualCount_eq m.cols hcols)
    (by rw [hsnd]; simp [it, iterOf, eRows, eRow])
  simpa [it, iterOf] using this

/-- SliceMap (driven with blob / ascii / text / varchar leaf types, whose typed value is the cell's
    bytes, null reading as empty): one map per row, as for MapScan; no error; buffer consumed. -/
theorem C04_cells_slicemap (m : Meta) (rs : List (List Cell)) (names : List FrameRead.Bytes)
    (hcols : ∀ n g, m.cols ≠ .omitted n g) (hw : wfRows (colTypes m.cols) rs = true)
    (hnames : rowDataColumns (viewCols m.cols) = .ok names) (hd : names.Nodup) :
    let it := iterOf (viewMeta m) rs.length (eRows rs)
    sliceMap it = .rows ((typedRows (colTypes m.cols) rs).map
        (fun row => names.zip ((rowCalls 0 row).map (fun c => c.data.getD []))))
      { it with pos := rs.length, buf := [] } := by
  intro it
  obtain ⟨h1, h2, h3⟩ := typedRows_props (colTypes m.cols) rs hw
  have := sliceMapRows_ok (typedRows (colTypes m.cols) rs) (colTypes m.cols) it names [] [] rfl
    (by simp [it, iterOf, typedRows]) (by simpa [it, iterOf, viewMeta] using colsMatch_view m.cols) h1 h2
    (by simpa [it, iterOf, viewMeta] using hnames) hd
    (by simpa [it, iterOf, viewMeta] using actualCount_eq m.cols hcols)
    (by simp [it, iterOf, h3])
  unfold sliceMap
  have hfuel : ((it.numRows - it.pos).toNat + 1) = (typedRows (colTypes m.cols) rs).length + 1 := by
    simp [it, iterOf, typedRows]
  simp only [show it.failed = false from rfl, Bool.false_eq_true, if_false, hfuel]
  rw [this]
  simp [it, iterOf, typedRows]

/-! ## 4. skipped metadata -/

/-- The driver asked to skip the metadata (the EXECUTE of a prepared statement), the page carries
    NO_METADATA (only the column count) and its own paging state: the iterator reads the rows with the
    prepared statement's result metadata `mp` and reports the page's paging state. -/
theorem C04_skip_metadata (mp : Meta) (n : Nat) (g : Bool) (paging : Option FrameRead.Bytes) (rs : List (List Cell))
    (hcols : ∀ n g, mp.cols ≠ .omitted n g) (hw : wfRows (colTypes mp.cols) rs = true) :
    let page : Meta := { paging := paging, cols := .omitted n g }
    ∃ md, iterMeta true (some (viewMeta mp)) (viewMeta page) = some md ∧
      md.columns = viewCols mp.cols ∧ md.pagingState.getD [] = paging.getD [] ∧
      let it := iterOf md rs.length (eRows rs)
      let W := totalWidth (colTypes mp.cols)
      scanRows (List.replicate W true) rs.length it
        = some ((typedRows (colTypes mp.cols) rs).map (rowCalls 0), { it with pos := rs.length, buf := [] }) := by
  intro page
  refine ⟨{ viewMeta mp with pagingState := some (paging.getD []) }, rfl, rfl, rfl, ?_⟩
  intro it W
  obtain ⟨h1, h2, h3⟩ := typedRows_props (colTypes mp.cols) rs hw
  have := scanRows_ok (typedRows (colTypes mp.cols) rs) (colTypes mp.cols) it W [] rfl
    (by simp [it, iterOf, typedRows]) (by simpa [it, iterOf, viewMeta] using colsMatch_view mp.cols) h1 h2 rfl
    (by simpa [it, iterOf, viewMeta] using actualCount_eq mp.cols hcols)
    (by simp [it, iterOf, h3])
  simpa [typedRows, it, iterOf] using this

/-! ## 5. counterexamples on the unchanged code (kernel-checked; each is also a replay input) -/

/-- KF-C04-1 witness: RESULT/Rows, v4, one column `c` whose type is the custom class `ListType` -/
def cexCustom : LResp :=
  { stream := 1, tracing := none, warnings := none, payload := none, beta := false,
    body := .result (.rows { paging := none, cols := .global b!"ks" b!"t" [(b!"c", .custom b!"ListType")] } []) }

/-- KF-C04-1: a well-formed frame whose custom class name is a bare collection marshal class is
    rejected (readTypeInfo goes on reading an element type that is not there) -/
theorem C04_cex_custom_collection_class :
    wf 4 cexCustom = true ∧ parseResp 4 (hdr 4 cexCustom) (encodeBody 4 cexCustom) = .err ∧
    parseResp 4 (hdr 4 cexCustom) (encodeBody 4 cexCustom) ≠ .ok (view 4 cexCustom, restOf cexCustom) := by
  have h : parseResp 4 (hdr 4 cexCustom) (encodeBody 4 cexCustom) = .err := by rfl
  refine ⟨by decide, h, ?_⟩
  rw [h]
  exact fun e => by cases e

/-- a page with the columns `t tuple<blob, blob>`, `a blob` and the row ((01, 02), 03) -/
def cexMeta : Meta :=
  { paging := none,
    cols := .global b!"ks" b!"t"
      [(b!"t", .tuple (.cons (.native 3) (.cons (.native 3) .nil))), (b!"a", .native 3)] }

def cexRows : List (List Cell) := [[.tuple [some [1], some [2]], .bytes [3]]]

def cexIter : Iter := iterOf (viewMeta cexMeta) 1 (eRows cexRows)

def blobT : TypeInfo := .native { typ := 3, custom := [] }

/-- the page is well-formed and Iter.Scan sees it correctly: (01 → dest 0, 02 → dest 1, 03 → dest 2) -/
theorem C04_cex_page_scan_ok :
    wfRows (colTypes cexMeta.cols) cexRows = true ∧
    scan cexIter [true, true, true] = .row { cexIter with pos := 1, buf := [] }
      [{ dest := 0, typ := blobT, data := some [1] }, { dest := 1, typ := blobT, data := some [2] },
       { dest := 2, typ := blobT, data := some [3] }] := by
  exact ⟨by decide, by rfl⟩

/-- KF-C04-2: through the Scanner the same page panics: iterScanner.Scan indexes the row's cells
    with the DESTINATION position (`is.cols[i]`), which runs past the cells after a tuple column of
    two elements (index out of range; with more columns a later column's cell is read instead). -/
theorem C04_cex_scanner_tuple_not_last :
    ∃ s, cexIter.scanner.next = .ok (s, true) ∧ s.scan [true, true, true] = .crash :=
  ⟨_, by rfl, by rfl⟩

/-- KF-C04-3: a nil destination on the first slot of a tuple column skips ONE destination, not the
    column: the next column's cell (03) lands in the tuple's second slot and the destination of
    column `a` is never written. -/
theorem C04_cex_scan_nil_on_tuple :
    scan cexIter [false, true, true] = .row { cexIter with pos := 1, buf := [] }
      [{ dest := 1, typ := blobT, data := some [3] }] := by
  rfl

/-- KF-C04-4: `map<blob, int>` (any map whose key type is blob / a collection / a tuple / a UDT):
    helpers.go goType calls reflect.MapOf with a non-comparable key type, which panics; so
    Iter.RowData, MapScan and SliceMap panic on every page that has such a column. -/
theorem C04_cex_rowdata_map_key :
    goType (viewType (.map (.native 3) (.native 9))) = .crash ∧
    (let md := viewMeta { paging := none, cols := .global b!"ks" b!"t" [(b!"m", .map (.native 3) (.native 9))] }
     let it := iterOf md 0 []
     rowDataNames md.columns = none ∧ mapScan it = .crash ∧ sliceMap it = .crash) := by
  exact ⟨by decide, by rfl, by rfl, by rfl⟩

/-- KF-C04-5: when the driver asked to skip the metadata, executeQuery takes the prepared
    statement's cached result metadata also when the page DOES carry metadata (here: the server says
    the column is `b varchar`, the iterator says `a blob`). -/
theorem C04_cex_skip_metadata_sent_anyway :
    let cached := viewMeta { paging := none, cols := .global b!"ks" b!"t" [(b!"a", .native 3)] }
    let sent := viewMeta { paging := none, cols := .global b!"ks" b!"t" [(b!"b", .native 13)] }
    (iterMeta true (some cached) sent).map (fun md => md.columns.map (·.name)) = some [b!"a"] ∧
    sent.columns.map (·.name) = [b!"b"] := by
  exact ⟨by rfl, by rfl⟩

/-! ## 6. non-vacuity -/

/-- a v4 ERROR Unavailable with tracing, warnings and custom payload is well-formed -/
example : wf 4 { stream := 7, tracing := some (List.replicate 16 7), warnings := some [b!"w"],
                 payload := some [(b!"k", some [1]), (b!"n", none)], beta := false,
                 body := .error b!"x" (.unavailable 4 3 2) } = true := by decide

/-- a v5 prepared result with nested types, pk indexes and both metadata blocks is well-formed and
    satisfies the exclusion -/
def exPrepared : LResp :=
  { stream := 3, tracing := none, warnings := none, payload := none, beta := true,
    body := .result (.prepared [0xAB] [0, 1]
      { paging := none, cols := .global b!"ks" b!"t"
          [(b!"a", .map (.native 13) (.list (.udt b!"ks" b!"u" (.cons b!"f" (.tuple (.cons (.native 9) .nil)) .nil)))),
           (b!"b", .custom b!"org.apache.cassandra.db.marshal.UTF8Type")] }
      (some { paging := some [9], cols := .perCol [{ ks := b!"ks", table := b!"t", name := b!"c", typ := .set (.native 2) }] })) }

example : wf 5 exPrepared = true ∧ noCollClassResp exPrepared = true := by decide

example : parseResp 5 (hdr 5 exPrepared) (encodeBody 5 exPrepared) = .ok (view 5 exPrepared, []) :=
  C04_decode_encode_partial 5 exPrepared (by decide) (by decide)

/-- the page of the counterexamples satisfies the hypotheses of C04_cells_scan -/
example : wfRows (colTypes cexMeta.cols) cexRows = true := by decide

end C04
