/-
# C04 — well-formed server responses are decoded to exactly what the server said (property theorems)

Model: `Model/FrameRead.lean` (gocql's parseFrame and everything under it), `Model/Rows.lean` (Iter.Scan,
Scanner, MapScan, SliceMap, the iterator built by executeQuery). Specification: `Model/RespSpec.lean`
(logical responses, ENCODER from the protocol documents, `view` = the content the driver must report).
`Model/RowDataSpec.lean`: which types have a Go type, RowData's names.
Helper lemmas: `Proofs/C04Prim|Types|Meta|Frames|Resp|Wire|Rows|Maps.lean`.
The models describe the code AFTER the repairs of KF-C04-1 (readTypeInfo), KF-C04-2 (iterScanner.Scan),
KF-C04-4 (goType), KF-C04-5 (executeQuery), KF-C04-7 (unmarshalUDT: a short UDT value into a reused struct);
KF-C04-3 (nil destination on a tuple column) is open.
`Model/RowsReuse.lean`: typed destinations reused across the rows of a page (section 7; helper lemmas in
`Proofs/C04Reuse.lean`); KF-C04-6 (an empty cell into a reused `[]byte`) is open.
-/
import Proofs.C04Wire
import Proofs.C04Rows
import Proofs.C04Maps
import Proofs.C04Reuse
import Proofs.C04Paged
namespace C04
open FrameRead RespSpec Rows

/-! ## 1. decode ∘ encode = view, body consumed exactly -/

/-- For every protocol version 1..5 and every well-formed logical response `r` (every message kind,
    every ERROR code with its fields, all header flags, all metadata flag combinations, type
    descriptors of any depth — custom class names of every kind included: a class that names a bare
    collection / tuple marshal class stays a custom type —, any number of columns / rows / map
    entries): gocql's parseFrame, run with the header fields the server sent on the specification's
    encoding of `r`, returns exactly the expected driver view of `r` (error type and fields, columns
    and types, paging state, prepared id, bind / result metadata, pk indexes, warnings, custom
    payload, trace id), and what is left in the buffer is exactly the encoded rows (nothing for
    every other kind): the body is consumed exactly. -/
theorem C04_decode_encode (v : Nat) (r : LResp) (hw : wf v r = true) :
    parseResp v (hdr v r) (encodeBody v r) = .ok (view v r, restOf r) := by
  have := parseResp_ok v r [] hw
  simpa using this

/-- the same through the whole receive path on the wire bytes (readHeader, readFrame, parseFrame),
    whether or not the connection has a compressor -/
theorem C04_wire (comp : Option Compress.Codec) (v : Nat) (r : LResp)
    (hw : wf v r = true) (hlen : (encodeBody v r).length ≤ Compress.maxFrameSize) :
    recvParse (Compress.newFramer comp (UInt8.ofNat v)) v (encodeFrame v r) = .ok (view v r, restOf r) :=
  recvParse_plain comp v r hw hlen

/-- a custom option is never seen as a collection / tuple / UDT (whose descriptors carry element
    types that a custom option does not have): its type id is the mapped native type or custom -/
theorem C04_custom_stays_simple (cls : FrameRead.Bytes) :
    ∃ n : Native, viewType (.custom cls) = .native n ∧ n.custom = cls ∧
      n.typ ≠ 0x20 ∧ n.typ ≠ 0x21 ∧ n.typ ≠ 0x22 ∧ n.typ ≠ 0x31 ∧ n.typ ≠ 0x30 :=
  ⟨{ typ := customType cls, custom := cls }, by simp [viewType], rfl, customType_ne cls⟩

/-! ## 2. compression is transparent -/

/-- For ANY compressor satisfying the round-trip hypothesis: when the server compresses the body
    (flag 0x01, length of the compressed body in the header), the driver's view is the same. -/
theorem C04_compressed (c : Compress.Codec) (hrt : c.RoundTrips) (v : Nat) (r : LResp) (z : FrameRead.Bytes)
    (hw : wf v r = true)
    (hz : c.enc (encodeBody v r) = .ok z) (hlen : z.length ≤ Compress.maxFrameSize) :
    recvParse (Compress.newFramer (some c) (UInt8.ofNat v)) v (encodeFrameCompressed v r z) = .ok (view v r, restOf r) :=
  recvParse_compressed c hrt v r z hw hz hlen

/-! ## 3. every cell of every row through Iter.Scan -/

/-- the rows of a logical response paired with the column types -/
def typedRows (ts : List TypeDesc) (rs : List (List Cell)) : List (List (TypeDesc × Cell)) := rs.map (fun row => ts.zip row)

/-- every row has one cell per column and every cell fits its column (tuple columns: ≥ 1 element,
    null or one field per element) -/
def wfRows (ts : List TypeDesc) (rs : List (List Cell)) : Bool :=
  rs.all (fun row => row.length == ts.length && wfRow (ts.zip row))

theorem typedRows_props (ts : List TypeDesc) (rs : List (List Cell)) (hw : wfRows ts rs = true) :
    (∀ row ∈ typedRows ts rs, row.map (·.1) = ts) ∧ (∀ row ∈ typedRows ts rs, wfRow row = true) ∧
    (typedRows ts rs).map (fun row => row.map (·.2)) = rs := by
  have h : ∀ row ∈ rs, row.length = ts.length ∧ wfRow (ts.zip row) = true := by
    simpa [wfRows] using hw
  refine ⟨?_, ?_, ?_⟩
  · intro row hr
    obtain ⟨r0, hr0, rfl⟩ := List.mem_map.mp hr
    exact List.map_fst_zip (by rw [(h r0 hr0).1]; exact Nat.le_refl _)
  · intro row hr
    obtain ⟨r0, hr0, rfl⟩ := List.mem_map.mp hr
    exact (h r0 hr0).2
  · simp only [typedRows, List.map_map]
    conv => rhs; rw [← List.map_id rs]
    apply List.map_congr_left
    intro r0 hr0
    exact List.map_snd_zip (by rw [(h r0 hr0).1]; exact Nat.le_refl _)

/-- FULL PROPERTY for Scan: as below for every destination pattern; nil destinations deviate on
    tuple columns (`C04_cex_scan_nil_on_tuple`). The theorem is for a recorder on every destination.

    The iterator executeQuery builds from a RESULT/Rows response (metadata present): `rs.length`
    calls of Iter.Scan all return true; destination `i + j` of a tuple column starting at `i`
    receives field `j` (null for a null tuple), every other column's destination receives the cell
    (null as nil), each with the column's (element's) type; the buffer is consumed exactly; the next
    Scan returns false with no error. -/
theorem C04_cells_scan (m : Meta) (rs : List (List Cell)) (hcols : ∀ n g, m.cols ≠ .omitted n g)
    (hw : wfRows (colTypes m.cols) rs = true) :
    let it := iterOf (viewMeta m) rs.length (eRows rs)
    let W := totalWidth (colTypes m.cols)
    scanRows (List.replicate W true) rs.length it
        = some ((typedRows (colTypes m.cols) rs).map (rowCalls 0), { it with pos := rs.length, buf := [] }) ∧
      scan { it with pos := rs.length, buf := [] } (List.replicate W true) = .stop { it with pos := rs.length, buf := [] } [] := by
  intro it W
  obtain ⟨h1, h2, h3⟩ := typedRows_props (colTypes m.cols) rs hw
  constructor
  · have := scanRows_ok (typedRows (colTypes m.cols) rs) (colTypes m.cols) it W [] rfl
      (by simp [it, iterOf, typedRows]) (by simpa [it, iterOf, viewMeta] using colsMatch_view m.cols) h1 h2 rfl
      (by simpa [it, iterOf, viewMeta] using actualCount_eq m.cols hcols)
      (by simp [it, iterOf, h3])
    simpa [typedRows, it, iterOf] using this
  · exact scan_end _ _ rfl rfl

/-- The Scanner sees every page as Iter.Scan does (tuple columns anywhere, of any width ≥ 1):
    `rs.length` rounds of `Next()` = true and `Scan(dests)` = nil deliver exactly the calls each row
    stands for; the buffer is consumed exactly; the next `Next()` returns false with no error. -/
theorem C04_cells_scanner (m : Meta) (rs : List (List Cell)) (hcols : ∀ n g, m.cols ≠ .omitted n g)
    (hw : wfRows (colTypes m.cols) rs = true) :
    let it := iterOf (viewMeta m) rs.length (eRows rs)
    let W := totalWidth (colTypes m.cols)
    ∃ s, scannerRows (List.replicate W true) rs.length it.scanner
          = some ((typedRows (colTypes m.cols) rs).map (rowCalls 0), s) ∧
      s.it = { it with pos := rs.length, buf := [] } ∧ s.next = .ok (s, false) := by
  intro it W
  obtain ⟨h1, h2, h3⟩ := typedRows_props (colTypes m.cols) rs hw
  have hcm : colsMatch (viewCols m.cols) (colTypes m.cols) := colsMatch_view m.cols
  have hlen : (viewCols m.cols).length = (colTypes m.cols).length := by
    have := congrArg List.length hcm
    simpa using this
  obtain ⟨s, hs1, hs2⟩ := scannerRows_ok (typedRows (colTypes m.cols) rs) (colTypes m.cols) it.scanner W [] rfl
    (by simp [it, iterOf, Iter.scanner, typedRows]) (by simp [it, iterOf, Iter.scanner, viewMeta, hlen])
    (by simpa [it, iterOf, Iter.scanner, viewMeta] using hcm) h1 h2 rfl
    (by simpa [it, iterOf, Iter.scanner, viewMeta] using actualCount_eq m.cols hcols)
    (by simp [it, iterOf, Iter.scanner, h3])
  refine ⟨s, by simpa [typedRows] using hs1, by simpa [it, iterOf, Iter.scanner] using hs2, ?_⟩
  apply scanner_end
  · rw [hs2]; rfl
  · rw [hs2]

/-- the Scanner and Iter.Scan deliver the same calls for every page -/
theorem C04_scanner_eq_scan (m : Meta) (rs : List (List Cell)) (hcols : ∀ n g, m.cols ≠ .omitted n g)
    (hw : wfRows (colTypes m.cols) rs = true) :
    let it := iterOf (viewMeta m) rs.length (eRows rs)
    let W := totalWidth (colTypes m.cols)
    (scannerRows (List.replicate W true) rs.length it.scanner).map (·.1)
      = (scanRows (List.replicate W true) rs.length it).map (·.1) := by
  intro it W
  obtain ⟨s, hs, _, _⟩ := C04_cells_scanner m rs hcols hw
  have hsc := (C04_cells_scan m rs hcols hw).1
  show (scannerRows _ _ _).map (·.1) = (scanRows _ _ _).map (·.1)
  rw [hs, hsc]
  rfl

/-- Iter.RowData on the driver's view of well-formed column specifications (type descriptors of any
    nesting): the specification's names when every column has Go destinations, an error otherwise —
    never a panic (in particular not for a map whose key type is not comparable in Go) -/
theorem C04_rowdata_total (c : Cols) (hw : wfCols c = true) :
    rowDataColumns (viewCols c) = (match rowDataSpec c with | some names => .ok names | none => .err) ∧
    rowDataNames (viewCols c) = some ((rowDataSpec c).getD []) := by
  have h := rowDataColumns_view c hw
  refine ⟨h, ?_⟩
  unfold rowDataNames
  rw [h]
  cases rowDataSpec c <;> rfl

/-- goType on the driver's view of every well-formed type descriptor: ok exactly for the types the
    specification gives a Go type, an error otherwise, never a panic -/
theorem C04_gotype_total (t : TypeDesc) (hw : wfType t = true) :
    goType (viewType t) = (if hasGoType t then .ok else .err) ∧ goType (viewType t) ≠ .crash := by
  rw [goType_view t hw]
  cases hasGoType t <;> simp [goOf]

/-- MapScan with a recorder supplied under every RowData column name (`name` for a plain column,
    `name[i]` for element i of a tuple column): when every column has Go destinations
    (`rowDataSpec = some names`) and the names are distinct, the map entry of each name is
    the cell (tuple field) of the destination carrying that name. One row: -/
theorem C04_cells_mapscan (m : Meta) (row : List Cell) (more : List (List Cell)) (names : List FrameRead.Bytes)
    (hcols : ∀ n g, m.cols ≠ .omitted n g) (hwc : wfCols m.cols = true) (hw : wfRows (colTypes m.cols) (row :: more) = true)
    (hnames : rowDataSpec m.cols = some names) (hd : names.Nodup) :
    let it := iterOf (viewMeta m) ((row :: more).length) (eRows (row :: more))
    mapScan it = .row { it with pos := 1, buf := eRows more }
      (names.zip ((rowCalls 0 ((colTypes m.cols).zip row)).map (·.data))) := by
  intro it
  have hnames' : rowDataColumns (viewCols m.cols) = .ok names := by
    rw [rowDataColumns_view m.cols hwc, hnames]
  have h : (row.length = (colTypes m.cols).length ∧ wfRow ((colTypes m.cols).zip row) = true) ∧ True := by
    simp only [wfRows, List.all_cons, Bool.and_eq_true, beq_iff_eq] at hw
    exact ⟨hw.1, trivial⟩
  have hfst : ((colTypes m.cols).zip row).map (·.1) = colTypes m.cols :=
    List.map_fst_zip (by rw [h.1.1]; exact Nat.le_refl _)
  have hsnd : ((colTypes m.cols).zip row).map (·.2) = row :=
    List.map_snd_zip (by rw [h.1.1]; exact Nat.le_refl _)
  have := mapScan_row it ((colTypes m.cols).zip row) (eRows more) names rfl
    (by simp [it, iterOf]) (by rw [hfst]; simpa [it, iterOf, viewMeta] using colsMatch_view m.cols) h.1.2
    (by simpa [it, iterOf, viewMeta] using hnames') hd
    (by rw [hfst]; simpa [it, iterOf, viewMeta] using actualCount_eq m.cols hcols)
    (by rw [hsnd]; simp [it, iterOf, eRows, eRow])
  simpa [it, iterOf] using this

/-- SliceMap (driven with blob / ascii / text / varchar leaf types, whose typed value is the cell's
    bytes, null reading as empty): one map per row, as for MapScan; no error; buffer consumed. -/
theorem C04_cells_slicemap (m : Meta) (rs : List (List Cell)) (names : List FrameRead.Bytes)
    (hcols : ∀ n g, m.cols ≠ .omitted n g) (hwc : wfCols m.cols = true) (hw : wfRows (colTypes m.cols) rs = true)
    (hnames : rowDataSpec m.cols = some names) (hd : names.Nodup) :
    let it := iterOf (viewMeta m) rs.length (eRows rs)
    sliceMap it = .rows ((typedRows (colTypes m.cols) rs).map
        (fun row => names.zip ((rowCalls 0 row).map (fun c => c.data.getD []))))
      { it with pos := rs.length, buf := [] } := by
  intro it
  have hnames' : rowDataColumns (viewCols m.cols) = .ok names := by
    rw [rowDataColumns_view m.cols hwc, hnames]
  obtain ⟨h1, h2, h3⟩ := typedRows_props (colTypes m.cols) rs hw
  have := sliceMapRows_ok (typedRows (colTypes m.cols) rs) (colTypes m.cols) it names [] [] rfl
    (by simp [it, iterOf, typedRows]) (by simpa [it, iterOf, viewMeta] using colsMatch_view m.cols) h1 h2
    (by simpa [it, iterOf, viewMeta] using hnames') hd
    (by simpa [it, iterOf, viewMeta] using actualCount_eq m.cols hcols)
    (by simp [it, iterOf, h3])
  unfold sliceMap
  have hfuel : ((it.numRows - it.pos).toNat + 1) = (typedRows (colTypes m.cols) rs).length + 1 := by
    simp [it, iterOf, typedRows]
  simp only [show it.failed = false from rfl, Bool.false_eq_true, if_false, hfuel]
  rw [this]
  simp [it, iterOf, typedRows]

/-- A page with a column that has no Go type (an unknown / custom type, or — KF-C04-4 — a map whose
    key type is not comparable in Go: map<blob, _>, map<frozen<list<_>>, _>, ...): RowData returns an
    error; MapScan returns false and SliceMap returns an error ("not enough columns to scan into")
    when there is a row, and both end normally on a page without rows. Neither panics. -/
theorem C04_no_go_type_is_error (m : Meta) (rs : List (List Cell))
    (hcols : ∀ n g, m.cols ≠ .omitted n g) (hwc : wfCols m.cols = true) (hw : wfRows (colTypes m.cols) rs = true)
    (hnone : rowDataSpec m.cols = none) :
    let it := iterOf (viewMeta m) rs.length (eRows rs)
    rowDataColumns (viewCols m.cols) = .err ∧
    (rs ≠ [] → mapScan it = .stop { it with failed := true } ∧ sliceMap it = .error { it with failed := true }) ∧
    (rs = [] → mapScan it = .stop it ∧ sliceMap it = .rows [] it) := by
  intro it
  have herr : rowDataColumns (viewCols m.cols) = .err := by
    rw [rowDataColumns_view m.cols hwc, hnone]
  have herr' : rowDataColumns it.md.columns = .err := by simpa [it, iterOf, viewMeta] using herr
  refine ⟨herr, ?_, ?_⟩
  · intro hne
    obtain ⟨row, more, rfl⟩ : ∃ row more, rs = row :: more := by
      cases rs with
      | nil => exact absurd rfl hne
      | cons a b => exact ⟨a, b, rfl⟩
    have hp : it.pos < it.numRows := by simp [it, iterOf]
    -- at least one column (RowData failed on it), each at least one destination wide
    have hrow : row.length = (colTypes m.cols).length ∧ wfRow ((colTypes m.cols).zip row) = true := by
      simp only [wfRows, List.all_cons, Bool.and_eq_true, beq_iff_eq] at hw
      exact hw.1
    have hfst : ((colTypes m.cols).zip row).map (·.1) = colTypes m.cols :=
      List.map_fst_zip (by rw [hrow.1]; exact Nat.le_refl _)
    have hge := totalWidth_ge _ hrow.2
    rw [hfst] at hge
    have hlen : ((colTypes m.cols).zip row).length = (colTypes m.cols).length := by simp [hrow.1]
    have hpos : 0 < (colTypes m.cols).length := by
      cases hc : colTypes m.cols with
      | nil =>
        exfalso
        have hv : viewCols m.cols = [] := by
          have := colsMatch_view m.cols
          rw [hc] at this
          simpa [colsMatch] using this
        rw [hv] at herr
        simp [rowDataColumns] at herr
      | cons a b => simp
    have ha : it.md.actualColCount ≠ 0 := by
      have := actualCount_eq m.cols hcols
      simp only [it, iterOf, viewMeta, this]
      omega
    exact ⟨mapScan_noGo it rfl hp herr' ha, sliceMap_noGo it rfl hp herr' ha⟩
  · intro he
    subst he
    exact ⟨mapScan_noGo_empty it rfl rfl herr', sliceMap_noGo_empty it rfl rfl herr'⟩

/-! ## 4. skipped metadata -/

/-- the page's NO_METADATA flag, as the driver reads it, is set exactly for omitted column specifications -/
theorem noMeta_flag (m : Meta) :
    hasFlag (viewMeta m).flags flagNoMetaData = (match m.cols with | .omitted _ _ => true | _ => false) := by
  have hfl : m.flagBits < 2147483648 := by have := flagBits_lt m; omega
  simp only [viewMeta, hasFlag_small _ _ hfl]
  obtain ⟨paging, cols⟩ := m
  cases cols with
  | omitted n g => cases paging <;> cases g <;> simp [Meta.flagBits, Cols.flagBits, flagNoMetaData]
  | global ks tb cs => cases paging <;> simp [Meta.flagBits, Cols.flagBits, flagNoMetaData]
  | perCol cs => cases paging <;> simp [Meta.flagBits, Cols.flagBits, flagNoMetaData]

/-- the column specifications the iterator must use when the driver asked to skip the metadata:
    the page's own when the page carries them, the prepared statement's when it does not -/
def effCols (mp page : Meta) : Cols :=
  match page.cols with
  | .omitted _ _ => mp.cols
  | c => c

/-- The driver asked to skip the metadata (the EXECUTE of a prepared statement with result metadata
    `mp`). For EVERY page: if the page carries NO_METADATA (only the column count) the iterator reads
    the rows with the prepared statement's result metadata; if the server sent metadata anyway, the
    iterator's metadata is exactly the page's (whatever was cached). In both cases it reports the
    page's paging state and every row is delivered as the effective columns say. -/
theorem C04_skip_metadata (mp page : Meta) (rs : List (List Cell))
    (hcols : ∀ n g, mp.cols ≠ .omitted n g) (hw : wfRows (colTypes (effCols mp page)) rs = true) :
    ∃ md, iterMeta true (some (viewMeta mp)) (viewMeta page) = some md ∧
      md.columns = viewCols (effCols mp page) ∧ md.pagingState.getD [] = page.paging.getD [] ∧
      ((∀ n g, page.cols ≠ .omitted n g) → md = viewMeta page ∧
        ∀ info, iterMeta true info (viewMeta page) = some (viewMeta page)) ∧
      let it := iterOf md rs.length (eRows rs)
      let W := totalWidth (colTypes (effCols mp page))
      scanRows (List.replicate W true) rs.length it
        = some ((typedRows (colTypes (effCols mp page)) rs).map (rowCalls 0), { it with pos := rs.length, buf := [] }) := by
  have hflag := noMeta_flag page
  obtain ⟨h1, h2, h3⟩ := typedRows_props (colTypes (effCols mp page)) rs hw
  cases hp : page.cols with
  | omitted n g =>
    have he : effCols mp page = mp.cols := by simp [effCols, hp]
    rw [hp] at hflag
    refine ⟨{ viewMeta mp with pagingState := some (page.paging.getD []) }, ?_, ?_, rfl, ?_, ?_⟩
    · simp only [iterMeta, hflag, Bool.and_self, if_true]
      rfl
    · rw [he]; rfl
    · intro h; exact absurd rfl (h n g)
    · intro it W
      rw [he] at h1 h2 h3 ⊢
      have := scanRows_ok (typedRows (colTypes mp.cols) rs) (colTypes mp.cols) it W [] rfl
        (by simp [it, iterOf, typedRows]) (by simpa [it, iterOf, viewMeta] using colsMatch_view mp.cols) h1 h2
        (by simp only [W, he])
        (by simpa [it, iterOf, viewMeta, W, he] using actualCount_eq mp.cols hcols)
        (by simp [it, iterOf, h3])
      simpa [typedRows, it, iterOf] using this
  | global ks tb cs =>
    have he : effCols mp page = page.cols := by simp [effCols, hp]
    have hpc : ∀ n g, page.cols ≠ .omitted n g := by intro n g; rw [hp]; exact fun h => by cases h
    rw [hp] at hflag
    have him : ∀ info, iterMeta true info (viewMeta page) = some (viewMeta page) := by
      intro info; simp [iterMeta, hflag]
    refine ⟨viewMeta page, him _, by rw [he]; rfl, rfl, fun _ => ⟨rfl, him⟩, ?_⟩
    intro it W
    rw [he] at h1 h2 h3 ⊢
    have := scanRows_ok (typedRows (colTypes page.cols) rs) (colTypes page.cols) it W [] rfl
      (by simp [it, iterOf, typedRows]) (by simpa [it, iterOf, viewMeta] using colsMatch_view page.cols) h1 h2
      (by simp only [W, he])
      (by simpa [it, iterOf, viewMeta, W, he] using actualCount_eq page.cols hpc)
      (by simp [it, iterOf, h3])
    simpa [typedRows, it, iterOf] using this
  | perCol cs =>
    have he : effCols mp page = page.cols := by simp [effCols, hp]
    have hpc : ∀ n g, page.cols ≠ .omitted n g := by intro n g; rw [hp]; exact fun h => by cases h
    rw [hp] at hflag
    have him : ∀ info, iterMeta true info (viewMeta page) = some (viewMeta page) := by
      intro info; simp [iterMeta, hflag]
    refine ⟨viewMeta page, him _, by rw [he]; rfl, rfl, fun _ => ⟨rfl, him⟩, ?_⟩
    intro it W
    rw [he] at h1 h2 h3 ⊢
    have := scanRows_ok (typedRows (colTypes page.cols) rs) (colTypes page.cols) it W [] rfl
      (by simp [it, iterOf, typedRows]) (by simpa [it, iterOf, viewMeta] using colsMatch_view page.cols) h1 h2
      (by simp only [W, he])
      (by simpa [it, iterOf, viewMeta, W, he] using actualCount_eq page.cols hpc)
      (by simp [it, iterOf, h3])
    simpa [typedRows, it, iterOf] using this

/-! ## 4b. a whole query: what executeQuery makes of every kind of response, and all pages through one Iter -/

open Paged in
/-- WHAT THE APPLICATION GETS FOR EVERY KIND OF ANSWER to a statement (conn.go executeQuery's switch, through the
    receive path, for every well-formed response of every version):
    * RESULT/Rows: an iterator over exactly the rows, with the page's own metadata, row count, warnings, custom
      payload and trace id; it will fetch a further page exactly when the page carries a paging state;
    * an ERROR of any code but UNPREPARED: `iter.err` is that error — code, message and the code's fields as sent —
      with the response's warnings / payload / trace id; no rows;
    * RESULT void / set-keyspace / schema-change: an empty iterator without error (warnings / payload / trace id kept);
    * UNPREPARED: the request is sent again and the NEXT answer decides. -/
theorem C04_query_view (v : Nat) (r : LResp) (ws : List FrameRead.Bytes) (hw : wf v r = true)
    (hlen : (encodeBody v r).length ≤ Compress.maxFrameSize) :
    (∀ m rs, r.body = .result (.rows m rs) → execute v true (encodeFrame v r :: ws) = some (qOf r m rs, ws)) ∧
    (∀ msg e, r.body = .error msg e → (∀ id, e ≠ .unprepared id) →
      execute v true (encodeFrame v r :: ws) = some (qErr r msg e, ws)) ∧
    (r.body = .result .void ∨ (∃ ks, r.body = .result (.setKeyspace ks)) ∨ (∃ sc, r.body = .result (.schemaChange sc)) →
      execute v true (encodeFrame v r :: ws) = some (qEmpty r, ws)) ∧
    (∀ msg id, r.body = .error msg (.unprepared id) → execute v true (encodeFrame v r :: ws) = execute v true ws) := by
  refine ⟨?_, ?_, ?_, ?_⟩
  · intro m rs hb
    simp [execute, step1_rows v r m rs hw hlen hb]
  · intro msg e hb hu
    simp [execute, step1_error v true r msg e hw hlen hb hu]
  · intro hb
    simp [execute, step1_empty v true r hw hlen hb]
  · intro msg id hb
    have : step1 v true (encodeFrame v r) = .again := by
      simp only [step1, recv_wf v r hw hlen, dispatch, view, hb, viewBody, viewErr]
    simp [execute, this]

open Paged in
/-- ALL PAGES OF A QUERY THROUGH Iter.Scan (`for iter.Scan(dests...) { }`, a recorder on every destination):
    for every protocol version, any number of pages `p :: rest` — each a well-formed RESULT/Rows response with its
    own column specifications (names, table spec and types may differ from page to page as long as the rows fill
    the same number of destinations), any number of rows, empty pages anywhere —, every page but the last
    announcing more and the last one not: the loop delivers exactly the cells of every row of every page, in
    order, each page's cells typed by THAT page's metadata, and then ends (Scan false) without an error, the
    iterator showing the LAST page's metadata, warnings and custom payload, every answer consumed. -/
theorem C04_pages_scan (v W : Nat) (p : RowsPage) (rest : List RowsPage)
    (hp : PageOk v W p) (hall : ∀ x ∈ rest, PageOk v W x) (hch : chained p rest)
    (hlast : (lastPage p rest).m.paging = none) :
    pdrain v (List.replicate W true) (rowCount (p :: rest) + 1) (rest.map (fun x => encodeFrame v x.r)) (pageQ p)
      = some ((p :: rest).flatMap pageCalls, atEnd (pageQ (lastPage p rest)), []) ∧
    (atEnd (pageQ (lastPage p rest))).err = none ∧
    (atEnd (pageQ (lastPage p rest))).hdr = some (hdrSpec (lastPage p rest).r) ∧
    (atEnd (pageQ (lastPage p rest))).it.md = viewMeta (lastPage p rest).m := by
  refine ⟨?_, rfl, rfl, rfl⟩
  have h := pages_drain v W rest p hp hall hch 0 []
  simp only [List.append_nil] at h
  rw [h, pdrain_last v _ (pageQ (lastPage p rest)) rfl (by simp [pageQ, qOf, hlast]) [] 0]
  simp

open Paged in
/-- THE SAME WHEN A LATER PAGE FAILS: every page announces more and the request after the last page is answered
    with an ERROR (any code but UNPREPARED): the loop delivers every row of every page and ends with `iter.err`
    being exactly that error — code, message, the code's fields — and the error response's warnings / payload. -/
theorem C04_pages_scan_error (v W : Nat) (p : RowsPage) (rest : List RowsPage) (r : LResp) (msg : FrameRead.Bytes) (e : ErrBody)
    (hp : PageOk v W p) (hall : ∀ x ∈ rest, PageOk v W x) (hch : chained p rest)
    (hlast : (lastPage p rest).m.paging.isSome = true)
    (hw : wf v r = true) (hlen : (encodeBody v r).length ≤ Compress.maxFrameSize)
    (hb : r.body = .error msg e) (hu : ∀ id, e ≠ .unprepared id) :
    pdrain v (List.replicate W true) (rowCount (p :: rest) + 2)
        (rest.map (fun x => encodeFrame v x.r) ++ [encodeFrame v r]) (pageQ p)
      = some ((p :: rest).flatMap pageCalls, qErr r msg e, []) := by
  have h := pages_drain v W rest p hp hall hch 1 [encodeFrame v r]
  rw [h, pdrain_switch v _ (pageQ (lastPage p rest)) rfl (by simpa [pageQ, qOf] using hlast) _ [] _
    (step1_error v true r msg e hw hlen hb hu) 1, pdrain_error]
  simp

open Paged in
/-- ALL PAGES OF A QUERY THROUGH THE SCANNER (`sc := iter.Scanner(); for sc.Next() { sc.Scan(dests...) }`): as
    C04_pages_scan, for pages that also have the same NUMBER of columns `C` (iterScanner keeps the cell buffer it
    made from the first page): every row of every page is delivered with exactly its cells, each page typed by its
    own metadata; then Next() returns false on the last page's iterator, without error, every answer consumed. -/
theorem C04_pages_scanner (v W C : Nat) (p : RowsPage) (rest : List RowsPage)
    (hp : PageOkS v W C p) (hall : ∀ x ∈ rest, PageOkS v W C x) (hch : chained p rest)
    (hlast : (lastPage p rest).m.paging = none) :
    ∃ s1 : PScanner,
      pdrainS v (List.replicate W true) (rowCount (p :: rest) + 1) (rest.map (fun x => encodeFrame v x.r)) (pageQ p).scanner
        = some ((p :: rest).flatMap pageCalls, s1, []) ∧
      s1.q = atEnd (pageQ (lastPage p rest)) ∧ s1.q.err = none := by
  obtain ⟨s1, hq, _, h⟩ := pagesS_drain v W C rest p hp hall hch 0 [] (pageQ p).scanner rfl
    (by have := congrArg List.length (colsMatch_view p.m.cols); simp [QIter.scanner, pageQ, qOf, iterOf, viewMeta] at this ⊢; rw [this, hp.2])
  refine ⟨s1, ?_, hq, by rw [hq]; rfl⟩
  simp only [List.append_nil] at h
  rw [h, pdrainS_last v _ s1 (by rw [hq]; rfl) (by rw [hq]; simp [atEnd]) (by rw [hq]; simp [atEnd, pageQ, qOf, hlast]) [] 0]
  simp

open Paged in
/-- the same when the fetch after the last page is answered with an ERROR (not UNPREPARED): every row of every page,
    then Next() false and Err() = exactly that error -/
theorem C04_pages_scanner_error (v W C : Nat) (p : RowsPage) (rest : List RowsPage) (r : LResp) (msg : FrameRead.Bytes) (e : ErrBody)
    (hp : PageOkS v W C p) (hall : ∀ x ∈ rest, PageOkS v W C x) (hch : chained p rest)
    (hlast : (lastPage p rest).m.paging.isSome = true)
    (hw : wf v r = true) (hlen : (encodeBody v r).length ≤ Compress.maxFrameSize)
    (hb : r.body = .error msg e) (hu : ∀ id, e ≠ .unprepared id) :
    ∃ s1 : PScanner,
      pdrainS v (List.replicate W true) (rowCount (p :: rest) + 2)
          (rest.map (fun x => encodeFrame v x.r) ++ [encodeFrame v r]) (pageQ p).scanner
        = some ((p :: rest).flatMap pageCalls, s1, []) ∧
      s1.q = qErr r msg e := by
  obtain ⟨s1, hq, _, h⟩ := pagesS_drain v W C rest p hp hall hch 1 [encodeFrame v r] (pageQ p).scanner rfl
    (by have := congrArg List.length (colsMatch_view p.m.cols); simp [QIter.scanner, pageQ, qOf, iterOf, viewMeta] at this ⊢; rw [this, hp.2])
  refine ⟨{ s1 with q := qErr r msg e }, ?_, rfl⟩
  rw [h, pdrainS_switch v _ s1 (by rw [hq]; rfl) (by rw [hq]; simp [atEnd]) (by rw [hq]; simpa [atEnd, pageQ, qOf] using hlast) _ [] _
    (step1_error v true r msg e hw hlen hb hu) 1, pdrainS_error v _ _ r msg e rfl]
  simp

/-! ## 5. the witnesses of the repaired findings (conformance, kernel-checked; each is also a replay
       input), the remaining open finding KF-C04-3, regressions about the OLD definitions -/

/-- KF-C04-1 witness: RESULT/Rows, v4, one column `c` whose type is the custom class `ListType` -/
def cexCustom : LResp :=
  { stream := 1, tracing := none, warnings := none, payload := none, beta := false,
    body := .result (.rows { paging := none, cols := .global b!"ks" b!"t" [(b!"c", .custom b!"ListType")] } []) }

/-- KF-C04-1 repaired: the frame is decoded, the column is the custom type `ListType` (type id 0),
    the body is consumed exactly -/
theorem C04_fixed_custom_collection_class :
    wf 4 cexCustom = true ∧
    parseResp 4 (hdr 4 cexCustom) (encodeBody 4 cexCustom) = .ok (view 4 cexCustom, []) ∧
    (viewCols (.global b!"ks" b!"t" [(b!"c", .custom b!"ListType")])).map (·.typ)
      = [.native { typ := 0, custom := b!"ListType" }] := by
  refine ⟨by decide, C04_decode_encode 4 cexCustom (by decide), by rfl⟩

/-- a page with the columns `t tuple<blob, blob>`, `a blob` and the row ((01, 02), 03) -/
def cexMeta : Meta :=
  { paging := none,
    cols := .global b!"ks" b!"t"
      [(b!"t", .tuple (.cons (.native 3) (.cons (.native 3) .nil))), (b!"a", .native 3)] }

def cexRows : List (List Cell) := [[.tuple [some [1], some [2]], .bytes [3]]]

def cexIter : Iter := iterOf (viewMeta cexMeta) 1 (eRows cexRows)

def blobT : TypeInfo := .native { typ := 3, custom := [] }

/-- the page is well-formed and Iter.Scan sees it correctly: (01 → dest 0, 02 → dest 1, 03 → dest 2) -/
theorem C04_cex_page_scan_ok :
    wfRows (colTypes cexMeta.cols) cexRows = true ∧
    scan cexIter [true, true, true] = .row { cexIter with pos := 1, buf := [] }
      [{ dest := 0, typ := blobT, data := some [1] }, { dest := 1, typ := blobT, data := some [2] },
       { dest := 2, typ := blobT, data := some [3] }] := by
  exact ⟨by decide, by rfl⟩

/-- KF-C04-2 repaired: through the Scanner the same page delivers the same calls -/
theorem C04_fixed_scanner_tuple_not_last :
    ∃ s s', cexIter.scanner.next = .ok (s, true) ∧
      s.scan [true, true, true] = .ok s'
        [{ dest := 0, typ := blobT, data := some [1] }, { dest := 1, typ := blobT, data := some [2] },
         { dest := 2, typ := blobT, data := some [3] }] :=
  ⟨_, _, by rfl, by rfl⟩

/-- regression about the OLD definition (iterScanner.Scan before the repair indexed the cells with the
    destination position): on the same row it ran past the cells -/
def scannerColsOld : List ColumnInfo → Nat → List Bool → List (Option FrameRead.Bytes) → List Call → RowOut
  | [], _, _, _, acc => .done [] acc
  | col :: cols, i, dests, cells, acc =>
    if i ≥ cells.length then .crash
    else match scanColumn ((cells.getD i none)) col (dests.drop i) i with
      | .crash => .crash
      | .err calls => .failed (acc ++ calls)
      | .ok n calls => scannerColsOld cols (i + n) dests cells (acc ++ calls)

example : (match scannerColsOld (viewMeta cexMeta).columns 0 [true, true, true] [some (eTupleBody [some [1], some [2]]), some [3]] [] with
    | .crash => true | _ => false) = true := by rfl

/-- KF-C04-3 (OPEN): a nil destination on the first slot of a tuple column skips ONE destination, not the
    column: the next column's cell (03) lands in the tuple's second slot and the destination of
    column `a` is never written. -/
theorem C04_cex_scan_nil_on_tuple :
    scan cexIter [false, true, true] = .row { cexIter with pos := 1, buf := [] }
      [{ dest := 1, typ := blobT, data := some [3] }] := by
  rfl

/-- KF-C04-4 repaired: `map<blob, int>`: goType returns an error, RowData an error; MapScan and
    SliceMap on a page without rows end normally, with a row they fail with an error — no panic -/
theorem C04_fixed_rowdata_map_key :
    goType (viewType (.map (.native 3) (.native 9))) = .err ∧
    (let md := viewMeta { paging := none, cols := .global b!"ks" b!"t" [(b!"m", .map (.native 3) (.native 9))] }
     let it := iterOf md 0 []
     let it1 := iterOf md 1 (eRows [[.bytes [0, 0, 0, 0]]])
     rowDataNames md.columns = some [] ∧ mapScan it = .stop it ∧ sliceMap it = .rows [] it ∧
     mapScan it1 = .stop { it1 with failed := true } ∧ sliceMap it1 = .error { it1 with failed := true }) := by
  exact ⟨by decide, by rfl, by rfl, by rfl, by rfl, by rfl⟩

/-- KF-C04-5 repaired: when the driver asked to skip the metadata and the page DOES carry metadata
    (the server says the column is `b varchar`, the cached result metadata says `a blob`), the iterator
    reports what the server sent -/
theorem C04_fixed_skip_metadata_sent_anyway :
    let cached := viewMeta { paging := none, cols := .global b!"ks" b!"t" [(b!"a", .native 3)] }
    let sent := viewMeta { paging := none, cols := .global b!"ks" b!"t" [(b!"b", .native 13)] }
    (iterMeta true (some cached) sent).map (fun md => md.columns.map (·.name)) = some [b!"b"] ∧
    sent.columns.map (·.name) = [b!"b"] := by
  exact ⟨by rfl, by rfl⟩

/-- regression about the OLD definition (executeQuery before the repair took the cached metadata
    whenever skip-metadata was requested) -/
def iterMetaOld (skipMeta : Bool) (info : Option ResultMeta) (x : ResultMeta) : Option ResultMeta :=
  if skipMeta then
    match info with
    | some resp => some { resp with pagingState := some (x.pagingState.getD []) }
    | none => none
  else some x

example :
    let cached := viewMeta { paging := none, cols := .global b!"ks" b!"t" [(b!"a", .native 3)] }
    let sent := viewMeta { paging := none, cols := .global b!"ks" b!"t" [(b!"b", .native 13)] }
    (iterMetaOld true (some cached) sent).map (fun md => md.columns.map (·.name)) = some [b!"a"] := by rfl


/-! ## 7. typed destinations REUSED across the rows of a page: every row is what its own cells say -/

open RowsReuse Marshal in
/-- FULL PROPERTY (does not hold, see `C04_cex_empty_cell_depends_on_history`: KF-C04-6, open): as below without the
    hypothesis `hins`.

    A well-formed page is read with the ordinary loop `for iter.Scan(&x0, …, &xk) { … }` — the SAME typed Go
    destinations (Go types `tys`, one per destination slot; tuple columns expand) on every call — and the
    destinations hold ANY values `vals0` before the first row (zero values, or whatever an earlier page / query left).
    Then the values the destinations hold after row i are the decodes of row i's OWN cells, each into a fresh zero
    value of its destination's type (`deliver` / `freshCalls`: C12's decode model `Marshal.unmarshal`), whatever the
    earlier rows contained: null after a value is nil / the zero value, a shorter value after a longer one is the
    shorter value, a value after null is the value. The first row with a cell that does not decode into its
    destination's type ends the loop: Scan returns false, iter.err is set, the row is not counted.
    `hins`: no cell falls under the excluded condition `sensitive` (C04Reuse.lean). The only FINDING in it is
    KF-C04-6: an EMPTY cell of a text-family column into an unnamed `[]byte` — as a destination, as an element of
    `*[n][]byte`, as a field of a struct. The rest of the condition is the part of the (column type, Go type) space
    the claim is not made for: a struct for a UDT column that has a field NO field of the column's type names (the
    application's own field: a non-empty value never touches it, a fresh struct has it zero) or whose type names one
    struct field twice; nested in-place composites (`[n]T` / structs inside `[n]T` / structs); `[n]T` / structs on
    other column types. With the repair of KF-C04-7 (unmarshalUDT resets the fields a value does not carry) a UDT
    value with FEWER fields than the type into a reused struct is INSIDE the claim
    (`C04_fixed_udt_struct_resets_missing_fields`, `C04_struct_excluded_exactly`), as are a struct whose every field
    is written and a `*[n]T` of stateless elements. -/
theorem C04_rows_independent_partial (p : Nat) (m : Meta) (rs : List (List Cell)) (tys : List GoTy) (vals0 : List GoVal)
    (hcols : ∀ n g, m.cols ≠ .omitted n g) (hw : wfRows (colTypes m.cols) rs = true)
    (hW : totalWidth (colTypes m.cols) = tys.length) (hv : vals0.length = tys.length)
    (hins : ∀ row ∈ typedRows (colTypes m.cols) rs, insensitive tys (rowCalls 0 row) = true) :
    let it := iterOf (viewMeta m) rs.length (eRows rs)
    (scanAllT p tys (rs.length + 1) it vals0).map (fun r => (r.1, r.2.failed, r.2.pos))
      = (deliver p tys ((typedRows (colTypes m.cols) rs).map (rowCalls 0))).map
          (fun lf => (lf.1, lf.2, (lf.1.length : Int))) := by
  intro it
  obtain ⟨h1, h2, h3⟩ := typedRows_props (colTypes m.cols) rs hw
  have := scanAllT_ok p tys (typedRows (colTypes m.cols) rs) (colTypes m.cols) it vals0 rfl
    (by simp [it, iterOf, typedRows]) (by simpa [it, iterOf, viewMeta] using colsMatch_view m.cols) h1 h2 hW
    (by rw [← hW]; simpa [it, iterOf, viewMeta] using actualCount_eq m.cols hcols)
    (by simp [it, iterOf, h3]) hv hins
  simpa [typedRows, it, iterOf] using this

open RowsReuse Marshal in
/-- the same through the Scanner (`for sc.Next() { sc.Scan(&x0, …, &xk) }`): a cell that does not decode makes
    that Scan return an error (iter.err stays unset) -/
theorem C04_rows_independent_scanner_partial (p : Nat) (m : Meta) (rs : List (List Cell)) (tys : List GoTy)
    (vals0 : List GoVal)
    (hcols : ∀ n g, m.cols ≠ .omitted n g) (hw : wfRows (colTypes m.cols) rs = true)
    (hW : totalWidth (colTypes m.cols) = tys.length) (hv : vals0.length = tys.length)
    (hins : ∀ row ∈ typedRows (colTypes m.cols) rs, insensitive tys (rowCalls 0 row) = true) :
    let it := iterOf (viewMeta m) rs.length (eRows rs)
    (scannerAllT p tys (rs.length + 1) it.scanner vals0).map (fun r => (r.1, r.2.1, r.2.2.it.failed))
      = (deliver p tys ((typedRows (colTypes m.cols) rs).map (rowCalls 0))).map (fun lf => (lf.1, lf.2, false)) := by
  intro it
  obtain ⟨h1, h2, h3⟩ := typedRows_props (colTypes m.cols) rs hw
  have hcm : colsMatch (viewCols m.cols) (colTypes m.cols) := colsMatch_view m.cols
  have hlen : (viewCols m.cols).length = (colTypes m.cols).length := by
    have := congrArg List.length hcm
    simpa using this
  have := scannerAllT_ok p tys (typedRows (colTypes m.cols) rs) (colTypes m.cols) it.scanner vals0 rfl
    (by simp [it, iterOf, Iter.scanner, typedRows]) (by simp [it, iterOf, Iter.scanner, viewMeta, hlen])
    (by simpa [it, iterOf, Iter.scanner, viewMeta] using hcm) h1 h2 hW
    (by rw [← hW]; simpa [it, iterOf, Iter.scanner, viewMeta] using actualCount_eq m.cols hcols)
    (by simp [it, iterOf, Iter.scanner, h3]) hv hins
  simpa [typedRows, it, iterOf] using this

open RowsReuse Marshal in
/-- the same through MapScan used with pointers (`row := map[string]interface{}{"c": &x, …}` — a NEW map on every
    call, the SAME variables; helpers.go 418-433): when RowData names every destination (every column has a Go type)
    and the names are distinct, the loop delivers exactly what the Scan loop delivers -/
theorem C04_rows_independent_mapscan_partial (p : Nat) (m : Meta) (rs : List (List Cell)) (tys : List GoTy)
    (vals0 : List GoVal) (names : List FrameRead.Bytes)
    (hcols : ∀ n g, m.cols ≠ .omitted n g) (hwc : wfCols m.cols = true) (hw : wfRows (colTypes m.cols) rs = true)
    (hnames : rowDataSpec m.cols = some names) (hd : names.Nodup)
    (hW : totalWidth (colTypes m.cols) = tys.length) (hv : vals0.length = tys.length)
    (hins : ∀ row ∈ typedRows (colTypes m.cols) rs, insensitive tys (rowCalls 0 row) = true) :
    let it := iterOf (viewMeta m) rs.length (eRows rs)
    (mapScanAllT p tys (rs.length + 1) it vals0).map (fun r => (r.1, r.2.failed, r.2.pos))
      = (deliver p tys ((typedRows (colTypes m.cols) rs).map (rowCalls 0))).map
          (fun lf => (lf.1, lf.2, (lf.1.length : Int))) := by
  intro it
  have hrd : rowDataColumns (viewCols m.cols) = .ok names := by
    rw [rowDataColumns_view m.cols hwc, hnames]
  have hn : rowDataNames it.md.columns = some names := by
    simp [it, iterOf, viewMeta, rowDataNames, hrd]
  have hl : names.length = tys.length := by
    rw [← hW]; exact rowDataColumns_length (viewCols m.cols) (colTypes m.cols) names (colsMatch_view m.cols) hrd
  rw [mapScanAllT_eq p tys names _ it vals0 hn hl hd]
  exact C04_rows_independent_partial p m rs tys vals0 hcols hw hW hv hins

open RowsReuse Marshal in
/-- ROWS ARE INDEPENDENT, without an excluded condition, for every destination list made of the Go types whose
    Unmarshal never looks at the destination (`statelessTy`: `*string`, `*int…`, `*bool`, `*float…`, `*time.Time`,
    `*gocql.UUID`, `*[16]byte`, `*big.Int`, `*inf.Dec`, `*net.IP`, `*gocql.Duration`, named `[]byte` types, `*[]T`,
    `*map[K]V`, `*map[string]interface{}`, `**T`, `*interface{}` — every type except the unnamed `[]byte`, `[n]T` and
    structs), any column types, ANY cells (null / empty / values / undecodable) in any order, ANY initial destination
    values, through Scan and through the Scanner. -/
theorem C04_rows_independent (p : Nat) (m : Meta) (rs : List (List Cell)) (tys : List GoTy) (vals0 : List GoVal)
    (hcols : ∀ n g, m.cols ≠ .omitted n g) (hw : wfRows (colTypes m.cols) rs = true)
    (hW : totalWidth (colTypes m.cols) = tys.length) (hv : vals0.length = tys.length)
    (hst : tys.all statelessTy = true) :
    let it := iterOf (viewMeta m) rs.length (eRows rs)
    let spec := deliver p tys ((typedRows (colTypes m.cols) rs).map (rowCalls 0))
    (scanAllT p tys (rs.length + 1) it vals0).map (fun r => (r.1, r.2.failed, r.2.pos))
        = spec.map (fun lf => (lf.1, lf.2, (lf.1.length : Int))) ∧
      (scannerAllT p tys (rs.length + 1) it.scanner vals0).map (fun r => (r.1, r.2.1, r.2.2.it.failed))
        = spec.map (fun lf => (lf.1, lf.2, false)) :=
  ⟨C04_rows_independent_partial p m rs tys vals0 hcols hw hW hv (fun _ _ => insensitive_of_stateless tys hst _),
   C04_rows_independent_scanner_partial p m rs tys vals0 hcols hw hW hv (fun _ _ => insensitive_of_stateless tys hst _)⟩

open RowsReuse Marshal in
/-- what `deliver` means row by row: the values delivered for row i are the fresh decodes of row i's own calls -/
theorem C04_row_is_own_decode (p : Nat) (tys : List GoTy) (rows : List (List Call)) (l : List (List GoVal)) (f : Bool)
    (h : deliver p tys rows = some (l, f)) (i : Nat) (vs : List GoVal) (hi : l[i]? = some vs) :
    ∃ calls, rows[i]? = some calls ∧ freshCalls p tys calls = .ok vs := by
  induction rows generalizing l i with
  | nil => simp [deliver] at h; obtain ⟨rfl, _⟩ := h; simp at hi
  | cons calls more ih =>
    simp only [deliver] at h
    cases hfc : freshCalls p tys calls with
    | bad => rw [hfc] at h; simp at h
    | err => rw [hfc] at h; simp at h; obtain ⟨rfl, _⟩ := h; simp at hi
    | ok v0 =>
      rw [hfc] at h
      cases hd : deliver p tys more with
      | none => rw [hd] at h; simp at h
      | some lf =>
        rw [hd] at h
        simp only [Option.map_some, Option.some.injEq, Prod.mk.injEq] at h
        obtain ⟨rfl, rfl⟩ := h
        cases i with
        | zero => simp at hi; subst hi; exact ⟨calls, by simp, hfc⟩
        | succ j =>
          simp only [List.getElem?_cons_succ] at hi
          obtain ⟨c, hc1, hc2⟩ := ih lf.1 hd j hi
          exact ⟨c, by simpa using hc1, hc2⟩

/-- a page with one blob column `c` -/
def blobPage (rows : List (List Cell)) : Iter :=
  iterOf (viewMeta { paging := none, cols := .global b!"ks" b!"t" [(b!"c", .native 3)] }) rows.length (eRows rows)

open RowsReuse Marshal in
/-- KF-C04-6 (OPEN), the excluded condition is needed: an EMPTY (zero-length, non-null) blob cell scanned into a
    `[]byte` variable is reported as an empty non-nil slice when the previous row's cell was a value (rows "a", "")
    and as nil when it was null (rows null, "") — or when the variable is fresh (KF-C02-2): what the second row
    delivers depends on the first. (`unmarshalVarchar`: `*v = append((*v)[:0], data...)`.) -/
theorem C04_cex_empty_cell_depends_on_history :
    (scanAllT 4 [.bytes false] 3 (blobPage [[.bytes [0x61]], [.bytes []]]) [.bytes false true []]).map (·.1)
      = some [[.bytes false false [0x61]], [.bytes false false []]] ∧
    (scanAllT 4 [.bytes false] 3 (blobPage [[.null], [.bytes []]]) [.bytes false true []]).map (·.1)
      = some [[.bytes false true []], [.bytes false true []]] ∧
    unmarshalFresh 4 (some .blob) (.bytes false) (some []) = .ok (.bytes false true []) ∧
    sensitive (some .blob) (.bytes false) (some []) = true :=
  ⟨by rfl, by rfl, by rfl, by rfl⟩

open RowsReuse Marshal in
/-- the seeded defect of this family is NOT in the excluded class: null after a value into a reused `[]byte` is
    covered by `C04_rows_independent_partial` (the model delivers nil) -/
theorem C04_null_after_value_bytes :
    insensitive [.bytes false] (rowCalls 0 [(TypeDesc.native 3, Cell.bytes [0x61, 0x62])]) = true ∧
    insensitive [.bytes false] (rowCalls 0 [(TypeDesc.native 3, Cell.null)]) = true ∧
    (scanAllT 4 [.bytes false] 3 (blobPage [[.bytes [0x61, 0x62]], [.null]]) [.bytes false true []]).map (·.1)
      = some [[.bytes false false [0x61, 0x62]], [.bytes false true []]] :=
  ⟨by rfl, by rfl, by rfl⟩

/-- the UDT `u (a int, b varchar)`, a struct `{A int "cql:a"; B string "cql:b"}` -/
def cexUdt : ValueSpec.CqlTy := .udt ["a", "b"] [.int, .varchar]
def cexUdtStruct : Marshal.GoTy := .udtstruct ["a", "b"] [.int .int false, .str false]
/-- the value (a = 1, b = "x") -/
def cexUdtFull : FrameRead.Bytes := [0, 0, 0, 4, 0, 0, 0, 1, 0, 0, 0, 1, 0x78]
/-- the value (a = 5) of a row written before field `b` was added to the type: a UDT value may carry fewer fields
    than the type has (native protocol, section 6 "User Defined Type") -/
def cexUdtShort : FrameRead.Bytes := [0, 0, 0, 4, 0, 0, 0, 5]

open RowsReuse Marshal in
/-- KF-C04-7 repaired: a UDT value with fewer fields than the type, unmarshalled into a struct that still holds the
    previous row's value (1, "x"), resets the missing field `b`: the struct holds (5, "") — what the value decodes to
    on its own; and so for EVERY value `prev` the struct may hold (the short value is outside the excluded condition:
    `C04_rows_independent_partial` covers the page (a=1, b="x"), (a=5) read with `var u T; for iter.Scan(&u)`). -/
theorem C04_fixed_udt_struct_resets_missing_fields :
    unmarshalFresh 4 (some cexUdt) cexUdtStruct (some cexUdtFull)
      = .ok (.udtstruct ["a", "b"] [.int .int false 1, .str false [0x78]]) ∧
    unmarshalFresh 4 (some cexUdt) cexUdtStruct (some cexUdtShort)
      = .ok (.udtstruct ["a", "b"] [.int .int false 5, .str false []]) ∧
    unmarshalInto 4 (some cexUdt) cexUdtStruct (some cexUdtShort) (.udtstruct ["a", "b"] [.int .int false 1, .str false [0x78]])
      = .ok (.udtstruct ["a", "b"] [.int .int false 5, .str false []]) ∧
    (∀ prev, unmarshalInto 4 (some cexUdt) cexUdtStruct (some cexUdtShort) prev
      = unmarshalFresh 4 (some cexUdt) cexUdtStruct (some cexUdtShort)) := by
  have d5 : decInt [0, 0, 0, 5] = 5 := by decide
  have d1 : decInt [0, 0, 0, 1] = 1 := by decide
  have us_int : ∀ (isNil : Bool) (d : FrameRead.Bytes),
      unmarshalScalar .int isNil d (.int .int false) = .ok (.int .int false (decInt d)) := fun _ _ => rfl
  have us_vc : ∀ (isNil : Bool) (d : FrameRead.Bytes),
      unmarshalScalar .varchar isNil d (.str false) = .ok (.str false d) := fun _ _ => rfl
  have l1 : lookupIdx "a" ["a", "b"] 0 = some 0 := by decide
  have l2 : lookupIdx "b" ["a", "b"] 0 = some 1 := by decide
  have r1 : readBytesM [0, 0, 0, 4, 0, 0, 0, 5] = some (some [0, 0, 0, 5], []) := by decide
  have r2 : readBytesM cexUdtFull = some (some [0, 0, 0, 1], [0, 0, 0, 1, 0x78]) := by decide
  have r3 : readBytesM [0, 0, 0, 1, 0x78] = some (some [0x78], []) := by decide
  have b5 : ∀ prev, intoBase 4 .int (.int .int false) (some [0, 0, 0, 5]) prev = .ok (.int .int false 5) := by
    intro prev
    simp [intoBase, unmarshalBase, us_int, dataBytes, d5]
  have hshort : unmarshalFresh 4 (some cexUdt) cexUdtStruct (some cexUdtShort)
      = .ok (.udtstruct ["a", "b"] [.int .int false 5, .str false []]) := by
    simp [unmarshalFresh, unmarshal, withPtr, stripPtr, cexUdt, cexUdtStruct, cexUdtShort, unmarshalBase, dataBytes,
      unmarshalUdtStruct, zeroOf, zeroOfs, ValueSpec.shorter, r1, l1, us_int, d5]
  have hsens : sensitive (some cexUdt) cexUdtStruct (some cexUdtShort) = false := by decide
  refine ⟨?_, hshort, ?_, ?_⟩
  · simp [unmarshalFresh, unmarshal, withPtr, stripPtr, cexUdt, cexUdtStruct, unmarshalBase, dataBytes, unmarshalUdtStruct,
      zeroOf, zeroOfs, ValueSpec.shorter, r2, r3, l1, l2, us_int, us_vc, d1]
    simp [cexUdtFull, ValueSpec.shorter]
  · rw [unmarshalInto_fresh 4 (some cexUdt) cexUdtStruct (some cexUdtShort) _ hsens, hshort]
  · intro prev
    exact unmarshalInto_fresh 4 (some cexUdt) cexUdtStruct (some cexUdtShort) prev hsens

open RowsReuse Marshal in
/-- regression about the OLD definition (unmarshalUDT before the repair of KF-C04-7 returned as soon as the value's
    data was used up): the short value (a = 5) into the struct that holds (1, "x") kept the previous row's "x" -/
def udtIntoOld (p : Nat) : List String → List ValueSpec.CqlTy → List String → List GoTy → FrameRead.Bytes → List GoVal → LRes (List GoVal)
  | name :: names, t :: ts, fnames, gs, data, acc =>
    if data = [] then .ok acc data
    else if ValueSpec.shorter data 4 then .err
    else (match readBytesM data with
     | none => .err
     | some (item, r) =>
       (match lookupIdx name fnames 0 with
        | none => udtIntoOld p names ts fnames gs r acc
        | some i => (match gs[i]? with
          | none => udtIntoOld p names ts fnames gs r acc
          | some g => (match intoBase p t g item (acc.getD i .nil) with
            | .ok v => udtIntoOld p names ts fnames gs r (acc.set i v)
            | .err => .err | .crash => .crash | .unmodelled => .unmodelled))))
  | _, _, _, _, data, acc => .ok acc data

open RowsReuse Marshal in
example : udtIntoOld 4 ["a", "b"] [.int, .varchar] ["a", "b"] [.int .int false, .str false] cexUdtShort
      [.int .int false 1, .str false [0x78]] = .ok [.int .int false 5, .str false [0x78]] [] := by
  have d5 : decInt [0, 0, 0, 5] = 5 := by decide
  have us_int : ∀ (isNil : Bool) (d : FrameRead.Bytes),
      unmarshalScalar .int isNil d (.int .int false) = .ok (.int .int false (decInt d)) := fun _ _ => rfl
  have l1 : lookupIdx "a" ["a", "b"] 0 = some 0 := by decide
  have r1 : readBytesM [0, 0, 0, 4, 0, 0, 0, 5] = some (some [0, 0, 0, 5], []) := by decide
  simp [udtIntoOld, cexUdtShort, ValueSpec.shorter, r1, l1, intoBase, unmarshalBase, us_int, dataBytes, d5]

open RowsReuse Marshal in
/-- the excluded condition on structs is exactly "some field of the struct is neither written nor reset": the full
    value (a, b) into the struct {a, b} is INSIDE `C04_rows_independent_partial` (whatever the struct held), and —
    with the repair of KF-C04-7 — so is the short value (a): `b` is reset; a null value resets the struct and is
    inside; the struct {a, zz} — `zz` is not a field of the type — is outside for a non-empty value (nothing writes
    `zz`) and inside for null; `*[3]int` for a list<int> column is inside, `*[3][]byte` for a list<blob> column is
    outside (an empty element: KF-C04-6) -/
theorem C04_struct_excluded_exactly :
    sensitive (some cexUdt) cexUdtStruct (some cexUdtFull) = false ∧
    sensitive (some cexUdt) cexUdtStruct (some cexUdtShort) = false ∧
    sensitive (some cexUdt) cexUdtStruct none = false ∧
    sensitive (some cexUdt) (.udtstruct ["a", "zz"] [.int .int false, .str false]) (some cexUdtShort) = true ∧
    sensitive (some cexUdt) (.udtstruct ["a", "zz"] [.int .int false, .str false]) none = false ∧
    (∀ d, sensitive (some (.list .int)) (.array 3 (.int .int false)) d = false) ∧
    (∀ d, sensitive (some (.list .blob)) (.array 3 (.bytes false)) d = true) := by
  refine ⟨by decide, by decide, by decide, by decide, by decide, fun _ => rfl, fun _ => rfl⟩

/-! ## 6. non-vacuity -/

/-- a v4 ERROR Unavailable with tracing, warnings and custom payload is well-formed -/
example : wf 4 { stream := 7, tracing := some (List.replicate 16 7), warnings := some [b!"w"],
                 payload := some [(b!"k", some [1]), (b!"n", none)], beta := false,
                 body := .error b!"x" (.unavailable 4 3 2) } = true := by decide

/-- a v5 prepared result with nested types (a bare collection class among them), pk indexes and both
    metadata blocks is well-formed -/
def exPrepared : LResp :=
  { stream := 3, tracing := none, warnings := none, payload := none, beta := true,
    body := .result (.prepared [0xAB] [0, 1]
      { paging := none, cols := .global b!"ks" b!"t"
          [(b!"a", .map (.native 13) (.list (.udt b!"ks" b!"u" (.cons b!"f" (.tuple (.cons (.native 9) .nil)) .nil)))),
           (b!"b", .custom b!"org.apache.cassandra.db.marshal.UTF8Type"),
           (b!"c", .list (.custom b!"org.apache.cassandra.db.marshal.MapType"))] }
      (some { paging := some [9], cols := .perCol [{ ks := b!"ks", table := b!"t", name := b!"c", typ := .set (.native 2) }] })) }

example : wf 5 exPrepared = true := by decide

example : parseResp 5 (hdr 5 exPrepared) (encodeBody 5 exPrepared) = .ok (view 5 exPrepared, []) :=
  C04_decode_encode 5 exPrepared (by decide)

/-- the page of the witnesses satisfies the hypotheses of C04_cells_scan / C04_cells_scanner -/
example : wfRows (colTypes cexMeta.cols) cexRows = true := by decide

/-- a page served although skip-metadata was asked satisfies the hypotheses of C04_skip_metadata -/
example : wfRows (colTypes (effCols cexMeta { paging := none, cols := .global b!"ks" b!"t" [(b!"b", .native 13)] }))
    [[.bytes [0x78]]] = true := by decide

/-- MapScan's hypotheses are satisfiable: names of the witness page -/
example : rowDataSpec cexMeta.cols = some [b!"t[0]", b!"t[1]", b!"a"] := by decide

/-- the hypotheses of C04_rows_independent are satisfiable: a page (c0 blob, c1 int) read into (*string, **int) -/
example : wfRows (colTypes (Cols.global b!"ks" b!"t" [(b!"c0", .native 3), (b!"c1", .native 9)]))
    [[.bytes [0x61], .bytes [0, 0, 0, 1]], [.null, .null]] = true ∧
    totalWidth (colTypes (Cols.global b!"ks" b!"t" [(b!"c0", .native 3), (b!"c1", .native 9)]))
      = [Marshal.GoTy.str false, .ptr (.int .int false)].length ∧
    [Marshal.GoTy.str false, .ptr (.int .int false)].all statelessTy = true := by decide

/-! ### KF-C04-8 (REPAIRED: props/C04.fix-KF-C04-8.diff): Query.MapScanCAS no longer panics where MapScan fails -/

/-- a lightweight-transaction result: `[applied]` boolean and `c` of the custom type `x.Y`, one row (true, 00) -/
def cexCasResp : LResp :=
  { stream := 7, tracing := none, warnings := none, payload := none, beta := false,
    body := .result (.rows { paging := none, cols := .global b!"ks" b!"t" [(b!"[applied]", .native 4), (b!"c", .custom b!"x.Y")] }
      [[.bytes [1], .bytes [0]]]) }

def cexCasQ : Paged.QIter :=
  qOf cexCasResp { paging := none, cols := .global b!"ks" b!"t" [(b!"[applied]", .native 4), (b!"c", .custom b!"x.Y")] }
    [[.bytes [1], .bytes [0]]]

/-- the former witness of KF-C04-8: the response is well-formed, it is what executeQuery hands to MapScanCAS, ScanCAS
    reports applied = true and the cell of `c` — and MapScanCAS now RETURNS (false, an error) instead of panicking -/
theorem C04_fixed_mapscancas_error :
    wf 4 cexCasResp = true ∧
    Paged.execute 4 true [encodeFrame 4 cexCasResp] = some (cexCasQ, []) ∧
    (Paged.scanCAS cexCasQ 1).map (fun x => (x.1, x.2.1.map (fun c => (c.dest, c.data)))) = some (true, [(0, some [0])]) ∧
    (Paged.mapScanCAS cexCasQ).map (fun x => (x.1, x.2.1)) = some (false, []) := by
  refine ⟨by decide, ?_, by decide, by decide⟩
  exact (C04_query_view 4 cexCasResp [] (by decide) (by decide)).1 _ _ rfl

open Paged in
/-- FULL PROPERTY (holds since the repair): Query.MapScanCAS panics ONLY where Iter.MapScan itself panics — for EVERY
    iterator; in every other case it returns `applied`, the columns and an error value -/
theorem C04_mapscancas_no_panic (q : QIter) (h : mapScan q.it ≠ .crash) : (mapScanCAS q).isSome = true := by
  unfold mapScanCAS
  split
  · rfl
  · split
    · rfl
    · cases hm : mapScan q.it with
      | crash => exact absurd hm h
      | stop it' => rfl
      | row it' m =>
        simp only
        split <;> rfl

open Paged in
/-- … and on the iterator of EVERY well-formed RESULT/Rows page (any column types, with or without a Go type, with or
    without an `[applied]` column; RowData names distinct) Iter.MapScan does not panic, hence MapScanCAS returns -/
theorem C04_mapscancas_total (r : LResp) (m : Meta) (rs : List (List Cell))
    (hcols : ∀ n g, m.cols ≠ .omitted n g) (hwc : wfCols m.cols = true) (hw : wfRows (colTypes m.cols) rs = true)
    (hd : ∀ names, rowDataSpec m.cols = some names → names.Nodup) :
    (mapScanCAS (qOf r m rs)).isSome = true := by
  apply C04_mapscancas_no_panic
  show mapScan (iterOf (viewMeta m) rs.length (eRows rs)) ≠ .crash
  cases hs : rowDataSpec m.cols with
  | none =>
    obtain ⟨_, h1, h2⟩ := C04_no_go_type_is_error m rs hcols hwc hw hs
    cases rs with
    | nil => rw [(h2 rfl).1]; exact fun h => by cases h
    | cons row more => rw [(h1 (by simp)).1]; exact fun h => by cases h
  | some names =>
    cases rs with
    | nil => simp [mapScan, scan, iterOf, (C04_rowdata_total m.cols hwc).2, viewMeta]
    | cons row more =>
      rw [C04_cells_mapscan m row more names hcols hwc hw hs (hd names hs)]
      exact fun h => by cases h

example : (Paged.mapScanCAS cexCasQ).isSome = true :=
  C04_mapscancas_total cexCasResp _ _ (by intro n g h; cases h) (by decide) (by decide) (by intro names h; cases h)

/-- the hypotheses of C04_pages_scan / C04_pages_scan_error are satisfiable: a query of two pages, `c blob` with the
    rows (01), (null) and a paging state, then — the column named differently, per-column table spec — (02) -/
def exPage1 : RowsPage :=
  { r := { stream := 1, tracing := some (List.replicate 16 9), warnings := none, payload := none, beta := false,
           body := .result (.rows { paging := some [1], cols := .global b!"ks" b!"t" [(b!"c", .native 3)] } [[.bytes [1]], [.null]]) },
    m := { paging := some [1], cols := .global b!"ks" b!"t" [(b!"c", .native 3)] }, rs := [[.bytes [1]], [.null]] }
def exPage2 : RowsPage :=
  { r := { stream := 2, tracing := none, warnings := some [b!"w"], payload := none, beta := false,
           body := .result (.rows { paging := none, cols := .perCol [{ ks := b!"ks", table := b!"t", name := b!"d", typ := .native 3 }] } [[.bytes [2]]]) },
    m := { paging := none, cols := .perCol [{ ks := b!"ks", table := b!"t", name := b!"d", typ := .native 3 }] }, rs := [[.bytes [2]]] }

theorem exPage1_ok : PageOk 4 1 exPage1 := ⟨by decide, by decide, rfl, (by intro n g h; cases h), by decide, by decide⟩
theorem exPage2_ok : PageOk 4 1 exPage2 := ⟨by decide, by decide, rfl, (by intro n g h; cases h), by decide, by decide⟩

example : Paged.pdrain 4 [true] 4 [encodeFrame 4 exPage2.r] (pageQ exPage1)
    = some ([exPage1, exPage2].flatMap pageCalls, atEnd (pageQ exPage2), []) :=
  (C04_pages_scan 4 1 exPage1 [exPage2] exPage1_ok (by intro x hx; simp at hx; subst hx; exact exPage2_ok) ⟨rfl, trivial⟩ rfl).1

/-- three cells in order, the third typed by the second page's own metadata -/
example : [exPage1, exPage2].flatMap pageCalls
    = [[{ dest := 0, typ := blobT, data := some [1] }], [{ dest := 0, typ := blobT, data := none }],
       [{ dest := 0, typ := blobT, data := some [2] }]] := rfl

/-- a v4 Unavailable after the first page satisfies the hypotheses of C04_pages_scan_error -/
def exUnavailable : LResp :=
  { stream := 3, tracing := none, warnings := none, payload := none, beta := false, body := .error b!"no" (.unavailable 1 2 1) }
example : Paged.pdrain 4 [true] 4 [encodeFrame 4 exUnavailable] (pageQ exPage1)
    = some ([exPage1].flatMap pageCalls, qErr exUnavailable b!"no" (.unavailable 1 2 1), []) :=
  C04_pages_scan_error 4 1 exPage1 [] exUnavailable b!"no" (.unavailable 1 2 1) exPage1_ok (by simp) trivial rfl
    (by decide) (by decide) rfl (by intro id h; cases h)

/-- C04_query_view's hypotheses: the same responses as first answers -/
example : Paged.execute 4 true [encodeFrame 4 exUnavailable] = some (qErr exUnavailable b!"no" (.unavailable 1 2 1), []) :=
  (C04_query_view 4 exUnavailable [] (by decide) (by decide)).2.1 _ _ rfl (by intro id h; cases h)

/-- the Scanner's hypotheses on the same two pages (one column each) -/
example : ∃ s1 : Paged.PScanner, Paged.pdrainS 4 [true] 4 [encodeFrame 4 exPage2.r] (pageQ exPage1).scanner
    = some ([exPage1, exPage2].flatMap pageCalls, s1, []) ∧ s1.q = atEnd (pageQ exPage2) ∧ s1.q.err = none :=
  C04_pages_scanner 4 1 1 exPage1 [exPage2] ⟨exPage1_ok, rfl⟩ (by intro x hx; simp at hx; subst hx; exact ⟨exPage2_ok, rfl⟩) ⟨rfl, trivial⟩ rfl

end C04
