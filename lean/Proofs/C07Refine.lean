import Proofs.C07Machine
/-!
  Refinement between the two writer machines of `Model/Writer.lean`, as far as the BYTE STREAM is concerned:

  * `co_refines_direct`  : every schedule of the coalescing writer (enqueue, flush timer, batches, result fan-out, quit
    branch, ...) is matched, action by action, by a schedule of the direct writer (semaphore) with the same frame lengths
    that puts the SAME pieces on the wire in the same order - the projection `wireActs` of the schedule itself;
  * `direct_refines_co`  : and conversely every schedule of the direct writer is matched by a schedule of the coalescing
    writer (each acquisition of the semaphore becomes `enqueue ; tick ; enter`, a batch of one).

  So the two machines have exactly the same reachable byte streams: coalescing adds none and removes none.
-/
namespace Writer

/-- the actions that matter for the wire of the direct writer: a request arrives, its Write begins, bytes, the Write ends -/
def Act.isWire : Act → Bool
  | .submit _ | .enter _ | .piece _ _ | .endWrite _ _ => true
  | _ => false

def wireActs (as : List Act) : List Act := as.filter Act.isWire

/-- the same machine with the direct writer -/
def Cfg.direct (cfg : Cfg) : Cfg := { cfg with coalesce := false }

/-- control state of a writer in the abstract (direct) machine, as determined by the concrete one: not yet arrived /
    arrived and its Write has not begun (waiting for the semaphore, for the hand-over, enqueued, in a batch) / inside the
    Write with `off` bytes out; once the concrete writer has left the select or its Write has ended, nothing is required -/
def pcRel (c d : Pc) : Prop :=
  match c with
  | .idle => d = .idle
  | .waiting => d = .waiting
  | .queued => d = .waiting
  | .inWrite off => d = .inWrite off
  | _ => True

structure Sim (c d : St) : Prop where
  wire : d.wire = c.wire
  owner : d.owner = c.owner
  open_ : c.closed = false → d.closed = false
  pcs : ∀ w, pcRel (c.pc w) (d.pc w)

theorem sim_init : Sim init init := ⟨rfl, rfl, fun h => h, fun _ => rfl⟩

theorem pcRel_setPc_left {c d : St} (h : ∀ w, pcRel (c.pc w) (d.pc w)) (x : Nat) (v : Pc) (hv : pcRel v (d.pc x)) :
    ∀ w, pcRel (setPc c.pc x v w) (d.pc w) := by
  intro w
  by_cases e : w = x
  · subst e; rw [setPc_same]; exact hv
  · rw [setPc_other _ _ _ _ e]; exact h w

theorem pcRel_setPc_both {c d : St} (h : ∀ w, pcRel (c.pc w) (d.pc w)) (x : Nat) (v v' : Pc) (hv : pcRel v v') :
    ∀ w, pcRel (setPc c.pc x v w) (setPc d.pc x v' w) := by
  intro w
  by_cases e : w = x
  · subst e; rw [setPc_same, setPc_same]; exact hv
  · rw [setPc_other _ _ _ _ e, setPc_other _ _ _ _ e]; exact h w

/-- one step of the concrete machine (either writer) is matched by its projection on the direct machine -/
theorem sim_step (cfg : Cfg) (c c' d : St) (a : Act) (h : Sim c d) (hs : step cfg c a = some c') :
    ∃ d', run cfg.direct d (wireActs [a]) = some d' ∧ Sim c' d' := by
  obtain ⟨hw, ho, hop, hp⟩ := h
  cases a with
  | submit x =>
    simp only [step] at hs
    split at hs
    · rename_i hg
      injection hs with hs; subst hs
      have hd : d.pc x = .idle := by have := hp x; rw [hg] at this; exact this
      refine ⟨{ d with pc := setPc d.pc x .waiting }, ?_, ⟨hw, ho, hop, ?_⟩⟩
      · show run cfg.direct d [Act.submit x] = _
        simp [run, step, hd]
      · exact pcRel_setPc_both hp x _ _ rfl
    · simp at hs
  | cancel x =>
    simp only [step] at hs
    split at hs
    · injection hs with hs; subst hs
      exact ⟨d, rfl, ⟨hw, ho, hop, pcRel_setPc_left hp x _ trivial⟩⟩
    · simp at hs
  | enqueue x =>
    simp only [step] at hs
    split at hs
    · rename_i hg
      injection hs with hs; subst hs
      have hd : d.pc x = .waiting := by have := hp x; rw [hg.2.1] at this; exact this
      exact ⟨d, rfl, ⟨hw, ho, hop, pcRel_setPc_left hp x _ hd⟩⟩
    · simp at hs
  | tick =>
    simp only [step] at hs
    split at hs
    · injection hs with hs; subst hs
      exact ⟨d, rfl, ⟨hw, ho, hop, hp⟩⟩
    · simp at hs
  | enter x =>
    simp only [step] at hs
    split at hs
    · rename_i hg
      injection hs with hs; subst hs
      have hd : d.pc x = .waiting := by
        have := hp x
        rcases hg.2 with ⟨_, e⟩ | ⟨_, e, _⟩ <;> (rw [e] at this; exact this)
      refine ⟨{ d with pc := setPc d.pc x (.inWrite 0), owner := some x, todo := d.todo.filter (· ≠ x) }, ?_,
        ⟨hw, rfl, hop, pcRel_setPc_both hp x _ _ rfl⟩⟩
      have hfree : cfg.serialised = true → d.owner = none := fun hser => by rw [ho]; exact hg.1 hser
      show run cfg.direct d [Act.enter x] = _
      have hen : (cfg.direct.serialised = true → d.owner = none) ∧
          ((cfg.direct.coalesce = false ∧ d.pc x = .waiting) ∨
           (cfg.direct.coalesce = true ∧ d.pc x = .queued ∧ d.flushing = true ∧ x ∈ d.todo)) :=
        ⟨hfree, Or.inl ⟨rfl, hd⟩⟩
      simp only [run, step]
      rw [if_pos hen]
    · simp at hs
  | piece x k =>
    simp only [step] at hs
    split at hs
    · rename_i off hx
      split at hs
      · rename_i hg
        injection hs with hs; subst hs
        have hd : d.pc x = .inWrite off := by have := hp x; rw [hx] at this; exact this
        refine ⟨{ d with wire := d.wire ++ [⟨x, off, k⟩], pc := setPc d.pc x (.inWrite (off + k)) }, ?_,
          ⟨by simp [hw], ho, hop, pcRel_setPc_both hp x _ _ rfl⟩⟩
        show run cfg.direct d [Act.piece x k] = _
        have hen : 0 < k ∧ off + k ≤ cfg.direct.lens x ∧ d.closed = false := ⟨hg.1, hg.2.1, hop hg.2.2⟩
        simp only [run, step, hd]
        rw [if_pos hen]
      · simp at hs
    · simp at hs
  | endWrite x ok =>
    simp only [step] at hs
    split at hs
    · rename_i off hx
      split at hs
      · rename_i hg
        injection hs with hs; subst hs
        have hd : d.pc x = .inWrite off := by have := hp x; rw [hx] at this; exact this
        refine ⟨{ d with pc := setPc d.pc x (.wrote off ok), owner := none }, ?_, ⟨hw, rfl, hop, ?_⟩⟩
        · show run cfg.direct d [Act.endWrite x ok] = _
          have hen : ok = true → off = cfg.direct.lens x := hg
          simp only [run, step, hd]
          rw [if_pos hen]
          simp [Cfg.direct]
        · intro w
          dsimp only
          by_cases e : w = x
          · subst e; rw [setPc_same]; trivial
          · rw [setPc_other _ _ _ _ e, setPc_other _ _ _ _ e]
            split
            · by_cases hm : w ∈ c.todo
              · rw [setMany_mem _ _ _ _ hm]; trivial
              · rw [setMany_not_mem _ _ _ _ hm]; exact hp w
            · exact hp w
      · simp at hs
    · simp at hs
  | quit x =>
    simp only [step] at hs
    split at hs
    · injection hs with hs; subst hs
      exact ⟨d, rfl, ⟨hw, ho, hop, pcRel_setPc_left hp x _ trivial⟩⟩
    · simp at hs
  | ret x =>
    simp only [step] at hs
    split at hs <;> first
      | (injection hs with hs; subst hs
         exact ⟨d, rfl, ⟨hw, ho, hop, pcRel_setPc_left hp x _ trivial⟩⟩)
      | (simp at hs)
  | close x =>
    simp only [step] at hs
    split at hs
    · injection hs with hs; subst hs
      refine ⟨d, rfl, ⟨hw, ho, hop, pcRel_setPc_left hp x _ ?_⟩⟩
      split <;> trivial
    · simp at hs
  | closeFinish x =>
    simp only [step] at hs
    split at hs
    · split at hs
      · injection hs with hs; subst hs
        exact ⟨d, rfl,
          ⟨hw, ho, fun hc => by simp at hc, pcRel_setPc_left hp x _ trivial⟩⟩
      · simp at hs
    · simp at hs
  | shutdown =>
    simp only [step] at hs
    injection hs with hs; subst hs
    exact ⟨d, rfl, ⟨hw, ho, fun hc => by simp at hc, hp⟩⟩
  | cancelCtx x =>
    simp only [step] at hs
    split at hs
    · injection hs with hs; subst hs
      exact ⟨d, rfl, ⟨hw, ho, hop, hp⟩⟩
    · simp at hs
  | shutQuit =>
    simp only [step] at hs
    split at hs
    · injection hs with hs; subst hs
      exact ⟨d, rfl, ⟨hw, ho, hop, hp⟩⟩
    · simp at hs
  | flusherQuit =>
    simp only [step] at hs
    split at hs
    · split at hs <;> (injection hs with hs; subst hs
                       exact ⟨d, rfl, ⟨hw, ho, hop, hp⟩⟩)
    · simp at hs

theorem run_append (cfg : Cfg) : ∀ (as bs : List Act) (s s1 s2 : St),
    run cfg s as = some s1 → run cfg s1 bs = some s2 → run cfg s (as ++ bs) = some s2
  | [], bs, s, s1, s2, h1, h2 => by simp [run] at h1; subst h1; simpa using h2
  | a :: as, bs, s, s1, s2, h1, h2 => by
    simp only [run, List.cons_append] at h1 ⊢
    split at h1
    · rename_i s' hs'
      exact run_append cfg as bs s' s1 s2 h1 h2
    · simp at h1

theorem sim_run (cfg : Cfg) : ∀ (as : List Act) (c c' d : St), Sim c d → run cfg c as = some c' →
    ∃ d', run cfg.direct d (wireActs as) = some d' ∧ Sim c' d'
  | [], c, c', d, h, hr => by simp [run] at hr; subst hr; exact ⟨d, by simp [wireActs, run], h⟩
  | a :: as, c, c', d, h, hr => by
    simp only [run] at hr
    split at hr
    · rename_i c1 hc1
      obtain ⟨d1, hd1, h1⟩ := sim_step cfg c c1 d a h hc1
      obtain ⟨d', hd', h'⟩ := sim_run cfg as c1 c' d1 h1 hr
      refine ⟨d', ?_, h'⟩
      have : wireActs (a :: as) = wireActs [a] ++ wireActs as := by simp [wireActs, List.filter_cons]; split <;> simp
      rw [this]
      exact run_append cfg.direct _ _ d d1 d' hd1 hd'
    · simp at hr

/-! ### the converse: the direct writer's schedules on the coalescing machine (batches of one) -/

def Cfg.coalescing (cfg : Cfg) : Cfg := { cfg with coalesce := true }

/-- `enter w` of the direct writer = the flusher receives the request, its timer fires, the Write of the (only) buffer of
    the batch begins -/
def coActs : Act → List Act
  | .submit w => [.submit w]
  | .enter w => [.enqueue w, .tick, .enter w]
  | .piece w k => [.piece w k]
  | .endWrite w ok => [.endWrite w ok]
  | _ => []

def pcRel' (d c : Pc) : Prop :=
  match d with
  | .idle => c = .idle
  | .waiting => c = .waiting
  | .inWrite off => c = .inWrite off
  | _ => True

structure Sim' (d c : St) : Prop where
  wire : c.wire = d.wire
  owner : c.owner = d.owner
  open_ : d.closed = false → c.closed = false
  pcs : ∀ w, pcRel' (d.pc w) (c.pc w)
  todo : c.todo = []
  queue : c.queue = []
  gone : c.gone = false
  fl : c.owner = none → c.flushing = false

theorem setMany_nil (pc : Nat → Pc) (v : Pc) : setMany pc [] v = pc := by
  funext x; simp [setMany]

theorem sim'_init : Sim' init init := ⟨rfl, rfl, fun h => h, fun _ => rfl, rfl, rfl, rfl, fun _ => rfl⟩

theorem pcRel'_setPc_left {d c : St} (h : ∀ w, pcRel' (d.pc w) (c.pc w)) (x : Nat) (v : Pc) (hv : pcRel' v (c.pc x)) :
    ∀ w, pcRel' (setPc d.pc x v w) (c.pc w) := by
  intro w
  by_cases e : w = x
  · subst e; rw [setPc_same]; exact hv
  · rw [setPc_other _ _ _ _ e]; exact h w

theorem pcRel'_setPc_both {d c : St} (h : ∀ w, pcRel' (d.pc w) (c.pc w)) (x : Nat) (v v' : Pc) (hv : pcRel' v v') :
    ∀ w, pcRel' (setPc d.pc x v w) (setPc c.pc x v' w) := by
  intro w
  by_cases e : w = x
  · subst e; rw [setPc_same, setPc_same]; exact hv
  · rw [setPc_other _ _ _ _ e, setPc_other _ _ _ _ e]; exact h w

theorem sim'_step (cfg : Cfg) (hser : cfg.serialised = true) (hc : cfg.coalesce = false) (d d' c : St) (a : Act) (h : Sim' d c)
    (hs : step cfg d a = some d') : ∃ c', run cfg.coalescing c (coActs a) = some c' ∧ Sim' d' c' := by
  obtain ⟨hw, ho, hop, hp, htd, hqu, hgo, hfl⟩ := h
  cases a with
  | submit x =>
    simp only [step] at hs
    split at hs
    · rename_i hg
      injection hs with hs; subst hs
      have hd : c.pc x = .idle := by have := hp x; rw [hg] at this; exact this
      refine ⟨{ c with pc := setPc c.pc x .waiting }, ?_, ⟨hw, ho, hop, pcRel'_setPc_both hp x _ _ rfl, htd, hqu, hgo, hfl⟩⟩
      show run cfg.coalescing c [Act.submit x] = _
      simp [run, step, hd]
    · simp at hs
  | enter x =>
    simp only [step] at hs
    split at hs
    · rename_i hg
      injection hs with hs; subst hs
      have hdw : d.pc x = .waiting := by
        rcases hg.2 with ⟨_, e⟩ | ⟨e, _⟩
        · exact e
        · rw [hc] at e; cases e
      have hcw : c.pc x = .waiting := by have := hp x; rw [hdw] at this; exact this
      have hfree : c.owner = none := by rw [ho]; exact hg.1 hser
      have hflf := hfl hfree
      let c3 : St := { c with pc := setPc (setPc c.pc x .queued) x (.inWrite 0), owner := some x, queue := [], flushing := true }
      refine ⟨c3, ?_, ⟨hw, rfl, hop, ?_, htd, rfl, hgo, fun h => by simp [c3] at h⟩⟩
      · show run cfg.coalescing c [Act.enqueue x, Act.tick, Act.enter x] = _
        let c1 : St := { c with pc := setPc c.pc x .queued, queue := [x] }
        let c2 : St := { c with pc := setPc c.pc x .queued, queue := [], flushing := true, todo := [x] }
        have h1 : step cfg.coalescing c (.enqueue x) = some c1 := by
          have hen : cfg.coalescing.coalesce = true ∧ c.pc x = .waiting ∧ c.flushing = false ∧ c.gone = false :=
            ⟨rfl, hcw, hflf, hgo⟩
          simp only [step]
          rw [if_pos hen, hqu]; rfl
        have h2 : step cfg.coalescing c1 .tick = some c2 := by
          have hen : cfg.coalescing.coalesce = true ∧ c1.flushing = false ∧ c1.queue ≠ [] ∧ c1.gone = false :=
            ⟨rfl, hflf, by simp [c1], hgo⟩
          simp only [step]
          rw [if_pos hen]
        have h3 : step cfg.coalescing c2 (.enter x) = some c3 := by
          have hen : (cfg.coalescing.serialised = true → c2.owner = none) ∧
              ((cfg.coalescing.coalesce = false ∧ c2.pc x = .waiting) ∨
               (cfg.coalescing.coalesce = true ∧ c2.pc x = .queued ∧ c2.flushing = true ∧ x ∈ c2.todo)) :=
            ⟨fun _ => hfree, Or.inr ⟨rfl, setPc_same _ _ _, rfl, by simp [c2]⟩⟩
          simp only [step]
          rw [if_pos hen]
          simp [c2, c3, htd]
        simp only [run, h1, h2, h3]
      · intro w
        show pcRel' (setPc d.pc x (.inWrite 0) w) (setPc (setPc c.pc x .queued) x (.inWrite 0) w)
        by_cases e : w = x
        · subst e; rw [setPc_same, setPc_same]; rfl
        · rw [setPc_other _ _ _ _ e, setPc_other _ _ _ _ e, setPc_other _ _ _ _ e]; exact hp w
    · simp at hs
  | piece x k =>
    simp only [step] at hs
    split at hs
    · rename_i off hx
      split at hs
      · rename_i hg
        injection hs with hs; subst hs
        have hd : c.pc x = .inWrite off := by have := hp x; rw [hx] at this; exact this
        refine ⟨{ c with wire := c.wire ++ [⟨x, off, k⟩], pc := setPc c.pc x (.inWrite (off + k)) }, ?_,
          ⟨by simp [hw], ho, hop, pcRel'_setPc_both hp x _ _ rfl, htd, hqu, hgo, hfl⟩⟩
        show run cfg.coalescing c [Act.piece x k] = _
        have hen : 0 < k ∧ off + k ≤ cfg.coalescing.lens x ∧ c.closed = false := ⟨hg.1, hg.2.1, hop hg.2.2⟩
        simp only [run, step, hd]
        rw [if_pos hen]
      · simp at hs
    · simp at hs
  | endWrite x ok =>
    simp only [step] at hs
    split at hs
    · rename_i off hx
      split at hs
      · rename_i hg
        injection hs with hs; subst hs
        have hd : c.pc x = .inWrite off := by have := hp x; rw [hx] at this; exact this
        let c4 : St := { c with pc := setPc c.pc x (.wrote off (ok || off == cfg.lens x)), owner := none, flushing := false }
        refine ⟨c4, ?_, ⟨hw, rfl, hop, ?_, htd, hqu, hgo, fun _ => rfl⟩⟩
        · show run cfg.coalescing c [Act.endWrite x ok] = _
          have hen : ok = true → off = cfg.coalescing.lens x := hg
          simp only [run, step, hd]
          rw [if_pos hen]
          simp [htd, setMany_nil, Cfg.coalescing, c4]
        · intro w
          show pcRel' (setPc (if (cfg.coalesce && !ok) = true then setMany d.pc d.todo (.wrote 0 false) else d.pc) x
            (.wrote off (ok || cfg.coalesce && off == cfg.lens x)) w) (setPc c.pc x (.wrote off (ok || off == cfg.lens x)) w)
          by_cases e : w = x
          · subst e; rw [setPc_same]; trivial
          · rw [setPc_other _ _ _ _ e, setPc_other _ _ _ _ e]
            simp only [hc, Bool.false_and, Bool.false_eq_true, if_false]
            exact hp w
      · simp at hs
    · simp at hs
  | cancel x | quit x =>
    simp only [step] at hs
    split at hs
    · injection hs with hs; subst hs
      exact ⟨c, rfl, ⟨hw, ho, hop, pcRel'_setPc_left hp x _ trivial, htd, hqu, hgo, hfl⟩⟩
    · simp at hs
  | enqueue x =>
    simp only [step] at hs
    split at hs
    · rename_i hg; rw [hc] at hg; exact absurd hg.1 (by simp)
    · simp at hs
  | tick =>
    simp only [step] at hs
    split at hs
    · rename_i hg; rw [hc] at hg; exact absurd hg.1 (by simp)
    · simp at hs
  | ret x =>
    simp only [step] at hs
    split at hs <;> first
      | (injection hs with hs; subst hs
         exact ⟨c, rfl, ⟨hw, ho, hop, pcRel'_setPc_left hp x _ trivial, htd, hqu, hgo, hfl⟩⟩)
      | (simp at hs)
  | close x =>
    simp only [step] at hs
    split at hs
    · injection hs with hs; subst hs
      refine ⟨c, rfl, ⟨hw, ho, hop, pcRel'_setPc_left hp x _ ?_, htd, hqu, hgo, hfl⟩⟩
      split <;> trivial
    · simp at hs
  | closeFinish x =>
    simp only [step] at hs
    split at hs
    · split at hs
      · injection hs with hs; subst hs
        exact ⟨c, rfl,
          ⟨hw, ho, fun h => by simp at h, pcRel'_setPc_left hp x _ trivial, htd, hqu, hgo, hfl⟩⟩
      · simp at hs
    · simp at hs
  | shutdown =>
    simp only [step] at hs
    injection hs with hs; subst hs
    exact ⟨c, rfl, ⟨hw, ho, fun h => by simp at h, hp, htd, hqu, hgo, hfl⟩⟩
  | cancelCtx x =>
    simp only [step] at hs
    split at hs
    · injection hs with hs; subst hs
      exact ⟨c, rfl, ⟨hw, ho, hop, hp, htd, hqu, hgo, hfl⟩⟩
    · simp at hs
  | shutQuit =>
    simp only [step] at hs
    split at hs
    · injection hs with hs; subst hs
      exact ⟨c, rfl, ⟨hw, ho, hop, hp, htd, hqu, hgo, hfl⟩⟩
    · simp at hs
  | flusherQuit =>
    simp only [step] at hs
    split at hs
    · rename_i hg; rw [hc] at hg; exact absurd hg.1 (by simp)
    · simp at hs

theorem sim'_run (cfg : Cfg) (hser : cfg.serialised = true) (hc : cfg.coalesce = false) :
    ∀ (as : List Act) (d d' c : St), Sim' d c → run cfg d as = some d' →
      ∃ c', run cfg.coalescing c (as.flatMap coActs) = some c' ∧ Sim' d' c'
  | [], d, d', c, h, hr => by simp [run] at hr; subst hr; exact ⟨c, by simp [run], h⟩
  | a :: as, d, d', c, h, hr => by
    simp only [run] at hr
    split at hr
    · rename_i d1 hd1
      obtain ⟨c1, hc1, h1⟩ := sim'_step cfg hser hc d d1 c a h hd1
      obtain ⟨c', hc', h'⟩ := sim'_run cfg hser hc as d1 d' c1 h1 hr
      refine ⟨c', ?_, h'⟩
      rw [List.flatMap_cons]
      exact run_append cfg.coalescing _ _ c c1 c' hc1 hc'
    · simp at hr

end Writer
