import Model.Policies
/-! helper lemmas about the copy-on-write host list -/
namespace C11
open Policies

/-- list invariant: no two entries with one connect address -/
def AddrNodup (l : List Host) : Prop := l.Pairwise (fun a b => a.addr ≠ b.addr)

theorem AddrNodup.nodup {l : List Host} (h : AddrNodup l) : l.Nodup := by
  unfold AddrNodup at h
  exact h.imp (fun hab heq => hab (by rw [heq]))

theorem equal_iff (a b : Host) : a.equal b = true ↔ a.addr = b.addr := by
  unfold Host.equal
  simp only [Bool.or_eq_true, beq_iff_eq]
  constructor
  · rintro (h | h)
    · rw [h]
    · exact h
  · intro h; exact Or.inr h

theorem cowAdd_inv (l : List Host) (h : Host) (hl : AddrNodup l) : AddrNodup (cowAdd l h).1 := by
  unfold cowAdd
  split
  · exact hl
  · rename_i hn
    simp only [List.any_eq_true, not_exists, not_and, equal_iff] at hn
    unfold AddrNodup
    rw [List.pairwise_append]
    refine ⟨hl, List.pairwise_singleton _ _, ?_⟩
    intro a ha b hb
    simp only [List.mem_singleton] at hb
    subst hb
    intro e
    exact hn a ha e.symm

theorem cowRemove_inv (l : List Host) (ip : Nat) (hl : AddrNodup l) : AddrNodup (cowRemove l ip).1 := by
  unfold cowRemove
  split
  · exact List.Pairwise.sublist List.filter_sublist hl
  · exact hl

theorem mem_cowAdd (l : List Host) (h x : Host) :
    x ∈ (cowAdd l h).1 ↔ x ∈ l ∨ (x = h ∧ ∀ y ∈ l, y.addr ≠ h.addr) := by
  unfold cowAdd
  split
  · rename_i hy
    simp only [List.any_eq_true, equal_iff] at hy
    obtain ⟨y, hy, e⟩ := hy
    constructor
    · intro hx; exact Or.inl hx
    · rintro (hx | ⟨_, hn⟩)
      · exact hx
      · exact absurd e.symm (hn y hy)
  · rename_i hn
    simp only [List.any_eq_true, not_exists, not_and, equal_iff] at hn
    simp only [List.mem_append, List.mem_singleton]
    constructor
    · rintro (hx | hx)
      · exact Or.inl hx
      · exact Or.inr ⟨hx, fun y hy e => hn y hy e.symm⟩
    · rintro (hx | ⟨hx, _⟩)
      · exact Or.inl hx
      · exact Or.inr hx

theorem mem_cowRemove (l : List Host) (ip : Nat) (x : Host) :
    x ∈ (cowRemove l ip).1 ↔ x ∈ l ∧ x.addr ≠ ip := by
  unfold cowRemove
  split
  · simp [List.mem_filter]
  · rename_i hn
    simp only [List.any_eq_true, not_exists, not_and, beq_iff_eq] at hn
    constructor
    · intro hx; exact ⟨hx, hn x hx⟩
    · intro hx; exact hx.1

end C11
