import Model.MuxExec
/-!
  Invariant of the program-point machine of Conn.exec (`Model/MuxExec.lean`) and its consequences.
-/
namespace MuxExec

theorem mem_registered (st : St) (c : Nat) (h : c ∈ registered st) : ∃ s, s < st.cap ∧ st.reg s = some c := by
  simp only [registered, List.mem_filterMap, List.mem_range] at h
  exact h

/-- inductive invariant -/
structure Inv (st : St) : Prop where
  hold_pc : ∀ s c, st.holder s = some c → 1 ≤ s ∧ s < st.cap ∧ st.clears c = 0 ∧
    (st.pc c = .got s ∨ st.pc c = .reg s ∨ st.pc c = .waiting s ∨ (∃ o, st.pc c = .rel s o) ∨ (∃ o, st.pc c = .nwT s o) ∨
     (∃ o, st.pc c = .nwD s o) ∨ (∃ o, st.pc c = .done o ∧ (st.closed = true ∨ st.reg s = some c)))
  pc_hold : ∀ c s, (st.pc c = .got s ∨ st.pc c = .reg s ∨ st.pc c = .waiting s) → st.holder s = some c
  pc_hold_rel : ∀ c s o, st.pc c = .rel s o → st.holder s = some c
  pc_hold_nwT : ∀ c s o, st.pc c = .nwT s o → st.holder s = some c
  pc_hold_nwD : ∀ c s o, st.pc c = .nwD s o → st.holder s = some c
  reg_hold : ∀ s c, st.reg s = some c → st.closed = true ∨
    (st.holder s = some c ∧ (st.pc c = .reg s ∨ (∃ o, st.pc c = .nwT s o) ∨ st.wire s = .pending c ∨ st.wire s = .answered c))
  reg_late : ∀ s c, st.reg s = some c → s < st.cap ∧ st.pc c ≠ .idle ∧ ∀ s', st.pc c ≠ .got s'
  wire_hold : ∀ s c, (st.wire s = .pending c ∨ st.wire s = .answered c) →
    st.holder s = some c ∧ (st.pc c = .waiting s ∨ st.tclosed c = true) ∧ (st.closed = true ∨ st.reg s = some c)
  wait_wire : ∀ c s, st.pc c = .waiting s → st.wire s = .pending c ∨ st.wire s = .answered c
  nw_tc : ∀ c s o, st.pc c = .nwT s o → st.tclosed c = true
  clears_le : ∀ c, st.clears c ≤ 1
  idle_clears : ∀ c, st.pc c = .idle → st.clears c = 0
  fin_clears : ∀ c o, st.pc c = .fin o → st.clears c = 1
  build_clears : ∀ c, st.pc c = .done .buildErr → st.clears c = 1
  resp_clears : ∀ c k, st.pc c = .done (.resp k) → st.clears c = 1
  no_inuse : ∀ c, st.pc c ≠ .done .inUse
  not_bad : st.bad = false
  snap_ok : ∀ c, c ∈ st.snap → (∃ s, st.pc c = .waiting s) ∨ st.tclosed c = true ∨ (∃ s, st.pc c = .reg s)
  snap_closing : ∀ c, c ∈ st.snap → st.closing = true ∧ st.closed = true
  ctx_closed : st.ctxDone = true → st.closed = true
  pc_reg : ∀ c s, st.pc c = .reg s → st.closed = true ∨ st.reg s = some c
  pc_reg_nwT : ∀ c s o, st.pc c = .nwT s o → st.closed = true ∨ st.reg s = some c
  early_wire : ∀ c s, (st.pc c = .got s ∨ st.pc c = .reg s) → st.wire s = .none
  nwT_wire : ∀ c s o, st.pc c = .nwT s o → st.wire s = .none
  nwD_wire : ∀ c s o, st.pc c = .nwD s o → st.wire s = .none
  rel_wire : ∀ c s o, st.pc c = .rel s o → st.wire s = .none
  free_wire : ∀ s, st.holder s = none → st.wire s = .none
  hold_unique : ∀ s s' c, st.holder s = some c → st.holder s' = some c → s = s'
  closing_closed : st.closing = true → st.closed = true
  fin_ok : ∀ c, st.pc c ≠ .fin .inUse
  rel_ok : ∀ c s, st.pc c ≠ .rel s .inUse
  nwT_ok : ∀ c s, st.pc c ≠ .nwT s .inUse
  nwD_ok : ∀ c s, st.pc c ≠ .nwD s .inUse

theorem inv_init (cap : Nat) : Inv (init cap) := by
  constructor <;> simp [init]

macro "close_inv" h:ident : tactic => `(tactic| (
  obtain ⟨h1, h2, h3, h4, h5, h6, h7, h8, h9, h10, h11, h12, h13, h14, h15, h16, h17, h18, h19, h20, h21, h22, h23, h24, h25, h26, h27, h28, h29, h30, h31, h32, h33⟩ := $h
  constructor <;> simp only [upd] <;> grind (splits := 40) [upd]))

theorem inv_beginClose (st : St) (err : Bool) (h : Inv st) : Inv (beginClose st err) := by
  unfold beginClose
  split
  · exact h
  · split
    · have hm := mem_registered st
      close_inv h
    · close_inv h

theorem inv_getStream (st st' : St) (c s : Nat) (h : Inv st) (hs : step st (.getStream c s) = some st') : Inv st' := by
  simp only [step] at hs
  split at hs
  · injection hs with hs; subst hs; close_inv h
  · simp at hs

theorem inv_noStreams (st st' : St) (c : Nat) (h : Inv st) (hs : step st (.noStreams c) = some st') : Inv st' := by
  simp only [step] at hs
  split at hs
  · injection hs with hs; subst hs; close_inv h
  · simp at hs

theorem inv_addCall (st st' : St) (c : Nat) (h : Inv st) (hs : step st (.addCall c) = some st') : Inv st' := by
  simp only [step] at hs
  split at hs
  · rename_i s hp
    split at hs
    · injection hs with hs; subst hs; close_inv h
    · split at hs
      · rename_i d hd
        -- unreachable: an id handed out by the allocator is never still registered
        exfalso
        rename_i hc
        have := h.reg_hold s d hd
        have := h.pc_hold c s (Or.inl hp)
        have := h.reg_late s d hd
        grind
      · injection hs with hs; subst hs; close_inv h
  · simp at hs

theorem inv_buildFail (st st' : St) (c : Nat) (h : Inv st) (hs : step st (.buildFail c) = some st') : Inv st' := by
  simp only [step] at hs
  split at hs
  · injection hs with hs; subst hs; close_inv h
  · simp at hs

theorem inv_writeCancelled (st st' : St) (c : Nat) (h : Inv st) (hs : step st (.writeCancelled c) = some st') : Inv st' := by
  simp only [step] at hs
  split at hs
  · injection hs with hs; subst hs; close_inv h
  · simp at hs

theorem inv_writeFailed (st st' : St) (c : Nat) (h : Inv st) (hs : step st (.writeFailed c) = some st') : Inv st' := by
  simp only [step] at hs
  split at hs
  · rename_i s hp
    injection hs with hs; subst hs
    have h1 := inv_beginClose st true h
    have hc : (beginClose st true).closed = true := by unfold beginClose; split <;> simp_all
    have hp1 : (beginClose st true).pc = st.pc := by unfold beginClose; split <;> rfl
    generalize beginClose st true = st1 at h1 hc hp1
    close_inv h1
  · simp at hs

theorem inv_wrote (st st' : St) (c : Nat) (h : Inv st) (hs : step st (.wrote c) = some st') : Inv st' := by
  simp only [step] at hs
  split at hs
  · injection hs with hs; subst hs; close_inv h
  · simp at hs

theorem inv_nwDelete (st st' : St) (c : Nat) (h : Inv st) (hs : step st (.nwDelete c) = some st') : Inv st' := by
  simp only [step] at hs
  split at hs
  · injection hs with hs; subst hs
    by_cases hc : st.closed = true
    · simp only [hc, if_true]; close_inv h
    · simp only [hc]; close_inv h
  · simp at hs

theorem inv_nwClear (st st' : St) (c : Nat) (h : Inv st) (hs : step st (.nwClear c) = some st') : Inv st' := by
  simp only [step, clear] at hs
  split at hs
  · rename_i s o hp
    have hh := h.pc_hold_nwD c s o hp
    simp only [hh] at hs
    injection hs with hs; subst hs; close_inv h
  · simp at hs

theorem inv_release (st st' : St) (c : Nat) (h : Inv st) (hs : step st (.release c) = some st') : Inv st' := by
  simp only [step, clear] at hs
  split at hs
  · rename_i s o hp
    have hh := h.pc_hold_rel c s o hp
    simp only [hh] at hs
    injection hs with hs; subst hs; close_inv h
  · simp at hs

theorem inv_finish (st st' : St) (c : Nat) (h : Inv st) (hs : step st (.finish c) = some st') : Inv st' := by
  simp only [step] at hs
  split at hs
  · injection hs with hs; subst hs; close_inv h
  · simp at hs

theorem inv_answer (st st' : St) (s : Nat) (h : Inv st) (hs : step st (.answer s) = some st') : Inv st' := by
  simp only [step] at hs
  split at hs
  · injection hs with hs; subst hs; close_inv h
  · simp at hs

set_option maxHeartbeats 1600000 in
theorem inv_deliver (st st' : St) (s : Nat) (h : Inv st) (hs : step st (.deliver s) = some st') : Inv st' := by
  simp only [step] at hs
  split at hs
  · rename_i c hw
    split at hs
    · simp at hs
    · rename_i hcl
      split at hs
      · rename_i d hd
        split at hs
        · injection hs with hs; subst hs; close_inv h
        · split at hs
          · have hh : st.holder s = some d := by
              have := h.reg_hold s d hd
              grind
            simp only [clear, hh] at hs
            injection hs with hs; subst hs; close_inv h
          · simp at hs
      · injection hs with hs; subst hs; close_inv h
  · simp at hs

theorem inv_timeout (st st' : St) (c : Nat) (h : Inv st) (hs : step st (.timeout c) = some st') : Inv st' := by
  simp only [step] at hs
  split at hs
  · injection hs with hs; subst hs; close_inv h
  · simp at hs

theorem inv_cancel (st st' : St) (c : Nat) (h : Inv st) (hs : step st (.cancel c) = some st') : Inv st' := by
  simp only [step] at hs
  split at hs
  · injection hs with hs; subst hs; close_inv h
  · simp at hs

theorem inv_connDone (st st' : St) (c : Nat) (h : Inv st) (hs : step st (.connDone c) = some st') : Inv st' := by
  simp only [step] at hs
  split at hs
  · split at hs
    · injection hs with hs; subst hs; close_inv h
    · simp at hs
  · simp at hs

theorem inv_closeBegin (st st' : St) (err : Bool) (h : Inv st) (hs : step st (.closeBegin err) = some st') : Inv st' := by
  simp only [step] at hs
  split at hs
  · simp at hs
  · injection hs with hs; subst hs; exact inv_beginClose st err h

theorem inv_closeDeliver (st st' : St) (c : Nat) (h : Inv st) (hs : step st (.closeDeliver c) = some st') : Inv st' := by
  simp only [step] at hs
  split at hs
  · split at hs
    · injection hs with hs; subst hs
      have he := fun x => List.mem_of_mem_erase (a := x) (b := c) (l := st.snap)
      close_inv h
    · split at hs
      · injection hs with hs; subst hs
        have he := fun x => List.mem_of_mem_erase (a := x) (b := c) (l := st.snap)
        close_inv h
      · simp at hs
  · simp at hs

theorem inv_closeFinish (st st' : St) (h : Inv st) (hs : step st (.closeFinish) = some st') : Inv st' := by
  simp only [step] at hs
  split at hs
  · injection hs with hs; subst hs; close_inv h
  · simp at hs

theorem inv_step (st st' : St) (a : Act) (h : Inv st) (hs : step st a = some st') : Inv st' := by
  cases a with
  | getStream c s => exact inv_getStream st st' c s h hs
  | noStreams c => exact inv_noStreams st st' c h hs
  | addCall c => exact inv_addCall st st' c h hs
  | buildFail c => exact inv_buildFail st st' c h hs
  | writeCancelled c => exact inv_writeCancelled st st' c h hs
  | writeFailed c => exact inv_writeFailed st st' c h hs
  | wrote c => exact inv_wrote st st' c h hs
  | nwDelete c => exact inv_nwDelete st st' c h hs
  | nwClear c => exact inv_nwClear st st' c h hs
  | release c => exact inv_release st st' c h hs
  | finish c => exact inv_finish st st' c h hs
  | answer s => exact inv_answer st st' s h hs
  | deliver s => exact inv_deliver st st' s h hs
  | timeout c => exact inv_timeout st st' c h hs
  | cancel c => exact inv_cancel st st' c h hs
  | connDone c => exact inv_connDone st st' c h hs
  | closeBegin err => exact inv_closeBegin st st' err h hs
  | closeDeliver c => exact inv_closeDeliver st st' c h hs
  | closeFinish => exact inv_closeFinish st st' h hs

theorem inv_run : ∀ (as : List Act) (s s' : St), Inv s → run s as = some s' → Inv s'
  | [], s, s', h, hr => by simp [run] at hr; subst hr; exact h
  | a :: as, s, s', h, hr => by
    simp only [run] at hr
    split at hr
    · rename_i s1 hs1
      exact inv_run as s1 s' (inv_step s s1 a h hs1) hr
    · simp at hr

end MuxExec
