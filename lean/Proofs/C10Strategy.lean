import Model.Placement
/-!
C10 helper: keyspace replication options — `getReplicationFactorFromOpts` / `strconv.Atoi` against the positional
value of a decimal numeral, Cassandra's rendering of a number (`Integer.toString` = `Nat.repr`) read back, `getStrategy`
against `Spec.strategy`.
-/
namespace C10Strategy
open Placement

theorem digitsVal_eq : ∀ (s : List Char) (acc : Nat),
    digitsVal s acc = (Spec.decimalAux s).map (fun v => acc * 10 ^ s.length + v)
  | [], acc => by simp [digitsVal, Spec.decimalAux]
  | c :: cs, acc => by
    unfold digitsVal Spec.decimalAux Spec.digit
    by_cases hc : '0' ≤ c ∧ c ≤ '9'
    · rw [if_pos hc, if_pos hc, digitsVal_eq cs]
      have h48 : '0'.toNat = 48 := by decide
      rw [h48]
      cases Spec.decimalAux cs with
      | none => rfl
      | some v =>
        simp only [Option.map_some, List.length_cons, Option.some.injEq]
        rw [Nat.pow_succ]
        generalize 10 ^ cs.length = P
        generalize c.toNat - 48 = d
        grind
    · rw [if_neg hc, if_neg hc]; rfl

theorem digitsVal_zero (s : List Char) : digitsVal s 0 = Spec.decimalAux s := by
  rw [digitsVal_eq]
  cases Spec.decimalAux s <;> simp

/-- the part of `strconv.Atoi` after the sign has been split off -/
def atoiCore (neg : Bool) (ds : List Char) : Option Int :=
  if ds.isEmpty then none else
  match digitsVal ds 0 with
  | none => none
  | some n =>
    if neg then (if n ≤ 9223372036854775808 then some (-(n : Int)) else none)
    else (if n ≤ 9223372036854775807 then some (n : Int) else none)

theorem atoi_minus (r : List Char) : atoi ('-' :: r) = atoiCore true r := rfl
theorem atoi_plus (r : List Char) : atoi ('+' :: r) = atoiCore false r := rfl
theorem atoi_nosign (s : List Char) (h1 : ∀ r, s ≠ '-' :: r) (h2 : ∀ r, s ≠ '+' :: r) : atoi s = atoiCore false s := by
  unfold atoi
  split
  · rename_i neg ds heq
    split at heq
    · exact absurd rfl (h1 _)
    · exact absurd rfl (h2 _)
    · cases heq; rfl

/-- `n < 0 → error` on top of the core -/
def rfCore (neg : Bool) (ds : List Char) : Option Nat :=
  match atoiCore neg ds with
  | none => none
  | some n => if n < 0 then none else some n.toNat

theorem rfCore_pos (ds : List Char) :
    rfCore false ds = (match Spec.decimal ds with
      | some n => if n < 2 ^ 63 then some n else none
      | none => none) := by
  unfold rfCore atoiCore Spec.decimal
  rw [digitsVal_zero]
  by_cases he : ds.isEmpty
  · simp [he]
  · simp only [he, Bool.false_eq_true, if_false]
    cases Spec.decimalAux ds with
    | none => rfl
    | some n =>
      simp only
      by_cases h : n ≤ 9223372036854775807
      · have h2 : n < 2 ^ 63 := by omega
        have h3 : ¬ ((n : Int) < 0) := by omega
        simp [h, h2]
      · have h2 : ¬ n < 2 ^ 63 := by omega
        simp [h, h2]

theorem rfCore_neg (ds : List Char) :
    rfCore true ds = (match Spec.decimal ds with
      | some 0 => some 0
      | _ => none) := by
  unfold rfCore atoiCore Spec.decimal
  rw [digitsVal_zero]
  by_cases he : ds.isEmpty
  · simp [he]
  · simp only [he, Bool.false_eq_true, if_false]
    cases Spec.decimalAux ds with
    | none => rfl
    | some n =>
      cases n with
      | zero => simp
      | succ k =>
        simp only [if_true]
        by_cases h : k + 1 ≤ 9223372036854775808
        · have h3 : (-((k + 1 : Nat) : Int)) < 0 := by omega
          simp [h]
        · simp [h]

/-- `strconv.Atoi` followed by the `n < 0` check = the specification's reading of a string -/
theorem rfFromOpt_str (s : List Char) : rfFromOpt (.str s) = Spec.rfOfOpt (.str s) := by
  have hrf : ∀ s, rfFromOpt (.str s) = (match atoi s with
      | none => none
      | some n => if n < 0 then none else some n.toNat) := fun _ => rfl
  rw [hrf]
  match s with
  | [] => rfl
  | c :: r =>
    by_cases h1 : c = '-'
    · subst h1
      rw [atoi_minus]
      exact rfCore_neg r
    · by_cases h2 : c = '+'
      · subst h2
        rw [atoi_plus]
        exact rfCore_pos r
      · rw [atoi_nosign (c :: r) (by intro r' h; cases h; exact h1 rfl) (by intro r' h; cases h; exact h2 rfl)]
        have : Spec.rfOfOpt (.str (c :: r)) = (match Spec.decimal (c :: r) with
            | some n => if n < 2 ^ 63 then some n else none
            | none => none) := by
          unfold Spec.rfOfOpt
          split
          · simp_all
          · simp_all
          · simp_all
          · rename_i heq; cases heq; rfl
          · simp_all
        rw [this]
        exact rfCore_pos (c :: r)

theorem rfFromOpt_eq (v : OptVal) : rfFromOpt v = Spec.rfOfOpt v := by
  cases v with
  | int v =>
    unfold rfFromOpt Spec.rfOfOpt
    by_cases h : v < 0
    · have : ¬ 0 ≤ v := by omega
      simp [h, this]
    · have : 0 ≤ v := by omega
      simp [h, this]
  | str s => exact rfFromOpt_str s
  | other => rfl

/-! ## Cassandra's rendering of a number is read back as that number -/

theorem digit_digitChar (d : Nat) (h : d < 10) : Spec.digit d.digitChar = some d := by
  have : ∀ k : Fin 10, Spec.digit k.val.digitChar = some k.val := by decide
  exact this ⟨d, h⟩

theorem decimalAux_append (a b : List Char) :
    Spec.decimalAux (a ++ b) = match Spec.decimalAux a, Spec.decimalAux b with
      | some x, some y => some (x * 10 ^ b.length + y)
      | _, _ => none := by
  induction a with
  | nil => cases h : Spec.decimalAux b <;> simp [Spec.decimalAux, h]
  | cons c cs ih =>
    simp only [List.cons_append, Spec.decimalAux, ih]
    cases Spec.digit c <;> cases Spec.decimalAux cs <;> cases Spec.decimalAux b <;> simp
    rename_i d x y
    rw [Nat.pow_add]
    generalize 10 ^ cs.length = P
    generalize 10 ^ b.length = Q
    grind

theorem decimalAux_toDigits (n : Nat) : Spec.decimalAux (Nat.toDigits 10 n) = some n := by
  induction n using Nat.strongRecOn with
  | ind n ih =>
    by_cases h : n < 10
    · rw [Nat.toDigits_of_lt_base h]
      simp [Spec.decimalAux, digit_digitChar n h]
    · rw [Nat.toDigits_of_base_le (by decide) (by omega), decimalAux_append, ih (n / 10) (by omega)]
      simp only [Spec.decimalAux, digit_digitChar (n % 10) (by omega)]
      simp
      omega

theorem decimal_repr (n : Nat) : Spec.decimal (Nat.repr n).toList = some n := by
  unfold Spec.decimal
  have : (Nat.repr n).toList = Nat.toDigits 10 n := by simp [Nat.repr]
  rw [this, decimalAux_toDigits]
  have hne : Nat.toDigits 10 n ≠ [] := Nat.toDigits_ne_nil
  cases h : Nat.toDigits 10 n with
  | nil => exact absurd h hne
  | cons c r => rfl

theorem toDigits_head_digit (n : Nat) : ∀ c ∈ (Nat.toDigits 10 n).head?, Spec.digit c ≠ none := by
  intro c hc
  cases hd : Spec.digit c with
  | some d => simp
  | none =>
    exfalso
    have := decimalAux_toDigits n
    cases h : Nat.toDigits 10 n with
    | nil => rw [h] at hc; simp at hc
    | cons x r =>
      rw [h] at hc this
      simp at hc
      subst hc
      simp [Spec.decimalAux, hd] at this

/-- `Integer.toString(n)` for every replication factor up to the largest 64-bit int is read back as `n` -/
theorem rfOfOpt_repr (n : Nat) (h : n < 2 ^ 63) : Spec.rfOfOpt (.str (Nat.repr n).toList) = some n := by
  have hd := decimal_repr n
  have hr : (Nat.repr n).toList = Nat.toDigits 10 n := by simp [Nat.repr]
  have hh := toDigits_head_digit n
  rw [hr] at hd ⊢
  cases hl : Nat.toDigits 10 n with
  | nil => exact absurd hl Nat.toDigits_ne_nil
  | cons c r =>
    rw [hl] at hd hh
    have hc := hh c (by simp)
    have h1 : c ≠ '-' := by intro e; subst e; exact hc (by decide)
    have h2 : c ≠ '+' := by intro e; subst e; exact hc (by decide)
    unfold Spec.rfOfOpt
    split
    · simp_all
    · simp_all
    · simp_all
    · rename_i heq; cases heq; simp [hd, h]
    · simp_all

/-! ## getStrategy -/

theorem lookup_getD_other (opts : List (List Char × OptVal)) (k : List Char) :
    rfFromOpt ((opts.lookup k).getD .other) = (opts.lookup k).bind Spec.rfOfOpt := by
  cases opts.lookup k with
  | none => rfl
  | some v => exact rfFromOpt_eq v

theorem filterMap_class (opts : List (List Char × OptVal)) :
    opts.filterMap (fun kv =>
      if kv.1 = "class".toList then none else
      match rfFromOpt kv.2 with
      | some rf => some (kv.1, rf)
      | none => none)
    = (opts.filter (fun kv => kv.1 ≠ "class".toList)).filterMap
      (fun kv => (Spec.rfOfOpt kv.2).map (fun rf => (kv.1, rf))) := by
  induction opts with
  | nil => rfl
  | cons kv rest ih =>
    by_cases hk : kv.1 = "class".toList
    · simp only [List.filterMap_cons, hk, if_true, List.filter_cons, ne_eq, not_true_eq_false, decide_false]
      simpa [hk] using ih
    · simp only [List.filterMap_cons, hk, if_false, List.filter_cons, ne_eq, not_false_eq_true, decide_true, if_true]
      rw [rfFromOpt_eq]
      cases Spec.rfOfOpt kv.2 with
      | none => simpa using ih
      | some rf => simpa using ih

theorem classKind_cases (cls : List Char) (k : Spec.ClassKind) (h : Spec.classKind cls = some k) :
    (k = .simple ∧ (cls = "org.apache.cassandra.locator.SimpleStrategy".toList ∨ cls = "SimpleStrategy".toList)) ∨
    (k = .nts ∧ (cls = "org.apache.cassandra.locator.NetworkTopologyStrategy".toList ∨
      cls = "NetworkTopologyStrategy".toList)) ∨
    (k = .local_ ∧ (cls = "org.apache.cassandra.locator.LocalStrategy".toList ∨ cls = "LocalStrategy".toList)) := by
  unfold Spec.classKind at h
  split at h
  · cases h; exact Or.inl ⟨rfl, ‹_›⟩
  · split at h
    · cases h; exact Or.inr (Or.inl ⟨rfl, ‹_›⟩)
    · split at h
      · cases h; exact Or.inr (Or.inr ⟨rfl, ‹_›⟩)
      · cases h

/-- `getStrategy` on every class name Cassandra ships and EVERY option map = the specification -/
theorem getStrategy_eq (cls : List Char) (opts : List (List Char × OptVal)) (s : Strategy)
    (h : Spec.strategy cls opts = some s) : getStrategy cls opts = s := by
  unfold Spec.strategy at h
  cases hk : Spec.classKind cls with
  | none => rw [hk] at h; cases h
  | some k =>
    rw [hk] at h
    rcases classKind_cases cls k hk with ⟨rfl, hc⟩ | ⟨rfl, hc⟩ | ⟨rfl, hc⟩
    · simp only [Option.some.injEq] at h
      subst h
      have h1 : containsStr cls "SimpleStrategy".toList = true := by
        rcases hc with rfl | rfl <;> decide
      unfold getStrategy
      rw [if_pos h1, lookup_getD_other]
    · simp only [Option.some.injEq] at h
      subst h
      have h1 : containsStr cls "SimpleStrategy".toList = false := by
        rcases hc with rfl | rfl <;> decide
      have h2 : containsStr cls "NetworkTopologyStrategy".toList = true := by
        rcases hc with rfl | rfl <;> decide
      unfold getStrategy
      rw [if_neg (by rw [h1]; exact Bool.false_ne_true), if_pos h2]
      exact congrArg Strategy.nts (filterMap_class opts)
    · simp only [Option.some.injEq] at h
      subst h
      have h1 : containsStr cls "SimpleStrategy".toList = false := by
        rcases hc with rfl | rfl <;> decide
      have h2 : containsStr cls "NetworkTopologyStrategy".toList = false := by
        rcases hc with rfl | rfl <;> decide
      unfold getStrategy
      rw [if_neg (by rw [h1]; exact Bool.false_ne_true), if_neg (by rw [h2]; exact Bool.false_ne_true)]

/-! ## lookups in the datacenter map getStrategy builds -/

theorem lookup_none_of_not_mem {α : Type} : ∀ (l : List (List Char × α)) (k : List Char),
    k ∉ l.map (·.1) → l.lookup k = none
  | [], _, _ => rfl
  | (a, v) :: rest, k, h => by
    have hne : (k == a) = false := by
      apply beq_false_of_ne
      intro e; subst e; exact h (by simp)
    rw [List.lookup_cons, hne]
    exact lookup_none_of_not_mem rest k (fun hm => h (by simp [hm]))

theorem lookup_filterMap_keys {α β : Type} (g : α → Option β) :
    ∀ (l : List (List Char × α)), (l.map (·.1)).Nodup → ∀ k,
      (l.filterMap (fun kv => (g kv.2).map (fun r => (kv.1, r)))).lookup k = (l.lookup k).bind g
  | [], _, _ => rfl
  | (a, v) :: rest, hnd, k => by
    rw [List.map_cons, List.nodup_cons] at hnd
    have ih := lookup_filterMap_keys g rest hnd.2 k
    rw [List.filterMap_cons, List.lookup_cons]
    cases hka : (k == a) with
    | true =>
      have hk : k = a := eq_of_beq hka
      subst hk
      cases hg : g v with
      | none =>
        simp only [Option.map_none, Option.bind_some, hg]
        rw [ih, lookup_none_of_not_mem rest k hnd.1]
        rfl
      | some r =>
        simp only [Option.map_some, Option.bind_some, hg]
        rw [List.lookup_cons, hka]
    | false =>
      cases hg : g v with
      | none => simp only [Option.map_none]; exact ih
      | some r =>
        simp only [Option.map_some]
        rw [List.lookup_cons, hka]
        exact ih

theorem lookup_filter_key {α : Type} (c : List Char) : ∀ (l : List (List Char × α)) (dc : List Char),
    (l.filter (fun kv => kv.1 ≠ c)).lookup dc = if dc = c then none else l.lookup dc
  | [], dc => by simp
  | (a, v) :: rest, dc => by
    have ih := lookup_filter_key c rest dc
    by_cases ha : a = c
    · have hf : ((a, v) :: rest).filter (fun kv => kv.1 ≠ c) = rest.filter (fun kv => kv.1 ≠ c) := by
        rw [List.filter_cons]; simp [ha]
      rw [hf, ih, List.lookup_cons]
      by_cases hd : dc = c
      · rw [if_pos hd, if_pos hd]
      · rw [if_neg hd, if_neg hd]
        have : (dc == a) = false := beq_false_of_ne (by rw [ha]; exact hd)
        rw [this]
    · have hf : ((a, v) :: rest).filter (fun kv => kv.1 ≠ c) = (a, v) :: rest.filter (fun kv => kv.1 ≠ c) := by
        rw [List.filter_cons]; simp [ha]
      rw [hf, List.lookup_cons, List.lookup_cons]
      cases hka : (dc == a) with
      | true =>
        have : dc = a := eq_of_beq hka
        rw [if_neg (by rw [this]; exact ha)]
      | false => exact ih

theorem keys_filterMap_sublist {α β : Type} (g : α → Option β) : ∀ (l : List (List Char × α)),
    ((l.filterMap (fun kv => (g kv.2).map (fun r => (kv.1, r)))).map (·.1)).Sublist (l.map (·.1))
  | [] => List.Sublist.slnil
  | (a, v) :: rest => by
    rw [List.filterMap_cons]
    cases hg : g v with
    | none => exact (keys_filterMap_sublist g rest).cons _
    | some r => exact (keys_filterMap_sublist g rest).cons_cons _

end C10Strategy
