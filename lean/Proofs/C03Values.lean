/- C03 helper lemmas: bound values -/
import Proofs.C03Prim
namespace C03
open FrameSpec FrameWrite

theorem rdValue_wVal (v : Nat) (x : GVal) (r : Bytes) (h : (askVal x).val.ok v = true) :
    rdValue v (wVal x ++ r) = some ((askVal x).val, r) := by
  unfold wVal askVal at *
  cases hu : x.isUnset with
  | true =>
    simp only [hu, if_true, Val.ok, decide_eq_true_eq] at h ⊢
    have hv : ¬ v < 4 := by omega
    simp [rdValue, rdInt_wInt, hv]
  | false =>
    cases hval : x.value with
    | none =>
      simp only [hu, hval, wBytes]
      by_cases hv : v < 4 <;> simp [rdValue, rdInt_wInt, hv]
    | some b =>
      simp only [hu, hval, Val.ok, fitsInt, decide_eq_true_eq, Bool.false_eq_true, if_false] at h ⊢
      have h2 : (b.length : Int) < 2147483648 := by omega
      have h1 : -2147483648 ≤ (b.length : Int) := by omega
      have h0 : ¬ ((b.length : Int) < 0) := by omega
      simp only [rdValue, wBytes, List.append_assoc, rdInt_wInt _ _ h1 h2, h0, if_false,
        Int.toNat_natCast, takeN_append]

theorem rdNVal_wQVal (v : Nat) (names : Bool) (x : GVal) (r : Bytes) (h : NVal.ok v (askVal x) = true)
    (hn : names = true → x.name ≠ []) (hp : names = false → x.name = []) :
    rdNVal v names (wQVal names x ++ r) = some (askVal x, r) := by
  simp only [NVal.ok, Bool.and_eq_true] at h
  have hval := rdValue_wVal v x r h.2
  cases names with
  | true =>
    have hne := hn rfl
    have hnm : (askVal x).name = some x.name := by simp [askVal, hne]
    have hfs : fitsShort x.name = true := by
      have := h.1; rw [hnm] at this; simpa [optAll] using this
    simp only [rdNVal, wQVal, if_true, List.append_assoc, rdString_wString _ _ hfs, hval]
    congr 2
    cases hq : askVal x with
    | mk nm vl => rw [hq] at hnm; simp at hnm; simp [hnm]
  | false =>
    have he := hp rfl
    have hnm : (askVal x).name = none := by simp [askVal, he]
    simp only [rdNVal, wQVal, Bool.false_eq_true, if_false, List.nil_append, hval]
    congr 2
    cases hq : askVal x with
    | mk nm vl => rw [hq] at hnm; simp at hnm; simp [hnm]

/-- unnamed values written by a bare writeBytes/writeUnset loop (v1 EXECUTE, BATCH) -/
theorem rdNVal_wVal (v : Nat) (x : GVal) (r : Bytes) (h : NVal.ok v (askVal x) = true) (hp : x.name = []) :
    rdNVal v false (wVal x ++ r) = some (askVal x, r) := by
  have := rdNVal_wQVal v false x r h (by simp) (fun _ => hp)
  simpa [wQVal] using this

theorem askVal_name_isNone (x : GVal) : (askVal x).name.isNone = true ↔ x.name = [] := by
  unfold askVal; by_cases h : x.name = [] <;> simp [h]

theorem askVal_name_isSome (x : GVal) : (askVal x).name.isSome = true ↔ x.name ≠ [] := by
  unfold askVal; by_cases h : x.name = [] <;> simp [h]

/-- writeQueryParams looks at values[0] only; for an expressible request that is enough -/
theorem names_consistent (v : Nat) (vals : List GVal) (h : valuesOk v true (vals.map askVal) = true) :
    ∀ x ∈ vals, (namesFlag v vals = true → x.name ≠ []) ∧ (namesFlag v vals = false → x.name = []) := by
  simp only [valuesOk, Bool.and_eq_true, Bool.or_eq_true, decide_eq_true_eq, List.all_eq_true,
    List.mem_map, forall_exists_index, and_imp, forall_apply_eq_imp_iff₂, Bool.true_and] at h
  obtain ⟨_, hnm⟩ := h
  cases vals with
  | nil => intro x hx; simp at hx
  | cons y ys =>
    intro x hx
    simp only [namesFlag, Bool.and_eq_true, decide_eq_true_eq]
    cases hnm with
    | inl hnone =>
      have hy := (askVal_name_isNone y).mp (hnone y (by simp))
      have hx' := (askVal_name_isNone x).mp (hnone x hx)
      simp [hy, hx']
    | inr hsome =>
      have hy := (askVal_name_isSome y).mp (hsome.2 y (by simp))
      have hx' := (askVal_name_isSome x).mp (hsome.2 x hx)
      have hv : v > 2 := by omega
      simp [hy, hx', hv]

theorem values_unnamed (v : Nat) (vals : List GVal) (h : valuesOk v false (vals.map askVal) = true) :
    ∀ x ∈ vals, x.name = [] := by
  simp only [valuesOk, Bool.and_eq_true, Bool.or_eq_true, decide_eq_true_eq, List.all_eq_true,
    List.mem_map, forall_exists_index, and_imp, forall_apply_eq_imp_iff₂, Bool.false_and, Bool.false_eq_true,
    or_false] at h
  intro x hx
  exact (askVal_name_isNone x).mp (h.2 x hx)

theorem valuesOk_each (v : Nat) (b : Bool) (vals : List GVal) (h : valuesOk v b (vals.map askVal) = true) :
    vals.length ≤ 65535 ∧ ∀ x ∈ vals, NVal.ok v (askVal x) = true := by
  simp only [valuesOk, Bool.and_eq_true, decide_eq_true_eq, List.all_eq_true,
    List.mem_map, forall_exists_index, and_imp, forall_apply_eq_imp_iff₂, List.length_map] at h
  exact ⟨h.1.1, h.1.2⟩

/-- `<n><value_1>...<value_n>` without names -/
theorem rdValues_unnamed (v : Nat) (vals : List GVal) (r : Bytes) (h : valuesOk v false (vals.map askVal) = true) :
    rdCounted (rdNVal v false) (wShort vals.length ++ vals.flatMap wVal ++ r) = some (vals.map askVal, r) := by
  obtain ⟨hn, hok⟩ := valuesOk_each v false vals h
  have hun := values_unnamed v vals h
  exact rdCounted_flatMap (rdNVal v false) wVal askVal vals r hn
    (fun x hx r => rdNVal_wVal v x r (hok x hx) (hun x hx))

/-- `<n>[name_1]<value_1>...` as writeQueryParams writes it -/
theorem rdValues_named (v : Nat) (vals : List GVal) (r : Bytes) (h : valuesOk v true (vals.map askVal) = true) :
    rdCounted (rdNVal v (namesFlag v vals)) (wShort vals.length ++ vals.flatMap (wQVal (namesFlag v vals)) ++ r)
      = some (vals.map askVal, r) := by
  obtain ⟨hn, hok⟩ := valuesOk_each v true vals h
  have hc := names_consistent v vals h
  exact rdCounted_flatMap (rdNVal v (namesFlag v vals)) (wQVal (namesFlag v vals)) askVal vals r hn
    (fun x hx r => rdNVal_wQVal v _ x r (hok x hx) (hc x hx).1 (hc x hx).2)

end C03
