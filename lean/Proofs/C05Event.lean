import Model.EventFlow
/-!
# C05, frames on stream -1 under every Events configuration: lemmas

`Inv`: both event debouncers of the session exist. It is the precondition of `s.schemaEvents.debounce(frame)` /
`s.nodeEvents.debounce(frame)` in events.go handleEvent (a method call on a nil `*eventDebouncer` dereferences
nil in `e.mu.Lock()` on the connection's reader goroutine, which nothing recovers). It holds after NewSession
for every configuration because session.go allocates both unconditionally, and every step keeps it.
`BInv`: no debouncer holds more than `eventBufferSize` frames.
-/
namespace C05Event
open EventFlow Dispatch

def Inv (s : Sess) : Prop := s.nodeDeb.isSome = true ∧ s.schemaDeb.isSome = true

def BLen (b : Option (List Ev)) : Prop := ∀ l, b = some l → l.length ≤ bufSize

def BInv (s : Sess) : Prop := BLen s.nodeDeb ∧ BLen s.schemaDeb

theorem blen_nil : BLen (some []) := by
  intro l h
  cases h
  simp

theorem debounce_some (l : List Ev) (e : Ev) :
    ∃ l' d, debounce (some l) e = some (l', d) ∧ (l.length ≤ bufSize → l'.length ≤ bufSize) := by
  unfold debounce
  by_cases h : l.length < bufSize
  · refine ⟨l ++ [e], false, by simp [h], ?_⟩
    intro _
    simp
    omega
  · exact ⟨l, true, by simp [h], fun h' => h'⟩

/-- handleEvent on a session that has both debouncers: no crash, both are still there, bounded if they were -/
theorem handleEvent_ok (s : Sess) (e : Ev) (h : Inv s) :
    ∃ s' lg, handleEvent s e = .ok s' lg ∧ Inv s' ∧ (BInv s → BInv s') ∧ s'.cfg = s.cfg ∧ s'.pool = s.pool := by
  obtain ⟨hn, hs⟩ := h
  cases e with
  | garbage => exact ⟨s, some .parse, rfl, ⟨hn, hs⟩, id, rfl, rfl⟩
  | frame k c up kn =>
    cases hr : route k with
    | none => exact ⟨s, some .invalid, by simp only [handleEvent, hr], ⟨hn, hs⟩, id, rfl, rfl⟩
    | some d =>
      cases d with
      | schema =>
        cases hb : s.schemaDeb with
        | none => rw [hb] at hs; cases hs
        | some l =>
          obtain ⟨l', d, hd, hlen⟩ := debounce_some l (.frame k c up kn)
          refine ⟨{ s with schemaDeb := some l', schemaArmed := true }, (if d then some .dropped else none),
            by simp only [handleEvent, hr, hb, hd], ⟨hn, rfl⟩, ?_, rfl, rfl⟩
          intro hB
          refine ⟨hB.1, ?_⟩
          intro l2 h2
          cases h2
          exact hlen (hB.2 l hb)
      | node =>
        cases hb : s.nodeDeb with
        | none => rw [hb] at hn; cases hn
        | some l =>
          obtain ⟨l', d, hd, hlen⟩ := debounce_some l (.frame k c up kn)
          refine ⟨{ s with nodeDeb := some l', nodeArmed := true }, (if d then some .dropped else none),
            by simp only [handleEvent, hr, hb, hd], ⟨rfl, hs⟩, ?_, rfl, rfl⟩
          intro hB
          refine ⟨?_, hB.2⟩
          intro l2 h2
          cases h2
          exact hlen (hB.1 l hb)

theorem pushN_ok (e : Ev) (n : Nat) : ∀ (s : Sess) (lg : Logs), Inv s →
    ∃ s' lg', pushN s lg e n = some (s', lg') ∧ Inv s' ∧ (BInv s → BInv s') ∧ s'.cfg = s.cfg ∧ s'.pool = s.pool := by
  induction n with
  | zero => intro s lg h; exact ⟨s, lg, rfl, h, id, rfl, rfl⟩
  | succ n ih =>
    intro s lg h
    obtain ⟨s1, l1, h1, hi1, hb1, hc1, hp1⟩ := handleEvent_ok s e h
    obtain ⟨s2, l2, h2, hi2, hb2, hc2, hp2⟩ := ih s1 (lg.note l1) hi1
    refine ⟨s2, l2, ?_, hi2, fun hB => hb2 (hb1 hB), hc2.trans hc1, hp2.trans hp1⟩
    simp only [pushN, h1]
    exact h2

theorem pushSteps_ok (steps : List Step) : ∀ (s : Sess) (lg : Logs), Inv s →
    ∃ s' lg', pushSteps s lg steps = some (s', lg') ∧ Inv s' ∧ (BInv s → BInv s') := by
  induction steps with
  | nil => intro s lg h; exact ⟨s, lg, rfl, h, id⟩
  | cons st rest ih =>
    intro s lg h
    unfold pushSteps
    by_cases hd : delivered s st.w = true
    · obtain ⟨s1, l1, h1, hi1, hb1, _, _⟩ := pushN_ok st.e st.n s lg h
      obtain ⟨s2, l2, h2, hi2, hb2⟩ := ih s1 l1 hi1
      refine ⟨s2, l2, ?_, hi2, fun hB => hb2 (hb1 hB)⟩
      simp only [hd, if_true, h1]
      exact h2
    · obtain ⟨s2, l2, h2, hi2, hb2⟩ := ih s { lg with skipped := lg.skipped + st.n } h
      refine ⟨s2, l2, ?_, hi2, hb2⟩
      simp only [hd]
      exact h2

/-- handleNodeEvent does not touch the debouncers -/
theorem handleNodeEvent_debs (s : Sess) (l : List Ev) :
    (handleNodeEvent s l).1.nodeDeb = s.nodeDeb ∧ (handleNodeEvent s l).1.schemaDeb = s.schemaDeb ∧
    (handleNodeEvent s l).1.schemaArmed = s.schemaArmed := by
  unfold handleNodeEvent
  simp only
  repeat' split
  all_goals simp

theorem flushNode_ok (s : Sess) (h : Inv s) : Inv (flushNode s).1 ∧ (BInv s → BInv (flushNode s).1) := by
  unfold flushNode
  split
  · rename_i e l _ hd
    obtain ⟨e1, e2, _⟩ := handleNodeEvent_debs s (e :: l)
    refine ⟨⟨rfl, ?_⟩, fun hB => ⟨blen_nil, ?_⟩⟩
    · simp only [e2]; exact h.2
    · simp only [BLen, e2]; exact hB.2
  · exact ⟨h, id⟩

theorem flushSchema_ok (s : Sess) (h : Inv s) : Inv (flushSchema s).1 ∧ (BInv s → BInv (flushSchema s).1) := by
  unfold flushSchema
  split
  · exact ⟨⟨h.1, rfl⟩, fun hB => ⟨hB.1, blen_nil⟩⟩
  · exact ⟨h, id⟩

/-- after the timers expired both debouncers exist (if they did) and hold at most what they held -/
theorem flush_ok (s : Sess) (h : Inv s) : Inv (flush s).1 ∧ (BInv s → BInv (flush s).1) := by
  obtain ⟨h1, b1⟩ := flushNode_ok s h
  obtain ⟨h2, b2⟩ := flushSchema_ok _ h1
  exact ⟨h2, fun hB => b2 (b1 hB)⟩

theorem bufLen_le (b : Option (List Ev)) (h : BLen b) : bufLen b ≤ (bufSize : Int) := by
  cases b with
  | none => simp [bufLen, bufSize]
  | some l =>
    have := h l rfl
    simp only [bufLen]
    exact_mod_cast this

theorem round_ok (s : Sess) (steps : List Step) (h : Inv s) :
    ∃ s' o, round s steps = some (s', o) ∧ Inv s' ∧ (BInv s → BInv s' ∧ o.bufOK = true) := by
  obtain ⟨s1, lg, h1, hi1, hb1⟩ := pushSteps_ok steps s {} h
  obtain ⟨hi2, hb2⟩ := flush_ok s1 hi1
  refine ⟨(flush s1).1, mkObs s1 lg (flush s1), ?_, hi2, ?_⟩
  · simp only [round, h1]
  · intro hB
    have hB1 := hb1 hB
    refine ⟨hb2 hB1, ?_⟩
    simp only [Obs.bufOK, mkObs, Bool.and_eq_true]
    exact ⟨decide_eq_true (bufLen_le _ hB1.1), decide_eq_true (bufLen_le _ hB1.2)⟩

theorem rounds_ok (rs : List (List Step)) : ∀ (s : Sess) (acc : List Obs), Inv s → BInv s →
    acc.all Obs.bufOK = true → ∃ obs, rounds s acc rs = .ok obs ∧ obs.all Obs.bufOK = true := by
  induction rs with
  | nil =>
    intro s acc _ _ ha
    refine ⟨acc.reverse, rfl, ?_⟩
    simpa using ha
  | cons r rest ih =>
    intro s acc hi hb ha
    obtain ⟨s', o, h1, hi', hb'⟩ := round_ok s r hi
    obtain ⟨hb2, ho⟩ := hb' hb
    obtain ⟨obs, h2, h3⟩ := ih s' (o :: acc) hi' hb2 (by simp [ho, ha])
    exact ⟨obs, by simp only [rounds, h1]; exact h2, h3⟩

theorem newSessionWith_inv (ct : Ctor) (cfg : EvCfg) (hn : ct.node cfg = true) (hs : ct.schema cfg = true) :
    Inv (newSessionWith ct cfg) ∧ BInv (newSessionWith ct cfg) := by
  simp only [Inv, BInv, newSessionWith, hn, hs, if_true]
  exact ⟨⟨rfl, rfl⟩, blen_nil, blen_nil⟩

/-- a scenario on a session whose constructor allocated both debouncers: no crash, the monitor holds -/
theorem runWith_ok (ct : Ctor) (cfg : EvCfg) (hn : ct.node cfg = true) (hs : ct.schema cfg = true)
    (rs : List (List Step)) : (runWith ct cfg rs).isCrash = false ∧ (runWith ct cfg rs).invOK = true := by
  obtain ⟨hi, hb⟩ := newSessionWith_inv ct cfg hn hs
  cases rs with
  | nil => exact ⟨rfl, rfl⟩
  | cons r0 rest =>
    obtain ⟨s', lg', h1, _, _⟩ := pushSteps_ok (r0.filter (fun st => st.w.breaksSetup)) _ {} hi
    obtain ⟨obs, h2, h3⟩ := rounds_ok (r0 :: rest) _ [] hi hb rfl
    unfold runWith
    simp only []
    split
    · rw [h1]
      exact ⟨rfl, rfl⟩
    · rw [h2]
      exact ⟨rfl, h3⟩

/-- the schema-change frame every scenario of the converse uses -/
def evSchema : Ev := .frame .schemaKeyspace .created false false
def evStatus : Ev := .frame .statusChange .created true false

/-- a constructor that leaves out the schema debouncer for some configuration: ONE unsolicited SCHEMA_CHANGE on the
    control connection of a session with that configuration kills the process -/
theorem no_schema_deb_crashes (ct : Ctor) (cfg : EvCfg) (h : ct.schema cfg = false) :
    (runWith ct cfg [[], [⟨.ctl, evSchema, 1⟩]]).isCrash = true := by
  have hr : route .schemaKeyspace = some .schema := by decide
  simp [runWith, rounds, round, pushSteps, delivered, pushN, handleEvent, evSchema, hr, newSessionWith, h,
    debounce, flush, flushNode, flushSchema, Res.isCrash]

theorem no_node_deb_crashes (ct : Ctor) (cfg : EvCfg) (h : ct.node cfg = false) :
    (runWith ct cfg [[], [⟨.ctl, evStatus, 1⟩]]).isCrash = true := by
  have hr : route .statusChange = some .node := by decide
  simp [runWith, rounds, round, pushSteps, delivered, pushN, handleEvent, evStatus, hr, newSessionWith, h,
    debounce, flush, flushNode, flushSchema, Res.isCrash]

theorem invStr_ok (r : Res) (h1 : r.isCrash = false) (h2 : r.invOK = true) : r.invStr = "ok" := by
  cases r with
  | crash n => cases h1
  | connectError => rfl
  | ok obs => simp only [Res.invStr, h2, if_true]

end C05Event
