import Model.FrameCrash
/-! Helper lemmas + part theorems for the frame parser outcome model (C05 part 4). -/
namespace C05Frame
open FrameCrash

/-- pointwise invariant of a parser run: a successful run consumed at least `k` bytes (and never
grows the buffer), and it never crashes -/
def InvAt (k : Nat) {α : Type} (p : P α) (st : St) : Prop :=
  match p st with
  | .ok _ st' => st'.buf.length + k ≤ st.buf.length
  | .err _ => True
  | .crash _ _ => False

def Inv (k : Nat) {α : Type} (p : P α) : Prop := ∀ st, InvAt k p st

theorem invAt_mono {k k' : Nat} {α : Type} {p : P α} {st : St} (h : InvAt k p st) (hk : k' ≤ k) :
    InvAt k' p st := by
  unfold InvAt at *
  split <;> simp_all
  omega

theorem inv_mono {k k' : Nat} {α : Type} {p : P α} (h : Inv k p) (hk : k' ≤ k) : Inv k' p :=
  fun st => invAt_mono (h st) hk

theorem invAt_bind {k1 k2 : Nat} {α β : Type} {p : P α} {f : α → P β} {st : St}
    (hp : InvAt k1 p st)
    (hf : ∀ a st', st'.buf.length + k1 ≤ st.buf.length → InvAt k2 (f a) st') :
    InvAt (k1 + k2) (p >>= f) st := by
  unfold InvAt at *
  show match P.bind p f st with | .ok _ st' => _ | .err _ => _ | .crash s _ => _
  unfold P.bind
  cases h : p st with
  | ok a st' =>
    rw [h] at hp
    simp only [] at hp ⊢
    have := hf a st' hp
    unfold InvAt at this
    split <;> simp_all
    omega
  | err al => simp
  | crash s al => rw [h] at hp; simp at hp

theorem inv_bind {k1 k2 : Nat} {α β : Type} {p : P α} {f : α → P β}
    (hp : Inv k1 p) (hf : ∀ a, Inv k2 (f a)) : Inv (k1 + k2) (p >>= f) :=
  fun st => invAt_bind (hp st) (fun a st' _ => hf a st')

theorem inv_bind0 {α β : Type} {p : P α} {f : α → P β}
    (hp : Inv 0 p) (hf : ∀ a, Inv 0 (f a)) : Inv 0 (p >>= f) := inv_bind hp hf

theorem inv_pure {α : Type} (a : α) : Inv 0 (pure a : P α) := by
  intro st; simp [InvAt, pure, P.pure]

theorem inv_fail {α : Type} : Inv 0 (fail : P α) := by
  intro st; simp [InvAt, fail]

theorem inv_alloc (n : Nat) : Inv 0 (alloc n) := by
  intro st; simp [InvAt, alloc]

/-- THE GENERIC LEMMA: a primitive whose length check is at least as large as what it slices
cannot crash, for any buffer; it consumes exactly `need` bytes -/
theorem inv_take (site : Site) (guard need : Nat) (h : need ≤ guard) :
    Inv need (take site guard need) := by
  intro st
  by_cases h1 : st.buf.length < guard
  · simp [InvAt, take, h1]
  · have h2 : ¬ st.buf.length < need := by omega
    simp [InvAt, take, h1, h2]; omega

theorem take_noCrash (site : Site) (guard need : Nat) (h : need ≤ guard) (st : St) :
    (take site guard need st).crashSite = none := by
  by_cases h1 : st.buf.length < guard
  · simp [take, h1, Res.crashSite]
  · have h2 : ¬ st.buf.length < need := by omega
    simp [take, h1, h2, Res.crashSite]

/-- every fixed-size primitive of the table has guard ≥ need -/
theorem primTable_ok : ∀ p ∈ primTable, p.2.2 ≤ p.2.1 := by decide

theorem inv_readByte : Inv 1 readByte :=
  inv_bind (k2 := 0) (inv_take _ 1 1 (by omega)) (fun _ => inv_pure _)
theorem inv_readIntU : Inv 4 readIntU :=
  inv_bind (k2 := 0) (inv_take _ 4 4 (by omega)) (fun _ => inv_pure _)
theorem inv_readInt : Inv 4 readInt :=
  inv_bind (k2 := 0) (inv_readIntU ) (fun _ => inv_pure _)
theorem inv_readShort : Inv 2 readShort :=
  inv_bind (k2 := 0) (inv_take _ 2 2 (by omega)) (fun _ => inv_pure _)

theorem inv_readString : Inv 2 readString := by
  unfold readString
  refine inv_bind (k2 := 0) (inv_readShort ) (fun size => ?_)
  refine inv_bind0 (inv_mono (inv_take _ size size (by omega)) (by omega)) (fun s => ?_)
  exact inv_bind0 (inv_alloc _) (fun _ => inv_pure _)

theorem inv_readUUID : Inv 0 readUUID := by
  unfold readUUID
  exact inv_bind0 (inv_mono (inv_take _ 16 16 (by omega)) (by omega)) (fun _ => inv_alloc _)

theorem inv_readBytes : Inv 4 readBytes := by
  unfold readBytes
  refine inv_bind (k2 := 0) (inv_readInt ) (fun size => ?_)
  split
  · exact inv_pure _
  · exact inv_bind0 (inv_mono (inv_take _ _ _ (by omega)) (by omega)) (fun _ => inv_pure _)

theorem inv_readShortBytes : Inv 2 readShortBytes := by
  unfold readShortBytes
  exact inv_bind (k2 := 0) (inv_readShort ) (fun size => inv_mono (inv_take _ size size (by omega)) (by omega))

theorem inv_loopN (n : Nat) (body : P Unit) (h : Inv 0 body) : Inv 0 (loopN n body) := by
  induction n with
  | zero => exact inv_pure _
  | succ n ih => unfold loopN; exact inv_bind0 h (fun _ => ih)

theorem inv0_readByte : Inv 0 readByte := inv_mono (inv_readByte ) (Nat.zero_le _)
theorem inv0_readIntU : Inv 0 readIntU := inv_mono (inv_readIntU ) (Nat.zero_le _)
theorem inv0_readInt : Inv 0 readInt := inv_mono (inv_readInt ) (Nat.zero_le _)
theorem inv0_readShort : Inv 0 readShort := inv_mono (inv_readShort ) (Nat.zero_le _)
theorem inv0_readString : Inv 0 readString := inv_mono (inv_readString ) (Nat.zero_le _)
theorem inv0_readBytes : Inv 0 readBytes := inv_mono (inv_readBytes ) (Nat.zero_le _)
theorem inv0_readShortBytes : Inv 0 readShortBytes := inv_mono (inv_readShortBytes ) (Nat.zero_le _)

-- unification must not look inside the parsers when a leaf lemma does not apply
attribute [local irreducible] P.bind P.pure take alloc fail crashAt readByte readIntU readInt readShort readString readUUID
  readBytes readShortBytes loopN

theorem inv_ite {k : Nat} {α : Type} {c : Prop} [Decidable c] {p q : P α}
    (hp : Inv k p) (hq : Inv k q) : Inv k (if c then p else q) := by
  split <;> assumption

/-- leaf lemmas of the automation (extended below by `macro_rules` as more parsers are proved) -/
syntax "inv0_leaf" : tactic
macro_rules | `(tactic| inv0_leaf) => `(tactic| fail "no leaf lemma")

/-- structural automation for `Inv 0 (do …)` goals: binds, ifs, the leaf parsers, hypotheses -/
macro "inv0" : tactic => `(tactic| repeat (first
  | inv0_leaf
  | exact inv_pure _
  | exact inv_fail
  | exact inv_alloc _
  | exact inv0_readByte
  | exact inv0_readIntU
  | exact inv0_readInt
  | exact inv0_readShort
  | exact inv0_readString
  | exact inv0_readBytes
  | exact inv0_readShortBytes
  | exact inv_readUUID
  | assumption
  | apply inv_bind0
  | apply inv_loopN
  | apply inv_ite
  | split
  | intro _))

theorem inv_readStringList : Inv 0 readStringList := by
  unfold readStringList; inv0

theorem inv_readBytesMap : Inv 0 readBytesMap := by
  unfold readBytesMap; inv0

macro_rules | `(tactic| inv0_leaf) => `(tactic| exact inv_readStringList)
attribute [local irreducible] readStringList
macro_rules | `(tactic| inv0_leaf) => `(tactic| exact inv_readBytesMap)
attribute [local irreducible] readBytesMap

theorem inv_readStringMultiMap : Inv 0 readStringMultiMap := by
  unfold readStringMultiMap; inv0

theorem inv_readInetAdressOnly : Inv 0 (readInetAdressOnly ) := by
  unfold readInetAdressOnly
  refine inv_bind0 (inv0_readByte ) (fun size => ?_)
  split
  · exact inv_fail 
  · exact inv_bind0 (inv_mono (inv_take .inetBody size size (Nat.le_refl _)) (Nat.zero_le _)) (fun _ => inv_alloc _)

macro_rules | `(tactic| inv0_leaf) => `(tactic| exact inv_readStringMultiMap)
attribute [local irreducible] readStringMultiMap
macro_rules | `(tactic| inv0_leaf) => `(tactic| exact inv_readInetAdressOnly)
attribute [local irreducible] readInetAdressOnly

theorem inv_readInet : Inv 0 (readInet ) := by
  unfold readInet; inv0

theorem inv_readErrorMap : Inv 0 (readErrorMap ) := by
  unfold readErrorMap; inv0

macro_rules | `(tactic| inv0_leaf) => `(tactic| exact inv_readInet)
attribute [local irreducible] readInet
macro_rules | `(tactic| inv0_leaf) => `(tactic| exact inv_readErrorMap)
attribute [local irreducible] readErrorMap

theorem inv_guardCount (need : Nat) : Inv 0 (guardCount need) := by
  intro st
  by_cases h : need > st.buf.length
  · simp [InvAt, guardCount, h]
  · simp [InvAt, guardCount, h]

theorem invAt_of_inv {k : Nat} {α : Type} {p : P α} (h : Inv k p) (st : St) : InvAt k p st := h st

/-- fuel adequacy + safety of the type-description parser, by induction on the fuel:
`|unread| + 1` suffices for readTypeInfo (every call consumes at least the 2-byte id),
`|unread| + 2` for the element loops -/
theorem typeInfo_inv : ∀ f : Nat,
    (∀ st : St, st.buf.length + 1 ≤ f → InvAt 2 (readTypeInfo f) st) ∧
    (∀ (named : Bool) (n : Nat) (st : St), st.buf.length + 2 ≤ f → InvAt 0 (typeLoop f named n) st) := by
  intro f
  induction f with
  | zero => exact ⟨fun st h => by omega, fun _ _ st h => by omega⟩
  | succ f ih =>
    obtain ⟨ihT, ihL⟩ := ih
    constructor
    · intro st hf
      unfold readTypeInfo
      refine invAt_bind (k2 := 0) (inv_readShort st) (fun id st1 h1 => ?_)
      have hcls : Inv 0 (if (id == 0) = true then (do let cls ← readString; let t := TypeStr.apacheType cls; pure (if t == 0x20 || t == 0x21 || t == 0x22 || t == 0x31 then 0 else t)) else (pure id : P Nat)) := by
        inv0
      refine invAt_bind (k1 := 0) (k2 := 0) (hcls st1) (fun typ st2 h2 => ?_)
      split
      · -- tuple
        refine invAt_bind (k1 := 0) (k2 := 0) (inv0_readShort st2) (fun n st3' h3' => ?_)
        refine invAt_bind (k1 := 0) (k2 := 0) (inv_guardCount _ st3') (fun _ st3 h3 => ?_)
        refine invAt_bind (k1 := 0) (k2 := 0) (inv_alloc _ st3) (fun _ st4 h4 => ?_)
        refine invAt_bind (k1 := 0) (k2 := 0) (ihL false n st4 (by omega)) (fun _ st5 h5 => ?_)
        exact inv_pure _ st5
      · split
        · -- udt
          refine invAt_bind (k1 := 0) (k2 := 0) (inv0_readString st2) (fun _ st3 h3 => ?_)
          refine invAt_bind (k1 := 0) (k2 := 0) (inv0_readString st3) (fun _ st4 h4 => ?_)
          refine invAt_bind (k1 := 0) (k2 := 0) (inv0_readShort st4) (fun n st5' h5' => ?_)
          refine invAt_bind (k1 := 0) (k2 := 0) (inv_guardCount _ st5') (fun _ st5 h5 => ?_)
          refine invAt_bind (k1 := 0) (k2 := 0) (inv_alloc _ st5) (fun _ st6 h6 => ?_)
          refine invAt_bind (k1 := 0) (k2 := 0) (ihL true n st6 (by omega)) (fun _ st7 h7 => ?_)
          exact inv_pure _ st7
        · split
          · -- map
            refine invAt_bind (k1 := 0) (k2 := 0) (invAt_mono (ihT st2 (by omega)) (Nat.zero_le _)) (fun _ st3 h3 => ?_)
            refine invAt_bind (k1 := 0) (k2 := 0) (invAt_mono (ihT st3 (by omega)) (Nat.zero_le _)) (fun _ st4 h4 => ?_)
            exact inv_pure _ st4
          · split
            · refine invAt_bind (k1 := 0) (k2 := 0) (invAt_mono (ihT st2 (by omega)) (Nat.zero_le _)) (fun _ st3 h3 => ?_)
              exact inv_pure _ st3
            · exact inv_pure _ st2
    · intro named n st hf
      unfold typeLoop
      cases n with
      | zero => exact inv_pure _ st
      | succ n =>
        simp only []
        have hname : Inv 0 (if named = true then (do let _ ← readString; pure ()) else (pure () : P Unit)) := by
          inv0
        refine invAt_bind (k1 := 0) (k2 := 0) (hname st) (fun _ st1 h1 => ?_)
        refine invAt_mono (invAt_bind (k1 := 2) (k2 := 0) (ihT st1 (by omega)) (fun _ st2 h2 => ?_)) (Nat.zero_le _)
        refine invAt_bind (k1 := 0) (k2 := 0) (ihL named n st2 (by omega)) (fun _ st3 h3 => ?_)
        exact inv_pure _ st3

theorem inv_readTypeInfoTop : Inv 2 (readTypeInfoTop ) := by
  intro st
  exact (typeInfo_inv (st.buf.length + 1)).1 st (Nat.le_refl _)

theorem inv0_readTypeInfoTop : Inv 0 (readTypeInfoTop ) := inv_mono (inv_readTypeInfoTop ) (Nat.zero_le _)

macro_rules | `(tactic| inv0_leaf) => `(tactic| exact inv0_readTypeInfoTop)
attribute [local irreducible] readTypeInfoTop

theorem inv_readCol (g : Bool) : Inv 0 (readCol g) := by
  unfold readCol; inv0

theorem inv_colLoop (g : Bool) (n : Nat) (acc : List TI) : Inv 0 (colLoop g n acc) := by
  induction n generalizing acc with
  | zero => exact inv_pure _
  | succ n ih =>
    unfold colLoop
    exact inv_bind0 (inv_readCol g) (fun c => ih _)

macro_rules | `(tactic| inv0_leaf) => `(tactic| exact inv_colLoop _ _ _)
attribute [local irreducible] colLoop

theorem inv_metaTail (flags colCount : Nat) : Inv 0 (metaTail flags colCount) := by
  unfold metaTail; inv0

macro_rules | `(tactic| inv0_leaf) => `(tactic| exact inv_metaTail _ _)
attribute [local irreducible] metaTail

theorem inv_parseResultMetadata : Inv 0 (parseResultMetadata ) := by
  unfold parseResultMetadata; inv0

macro_rules | `(tactic| inv0_leaf) => `(tactic| exact inv_parseResultMetadata)
attribute [local irreducible] parseResultMetadata

theorem inv_getState : Inv 0 (fun st => Res.ok st st : P St) := by
  intro st; simp [InvAt]

macro_rules | `(tactic| inv0_leaf) => `(tactic| exact inv_getState)

theorem inv_parsePreparedMetadata (proto : Nat) : Inv 0 (parsePreparedMetadata proto) := by
  unfold parsePreparedMetadata
  refine inv_bind0 (inv0_readIntU ) (fun flags => ?_)
  refine inv_bind0 (inv0_readInt ) (fun colCount => ?_)
  split
  · exact inv_fail 
  · refine inv_bind0 ?_ (fun _ => by inv0)
    split
    · refine inv_bind0 (inv0_readInt ) (fun pk => ?_)
      split
      · exact inv_fail
      · inv0
    · exact inv_pure _

macro_rules | `(tactic| inv0_leaf) => `(tactic| exact inv_parsePreparedMetadata _)
attribute [local irreducible] parsePreparedMetadata

theorem inv_parseResultSchemaChange (proto : Nat) : Inv 0 (parseResultSchemaChange proto) := by
  unfold parseResultSchemaChange; inv0

macro_rules | `(tactic| inv0_leaf) => `(tactic| exact inv_parseResultSchemaChange _)
attribute [local irreducible] parseResultSchemaChange

theorem inv_parseResultFrame (proto : Nat) : Inv 0 (parseResultFrame proto) := by
  unfold parseResultFrame; inv0

theorem inv_readFailureTail (proto : Nat) : Inv 0 (readFailureTail proto) := by
  unfold readFailureTail; inv0

macro_rules | `(tactic| inv0_leaf) => `(tactic| exact inv_readFailureTail _)
attribute [local irreducible] readFailureTail

theorem inv_parseErrorFrame (proto : Nat) : Inv 0 (parseErrorFrame proto) := by
  unfold parseErrorFrame; inv0

theorem inv_parseEventFrame (proto : Nat) : Inv 0 (parseEventFrame proto) := by
  unfold parseEventFrame; inv0

macro_rules | `(tactic| inv0_leaf) => `(tactic| exact inv_parseResultFrame _)
attribute [local irreducible] parseResultFrame
macro_rules | `(tactic| inv0_leaf) => `(tactic| exact inv_parseErrorFrame _)
attribute [local irreducible] parseErrorFrame
macro_rules | `(tactic| inv0_leaf) => `(tactic| exact inv_parseEventFrame _)
attribute [local irreducible] parseEventFrame

theorem inv_parseFrameP (proto : Nat) (resp : Bool) (flags op : Nat) :
    Inv 0 (parseFrameP proto resp flags op) := by
  unfold parseFrameP
  refine inv_ite (inv_fail ) ?_
  refine inv_bind0 (inv_ite (inv_readUUID ) (inv_pure _)) (fun _ => ?_)
  refine inv_bind0 (inv_ite (inv_readStringList ) (inv_pure _)) (fun _ => ?_)
  refine inv_bind0 (inv_ite (inv_readBytesMap ) (inv_pure _)) (fun _ => ?_)
  refine inv_ite (inv_parseErrorFrame proto) ?_
  refine inv_ite (inv_pure _) ?_
  refine inv_ite (inv_parseResultFrame proto) ?_
  refine inv_ite (inv_bind0 (inv_readStringMultiMap ) (fun _ => inv_pure _)) ?_
  refine inv_ite (inv_bind0 (inv0_readString ) (fun _ => inv_pure _)) ?_
  refine inv_ite (inv_bind0 (inv0_readBytes ) (fun _ => inv_pure _)) ?_
  refine inv_ite (inv_bind0 (inv0_readBytes ) (fun _ => inv_pure _)) ?_
  exact inv_ite (inv_parseEventFrame proto) (inv_fail )

/-! ### part theorems -/

/-- parseFrame raises no run-time panic, for every version, direction, flags, opcode and body -/
theorem parseFrame_noCrash (proto : Nat) (resp : Bool) (flags op : Nat) (body : Bytes) :
    (parseFrame proto resp flags op body).crashSite = none := by
  have := inv_parseFrameP proto resp flags op { buf := body, alloc := 0 }
  unfold InvAt at this
  unfold parseFrame
  cases hc : parseFrameP proto resp flags op { buf := body, alloc := 0 } with
  | ok a st => rfl
  | err a => rfl
  | crash s' a => rw [hc] at this; exact this.elim

end C05Frame
