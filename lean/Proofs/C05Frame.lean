import Model.FrameCrash
/-! Helper lemmas + part theorems for the frame parser outcome model (C05 part 4). -/
namespace C05Frame
open FrameCrash

/-- pointwise invariant of a parser run: a successful run consumed at least `k` bytes (and never
grows the buffer), and the only crashes are at KNOWN sites of the UNCHANGED code -/
def InvAt (fx : Bool) (k : Nat) {α : Type} (p : P α) (st : St) : Prop :=
  match p st with
  | .ok _ st' => st'.buf.length + k ≤ st.buf.length
  | .err _ => True
  | .crash s _ => s.known = true ∧ fx = false

def Inv (fx : Bool) (k : Nat) {α : Type} (p : P α) : Prop := ∀ st, InvAt fx k p st

theorem invAt_mono {fx : Bool} {k k' : Nat} {α : Type} {p : P α} {st : St} (h : InvAt fx k p st) (hk : k' ≤ k) :
    InvAt fx k' p st := by
  unfold InvAt at *
  split <;> simp_all
  omega

theorem inv_mono {fx : Bool} {k k' : Nat} {α : Type} {p : P α} (h : Inv fx k p) (hk : k' ≤ k) : Inv fx k' p :=
  fun st => invAt_mono (h st) hk

theorem invAt_bind {fx : Bool} {k1 k2 : Nat} {α β : Type} {p : P α} {f : α → P β} {st : St}
    (hp : InvAt fx k1 p st)
    (hf : ∀ a st', st'.buf.length + k1 ≤ st.buf.length → InvAt fx k2 (f a) st') :
    InvAt fx (k1 + k2) (p >>= f) st := by
  unfold InvAt at *
  show match P.bind p f st with | .ok _ st' => _ | .err _ => _ | .crash s _ => _
  unfold P.bind
  cases h : p st with
  | ok a st' =>
    rw [h] at hp
    simp only [] at hp ⊢
    have := hf a st' hp
    unfold InvAt at this
    split <;> simp_all
    omega
  | err al => simp
  | crash s al => rw [h] at hp; simpa using hp

theorem inv_bind {fx : Bool} {k1 k2 : Nat} {α β : Type} {p : P α} {f : α → P β}
    (hp : Inv fx k1 p) (hf : ∀ a, Inv fx k2 (f a)) : Inv fx (k1 + k2) (p >>= f) :=
  fun st => invAt_bind (hp st) (fun a st' _ => hf a st')

theorem inv_bind0 {fx : Bool} {α β : Type} {p : P α} {f : α → P β}
    (hp : Inv fx 0 p) (hf : ∀ a, Inv fx 0 (f a)) : Inv fx 0 (p >>= f) := inv_bind hp hf

theorem inv_pure (fx : Bool) {α : Type} (a : α) : Inv fx 0 (pure a : P α) := by
  intro st; simp [InvAt, pure, P.pure]

theorem inv_fail (fx : Bool) {α : Type} : Inv fx 0 (fail : P α) := by
  intro st; simp [InvAt, fail]

theorem inv_alloc (fx : Bool) (n : Nat) : Inv fx 0 (alloc n) := by
  intro st; simp [InvAt, alloc]

/-- THE GENERIC LEMMA: a primitive whose length check is at least as large as what it slices
cannot crash, for any buffer; it consumes exactly `need` bytes -/
theorem inv_take (fx : Bool) (site : Site) (guard need : Nat) (h : need ≤ guard) :
    Inv fx need (take site guard need) := by
  intro st
  by_cases h1 : st.buf.length < guard
  · simp [InvAt, take, h1]
  · have h2 : ¬ st.buf.length < need := by omega
    simp [InvAt, take, h1, h2]; omega

theorem take_noCrash (site : Site) (guard need : Nat) (h : need ≤ guard) (st : St) :
    (take site guard need st).crashSite = none := by
  by_cases h1 : st.buf.length < guard
  · simp [take, h1, Res.crashSite]
  · have h2 : ¬ st.buf.length < need := by omega
    simp [take, h1, h2, Res.crashSite]

/-- a primitive with a weak guard at a KNOWN site: crashes only in the unchanged code -/
theorem inv_take_known (fx : Bool) (site : Site) (guard need : Nat) (hs : site.known = true)
    (h : fx = true → need ≤ guard) : Inv fx need (take site guard need) := by
  intro st
  by_cases h1 : st.buf.length < guard
  · simp [InvAt, take, h1]
  · by_cases h2 : st.buf.length < need
    · simp only [InvAt, take, h1, h2, if_true, if_false]
      refine ⟨hs, ?_⟩
      cases fx
      · rfl
      · have := h rfl; omega
    · simp [InvAt, take, h1, h2]; omega

/-- every fixed-size primitive of the table has guard ≥ need -/
theorem primTable_ok : ∀ p ∈ primTable, p.2.2 ≤ p.2.1 := by decide

theorem inv_readByte (fx : Bool) : Inv fx 1 readByte :=
  inv_bind (k2 := 0) (inv_take fx _ 1 1 (by omega)) (fun _ => inv_pure fx _)
theorem inv_readIntU (fx : Bool) : Inv fx 4 readIntU :=
  inv_bind (k2 := 0) (inv_take fx _ 4 4 (by omega)) (fun _ => inv_pure fx _)
theorem inv_readInt (fx : Bool) : Inv fx 4 readInt :=
  inv_bind (k2 := 0) (inv_readIntU fx) (fun _ => inv_pure fx _)
theorem inv_readShort (fx : Bool) : Inv fx 2 readShort :=
  inv_bind (k2 := 0) (inv_take fx _ 2 2 (by omega)) (fun _ => inv_pure fx _)

theorem inv_readString (fx : Bool) : Inv fx 2 readString := by
  unfold readString
  refine inv_bind (k2 := 0) (inv_readShort fx) (fun size => ?_)
  refine inv_bind0 (inv_mono (inv_take fx _ size size (by omega)) (by omega)) (fun s => ?_)
  exact inv_bind0 (inv_alloc fx _) (fun _ => inv_pure fx _)

theorem inv_readUUID (fx : Bool) : Inv fx 0 readUUID := by
  unfold readUUID
  exact inv_bind0 (inv_mono (inv_take fx _ 16 16 (by omega)) (by omega)) (fun _ => inv_alloc fx _)

theorem inv_readBytes (fx : Bool) : Inv fx 4 readBytes := by
  unfold readBytes
  refine inv_bind (k2 := 0) (inv_readInt fx) (fun size => ?_)
  split
  · exact inv_pure fx _
  · exact inv_bind0 (inv_mono (inv_take fx _ _ _ (by omega)) (by omega)) (fun _ => inv_pure fx _)

theorem inv_readShortBytes (fx : Bool) : Inv fx 2 readShortBytes := by
  unfold readShortBytes
  exact inv_bind (k2 := 0) (inv_readShort fx) (fun size => inv_mono (inv_take fx _ size size (by omega)) (by omega))

theorem inv_loopN (fx : Bool) (n : Nat) (body : P Unit) (h : Inv fx 0 body) : Inv fx 0 (loopN n body) := by
  induction n with
  | zero => exact inv_pure fx _
  | succ n ih => unfold loopN; exact inv_bind0 h (fun _ => ih)

theorem inv0_readByte (fx : Bool) : Inv fx 0 readByte := inv_mono (inv_readByte fx) (Nat.zero_le _)
theorem inv0_readIntU (fx : Bool) : Inv fx 0 readIntU := inv_mono (inv_readIntU fx) (Nat.zero_le _)
theorem inv0_readInt (fx : Bool) : Inv fx 0 readInt := inv_mono (inv_readInt fx) (Nat.zero_le _)
theorem inv0_readShort (fx : Bool) : Inv fx 0 readShort := inv_mono (inv_readShort fx) (Nat.zero_le _)
theorem inv0_readString (fx : Bool) : Inv fx 0 readString := inv_mono (inv_readString fx) (Nat.zero_le _)
theorem inv0_readBytes (fx : Bool) : Inv fx 0 readBytes := inv_mono (inv_readBytes fx) (Nat.zero_le _)
theorem inv0_readShortBytes (fx : Bool) : Inv fx 0 readShortBytes := inv_mono (inv_readShortBytes fx) (Nat.zero_le _)

-- unification must not look inside the parsers when a leaf lemma does not apply
attribute [local irreducible] P.bind P.pure take alloc fail crashAt readByte readIntU readInt readShort readString readUUID
  readBytes readShortBytes loopN

theorem inv_ite {fx : Bool} {k : Nat} {α : Type} {c : Prop} [Decidable c] {p q : P α}
    (hp : Inv fx k p) (hq : Inv fx k q) : Inv fx k (if c then p else q) := by
  split <;> assumption

/-- leaf lemmas of the automation (extended below by `macro_rules` as more parsers are proved) -/
syntax "inv0_leaf" : tactic
macro_rules | `(tactic| inv0_leaf) => `(tactic| fail "no leaf lemma")

/-- structural automation for `Inv fx 0 (do …)` goals: binds, ifs, the leaf parsers, hypotheses -/
macro "inv0" : tactic => `(tactic| repeat (first
  | inv0_leaf
  | exact inv_pure _ _
  | exact inv_fail _
  | exact inv_alloc _ _
  | exact inv0_readByte _
  | exact inv0_readIntU _
  | exact inv0_readInt _
  | exact inv0_readShort _
  | exact inv0_readString _
  | exact inv0_readBytes _
  | exact inv0_readShortBytes _
  | exact inv_readUUID _
  | assumption
  | apply inv_bind0
  | apply inv_loopN
  | apply inv_ite
  | split
  | intro _))

theorem inv_readStringList (fx : Bool) : Inv fx 0 readStringList := by
  unfold readStringList; inv0

theorem inv_readBytesMap (fx : Bool) : Inv fx 0 readBytesMap := by
  unfold readBytesMap; inv0

macro_rules | `(tactic| inv0_leaf) => `(tactic| exact inv_readStringList _)
attribute [local irreducible] readStringList
macro_rules | `(tactic| inv0_leaf) => `(tactic| exact inv_readBytesMap _)
attribute [local irreducible] readBytesMap

theorem inv_readStringMultiMap (fx : Bool) : Inv fx 0 readStringMultiMap := by
  unfold readStringMultiMap; inv0

theorem inv_readInetAdressOnly (fx : Bool) : Inv fx 0 (readInetAdressOnly fx) := by
  unfold readInetAdressOnly
  refine inv_bind0 (inv0_readByte fx) (fun size => ?_)
  split
  · exact inv_fail fx
  · refine inv_bind0 (inv_mono (inv_take_known fx .inetBody _ size rfl ?_) (Nat.zero_le _)) (fun _ => inv_alloc fx _)
    intro h; simp [h]

macro_rules | `(tactic| inv0_leaf) => `(tactic| exact inv_readStringMultiMap _)
attribute [local irreducible] readStringMultiMap
macro_rules | `(tactic| inv0_leaf) => `(tactic| exact inv_readInetAdressOnly _)
attribute [local irreducible] readInetAdressOnly

theorem inv_readInet (fx : Bool) : Inv fx 0 (readInet fx) := by
  unfold readInet; inv0

theorem inv_readErrorMap (fx : Bool) : Inv fx 0 (readErrorMap fx) := by
  unfold readErrorMap; inv0

macro_rules | `(tactic| inv0_leaf) => `(tactic| exact inv_readInet _)
attribute [local irreducible] readInet
macro_rules | `(tactic| inv0_leaf) => `(tactic| exact inv_readErrorMap _)
attribute [local irreducible] readErrorMap

theorem inv_crashAt_known (fx : Bool) {α : Type} (s : Site) (hs : s.known = true) (hfx : fx = false) :
    Inv fx 0 (crashAt s : P α) := by
  intro st; simp [InvAt, crashAt, hs, hfx]

theorem inv_guardCount (fx : Bool) (need : Nat) : Inv fx 0 (guardCount fx need) := by
  intro st
  by_cases h : (fx && decide (need > st.buf.length)) = true
  · simp [InvAt, guardCount, h]
  · simp [InvAt, guardCount, h]

theorem invAt_of_inv {fx : Bool} {k : Nat} {α : Type} {p : P α} (h : Inv fx k p) (st : St) : InvAt fx k p st := h st

/-- fuel adequacy + safety of the type-description parser, by induction on the fuel:
`|unread| + 1` suffices for readTypeInfo (every call consumes at least the 2-byte id),
`|unread| + 2` for the element loops -/
theorem typeInfo_inv (fx : Bool) : ∀ f : Nat,
    (∀ st : St, st.buf.length + 1 ≤ f → InvAt fx 2 (readTypeInfo fx f) st) ∧
    (∀ (named : Bool) (n : Nat) (st : St), st.buf.length + 2 ≤ f → InvAt fx 0 (typeLoop fx f named n) st) := by
  intro f
  induction f with
  | zero => exact ⟨fun st h => by omega, fun _ _ st h => by omega⟩
  | succ f ih =>
    obtain ⟨ihT, ihL⟩ := ih
    constructor
    · intro st hf
      unfold readTypeInfo
      refine invAt_bind (k2 := 0) (inv_readShort fx st) (fun id st1 h1 => ?_)
      have hcls : Inv fx 0 (if (id == 0) = true then (do let cls ← readString; let t := TypeStr.apacheType cls; pure (if t == 0x20 || t == 0x21 || t == 0x22 || t == 0x31 then 0 else t)) else (pure id : P Nat)) := by
        inv0
      refine invAt_bind (k1 := 0) (k2 := 0) (hcls st1) (fun typ st2 h2 => ?_)
      split
      · -- tuple
        refine invAt_bind (k1 := 0) (k2 := 0) (inv0_readShort fx st2) (fun n st3' h3' => ?_)
        refine invAt_bind (k1 := 0) (k2 := 0) (inv_guardCount fx _ st3') (fun _ st3 h3 => ?_)
        refine invAt_bind (k1 := 0) (k2 := 0) (inv_alloc fx _ st3) (fun _ st4 h4 => ?_)
        refine invAt_bind (k1 := 0) (k2 := 0) (ihL false n st4 (by omega)) (fun _ st5 h5 => ?_)
        exact inv_pure fx _ st5
      · split
        · -- udt
          refine invAt_bind (k1 := 0) (k2 := 0) (inv0_readString fx st2) (fun _ st3 h3 => ?_)
          refine invAt_bind (k1 := 0) (k2 := 0) (inv0_readString fx st3) (fun _ st4 h4 => ?_)
          refine invAt_bind (k1 := 0) (k2 := 0) (inv0_readShort fx st4) (fun n st5' h5' => ?_)
          refine invAt_bind (k1 := 0) (k2 := 0) (inv_guardCount fx _ st5') (fun _ st5 h5 => ?_)
          refine invAt_bind (k1 := 0) (k2 := 0) (inv_alloc fx _ st5) (fun _ st6 h6 => ?_)
          refine invAt_bind (k1 := 0) (k2 := 0) (ihL true n st6 (by omega)) (fun _ st7 h7 => ?_)
          exact inv_pure fx _ st7
        · split
          · -- map
            refine invAt_bind (k1 := 0) (k2 := 0) (invAt_mono (ihT st2 (by omega)) (Nat.zero_le _)) (fun _ st3 h3 => ?_)
            refine invAt_bind (k1 := 0) (k2 := 0) (invAt_mono (ihT st3 (by omega)) (Nat.zero_le _)) (fun _ st4 h4 => ?_)
            exact inv_pure fx _ st4
          · split
            · refine invAt_bind (k1 := 0) (k2 := 0) (invAt_mono (ihT st2 (by omega)) (Nat.zero_le _)) (fun _ st3 h3 => ?_)
              exact inv_pure fx _ st3
            · exact inv_pure fx _ st2
    · intro named n st hf
      unfold typeLoop
      cases n with
      | zero => exact inv_pure fx _ st
      | succ n =>
        simp only []
        have hname : Inv fx 0 (if named = true then (do let _ ← readString; pure ()) else (pure () : P Unit)) := by
          inv0
        refine invAt_bind (k1 := 0) (k2 := 0) (hname st) (fun _ st1 h1 => ?_)
        refine invAt_mono (invAt_bind (k1 := 2) (k2 := 0) (ihT st1 (by omega)) (fun _ st2 h2 => ?_)) (Nat.zero_le _)
        refine invAt_bind (k1 := 0) (k2 := 0) (ihL named n st2 (by omega)) (fun _ st3 h3 => ?_)
        exact inv_pure fx _ st3

theorem inv_readTypeInfoTop (fx : Bool) : Inv fx 2 (readTypeInfoTop fx) := by
  intro st
  exact (typeInfo_inv fx (st.buf.length + 1)).1 st (Nat.le_refl _)

theorem inv0_readTypeInfoTop (fx : Bool) : Inv fx 0 (readTypeInfoTop fx) := inv_mono (inv_readTypeInfoTop fx) (Nat.zero_le _)

macro_rules | `(tactic| inv0_leaf) => `(tactic| exact inv0_readTypeInfoTop _)
attribute [local irreducible] readTypeInfoTop

theorem inv_readCol (fx : Bool) (g : Bool) : Inv fx 0 (readCol fx g) := by
  unfold readCol; inv0

theorem inv_colLoop (fx : Bool) (g : Bool) (n : Nat) (acc : List TI) : Inv fx 0 (colLoop fx g n acc) := by
  induction n generalizing acc with
  | zero => exact inv_pure fx _
  | succ n ih =>
    unfold colLoop
    exact inv_bind0 (inv_readCol fx g) (fun c => ih _)

macro_rules | `(tactic| inv0_leaf) => `(tactic| exact inv_colLoop _ _ _ _)
attribute [local irreducible] colLoop

theorem inv_metaTail (fx : Bool) (flags colCount : Nat) : Inv fx 0 (metaTail fx flags colCount) := by
  unfold metaTail; inv0

macro_rules | `(tactic| inv0_leaf) => `(tactic| exact inv_metaTail _ _ _)
attribute [local irreducible] metaTail

theorem inv_parseResultMetadata (fx : Bool) : Inv fx 0 (parseResultMetadata fx) := by
  unfold parseResultMetadata; inv0

macro_rules | `(tactic| inv0_leaf) => `(tactic| exact inv_parseResultMetadata _)
attribute [local irreducible] parseResultMetadata

theorem inv_getState (fx : Bool) : Inv fx 0 (fun st => Res.ok st st : P St) := by
  intro st; simp [InvAt]

macro_rules | `(tactic| inv0_leaf) => `(tactic| exact inv_getState _)

theorem inv_parsePreparedMetadata (fx : Bool) (proto : Nat) : Inv fx 0 (parsePreparedMetadata fx proto) := by
  unfold parsePreparedMetadata
  refine inv_bind0 (inv0_readIntU fx) (fun flags => ?_)
  refine inv_bind0 (inv0_readInt fx) (fun colCount => ?_)
  split
  · exact inv_fail fx
  · refine inv_bind0 ?_ (fun _ => by inv0)
    split
    · refine inv_bind0 (inv0_readInt fx) (fun pk => ?_)
      split
      · cases fx
        · exact inv_crashAt_known false _ rfl rfl
        · exact inv_fail _
      · inv0
    · exact inv_pure fx _

macro_rules | `(tactic| inv0_leaf) => `(tactic| exact inv_parsePreparedMetadata _ _)
attribute [local irreducible] parsePreparedMetadata

theorem inv_parseResultSchemaChange (fx : Bool) (proto : Nat) : Inv fx 0 (parseResultSchemaChange proto) := by
  unfold parseResultSchemaChange; inv0

macro_rules | `(tactic| inv0_leaf) => `(tactic| exact inv_parseResultSchemaChange _ _)
attribute [local irreducible] parseResultSchemaChange

theorem inv_parseResultFrame (fx : Bool) (proto : Nat) : Inv fx 0 (parseResultFrame fx proto) := by
  unfold parseResultFrame; inv0

theorem inv_readFailureTail (fx : Bool) (proto : Nat) : Inv fx 0 (readFailureTail fx proto) := by
  unfold readFailureTail; inv0

macro_rules | `(tactic| inv0_leaf) => `(tactic| exact inv_readFailureTail _ _)
attribute [local irreducible] readFailureTail

theorem inv_parseErrorFrame (fx : Bool) (proto : Nat) : Inv fx 0 (parseErrorFrame fx proto) := by
  unfold parseErrorFrame; inv0

theorem inv_parseEventFrame (fx : Bool) (proto : Nat) : Inv fx 0 (parseEventFrame fx proto) := by
  unfold parseEventFrame; inv0

macro_rules | `(tactic| inv0_leaf) => `(tactic| exact inv_parseResultFrame _ _)
attribute [local irreducible] parseResultFrame
macro_rules | `(tactic| inv0_leaf) => `(tactic| exact inv_parseErrorFrame _ _)
attribute [local irreducible] parseErrorFrame
macro_rules | `(tactic| inv0_leaf) => `(tactic| exact inv_parseEventFrame _ _)
attribute [local irreducible] parseEventFrame

theorem inv_parseFrameP (fx : Bool) (proto : Nat) (resp : Bool) (flags op : Nat) :
    Inv fx 0 (parseFrameP fx proto resp flags op) := by
  unfold parseFrameP
  refine inv_ite (inv_fail fx) ?_
  refine inv_bind0 (inv_ite (inv_readUUID fx) (inv_pure fx _)) (fun _ => ?_)
  refine inv_bind0 (inv_ite (inv_readStringList fx) (inv_pure fx _)) (fun _ => ?_)
  refine inv_bind0 (inv_ite (inv_readBytesMap fx) (inv_pure fx _)) (fun _ => ?_)
  refine inv_ite (inv_parseErrorFrame fx proto) ?_
  refine inv_ite (inv_pure fx _) ?_
  refine inv_ite (inv_parseResultFrame fx proto) ?_
  refine inv_ite (inv_bind0 (inv_readStringMultiMap fx) (fun _ => inv_pure fx _)) ?_
  refine inv_ite (inv_bind0 (inv0_readString fx) (fun _ => inv_pure fx _)) ?_
  refine inv_ite (inv_bind0 (inv0_readBytes fx) (fun _ => inv_pure fx _)) ?_
  refine inv_ite (inv_bind0 (inv0_readBytes fx) (fun _ => inv_pure fx _)) ?_
  exact inv_ite (inv_parseEventFrame fx proto) (inv_fail fx)

/-! ### part theorems -/

/-- whatever run-time panic parseFrame can raise, it is at a KNOWN site, and only in the unchanged code -/
theorem parseFrame_known (fx : Bool) (proto : Nat) (resp : Bool) (flags op : Nat) (body : Bytes) (s : Site)
    (h : (parseFrame fx proto resp flags op body).crashSite = some s) : s.known = true ∧ fx = false := by
  have := inv_parseFrameP fx proto resp flags op { buf := body, alloc := 0 }
  unfold InvAt at this
  unfold parseFrame at h
  cases hc : parseFrameP fx proto resp flags op { buf := body, alloc := 0 } with
  | ok a st => simp [hc, Res.crashSite] at h
  | err a => simp [hc, Res.crashSite] at h
  | crash s' a =>
    rw [hc] at this h
    simp [Res.crashSite] at h
    subst h
    exact this

end C05Frame
