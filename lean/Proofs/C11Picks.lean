import Model.Policies
import Proofs.C11Conc
/-! # C11 — Picks CONCURRENT with host changes (round 2)

The interleaving machine of `Policies.Cow` (the atomic steps lock / load / copy / store / unlock of any number of
concurrent `add` / `remove` calls on a copy-on-write list) extended by READERS: a `Pick` of the round-robin based
policies is one atomic load of the list (`cowHostList.get()`; per tier) - it HOLDS a snapshot and writes nothing but
the rotation counter. So, for EVERY schedule, the list is what the notifier calls alone make of it: after quiescence
(all calls returned, all Picks finished) the policy state is the history's, and a fresh iterator offers the history's
hosts (`C11_history_exact_partial` applies to that state as it stands). The op `flap` checks exactly this on the real
code. Counterexample: a Pick that WRITES BACK a snapshot it took earlier (a lazily rebuilt cache of the tier lists that
host changes drop - the seeded change C11-12) - a schedule leaves the stale snapshot installed at quiescence. -/
namespace C11
open Policies Policies.Cow

variable {σ : Type}

/-- a step of the schedule: an atomic step of notifier call `i`, or the load of Pick `j` -/
inductive MStep
  | w (i : Nat)
  | r (j : Nat)

/-- the list machine plus what every Pick holds -/
structure MSys (σ : Type) where
  sys : Sys σ
  snaps : Nat → Option σ

def mstep (n : Nat) (fs : Nat → σ → σ) (s : MSys σ) : MStep → MSys σ
  | .w i => { s with sys := step true n fs s.sys i }
  | .r j => { s with snaps := fun k => if k = j then some s.sys.shared else s.snaps k }

def mrun (n : Nat) (fs : Nat → σ → σ) (s : MSys σ) (sched : List MStep) : MSys σ := sched.foldl (mstep n fs) s

/-- the steps of the notifier calls in a schedule -/
def writerSteps : List MStep → List Nat
  | [] => []
  | .w i :: r => i :: writerSteps r
  | .r _ :: r => writerSteps r

theorem mrun_sys (n : Nat) (fs : Nat → σ → σ) (sched : List MStep) :
    ∀ s : MSys σ, (mrun n fs s sched).sys = run true n fs s.sys (writerSteps sched) := by
  induction sched with
  | nil => intro s; rfl
  | cons a r ih =>
    intro s
    cases a with
    | w i => exact ih _
    | r j => exact ih _

/-- every snapshot a Pick holds is the list as some prefix of the schedule left it: a value the notifier calls
published, never a torn or invented one -/
theorem mrun_snaps (n : Nat) (fs : Nat → σ → σ) (sched : List MStep) :
    ∀ s : MSys σ, ∀ j v, (mrun n fs s sched).snaps j = some v →
      s.snaps j = some v ∨ ∃ k, k ≤ sched.length ∧ v = (mrun n fs s (sched.take k)).sys.shared := by
  induction sched with
  | nil => intro s j v h; exact Or.inl h
  | cons a r ih =>
    intro s j v h
    have := ih (mstep n fs s a) j v h
    rcases this with h1 | ⟨k, hk, hv⟩
    · cases a with
      | w i => exact Or.inl h1
      | r j' =>
        simp only [mstep] at h1
        by_cases hj : j = j'
        · rw [if_pos hj] at h1
          injection h1 with h1
          exact Or.inr ⟨0, Nat.zero_le _, by rw [← h1]; rfl⟩
        · rw [if_neg hj] at h1
          exact Or.inl h1
    · exact Or.inr ⟨k + 1, by simp; omega, by rw [hv]; rfl⟩

/-- PICKS WRITE NO LISTS. For EVERY schedule of the atomic steps of `n` concurrent notifier calls (`add` / `remove` on one
copy-on-write list, the code's mutex discipline) interleaved with ANY number of Picks at any points: once all calls have
returned, the list is the result of the calls alone, applied one after the other in some order of all of them - exactly
as if no Pick had run (`C11_cow_concurrent_linearizable`); and every Pick held a value the list really had at some
point of the run. After quiescence the policy's lists are the history's. -/
theorem C11_picks_write_no_lists (n : Nat) (ops : Nat → CowOp) (l0 : List Host) (sched : List MStep) :
    let s := mrun n (fun i => (ops i).apply) ⟨Cow.init l0, fun _ => none⟩ sched
    (s.sys.allDone n = true →
      ∃ order : List Nat, order.Perm (List.range n) ∧ s.sys.shared = Cow.seq (fun i => (ops i).apply) order l0) ∧
    ∀ j v, s.snaps j = some v → ∃ k, k ≤ sched.length ∧
      v = (mrun n (fun i => (ops i).apply) ⟨Cow.init l0, fun _ => none⟩ (sched.take k)).sys.shared := by
  intro s
  constructor
  · intro hd
    have e := mrun_sys n (fun i => (ops i).apply) sched ⟨Cow.init l0, fun _ => none⟩
    have hd' : (run true n (fun i => (ops i).apply) (Cow.init l0) (writerSteps sched)).allDone n = true := by
      rw [← e]; exact hd
    obtain ⟨order, h1, h2⟩ := cow_linearizable n (fun i => (ops i).apply) l0 (writerSteps sched) hd'
    exact ⟨order, h1, by show (mrun n _ _ sched).sys.shared = _; rw [e]; exact h2⟩
  · intro j v h
    rcases mrun_snaps n (fun i => (ops i).apply) sched ⟨Cow.init l0, fun _ => none⟩ j v h with h1 | h1
    · cases h1
    · exact h1

/-! ### counterexample: a Pick that writes back (a cache of the lists, dropped by host changes, rebuilt lazily by Pick) -/

/-- the cached variant: `lists` the copy-on-write list, `cache` the snapshot handed to the iterators -/
structure CSys where
  lists : List Nat
  cache : Option (List Nat)
  held : Option (List Nat)      -- the Pick in flight: it found the cache empty and has loaded the lists
deriving DecidableEq

inductive CStep
  | addStore (h : Nat)   -- a host change publishes the new list ...
  | drop                 -- ... and drops the cache
  | pickLoad             -- Pick: cache empty -> load the lists
  | pickStore            -- Pick: store what it loaded as the new cache
deriving DecidableEq

def cstep (s : CSys) : CStep → CSys
  | .addStore h => { s with lists := s.lists ++ [h] }
  | .drop => { s with cache := none }
  | .pickLoad => if s.cache.isNone then { s with held := some s.lists } else s
  | .pickStore => match s.held with
    | some v => { s with cache := some v, held := none }
    | none => s

/-- what a fresh iterator sees at quiescence in the cached variant -/
def CSys.view (s : CSys) : List Nat := s.cache.getD s.lists

/-- COUNTEREXAMPLE (kernel-checked): host 2 was reported down (list [1], cache dropped); a Pick finds the cache empty and
loads [1]; HostUp(2) publishes [1, 2] and drops the cache; the Pick stores its snapshot. Everything has returned - and
every later iterator is built from [1]: the up host 2 is never offered. Any other order of the same steps is fine. -/
theorem C11_cex_pick_writes_back :
    let s0 : CSys := ⟨[1], none, none⟩
    let bad := [CStep.pickLoad, .addStore 2, .drop, .pickStore].foldl cstep s0
    let good := [CStep.addStore 2, .drop, .pickLoad, .pickStore].foldl cstep s0
    bad.lists = [1, 2] ∧ bad.view = [1] ∧ bad.held = none ∧ good.view = [1, 2] := by
  decide

/-- non-vacuity of `C11_picks_write_no_lists`: HostUp of host 2 with two Picks, one before the store, one after -/
example :
    let h1 : Host := ⟨1, 1, 0, 0, []⟩
    let h2 : Host := ⟨2, 2, 0, 0, []⟩
    let ops : Nat → CowOp := fun _ => .add h2
    let s := mrun 1 (fun i => (ops i).apply) ⟨Cow.init [h1], fun _ => none⟩
      [.w 0, .w 0, .r 0, .w 0, .w 0, .r 1, .w 0]
    s.sys.shared = [h1, h2] ∧ s.snaps 0 = some [h1] ∧ s.snaps 1 = some [h1, h2] ∧ s.sys.allDone 1 = true := by
  decide

end C11
