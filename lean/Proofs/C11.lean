import Model.Policies
import Proofs.C11Cow
import Proofs.C11RR
import Proofs.C11Pol
import Proofs.C11TA
/-! # C11 — host selection offers each live node once, nearest and replicas first (property theorems)

Model: `Model/Policies.lean` (cowHostList, roundRobbin, roundRobinHostPolicy / dcAwareRR / rackAwareRR,
tokenAwareHostPolicy.Pick). A `Host` value is one `*HostInfo` object; `up : Nat → Bool` is the (mutable,
lazily read) state of the objects, arbitrary but fixed during one drain of an iterator. -/
namespace C11
open Policies

/-! ## copy-on-write list -/

/-- `cowHostList.add` / `remove` keep "no two entries with one address" (hence no host object twice);
add inserts exactly the new host if no entry has its address; remove leaves exactly the others. -/
theorem C11_cow_ops (l : List Host) (hl : AddrNodup l) (h : Host) (ip : Nat) :
    AddrNodup (cowAdd l h).1 ∧ AddrNodup (cowRemove l ip).1 ∧
    (∀ x, x ∈ (cowAdd l h).1 ↔ x ∈ l ∨ (x = h ∧ ∀ y ∈ l, y.addr ≠ h.addr)) ∧
    (∀ x, x ∈ (cowRemove l ip).1 ↔ x ∈ l ∧ x.addr ≠ ip) :=
  ⟨cowAdd_inv l h hl, cowRemove_inv l ip hl, mem_cowAdd l h, mem_cowRemove l ip⟩

example : (cowAdd [⟨1, 1, 0, 0, []⟩] ⟨2, 1, 0, 0, []⟩).2 = false ∧ (cowAdd [⟨1, 1, 0, 0, []⟩] ⟨2, 2, 0, 0, []⟩).1.length = 2 := by decide

/-! ## the roundRobbin iterator -/

/-- For every shift and every list of layers the offered sequence is, layer by layer, the rotation by
`shift+1` of the layer with the down hosts dropped; hence a permutation of the up hosts of all layers
(finite, only up hosts, every up host), without duplicates if the layers have none. -/
theorem C11_rr_perm (up : Nat → Bool) (shift : Nat) (layers : List (List Host)) :
    rrSeq up shift layers = (layers.map (fun l => (rot (shift + 1) l).filter (fun h => up h.id))).flatten ∧
    (∀ l, (rot (shift + 1) l).Perm l) ∧
    (rrSeq up shift layers).Perm (layers.flatten.filter (fun h => up h.id)) ∧
    (∀ h, h ∈ rrSeq up shift layers ↔ (∃ l ∈ layers, h ∈ l) ∧ up h.id = true) ∧
    (layers.flatten.Nodup → (rrSeq up shift layers).Nodup) := by
  refine ⟨?_, fun l => rot_perm _ l, rrSeq_perm up shift layers, mem_rrSeq up shift layers, rrSeq_nodup up shift layers⟩
  unfold rrSeq
  congr 1
  apply List.map_congr_left
  intro l _
  rw [layerSeq_eq_rot]

example : rrSeq (fun id => id != 2) 4 [[⟨1, 1, 0, 0, []⟩, ⟨2, 2, 0, 0, []⟩, ⟨3, 3, 0, 0, []⟩], [⟨4, 4, 1, 0, []⟩]]
    = [⟨3, 3, 0, 0, []⟩, ⟨1, 1, 0, 0, []⟩, ⟨4, 4, 1, 0, []⟩] := by decide

/-- Successive picks rotate the start: the policy's counter advances by one per `Pick`, and the order in
which a layer is visited by the next pick is the previous order rotated by one. -/
theorem C11_rr_rotates (p : Pol) (up : Nat → Bool) (l : List Host) :
    (p.pick up).1.ctr = p.ctr + 1 ∧
    layerSeq ((p.pick up).1.ctr + 1) l = rot 1 (layerSeq (p.ctr + 1) l) :=
  ⟨rfl, layerSeq_succ (p.ctr + 1) l⟩

/-! ## the three round-robin based policies, all reachable states -/

inductive Op
  | add (h : Host)       -- AddHost / HostUp
  | remove (h : Host)    -- RemoveHost / HostDown
  | pick (up : Nat → Bool)

def Pol.apply (p : Pol) : Op → Pol
  | .add h => p.add h
  | .remove h => p.remove h
  | .pick up => (p.pick up).1

theorem Inv_run (p : Pol) (hp : Inv p) (ops : List Op) : Inv (ops.foldl Pol.apply p) := by
  induction ops generalizing p with
  | nil => exact hp
  | cons o r ih =>
    apply ih
    cases o with
    | add h => exact Inv_add p hp h
    | remove h => exact Inv_remove p hp h
    | pick up => exact Inv_pick p hp up

/-- For every policy kind and configuration, after ANY sequence of AddHost/RemoveHost/HostUp/HostDown/Pick,
and for any up/down state of the host objects, the sequence offered by the next `Pick`
has no host twice, offers only up hosts, offers every up host the policy knows, and is ordered by tier
(local before remote; local rack, local DC, remote DC). -/
theorem C11_policy_all_states (k : Kind) (ldc lrack : Nat) (ops : List Op) (up : Nat → Bool) :
    let p := ops.foldl Pol.apply (Pol.new k ldc lrack)
    (p.pickSeq up).Nodup ∧
    (∀ h ∈ p.pickSeq up, up h.id = true) ∧
    (∀ h, known p h → up h.id = true → h ∈ p.pickSeq up) ∧
    (p.pickSeq up).Pairwise (fun a b => p.tier a ≤ p.tier b) := by
  intro p
  have hp : Inv p := Inv_run _ (Inv_new k ldc lrack) ops
  refine ⟨pickSeq_nodup p hp up, ?_, ?_, pickSeq_sorted p hp up⟩
  · intro h hh; exact ((mem_pickSeq p hp up h).mp hh).2
  · intro h hk hu; exact (mem_pickSeq p hp up h).mpr ⟨hk, hu⟩

example : ([Op.add ⟨1, 1, 0, 0, []⟩, Op.add ⟨2, 2, 1, 0, []⟩, Op.add ⟨3, 3, 0, 1, []⟩].foldl Pol.apply (Pol.new .rack 0 0)).pickSeq (fun _ => true)
    = [⟨1, 1, 0, 0, []⟩, ⟨3, 3, 0, 1, []⟩, ⟨2, 2, 1, 0, []⟩] := by decide

/-! ## token-aware policy -/

def cexA' : Host := ⟨1, 1, 0, 0, [10]⟩
def cexB' : Host := ⟨2, 2, 0, 1, [20]⟩
def cexC' : Host := ⟨3, 3, 0, 1, [30]⟩
def cexD' : Host := ⟨4, 4, 1, 0, [40]⟩

inductive TAOp
  | add (h : Host) | remove (h : Host) | hostUp (h : Host) | hostDown (h : Host)
  | setReplicas (ks : Nat) (tab : List (Nat × List Host))
  | pick (up : Nat → Bool) (σ : List Host → List Host) (rk : Option (Nat × Nat)) (limit : Nat)

def TA.apply (t : TA) : TAOp → TA
  | .add h => t.add h
  | .remove h => t.remove h
  | .hostUp h => t.hostUp h
  | .hostDown h => t.hostDown h
  | .setReplicas ks tab => t.setReplicas ks tab
  | .pick up σ rk limit => (t.pick up σ rk limit).1

theorem pick_pol (t : TA) (up : Nat → Bool) (σ : List Host → List Host) (rk : Option (Nat × Nat)) (limit : Nat) :
    (t.pick up σ rk limit).1.pol = t.pol ∨ (t.pick up σ rk limit).1.pol = (t.pol.pick up).1 := by
  unfold TA.pick
  simp only
  repeat' split
  all_goals first | exact Or.inl rfl | exact Or.inr rfl

theorem TAInv_run (t : TA) (hp : Inv t.pol) (ops : List TAOp) : Inv (ops.foldl TA.apply t).pol := by
  induction ops generalizing t with
  | nil => exact hp
  | cons o r ih =>
    apply ih
    cases o with
    | add h => exact Inv_add _ hp h
    | remove h => exact Inv_remove _ hp h
    | hostUp h => exact Inv_add _ hp h
    | hostDown h => exact Inv_remove _ hp h
    | setReplicas ks tab => exact hp
    | pick up σ rk limit =>
      show Inv (t.pick up σ rk limit).1.pol
      rcases pick_pol t up σ rk limit with e | e <;> rw [e]
      · exact hp
      · exact Inv_pick _ hp up

/-- a state used in the non-vacuity examples: rack-aware fallback, non-local fallback, replicas a (local rack, down below), c (local DC) -/
def cexTAok : TA :=
  [TAOp.add cexA', .add cexB', .add cexC', .add cexD', .setReplicas 0 [(100, [cexA', cexC'])]].foldl TA.apply
    (TA.new (Pol.new .rack 0 0) false true true)

/-- Token-aware generator, for every tier function, option, up/down state, fallback sequence and every
replica list WITHOUT duplicates: the offered sequence has no host twice, offers only up hosts (if the
fallback does), offers every host of the fallback sequence; it starts with the up replicas of tier 0 in
replica-list order (primary first), and what follows the replica phases is a subsequence of the
fallback's order. -/
theorem C11_tokenaware_complete_unique (tier : Host → Nat) (maxTier : Nat) (up : Nat → Bool) (nonlocal : Bool)
    (replicas fallback : List Host) (hn : replicas.Nodup) :
    (taSeq tier maxTier up nonlocal replicas fallback).Nodup ∧
    ((∀ x ∈ fallback, up x.id = true) → ∀ x ∈ taSeq tier maxTier up nonlocal replicas fallback, up x.id = true) ∧
    (∀ x ∈ fallback, x ∈ taSeq tier maxTier up nonlocal replicas fallback) ∧
    (∃ rest, taSeq tier maxTier up nonlocal replicas fallback =
        replicas.filter (fun h => tier h == 0 && up h.id) ++ rest) ∧
    (∃ rest, taSeq tier maxTier up nonlocal replicas fallback = taHead tier maxTier up nonlocal replicas ++ rest ∧
        rest.Sublist fallback ∧ (∀ x ∈ taHead tier maxTier up nonlocal replicas, x ∈ replicas)) := by
  refine ⟨taSeq_nodup _ _ _ _ _ _ hn, fun hfb x hx => taSeq_up _ _ _ _ _ _ hfb x hx,
    fun x hx => mem_taSeq_of_fallback _ _ _ _ _ _ x hx, ?_, ?_⟩
  · unfold taSeq taHead localReplicas
    simp only [List.append_assoc]
    exact ⟨_, rfl⟩
  · exact ⟨_, rfl, minusUsed_sublist _ _, fun x hx => (mem_taHead _ _ _ _ _ x hx).1⟩

/-- the same with shuffling: the shuffled replica list is a permutation, so the up tier-0 replicas still
come first, in some order -/
theorem C11_tokenaware_shuffle (tier : Host → Nat) (maxTier : Nat) (up : Nat → Bool) (nonlocal : Bool)
    (σ : List Host → List Host) (hσ : ∀ l, (σ l).Perm l) (replicas fallback : List Host) (hn : replicas.Nodup) :
    (taSeq tier maxTier up nonlocal (σ replicas) fallback).Nodup ∧
    ∃ pre rest, taSeq tier maxTier up nonlocal (σ replicas) fallback = pre ++ rest ∧
      pre.Perm (replicas.filter (fun h => tier h == 0 && up h.id)) := by
  have hn' : (σ replicas).Nodup := (hσ replicas).nodup_iff.mpr hn
  obtain ⟨h1, _, _, ⟨rest, h4⟩, _⟩ := C11_tokenaware_complete_unique tier maxTier up nonlocal (σ replicas) fallback hn'
  exact ⟨h1, _, rest, h4, (hσ replicas).filter _⟩

/-- the replica list `Pick` works with for a query (after shuffling); `none` = the query is handed to the
fallback policy as it is (no routing key, no token ring, or empty ring and no replica table) -/
def repsOf (t : TA) (σ : List Host → List Host) (rk : Option (Nat × Nat)) : Option (List Host) :=
  match rk with
  | none => none
  | some (ks, tok) =>
    match t.replicasFor ks tok with
    | .hosts l ft => some (if ft && t.shuffle then σ l else l)
    | _ => none

theorem replicasFor_nodup (t : TA) (hrep : ∀ e ∈ t.replicas, ∀ f ∈ e.2, f.2.Nodup) (ks tok : Nat)
    (reps : List Host) (ft : Bool) (hr : t.replicasFor ks tok = .hosts reps ft) : reps.Nodup := by
  unfold TA.replicasFor at hr
  split at hr
  · cases hr
  · split at hr
    · rename_i l' hl'
      injection hr with e1 e2
      subst e1
      rw [Option.bind_eq_some_iff] at hl'
      obtain ⟨e, he, hlk⟩ := hl'
      have hmem := List.mem_of_find?_eq_some he
      unfold lookupTok at hlk
      split at hlk
      · rename_i f hf
        injection hlk with e'
        rw [← e']
        exact hrep e hmem f (List.mem_of_find?_eq_some hf)
      · rw [Option.map_eq_some_iff] at hlk
        obtain ⟨f, hf, e'⟩ := hlk
        rw [← e']
        exact hrep e hmem f (List.mem_of_head? hf)
    · split at hr
      · injection hr with e1 e2
        subst e1
        exact List.nodup_cons.mpr ⟨by simp, List.nodup_nil⟩
      · cases hr

theorem specHead_nil (tier : Host → Nat) (m : Nat) (up : Nat → Bool) (nl : Bool) : specHead tier m up nl [] = [] := by
  simp [specHead]

theorem pick_opts (t : TA) (up : Nat → Bool) (σ : List Host → List Host) (rk : Option (Nat × Nat)) (limit : Nat) :
    (t.pick up σ rk limit).1.nonlocal = t.nonlocal ∧ (t.pick up σ rk limit).1.shuffle = t.shuffle := by
  unfold TA.pick
  simp only
  repeat' split
  all_goals exact ⟨rfl, rfl⟩

theorem run_opts (t : TA) (ops : List TAOp) :
    (ops.foldl TA.apply t).nonlocal = t.nonlocal ∧ (ops.foldl TA.apply t).shuffle = t.shuffle := by
  induction ops generalizing t with
  | nil => exact ⟨rfl, rfl⟩
  | cons o r ih =>
    rw [List.foldl_cons]
    refine ⟨(ih _).1.trans ?_, (ih _).2.trans ?_⟩
    · cases o <;> first | rfl | exact (pick_opts t _ _ _ _).1
    · cases o <;> first | rfl | exact (pick_opts t _ _ _ _).2

/-- THE PROPERTY for the token-aware policy, in every reachable state (any history of AddHost / RemoveHost /
HostUp / HostDown / replica-table updates / picks), for every fallback kind and option combination, any
up/down state, any query (with or without routing key, keyspace with or without replica table, token ring
empty or not): the drained iterator ends without a nil-host dereference; if the replica lists of the installed
tables have no duplicates and the shuffle permutes, it offers no host twice, only up hosts, and every up
host the fallback policy knows; it starts with the up replicas of the token tier by tier (nearest tier
first, farther tiers only with NonLocalReplicasFallback; replica-list order inside a tier, i.e. primary
first unless shuffling) — for EVERY replica list, also when a middle tier has no replica (KF-C11-1) — and
continues with hosts in the fallback policy's order, which is ordered by tier. -/
theorem C11_tokenaware_all_states (k : Kind) (ldc lrack : Nat) (sh nl ps : Bool) (ops : List TAOp)
    (up : Nat → Bool) (σ : List Host → List Host) (hσ : ∀ l, (σ l).Perm l) (rk : Option (Nat × Nat)) :
    let t := ops.foldl TA.apply (TA.new (Pol.new k ldc lrack) sh nl ps)
    (∀ e ∈ t.replicas, ∀ f ∈ e.2, f.2.Nodup) →
    ∃ l, t.pickSeq up σ rk = .seq l ∧
      l.Nodup ∧ (∀ h ∈ l, up h.id = true) ∧ (∀ h, known t.pol h → up h.id = true → h ∈ l) ∧
      ∃ rest, l = specHead t.pol.tier t.pol.maxTier up nl ((repsOf t σ rk).getD []) ++ rest ∧
        rest.Sublist (t.pol.pickSeq up) ∧ rest.Pairwise (fun a b => t.pol.tier a ≤ t.pol.tier b) := by
  intro t hrep
  have hp : Inv t.pol := TAInv_run _ (Inv_new k ldc lrack) ops
  have hnl : t.nonlocal = nl := (run_opts _ ops).1
  have plain : t.pickSeq up σ rk = .seq (t.pol.pickSeq up) → repsOf t σ rk = none →
      ∃ l, t.pickSeq up σ rk = .seq l ∧
      l.Nodup ∧ (∀ h ∈ l, up h.id = true) ∧ (∀ h, known t.pol h → up h.id = true → h ∈ l) ∧
      ∃ rest, l = specHead t.pol.tier t.pol.maxTier up nl ((repsOf t σ rk).getD []) ++ rest ∧
        rest.Sublist (t.pol.pickSeq up) ∧ rest.Pairwise (fun a b => t.pol.tier a ≤ t.pol.tier b) := by
    intro e1 e2
    refine ⟨_, e1, pickSeq_nodup _ hp up, fun h hh => ((mem_pickSeq _ hp up h).mp hh).2,
      fun h hk hu => (mem_pickSeq _ hp up h).mpr ⟨hk, hu⟩, t.pol.pickSeq up, ?_, List.Sublist.refl _,
      pickSeq_sorted _ hp up⟩
    rw [e2, Option.getD_none, specHead_nil, List.nil_append]
  cases rk with
  | none => exact plain rfl rfl
  | some kt =>
    obtain ⟨ks, tok⟩ := kt
    cases hr : t.replicasFor ks tok with
    | noRing => exact plain (by simp only [TA.pickSeq, hr]) (by simp only [repsOf, hr])
    | emptyRing => exact plain (by simp only [TA.pickSeq, hr]) (by simp only [repsOf, hr])
    | hosts reps ft =>
      have hreps : reps.Nodup := replicasFor_nodup t hrep ks tok reps ft hr
      have hreps' : (if (ft && t.shuffle) = true then σ reps else reps).Nodup := by
        split
        · exact (hσ reps).nodup_iff.mpr hreps
        · exact hreps
      refine ⟨taSeq t.pol.tier t.pol.maxTier up t.nonlocal (if (ft && t.shuffle) = true then σ reps else reps) (t.pol.pickSeq up),
        by simp only [TA.pickSeq, hr], taSeq_nodup _ _ _ _ _ _ hreps', ?_, ?_, ?_⟩
      · exact fun h hh => taSeq_up _ _ _ _ _ _ (fun x hx => ((mem_pickSeq _ hp up x).mp hx).2) h hh
      · exact fun h hk hu => mem_taSeq_of_fallback _ _ _ _ _ _ h ((mem_pickSeq _ hp up h).mpr ⟨hk, hu⟩)
      · refine ⟨minusUsed (taHead t.pol.tier t.pol.maxTier up t.nonlocal (if (ft && t.shuffle) = true then σ reps else reps))
            (t.pol.pickSeq up), ?_, minusUsed_sublist _ _, (pickSeq_sorted _ hp up).sublist (minusUsed_sublist _ _)⟩
        simp only [repsOf, hr, Option.getD_some, taSeq, hnl, taHead_eq_specHead]

/-- `Pick` followed by `limit` calls of the iterator offers the first `limit` hosts of the full sequence
(ties the limited pick of the model driver to the sequences the theorems are about) -/
theorem C11_pick_take (t : TA) (up : Nat → Bool) (σ : List Host → List Host) (rk : Option (Nat × Nat)) (limit : Nat) :
    (t.pick up σ rk limit).2 = match t.pickSeq up σ rk with
      | .seq l => .seq (l.take limit)
      | .crash => .crash := by
  unfold TA.pick TA.pickSeq
  simp only
  split
  · rfl
  · split
    · rfl
    · rfl
    · simp only
      generalize (if (_ && t.shuffle) = true then σ _ else _) = reps
      split
      · rename_i h
        simp only [taSeq]
        rw [List.take_append_of_le_length h]
      · rfl

example : (cexTAok.pickSeq (fun id => id != 1) id (some (0, 50))) = .seq [cexC', cexB', cexD'] := by decide

/-! ### order of the remote replicas (non-local fallback) — finding KF-C11-1, FIXED

With NonLocalReplicasFallback, after the up replicas of tier 0 come the up replicas of tier 1, then tier 2,
…, then the remaining hosts. Before the fix the j/k walk stopped at the first EMPTY bucket
(`for j < len(remote) && k < len(remote[j])`), so a replica of a farther tier was offered after
non-replicas when a nearer tier had no replica; the theorem needed the hypothesis "no empty bucket before a
non-empty one". The repaired walk skips empty buckets and the theorem holds for every replica list. -/

/-- for every tier function, number of tiers, up/down state, option and EVERY replica list the replica
phases of the token-aware iterator offer exactly the specified head (`specHead`: up replicas tier by tier) -/
theorem C11_tokenaware_remote_order (tier : Host → Nat) (m : Nat) (up : Nat → Bool) (nl : Bool) (reps fallback : List Host) :
    taHead tier m up nl reps = specHead tier m up nl reps ∧
    (taSeq tier m up nl reps fallback).take (specHead tier m up nl reps).length = specHead tier m up nl reps ∧
    (nl = true → specHead tier m up nl reps =
      ((List.range (m + 1)).map (fun t => reps.filter (fun h => tier h == t && up h.id))).flatten) := by
  refine ⟨taHead_eq_specHead tier m up nl reps, ?_, ?_⟩
  · unfold taSeq
    simp only [taHead_eq_specHead]
    rw [List.take_append_of_le_length (Nat.le_refl _), List.take_length]
  · intro h; subst h; rfl

def cexA : Host := ⟨1, 1, 0, 0, []⟩   -- local rack
def cexB : Host := ⟨2, 2, 0, 1, []⟩   -- local DC, other rack
def cexC : Host := ⟨3, 3, 1, 0, []⟩   -- remote DC, replica
def cexD : Host := ⟨4, 4, 1, 0, []⟩   -- remote DC
def cexTA : TA :=
  [TAOp.add cexA, .add cexB, .add cexC, .add cexD, .setReplicas 0 [(100, [cexA, cexC])]].foldl TA.apply
    (TA.new (Pol.new .rack 0 0) false true true)

/-- the recorded input of KF-C11-1 (rack-aware fallback + NonLocalReplicasFallback, replicas [a (local
rack), c (remote DC)], no replica in tier 1): the remote replica c now comes before the non-replica b -/
theorem C11_fixed_remote_order :
    cexTA.pickSeq (fun _ => true) id (some (0, 50)) = .seq [cexA, cexC, cexB, cexD] := by
  decide

/-- regression: the walk of the code BEFORE the fix (an empty bucket stops it) -/
def remoteWalkOld (up : Nat → Bool) : List (List Host) → List Host
  | [] => []
  | b :: rest => if b.isEmpty then [] else b.filter (fun h => up h.id) ++ remoteWalkOld up rest

/-- on the recorded input the old walk offers nothing (observed a, b, c, d), the repaired one offers c -/
example : remoteWalkOld (fun _ => true) (remoteBuckets cexTA.pol.tier cexTA.pol.maxTier [cexA, cexC]) = [] ∧
    remoteWalk (fun _ => true) (remoteBuckets cexTA.pol.tier cexTA.pol.maxTier [cexA, cexC]) = [cexC] := by decide

/-- A duplicate in the replica list (the C10 defect D1 produces such lists) is offered twice. -/
theorem C11_dup_if_replicas_dup (tier : Host → Nat) (m : Nat) (up : Nat → Bool) (nl : Bool) (a : Host) (fb : List Host)
    (ht : tier a = 0) (hu : up a.id = true) : ¬ (taSeq tier m up nl [a, a] fb).Nodup := by
  unfold taSeq taHead localReplicas
  simp [ht, hu]

/-! ### no panic — finding KF-C11-2, FIXED

Draining the iterator never dereferences a nil host. Before the fix, with the partitioner set but an empty
token ring (no host with tokens in the policy's list) and a keyspace without replica table,
`GetHostForToken` returned a nil host, `replicas = []*HostInfo{nil}`, and `HostTier(nil)` / `IsLocal(nil)`
of the rack-aware or dc-aware fallback dereferenced it. The repaired `Pick` hands the query to the fallback
policy when `GetHostForToken` has no host (`Replicas.emptyRing`). -/

/-- for every state (reachable or not), every fallback kind, option, up/down state, shuffle and query the
drained iterator yields a sequence; in the formerly crashing states (`emptyRing`) it is the fallback
policy's sequence, and `Pick` + `limit` calls behave as the fallback's `Pick` + `limit` calls -/
theorem C11_tokenaware_no_crash (t : TA) (up : Nat → Bool) (σ : List Host → List Host) (rk : Option (Nat × Nat)) :
    t.pickSeq up σ rk ≠ .crash ∧
    (∀ limit, (t.pick up σ rk limit).2 ≠ .crash) ∧
    (∀ ks tok, rk = some (ks, tok) → t.replicasFor ks tok = .emptyRing →
      t.pickSeq up σ rk = .seq (t.pol.pickSeq up) ∧
      ∀ limit, t.pick up σ rk limit = ({ t with pol := (t.pol.pick up).1 }, .seq ((t.pol.pick up).2.take limit))) := by
  have h1 : t.pickSeq up σ rk ≠ .crash := by
    unfold TA.pickSeq
    repeat' split
    all_goals simp
  refine ⟨h1, ?_, ?_⟩
  · intro limit
    rw [C11_pick_take]
    split
    · simp
    · rename_i h; exact absurd h h1
  · intro ks tok hrk hr
    subst hrk
    exact ⟨by simp only [TA.pickSeq, hr], fun limit => by simp only [TA.pick, hr]⟩

/-- the recorded input of KF-C11-2 (dc-aware fallback, partitioner set, no host with tokens, routing key
given) and the same with two token-less hosts: the fallback's sequence is offered -/
theorem C11_fixed_nil_replica :
    (TA.new (Pol.new .dc 0 0) false false true).pickSeq (fun _ => true) id (some (0, 5)) = .seq [] ∧
    ([TAOp.add cexD, .add cexA].foldl TA.apply (TA.new (Pol.new .dc 0 0) false false true)).pickSeq
      (fun _ => true) id (some (0, 5)) = .seq [cexA, cexD] := by
  decide

end C11
