import Model.Policies
import Proofs.C11Cow
/-! # C11 — host selection offers each live node once, nearest and replicas first (property theorems) -/
namespace C11
open Policies

/-- `cowHostList.add` / `remove` keep "no two entries with one address" (hence no host object twice);
add inserts exactly the new host if no entry has its address; remove leaves exactly the others. -/
theorem C11_cow_ops (l : List Host) (hl : AddrNodup l) (h : Host) (ip : Nat) :
    AddrNodup (cowAdd l h).1 ∧ AddrNodup (cowRemove l ip).1 ∧
    (∀ x, x ∈ (cowAdd l h).1 ↔ x ∈ l ∨ (x = h ∧ ∀ y ∈ l, y.addr ≠ h.addr)) ∧
    (∀ x, x ∈ (cowRemove l ip).1 ↔ x ∈ l ∧ x.addr ≠ ip) :=
  ⟨cowAdd_inv l h hl, cowRemove_inv l ip hl, mem_cowAdd l h, mem_cowRemove l ip⟩

end C11
