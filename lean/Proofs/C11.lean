import Model.Policies
import Proofs.C11Cow
import Proofs.C11RR
import Proofs.C11Pol
import Proofs.C11TA
import Proofs.C11Scan
import Proofs.C11Hist
import Proofs.C11Sess
import Proofs.C11Ops
import Proofs.C11Iter
import Proofs.C11Conc
import Proofs.C11Gate
import Proofs.C11Rot
import Proofs.C11Ident
/-! # C11 — host selection offers each live node once, nearest and replicas first (property theorems)

Model: `Model/Policies.lean` (cowHostList, roundRobbin, roundRobinHostPolicy / dcAwareRR / rackAwareRR,
tokenAwareHostPolicy.Pick). A `Host` value is one `*HostInfo` object; `up : Nat → Bool` is the (mutable,
lazily read) state of the objects, arbitrary but fixed during one drain of an iterator. -/
namespace C11
open Policies

/-! ## copy-on-write list -/

/-- `cowHostList.add` / `remove` keep "no two entries with one address" (hence no host object twice);
add inserts exactly the new host if no entry has its address; remove leaves exactly the others. -/
theorem C11_cow_ops (l : List Host) (hl : AddrNodup l) (h : Host) (ip : Nat) :
    AddrNodup (cowAdd l h).1 ∧ AddrNodup (cowRemove l ip).1 ∧
    (∀ x, x ∈ (cowAdd l h).1 ↔ x ∈ l ∨ (x = h ∧ ∀ y ∈ l, y.addr ≠ h.addr)) ∧
    (∀ x, x ∈ (cowRemove l ip).1 ↔ x ∈ l ∧ x.addr ≠ ip) :=
  ⟨cowAdd_inv l h hl, cowRemove_inv l ip hl, mem_cowAdd l h, mem_cowRemove l ip⟩

example : (cowAdd [⟨1, 1, 0, 0, []⟩] ⟨2, 1, 0, 0, []⟩).2 = false ∧ (cowAdd [⟨1, 1, 0, 0, []⟩] ⟨2, 2, 0, 0, []⟩).1.length = 2 := by decide

/-! ## the roundRobbin iterator -/

/-- For every shift and every list of layers the offered sequence is, layer by layer, the rotation by
`shift+1` of the layer with the down hosts dropped; hence a permutation of the up hosts of all layers
(finite, only up hosts, every up host), without duplicates if the layers have none. -/
theorem C11_rr_perm (up : Nat → Bool) (shift : Nat) (layers : List (List Host)) :
    rrSeq up shift layers = (layers.map (fun l => (rot (shift + 1) l).filter (fun h => up h.id))).flatten ∧
    (∀ l, (rot (shift + 1) l).Perm l) ∧
    (rrSeq up shift layers).Perm (layers.flatten.filter (fun h => up h.id)) ∧
    (∀ h, h ∈ rrSeq up shift layers ↔ (∃ l ∈ layers, h ∈ l) ∧ up h.id = true) ∧
    (layers.flatten.Nodup → (rrSeq up shift layers).Nodup) := by
  refine ⟨?_, fun l => rot_perm _ l, rrSeq_perm up shift layers, mem_rrSeq up shift layers, rrSeq_nodup up shift layers⟩
  unfold rrSeq
  congr 1
  apply List.map_congr_left
  intro l _
  rw [layerSeq_eq_rot]

example : rrSeq (fun id => id != 2) 4 [[⟨1, 1, 0, 0, []⟩, ⟨2, 2, 0, 0, []⟩, ⟨3, 3, 0, 0, []⟩], [⟨4, 4, 1, 0, []⟩]]
    = [⟨3, 3, 0, 0, []⟩, ⟨1, 1, 0, 0, []⟩, ⟨4, 4, 1, 0, []⟩] := by decide

/-! ### the rotation counter as the code has it (uint64, `int(...)`, Go `%`) — finding KF-C11-3

FULL PROPERTY ("any number of successive picks"): for EVERY value of the counter the iterator offers the
ideal sequence `rrSeq up (picks so far) layers`, and the next pick starts one host further. The unchanged
code violates it: `int(nextStartOffset)` is negative from 2^63 picks on, and `shift+currentlyObserved`
overflows `int` just below; a negative index panics (counterexample `C11_cex_counter_wrap`). What holds is
the statement below the bound `counter + 1 + layer length < 2^63`. -/

/-- For every value of the counter below the bound, every up/down state and all layers, the iterator of the
code (`rrScan`: uint64 counter converted to int, wrapping sum, truncated remainder, panic on a negative index)
does not panic and offers exactly the ideal sequence `rrSeq` of `C11_rr_perm` (rotation by the number of
picks, permutation of the up hosts, complete, no duplicates). -/
theorem C11_scan_below_bound_partial (up : Nat → Bool) (ctr : Nat) (layers : List (List Host))
    (hb : ∀ l ∈ layers, ctr + 1 + l.length < 9223372036854775808) :
    rrScan up (wrap64 (((ctr + 1) % 18446744073709551616 : Nat) : Int)) layers = ⟨rrSeq up (ctr + 1) layers, false⟩ := by
  cases layers with
  | nil => rfl
  | cons l ls =>
    have hc : (ctr + 1) % 18446744073709551616 = ctr + 1 := by
      apply Nat.mod_eq_of_lt
      have := hb l List.mem_cons_self
      omega
    rw [hc]
    exact rrScan_small up (ctr + 1) (l :: ls) hb

/-- the same for the three policies: below the bound `Pol.below` the next `Pick` is the ideal one -/
theorem C11_pick_below_bound_partial (p : Pol) (up : Nat → Bool) (hb : Pol.below p) :
    p.pickScan up = ⟨p.pickSeq up, false⟩ ∧ (p.pick up).1.ctr = p.ctr + 1 := by
  refine ⟨pickScan_small p up hb, ?_⟩
  have : p.layers ≠ [] := by unfold Pol.layers; split <;> simp
  obtain ⟨l, hl⟩ := List.exists_mem_of_ne_nil _ this
  have := hb l hl
  exact bump_ctr p (by omega)

/-- Successive picks rotate the start (below the bound): the counter advances by one per `Pick`, and the
positions the next pick visits in a layer are those of this pick rotated by one. -/
theorem C11_rr_rotates_partial (p : Pol) (up : Nat → Bool) (l : List Host)
    (hb : p.ctr + 2 + l.length < 9223372036854775808) :
    (p.pick up).1.ctr = p.ctr + 1 ∧
    layerScan p.shift l = (layerSeq (p.ctr + 1) l).map some ∧
    layerScan (p.pick up).1.shift l = (rot 1 (layerSeq (p.ctr + 1) l)).map some := by
  have h1 : (p.pick up).1.ctr = p.ctr + 1 := bump_ctr p (by omega)
  refine ⟨h1, ?_, ?_⟩
  · rw [shift_small p (by omega)]
    exact layerScan_small (p.ctr + 1) l (by omega)
  · rw [shift_small _ (by rw [h1]; omega), h1, ← layerSeq_succ]
    exact layerScan_small (p.ctr + 1 + 1) l (by omega)

theorem rot_one_cons (x : Host) (r : List Host) : rot 1 (x :: r) = r ++ [x] := by
  cases r with
  | nil => simp [rot]
  | cons y t =>
    have e : 1 % (x :: y :: t).length = 1 := Nat.mod_eq_of_lt (by simp)
    unfold rot
    rw [e]
    rfl

/-- what the rotation by one means for the OFFERED sequences (down hosts filtered out) of two successive
picks over the same layer: if the host the first pick starts its scan at is up, the second sequence is the
first rotated by one; if it is down, the two sequences are equal. (The harness checks this relation between
successive picks on the real code; with all hosts up it is the rotation.) -/
theorem C11_rotate_offered (f : Host → Bool) (x : Host) (r : List Host) :
    (rot 1 (x :: r)).filter f = if f x = true then rot 1 ((x :: r).filter f) else (x :: r).filter f := by
  rw [rot_one_cons, List.filter_append]
  by_cases h : f x = true
  · have e : (x :: r).filter f = x :: r.filter f := List.filter_cons_of_pos h
    rw [if_pos h, e, rot_one_cons]
    simp [h]
  · have e : (x :: r).filter f = r.filter f := List.filter_cons_of_neg h
    rw [if_neg h, e]
    simp [h]

def cexW1 : Host := ⟨1, 1, 0, 0, []⟩
def cexW2 : Host := ⟨2, 2, 0, 0, []⟩
def cexW3 : Host := ⟨3, 3, 0, 0, []⟩
/-- round-robin policy with three hosts -/
def cexWrap : Pol := (((Pol.new .rr 0 0).add cexW1).add cexW2).add cexW3

/-- COUNTEREXAMPLE to the full property (kernel-checked, all hosts up): after 2^63−5 picks the sixth-last
pick below the bound still offers all three hosts; after 2^63−2 picks `shift+1` overflows to −2^63, the index
`-2^63 % 3 = -2` is negative and the first iterator call panics; after 2^63 picks the shift itself is
negative and the second call panics; the policy only recovers when the counter has wrapped past 2^64. -/
theorem C11_cex_counter_wrap :
    (cexWrap.setCtr 9223372036854775803).pickScan (fun _ => true) = ⟨[cexW3, cexW1, cexW2], false⟩ ∧
    (cexWrap.setCtr 9223372036854775806).pickScan (fun _ => true) = ⟨[], true⟩ ∧
    (cexWrap.setCtr 9223372036854775808).pickScan (fun _ => true) = ⟨[cexW1], true⟩ ∧
    (cexWrap.setCtr 18446744073709551615).pickScan (fun _ => true) = ⟨[cexW2, cexW3, cexW1], false⟩ := by
  decide

/-! ## the three round-robin based policies, all reachable states -/

inductive Op
  | add (h : Host)       -- AddHost / HostUp
  | remove (h : Host)    -- RemoveHost / HostDown
  | pick (up : Nat → Bool)
  | setCtr (n : Nat)     -- the policy has served n picks already (hook VerifSetPickCount)

def Pol.apply (p : Pol) : Op → Pol
  | .add h => p.add h
  | .remove h => p.remove h
  | .pick up => (p.pick up).1
  | .setCtr n => p.setCtr n

theorem Inv_run (p : Pol) (hp : Inv p) (ops : List Op) : Inv (ops.foldl Pol.apply p) := by
  induction ops generalizing p with
  | nil => exact hp
  | cons o r ih =>
    apply ih
    cases o with
    | add h => exact Inv_add p hp h
    | remove h => exact Inv_remove p hp h
    | pick up => exact Inv_pick p hp up
    | setCtr n => exact Inv_setCtr p hp n

/-- For every policy kind and configuration, after ANY sequence of AddHost/RemoveHost/HostUp/HostDown/Pick
and ANY number of earlier picks (`setCtr`), and for any up/down state of the host objects: below the
counter bound (`Pol.below`, KF-C11-3) the iterator of the next `Pick` does not panic and offers the sequence
`p.pickSeq up`, which has no host twice, offers only up hosts, offers every up host the policy knows, and
is ordered by tier (local before remote; local rack, local DC, remote DC). -/
theorem C11_policy_all_states_partial (k : Kind) (ldc lrack : Nat) (ops : List Op) (up : Nat → Bool) :
    let p := ops.foldl Pol.apply (Pol.new k ldc lrack)
    (Pol.below p → p.pickScan up = ⟨p.pickSeq up, false⟩) ∧
    (p.pickSeq up).Nodup ∧
    (∀ h ∈ p.pickSeq up, up h.id = true) ∧
    (∀ h, known p h → up h.id = true → h ∈ p.pickSeq up) ∧
    (p.pickSeq up).Pairwise (fun a b => p.tier a ≤ p.tier b) := by
  intro p
  have hp : Inv p := Inv_run _ (Inv_new k ldc lrack) ops
  refine ⟨pickScan_small p up, pickSeq_nodup p hp up, ?_, ?_, pickSeq_sorted p hp up⟩
  · intro h hh; exact ((mem_pickSeq p hp up h).mp hh).2
  · intro h hk hu; exact (mem_pickSeq p hp up h).mpr ⟨hk, hu⟩

example : ([Op.add ⟨1, 1, 0, 0, []⟩, Op.add ⟨2, 2, 1, 0, []⟩, Op.add ⟨3, 3, 0, 1, []⟩].foldl Pol.apply (Pol.new .rack 0 0)).pickSeq (fun _ => true)
    = [⟨1, 1, 0, 0, []⟩, ⟨3, 3, 0, 1, []⟩, ⟨2, 2, 1, 0, []⟩] := by decide

/-! ## token-aware policy -/

def cexA' : Host := ⟨1, 1, 0, 0, [10]⟩
def cexB' : Host := ⟨2, 2, 0, 1, [20]⟩
def cexC' : Host := ⟨3, 3, 0, 1, [30]⟩
def cexD' : Host := ⟨4, 4, 1, 0, [40]⟩

theorem TAInv_apply (t : TA) (hp : Inv t.pol) (o : TAOp) : Inv (t.apply o).pol := by
  rw [apply_pol]
  cases o with
  | add h => exact Inv_add _ hp h
  | remove h => exact Inv_remove _ hp h
  | hostUp h => exact Inv_add _ hp h
  | hostDown h => exact Inv_remove _ hp h
  | setReplicas ks tab => exact hp
  | pick up σ rk limit =>
    show Inv (t.pick up σ rk limit).1.pol
    rcases pick_pol t up σ rk limit with e | e <;> rw [e]
    · exact hp
    · exact Inv_bump _ hp
  | setCtr n => exact Inv_setCtr _ hp n
  | keyspaceChanged ks => exact hp
  | setMeta ks v => exact hp

theorem TAInv_run (t : TA) (hp : Inv t.pol) (ops : List TAOp) : Inv (ops.foldl TA.apply t).pol := by
  induction ops generalizing t with
  | nil => exact hp
  | cons o r ih => exact ih _ (TAInv_apply t hp o)

/-- a state used in the non-vacuity examples: rack-aware fallback, non-local fallback, replicas a (local rack, down below), c (local DC) -/
def cexTAok : TA :=
  [TAOp.add cexA', .add cexB', .add cexC', .add cexD', .setReplicas 0 [(100, [cexA', cexC'])]].foldl TA.apply
    (TA.new (Pol.new .rack 0 0) false true true)

/-- Token-aware generator, for every tier function, option, up/down state, fallback sequence and every
replica list WITHOUT duplicates: the offered sequence has no host twice, offers only up hosts (if the
fallback does), offers every host of the fallback sequence; it starts with the up replicas of tier 0 in
replica-list order (primary first), and what follows the replica phases is a subsequence of the
fallback's order. -/
theorem C11_tokenaware_complete_unique (tier : Host → Nat) (maxTier : Nat) (up : Nat → Bool) (nonlocal : Bool)
    (replicas fallback : List Host) (hn : replicas.Nodup) :
    (taSeq tier maxTier up nonlocal replicas fallback).Nodup ∧
    ((∀ x ∈ fallback, up x.id = true) → ∀ x ∈ taSeq tier maxTier up nonlocal replicas fallback, up x.id = true) ∧
    (∀ x ∈ fallback, x ∈ taSeq tier maxTier up nonlocal replicas fallback) ∧
    (∃ rest, taSeq tier maxTier up nonlocal replicas fallback =
        replicas.filter (fun h => tier h == 0 && up h.id) ++ rest) ∧
    (∃ rest, taSeq tier maxTier up nonlocal replicas fallback = taHead tier maxTier up nonlocal replicas ++ rest ∧
        rest.Sublist fallback ∧ (∀ x ∈ taHead tier maxTier up nonlocal replicas, x ∈ replicas)) := by
  refine ⟨taSeq_nodup _ _ _ _ _ _ hn, fun hfb x hx => taSeq_up _ _ _ _ _ _ hfb x hx,
    fun x hx => mem_taSeq_of_fallback _ _ _ _ _ _ x hx, ?_, ?_⟩
  · unfold taSeq taHead localReplicas
    simp only [List.append_assoc]
    exact ⟨_, rfl⟩
  · exact ⟨_, rfl, minusUsed_sublist _ _, fun x hx => (mem_taHead _ _ _ _ _ x hx).1⟩

/-- the same with shuffling: the shuffled replica list is a permutation, so the up tier-0 replicas still
come first, in some order -/
theorem C11_tokenaware_shuffle (tier : Host → Nat) (maxTier : Nat) (up : Nat → Bool) (nonlocal : Bool)
    (σ : List Host → List Host) (hσ : ∀ l, (σ l).Perm l) (replicas fallback : List Host) (hn : replicas.Nodup) :
    (taSeq tier maxTier up nonlocal (σ replicas) fallback).Nodup ∧
    ∃ pre rest, taSeq tier maxTier up nonlocal (σ replicas) fallback = pre ++ rest ∧
      pre.Perm (replicas.filter (fun h => tier h == 0 && up h.id)) := by
  have hn' : (σ replicas).Nodup := (hσ replicas).nodup_iff.mpr hn
  obtain ⟨h1, _, _, ⟨rest, h4⟩, _⟩ := C11_tokenaware_complete_unique tier maxTier up nonlocal (σ replicas) fallback hn'
  exact ⟨h1, _, rest, h4, (hσ replicas).filter _⟩

/-- the replica list `Pick` works with for a query (after shuffling); `none` = the query is handed to the
fallback policy as it is (no routing key, no token ring, or empty ring and no replica table) -/
def repsOf (t : TA) (σ : List Host → List Host) (rk : Option (Nat × Nat)) : Option (List Host) :=
  match rk with
  | none => none
  | some (ks, tok) =>
    match t.replicasFor ks tok with
    | .hosts l ft => some (if ft && t.shuffle then σ l else l)
    | _ => none

theorem replicasFor_nodup (t : TA) (hrep : ∀ e ∈ t.replicas, ∀ f ∈ e.2, f.2.Nodup) (ks tok : Nat)
    (reps : List Host) (ft : Bool) (hr : t.replicasFor ks tok = .hosts reps ft) : reps.Nodup := by
  unfold TA.replicasFor at hr
  split at hr
  · cases hr
  · split at hr
    · rename_i l' hl'
      injection hr with e1 e2
      subst e1
      rw [Option.bind_eq_some_iff] at hl'
      obtain ⟨e, he, hlk⟩ := hl'
      have hmem := List.mem_of_find?_eq_some he
      unfold lookupTok at hlk
      split at hlk
      · rename_i f hf
        injection hlk with e'
        rw [← e']
        exact hrep e hmem f (List.mem_of_find?_eq_some hf)
      · rw [Option.map_eq_some_iff] at hlk
        obtain ⟨f, hf, e'⟩ := hlk
        rw [← e']
        exact hrep e hmem f (List.mem_of_head? hf)
    · split at hr
      · injection hr with e1 e2
        subst e1
        exact List.nodup_cons.mpr ⟨by simp, List.nodup_nil⟩
      · cases hr

theorem specHead_nil (tier : Host → Nat) (m : Nat) (up : Nat → Bool) (nl : Bool) : specHead tier m up nl [] = [] := by
  simp [specHead]

/-- below the counter bound the iterator of the code offers the ideal sequence and does not panic -/
theorem pickScan_ideal (t : TA) (up : Nat → Bool) (σ : List Host → List Host) (rk : Option (Nat × Nat))
    (hb : Pol.below t.pol) (l : List Host) (hl : t.pickSeq up σ rk = .seq l) : t.pickScan up σ rk = ⟨l, false⟩ := by
  unfold TA.pickSeq at hl
  unfold TA.pickScan
  split at hl
  · injection hl with hl; rw [pickScan_small _ up hb, hl]
  · split at hl
    · injection hl with hl; rw [pickScan_small _ up hb, hl]
    · injection hl with hl; rw [pickScan_small _ up hb, hl]
    · injection hl with hl; rw [pickScan_small _ up hb, ← hl]; rfl

/-- THE PROPERTY for the token-aware policy, in every reachable state (any history of AddHost / RemoveHost /
HostUp / HostDown / replica-table updates / picks), for every fallback kind and option combination, any
up/down state, any query (with or without routing key, keyspace with or without replica table, token ring
empty or not), ANY number of earlier picks of the fallback (`setCtr`): below the counter bound (`Pol.below`,
KF-C11-3) the drained iterator of the code ends without a panic and offers the sequence `l`; if the replica lists of the installed
tables have no duplicates and the shuffle permutes, it offers no host twice, only up hosts, and every up
host the fallback policy knows; it starts with the up replicas of the token tier by tier (nearest tier
first, farther tiers only with NonLocalReplicasFallback; replica-list order inside a tier, i.e. primary
first unless shuffling) — for EVERY replica list, also when a middle tier has no replica (KF-C11-1) — and
continues with hosts in the fallback policy's order, which is ordered by tier. -/
theorem C11_tokenaware_all_states_partial (k : Kind) (ldc lrack : Nat) (sh nl ps : Bool) (sess : Option Nat) (ops : List TAOp)
    (up : Nat → Bool) (σ : List Host → List Host) (hσ : ∀ l, (σ l).Perm l) (rk : Option (Nat × Nat)) :
    let t := ops.foldl TA.apply (TA.new (Pol.new k ldc lrack) sh nl ps sess)
    (∀ e ∈ t.replicas, ∀ f ∈ e.2, f.2.Nodup) →
    ∃ l, t.pickSeq up σ rk = .seq l ∧ (Pol.below t.pol → t.pickScan up σ rk = ⟨l, false⟩) ∧
      l.Nodup ∧ (∀ h ∈ l, up h.id = true) ∧ (∀ h, known t.pol h → up h.id = true → h ∈ l) ∧
      ∃ rest, l = specHead t.pol.tier t.pol.maxTier up nl ((repsOf t σ rk).getD []) ++ rest ∧
        rest.Sublist (t.pol.pickSeq up) ∧ rest.Pairwise (fun a b => t.pol.tier a ≤ t.pol.tier b) := by
  intro t hrep
  suffices hh : ∃ l, t.pickSeq up σ rk = .seq l ∧
      l.Nodup ∧ (∀ h ∈ l, up h.id = true) ∧ (∀ h, known t.pol h → up h.id = true → h ∈ l) ∧
      ∃ rest, l = specHead t.pol.tier t.pol.maxTier up nl ((repsOf t σ rk).getD []) ++ rest ∧
        rest.Sublist (t.pol.pickSeq up) ∧ rest.Pairwise (fun a b => t.pol.tier a ≤ t.pol.tier b) by
    obtain ⟨l, h1, h2⟩ := hh
    exact ⟨l, h1, fun hb => pickScan_ideal t up σ rk hb l h1, h2⟩
  have hp : Inv t.pol := TAInv_run _ (Inv_new k ldc lrack) ops
  have hnl : t.nonlocal = nl := (run_opts _ ops).1
  have plain : t.pickSeq up σ rk = .seq (t.pol.pickSeq up) → repsOf t σ rk = none →
      ∃ l, t.pickSeq up σ rk = .seq l ∧
      l.Nodup ∧ (∀ h ∈ l, up h.id = true) ∧ (∀ h, known t.pol h → up h.id = true → h ∈ l) ∧
      ∃ rest, l = specHead t.pol.tier t.pol.maxTier up nl ((repsOf t σ rk).getD []) ++ rest ∧
        rest.Sublist (t.pol.pickSeq up) ∧ rest.Pairwise (fun a b => t.pol.tier a ≤ t.pol.tier b) := by
    intro e1 e2
    refine ⟨_, e1, pickSeq_nodup _ hp up, fun h hh => ((mem_pickSeq _ hp up h).mp hh).2,
      fun h hk hu => (mem_pickSeq _ hp up h).mpr ⟨hk, hu⟩, t.pol.pickSeq up, ?_, List.Sublist.refl _,
      pickSeq_sorted _ hp up⟩
    rw [e2, Option.getD_none, specHead_nil, List.nil_append]
  cases rk with
  | none => exact plain rfl rfl
  | some kt =>
    obtain ⟨ks, tok⟩ := kt
    cases hr : t.replicasFor ks tok with
    | noRing => exact plain (by simp only [TA.pickSeq, hr]) (by simp only [repsOf, hr])
    | emptyRing => exact plain (by simp only [TA.pickSeq, hr]) (by simp only [repsOf, hr])
    | hosts reps ft =>
      have hreps : reps.Nodup := replicasFor_nodup t hrep ks tok reps ft hr
      have hreps' : (if (ft && t.shuffle) = true then σ reps else reps).Nodup := by
        split
        · exact (hσ reps).nodup_iff.mpr hreps
        · exact hreps
      refine ⟨taSeq t.pol.tier t.pol.maxTier up t.nonlocal (if (ft && t.shuffle) = true then σ reps else reps) (t.pol.pickSeq up),
        by simp only [TA.pickSeq, hr], taSeq_nodup _ _ _ _ _ _ hreps', ?_, ?_, ?_⟩
      · exact fun h hh => taSeq_up _ _ _ _ _ _ (fun x hx => ((mem_pickSeq _ hp up x).mp hx).2) h hh
      · exact fun h hk hu => mem_taSeq_of_fallback _ _ _ _ _ _ h ((mem_pickSeq _ hp up h).mpr ⟨hk, hu⟩)
      · refine ⟨minusUsed (taHead t.pol.tier t.pol.maxTier up t.nonlocal (if (ft && t.shuffle) = true then σ reps else reps))
            (t.pol.pickSeq up), ?_, minusUsed_sublist _ _, (pickSeq_sorted _ hp up).sublist (minusUsed_sublist _ _)⟩
        simp only [repsOf, hr, Option.getD_some, taSeq, hnl, taHead_eq_specHead]

theorem take_mk (l : List Host) (c : Bool) (limit : Nat) :
    Scan.take ⟨l, c⟩ limit = if limit ≤ l.length then .seq (l.take limit) else if c then .crash else .seq l := rfl

theorem taScan_eq (tier : Host → Nat) (m : Nat) (up : Nat → Bool) (nl : Bool) (reps : List Host) (fb : Scan) :
    taScan tier m up nl reps fb = ⟨taHead tier m up nl reps ++ minusUsed (taHead tier m up nl reps) fb.offered, fb.crashed⟩ := rfl

/-- `Pick` followed by `limit` calls of the iterator offers the first `limit` hosts of the drained iterator, and
panics only if the calls get as far as the panic (ties the limited pick of the model driver to `TA.pickScan`,
for every counter value) -/
theorem C11_pick_take (t : TA) (up : Nat → Bool) (σ : List Host → List Host) (rk : Option (Nat × Nat)) (limit : Nat) :
    (t.pick up σ rk limit).2 = (t.pickScan up σ rk).take limit := by
  unfold TA.pick TA.pickScan
  simp only
  split
  · rfl
  · split
    · rfl
    · rfl
    · generalize (if (_ && t.shuffle) = true then σ _ else _) = reps
      split
      · rename_i h
        rw [taScan_eq, take_mk]
        split
        · rw [List.take_append_of_le_length h]
        · rename_i h2
          rw [List.length_append] at h2
          omega
      · rfl

example : (cexTAok.pickSeq (fun id => id != 1) id (some (0, 50))) = .seq [cexC', cexB', cexD'] := by decide

/-! ### order of the remote replicas (non-local fallback) — finding KF-C11-1, FIXED

With NonLocalReplicasFallback, after the up replicas of tier 0 come the up replicas of tier 1, then tier 2,
…, then the remaining hosts. Before the fix the j/k walk stopped at the first EMPTY bucket
(`for j < len(remote) && k < len(remote[j])`), so a replica of a farther tier was offered after
non-replicas when a nearer tier had no replica; the theorem needed the hypothesis "no empty bucket before a
non-empty one". The repaired walk skips empty buckets and the theorem holds for every replica list. -/

/-- for every tier function, number of tiers, up/down state, option and EVERY replica list the replica
phases of the token-aware iterator offer exactly the specified head (`specHead`: up replicas tier by tier) -/
theorem C11_tokenaware_remote_order (tier : Host → Nat) (m : Nat) (up : Nat → Bool) (nl : Bool) (reps fallback : List Host) :
    taHead tier m up nl reps = specHead tier m up nl reps ∧
    (taSeq tier m up nl reps fallback).take (specHead tier m up nl reps).length = specHead tier m up nl reps ∧
    (nl = true → specHead tier m up nl reps =
      ((List.range (m + 1)).map (fun t => reps.filter (fun h => tier h == t && up h.id))).flatten) := by
  refine ⟨taHead_eq_specHead tier m up nl reps, ?_, ?_⟩
  · unfold taSeq
    simp only [taHead_eq_specHead]
    rw [List.take_append_of_le_length (Nat.le_refl _), List.take_length]
  · intro h; subst h; rfl

def cexA : Host := ⟨1, 1, 0, 0, []⟩   -- local rack
def cexB : Host := ⟨2, 2, 0, 1, []⟩   -- local DC, other rack
def cexC : Host := ⟨3, 3, 1, 0, []⟩   -- remote DC, replica
def cexD : Host := ⟨4, 4, 1, 0, []⟩   -- remote DC
def cexTA : TA :=
  [TAOp.add cexA, .add cexB, .add cexC, .add cexD, .setReplicas 0 [(100, [cexA, cexC])]].foldl TA.apply
    (TA.new (Pol.new .rack 0 0) false true true)

/-- the recorded input of KF-C11-1 (rack-aware fallback + NonLocalReplicasFallback, replicas [a (local
rack), c (remote DC)], no replica in tier 1): the remote replica c now comes before the non-replica b -/
theorem C11_fixed_remote_order :
    cexTA.pickSeq (fun _ => true) id (some (0, 50)) = .seq [cexA, cexC, cexB, cexD] := by
  decide

/-- regression: the walk of the code BEFORE the fix (an empty bucket stops it) -/
def remoteWalkOld (up : Nat → Bool) : List (List Host) → List Host
  | [] => []
  | b :: rest => if b.isEmpty then [] else b.filter (fun h => up h.id) ++ remoteWalkOld up rest

/-- on the recorded input the old walk offers nothing (observed a, b, c, d), the repaired one offers c -/
example : remoteWalkOld (fun _ => true) (remoteBuckets cexTA.pol.tier cexTA.pol.maxTier [cexA, cexC]) = [] ∧
    remoteWalk (fun _ => true) (remoteBuckets cexTA.pol.tier cexTA.pol.maxTier [cexA, cexC]) = [cexC] := by decide

/-- A duplicate in the replica list (the C10 defect D1 produces such lists) is offered twice. -/
theorem C11_dup_if_replicas_dup (tier : Host → Nat) (m : Nat) (up : Nat → Bool) (nl : Bool) (a : Host) (fb : List Host)
    (ht : tier a = 0) (hu : up a.id = true) : ¬ (taSeq tier m up nl [a, a] fb).Nodup := by
  unfold taSeq taHead localReplicas
  simp [ht, hu]

/-! ### no panic — finding KF-C11-2, FIXED

Draining the iterator never dereferences a nil host. Before the fix, with the partitioner set but an empty
token ring (no host with tokens in the policy's list) and a keyspace without replica table,
`GetHostForToken` returned a nil host, `replicas = []*HostInfo{nil}`, and `HostTier(nil)` / `IsLocal(nil)`
of the rack-aware or dc-aware fallback dereferenced it. The repaired `Pick` hands the query to the fallback
policy when `GetHostForToken` has no host (`Replicas.emptyRing`). -/

/-- for every state (reachable or not), every fallback kind, option, up/down state, shuffle and query: below
the counter bound (KF-C11-3) the drained iterator does not panic, nor does `Pick` + `limit` calls; in the
formerly crashing states (`emptyRing`) the iterator is the fallback policy's, for every counter value -/
theorem C11_tokenaware_no_crash_partial (t : TA) (up : Nat → Bool) (σ : List Host → List Host) (rk : Option (Nat × Nat)) :
    t.pickSeq up σ rk ≠ .crash ∧
    (Pol.below t.pol → (t.pickScan up σ rk).crashed = false ∧ ∀ limit, (t.pick up σ rk limit).2 ≠ .crash) ∧
    (∀ ks tok, rk = some (ks, tok) → t.replicasFor ks tok = .emptyRing →
      t.pickScan up σ rk = t.pol.pickScan up ∧
      ∀ limit, t.pick up σ rk limit = ({ t with pol := t.pol.bump }, (t.pol.pickScan up).take limit)) := by
  have h1 : t.pickSeq up σ rk ≠ .crash := by
    unfold TA.pickSeq
    repeat' split
    all_goals simp
  refine ⟨h1, ?_, ?_⟩
  · intro hb
    obtain ⟨l, hl⟩ : ∃ l, t.pickSeq up σ rk = .seq l := by
      cases h : t.pickSeq up σ rk with
      | seq l => exact ⟨l, rfl⟩
      | crash => exact absurd h h1
    have hs := pickScan_ideal t up σ rk hb l hl
    refine ⟨by rw [hs], fun limit => ?_⟩
    rw [C11_pick_take, hs]
    unfold Scan.take
    split
    · simp
    · simp
  · intro ks tok hrk hr
    subst hrk
    exact ⟨by simp only [TA.pickScan, hr], fun limit => by simp only [TA.pick, hr]⟩

/-- COUNTEREXAMPLE (kernel-checked): token-aware over the round-robin policy of `C11_cex_counter_wrap` after
2^63−2 picks, query without routing key: the first iterator call panics -/
theorem C11_cex_counter_wrap_ta :
    ((TA.new (cexWrap.setCtr 9223372036854775806) false false true).pick (fun _ => true) id none 1000).2 = .crash := by
  decide

/-- the recorded input of KF-C11-2 (dc-aware fallback, partitioner set, no host with tokens, routing key
given) and the same with two token-less hosts: the fallback's sequence is offered -/
theorem C11_fixed_nil_replica :
    (TA.new (Pol.new .dc 0 0) false false true).pickSeq (fun _ => true) id (some (0, 5)) = .seq [] ∧
    ([TAOp.add cexD, .add cexA].foldl TA.apply (TA.new (Pol.new .dc 0 0) false false true)).pickSeq
      (fun _ => true) id (some (0, 5)) = .seq [cexA, cexD] := by
  decide

/-! ## the policies against the HISTORY of notifier calls — findings KF-C11-4 (ghost), KF-C11-5 (stale replica)

The property's "every up host the policy knows", with "knows" and "up" taken from the history of the
`HostStateNotifier` calls and not from the policy's lists (`Policies.statusOf`, `Status.expected`): a host
that was added and not removed since is known; it is up unless the last call about it was `HostDown`
(and its `HostInfo` state is up).

FULL PROPERTY: the drained iterator offers exactly the hosts that are expected by the history, each once.
The code (with the repair of KF-C10-4) violates the "nothing else" half in two situations, which are the
hypotheses of `C11_history_exact_partial`:
  * ghost: `HostUp(h)` for a host that is not known (never added, or removed) puts it into the round-robin
    lists (`HostUp` = `AddHost` there): `C11_cex_ghost_hostup`;
  * stale replica, KF-C11-5 (case (b) only): the replica table of a keyspace still lists a host that was reported
    down with `HostDown` (which touches no table): the token-aware replica phase offers it if its `HostInfo`
    state is up: `C11_cex_stale_replica`. (Case (a) of the finding - a REMOVED host still listed by the table of a
    keyspace other than the session's - is gone with the repair of KF-C10-4: every held table is recomputed on
    every change of the host list, `C11_replica_tables_fresh`; regression `example` on the old definition below.)
The "every expected host is offered" half holds for every history (`C11_history_complete`).
Assumption of both: two different host objects of the history have different connect addresses (`NoAlias`;
the lists identify hosts by address). -/

theorem hist_add (U : Host → Prop) (hU : ∀ a b, U a → U b → a.addr = b.addr → a = b)
    (p : Pol) (S0 : Host → Status) (h : Host) (hh : U h) (e : Ev) (he : e = .add ∨ e = .hup)
    (hp : Inv p) (hk : ∀ x, known p x → U x) (hs : ∀ x, known p x ↔ (S0 x).inList = true) :
    Inv (p.add h) ∧ (∀ x, known (p.add h) x → U x) ∧
      ∀ x, known (p.add h) x ↔ (if h = x then (S0 x).step e else S0 x).inList = true := by
  have hna : ∀ y, known p y → y.addr = h.addr → y = h := fun y hy e' => hU y h (hk y hy) hh e'
  refine ⟨Inv_add p hp h, ?_, ?_⟩
  · intro x hx
    rcases (known_add p hp h x hna).mp hx with h1 | h1
    · exact hk x h1
    · rw [h1]; exact hh
  · intro x
    rw [known_add p hp h x hna]
    by_cases hx : h = x
    · rw [if_pos hx]
      have : ((S0 x).step e).inList = true := by rcases he with rfl | rfl <;> simp [Status.step, Status.inList]
      rw [this]
      exact ⟨fun _ => rfl, fun _ => Or.inr hx.symm⟩
    · rw [if_neg hx, hs x]
      constructor
      · rintro (h1 | h1)
        · exact h1
        · exact absurd h1.symm hx
      · exact Or.inl

theorem hist_remove (U : Host → Prop) (hU : ∀ a b, U a → U b → a.addr = b.addr → a = b)
    (p : Pol) (S0 : Host → Status) (h : Host) (hh : U h) (e : Ev) (he : e = .remove ∨ e = .hdown)
    (hp : Inv p) (hk : ∀ x, known p x → U x) (hs : ∀ x, known p x ↔ (S0 x).inList = true) :
    Inv (p.remove h) ∧ (∀ x, known (p.remove h) x → U x) ∧
      ∀ x, known (p.remove h) x ↔ (if h = x then (S0 x).step e else S0 x).inList = true := by
  have hna : ∀ y, known p y → y.addr = h.addr → y = h := fun y hy e' => hU y h (hk y hy) hh e'
  refine ⟨Inv_remove p hp h, ?_, ?_⟩
  · intro x hx
    exact hk x ((known_remove p hp h x hna).mp hx).1
  · intro x
    rw [known_remove p hp h x hna]
    by_cases hx : h = x
    · rw [if_pos hx]
      have : ((S0 x).step e).inList = false := by rcases he with rfl | rfl <;> simp [Status.step, Status.inList]
      rw [this]
      exact ⟨fun h1 => absurd hx.symm h1.2, fun h1 => by cases h1⟩
    · rw [if_neg hx, hs x]
      exact ⟨fun h1 => h1.1, fun h1 => ⟨h1, fun e' => hx e'.symm⟩⟩

/-- the invariant tying the fallback policy's lists to the history, along any operation history -/
theorem hist_run (U : Host → Prop) (hU : ∀ a b, U a → U b → a.addr = b.addr → a = b) (ops : List TAOp) :
    ∀ (t : TA) (S0 : Host → Status),
    (∀ o ∈ ops, ∀ e h, o.ev = some (e, h) → U h) → Inv t.pol → (∀ x, known t.pol x → U x) →
    (∀ x, known t.pol x ↔ (S0 x).inList = true) →
    Inv (ops.foldl TA.apply t).pol ∧ (∀ x, known (ops.foldl TA.apply t).pol x → U x) ∧
      ∀ x, known (ops.foldl TA.apply t).pol x ↔ (statusFrom (S0 x) (evsOf ops) x).inList = true := by
  induction ops with
  | nil => intro t S0 _ hp hk hs; exact ⟨hp, hk, hs⟩
  | cons o r ih =>
    intro t S0 hops hp hk hs
    have hr : ∀ o ∈ r, ∀ e h, o.ev = some (e, h) → U h := fun o ho => hops o (List.mem_cons_of_mem _ ho)
    rw [List.foldl_cons]
    cases o with
    | add h =>
      obtain ⟨a, b, c⟩ := hist_add U hU t.pol S0 h (hops _ List.mem_cons_self .add h rfl) .add (Or.inl rfl) hp hk hs
      exact ih (t.add h) (fun x => if h = x then (S0 x).step .add else S0 x) hr a b c
    | hostUp h =>
      obtain ⟨a, b, c⟩ := hist_add U hU t.pol S0 h (hops _ List.mem_cons_self .hup h rfl) .hup (Or.inr rfl) hp hk hs
      exact ih (t.hostUp h) (fun x => if h = x then (S0 x).step .hup else S0 x) hr a b c
    | remove h =>
      obtain ⟨a, b, c⟩ := hist_remove U hU t.pol S0 h (hops _ List.mem_cons_self .remove h rfl) .remove (Or.inl rfl) hp hk hs
      exact ih (t.remove h) (fun x => if h = x then (S0 x).step .remove else S0 x) hr a b c
    | hostDown h =>
      obtain ⟨a, b, c⟩ := hist_remove U hU t.pol S0 h (hops _ List.mem_cons_self .hdown h rfl) .hdown (Or.inr rfl) hp hk hs
      exact ih (t.hostDown h) (fun x => if h = x then (S0 x).step .hdown else S0 x) hr a b c
    | setReplicas ks tab => exact ih (t.setReplicas ks tab) S0 hr hp hk hs
    | keyspaceChanged ks =>
      have e : (t.keyspaceChanged ks).pol = t.pol := (updateReplicas_fields t ks).1
      exact ih (t.keyspaceChanged ks) S0 hr (e ▸ hp) (e ▸ hk) (e ▸ hs)
    | setMeta ks v => exact ih (t.setMeta ks v) S0 hr hp hk hs
    | setCtr n => exact ih { t with pol := t.pol.setCtr n } S0 hr (Inv_setCtr _ hp n) hk hs
    | pick up σ rk limit =>
      apply ih (t.pick up σ rk limit).1 S0 hr
      · rcases pick_pol t up σ rk limit with e | e <;> rw [e]
        · exact hp
        · exact Inv_bump _ hp
      · rcases pick_pol t up σ rk limit with e | e <;> rw [e]
        · exact hk
        · exact hk
      · rcases pick_pol t up σ rk limit with e | e <;> rw [e]
        · exact hs
        · exact hs

/-- in every reachable state the fallback policy lists exactly the hosts whose last notifier call was
`AddHost` or `HostUp` -/
theorem hist_final (k : Kind) (ldc lrack : Nat) (sh nl ps : Bool) (sess : Option Nat) (ops : List TAOp) (hna : NoAlias ops) :
    Inv (ops.foldl TA.apply (TA.new (Pol.new k ldc lrack) sh nl ps sess)).pol ∧
    ∀ x, known (ops.foldl TA.apply (TA.new (Pol.new k ldc lrack) sh nl ps sess)).pol x ↔
      (statusOf (evsOf ops) x).inList = true := by
  have hops : ∀ o ∈ ops, ∀ e h, o.ev = some (e, h) → h ∈ hostsOf ops := by
    intro o ho e h he
    exact List.mem_map.mpr ⟨(e, h), List.mem_filterMap.mpr ⟨o, ho, he⟩, rfl⟩
  have := hist_run (fun h => h ∈ hostsOf ops) (fun a b ha hb => hna a ha b hb) ops
    (TA.new (Pol.new k ldc lrack) sh nl ps sess) (fun _ => Status.init) hops (Inv_new k ldc lrack)
    (fun x hx => by simp [known, Pol.new, TA.new] at hx)
    (fun x => by simp [known, Pol.new, TA.new, Status.inList, Status.init])
  exact ⟨this.1, this.2.2⟩

/-- structure of the ideal sequence in a state with the list invariant (no assumption on the replica tables) -/
theorem pickSeq_struct (t : TA) (hp : Inv t.pol) (up : Nat → Bool) (σ : List Host → List Host) (rk : Option (Nat × Nat)) :
    ∃ l, t.pickSeq up σ rk = .seq l ∧ (∀ h, known t.pol h → up h.id = true → h ∈ l) ∧
      ∀ h ∈ l, up h.id = true ∧
        (h ∈ specHead t.pol.tier t.pol.maxTier up t.nonlocal ((repsOf t σ rk).getD []) ∨ known t.pol h) := by
  have plain : t.pickSeq up σ rk = .seq (t.pol.pickSeq up) →
      ∃ l, t.pickSeq up σ rk = .seq l ∧ (∀ h, known t.pol h → up h.id = true → h ∈ l) ∧
      ∀ h ∈ l, up h.id = true ∧
        (h ∈ specHead t.pol.tier t.pol.maxTier up t.nonlocal ((repsOf t σ rk).getD []) ∨ known t.pol h) := by
    intro e1
    exact ⟨_, e1, fun h hk hu => (mem_pickSeq _ hp up h).mpr ⟨hk, hu⟩,
      fun h hh => ⟨((mem_pickSeq _ hp up h).mp hh).2, Or.inr ((mem_pickSeq _ hp up h).mp hh).1⟩⟩
  cases rk with
  | none => exact plain rfl
  | some kt =>
    obtain ⟨ks, tok⟩ := kt
    cases hr : t.replicasFor ks tok with
    | noRing => exact plain (by simp only [TA.pickSeq, hr])
    | emptyRing => exact plain (by simp only [TA.pickSeq, hr])
    | hosts reps ft =>
      refine ⟨taSeq t.pol.tier t.pol.maxTier up t.nonlocal (if (ft && t.shuffle) = true then σ reps else reps) (t.pol.pickSeq up),
        by simp only [TA.pickSeq, hr], ?_, ?_⟩
      · exact fun h hk hu => mem_taSeq_of_fallback _ _ _ _ _ _ h ((mem_pickSeq _ hp up h).mpr ⟨hk, hu⟩)
      · intro h hh
        refine ⟨taSeq_up _ _ _ _ _ _ (fun x hx => ((mem_pickSeq _ hp up x).mp hx).2) h hh, ?_⟩
        simp only [taSeq, List.mem_append] at hh
        rcases hh with hh | hh
        · left
          simp only [repsOf, hr, Option.getD_some]
          rw [← taHead_eq_specHead]; exact hh
        · right
          exact ((mem_pickSeq _ hp up h).mp ((minusUsed_sublist _ _).subset hh)).1

/-- COMPLETENESS against the history, for EVERY operation history (AddHost / RemoveHost / HostUp / HostDown
of the same host in any order and number, replica-table updates, picks, any number of earlier picks), every
policy kind — bare (`rk = none`: the sequence is the fallback policy's own) or as token-aware fallback —
every option, up/down state and query: below the counter bound the drained iterator of the code does not
panic and offers `l`; `l` has only hosts whose state is up, and EVERY host the history expects (added and not
removed since, last call not `HostDown`, state up) is in `l`. -/
theorem C11_history_complete (k : Kind) (ldc lrack : Nat) (sh nl ps : Bool) (sess : Option Nat) (ops : List TAOp)
    (up : Nat → Bool) (σ : List Host → List Host) (rk : Option (Nat × Nat)) (hna : NoAlias ops) :
    let t := ops.foldl TA.apply (TA.new (Pol.new k ldc lrack) sh nl ps sess)
    ∃ l, t.pickSeq up σ rk = .seq l ∧ (Pol.below t.pol → t.pickScan up σ rk = ⟨l, false⟩) ∧
      (∀ h ∈ l, up h.id = true) ∧
      ∀ x, (statusOf (evsOf ops) x).expected (up x.id) = true → x ∈ l := by
  intro t
  obtain ⟨hp, hkn⟩ := hist_final k ldc lrack sh nl ps sess ops hna
  obtain ⟨l, hl, hc, hm⟩ := pickSeq_struct t hp up σ rk
  refine ⟨l, hl, fun hb => pickScan_ideal t up σ rk hb l hl, fun h hh => (hm h hh).1, ?_⟩
  intro x hx
  obtain ⟨h1, h2⟩ := expected_inList _ (wf_statusOf _ x) _ hx
  exact hc x ((hkn x).mpr h1) h2

/-- core of the exactness theorem: if no host is a ghost and every host of the specified replica head is
expected by the history, the drained iterator offers exactly the expected hosts, each once -/
theorem history_exact_core (k : Kind) (ldc lrack : Nat) (sh nl ps : Bool) (sess : Option Nat) (ops : List TAOp)
    (up : Nat → Bool) (σ : List Host → List Host) (hσ : ∀ l, (σ l).Perm l) (rk : Option (Nat × Nat)) (hna : NoAlias ops) :
    let t := ops.foldl TA.apply (TA.new (Pol.new k ldc lrack) sh nl ps sess)
    let S := fun x => statusOf (evsOf ops) x
    (∀ e ∈ t.replicas, ∀ f ∈ e.2, f.2.Nodup) →
    (∀ x, (S x).ghost = false) →
    (∀ x ∈ specHead t.pol.tier t.pol.maxTier up nl ((repsOf t σ rk).getD []), (S x).expected true = true) →
    ∃ l, t.pickSeq up σ rk = .seq l ∧ (Pol.below t.pol → t.pickScan up σ rk = ⟨l, false⟩) ∧ l.Nodup ∧
      (∀ x, x ∈ l ↔ (S x).expected (up x.id) = true) ∧
      ∀ univ : List Host, univ.Nodup → (∀ h ∈ hostsOf ops, h ∈ univ) →
        l.Perm (univ.filter (fun x => (S x).expected (up x.id))) := by
  intro t S hrep hg hst
  obtain ⟨hp, hkn⟩ := hist_final k ldc lrack sh nl ps sess ops hna
  obtain ⟨l, hl, hscan, hnd, hup, hcomp, rest, hrest, hsub, _⟩ :=
    C11_tokenaware_all_states_partial k ldc lrack sh nl ps sess ops up σ hσ rk hrep
  have hmem : ∀ x, x ∈ l ↔ (S x).expected (up x.id) = true := by
    intro x
    constructor
    · intro hx
      have hu := hup x hx
      rw [hu]
      rw [hrest, List.mem_append] at hx
      rcases hx with hx | hx
      · exact hst x hx
      · have hk := ((mem_pickSeq _ hp up x).mp (hsub.subset hx)).1
        exact inList_expected _ (wf_statusOf _ x) (hg x) ((hkn x).mp hk)
    · intro hx
      obtain ⟨h1, h2⟩ := expected_inList _ (wf_statusOf _ x) _ hx
      exact hcomp x ((hkn x).mpr h1) h2
  refine ⟨l, hl, hscan, hnd, hmem, ?_⟩
  intro univ hun hall
  rw [List.perm_ext_iff_of_nodup hnd (hun.filter _)]
  intro x
  rw [hmem x, List.mem_filter]
  constructor
  · intro hx
    refine ⟨hall x (mem_of_known _ x ?_), hx⟩
    simp only [Status.expected, Bool.and_eq_true] at hx
    exact hx.1.1
  · exact fun hx => hx.2

/-! ### which replica lists are FRESH — the exact extent of finding KF-C11-5

`AddHost` / `RemoveHost` that change the policy's host list rebuild the token ring and recompute the replica
table of the session keyspace AND of every other keyspace a table is held for (`updateAllReplicas(meta)`, the
repair of KF-C10-4) under the policy's mutex; `KeyspaceChanged(ks)` recomputes the table of `ks` from the current
ring; `HostUp` / `HostDown` touch nothing. So a replica list taken from the ring or from ANY table the policy
computed itself only lists hosts that are added and not removed; what stays excluded is (b) a host reported
down (`HostDown`) whose state is still up — `C11_cex_stale_replica`. The only tables that can list a host the
policy does not know are those installed from outside (the hook `setReplicas`, an instrument of the harness, not a
path of the code): for them "lists only known hosts" is an assumption on the installed table. -/

/-- the replica list of the query comes from a table the policy computed itself — session keyspace or not: no
table was installed from outside for that keyspace, or the policy has recomputed it since (`dirtyOf`: `setReplicas ks`
marks `ks`; `KeyspaceChanged ks` and every `AddHost` / `RemoveHost` that changes the host list clear it) — or from the
token ring -/
def FreshQuery (t0 : TA) (ops : List TAOp) (rk : Option (Nat × Nat)) : Prop :=
  match rk with
  | none => True
  | some (ks, tok) => ks ∉ dirtyOf t0 ops ∨ (∃ l, (ops.foldl TA.apply t0).replicasFor ks tok = .hosts l false)

/-- in particular: no table was ever installed from outside for the keyspace of the query -/
theorem freshQuery_of_noInject (t0 : TA) (ops : List TAOp) (ks tok : Nat) (hn : ∀ o ∈ ops, o.noInject ks) :
    FreshQuery t0 ops (some (ks, tok)) :=
  Or.inl (runDirty_noInject ops (t0, []) ks (by simp) hn)

theorem hostsHist_final (k : Kind) (ldc lrack : Nat) (sh nl ps : Bool) (sess : Option Nat) (ops : List TAOp) (hna : NoAlias ops) :
    ∀ x, x ∈ (ops.foldl TA.apply (TA.new (Pol.new k ldc lrack) sh nl ps sess)).hosts ↔
      (statusOf (evsOf ops) x).known = true := by
  have hops : ∀ o ∈ ops, ∀ e h, o.ev = some (e, h) → h ∈ hostsOf ops := by
    intro o ho e h he
    exact List.mem_map.mpr ⟨(e, h), List.mem_filterMap.mpr ⟨o, ho, he⟩, rfl⟩
  exact hostsHist_run (fun h => h ∈ hostsOf ops) (fun a b ha hb => hna a ha b hb) ops
    (TA.new (Pol.new k ldc lrack) sh nl ps sess) (fun _ => Status.init) hops
    (fun x hx => by simp [TA.new] at hx)
    (fun x => by simp [TA.new, Status.init])

/-- In every reachable state (any history of AddHost / RemoveHost / HostUp / HostDown / KeyspaceChanged /
metadata changes / replica tables installed from outside into OTHER keyspaces / picks), for every query whose
replica list comes from a table the policy computed itself — the session keyspace's or ANY other keyspace's —
(never installed from outside, or recomputed since: `FreshQuery`) or from the token ring: every host of the
replica list is in the policy's own host list — and, the hosts of
the history having pairwise different addresses, that list is exactly the hosts added and not removed since.
A removed host is never a replica of such a query (full for case (a) of KF-C11-5). -/
theorem C11_replica_tables_fresh (k : Kind) (ldc lrack : Nat) (sh nl ps : Bool) (sess : Option Nat) (ops : List TAOp)
    (σ : List Host → List Host) (hσ : ∀ l, (σ l).Perm l) (rk : Option (Nat × Nat)) (hna : NoAlias ops) :
    let t := ops.foldl TA.apply (TA.new (Pol.new k ldc lrack) sh nl ps sess)
    FreshQuery (TA.new (Pol.new k ldc lrack) sh nl ps sess) ops rk →
    ∀ x ∈ (repsOf t σ rk).getD [], x ∈ t.hosts ∧ (statusOf (evsOf ops) x).known = true := by
  intro t hfq x hx
  have hfresh : ∀ ks, ks ∉ dirtyOf (TA.new (Pol.new k ldc lrack) sh nl ps sess) ops → TabFresh t ks := by
    intro ks hn
    have := dirty_run ops (TA.new (Pol.new k ldc lrack) sh nl ps sess, [])
      (fun ks' _ e he => by simp [TA.new] at he) ks hn
    rw [runDirty_fst] at this
    exact this
  suffices h : x ∈ t.hosts from ⟨h, (hostsHist_final k ldc lrack sh nl ps sess ops hna x).mp h⟩
  cases rk with
  | none => simp [repsOf] at hx
  | some kt =>
    obtain ⟨ks, tok⟩ := kt
    simp only [repsOf] at hx
    cases hr : t.replicasFor ks tok with
    | noRing => rw [hr] at hx; simp at hx
    | emptyRing => rw [hr] at hx; simp at hx
    | hosts l ft =>
      rw [hr] at hx
      simp only [Option.getD_some] at hx
      have hxl : x ∈ l := by
        split at hx
        · exact (hσ l).mem_iff.mp hx
        · exact hx
      have hr' := hr
      unfold TA.replicasFor at hr
      split at hr
      · cases hr
      · split at hr
        · rename_i l' hl'
          injection hr with e1 e2
          subst e1 e2
          rw [Option.bind_eq_some_iff] at hl'
          obtain ⟨e, he, hlk⟩ := hl'
          obtain ⟨k', hk'⟩ := lookupTok_mem e.2 tok _ hlk
          have heks : e.1 = ks := by simpa using List.find?_some he
          rcases hfq with h2 | ⟨l2, h2⟩
          · exact hfresh ks h2 e (List.mem_of_find?_eq_some he) heks _ hk' x hxl
          · rw [hr'] at h2; cases h2
        · split at hr
          · rename_i h hh
            injection hr with e1 e2
            subst e1
            simp only [List.mem_singleton] at hxl
            subst hxl
            obtain ⟨k', hk'⟩ := lookupTok_mem _ tok _ hh
            exact ringOf_sub t.hosts _ hk'
          · cases hr

/-- EXACTNESS against the history (partial — see the section comments): under the hypotheses of
`C11_tokenaware_all_states_partial`, if no host is a ghost (KF-C11-4), no host of the specified replica head
was last reported down by `HostDown` (KF-C11-5, case (b) — the only stale-replica case left after the repair of
KF-C10-4), and the replica list comes from a table the policy computed itself (ANY keyspace; `FreshQuery`) or from
the token ring — or else (a table installed from outside through the hook and not recomputed since: an assumption
on that table, not on the code)
lists no host that is not known, then the drained iterator offers EXACTLY the hosts the history expects, each
once: `l` is a permutation of the expected hosts of any duplicate-free universe containing the hosts of the
history. In particular a REMOVED host offered as replica for a query of ANY keyspace is not excused. -/
theorem C11_history_exact_partial (k : Kind) (ldc lrack : Nat) (sh nl ps : Bool) (sess : Option Nat) (ops : List TAOp)
    (up : Nat → Bool) (σ : List Host → List Host) (hσ : ∀ l, (σ l).Perm l) (rk : Option (Nat × Nat)) (hna : NoAlias ops) :
    let t := ops.foldl TA.apply (TA.new (Pol.new k ldc lrack) sh nl ps sess)
    let S := fun x => statusOf (evsOf ops) x
    (∀ e ∈ t.replicas, ∀ f ∈ e.2, f.2.Nodup) →
    (∀ x, (S x).ghost = false) →
    (∀ x ∈ specHead t.pol.tier t.pol.maxTier up nl ((repsOf t σ rk).getD []), (S x).last ≠ some .hdown) →
    (FreshQuery (TA.new (Pol.new k ldc lrack) sh nl ps sess) ops rk ∨
      ∀ x ∈ specHead t.pol.tier t.pol.maxTier up nl ((repsOf t σ rk).getD []), (S x).known = true) →
    ∃ l, t.pickSeq up σ rk = .seq l ∧ (Pol.below t.pol → t.pickScan up σ rk = ⟨l, false⟩) ∧ l.Nodup ∧
      (∀ x, x ∈ l ↔ (S x).expected (up x.id) = true) ∧
      ∀ univ : List Host, univ.Nodup → (∀ h ∈ hostsOf ops, h ∈ univ) →
        l.Perm (univ.filter (fun x => (S x).expected (up x.id))) := by
  intro t S hrep hg hdown hfresh
  apply history_exact_core k ldc lrack sh nl ps sess ops up σ hσ rk hna hrep hg
  intro x hx
  have hk : (S x).known = true := by
    rcases hfresh with hf | hf
    · have hxr : x ∈ (repsOf t σ rk).getD [] := by
        rw [← taHead_eq_specHead] at hx
        exact (mem_taHead _ _ _ _ _ x hx).1
      exact (C11_replica_tables_fresh k ldc lrack sh nl ps sess ops σ hσ rk hna hf x hxr).2
    · exact hf x hx
  have hl := hdown x hx
  simp only [Status.expected, Bool.and_true, Bool.and_eq_true, bne_iff_ne, ne_eq]
  exact ⟨hk, hl⟩

/-- non-vacuity, and what the exact exclusion is about: session keyspace 0 with SimpleStrategy rf 2; after
`RemoveHost(r)` the recomputed table no longer lists r — a routed query of the session keyspace is offered
exactly the remaining host (had the table been computed from the ring BEFORE it was rebuilt, r would still
lead the sequence) -/
example :
    let ops := [TAOp.setMeta 0 (some (some 2)), .add ⟨1, 1, 0, 0, [100]⟩, .add ⟨9, 9, 1, 0, [900]⟩, .remove ⟨9, 9, 1, 0, [900]⟩]
    let t := ops.foldl TA.apply (TA.new (Pol.new .dc 0 0) false true true (some 0))
    t.replicas = [(0, [(100, [⟨1, 1, 0, 0, [100]⟩])])] ∧
    t.pickScan (fun _ => true) id (some (0, 500)) = ⟨[⟨1, 1, 0, 0, [100]⟩], false⟩ := by
  decide

def cexR : Host := ⟨9, 9, 1, 0, []⟩   -- remote DC
/-- COUNTEREXAMPLE, ghost (kernel-checked): `HostUp` of a host that was never added — and of one that was
removed — makes the round-robin policy offer it, although the history does not know it -/
theorem C11_cex_ghost_hostup :
    ([TAOp.hostUp cexW1].foldl TA.apply (TA.new (Pol.new .rr 0 0) false false false)).pickScan (fun _ => true) id none
      = ⟨[cexW1], false⟩ ∧
    (statusOf (evsOf [TAOp.hostUp cexW1]) cexW1).expected true = false ∧
    ([TAOp.add cexW1, .add cexW2, .remove cexW1, .hostUp cexW1].foldl TA.apply
        (TA.new (Pol.new .dc 0 0) false false false)).pickScan (fun _ => true) id none
      = ⟨[cexW2, cexW1], false⟩ ∧
    (statusOf (evsOf [TAOp.add cexW1, .add cexW2, .remove cexW1, .hostUp cexW1]) cexW1).expected true = false := by
  decide

/-- COUNTEREXAMPLE, stale replica, KF-C11-5 case (b) (kernel-checked): token-aware over round-robin; the replica
table of keyspace 0 lists host 2; after `HostDown(2)` with the `HostInfo` state still up a routed query of that
keyspace is still offered host 2 first, which the history does not expect -/
theorem C11_cex_stale_replica :
    ([TAOp.add cexW1, .add cexW2, .setReplicas 0 [(100, [cexW2])], .hostDown cexW2].foldl TA.apply
        (TA.new (Pol.new .rr 0 0) false false true)).pickScan (fun _ => true) id (some (0, 50))
      = ⟨[cexW2, cexW1], false⟩ ∧
    (statusOf (evsOf [TAOp.add cexW1, .add cexW2, .setReplicas 0 [(100, [cexW2])], .hostDown cexW2]) cexW2).expected true = false := by
  decide

/-- the code BEFORE the repair of KF-C10-4 (`RemoveHost` recomputed the session keyspace's table only), kept for
the regression example below -/
def removeOld (t : TA) (h : Host) : TA :=
  let r := cowRemove t.hosts h.addr
  let t1 : TA := { t with hosts := r.1 }
  { (if r.2 then (match t1.sessKs with | some ks => t1.updateReplicas ks | none => t1) else t1) with pol := t.pol.remove h }

def cexO1 : Host := ⟨1, 1, 0, 0, [100]⟩
def cexO9 : Host := ⟨9, 9, 1, 0, [900]⟩
/-- REGRESSION (former case (a) of KF-C11-5, kernel-checked): token-aware over dc-aware with non-local fallback,
session keyspace 0, keyspace 1 ANOTHER keyspace with SimpleStrategy rf 2 whose table the policy computed on
`KeyspaceChanged(1)`: 100 → [1,9], 900 → [9,1]. After `RemoveHost(9)` the repaired code has recomputed the table
of keyspace 1 (100 → [1]) and a routed query of keyspace 1 is offered host 1 only; the old code kept the table
and offered the removed host 9. -/
example :
    let pre := [TAOp.setMeta 1 (some (some 2)), .add cexO1, .add cexO9, .keyspaceChanged 1]
    let t := pre.foldl TA.apply (TA.new (Pol.new .dc 0 0) false true true (some 0))
    t.replicas = [(1, [(100, [cexO1, cexO9]), (900, [cexO9, cexO1])])] ∧
    (t.remove cexO9).replicas = [(1, [(100, [cexO1])])] ∧
    (t.remove cexO9).pickScan (fun _ => true) id (some (1, 500)) = ⟨[cexO1], false⟩ ∧
    (removeOld t cexO9).pickScan (fun _ => true) id (some (1, 500)) = ⟨[cexO1, cexO9], false⟩ ∧
    (statusOf (evsOf (pre ++ [.remove cexO9])) cexO9).expected true = false := by
  decide

/-- a table installed from outside lives until the next change of the policy's host list: with keyspace 0 unknown
to the metadata the table is dropped by `RemoveHost(9)` (the query falls back to the ring owner), with keyspace 0
known (SimpleStrategy rf 1) it is replaced by the table the policy computes itself -/
example :
    let t := [TAOp.add cexO1, .add cexO9, .setReplicas 0 [(100, [cexO9, cexO1])]].foldl TA.apply
      (TA.new (Pol.new .dc 0 0) false true true)
    (t.remove cexO9).replicas = [] ∧
    (t.remove cexO9).pickScan (fun _ => true) id (some (0, 50)) = ⟨[cexO1], false⟩ ∧
    ((t.setMeta 0 (some (some 1))).remove cexO9).replicas = [(0, [(100, [cexO1])])] := by
  decide

def cexS1 : Host := ⟨1, 1, 0, 0, [100]⟩
def cexS2 : Host := ⟨2, 2, 0, 0, [200]⟩
/-- COUNTEREXAMPLE for what stays excluded also on the SESSION keyspace (kernel-checked), KF-C11-5b: round-robin
fallback, session keyspace 0 with SimpleStrategy rf 1 (table computed by the policy itself: 100 → [1], 200 → [2]);
after `HostDown(2)` with the `HostInfo` state still up, a routed query of the session keyspace is offered host 2
first although the history does not expect it — `HostDown` refreshes nothing. (After `RemoveHost(2)` it is not:
the example after `C11_history_exact_partial`, for any keyspace: the regression example above.) -/
theorem C11_cex_stale_down_session :
    let ops := [TAOp.setMeta 0 (some (some 1)), .add cexS1, .add cexS2, .hostDown cexS2]
    let t := ops.foldl TA.apply (TA.new (Pol.new .rr 0 0) false false true (some 0))
    t.replicas = [(0, [(100, [cexS1]), (200, [cexS2])])] ∧
    t.pickScan (fun _ => true) id (some (0, 150)) = ⟨[cexS2, cexS1], false⟩ ∧
    (statusOf (evsOf ops) cexS2).expected true = false ∧ (statusOf (evsOf ops) cexS2).known = true := by
  decide

/-- non-vacuity: the history add, down, add (what `Session.startPoolFill` does on a node-up event) — the host
is expected and offered, routed or not -/
example :
    let ops := [TAOp.add cexW1, .add cexW2, .hostDown cexW2, .add cexW2]
    (statusOf (evsOf ops) cexW2).expected true = true ∧
    (ops.foldl TA.apply (TA.new (Pol.new .dc 0 0) false false true)).pickScan (fun _ => true) id none = ⟨[cexW1, cexW2], false⟩ := by
  decide

/-! ## several iterators alive at once

The iterator `Pick` returns is consumed lazily by the query executor while other queries call `Pick` on the same
policy (retries, speculative executions, concurrent queries of one partition). `IOp` / `istep` (Proofs/C11Iter):
any interleaving of `open` (slot := Pick), `next` (one call of a slot's iterator) and whole picks of others;
the up/down state is fixed while the iterators are alive. -/

/-- For EVERY interleaving of the calls of any number of live iterators (and picks of others in between): the
policy state only moves its rotation counter; every live iterator is `IterOk` — its replica phases are those
fixed at its `Pick` (own shuffled copy of the replica list), and once its fallback iterator exists, what it has
offered plus what it will offer is the sequence of a LONE `Pick` + drain at the counter value of that moment —
and when an iterator returns nil, what it offered since its `Pick` is exactly `(t0.withCtr c).pickScan`, the
drained lone pick at some counter value `c`, without a panic. Iterators do not disturb one another. -/
theorem C11_iterators_independent (t0 : TA) (up : Nat → Bool) (sched : List IOp) :
    let st := sched.foldl (istep up) (t0, fun _ => none)
    (∃ c, st.1 = t0.withCtr c) ∧
    ∀ k g, st.2 k = some g → IterOk up t0 g ∧
      (∀ x, (st.1.nextIter up g.it).2.2 = .host x → (st.1.nextIter up g.it).2.1.given = g.it.given ++ [x]) ∧
      ((st.1.nextIter up g.it).2.2 = .done →
        ∃ c, (t0.withCtr c).pickScan up g.σ g.rk = ⟨g.it.given, false⟩) := by
  intro st
  obtain ⟨⟨c, hc⟩, hok⟩ := iter_run up t0 sched (t0, fun _ => none) ⟨t0.pol.ctr, rfl⟩ (fun k g hk => by cases hk)
  refine ⟨⟨c, hc⟩, fun k g hk => ?_⟩
  have hg := hok k g hk
  obtain ⟨_, _, h3, h4⟩ := next_ok up t0 c g hg
  rw [hc]
  exact ⟨hg, h3, fun hd => (h4 hd).2⟩

/-- THE PROPERTY for an iterator that was consumed interleaved with others: in every reachable state `t0` (any
history `hist`), for every schedule, an iterator that has returned nil offered — at some counter value `c` — the
drained sequence of the code in the reachable state `hist ++ [setCtr c]`, which has the same notifier history;
below the counter bound (KF-C11-3) that is the ideal sequence of that state, to which
`C11_tokenaware_all_states_partial` (no host twice, only up hosts, every known up host, specified replica head
first), `C11_history_complete` and `C11_history_exact_partial` apply as they stand. -/
theorem C11_interleaved_iterator_partial (k : Kind) (ldc lrack : Nat) (sh nl ps : Bool) (sess : Option Nat)
    (hist : List TAOp) (up : Nat → Bool) (sched : List IOp) (slot : Nat) (g : GSlot) :
    let t0 := hist.foldl TA.apply (TA.new (Pol.new k ldc lrack) sh nl ps sess)
    let st := sched.foldl (istep up) (t0, fun _ => none)
    st.2 slot = some g → (st.1.nextIter up g.it).2.2 = .done →
    ∃ c, (t0.withCtr c).pickScan up g.σ g.rk = ⟨g.it.given, false⟩ ∧
      evsOf (hist ++ [TAOp.setCtr c]) = evsOf hist ∧
      (Pol.below (t0.withCtr c).pol →
        t0.withCtr c = (hist ++ [TAOp.setCtr c]).foldl TA.apply (TA.new (Pol.new k ldc lrack) sh nl ps sess) ∧
        (t0.withCtr c).pickSeq up g.σ g.rk = .seq g.it.given) := by
  intro t0 st hslot hdone
  obtain ⟨_, h2⟩ := C11_iterators_independent t0 up sched
  obtain ⟨c, hc⟩ := (h2 slot g hslot).2.2 hdone
  refine ⟨c, hc, by simp [evsOf, TAOp.ev], fun hb => ?_⟩
  have hlt : c < 18446744073709551616 := by
    have hne : (t0.withCtr c).pol.layers ≠ [] := by unfold Pol.layers; split <;> simp
    obtain ⟨l, hl⟩ := List.exists_mem_of_ne_nil _ hne
    have := hb l hl
    have e : (t0.withCtr c).pol.ctr = c := rfl
    rw [e] at this
    omega
  refine ⟨?_, ?_⟩
  · rw [List.foldl_append]
    simp only [List.foldl_cons, List.foldl_nil, TA.apply, Pol.setCtr, Nat.mod_eq_of_lt hlt]
    rfl
  · have hno : (t0.withCtr c).pickSeq up g.σ g.rk ≠ .crash := (C11_tokenaware_no_crash_partial _ up g.σ g.rk).1
    cases hps : (t0.withCtr c).pickSeq up g.σ g.rk with
    | crash => exact absurd hps hno
    | seq l =>
      have := pickScan_ideal (t0.withCtr c) up g.σ g.rk hb l hps
      rw [hc] at this
      injection this with e _
      rw [e]

/-- non-vacuity: two iterators over one token range (replicas b, c), interleaved A1 B1 B2 B3 A2 A3: both offer
the replicas first and every host once; the fallback counter is taken when each leaves its replica phases -/
example :
    let t0 := cexTAok
    let st := [IOp.openI 0 id (some (0, 50)), .nextI 0, .openI 1 id (some (0, 50)), .nextI 1, .nextI 1, .nextI 1, .nextI 1, .nextI 0, .nextI 0, .nextI 0].foldl
      (istep (fun _ => true)) (t0, fun _ => none)
    (st.2 0).map (·.it.given) = some [cexA', cexC', cexB', cexD'] ∧ (st.2 1).map (·.it.given) = some [cexA', cexC', cexB', cexD'] := by
  decide

/-! ## concurrent AddHost / RemoveHost / HostUp / HostDown: the copy-on-write list under its mutex

`cowHostList.add` / `remove` are `mu.Lock(); l := list.Load(); newL := copy; list.Store(newL); mu.Unlock()`.
`Policies.Cow`: `n` calls run concurrently, a schedule picks the thread of every atomic step. -/

/-- LINEARIZABILITY, for EVERY schedule of the atomic steps (lock; load; copy; store; unlock) of any number of
concurrent `add` / `remove` calls on one copy-on-write list with the mutex discipline the unchanged code has:
once all calls have returned the list is the result of the calls applied one after the other in some order of
ALL of them — no call is lost. -/
theorem C11_cow_concurrent_linearizable (n : Nat) (ops : Nat → CowOp) (l0 : List Host) (sched : List Nat) :
    let s := Cow.run true n (fun i => (ops i).apply) (Cow.init l0) sched
    s.allDone n = true →
    ∃ order : List Nat, order.Perm (List.range n) ∧ s.shared = Cow.seq (fun i => (ops i).apply) order l0 :=
  fun hd => cow_linearizable n (fun i => (ops i).apply) l0 sched hd

/-- COMMUTING calls: if the `n` concurrent calls are about pairwise different connect addresses (AddHost /
HostUp / RemoveHost / HostDown of different hosts), then for EVERY schedule the final list holds exactly the
hosts that were there and whose address no call removes, and the added hosts whose address was free — the
same set whatever the interleaving: the calls commute and none is lost. -/
theorem C11_cow_concurrent_commute (n : Nat) (ops : Nat → CowOp) (l0 : List Host) (sched : List Nat)
    (hd : ∀ a, a < n → ∀ b, b < n → (ops a).touch = (ops b).touch → a = b) :
    let s := Cow.run true n (fun i => (ops i).apply) (Cow.init l0) sched
    s.allDone n = true →
    ∀ x, x ∈ s.shared ↔
      (x ∈ l0 ∧ ∀ i, i < n → ops i ≠ .remove x.addr) ∨ (∃ i, i < n ∧ ops i = .add x ∧ ∀ y ∈ l0, y.addr ≠ x.addr) := by
  intro s hdone x
  obtain ⟨order, hperm, hs⟩ := C11_cow_concurrent_linearizable n ops l0 sched hdone
  have hmem : ∀ i, i ∈ order ↔ i < n := fun i => by rw [hperm.mem_iff, List.mem_range]
  rw [hs, seq_mem_char ops order (fun a ha b hb => hd a ((hmem a).mp ha) b ((hmem b).mp hb))
    (hperm.nodup_iff.mpr List.nodup_range) l0 x]
  constructor
  · rintro (⟨h1, h2⟩ | ⟨i, hi, h1, h2⟩)
    · exact Or.inl ⟨h1, fun i hi => h2 i ((hmem i).mpr hi)⟩
    · exact Or.inr ⟨i, (hmem i).mp hi, h1, h2⟩
  · rintro (⟨h1, h2⟩ | ⟨i, hi, h1, h2⟩)
    · exact Or.inl ⟨h1, fun i hi => h2 i ((hmem i).mp hi)⟩
    · exact Or.inr ⟨i, (hmem i).mpr hi, h1, h2⟩

/-- COUNTEREXAMPLE without the mutex discipline (kernel-checked): the variant that loads and copies OUTSIDE the
mutex and only serialises the Store (load; copy; lock; store; unlock). Two concurrent `add` calls for different
hosts, schedule: both load, both copy, then each locks, stores, unlocks — both calls return, the second Store
overwrites the first: host 1 is lost. The same schedule under the code's discipline keeps both. -/
theorem C11_cex_cow_unlocked_lost_update :
    let fs : Nat → List Host → List Host := fun i l => (cowAdd l (if i = 0 then cexW1 else cexW2)).1
    let sched := [0, 1, 0, 1, 0, 0, 0, 1, 1, 1]
    (Cow.run false 2 fs (Cow.init [cexW3]) sched).allDone 2 = true ∧
    (Cow.run false 2 fs (Cow.init [cexW3]) sched).shared = [cexW3, cexW2] ∧
    (Cow.run true 2 fs (Cow.init [cexW3]) (sched ++ [1, 1, 1, 1, 1])).allDone 2 = true ∧
    (Cow.run true 2 fs (Cow.init [cexW3]) (sched ++ [1, 1, 1, 1, 1])).shared = [cexW3, cexW1, cexW2] := by
  decide

/-- THE GATED SCHEDULE IS DECISIVE (op `gburst`: every call of a burst is held at its first read of one listed
host until all calls are in progress, then they finish one after the other): for ANY number `n + 1` of concurrent
`add` calls of hosts whose addresses are free and pairwise different, on ANY list, a `cowHostList.add` that takes
its snapshot and copies outside the mutex (the class of the seeded change C11-5) ends, under that schedule, with
exactly ONE of the `n + 1` hosts in the list - all calls return, `n` hosts are lost. (Under the discipline of the
unchanged code every schedule, this one included, keeps all of them: `C11_cow_concurrent_commute`.) -/
theorem C11_gated_schedule_decisive (n : Nat) (hosts : Nat → Host) (l0 : List Host)
    (hfree : ∀ i, ∀ y ∈ l0, y.addr ≠ (hosts i).addr)
    (hdiff : ∀ i j, (hosts i).addr = (hosts j).addr → i = j) :
    let s := Cow.run false (n + 1) (fun i l => (cowAdd l (hosts i)).1) (Cow.init l0) (gatedSched (n + 1))
    s.allDone (n + 1) = true ∧ s.shared = l0 ++ [hosts n] ∧ ∀ i, i < n → hosts i ∉ s.shared := by
  intro s
  obtain ⟨h1, h2, _⟩ := gated_unlocked n (fun i l => (cowAdd l (hosts i)).1) l0
  have hadd : (cowAdd l0 (hosts n)).1 = l0 ++ [hosts n] := by
    unfold cowAdd
    rw [if_neg]
    simp only [List.any_eq_true, equal_iff, not_exists, not_and]
    intro y hy e
    exact hfree n y hy e.symm
  have hs : s.shared = l0 ++ [hosts n] := by rw [← hadd]; exact h2
  refine ⟨h1, hs, ?_⟩
  intro i hi hm
  rw [hs, List.mem_append, List.mem_singleton] at hm
  rcases hm with hm | hm
  · exact hfree i _ hm rfl
  · have := hdiff i n (by rw [hm])
    omega

/-- non-vacuity: eight joining hosts (the first gated burst of the quick campaign), seven lost -/
example :
    let hs : Nat → Host := fun i => ⟨100 + i, 100 + i, 0, 0, []⟩
    (Cow.run false 8 (fun i l => (cowAdd l (hs i)).1) (Cow.init [cexW3]) (gatedSched 8)).shared = [cexW3, hs 7] := by
  decide

/-! ## rotation of the starting host PER TIER (fourth round; seeded change C11-8)

Property text: "for the round-robin based policies successive queries rotate the starting host within a tier so
load is spread". `C11_rr_rotates_partial` says it for the positions of ONE layer; a change that keeps the local
rack rotating but feeds the farther tiers a reduced shift (C11-8: `nextStartOffset %= len(local rack)`) keeps
every sequence complete, duplicate free and tier ordered. What it breaks is stated here for ALL tier shapes:
the ONE shared shift moves the start position of EVERY tier on by one per pick (`C11_rr_rotates_tiers_partial`),
hence over whole periods every start position of a tier is used equally often (`C11_rotation_histogram`), hence
the first-host histogram of every tier over ANY number of successive picks is balanced — the verdict of the
spec-backed op `rotate` (`C11_rotation_balanced_partial`). As everywhere for the iterator of the code: below the
counter bound of KF-C11-3. -/

/-- the state of the non-vacuity examples and of the regression below: rack-aware, tiers of 1 / 4 / 3 hosts -/
def rotP : Pol :=
  { Pol.new .rack 0 0 with
    l0 := [⟨1, 1, 0, 0, []⟩]
    l1 := [⟨2, 2, 0, 1, []⟩, ⟨3, 3, 0, 1, []⟩, ⟨4, 4, 0, 1, []⟩, ⟨5, 5, 0, 1, []⟩]
    l2 := [⟨6, 6, 1, 0, []⟩, ⟨7, 7, 1, 0, []⟩, ⟨8, 8, 1, 0, []⟩] }

theorem filter_true_id (l : List Host) : l.filter (fun _ => true) = l :=
  List.filter_eq_self.mpr (fun _ _ => rfl)

theorem repeat_pick (up : Nat → Bool) : ∀ (j : Nat) (p : Pol), p.ctr + j < 18446744073709551616 →
    Nat.repeat (fun q => (q.pick up).1) j p = { p with ctr := p.ctr + j } := by
  intro j
  induction j with
  | zero => intro p _; rfl
  | succ j ih =>
    intro p h
    show (fun q : Pol => (q.pick up).1) (Nat.repeat (fun q => (q.pick up).1) j p) = _
    rw [ih p (by omega)]
    show Pol.bump _ = _
    unfold Pol.bump
    simp only
    rw [Nat.mod_eq_of_lt (by omega)]
    rfl

/-- ROTATION PER TIER, for all tier shapes (any sizes of the three lists, also 0 and 1, sizes that do not divide
each other) and any up/down state: in every policy state with the list invariant, `j` successive picks later
(below the counter bound) the counter stands at `ctr + j`, the iterator of the code does not panic, and from
EVERY tier `t` — not only the first non-empty one — the first host it offers is the first up host of tier `t`'s
list scanned cyclically from list position `(ctr + j + 2) mod n_t`: one pick later every tier starts one
position further. -/
theorem C11_rr_rotates_tiers_partial (p : Pol) (hp : Inv p) (up : Nat → Bool) (j t : Nat) (ht : t < 3)
    (hb : ∀ l ∈ p.layers, p.ctr + j + 1 + l.length < 9223372036854775808) :
    let q : Pol := { p with ctr := p.ctr + j }
    Nat.repeat (fun q => (q.pick up).1) j p = q ∧
    q.pickScan up = ⟨rrSeq up (p.ctr + j + 1) [p.l0, p.l1, p.l2], false⟩ ∧
    tierFirst p.tier t (q.pickScan up).offered =
      firstFrom (fun h => up h.id) (p.getLayer t) ((p.ctr + j + 2) % (p.getLayer t).length) := by
  intro q
  have hc : p.ctr + j < 18446744073709551616 := by
    have : p.layers ≠ [] := by unfold Pol.layers; split <;> simp
    obtain ⟨l, hl⟩ := List.exists_mem_of_ne_nil _ this
    have := hb l hl
    omega
  have hq : Inv q := ⟨hp.a0, hp.a1, hp.a2, hp.t0, hp.t1, hp.t2⟩
  have hs : q.pickScan up = ⟨rrSeq up (p.ctr + j + 1) [p.l0, p.l1, p.l2], false⟩ := by
    rw [pickScan_small q up (fun l hl => hb l hl)]
    unfold Pol.pickSeq
    rw [rrSeq_layers q hq]
  refine ⟨repeat_pick up j p hc, hs, ?_⟩
  rw [hs]
  have := tierFirst_rrSeq p hp up (fun _ => true) (p.ctr + j + 1) t ht
  rw [filter_true_id] at this
  simp only
  rw [this, firstOf_eq]
  have e : (fun h : Host => up h.id && true) = (fun h => up h.id) := by funext h; simp
  rw [e]

/-- non-vacuity, shape 1/4/3 (rack-aware): the third successive pick offers the local rack's only host, then the
local-DC tier starting at ITS position 0 and the remote tier starting at ITS position 1; the fourth one position
further in every tier -/
example :
    ((Nat.repeat (fun q => (q.pick (fun _ => true)).1) 2 rotP).pickScan (fun _ => true)).offered.map (·.id)
      = [1, 2, 3, 4, 5, 7, 8, 6] ∧
    ((Nat.repeat (fun q => (q.pick (fun _ => true)).1) 3 rotP).pickScan (fun _ => true)).offered.map (·.id)
      = [1, 3, 4, 5, 2, 8, 6, 7] := by decide

/-- THE HISTOGRAM over whole periods, for every layer (any size), every predicate "can be offered" (`f`: up, and
not offered by the replica phases), every counter value `c` and every number `k` of periods: over the `k·n`
successive shifts `c+1 … c+k·n` a host `h` is the first host offered from the layer exactly `k·w(h)` times, where
the SPECIFICATION's weight `w(h)` = the number of list positions from which `h` is the first host that can be
offered scanning cyclically (`specWeight`; every start position is used `k` times). A host that can be offered has
`1 ≤ w(h)`, and `w(h) ≤ 1 + d` with `d` listed hosts that cannot be offered; with every listed host up and
unused, `w(h) = 1`: every host is the first of its tier exactly `k` times. -/
theorem C11_rotation_histogram (f : Host → Bool) (l : List Host) (h : Host) (c k : Nat) (hl : l ≠ []) :
    (List.range (k * l.length)).countP (fun p => firstOf f (c + 1 + p) l == some h) = k * specWeight f l h ∧
    (h ∈ l → f h = true → 1 ≤ specWeight f l h) ∧
    (l.Nodup → specWeight f l h ≤ 1 + l.countP (fun x => !f x)) ∧
    (l.Nodup → (∀ x ∈ l, f x = true) → h ∈ l → specWeight f l h = 1) := by
  have hpos : 0 < l.length := List.length_pos_iff.mpr hl
  have h1 := firstOf_hist f l h c (k * l.length) hl
  have e1 : k * l.length / l.length = k := Nat.mul_div_cancel k hpos
  have e2 : ceilDiv (k * l.length) l.length = k := by
    unfold ceilDiv
    rw [e1, Nat.mul_mod_left]
    simp
  rw [e1, e2] at h1
  refine ⟨Nat.le_antisymm h1.2 h1.1, specWeight_pos f l h, fun hn => specWeight_le f l hn h, ?_⟩
  intro hn hall hm
  have lo := specWeight_pos f l h hm (hall h hm)
  have hi := specWeight_le f l hn h
  have d0 : l.countP (fun x => !f x) = 0 := by
    rw [List.countP_eq_zero]
    intro x hx
    simp [hall x hx]
  omega

/-- non-vacuity: layer a, B, c, d with B down — a and d are the first host from one start position each, c from
two (its own and B's): over 2 periods a, c, d are first 2, 4, 2 times -/
example :
    let l : List Host := [⟨1, 1, 0, 0, []⟩, ⟨2, 2, 0, 0, []⟩, ⟨3, 3, 0, 0, []⟩, ⟨4, 4, 0, 0, []⟩]
    let f : Host → Bool := fun h => h.id != 2
    [1, 3, 4].map (fun i => (List.range 8).countP (fun p => firstOf f (10 + 1 + p) l == some ⟨i, i, 0, 0, []⟩)) = [2, 4, 2] := by
  decide

/-- THE ROTATION SUB-CLAIM as the op `rotate` checks it, in every reachable state of every round-robin based
policy alone (query without routing key) or as the fallback of the token-aware policy (any history of AddHost /
RemoveHost / HostUp / HostDown / replica tables / KeyspaceChanged / earlier picks / counter presets), any up/down
state — hosts that are down but still listed included —, any query, any shuffles (one per pick, each permuting),
and ANY number `m` of successive `Pick`s each drained with nothing in between, below the counter bound of
KF-C11-3: no iterator panics, and `rotateVerdict = none`, i.e. for EVERY tier `t` with `n` listed hosts of which
`d` cannot be offered after the replica phases (down, or offered by the replica phases), every other host of
the tier is the FIRST host offered from the tier by at least ⌊m/n⌋ and at most ⌈m/n⌉·(1+d) of the `m`
iterators — with d = 0: every up host of the tier the same number of times ±1. -/
theorem C11_rotation_balanced_partial (k : Kind) (ldc lrack : Nat) (sh nl ps : Bool) (sess : Option Nat) (ops : List TAOp)
    (up : Nat → Bool) (σs : Nat → List Host → List Host) (hσ : ∀ i l, (σs i l).Perm l)
    (rk : Option (Nat × Nat)) (m : Nat) :
    let t := ops.foldl TA.apply (TA.new (Pol.new k ldc lrack) sh nl ps sess)
    (∀ l ∈ t.pol.layers, t.pol.ctr + m + l.length < 9223372036854775808) →
    (∀ r ∈ TA.rotateRun t up σs rk 0 m, r.2.crashed = false) ∧
    (∀ r ∈ TA.rotateRun t up σs rk 0 m, ∃ j, j < m ∧
        (t.withCtr (t.pol.ctr + j)).pickScan up (σs j) rk = ⟨r.1 ++ r.2.offered, r.2.crashed⟩) ∧
    t.rotateVerdict up σs rk m = none := by
  intro t hb
  have hp : Inv t.pol := TAInv_run _ (Inv_new k ldc lrack) ops
  have hc : t.pol.ctr + m < 18446744073709551616 := by
    have : t.pol.layers ≠ [] := by unfold Pol.layers; split <;> simp
    obtain ⟨l, hl⟩ := List.exists_mem_of_ne_nil _ this
    have := hb l hl
    omega
  have main := rotateVerdict_none t hp up σs hσ rk m hb
  refine ⟨main.1, ?_, main.2⟩
  intro r hr
  rw [rotateRun_eq up σs rk m t 0 hc, List.mem_map] at hr
  obtain ⟨j, hj, rfl⟩ := hr
  refine ⟨j, List.mem_range.mp hj, ?_⟩
  rw [pickScan_parts, Nat.zero_add]


/-- non-vacuity: 12 picks over 1/4/3, all up: balanced; with host 3 down but listed: balanced as well (host 4 is
first 6 times, 2 and 5 three times each) -/
example :
    (TA.new rotP false false false).rotateVerdict (fun _ => true) (fun _ l => l) none 12 = none ∧
    (TA.new rotP false false false).rotateVerdict (fun i => i != 3) (fun _ l => l) none 12 = none ∧
    [2, 4, 5].map (fun i => firstHits rotP.tier 1
      ((TA.rotateRun (TA.new rotP false false false) (fun i => i != 3) (fun _ l => l) none 0 12).map (·.2.offered))
      ⟨i, i, 0, 1, []⟩) = [3, 6, 3] := by
  decide

/-! FULL CLAIM ("every up host of a tier is the first one offered from it the same number of times ±1") — holds
with d = 0 (third part of `C11_rotation_histogram`: weight 1 for every host). The unchanged code does NOT satisfy
it while a host of the tier is down but still listed, or was offered by the replica phases: the scan starts at
every LISTED position equally often and skips forward, so the host after such hosts takes their turns as well
(weight 1 + the length of the run before it). Proposed finding KF-C11-6 (low severity). -/

/-- COUNTEREXAMPLE to the ±1 form with d > 0 (kernel-checked). (1) round-robin over a, B, c, d with B down but
listed: over 8 successive picks a, c, d are the first host offered 2, 4, 2 times. (2) token-aware over round-robin,
hosts 1..6, replicas 1, 2 of the query's token both offered by the replica phases: after them, over 12 successive
picks of the same query, hosts 3, 4, 5, 6 come first 6, 2, 2, 2 times — the host listed after the replicas gets
three times the share of the others. Both verdicts are `balanced` in the sense of `tierBalanced` (bounds with d). -/
theorem C11_cex_down_listed_double_share :
    (let l : List Host := [⟨1, 1, 0, 0, []⟩, ⟨2, 2, 0, 0, []⟩, ⟨3, 3, 0, 0, []⟩, ⟨4, 4, 0, 0, []⟩]
     let t := TA.new { Pol.new .rr 0 0 with l0 := l } false false false
     [1, 3, 4].map (fun i => firstHits t.pol.tier 0
        ((TA.rotateRun t (fun i => i != 2) (fun _ l => l) none 0 8).map (·.2.offered)) ⟨i, i, 0, 0, []⟩) = [2, 4, 2] ∧
     t.rotateVerdict (fun i => i != 2) (fun _ l => l) none 8 = none) ∧
    (let l : List Host := [⟨1, 1, 0, 0, []⟩, ⟨2, 2, 0, 0, []⟩, ⟨3, 3, 0, 0, []⟩, ⟨4, 4, 0, 0, []⟩, ⟨5, 5, 0, 0, []⟩, ⟨6, 6, 0, 0, []⟩]
     let t : TA := { TA.new { Pol.new .rr 0 0 with l0 := l } false false true with
       hosts := l, replicas := [(0, [(100, [⟨1, 1, 0, 0, []⟩, ⟨2, 2, 0, 0, []⟩])])] }
     t.headOf (fun _ => true) id (some (0, 50)) = [⟨1, 1, 0, 0, []⟩, ⟨2, 2, 0, 0, []⟩] ∧
     [3, 4, 5, 6].map (fun i => firstHits t.pol.tier 0
        ((TA.rotateRun t (fun _ => true) (fun _ l => l) (some (0, 50)) 0 12).map (·.2.offered)) ⟨i, i, 0, 0, []⟩) = [6, 2, 2, 2] ∧
     t.rotateVerdict (fun _ => true) (fun _ l => l) (some (0, 50)) 12 = none) := by
  decide

/-- REGRESSION for the seeded change C11-8 (kernel-checked): the variant that reduces the shift modulo the size of
the local rack before using it for every tier (`rrSeqReduced`). On the shape 1/4/3 all 12 drained sequences are
still complete and tier ordered, but the local-DC tier always starts at the same host — the verdict is `skewed:1`;
on 3/3/3 the variant is indistinguishable (balanced). -/
theorem C11_reduced_shift_skewed :
    let seqs := (List.range 12).map (fun p => rrSeqReduced (fun _ => true) (p + 1) [rotP.l0, rotP.l1, rotP.l2])
    rotVerdict rotP.tier (fun _ => true) [rotP.l0, rotP.l1, rotP.l2] seqs = some 1 ∧
    (∀ s ∈ seqs, s.length = 8) ∧
    firstHits rotP.tier 1 seqs ⟨3, 3, 0, 1, []⟩ = 12 ∧
    (let l3 : List Host := [⟨1, 1, 0, 0, []⟩, ⟨2, 2, 0, 0, []⟩, ⟨3, 3, 0, 0, []⟩]
     rotVerdict (fun _ => 0) (fun _ => true) [l3] ((List.range 12).map (fun p => rrSeqReduced (fun _ => true) (p + 1) [l3])) = none) := by
  decide

/-! ## HOST IDENTITY in the policy host lists (seventh round; seeded change C11-9) — finding KF-C11-7

What makes two `*HostInfo` objects "the same host" for a policy is what `cowHostList.add` and `cowHostList.remove`
COMPARE. The unchanged code: `add` refuses a host that is `HostInfo.Equal` to an entry - the same object, or the same
CONNECT ADDRESS (port, host id: not looked at); `remove(ip)` drops every entry with that connect address and then
re-slices the result to `size-1` - it relies on "at most one entry per address". Both identities are the address, so
that invariant holds in every reachable state, no nil entry can appear and no call panics (`C11_cow_no_nil_entry`,
stated for ANY pair of identities in which `add` refuses whatever `remove` would conflate; `C11_cow_code_identity`:
the unchanged code's pair, and the abstract lists every other theorem of this file is about are what the raw code
computes). The seeded change C11-9 makes `Equal` compare the port too while `remove` still goes by address: the
identities split, two entries with one address get in, `remove` of one drops both and exposes a nil slot, the next
`add` panics (`C11_cex_split_identity_nil_slot`, kernel-checked on the raw list).

The policies against the HISTORY with hosts that share an address: a round-robin based policy keeps one list per
tier, so a host object's identity is its KEY (tier, address). For EVERY history over ANY host objects the lists hold
exactly the object that stands for each key - the first one `AddHost` / `HostUp` put there since `RemoveHost` /
`HostDown` of any object with the key last freed it (`Policies.ownerOf`) - and every such object whose state is up is
offered (`C11_identity_lists_by_history`, no exclusion); without ghost keys (KF-C11-4) and with a replica head of
listed objects the drained iterator offers EXACTLY the objects `Policies.expectedObj` names, each once
(`C11_identity_history_exact_partial` - the specification answer of the op `offer` when two defined host objects
share an address).

FULL PROPERTY (nodes = host objects; "contains every up host the policy knows - so a query can always reach any
live node"): every object that was added and not removed since, was not reported down last and is up, is offered.
The unchanged code violates it for NODES THAT SHARE A CONNECT ADDRESS (different native ports behind one address:
port mapping / NAT / local multi-node clusters; the session's ring keeps them apart by host id): the second node is
refused by every list and never offered, and `HostDown` / `RemoveHost` of the refused node drops the FIRST one, which
no call was about - finding KF-C11-7, counterexample `C11_cex_same_address_sibling`. What holds is the statement
under `NoAlias` (`C11_history_complete`, `C11_history_exact_partial`) and the per-key statement above. -/

/-- `cowHostList.add` / `remove` AS THE GO CODE HAS THEM (entries may be nil, `remove` re-slices to `size-1`, a nil
entry dereferenced is a panic), for ANY two identities - `sameAdd` compared by `add`, `keyOf` by `remove` - such that
`add` refuses whatever `remove` would conflate: after EVERY history of calls no call has panicked, the list has NO
NIL ENTRY and no two entries with one key. -/
theorem C11_cow_no_nil_entry {α κ : Type} [BEq κ] [LawfulBEq κ] (sameAdd : α → α → Bool) (keyOf : α → κ)
    (href : ∀ a b, keyOf a = keyOf b → sameAdd a b = true) (ops : List (RawOp α κ)) :
    ∃ l : List α, rawRun sameAdd keyOf (some []) ops = some (l.map some) ∧ KeyNodup keyOf l :=
  rawRun_ok sameAdd keyOf href ops [] List.Pairwise.nil

/-- `remove(ip)` on a list with the invariant removes EXACTLY the entries identical to `ip` under the list's identity
(at most one), leaves no nil entry and keeps the order of the others. -/
theorem C11_cow_remove_exact {α κ : Type} [BEq κ] [LawfulBEq κ] (keyOf : α → κ) (l : List α) (hl : KeyNodup keyOf l) (ip : κ) :
    (∃ c, rawRemove keyOf (l.map some) ip = some ((l.filter (fun x => !(keyOf x == ip))).map some, c)) ∧
    l.length ≤ (l.filter (fun x => !(keyOf x == ip))).length + 1 ∧
    (∀ x, x ∈ l.filter (fun x => !(keyOf x == ip)) ↔ x ∈ l ∧ keyOf x ≠ ip) := by
  obtain ⟨c, e, _⟩ := rawRemove_ok keyOf l hl ip
  refine ⟨⟨c, e⟩, filter_key_length keyOf l hl ip, ?_⟩
  intro x
  simp [List.mem_filter]

/-- The UNCHANGED code's identities (`HostInfo.Equal` = same object or same connect address; `remove` by connect
address): for every history of `add` / `remove` calls the raw list - nil entries and panics modelled - is the abstract
list `cowAdd` / `cowRemove` compute (the lists all other theorems here are about), without a nil entry, and no two
entries share an address. -/
theorem C11_cow_code_identity (ops : List (RawOp Host Nat)) :
    rawRun Host.equal (fun h : Host => h.addr) (some []) ops = some ((ops.foldl absStep []).map some) ∧
    AddrNodup (ops.foldl absStep []) :=
  ⟨rawRun_abs ops [] List.Pairwise.nil, absRun_inv ops [] List.Pairwise.nil⟩

example : rawRun Host.equal (fun h : Host => h.addr) (some [])
    [.add ⟨1, 10, 0, 0, []⟩, .add ⟨2, 10, 0, 0, []⟩, .add ⟨3, 11, 0, 0, []⟩, .remove 10, .add ⟨2, 10, 0, 0, []⟩] =
    some [some ⟨3, 11, 0, 0, []⟩, some ⟨2, 10, 0, 0, []⟩] := by decide

/-- REGRESSION, the seeded variant C11-9 (kernel-checked on the raw list): a node is (address, port); `Equal`
compares both, `remove` compares the address. Two nodes behind address 10 are both admitted; `remove(10)` - one of
them goes down - drops BOTH and leaves a nil slot; the next `add` into the list panics. -/
theorem C11_cex_split_identity_nil_slot :
    let run := rawRun seededSame (fun n : Nat × Nat => n.1) (some [])
    run [.add (10, 9042), .add (10, 9043), .add (11, 9042)] = some [some (10, 9042), some (10, 9043), some (11, 9042)] ∧
    run [.add (10, 9042), .add (10, 9043), .add (11, 9042), .remove 10] = some [some (11, 9042), none] ∧
    run [.add (10, 9042), .add (10, 9043), .add (11, 9042), .remove 10, .add (10, 9042)] = none := by
  decide

/-- For EVERY operation history over ANY host objects (objects sharing a connect address included), every policy
kind, bare or as token-aware fallback: the lists hold exactly the object that stands for each key (tier, address) by
the history; no two listed objects share a key; the drained iterator offers only up hosts and EVERY listed object
whose state is up (no exclusion: "every up host of the tier is offered"). -/
theorem C11_identity_lists_by_history (k : Kind) (ldc lrack : Nat) (sh nl ps : Bool) (sess : Option Nat) (ops : List TAOp)
    (up : Nat → Bool) (σ : List Host → List Host) (rk : Option (Nat × Nat)) :
    let t := ops.foldl TA.apply (TA.new (Pol.new k ldc lrack) sh nl ps sess)
    let key := (Pol.new k ldc lrack).key
    (∀ x, known t.pol x ↔ ownerOf key (evsOf ops) (key x) = some x) ∧
    (∀ a b, known t.pol a → known t.pol b → key a = key b → a = b) ∧
    ∃ l, t.pickSeq up σ rk = .seq l ∧ (Pol.below t.pol → t.pickScan up σ rk = ⟨l, false⟩) ∧
      (∀ h ∈ l, up h.id = true) ∧
      ∀ x, ownerOf key (evsOf ops) (key x) = some x → up x.id = true → x ∈ l := by
  intro t key
  obtain ⟨hp, _, hkn⟩ := owner_final k ldc lrack sh nl ps sess ops
  refine ⟨hkn, ?_, ?_⟩
  · intro a b ha hb e
    have h1 := (hkn a).mp ha
    have h2 := (hkn b).mp hb
    have e' : (Pol.new k ldc lrack).key a = (Pol.new k ldc lrack).key b := e
    rw [e', h2] at h1
    exact (Option.some.inj h1).symm
  · obtain ⟨l, hl, hc, hm⟩ := pickSeq_struct t hp up σ rk
    exact ⟨l, hl, fun hb => pickScan_ideal t up σ rk hb l hl, fun h hh => (hm h hh).1,
      fun x hx hu => hc x ((hkn x).mpr hx) hu⟩

/-- EXACTNESS per key (partial - the section comment has the full property): under the hypotheses of
`C11_tokenaware_all_states_partial`, for every history over ANY host objects: if no key is a ghost (`HostUp` of an
object whose key is not known, KF-C11-4) and every host of the specified replica head is the listed object of its
key, the drained iterator offers EXACTLY the objects `expectedObj` names - the object standing for a key that is
known, was not reported down last, state up - each once. -/
theorem C11_identity_history_exact_partial (k : Kind) (ldc lrack : Nat) (sh nl ps : Bool) (sess : Option Nat) (ops : List TAOp)
    (up : Nat → Bool) (σ : List Host → List Host) (hσ : ∀ l, (σ l).Perm l) (rk : Option (Nat × Nat)) :
    let t := ops.foldl TA.apply (TA.new (Pol.new k ldc lrack) sh nl ps sess)
    let key := (Pol.new k ldc lrack).key
    (∀ e ∈ t.replicas, ∀ f ∈ e.2, f.2.Nodup) →
    (∀ x, (keyStatus key (evsOf ops) (key x)).ghost = false) →
    (∀ x ∈ specHead t.pol.tier t.pol.maxTier up nl ((repsOf t σ rk).getD []), ownerOf key (evsOf ops) (key x) = some x) →
    ∃ l, t.pickSeq up σ rk = .seq l ∧ (Pol.below t.pol → t.pickScan up σ rk = ⟨l, false⟩) ∧ l.Nodup ∧
      ∀ x, x ∈ l ↔ expectedObj key (evsOf ops) up x = true := by
  intro t key hrep hg hhead
  obtain ⟨hp, _, hkn⟩ := owner_final k ldc lrack sh nl ps sess ops
  obtain ⟨l, hl, hscan, hnd, hup, hcomp, rest, hrest, hsub, _⟩ :=
    C11_tokenaware_all_states_partial k ldc lrack sh nl ps sess ops up σ hσ rk hrep
  refine ⟨l, hl, hscan, hnd, ?_⟩
  intro x
  have hwf : (keyStatus key (evsOf ops) (key x)).wf := wf_keyStatusFrom key _ wf_init (evsOf ops) (key x)
  constructor
  · intro hx
    have hu := hup x hx
    have ho : ownerOf key (evsOf ops) (key x) = some x := by
      rw [hrest, List.mem_append] at hx
      rcases hx with hx | hx
      · exact hhead x hx
      · exact (hkn x).mp ((mem_pickSeq _ hp up x).mp (hsub.subset hx)).1
    have hin : (keyStatus key (evsOf ops) (key x)).inList = true := by
      have := owner_isSome_inList key (evsOf ops) (key x) none Status.init (by simp [Status.init, Status.inList])
      rw [← ownerOf_eq, ← keyStatus_eq, ho] at this
      exact this.symm
    have he := inList_expected _ hwf (hg x) hin
    unfold expectedObj
    rw [ho, hu]
    simp [he]
  · intro hx
    unfold expectedObj at hx
    simp only [Bool.and_eq_true, beq_iff_eq] at hx
    obtain ⟨ho, he⟩ := hx
    exact hcomp x ((hkn x).mpr ho) (expected_inList _ hwf _ he).2

/-- The token-aware policy's OWN list (`t.hosts`: the hosts of the token ring and of every replica table it computes),
for EVERY operation history over ANY host objects: no two entries share an address, and the list holds exactly the
object that stands for each address by the history - the first one `AddHost` put there since `RemoveHost` of any object
with that address last freed it (`taOwnerOf`; `HostUp` / `HostDown` do not touch it). -/
theorem C11_identity_ta_hosts_by_history (k : Kind) (ldc lrack : Nat) (sh nl ps : Bool) (sess : Option Nat) (ops : List TAOp) :
    let t := ops.foldl TA.apply (TA.new (Pol.new k ldc lrack) sh nl ps sess)
    AddrNodup t.hosts ∧ ∀ x, x ∈ t.hosts ↔ taOwnerOf (evsOf ops) x.addr = some x := by
  intro t
  exact taOwner_run ops (TA.new (Pol.new k ldc lrack) sh nl ps sess) (fun _ => none)
    (by simp [TA.new, AddrNodup]) (fun _ _ h => by cases h) (fun x => by simp [TA.new])

example :
    let ops := [TAOp.add ⟨1, 10, 0, 0, [100]⟩, .add ⟨2, 10, 1, 0, [200]⟩, .add ⟨3, 11, 0, 0, [300]⟩, .remove ⟨2, 10, 1, 0, [200]⟩]
    let t := ops.foldl TA.apply (TA.new (Pol.new .dc 0 0) false true true)
    -- the sibling in the other tier (object 2, remote DC) shares address 10: the own list refused it, its RemoveHost
    -- takes object 1 out of the own list (and out of the ring), while the fallback's LOCAL list still holds object 1
    t.hosts = [⟨3, 11, 0, 0, [300]⟩] ∧ t.pol.l0 = [⟨1, 10, 0, 0, [100]⟩, ⟨3, 11, 0, 0, [300]⟩] ∧ t.pol.l1 = [] ∧
    taOwnerOf (evsOf ops) 10 = none := by
  decide

def cexN1 : Host := ⟨1, 10, 0, 0, []⟩   -- node 1, address 10 (port 9042)
def cexN2 : Host := ⟨2, 10, 0, 0, []⟩   -- node 2, the SAME address (port 9043)
def cexN3 : Host := ⟨3, 11, 0, 0, []⟩   -- node 3, its own address

/-- non-vacuity of the per-key theorems on that cluster: after AddHost 1, 2, 3 the objects 1 and 3 stand for their keys
and are expected; object 2 does not stand for a key -/
example :
    let evs := evsOf [TAOp.add cexN1, .add cexN2, .add cexN3]
    let key := (Pol.new .rr 0 0).key
    expectedObj key evs (fun _ => true) cexN1 = true ∧ expectedObj key evs (fun _ => true) cexN2 = false ∧
    expectedObj key evs (fun _ => true) cexN3 = true ∧ (keyStatus key evs (key cexN2)).ghost = false := by
  decide

/-- COUNTEREXAMPLE to the full property, finding KF-C11-7 (kernel-checked): two nodes behind one connect address.
After AddHost of nodes 1, 2, 3 node 2 is known and up by the history, but no pick offers it (the list refused it);
after HostDown(2) - node 2 goes down - node 1, which no call reported down, is not offered any more. -/
theorem C11_cex_same_address_sibling :
    let t0 := TA.new (Pol.new .rr 0 0) false false false
    let ops1 := [TAOp.add cexN1, .add cexN2, .add cexN3]
    let ops2 := ops1 ++ [.hostDown cexN2]
    (statusOf (evsOf ops1) cexN2).expected true = true ∧
    (ops1.foldl TA.apply t0).pickSeq (fun _ => true) id none = .seq [cexN1, cexN3] ∧
    (statusOf (evsOf ops2) cexN1).expected true = true ∧
    (ops2.foldl TA.apply t0).pickSeq (fun _ => true) id none = .seq [cexN3] := by
  decide

end C11
