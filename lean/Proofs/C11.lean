import Model.Policies
import Proofs.C11Cow
import Proofs.C11RR
import Proofs.C11Pol
import Proofs.C11TA
/-! # C11 — host selection offers each live node once, nearest and replicas first (property theorems)

Model: `Model/Policies.lean` (cowHostList, roundRobbin, roundRobinHostPolicy / dcAwareRR / rackAwareRR,
tokenAwareHostPolicy.Pick). A `Host` value is one `*HostInfo` object; `up : Nat → Bool` is the (mutable,
lazily read) state of the objects, arbitrary but fixed during one drain of an iterator. -/
namespace C11
open Policies

/-! ## copy-on-write list -/

/-- `cowHostList.add` / `remove` keep "no two entries with one address" (hence no host object twice);
add inserts exactly the new host if no entry has its address; remove leaves exactly the others. -/
theorem C11_cow_ops (l : List Host) (hl : AddrNodup l) (h : Host) (ip : Nat) :
    AddrNodup (cowAdd l h).1 ∧ AddrNodup (cowRemove l ip).1 ∧
    (∀ x, x ∈ (cowAdd l h).1 ↔ x ∈ l ∨ (x = h ∧ ∀ y ∈ l, y.addr ≠ h.addr)) ∧
    (∀ x, x ∈ (cowRemove l ip).1 ↔ x ∈ l ∧ x.addr ≠ ip) :=
  ⟨cowAdd_inv l h hl, cowRemove_inv l ip hl, mem_cowAdd l h, mem_cowRemove l ip⟩

example : (cowAdd [⟨1, 1, 0, 0, []⟩] ⟨2, 1, 0, 0, []⟩).2 = false ∧ (cowAdd [⟨1, 1, 0, 0, []⟩] ⟨2, 2, 0, 0, []⟩).1.length = 2 := by decide

/-! ## the roundRobbin iterator -/

/-- For every shift and every list of layers the offered sequence is, layer by layer, the rotation by
`shift+1` of the layer with the down hosts dropped; hence a permutation of the up hosts of all layers
(finite, only up hosts, every up host), without duplicates if the layers have none. -/
theorem C11_rr_perm (up : Nat → Bool) (shift : Nat) (layers : List (List Host)) :
    rrSeq up shift layers = (layers.map (fun l => (rot (shift + 1) l).filter (fun h => up h.id))).flatten ∧
    (∀ l, (rot (shift + 1) l).Perm l) ∧
    (rrSeq up shift layers).Perm (layers.flatten.filter (fun h => up h.id)) ∧
    (∀ h, h ∈ rrSeq up shift layers ↔ (∃ l ∈ layers, h ∈ l) ∧ up h.id = true) ∧
    (layers.flatten.Nodup → (rrSeq up shift layers).Nodup) := by
  refine ⟨?_, fun l => rot_perm _ l, rrSeq_perm up shift layers, mem_rrSeq up shift layers, rrSeq_nodup up shift layers⟩
  unfold rrSeq
  congr 1
  apply List.map_congr_left
  intro l _
  rw [layerSeq_eq_rot]

example : rrSeq (fun id => id != 2) 4 [[⟨1, 1, 0, 0, []⟩, ⟨2, 2, 0, 0, []⟩, ⟨3, 3, 0, 0, []⟩], [⟨4, 4, 1, 0, []⟩]]
    = [⟨3, 3, 0, 0, []⟩, ⟨1, 1, 0, 0, []⟩, ⟨4, 4, 1, 0, []⟩] := by decide

/-- Successive picks rotate the start: the policy's counter advances by one per `Pick`, and the order in
which a layer is visited by the next pick is the previous order rotated by one. -/
theorem C11_rr_rotates (p : Pol) (up : Nat → Bool) (l : List Host) :
    (p.pick up).1.ctr = p.ctr + 1 ∧
    layerSeq ((p.pick up).1.ctr + 1) l = rot 1 (layerSeq (p.ctr + 1) l) :=
  ⟨rfl, layerSeq_succ (p.ctr + 1) l⟩

/-! ## the three round-robin based policies, all reachable states -/

inductive Op
  | add (h : Host)       -- AddHost / HostUp
  | remove (h : Host)    -- RemoveHost / HostDown
  | pick (up : Nat → Bool)

def Pol.apply (p : Pol) : Op → Pol
  | .add h => p.add h
  | .remove h => p.remove h
  | .pick up => (p.pick up).1

theorem Inv_run (p : Pol) (hp : Inv p) (ops : List Op) : Inv (ops.foldl Pol.apply p) := by
  induction ops generalizing p with
  | nil => exact hp
  | cons o r ih =>
    apply ih
    cases o with
    | add h => exact Inv_add p hp h
    | remove h => exact Inv_remove p hp h
    | pick up => exact Inv_pick p hp up

/-- For every policy kind and configuration, after ANY sequence of AddHost/RemoveHost/HostUp/HostDown/Pick,
and for any up/down state of the host objects, the sequence offered by the next `Pick`
has no host twice, offers only up hosts, offers every up host the policy knows, and is ordered by tier
(local before remote; local rack, local DC, remote DC). -/
theorem C11_policy_all_states (k : Kind) (ldc lrack : Nat) (ops : List Op) (up : Nat → Bool) :
    let p := ops.foldl Pol.apply (Pol.new k ldc lrack)
    (p.pickSeq up).Nodup ∧
    (∀ h ∈ p.pickSeq up, up h.id = true) ∧
    (∀ h, known p h → up h.id = true → h ∈ p.pickSeq up) ∧
    (p.pickSeq up).Pairwise (fun a b => p.tier a ≤ p.tier b) := by
  intro p
  have hp : Inv p := Inv_run _ (Inv_new k ldc lrack) ops
  refine ⟨pickSeq_nodup p hp up, ?_, ?_, pickSeq_sorted p hp up⟩
  · intro h hh; exact ((mem_pickSeq p hp up h).mp hh).2
  · intro h hk hu; exact (mem_pickSeq p hp up h).mpr ⟨hk, hu⟩

example : ([Op.add ⟨1, 1, 0, 0, []⟩, Op.add ⟨2, 2, 1, 0, []⟩, Op.add ⟨3, 3, 0, 1, []⟩].foldl Pol.apply (Pol.new .rack 0 0)).pickSeq (fun _ => true)
    = [⟨1, 1, 0, 0, []⟩, ⟨3, 3, 0, 1, []⟩, ⟨2, 2, 1, 0, []⟩] := by decide

/-! ## token-aware policy -/

def cexA' : Host := ⟨1, 1, 0, 0, [10]⟩
def cexB' : Host := ⟨2, 2, 0, 1, [20]⟩
def cexC' : Host := ⟨3, 3, 0, 1, [30]⟩
def cexD' : Host := ⟨4, 4, 1, 0, [40]⟩

inductive TAOp
  | add (h : Host) | remove (h : Host) | hostUp (h : Host) | hostDown (h : Host)
  | setReplicas (ks : Nat) (tab : List (Nat × List Host))
  | pick (up : Nat → Bool) (σ : List Host → List Host) (rk : Option (Nat × Nat)) (limit : Nat)

def TA.apply (t : TA) : TAOp → TA
  | .add h => t.add h
  | .remove h => t.remove h
  | .hostUp h => t.hostUp h
  | .hostDown h => t.hostDown h
  | .setReplicas ks tab => t.setReplicas ks tab
  | .pick up σ rk limit => (t.pick up σ rk limit).1

theorem pick_pol (t : TA) (up : Nat → Bool) (σ : List Host → List Host) (rk : Option (Nat × Nat)) (limit : Nat) :
    (t.pick up σ rk limit).1.pol = t.pol ∨ (t.pick up σ rk limit).1.pol = (t.pol.pick up).1 := by
  unfold TA.pick
  simp only
  repeat' split
  all_goals first | exact Or.inl rfl | exact Or.inr rfl

theorem TAInv_run (t : TA) (hp : Inv t.pol) (ops : List TAOp) : Inv (ops.foldl TA.apply t).pol := by
  induction ops generalizing t with
  | nil => exact hp
  | cons o r ih =>
    apply ih
    cases o with
    | add h => exact Inv_add _ hp h
    | remove h => exact Inv_remove _ hp h
    | hostUp h => exact Inv_add _ hp h
    | hostDown h => exact Inv_remove _ hp h
    | setReplicas ks tab => exact hp
    | pick up σ rk limit =>
      show Inv (t.pick up σ rk limit).1.pol
      rcases pick_pol t up σ rk limit with e | e <;> rw [e]
      · exact hp
      · exact Inv_pick _ hp up

/-- a state used in the non-vacuity examples: rack-aware fallback, non-local fallback, replicas a (local rack, down below), c (local DC) -/
def cexTAok : TA :=
  [TAOp.add cexA', .add cexB', .add cexC', .add cexD', .setReplicas 0 [(100, [cexA', cexC'])]].foldl TA.apply
    (TA.new (Pol.new .rack 0 0) false true true)

/-- Token-aware generator, for every tier function, option, up/down state, fallback sequence and every
replica list WITHOUT duplicates: the offered sequence has no host twice, offers only up hosts (if the
fallback does), offers every host of the fallback sequence; it starts with the up replicas of tier 0 in
replica-list order (primary first), and what follows the replica phases is a subsequence of the
fallback's order. -/
theorem C11_tokenaware_complete_unique (tier : Host → Nat) (maxTier : Nat) (up : Nat → Bool) (nonlocal : Bool)
    (replicas fallback : List Host) (hn : replicas.Nodup) :
    (taSeq tier maxTier up nonlocal replicas fallback).Nodup ∧
    ((∀ x ∈ fallback, up x.id = true) → ∀ x ∈ taSeq tier maxTier up nonlocal replicas fallback, up x.id = true) ∧
    (∀ x ∈ fallback, x ∈ taSeq tier maxTier up nonlocal replicas fallback) ∧
    (∃ rest, taSeq tier maxTier up nonlocal replicas fallback =
        replicas.filter (fun h => tier h == 0 && up h.id) ++ rest) ∧
    (∃ rest, taSeq tier maxTier up nonlocal replicas fallback = taHead tier maxTier up nonlocal replicas ++ rest ∧
        rest.Sublist fallback ∧ (∀ x ∈ taHead tier maxTier up nonlocal replicas, x ∈ replicas)) := by
  refine ⟨taSeq_nodup _ _ _ _ _ _ hn, fun hfb x hx => taSeq_up _ _ _ _ _ _ hfb x hx,
    fun x hx => mem_taSeq_of_fallback _ _ _ _ _ _ x hx, ?_, ?_⟩
  · unfold taSeq taHead localReplicas
    simp only [List.append_assoc]
    exact ⟨_, rfl⟩
  · exact ⟨_, rfl, minusUsed_sublist _ _, fun x hx => (mem_taHead _ _ _ _ _ x hx).1⟩

/-- the same with shuffling: the shuffled replica list is a permutation, so the up tier-0 replicas still
come first, in some order -/
theorem C11_tokenaware_shuffle (tier : Host → Nat) (maxTier : Nat) (up : Nat → Bool) (nonlocal : Bool)
    (σ : List Host → List Host) (hσ : ∀ l, (σ l).Perm l) (replicas fallback : List Host) (hn : replicas.Nodup) :
    (taSeq tier maxTier up nonlocal (σ replicas) fallback).Nodup ∧
    ∃ pre rest, taSeq tier maxTier up nonlocal (σ replicas) fallback = pre ++ rest ∧
      pre.Perm (replicas.filter (fun h => tier h == 0 && up h.id)) := by
  have hn' : (σ replicas).Nodup := (hσ replicas).nodup_iff.mpr hn
  obtain ⟨h1, _, _, ⟨rest, h4⟩, _⟩ := C11_tokenaware_complete_unique tier maxTier up nonlocal (σ replicas) fallback hn'
  exact ⟨h1, _, rest, h4, (hσ replicas).filter _⟩

/-- The token-aware policy in every reachable state (any history of AddHost / RemoveHost / HostUp /
HostDown / replica-table updates / picks), for any up/down state, any query: if the replica lists of
the installed tables have no duplicates and the shuffle permutes, the drained iterator offers no host
twice, only up hosts, and every up host the fallback policy knows. -/
theorem C11_tokenaware_all_states (k : Kind) (ldc lrack : Nat) (sh nl ps : Bool) (ops : List TAOp)
    (up : Nat → Bool) (σ : List Host → List Host) (hσ : ∀ l, (σ l).Perm l) (rk : Option (Nat × Nat)) :
    let t := ops.foldl TA.apply (TA.new (Pol.new k ldc lrack) sh nl ps)
    (∀ e ∈ t.replicas, ∀ f ∈ e.2, f.2.Nodup) →
    ∀ l, t.pickSeq up σ rk = .seq l →
      l.Nodup ∧ (∀ h ∈ l, up h.id = true) ∧ (∀ h, known t.pol h → up h.id = true → h ∈ l) := by
  intro t hrep l hl
  have hp : Inv t.pol := TAInv_run _ (Inv_new k ldc lrack) ops
  have plain : l = t.pol.pickSeq up →
      l.Nodup ∧ (∀ h ∈ l, up h.id = true) ∧ (∀ h, known t.pol h → up h.id = true → h ∈ l) := by
    intro e; subst e
    exact ⟨pickSeq_nodup _ hp up, fun h hh => ((mem_pickSeq _ hp up h).mp hh).2,
      fun h hk hu => (mem_pickSeq _ hp up h).mpr ⟨hk, hu⟩⟩
  unfold TA.pickSeq at hl
  split at hl
  · exact plain (by injection hl with e; exact e.symm)
  · rename_i ks tok
    split at hl
    · exact plain (by injection hl with e; exact e.symm)
    · split at hl
      · exact plain (by injection hl with e; exact e.symm)
      · cases hl
    · rename_i reps ft hr
      injection hl with e
      subst e
      -- the replica list has no duplicates
      have hreps : reps.Nodup := by
        unfold TA.replicasFor at hr
        split at hr
        · cases hr
        · split at hr
          · rename_i l' hl'
            injection hr with e1 e2
            subst e1
            rw [Option.bind_eq_some_iff] at hl'
            obtain ⟨e, he, hlk⟩ := hl'
            have hmem := List.mem_of_find?_eq_some he
            unfold lookupTok at hlk
            split at hlk
            · rename_i f hf
              injection hlk with e'
              rw [← e']
              exact hrep e hmem f (List.mem_of_find?_eq_some hf)
            · rw [Option.map_eq_some_iff] at hlk
              obtain ⟨f, hf, e'⟩ := hlk
              rw [← e']
              exact hrep e hmem f (List.mem_of_head? hf)
          · split at hr
            · injection hr with e1 e2
              subst e1
              exact List.nodup_cons.mpr ⟨by simp, List.nodup_nil⟩
            · cases hr
      have hreps' : (if (ft && t.shuffle) = true then σ reps else reps).Nodup := by
        split
        · exact (hσ reps).nodup_iff.mpr hreps
        · exact hreps
      refine ⟨taSeq_nodup _ _ _ _ _ _ hreps', ?_, ?_⟩
      · exact fun h hh => taSeq_up _ _ _ _ _ _ (fun x hx => ((mem_pickSeq _ hp up x).mp hx).2) h hh
      · exact fun h hk hu => mem_taSeq_of_fallback _ _ _ _ _ _ h ((mem_pickSeq _ hp up h).mpr ⟨hk, hu⟩)

/-- `Pick` followed by `limit` calls of the iterator offers the first `limit` hosts of the full sequence
(ties the limited pick of the model driver to the sequences the theorems are about) -/
theorem C11_pick_take (t : TA) (up : Nat → Bool) (σ : List Host → List Host) (rk : Option (Nat × Nat)) (limit : Nat) :
    (t.pick up σ rk limit).2 = match t.pickSeq up σ rk with
      | .seq l => .seq (l.take limit)
      | .crash => if limit = 0 then .seq [] else .crash := by
  unfold TA.pick TA.pickSeq
  simp only
  split
  · rfl
  · split
    · rfl
    · split <;> split <;> simp_all [Pol.pick]
    · simp only
      generalize (if (_ && t.shuffle) = true then σ _ else _) = reps
      split
      · rename_i h
        simp only [taSeq]
        rw [List.take_append_of_le_length h]
      · rfl

example : (cexTAok.pickSeq (fun id => id != 1) id (some (0, 50))) = .seq [cexC', cexB', cexD'] := by decide

/-! ### order of the remote replicas (non-local fallback) — known defect D4

Full statement (FAILS for the unchanged code): with NonLocalReplicasFallback, after the up replicas of
tier 0 come the up replicas of tier 1, then tier 2, …, then the remaining hosts:
  `taHead tier m up true reps = ((List.range (m+1)).map (fun t => reps.filter (tier · == t && up ·.id))).flatten`.
The j/k walk stops at the first EMPTY bucket (`k < len(remote[j])` is false), so replicas of farther
tiers are not offered in the replica phase when a nearer tier has no replica. -/

/-- holds when no bucket is empty before a non-empty one -/
theorem C11_tokenaware_remote_order_partial (tier : Host → Nat) (m : Nat) (up : Nat → Bool) (reps : List Host)
    (hg : NoGap (remoteBuckets tier m reps)) :
    taHead tier m up true reps =
      ((List.range (m + 1)).map (fun t => reps.filter (fun h => tier h == t && up h.id))).flatten :=
  taHead_by_tier tier m up reps hg

def cexA : Host := ⟨1, 1, 0, 0, []⟩   -- local rack
def cexB : Host := ⟨2, 2, 0, 1, []⟩   -- local DC, other rack
def cexC : Host := ⟨3, 3, 1, 0, []⟩   -- remote DC, replica
def cexD : Host := ⟨4, 4, 1, 0, []⟩   -- remote DC
def cexTA : TA :=
  [TAOp.add cexA, .add cexB, .add cexC, .add cexD, .setReplicas 0 [(100, [cexA, cexC])]].foldl TA.apply
    (TA.new (Pol.new .rack 0 0) false true true)

/-- counterexample (kernel-checked): rack-aware fallback + NonLocalReplicasFallback, replicas [a (local
rack), c (remote DC)], no replica in tier 1: the remote replica c is offered AFTER the non-replica b
(observed a, b, c, d — expected a, c, b, d). -/
theorem C11_cex_remote_order :
    cexTA.pickSeq (fun _ => true) id (some (0, 50)) = .seq [cexA, cexB, cexC, cexD] ∧
    taHead cexTA.pol.tier cexTA.pol.maxTier (fun _ => true) true [cexA, cexC] = [cexA] ∧
    ((List.range 3).map (fun t => [cexA, cexC].filter (fun h => cexTA.pol.tier h == t && true))).flatten = [cexA, cexC] := by
  decide

/-- A duplicate in the replica list (the C10 defect D1 produces such lists) is offered twice. -/
theorem C11_dup_if_replicas_dup (tier : Host → Nat) (m : Nat) (up : Nat → Bool) (nl : Bool) (a : Host) (fb : List Host)
    (ht : tier a = 0) (hu : up a.id = true) : ¬ (taSeq tier m up nl [a, a] fb).Nodup := by
  unfold taSeq taHead localReplicas
  simp [ht, hu]

/-! ### no panic — new finding: `replicas = [nil]`

Full statement (FAILS): draining the iterator never panics. When the partitioner is set but the token ring
is empty (no host with tokens in the policy's list) and the query's keyspace has no replica table,
`GetHostForToken` returns a nil host, `replicas = []*HostInfo{nil}`, and `HostTier(nil)` / `IsLocal(nil)`
of the rack-aware or dc-aware fallback dereference it. -/

theorem C11_tokenaware_no_crash_partial (t : TA) (up : Nat → Bool) (σ : List Host → List Host) (rk : Option (Nat × Nat))
    (h : t.pol.kind = .rr ∨ ∀ ks tok, t.replicasFor ks tok ≠ .nilHost) : t.pickSeq up σ rk ≠ .crash := by
  unfold TA.pickSeq
  split
  · simp
  · rename_i ks tok
    split
    · simp
    · rename_i hr
      rcases h with h | h
      · simp [h]
      · exact absurd hr (h ks tok)
    · simp

/-- counterexample (kernel-checked): dc-aware fallback, partitioner set, no host with tokens, routing key given -/
theorem C11_cex_nil_replica :
    (TA.new (Pol.new .dc 0 0) false false true).pickSeq (fun _ => true) id (some (0, 5)) = .crash := by
  decide

end C11
