import Gen.Uuid
import Model.Uuid
/-!
  Tie theorems between the UUID accessors REGENERATED from /repo/uuid.go by tools/go2lean (`Gen.Uuid`) and the
  hand-written model the C19 theorems are about (`Uuid`).
-/
namespace GenTie.C19

theorem getD_map (l : List UInt8) (i : Nat) :
    (l.map (·.toBitVec)).getD i 0#8 = (Uuid.byteAt l i).toBitVec := by
  simp [Uuid.byteAt, List.getD_eq_getElem?_getD, List.getElem?_map]

/-- `Version()` -/
theorem version (u : List UInt8) : (Gen.Uuid.UUID_Version (u.map (·.toBitVec))).toNat = Uuid.version u := by
  simp only [Gen.Uuid.UUID_Version, Uuid.version, getD_map]
  generalize Uuid.byteAt u 6 = b
  rw [BitVec.toNat_setWidth, ← UInt8.toNat_toBitVec]
  have : ((b &&& 240) >>> 4).toBitVec = (b.toBitVec &&& 240#8) >>> 4 := by
    simp [UInt8.toBitVec_shiftRight, UInt8.toBitVec_and]
  rw [this]
  exact Nat.mod_eq_of_lt (by omega)

theorem and_eq_zero (b m : UInt8) : ((b.toBitVec &&& m.toBitVec) == 0#8) = decide (b &&& m = 0) := by
  rw [← UInt8.toBitVec_and]
  by_cases h : b &&& m = 0
  · simp [h]
  · simp [h]
    intro h'
    exact h (UInt8.toBitVec_inj.mp (by simpa using h'))

/-- `Variant()` -/
theorem variant (u : List UInt8) : (Gen.Uuid.UUID_Variant (u.map (·.toBitVec))).toNat = Uuid.variant u := by
  simp only [Gen.Uuid.UUID_Variant, Uuid.variant, getD_map]
  generalize Uuid.byteAt u 8 = b
  have h80 := and_eq_zero b 0x80
  have h40 := and_eq_zero b 0x40
  have h20 := and_eq_zero b 0x20
  simp only [show (0x80 : UInt8).toBitVec = 0x80#8 from rfl, show (0x40 : UInt8).toBitVec = 0x40#8 from rfl,
    show (0x20 : UInt8).toBitVec = 0x20#8 from rfl] at h80 h40 h20
  rw [h80, h40, h20]
  by_cases a : b &&& 0x80 = 0 <;> by_cases c : b &&& 0x40 = 0 <;> by_cases d : b &&& 0x20 = 0 <;> simp [a, c, d]

theorem version_ne (u : List UInt8) :
    (Gen.Uuid.UUID_Version (u.map (·.toBitVec)) != 0x1#64) = decide (Uuid.version u ≠ 1) := by
  rw [← version u]
  by_cases h : Gen.Uuid.UUID_Version (u.map (·.toBitVec)) = 0x1#64
  · simp [h]
  · have h' : ¬ (Gen.Uuid.UUID_Version (u.map (·.toBitVec))).toNat = 1 :=
      fun h' => h (BitVec.eq_of_toNat_eq (by simpa using h'))
    simp [h, h']

/-- `Clock()` -/
theorem clock (u : List UInt8) : (Gen.Uuid.UUID_Clock (u.map (·.toBitVec))).toNat = Uuid.clock u := by
  simp only [Gen.Uuid.UUID_Clock, Uuid.clock, version_ne, getD_map]
  by_cases h : Uuid.version u ≠ 1
  · simp [h]
  · simp only [h, decide_false, Bool.false_eq_true, if_false]
    generalize Uuid.byteAt u 8 = b8
    generalize Uuid.byteAt u 9 = b9
    have e : (b8 &&& 0x3F).toNat = (b8.toBitVec &&& 0x3f#8).toNat := by
      rw [← UInt8.toNat_toBitVec, UInt8.toBitVec_and]; rfl
    rw [e]
    simp only [BitVec.toNat_or, BitVec.toNat_shiftLeft, BitVec.toNat_setWidth, UInt8.toNat_toBitVec]
    have h1 : (b8.toBitVec &&& 0x3f#8).toNat < 256 := by omega
    have h2 : b9.toNat < 256 := UInt8.toNat_lt b9
    rw [Nat.mod_eq_of_lt (by omega : (b8.toBitVec &&& 0x3f#8).toNat < 2^32), Nat.mod_eq_of_lt (by omega : b9.toNat < 2^32)]
    rw [Nat.mod_eq_of_lt]
    rw [Nat.shiftLeft_eq]; omega

/-- `Node()` (nil and empty are not distinguished by the translation) -/
theorem node (u : List UInt8) :
    Gen.Uuid.UUID_Node (u.map (·.toBitVec)) = ((Uuid.node u).getD []).map (·.toBitVec) := by
  simp only [Gen.Uuid.UUID_Node, Uuid.node, version_ne]
  by_cases h : Uuid.version u ≠ 1 <;> simp [h, List.map_drop]

private theorem shl_byte (b : UInt8) (k : Nat) (hk : k ≤ 56) :
    (b.toNat % 2^64) <<< k % 2^64 = b.toNat <<< k ∧ b.toNat <<< k < 2^(k+8) := by
  have hb : b.toNat < 2^8 := UInt8.toNat_lt b
  have h1 : b.toNat <<< k < 2^(k+8) := by
    rw [Nat.shiftLeft_eq, Nat.pow_add, Nat.mul_comm]
    exact Nat.mul_lt_mul_of_pos_left hb (Nat.two_pow_pos k)
  have h2 : (2:Nat)^(k+8) ≤ 2^64 := Nat.pow_le_pow_right (by decide) (by omega)
  rw [Nat.mod_eq_of_lt (by omega : b.toNat < 2^64), Nat.mod_eq_of_lt (by omega)]
  exact ⟨rfl, h1⟩

/-- `Timestamp()` -/
theorem timestamp (u : List UInt8) :
    (Gen.Uuid.UUID_Timestamp (u.map (·.toBitVec))).toNat = Uuid.timestamp u := by
  simp only [Gen.Uuid.UUID_Timestamp, Uuid.timestamp, version_ne, getD_map]
  by_cases h : Uuid.version u ≠ 1
  · simp [h]
  · simp only [h, decide_false, Bool.false_eq_true, if_false]
    generalize Uuid.byteAt u 0 = b0; generalize Uuid.byteAt u 1 = b1; generalize Uuid.byteAt u 2 = b2
    generalize Uuid.byteAt u 3 = b3; generalize Uuid.byteAt u 4 = b4; generalize Uuid.byteAt u 5 = b5
    generalize Uuid.byteAt u 6 = b6; generalize Uuid.byteAt u 7 = b7
    have e6 : (b6.toBitVec &&& 0xf#8) = (b6 &&& 0x0F).toBitVec := by rw [UInt8.toBitVec_and]; rfl
    rw [e6]
    have hc : (b6 &&& 0x0F).toNat ≤ 15 := by rw [UInt8.toNat_and]; exact Nat.and_le_right
    generalize (b6 &&& 0x0F) = c6 at hc ⊢
    simp only [BitVec.toNat_add, BitVec.toNat_or, BitVec.toNat_shiftLeft, BitVec.toNat_setWidth, UInt8.toNat_toBitVec]
    obtain ⟨a0, l0⟩ := shl_byte b0 24 (by decide); obtain ⟨a1, l1⟩ := shl_byte b1 16 (by decide)
    obtain ⟨a2, l2⟩ := shl_byte b2 8 (by decide); obtain ⟨a4, l4⟩ := shl_byte b4 40 (by decide)
    obtain ⟨a5, l5⟩ := shl_byte b5 32 (by decide); obtain ⟨a6, l6⟩ := shl_byte c6 56 (by decide)
    obtain ⟨a7, l7⟩ := shl_byte b7 48 (by decide)
    rw [a0, a1, a2, a4, a5, a6, a7, Nat.mod_eq_of_lt (by have := UInt8.toNat_lt b3; omega : b3.toNat < 2^64)]
    have hA : b0.toNat <<< 24 ||| b1.toNat <<< 16 ||| b2.toNat <<< 8 ||| b3.toNat < 2^32 := by
      have := UInt8.toNat_lt b3
      exact Nat.or_lt_two_pow (Nat.or_lt_two_pow (Nat.or_lt_two_pow l0 (by omega)) (by omega)) (by omega)
    have hB : b4.toNat <<< 40 ||| b5.toNat <<< 32 < 2^48 := Nat.or_lt_two_pow l4 (by omega)
    have l6' : c6.toNat <<< 56 < 2^60 := by rw [Nat.shiftLeft_eq]; omega
    have hC : c6.toNat <<< 56 ||| b7.toNat <<< 48 < 2^60 := Nat.or_lt_two_pow l6' (by omega)
    omega


/-! ### Construction: `TimeUUIDWith` (tuple stores into the array, `copy(u[10:], node)`, version / variant bits) -/

theorem sshr_low (t : BitVec 64) (k : Nat) (hk : k ≤ 56) :
    UInt8.ofBitVec ((BitVec.sshiftRight t k).setWidth 8) = Uuid.tbyte t.toNat k := by
  unfold Uuid.tbyte
  apply UInt8.toBitVec_inj.mp
  apply BitVec.eq_of_getLsbD_eq
  intro i hi
  simp only [BitVec.getLsbD_setWidth, BitVec.getLsbD_sshiftRight]
  have h1 : ¬ (64 ≤ i) := by omega
  have h2 : k + i < 64 := by omega
  simp [hi, h1, h2, BitVec.getLsbD]
  rw [show (256:Nat) = 2^8 from rfl, Nat.testBit_mod_two_pow, Nat.testBit_shiftRight]
  simp [hi]

theorem low_byte (t : BitVec 64) : UInt8.ofBitVec (t.setWidth 8) = Uuid.tbyte t.toNat 0 := by
  have := sshr_low t 0 (by omega)
  simpa using this

theorem clk_hi (c : BitVec 32) : UInt8.ofBitVec ((c >>> 8).setWidth 8) = UInt8.ofNat (c.toNat >>> 8) := by
  apply UInt8.toBitVec_inj.mp
  apply BitVec.eq_of_toNat_eq
  simp [BitVec.toNat_ushiftRight]

theorem clk_lo (c : BitVec 32) : UInt8.ofBitVec (c.setWidth 8) = UInt8.ofNat c.toNat := by
  apply UInt8.toBitVec_inj.mp
  apply BitVec.eq_of_toNat_eq
  simp



/-- `TimeUUIDWith(t, clock, node)` as re-translated from uuid.go (the sixteen stores, `copy(u[10:], node)`, version and
    variant bits) is the model's `timeUUIDWith` on the bit patterns, for every t, clock and node slice -/
theorem timeUUIDWith (t : BitVec 64) (c : BitVec 32) (nd : List UInt8) :
    (Gen.Uuid.TimeUUIDWith t c (nd.map (·.toBitVec))).map UInt8.ofBitVec = Uuid.timeUUIDWith t.toNat c.toNat nd := by
  have e24 := sshr_low t 24 (by omega)
  have e16 := sshr_low t 16 (by omega)
  have e8 := sshr_low t 8 (by omega)
  have e0 := low_byte t
  have e40 := sshr_low t 40 (by omega)
  have e32 := sshr_low t 32 (by omega)
  have e56 := sshr_low t 56 (by omega)
  have e48 := sshr_low t 48 (by omega)
  have c8 := clk_hi c
  have c0 := clk_lo c
  unfold Gen.Uuid.TimeUUIDWith Uuid.timeUUIDWith Uuid.nodeBytes Gen.Uuid.goCopyAt
  match nd with
  | [] => simp [List.replicate, *]
  | [a] => simp [List.replicate, *]
  | [a, b] => simp [List.replicate, *]
  | [a, b, d] => simp [List.replicate, *]
  | [a, b, d, e] => simp [List.replicate, *]
  | [a, b, d, e, f] => simp [List.replicate, *]
  | a :: b :: d :: e :: f :: g :: r =>
    simp [List.replicate, *]

/-! ### `UUIDFromBytes` (the length test of the model's `unmarshalCQL` / `unmarshalCQLTime`: `data.length ≠ 16` is an error) -/

theorem len_ne' (n k : Nat) (h : n < 2^63) (hk : k < 2^63) : (BitVec.ofNat 64 n != BitVec.ofNat 64 k) = decide (n ≠ k) := by
  by_cases e : n = k
  · simp [e]
  · simp only [e, ne_eq, not_false_eq_true, decide_true, bne_iff_ne]
    intro h'
    have := congrArg BitVec.toNat h'
    simp at this; omega

/-- `UUIDFromBytes(input)`: an error unless exactly 16 bytes, else those bytes (`copy(u[:], input)` into the zero UUID) -/
theorem uuidFromBytes (b : List UInt8) (h : b.length < 2^63) :
    (let r := Gen.Uuid.UUIDFromBytes (b.map (·.toBitVec))
     if r.2 then none else some (r.1.map UInt8.ofBitVec)) = (if b.length = 16 then some b else none) := by
  unfold Gen.Uuid.UUIDFromBytes
  rw [List.length_map, show (0x10#64 : BitVec 64) = BitVec.ofNat 64 16 from rfl, len_ne' _ _ h (by decide)]
  by_cases e : b.length = 16
  · have hm : (b.map (·.toBitVec)).length = 16 := by simpa using e
    have back2 : ∀ s : List UInt8, List.map (UInt8.ofBitVec ∘ fun x => x.toBitVec) s = s := by
      intro s; induction s with
      | nil => rfl
      | cons a s ih => simp [ih]
    simp [e, Gen.Uuid.goCopyAt, hm, back2]
    exact List.take_of_length_le (by omega)
  · simp [e]

/-! ### `UUID.String` (array literal of offsets, constant hex table, range loop with computed store indices) against `Uuid.print` -/

theorem hex_hi : ∀ b : BitVec 8, Char.ofNat (([48#8, 49#8, 50#8, 51#8, 52#8, 53#8, 54#8, 55#8, 56#8, 57#8, 97#8, 98#8, 99#8, 100#8, 101#8,
    102#8] : List (BitVec 8))[b.toNat >>> 4]?.getD 0#8).toNat = Uuid.hexDigit (b.toNat / 16) := by decide
theorem hex_lo : ∀ b : BitVec 8, Char.ofNat (([48#8, 49#8, 50#8, 51#8, 52#8, 53#8, 54#8, 55#8, 56#8, 57#8, 97#8, 98#8, 99#8, 100#8, 101#8,
    102#8] : List (BitVec 8))[b.toNat &&& 15]?.getD 0#8).toNat = Uuid.hexDigit (b.toNat % 16) := by decide

/-- `UUID.String()` (the offsets table, the hex digits, the four hyphens) is the model's `Uuid.print`, every 16-byte UUID -/
theorem string (b0 b1 b2 b3 b4 b5 b6 b7 b8 b9 b10 b11 b12 b13 b14 b15 : BitVec 8) :
    (Gen.Uuid.UUID_String [b0, b1, b2, b3, b4, b5, b6, b7, b8, b9, b10, b11, b12, b13, b14, b15]).map (fun c => Char.ofNat c.toNat)
      = Uuid.print ([b0, b1, b2, b3, b4, b5, b6, b7, b8, b9, b10, b11, b12, b13, b14, b15].map UInt8.ofBitVec) := by
  simp [Gen.Uuid.UUID_String, Gen.Uuid.UUID_String_loop1, Uuid.print, Uuid.hexBytes, Uuid.hexByte]
  repeat' apply And.intro
  all_goals first | exact hex_hi _ | exact hex_lo _

end GenTie.C19
