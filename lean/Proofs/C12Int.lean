import Proofs.C12Bytes
/-!
# C12: integer columns (tinyint / smallint / int / bigint / counter) — every Go integer kind, named or not
-/
namespace C12Int
open ValueSpec Marshal C12Bytes

/-- the values that marshal.go accepts although they do not fit the column: an unsigned Go integer whose value
    lies in the upper half of the column's unsigned range (it is written as the two's complement bit pattern, D9).
    Not accepted (correctly refused): named unsigned kinds into `int`, named unsigned kinds and `uint` into `bigint`. -/
def wrapsAccepted (col : IntCol) (k : IntKind) (named : Bool) (v : Int) : Bool :=
  !k.signed && leB ((256:Int)^col.bytes) (2 * v) && ltB v ((256:Int)^col.bytes)
  && !((col == .int && named) || (col == .big && (named || k == .uint)))

/-- complete characterisation of marshalTinyInt/SmallInt/Int/BigInt on integer kinds: the bytes are always the
    column-width two's complement bytes of the value; the call succeeds iff the value fits or is wrapped -/
theorem marshalIntKind_char (col : IntCol) (k : IntKind) (named : Bool) (v : Int) (hv : k.holds v = true) :
    marshalIntKind col k named v =
      if fitsS col.bytes v = true ∨ wrapsAccepted col k named v = true then some (tcEnc col.bytes v) else none := by
  cases col <;> cases named <;> cases k <;> (
    simp [marshalIntKind, IntKind.holds, IntKind.signed, IntKind.bits, wrapsAccepted, fitsS, IntCol.bytes,
      leB_iff, ltB_iff, leB_false, ltB_false,
      encTiny_eq, encShort_eq, encInt_eq, encBigInt_eq, tcEnc_toS8, tcEnc_toS16, tcEnc_toS32, tcEnc_toS64] at hv ⊢
    first
      | omega
      | (split <;> (first | omega | rfl | (split <;> (first | rfl | omega | (exfalso; omega))))))

/-! ## decode direction -/

theorem decTiny_tcEnc (n : Int) (h : fitsS 1 n = true) : decTiny (tcEnc 1 n) = n := by
  simp [fitsS, leB_iff, ltB_iff] at h
  simp [decTiny, tcEnc, beBytes, byteOfNat, toS]
  omega

theorem decShort_tcEnc (n : Int) (h : fitsS 2 n = true) : decShort (tcEnc 2 n) = n := by
  simp [fitsS, leB_iff, ltB_iff] at h
  simp [decShort, tcEnc, beBytes, byteOfNat, toS]
  omega

theorem decInt_tcEnc (n : Int) (h : fitsS 4 n = true) : decInt (tcEnc 4 n) = n := by
  simp [fitsS, leB_iff, ltB_iff] at h
  simp [decInt, tcEnc, beBytes, byteOfNat, toS]
  omega

theorem decBigInt_tcEnc (n : Int) (h : fitsS 8 n = true) : decBigInt (tcEnc 8 n) = n := by
  simp [fitsS, leB_iff, ltB_iff] at h
  simp [decBigInt, tcEnc, beBytes, byteOfNat, toS]
  omega

def _root_.Marshal.IntSrc.bytes : IntSrc → Nat
  | .tiny => 1 | .small => 2 | .int => 4 | _ => 8

/-- unmarshalIntlike into an integer kind, for a column value `v` (int64 for varint): into a signed kind, or a
    non-negative value into any kind, the result is `v` exactly when the kind can hold it, an error otherwise -/
theorem unmarshalIntKind_char (src : IntSrc) (v : Int) (k : IntKind) (hv : fitsS src.bytes v = true)
    (hs : k.signed = true ∨ 0 ≤ v) :
    unmarshalIntKind src v k = if k.holds v = true then some v else none := by
  cases src <;> cases k <;> (
    simp [unmarshalIntKind, IntKind.holds, IntKind.signed, IntKind.bits, fitsS, Marshal.IntSrc.bytes, toU,
      leB_iff, ltB_iff, leB_false, ltB_false] at hv hs ⊢
    first
      | omega
      | (split <;> (first | omega | rfl | (congr 1; omega) | (split <;> (first | rfl | omega | (congr 1; omega) | (exfalso; omega))))))

end C12Int
