import Proofs.C16EventsBatch
/-! helper lemmas: status events as effects on the view; effects on different hosts commute -/
namespace C16
open Ring ClusterView

/-- what one coalesced status event does, given the ring (which status events never change) -/
inductive Eff | none | refresh | crash | fill (h : RHost) | mark (h : RHost) | takeDown (h : RHost)

def upEff (env : Env) : Option RHost × Bool → Eff
  | (_, false) => .refresh
  | (none, true) => .crash
  | (some h, true) => if env.filter h then .none else .fill h

def downEff (env : Env) : Option RHost × Bool → Eff
  | (_, false) => .none
  | (none, true) => .crash
  | (some h, true) => if env.filter h then .mark h else .takeDown h

def effectOf (env : Env) (r : Ring.Ring) (e : Nat × Change) : Eff :=
  match e.2 with
  | .other => .none
  | .up => upEff env (r.getHostByIP e.1)
  | .down => downEff env (r.getHostByIP e.1)

def Eff.host : Eff → Option RHost
  | .fill h => some h
  | .mark h => some h
  | .takeDown h => some h
  | _ => Option.none

def Eff.poolOp : Eff → POp
  | .fill h => .add h
  | .takeDown h => .rm h.id
  | _ => .id
def Eff.taOp (env : Env) : Eff → LOp
  | .fill h => if env.tokenAware then .add h else .id
  | _ => .id
def Eff.locOp (env : Env) : Eff → LOp
  | .fill h => if env.isLocal h then .add h else .id
  | .takeDown h => if env.isLocal h then .rm (cAddr h) else .id
  | _ => .id
def Eff.remOp (env : Env) : Eff → LOp
  | .fill h => if env.isLocal h then .id else .add h
  | .takeDown h => if env.isLocal h then .id else .rm (cAddr h)
  | _ => .id
def Eff.downOp : Eff → Option Nat
  | .mark h => some h.obj
  | .takeDown h => some h.obj
  | _ => Option.none
def Eff.req : Eff → Nat
  | .refresh => 1
  | _ => 0
def Eff.isCrash : Eff → Bool
  | .crash => true
  | _ => false

/-- the effect applied to a view, component by component -/
def applyEff (env : Env) (v : View) (f : Eff) : View :=
  { ring := v.ring
    pools := f.poolOp.app v.pools
    pol := ⟨(f.taOp env).app v.pol.ta, (f.locOp env).app v.pol.loc, (f.remOp env).app v.pol.rem⟩
    down := downApp f.downOp v.down
    refreshReq := v.refreshReq + f.req
    crashed := v.crashed || f.isCrash }

/-- a panic ends the handler: nothing is applied once crashed -/
def applyG (env : Env) (v : View) (f : Eff) : View := if v.crashed then v else applyEff env v f

theorem policy_add_eq (env : Env) (p : Policy) (h : RHost) :
    p.add env h = ⟨(Eff.taOp env (.fill h)).app p.ta, (Eff.locOp env (.fill h)).app p.loc, (Eff.remOp env (.fill h)).app p.rem⟩ := by
  simp only [Policy.add, Policy.fbAdd, Eff.taOp, Eff.locOp, Eff.remOp]
  cases env.tokenAware <;> cases env.isLocal h <;> simp [LOp.app]

theorem policy_dn_eq (env : Env) (p : Policy) (h : RHost) :
    p.dn env h = ⟨(Eff.taOp env (.takeDown h)).app p.ta, (Eff.locOp env (.takeDown h)).app p.loc, (Eff.remOp env (.takeDown h)).app p.rem⟩ := by
  simp only [Policy.dn, Policy.fbRemove, Eff.taOp, Eff.locOp, Eff.remOp]
  cases env.isLocal h <;> simp [LOp.app]

theorem applyEff_none (env : Env) (v : View) : applyEff env v .none = v := by
  cases v; simp [applyEff, Eff.poolOp, Eff.taOp, Eff.locOp, Eff.remOp, Eff.downOp, Eff.req, Eff.isCrash, POp.app, LOp.app, downApp]
theorem applyEff_refresh (env : Env) (v : View) : applyEff env v .refresh = { v with refreshReq := v.refreshReq + 1 } := by
  cases v; simp [applyEff, Eff.poolOp, Eff.taOp, Eff.locOp, Eff.remOp, Eff.downOp, Eff.req, Eff.isCrash, POp.app, LOp.app, downApp]
theorem applyEff_crash (env : Env) (v : View) : applyEff env v .crash = { v with crashed := true } := by
  cases v; simp [applyEff, Eff.poolOp, Eff.taOp, Eff.locOp, Eff.remOp, Eff.downOp, Eff.req, Eff.isCrash, POp.app, LOp.app, downApp]
theorem applyEff_fill (env : Env) (v : View) (h : RHost) : applyEff env v (.fill h) = v.startPoolFill env h := by
  cases v; simp [applyEff, View.startPoolFill, policy_add_eq, Eff.poolOp, Eff.downOp, Eff.req, Eff.isCrash, POp.app, downApp]
theorem applyEff_mark (env : Env) (v : View) (h : RHost) :
    applyEff env v (.mark h) = { v with down := h.obj :: v.down.filter (· != h.obj) } := by
  cases v; simp [applyEff, Eff.poolOp, Eff.taOp, Eff.locOp, Eff.remOp, Eff.downOp, Eff.req, Eff.isCrash, POp.app, LOp.app, downApp]
theorem applyEff_takeDown (env : Env) (v : View) (h : RHost) :
    applyEff env v (.takeDown h) =
      { v with down := h.obj :: v.down.filter (· != h.obj), pol := v.pol.dn env h, pools := erase v.pools h.id } := by
  cases v; simp [applyEff, policy_dn_eq, Eff.poolOp, Eff.downOp, Eff.req, Eff.isCrash, POp.app, downApp]

/-- `View.status` is the guarded application of the event's effect -/
theorem status_eq (env : Env) (v : View) (e : Nat × Change) :
    v.status env e = applyG env v (effectOf env v.ring e) := by
  unfold View.status applyG
  by_cases hc : v.crashed = true
  · simp [hc]
  · have hc' : v.crashed = false := by simpa using hc
    simp only [hc', Bool.false_eq_true, ↓reduceIte]
    obtain ⟨a, c⟩ := e
    cases c with
    | other => simp [effectOf, applyEff_none]
    | up =>
      simp only [effectOf, View.nodeUp]
      rcases hg : v.ring.getHostByIP a with ⟨x, ok⟩
      simp only [upEff]
      cases ok with
      | false => simp [applyEff_refresh]
      | true =>
        cases x with
        | none => simp [applyEff_crash]
        | some h =>
          by_cases hf : env.filter h = true
          · simp [hf, applyEff_none]
          · simp [hf, applyEff_fill]
    | down =>
      simp only [effectOf, View.nodeDown]
      rcases hg : v.ring.getHostByIP a with ⟨x, ok⟩
      simp only [downEff]
      cases ok with
      | false => simp [applyEff_none]
      | true =>
        cases x with
        | none => simp [applyEff_crash]
        | some h =>
          by_cases hf : env.filter h = true
          · simp [hf, applyEff_mark]
          · simp [hf, applyEff_takeDown]

theorem applyG_ring (env : Env) (v : View) (f : Eff) : (applyG env v f).ring = v.ring := by
  unfold applyG; split <;> rfl

theorem applyG_congr (env : Env) (f : Eff) {v w : View} (h : Same v w) : Same (applyG env v f) (applyG env w f) := by
  unfold applyG
  rw [← h.crashed]
  by_cases hc : v.crashed = true
  · simp only [hc, ↓reduceIte]; exact h
  · have hc' : v.crashed = false := by simpa using hc
    simp only [hc', Bool.false_eq_true, ↓reduceIte]
    exact ⟨h.ring, f.poolOp.congr h.pools, (f.taOp env).congr h.ta, (f.locOp env).congr h.loc, (f.remOp env).congr h.rem,
      fun x => by simp only [applyEff, mem_downApp]; rw [h.down x],
      by simp only [applyEff]; rw [h.req], by simp only [applyEff]; rw [h.crashed]⟩

/-- two effects are independent: neither is a panic and, when both act on a host, the hosts have
different ids and different connect addresses -/
def Indep (f g : Eff) : Prop :=
  f.isCrash = false ∧ g.isCrash = false ∧
  ∀ h1 h2, f.host = some h1 → g.host = some h2 → h1.id ≠ h2.id ∧ cAddr h1 ≠ cAddr h2

theorem Indep.symm {f g : Eff} (h : Indep f g) : Indep g f :=
  ⟨h.2.1, h.1, fun h1 h2 e1 e2 => ⟨fun e => (h.2.2 h2 h1 e2 e1).1 e.symm, fun e => (h.2.2 h2 h1 e2 e1).2 e.symm⟩⟩

theorem poolOp_key (f : Eff) (k : Nat) (hk : f.poolOp.key = some k) : ∃ h, f.host = some h ∧ k = h.id := by
  cases f <;> simp [Eff.poolOp, POp.key, Eff.host] at hk ⊢ <;> exact hk.symm

theorem taOp_key (env : Env) (f : Eff) (k : Nat) (hk : (f.taOp env).key = some k) : ∃ h, f.host = some h ∧ k = cAddr h := by
  cases f with
  | fill h =>
    simp only [Eff.taOp] at hk
    split at hk
    · simp only [LOp.key, Option.some.injEq] at hk; exact ⟨h, rfl, hk.symm⟩
    · simp [LOp.key] at hk
  | _ => simp [Eff.taOp, LOp.key] at hk

theorem locOp_key (env : Env) (f : Eff) (k : Nat) (hk : (f.locOp env).key = some k) : ∃ h, f.host = some h ∧ k = cAddr h := by
  cases f with
  | fill h =>
    simp only [Eff.locOp] at hk
    split at hk
    · simp only [LOp.key, Option.some.injEq] at hk; exact ⟨h, rfl, hk.symm⟩
    · simp [LOp.key] at hk
  | takeDown h =>
    simp only [Eff.locOp] at hk
    split at hk
    · simp only [LOp.key, Option.some.injEq] at hk; exact ⟨h, rfl, hk.symm⟩
    · simp [LOp.key] at hk
  | _ => simp [Eff.locOp, LOp.key] at hk

theorem remOp_key (env : Env) (f : Eff) (k : Nat) (hk : (f.remOp env).key = some k) : ∃ h, f.host = some h ∧ k = cAddr h := by
  cases f with
  | fill h =>
    simp only [Eff.remOp] at hk
    split at hk
    · simp [LOp.key] at hk
    · simp only [LOp.key, Option.some.injEq] at hk; exact ⟨h, rfl, hk.symm⟩
  | takeDown h =>
    simp only [Eff.remOp] at hk
    split at hk
    · simp [LOp.key] at hk
    · simp only [LOp.key, Option.some.injEq] at hk; exact ⟨h, rfl, hk.symm⟩
  | _ => simp [Eff.remOp, LOp.key] at hk

theorem applyEff_crashed (env : Env) (v : View) (f : Eff) (hf : f.isCrash = false) : (applyEff env v f).crashed = v.crashed := by
  simp [applyEff, hf]

/-- independent effects commute (up to the order of the lists) -/
theorem applyG_comm (env : Env) (v : View) (f g : Eff) (hi : Indep f g) :
    Same (applyG env (applyG env v f) g) (applyG env (applyG env v g) f) := by
  unfold applyG
  by_cases hc : v.crashed = true
  · simp only [hc, ↓reduceIte]; exact Same.refl v
  · have hc' : v.crashed = false := by simpa using hc
    simp only [hc', Bool.false_eq_true, ↓reduceIte, applyEff_crashed env v f hi.1, applyEff_crashed env v g hi.2.1]
    have kk : ∀ (k1 k2 : Nat), (∃ h, f.host = some h ∧ k1 = cAddr h) → (∃ h, g.host = some h ∧ k2 = cAddr h) → k1 ≠ k2 := by
      rintro k1 k2 ⟨h1, e1, rfl⟩ ⟨h2, e2, rfl⟩
      exact (hi.2.2 h1 h2 e1 e2).2
    refine ⟨rfl, ?_, ?_, ?_, ?_, ?_, ?_, ?_⟩
    · exact POp.comm f.poolOp g.poolOp v.pools (by
        intro k1 k2 e1 e2
        obtain ⟨h1, a1, rfl⟩ := poolOp_key f k1 e1
        obtain ⟨h2, a2, rfl⟩ := poolOp_key g k2 e2
        exact (hi.2.2 h1 h2 a1 a2).1)
    · exact LOp.comm (f.taOp env) (g.taOp env) v.pol.ta (fun k1 k2 e1 e2 => kk k1 k2 (taOp_key env f k1 e1) (taOp_key env g k2 e2))
    · exact LOp.comm (f.locOp env) (g.locOp env) v.pol.loc (fun k1 k2 e1 e2 => kk k1 k2 (locOp_key env f k1 e1) (locOp_key env g k2 e2))
    · exact LOp.comm (f.remOp env) (g.remOp env) v.pol.rem (fun k1 k2 e1 e2 => kk k1 k2 (remOp_key env f k1 e1) (remOp_key env g k2 e2))
    · intro x
      simp only [applyEff, mem_downApp]
      constructor
      · rintro (h | h | h)
        · exact Or.inr (Or.inl h)
        · exact Or.inl h
        · exact Or.inr (Or.inr h)
      · rintro (h | h | h)
        · exact Or.inr (Or.inl h)
        · exact Or.inl h
        · exact Or.inr (Or.inr h)
    · simp only [applyEff]; omega
    · simp only [applyEff, hi.1, hi.2.1]

theorem foldl_applyG_congr (env : Env) (l : List Eff) : ∀ {v w : View}, Same v w →
    Same (l.foldl (applyG env) v) (l.foldl (applyG env) w) := by
  induction l with
  | nil => intro v w h; exact h
  | cons f t ih => intro v w h; exact ih (applyG_congr env f h)

/-- dispatching pairwise independent effects in any order gives the same view -/
theorem foldl_applyG_perm (env : Env) {l1 l2 : List Eff} (hp : l1.Perm l2) :
    l1.Pairwise Indep → ∀ {v w : View}, Same v w → Same (l1.foldl (applyG env) v) (l2.foldl (applyG env) w) := by
  induction hp with
  | nil => intro _ v w h; exact h
  | cons x _ ih =>
    intro hpw v w h
    exact ih (List.pairwise_cons.mp hpw).2 (applyG_congr env x h)
  | swap x y l =>
    intro hpw v w h
    simp only [List.foldl_cons]
    have hxy : Indep y x := (List.pairwise_cons.mp hpw).1 x (List.mem_cons_self)
    have h1 : Same (applyG env (applyG env v y) x) (applyG env (applyG env v x) y) := applyG_comm env v y x hxy
    have h2 : Same (applyG env (applyG env v x) y) (applyG env (applyG env w x) y) :=
      applyG_congr env y (applyG_congr env x h)
    exact foldl_applyG_congr env l (h1.trans h2)
  | trans p1 _ ih1 ih2 =>
    intro hpw v w h
    have hpw2 := (p1.pairwise_iff (fun {a b} (hab : Indep a b) => hab.symm)).mp hpw
    exact (ih1 hpw (Same.refl v)).trans (ih2 hpw2 h)

end C16
