import Proofs.C08Seq
/-! C08: the sequential big-step semantics refines the abstract id-set specification
(`Streams.specStep` / `Streams.specCheck`), for every op sequence that does not call `Clear(0)`. -/
namespace C08
open Streams

theorem getD_setIf (tbl : Array Bool) (i j : Nat) (v : Bool) (h : i < tbl.size) :
    (tbl.setIfInBounds i v).getD j false = if j = i then v else tbl.getD j false := by
  rw [Array.getD_eq_getD_getElem?, Array.getElem?_setIfInBounds, Array.getD_eq_getD_getElem?]
  by_cases hji : j = i
  · subst hji; simp [h]
  · have : ¬ i = j := fun e => hji e.symm
    simp [this, hji]

theorem setIfInBounds_oob (tbl : Array Bool) (id : Nat) (hge : tbl.size ≤ id) : tbl.setIfInBounds id false = tbl := by
  unfold Array.setIfInBounds
  split
  · omega
  · rfl

/-- the fused monitor of the driver is `specCheck` applied to the model's trace -/
theorem seqMon_eq (cap : Nat) (ops : List Op) : ∀ (sh : Shared) (tbl : Array Bool) (cnt : Nat),
    seqMon cap sh tbl cnt ops = specCheck cap { tbl := tbl, cnt := cnt } (seqTrace sh ops) := by
  induction ops with
  | nil => intro sh tbl cnt; rfl
  | cons op ops ih =>
    intro sh tbl cnt
    simp only [seqMon, seqTrace, specCheck]
    split
    · rename_i st' h
      rw [ih]
    · rfl

/-- the relation between the model state and the abstract state of the specification -/
structure SpecInv (n : Nat) (sh : Shared) (tbl : Array Bool) (cnt : Nat) : Prop where
  len : sh.words.length = n
  size : tbl.size = 64 * n
  reserved : bitAt sh.words 0 = true
  tblOk : ∀ id, id < 64 * n → tbl.getD id false = (decide (id ≠ 0) && bitAt sh.words id)
  count : countBelow (bitAt sh.words) (64 * n) = 1 + cnt
  inuse : sh.inuse = cnt

theorem specInv_init (n : Nat) (hn : 0 < n) : SpecInv n (init n) (specInit (64 * n)).tbl 0 := by
  have hI := inv_init n 0 hn
  refine ⟨length_init n, by simp [specInit], hI.reserved, ?_, ?_, rfl⟩
  · intro id hid
    rw [bitAt_init n hn]
    simp only [specInit, Array.getD_eq_getD_getElem?, Array.getElem?_replicate]
    by_cases h0 : id = 0 <;> simp [h0, hid, hn]
  · have := hI.count
    simpa [initState, length_init] using this

theorem seqOp_avail (sh : Shared) : seqOp sh .avail = (sh, some (.avail (available sh))) := by
  simp only [seqOp, startPC, runThread, tstep, available]

theorem countBelow_all {p : Nat → Bool} (k : Nat) (h : ∀ x, x < k → p x = true) : countBelow p k = k := by
  induction k with
  | zero => rfl
  | succ k ih => simp [countBelow, ih (fun x hx => h x (by omega)), h k (by omega)]

/-- two distinct set bits below `k` -/
theorem countBelow_two {p : Nat → Bool} {a b k : Nat} (ha : a < k) (hb : b < k) (hab : a ≠ b)
    (hpa : p a = true) (hpb : p b = true) : 2 ≤ countBelow p k := by
  have h1 := countBelow_clr (p := p) (q := fun x => !decide (x = a) && p x) a (fun _ => rfl) hpa k
  have hqb : (fun x => !decide (x = a) && p x) b = true := by
    have : ¬ b = a := fun e => hab e.symm
    simp [this, hpb]
  have h2 := countBelow_clr (p := fun x => !decide (x = a) && p x)
    (q := fun x => !decide (x = b) && (!decide (x = a) && p x)) b (fun _ => rfl) hqb k
  simp only [ha, hb, ↓reduceIte] at h1 h2
  omega

/-- one op of the model is allowed by the specification, `Available()` afterwards is the number of
    non-reserved ids not handed out, and the relation is preserved -/
theorem specInv_step {n : Nat} (hn : 0 < n) {sh : Shared} {tbl : Array Bool} {cnt : Nat}
    (hI : SpecInv n sh tbl cnt) (op : Op) (hop : op ≠ .clear 0) :
    ∃ st', specStep (64 * n) tbl cnt op (seqOp sh op).2 = some st' ∧
      available (seqOp sh op).1 = ((64 * n - 1 - st'.cnt : Nat) : Int) ∧
      SpecInv n (seqOp sh op).1 st'.tbl st'.cnt := by
  have hlen := hI.len
  have hc := hI.count
  have hle := countBelow_le (bitAt sh.words) (64 * n)
  have hav : available sh = ((64 * n - 1 - cnt : Nat) : Int) := by
    simp only [available, hlen, hI.inuse]; omega
  cases op with
  | avail =>
    rw [seqOp_avail]
    refine ⟨{ tbl := tbl, cnt := cnt }, ?_, hav, hI⟩
    simp only [specStep, hav, ↓reduceIte]
  | get =>
    show ∃ st', specStep (64 * n) tbl cnt .get (getStream sh).2 = some st' ∧
      available (getStream sh).1 = ((64 * n - 1 - st'.cnt : Nat) : Int) ∧
      SpecInv n (getStream sh).1 st'.tbl st'.cnt
    rcases getStream_spec sh (by omega) with ⟨id, h1, h2, h3⟩ | ⟨h1, h2⟩
    · rw [hlen] at h1
      have hid0 : 1 ≤ id := by
        rcases Nat.eq_zero_or_pos id with h0 | h0
        · rw [h0, hI.reserved] at h2; cases h2
        · exact h0
      have htb : tbl.getD id false = false := by rw [hI.tblOk id h1, h2]; simp
      have hbits : ∀ x, bitAt (setBit sh.words id) x = (decide (x = id) || bitAt sh.words x) :=
        fun x => bitAt_setBit _ _ _ (by rw [hlen]; omega)
      have hcnt := countBelow_set (p := bitAt sh.words) (q := bitAt (setBit sh.words id)) id hbits h2 (64 * n)
      simp only [h1, ↓reduceIte] at hcnt
      rw [h3]
      refine ⟨{ tbl := tbl.setIfInBounds id true, cnt := cnt + 1 }, ?_, ?_, ?_⟩
      · simp only [specStep]
        rw [if_pos ⟨hid0, h1, htb⟩]
      · have hle2 := countBelow_le (bitAt (setBit sh.words id)) (64 * n)
        simp only [available, length_setBit, hlen, hI.inuse]; omega
      · refine ⟨by simpa [length_setBit] using hlen, by simpa using hI.size, ?_, ?_, ?_, ?_⟩
        · simp [hbits, hI.reserved]
        · intro x hx
          rw [getD_setIf _ _ _ _ (by rw [hI.size]; exact h1), hbits, hI.tblOk x hx]
          by_cases hxi : x = id
          · subst hxi; have : x ≠ 0 := by omega
            simp [this]
          · simp [hxi]
        · simp only []; omega
        · simp only []; have := hI.inuse; omega
    · rw [hlen] at h1
      have hall : countBelow (bitAt sh.words) (64 * n) = 64 * n := countBelow_all _ h1
      rw [h2]
      refine ⟨{ tbl := tbl, cnt := cnt }, ?_, ?_, ?_⟩
      · have : cnt = 64 * n - 1 := by omega
        simp [specStep, this]
      · simpa [available] using hav
      · exact ⟨hlen, hI.size, hI.reserved, hI.tblOk, hI.count, hI.inuse⟩
  | clear id =>
    have hid0 : id ≠ 0 := fun h => hop (by rw [h])
    show ∃ st', specStep (64 * n) tbl cnt (.clear id) (clear sh id).2 = some st' ∧
      available (clear sh id).1 = ((64 * n - 1 - st'.cnt : Nat) : Int) ∧
      SpecInv n (clear sh id).1 st'.tbl st'.cnt
    by_cases hr : id / 64 < sh.words.length
    · have hlt : id < 64 * n := by omega
      cases hb : bitAt sh.words id
      · rw [clear_free sh id hr hb]
        have htb : tbl.getD id false = false := by rw [hI.tblOk id hlt, hb]; simp
        refine ⟨{ tbl := tbl.setIfInBounds id false, cnt := cnt }, ?_, hav, ?_⟩
        · simp only [specStep]
          rw [if_pos htb.symm]; simp
        · refine ⟨hlen, by simpa using hI.size, hI.reserved, ?_, hI.count, hI.inuse⟩
          intro x hx
          rw [getD_setIf _ _ _ _ (by rw [hI.size]; exact hlt), hI.tblOk x hx]
          by_cases hxi : x = id
          · subst hxi; simp [hb]
          · simp [hxi]
      · rw [clear_inuse sh id hr hb]
        have htb : tbl.getD id false = true := by rw [hI.tblOk id hlt, hb]; simp [hid0]
        have h2 := countBelow_two (p := bitAt sh.words) (k := 64 * n) (a := 0) (b := id) (by omega) hlt
          (fun e => hid0 e.symm) hI.reserved hb
        have hpos : ¬ (sh.inuse - 1 < 0) := by have := hI.inuse; omega
        have hbits : ∀ x, bitAt (clrBit sh.words id) x = (!decide (x = id) && bitAt sh.words x) :=
          fun x => bitAt_clrBit _ _ _ hr
        have hcnt := countBelow_clr (p := bitAt sh.words) (q := bitAt (clrBit sh.words id)) id hbits hb (64 * n)
        simp only [hlt, ↓reduceIte] at hcnt
        refine ⟨{ tbl := tbl.setIfInBounds id false, cnt := cnt - 1 }, ?_, ?_, ?_⟩
        · simp only [specStep, if_neg hpos]
          rw [if_pos htb.symm]; simp
        · simp only [available, length_clrBit, hlen, hI.inuse]; omega
        · refine ⟨by simpa [length_clrBit] using hlen, by simpa using hI.size, ?_, ?_, ?_, ?_⟩
          · have : (0 : Nat) ≠ id := fun e => hid0 e.symm
            simp [hbits, hI.reserved, this]
          · intro x hx
            rw [getD_setIf _ _ _ _ (by rw [hI.size]; exact hlt), hbits, hI.tblOk x hx]
            by_cases hxi : x = id
            · subst hxi; simp
            · simp [hxi]
          · simp only []; omega
          · simp only []; have := hI.inuse; omega
    · rw [clear_oob sh id hr]
      have hge : tbl.size ≤ id := by rw [hI.size]; omega
      have htb : tbl.getD id false = false := by
        rw [Array.getD_eq_getD_getElem?, Array.getElem?_eq_none hge]; rfl
      have hset : tbl.setIfInBounds id false = tbl := setIfInBounds_oob tbl id hge
      refine ⟨{ tbl := tbl.setIfInBounds id false, cnt := cnt }, ?_, hav, ?_⟩
      · simp only [specStep]
        rw [if_pos htb.symm]; simp
      · simp only [hset]; exact hI

/-- all op sequences -/
theorem specInv_run {n : Nat} (hn : 0 < n) (ops : List Op) (hops : ∀ op, op ∈ ops → op ≠ .clear 0) :
    ∀ (sh : Shared) (tbl : Array Bool) (cnt : Nat), SpecInv n sh tbl cnt →
      specCheck (64 * n) { tbl := tbl, cnt := cnt } (seqTrace sh ops) = true := by
  induction ops with
  | nil => intro sh tbl cnt _; rfl
  | cons op ops ih =>
    intro sh tbl cnt hI
    obtain ⟨st', h1, h2, h3⟩ := specInv_step hn hI op (hops op (by simp))
    simp only [seqTrace, specCheck, h1, h2, decide_true, Bool.true_and]
    exact ih (fun o ho => hops o (by simp [ho])) _ _ _ h3

end C08
