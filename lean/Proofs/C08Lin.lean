import Proofs.C08Calm
import Proofs.C08SeqSpec
/-! C08: linearization of the concurrent machine to the abstract id-set specification (`Streams.specStep`),
NO client protocol (only `Clear(0)` excluded).

Linearization points (one atomic operation each, inside the call they belong to):
* `GetStream` returning `id, true`  — its successful CAS on the word (`g5 → g7 id`);
* `Clear(id)` returning `true`      — its successful CAS (`c9 → c11 id`);
* `Clear(id)` returning `false`     — the load that saw the bit clear (`c8`, or `c10` after a failed CAS);
* `Clear(id)` beyond the capacity   — the call itself (answers false without any atomic operation).
A failing `GetStream` has no linearization point (it saw every id in use, but at different moments: the property
only asks for `C08_no_false_exhaustion`), `Available()` has none either (the counter lags behind the bitset:
`C08_cex_available_transient`). -/
namespace C08
open Streams

theorem specAccepts_append (cap : Nat) (l1 l2 : List (Op × Option Ret)) : ∀ (st : SpecSt),
    specAccepts cap st (l1 ++ l2) = (specAccepts cap st l1).bind (fun st' => specAccepts cap st' l2) := by
  induction l1 with
  | nil => intro st; rfl
  | cons x l1 ih =>
    intro st
    obtain ⟨op, r⟩ := x
    simp only [List.cons_append, specAccepts]
    split
    · rw [ih]
    · rfl

/-- abstraction relation: the table of the specification is the bitset without the reserved bit -/
structure LinInv (n : Nat) (ws : List Word) (tbl : Array Bool) (cnt : Nat) : Prop where
  size : tbl.size = 64 * n
  tblOk : ∀ id, id < 64 * n → tbl.getD id false = (decide (id ≠ 0) && bitAt ws id)
  count : countBelow (bitAt ws) (64 * n) = 1 + cnt

theorem linInv_init (n : Nat) (hn : 0 < n) : LinInv n (init n).words (specInit (64 * n)).tbl 0 := by
  have h := specInv_init n hn
  exact ⟨h.size, h.tblOk, h.count⟩

/-- ONE atomic operation: its linearized pair (if it is a linearization point) is accepted by the specification
    and the abstraction relation is kept -/
theorem lin_tstep {n : Nat} (hn : 0 < n) (sh : Shared) (pc : PC) (hlen : sh.words.length = n)
    (hloc : localA n pc) (hnz : nz pc) (hres : bitAt sh.words 0 = true)
    {tbl : Array Bool} {cnt : Nat} (hL : LinInv n sh.words tbl cnt) :
    ∃ st', specAccepts (64 * n) { tbl := tbl, cnt := cnt } (lpOf sh pc) = some st' ∧
      LinInv n (tstep sh pc).1.words st'.tbl st'.cnt := by
  have hsame : ∀ {pc : PC}, lpOf sh pc = [] → (tstep sh pc).1.words = sh.words →
      ∃ st', specAccepts (64 * n) { tbl := tbl, cnt := cnt } (lpOf sh pc) = some st' ∧
        LinInv n (tstep sh pc).1.words st'.tbl st'.cnt := by
    intro pc h1 h2
    exact ⟨{ tbl := tbl, cnt := cnt }, by rw [h1]; rfl, by rw [h2]; exact hL⟩
  -- a `Clear(id)` load that sees the bit clear: `false`, nothing changes
  have hfalse : ∀ id, id < 64 * n → bitAt sh.words id = false →
      ∃ st', specAccepts (64 * n) { tbl := tbl, cnt := cnt } [(.clear id, some (.cleared false))] = some st' ∧
        LinInv n sh.words st'.tbl st'.cnt := by
    intro id hlt hb
    have htb : tbl.getD id false = false := by rw [hL.tblOk id hlt, hb]; simp
    refine ⟨{ tbl := tbl.setIfInBounds id false, cnt := cnt }, ?_, ?_⟩
    · simp only [specAccepts, specStep]
      rw [if_pos htb.symm]; simp
    · refine ⟨by simpa using hL.size, ?_, hL.count⟩
      intro x hx
      rw [getD_setIf _ _ _ _ (by rw [hL.size]; exact hlt), hL.tblOk x hx]
      by_cases hxi : x = id
      · subst hxi; simp [hb]
      · simp [hxi]
  cases pc with
  | idle => exact hsame rfl rfl
  | g1 => exact hsame rfl rfl
  | g2 o => exact hsame rfl (by simp only [tstep]; split <;> rfl)
  | g3 => exact hsame rfl rfl
  | g4 off i => exact hsame rfl rfl
  | g6 off i j => exact hsame rfl rfl
  | g7 id => exact hsame rfl rfl
  | c11 id => exact hsame rfl rfl
  | a12 => exact hsame rfl rfl
  | g5 off i j b =>
    by_cases h : sh.words.getD ((i + off) % sh.words.length) 0 = b
    · rcases tstep_shape sh (.g5 off i j b) (by omega) (by rw [hlen]; exact hloc) with
        ⟨_, _, _, h4, _, _⟩ | ⟨id, h1, h2, _, h4, h5, _⟩ | ⟨id, hpc, _⟩ | ⟨id, b', hpc, _⟩ | ⟨id, hpc, _⟩
      · -- not neutral: the next pc is `g7`, which is not quiet
        exfalso
        have e : (tstep sh (.g5 off i j b)).2.1 = .g7 (streamFromBucket ((i + off) % sh.words.length) j) := by
          simp only [tstep, h, ↓reduceIte]
        rw [e] at h4; exact absurd h4.1 (by simp [isG7])
      · have e : (tstep sh (.g5 off i j b)).2.1 = .g7 (streamFromBucket ((i + off) % sh.words.length) j) := by
          simp only [tstep, h, ↓reduceIte]
        rw [e] at h5
        have hid : streamFromBucket ((i + off) % sh.words.length) j = id := by injection h5
        rw [hlen] at h1
        have hid0 : 1 ≤ id := by
          rcases Nat.eq_zero_or_pos id with h0 | h0
          · rw [h0, hres] at h2; cases h2
          · exact h0
        have htb : tbl.getD id false = false := by rw [hL.tblOk id h1, h2]; simp
        have hbits : ∀ x, bitAt (setBit sh.words id) x = (decide (x = id) || bitAt sh.words x) :=
          fun x => bitAt_setBit _ _ _ (by rw [hlen]; omega)
        have hcnt := countBelow_set (p := bitAt sh.words) (q := bitAt (setBit sh.words id)) id hbits h2 (64 * n)
        simp only [h1, ↓reduceIte] at hcnt
        refine ⟨{ tbl := tbl.setIfInBounds id true, cnt := cnt + 1 }, ?_, ?_⟩
        · simp only [lpOf, h, ↓reduceIte, hid, specAccepts, specStep]
          rw [if_pos ⟨hid0, h1, htb⟩]
        · rw [h4]
          refine ⟨by simpa using hL.size, ?_, ?_⟩
          · intro x hx
            rw [getD_setIf _ _ _ _ (by rw [hL.size]; exact h1), hbits, hL.tblOk x hx]
            by_cases hxi : x = id
            · subst hxi; have : x ≠ 0 := by omega
              simp [this]
            · simp [hxi]
          · have := hL.count; simp only []; omega
      · cases hpc
      · cases hpc
      · cases hpc
    · exact hsame (by simp only [lpOf, h, ↓reduceIte]) (by simp only [tstep, h, ↓reduceIte])
  | c9 id b =>
    by_cases h : sh.words.getD (bucketOffset id) 0 = b
    · rcases tstep_shape sh (.c9 id b) (by omega) (by rw [hlen]; exact hloc) with
        ⟨_, _, _, h4, _, _⟩ | ⟨id', _, _, _, _, h5, _⟩ | ⟨id', hpc, _⟩ | ⟨id', b', hpc, _, h3, h4, h5, _, _⟩ | ⟨id', hpc, _⟩
      · exfalso
        have e : (tstep sh (.c9 id b)).2.1 = .c11 id := by simp only [tstep, h, ↓reduceIte]
        rw [e] at h4; exact absurd h4.2 (by simp [isC11])
      · exfalso
        have e : (tstep sh (.c9 id b)).2.1 = .c11 id := by simp only [tstep, h, ↓reduceIte]
        rw [e] at h5; cases h5
      · cases hpc
      · injection hpc with e1 e2
        subst e1
        have hid0 : id ≠ 0 := hnz
        rw [hlen] at h4
        have hlt : id < 64 * n := by omega
        have htb : tbl.getD id false = true := by rw [hL.tblOk id hlt, h3]; simp [hid0]
        have h2 := countBelow_two (p := bitAt sh.words) (k := 64 * n) (a := 0) (b := id) (by omega) hlt
          (fun e => hid0 e.symm) hres h3
        have hbits : ∀ x, bitAt (clrBit sh.words id) x = (!decide (x = id) && bitAt sh.words x) :=
          fun x => bitAt_clrBit _ _ _ (by rw [hlen]; exact h4)
        have hcnt := countBelow_clr (p := bitAt sh.words) (q := bitAt (clrBit sh.words id)) id hbits h3 (64 * n)
        simp only [hlt, ↓reduceIte] at hcnt
        refine ⟨{ tbl := tbl.setIfInBounds id false, cnt := cnt - 1 }, ?_, ?_⟩
        · simp only [lpOf, h, ↓reduceIte, specAccepts, specStep]
          rw [if_pos htb.symm]
        · rw [h5]
          refine ⟨by simpa using hL.size, ?_, ?_⟩
          · intro x hx
            rw [getD_setIf _ _ _ _ (by rw [hL.size]; exact hlt), hbits, hL.tblOk x hx]
            by_cases hxi : x = id
            · subst hxi; simp
            · simp [hxi]
          · have := hL.count; simp only []; omega
      · cases hpc
    · exact hsame (by simp only [lpOf, h, ↓reduceIte]) (by simp only [tstep, h, ↓reduceIte])
  | c8 id =>
    have hw : (tstep sh (.c8 id)).1.words = sh.words := by
      simp only [tstep]; split <;> (try split) <;> rfl
    by_cases hr : bucketOffset id < sh.words.length
    · by_cases hb : sh.words.getD (bucketOffset id) 0 &&& mask id ≠ mask id
      · have hbit : bitAt sh.words id = false := (and_mask_ne_mask _ _).mp hb
        have hlt : id < 64 * n := by unfold bucketOffset at hr; omega
        rw [hw]
        simpa only [lpOf, hr, hb, ↓reduceIte, ne_eq, not_false_eq_true] using hfalse id hlt hbit
      · exact hsame (by simp only [lpOf, hr, hb, ↓reduceIte]) hw
    · have hge : tbl.size ≤ id := by rw [hL.size]; unfold bucketOffset at hr; omega
      have htb : tbl.getD id false = false := by
        rw [Array.getD_eq_getD_getElem?, Array.getElem?_eq_none hge]; rfl
      refine ⟨{ tbl := tbl.setIfInBounds id false, cnt := cnt }, ?_, ?_⟩
      · simp only [lpOf, hr, ↓reduceIte, specAccepts, specStep]
        rw [if_pos htb.symm]; simp
      · rw [hw]; simp only [setIfInBounds_oob tbl id hge]; exact hL
  | c10 id =>
    have hw : (tstep sh (.c10 id)).1.words = sh.words := by
      simp only [tstep]; split <;> rfl
    by_cases hb : sh.words.getD (bucketOffset id) 0 &&& mask id ≠ mask id
    · have hbit : bitAt sh.words id = false := (and_mask_ne_mask _ _).mp hb
      have hlt : id < 64 * n := by have : id / 64 < n := hloc; omega
      rw [hw]
      simpa only [lpOf, hb, ↓reduceIte, ne_eq, not_false_eq_true] using hfalse id hlt hbit
    · exact hsame (by simp only [lpOf, hb, ↓reduceIte]) hw

/-- one action of the machine (no client protocol, `Clear(0)` excluded) -/
theorem lin_step {n : Nat} (hn : 0 < n) {b0 : Nat → Bool} {s s' : State} {a : Action} {r : Option Ret} {evs : List Ev}
    (hI : InvN n b0 s evs) (hok : noClear0 s a = true) (hs : step s a = some (s', r))
    {tbl : Array Bool} {cnt : Nat} (hL : LinInv n s.sh.words tbl cnt) :
    ∃ st', specAccepts (64 * n) { tbl := tbl, cnt := cnt } (linOf s a) = some st' ∧
      LinInv n s'.sh.words st'.tbl st'.cnt := by
  cases a with
  | start t op =>
    simp only [step] at hs
    split at hs
    · simp only [Option.some.injEq, exec, Prod.mk.injEq] at hs
      rw [← hs.1]
      exact lin_tstep hn s.sh (startPC op) hI.len ((quiet_start op).2.2 n) (nz_start s t op hok) hI.b.reserved hL
    · cases hs
  | step t =>
    simp only [step] at hs
    split at hs
    · rename_i pc hpc
      split at hs
      · cases hs
      · simp only [Option.some.injEq, exec, Prod.mk.injEq] at hs
        rw [← hs.1]
        simp only [linOf, hpc]
        have hloc := hI.a.locals t pc hpc
        rw [hI.len] at hloc
        exact lin_tstep hn s.sh pc hI.len hloc (hI.b.nzs t pc hpc) hI.b.reserved hL
    · cases hs

/-- all schedules -/
theorem lin_run {n : Nat} (hn : 0 < n) (as : List Action) :
    ∀ (s s' : State) (lin : List (Op × Option Ret)) (b0 : Nat → Bool) (evs : List Ev) (tbl : Array Bool) (cnt : Nat),
      InvN n b0 s evs → LinInv n s.sh.words tbl cnt → runLin noClear0 s as = some (s', lin) →
      ∃ st', specAccepts (64 * n) { tbl := tbl, cnt := cnt } lin = some st' ∧
        LinInv n s'.sh.words st'.tbl st'.cnt := by
  induction as with
  | nil =>
    intro s s' lin b0 evs tbl cnt _ hL h
    simp only [runLin, Option.some.injEq, Prod.mk.injEq] at h
    obtain ⟨rfl, rfl⟩ := h
    exact ⟨{ tbl := tbl, cnt := cnt }, rfl, hL⟩
  | cons a as ih =>
    intro s s' lin b0 evs tbl cnt hI hL h
    simp only [runLin] at h
    split at h
    · rename_i hok
      split at h
      · rename_i s1 r hs
        cases hr : runLin noClear0 s1 as with
        | none => rw [hr] at h; cases h
        | some p =>
          rw [hr] at h
          simp only [Option.map_some, Option.some.injEq, Prod.mk.injEq] at h
          obtain ⟨rfl, rfl⟩ := h
          obtain ⟨st1, h1, hL1⟩ := lin_step hn hI hok hs hL
          obtain ⟨st2, h2, hL2⟩ := ih s1 p.1 p.2 b0 _ st1.tbl st1.cnt (invN_step hI hok hs) hL1 (by rw [hr])
          exact ⟨st2, by rw [specAccepts_append, h1]; exact h2, hL2⟩
      · cases h
    · cases h

/-- the answer a call returns is the answer of its linearization point -/
theorem lp_answers (sh : Shared) :
    (∀ id r, (tstep sh (.c8 id)).2.2 = some r → lpOf sh (.c8 id) = [(.clear id, some r)]) ∧
    (∀ id r, (tstep sh (.c10 id)).2.2 = some r → lpOf sh (.c10 id) = [(.clear id, some r)]) ∧
    (∀ off i j b, (lpOf sh (.g5 off i j b) ≠ [] ∨ (tstep sh (.g5 off i j b)).1 ≠ sh) →
        ∃ id, lpOf sh (.g5 off i j b) = [(.get, some (.stream id true))] ∧ (tstep sh (.g5 off i j b)).2.1 = .g7 id ∧
          ∀ sh', (tstep sh' (.g7 id)).2.2 = some (.stream id true)) ∧
    (∀ id b, (lpOf sh (.c9 id b) ≠ [] ∨ (tstep sh (.c9 id b)).1 ≠ sh) →
        lpOf sh (.c9 id b) = [(.clear id, some (.cleared true))] ∧ (tstep sh (.c9 id b)).2.1 = .c11 id ∧
          ∀ sh', (tstep sh' (.c11 id)).2.2 = some (.cleared true) ∨ (tstep sh' (.c11 id)).2.2 = some .crashNegative) := by
  refine ⟨?_, ?_, ?_, ?_⟩
  · intro id r h
    by_cases hr : bucketOffset id < sh.words.length
    · by_cases hb : sh.words.getD (bucketOffset id) 0 &&& mask id ≠ mask id
      · simp only [tstep, hr, hb, ↓reduceIte, ne_eq, not_false_eq_true, Option.some.injEq] at h
        simp only [lpOf, hr, hb, ↓reduceIte, ne_eq, not_false_eq_true, h]
      · simp only [tstep, hr, hb, ↓reduceIte] at h; cases h
    · simp only [tstep, hr, ↓reduceIte, Option.some.injEq] at h
      simp only [lpOf, hr, ↓reduceIte, h]
  · intro id r h
    by_cases hb : sh.words.getD (bucketOffset id) 0 &&& mask id ≠ mask id
    · simp only [tstep, hb, ↓reduceIte, ne_eq, not_false_eq_true, Option.some.injEq] at h
      simp only [lpOf, hb, ↓reduceIte, ne_eq, not_false_eq_true, h]
    · simp only [tstep, hb, ↓reduceIte] at h; cases h
  · intro off i j b h
    by_cases hc : sh.words.getD ((i + off) % sh.words.length) 0 = b
    · exact ⟨streamFromBucket ((i + off) % sh.words.length) j, by simp only [lpOf, hc, ↓reduceIte],
        by simp only [tstep, hc, ↓reduceIte], fun _ => rfl⟩
    · exfalso
      rcases h with h | h
      · exact h (by simp only [lpOf, hc, ↓reduceIte])
      · exact h (by simp only [tstep, hc, ↓reduceIte])
  · intro id b h
    by_cases hc : sh.words.getD (bucketOffset id) 0 = b
    · refine ⟨by simp only [lpOf, hc, ↓reduceIte], by simp only [tstep, hc, ↓reduceIte], fun sh' => ?_⟩
      simp only [tstep]
      split
      · exact Or.inr rfl
      · exact Or.inl rfl
    · exfalso
      rcases h with h | h
      · exact h (by simp only [lpOf, hc, ↓reduceIte])
      · exact h (by simp only [tstep, hc, ↓reduceIte])

end C08
