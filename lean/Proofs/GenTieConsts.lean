import Gen.Consts
import Model.FrameWrite
import Model.RespSpec
import Model.FrameRead
/-!
  Tie theorems between the CONSTANT TABLE regenerated from /repo's frame.go / marshal.go / errors.go by
  tools/go2lean on every run (`Gen.Consts`) and the literals the hand-written request model (`FrameWrite`, C03) and
  the response specification (`RespSpec`, C04/C05) are written with. A changed opcode, flag bit, type id, result
  kind or error code in the Go source changes `Gen/Consts.lean` and breaks the corresponding theorem.
-/
namespace GenTie.Consts
open Gen.Consts

/-! ### requests (C03) -/

/-- opcode of every request kind the driver writes -/
theorem request_opcodes :
    (∀ o, FrameWrite.opcode (.startup o) = opStartup_int.toNat) ∧
    FrameWrite.opcode .options = opOptions_int.toNat ∧
    (∀ a b c, FrameWrite.opcode (.query a b c) = opQuery_int.toNat) ∧
    (∀ a b c, FrameWrite.opcode (.prepare a b c) = opPrepare_int.toNat) ∧
    (∀ a b c, FrameWrite.opcode (.execute a b c) = opExecute_int.toNat) ∧
    (∀ e, FrameWrite.opcode (.register e) = opRegister_int.toNat) ∧
    (∀ a b c d e f g, FrameWrite.opcode (.batch a b c d e f g) = opBatch_int.toNat) ∧
    (∀ t, FrameWrite.opcode (.authResponse t) = opAuthResponse_int.toNat) :=
  ⟨fun _ => rfl, rfl, fun _ _ _ => rfl, fun _ _ _ => rfl, fun _ _ _ => rfl, fun _ => rfl,
   fun _ _ _ _ _ _ _ => rfl, fun _ => rfl⟩

/-- the flags byte of the query parameters, bit by bit, with the Go constants -/
theorem query_flags (v : Nat) (p : FrameWrite.GParams) :
    FrameWrite.queryFlags v p =
      FrameWrite.b2n (decide (p.values.length > 0)) flagValues_int.toNat +
      FrameWrite.b2n p.skipMeta flagSkipMetaData_int.toNat +
      FrameWrite.b2n (decide (p.pageSize > 0)) flagPageSize_int.toNat +
      FrameWrite.b2n (decide (p.pagingState.length > 0)) flagWithPagingState_int.toNat +
      FrameWrite.b2n (decide (p.serialCons > 0)) flagWithSerialConsistency_int.toNat +
      FrameWrite.b2n (decide (v > 2) && p.defaultTimestamp) flagDefaultTimestamp_int.toNat +
      FrameWrite.b2n (FrameWrite.namesFlag v p.values) flagWithNameValues_int.toNat +
      FrameWrite.b2n (decide (p.keyspace ≠ []) && decide (v > 4)) flagWithKeyspace_int.toNat := rfl

/-- the header flags of a request: tracing, custom payload, beta -/
theorem header_flags (v : Nat) (tracing : Bool) (g : FrameWrite.GReq) :
    FrameWrite.headerFlags v tracing g =
      FrameWrite.b2n tracing flagTracing_int.toNat +
      FrameWrite.b2n (decide ((FrameWrite.payloadOf g).length > 0)) flagCustomPayload_int.toNat +
      FrameWrite.b2n (decide (v = 5)) flagBetaProtocol_int.toNat := rfl

theorem versions : protoVersion1_int = 1 ∧ protoVersion2_int = 2 ∧ protoVersion3_int = 3 ∧ protoVersion4_int = 4 ∧
    protoVersion5_int = 5 ∧ protoVersionMask_int = 0x7F ∧ protoDirectionMask_int = 0x80 ∧
    maxFrameSize_int = 256 * 1024 * 1024 := by decide

/-! ### responses (C04, C05) -/

/-- opcode of every response kind of the specification -/
theorem response_opcodes :
    (∀ m e, RespSpec.Body.opcode (.error m e) = opError_int.toNat) ∧
    RespSpec.Body.opcode .ready = opReady_int.toNat ∧
    (∀ c, RespSpec.Body.opcode (.authenticate c) = opAuthenticate_int.toNat) ∧
    (∀ s, RespSpec.Body.opcode (.supported s) = opSupported_int.toNat) ∧
    (∀ r, RespSpec.Body.opcode (.result r) = opResult_int.toNat) ∧
    (∀ e, RespSpec.Body.opcode (.event e) = opEvent_int.toNat) ∧
    (∀ t, RespSpec.Body.opcode (.authChallenge t) = opAuthChallenge_int.toNat) ∧
    (∀ t, RespSpec.Body.opcode (.authSuccess t) = opAuthSuccess_int.toNat) :=
  ⟨fun _ _ => rfl, rfl, fun _ => rfl, fun _ => rfl, fun _ => rfl, fun _ => rfl, fun _ => rfl, fun _ => rfl⟩

/-- the response header flags of the specification -/
theorem response_flags (r : RespSpec.LResp) :
    r.flags = (if r.tracing.isSome then flagTracing_int.toNat else 0) +
      (if r.payload.isSome then flagCustomPayload_int.toNat else 0) +
      (if r.warnings.isSome then flagWarning_int.toNat else 0) +
      (if r.beta then flagBetaProtocol_int.toNat else 0) := rfl

/-- error codes with code-specific fields -/
theorem error_codes :
    (∀ a b c, RespSpec.ErrBody.code (.unavailable a b c) = ErrCodeUnavailable_int.toNat) ∧
    (∀ a b c d, RespSpec.ErrBody.code (.writeTimeout a b c d) = ErrCodeWriteTimeout_int.toNat) ∧
    (∀ a b c d, RespSpec.ErrBody.code (.readTimeout a b c d) = ErrCodeReadTimeout_int.toNat) ∧
    RespSpec.ErrBody.code .cdcWriteFailure = ErrCodeCDCWriteFailure_int.toNat ∧
    (∀ a b, RespSpec.ErrBody.code (.alreadyExists a b) = ErrCodeAlreadyExists_int.toNat) ∧
    (∀ i, RespSpec.ErrBody.code (.unprepared i) = ErrCodeUnprepared_int.toNat) :=
  ⟨fun _ _ _ => rfl, fun _ _ _ _ => rfl, fun _ _ _ _ => rfl, rfl, fun _ _ => rfl, fun _ => rfl⟩

/-- the error codes without code-specific fields are exactly the Go constants for them -/
theorem simple_error_codes :
    RespSpec.simpleCodes = [ErrCodeServer_int.toNat, ErrCodeProtocol_int.toNat, ErrCodeCredentials_int.toNat,
      ErrCodeOverloaded_int.toNat, ErrCodeBootstrapping_int.toNat, ErrCodeTruncate_int.toNat,
      ErrCodeSyntax_int.toNat, ErrCodeUnauthorized_int.toNat, ErrCodeInvalid_int.toNat, ErrCodeConfig_int.toNat] := by
  decide

theorem failure_error_codes : ErrCodeReadFailure_int = 0x1300 ∧ ErrCodeFunctionFailure_int = 0x1400 ∧
    ErrCodeWriteFailure_int = 0x1500 ∧ ErrCodeCASWriteUnknown_int = 0x1700 := by decide

/-- the `<type>` option ids of the structured types -/
theorem type_option_ids :
    (∀ c, RespSpec.eType (.custom c) = RespSpec.eShort TypeCustom_int.toNat ++ RespSpec.eString c) ∧
    (∀ e, RespSpec.eType (.list e) = RespSpec.eShort TypeList_int.toNat ++ RespSpec.eType e) ∧
    (∀ k v, RespSpec.eType (.map k v) = RespSpec.eShort TypeMap_int.toNat ++ (RespSpec.eType k ++ RespSpec.eType v)) ∧
    (∀ e, RespSpec.eType (.set e) = RespSpec.eShort TypeSet_int.toNat ++ RespSpec.eType e) := by
  refine ⟨fun c => ?_, fun e => ?_, fun k v => ?_, fun e => ?_⟩ <;> simp [RespSpec.eType] <;> rfl

theorem structured_type_ids :
    RespSpec.structuredIds = [TypeCustom_int.toNat, TypeList_int.toNat, TypeMap_int.toNat, TypeSet_int.toNat,
      TypeUDT_int.toNat, TypeTuple_int.toNat] := by decide

/-- native type ids 0x0001 … 0x0015 -/
theorem native_type_ids :
    [TypeAscii_int, TypeBigInt_int, TypeBlob_int, TypeBoolean_int, TypeCounter_int, TypeDecimal_int, TypeDouble_int,
     TypeFloat_int, TypeInt_int, TypeText_int, TypeTimestamp_int, TypeUUID_int, TypeVarchar_int, TypeVarint_int,
     TypeTimeUUID_int, TypeInet_int, TypeDate_int, TypeTime_int, TypeSmallInt_int, TypeTinyInt_int, TypeDuration_int]
    = [1, 2, 3, 4, 5, 6, 7, 8, 9, 10, 11, 12, 13, 14, 15, 16, 17, 18, 19, 20, 21] := by decide

/-- rows-metadata flags of the reader model -/
theorem metadata_flags : FrameRead.flagGlobalTableSpec = flagGlobalTableSpec_int.toNat ∧
    FrameRead.flagHasMorePages = flagHasMorePages_int.toNat ∧ FrameRead.flagNoMetaData = flagNoMetaData_int.toNat :=
  ⟨rfl, rfl, rfl⟩

theorem result_kinds : resultKindVoid_int = 1 ∧ resultKindRows_int = 2 ∧ resultKindKeyspace_int = 3 ∧
    resultKindPrepared_int = 4 ∧ resultKindSchemaChanged_int = 5 := by decide

/-- consistency levels and batch types as the protocol numbers them -/
theorem consistency_codes : Any_int = 0 ∧ One_int = 1 ∧ Two_int = 2 ∧ Three_int = 3 ∧ Quorum_int = 4 ∧ All_int = 5 ∧
    LocalQuorum_int = 6 ∧ EachQuorum_int = 7 ∧ Serial_int = 8 ∧ LocalSerial_int = 9 ∧ LocalOne_int = 10 ∧
    LoggedBatch_int = 0 ∧ UnloggedBatch_int = 1 ∧ CounterBatch_int = 2 := by decide

end GenTie.Consts
