import Proofs.C13Conc
/-! Cancellation in the interleaving machine (`ExecutorConc.MC`, `stepC`): once the context the attempts run under
    is done no request is sent any more; the first result stays the caller's; the accounting and budget
    invariants of the plain machine carry over. -/
namespace ExecutorConc
open Executor

/-! ### a dead step sends nothing -/

theorem step_deaden_sent (pol : Option Policy) (m : M) (a : Act) : (step pol m (deaden a)).sent = m.sent := by
  have hdn : ∀ i, (m.deadNext i).sent = m.sent := by
    intro i; unfold M.deadNext; split <;> simp [M.deadAttempt, M.count]
  have hab : ∀ i, (step pol m (.abort i)).sent = m.sent := by
    intro i
    simp only [step]
    cases h : m.exs[i]? with
    | none => rfl
    | some x =>
      cases x with
      | idle => exact hdn i
      | counted r =>
        cases r with
        | err k =>
          cases pol with
          | none => rfl
          | some p =>
            simp only []
            split
            · rfl
            · cases p.rtype k <;> first | rfl | exact hdn i | simp [M.deadAttempt, M.count]
        | ok => rfl
        | logical => rfl
      | inflight => rfl
      | done => rfl
  cases a with
  | launch i => exact hab i
  | decide i => exact hab i
  | abort i => exact hab i
  | complete i r =>
    simp only [deaden, step]
    cases h : m.exs[i]? with
    | none => rfl
    | some x => cases x <;> first | rfl | simp [M.count]

theorem stepC_attDone (pol : Option Policy) (c : MC) (a : ActC) (h : c.attDone = true) :
    (stepC pol c a).attDone = true ∧ (stepC pol c a).m.sent = c.m.sent := by
  cases a with
  | callerCancel => simp [stepC, MC.attDone]
  | execCancel =>
    simp only [stepC]
    split
    · refine ⟨?_, rfl⟩
      simp [MC.attDone]
    · exact ⟨h, rfl⟩
  | ex a =>
    simp only [stepC, h, if_true]
    exact ⟨h, step_deaden_sent pol c.m a⟩

theorem runC_frozen (pol : Option Policy) :
    ∀ (sched : List ActC) (c : MC), c.attDone = true →
      (runC pol c sched).attDone = true ∧ (runC pol c sched).m.sent = c.m.sent
  | [], c, h => ⟨h, rfl⟩
  | a :: sched, c, h => by
    simp only [runC, List.foldl_cons]
    have h1 := stepC_attDone pol c a h
    have h2 := runC_frozen pol sched _ h1.1
    exact ⟨h2.1, by rw [← h1.2]; exact h2.2⟩

theorem runC_append (pol : Option Policy) (c : MC) (s1 s2 : List ActC) :
    runC pol c (s1 ++ s2) = runC pol (runC pol c s1) s2 := by
  simp [runC, List.foldl_append]

/-! ### the first result stays -/

theorem stepC_result (pol : Option Policy) (c : MC) (a : ActC) (r : CRes) (h : c.result = some r) :
    (stepC pol c a).result = some r := by
  cases a with
  | callerCancel => simp [stepC, h]
  | execCancel => simp only [stepC]; split <;> exact h
  | ex a =>
    simp only [stepC]
    split
    · exact h
    · cases a <;> simp [h]

theorem runC_result (pol : Option Policy) (r : CRes) :
    ∀ (sched : List ActC) (c : MC), c.result = some r → (runC pol c sched).result = some r
  | [], _, h => h
  | a :: sched, c, h => by
    simp only [runC, List.foldl_cons]
    exact runC_result pol r sched _ (stepC_result pol c a r h)

/-! ### no result yet ⇒ nothing has completed, nothing is cancelled -/

/-- a live step that does not end its execution leaves the number of finished executions as it was -/
theorem returned_none_done (pol : Option Policy) (m : M) (a : Act) (hab : ∀ i, a ≠ .abort i)
    (h : returned pol m a = none) : wsum wD (step pol m a).exs = wsum wD m.exs := by
  have set_eq : ∀ (i : Nat) (x y : Ex), m.exs[i]? = some y → wD x = wD y → wsum wD (m.exs.set i x) = wsum wD m.exs := by
    intro i x y hy hxy
    have := wsum_set wD m.exs i x y hy
    omega
  cases a with
  | abort i => exact absurd rfl (hab i)
  | launch i =>
    simp only [step]
    simp only [returned] at h
    cases hx : m.exs[i]? with
    | none => rfl
    | some x =>
      cases x with
      | idle =>
        rw [hx] at h
        simp only at h
        unfold M.sendNext
        by_cases hl : m.left = 0
        · simp [hl] at h
        · simp only [if_neg hl]
          exact set_eq i _ _ hx rfl
      | _ => rfl
  | complete i r =>
    simp only [step]
    cases hx : m.exs[i]? with
    | none => rfl
    | some x =>
      cases x with
      | inflight => exact set_eq i _ _ hx rfl
      | _ => rfl
  | decide i =>
    simp only [step]
    simp only [returned] at h
    cases hx : m.exs[i]? with
    | none => rfl
    | some x =>
      cases x with
      | counted r =>
        rw [hx] at h
        cases r with
        | ok => simp at h
        | logical => simp at h
        | err k =>
          simp only at h
          cases pol with
          | none => simp at h
          | some p =>
            simp only at h ⊢
            by_cases hat : p.attempt m.cnt = true
            · simp only [hat, Bool.not_true, Bool.false_eq_true, if_false] at h ⊢
              cases hrt : p.rtype k with
              | retry => exact set_eq i _ _ hx rfl
              | nextHost =>
                rw [hrt] at h
                simp only at h
                unfold M.sendNext
                by_cases hl : m.left = 0
                · simp [hl] at h
                · simp only [if_neg hl]
                  exact set_eq i _ _ hx rfl
              | rethrow => rw [hrt] at h; simp at h
              | ignore => rw [hrt] at h; simp at h
              | unknown => rw [hrt] at h; simp at h
            · simp [hat] at h
      | _ => rfl

/-- as long as the caller has no result: neither context is done and no execution has returned -/
structure Waiting (c : MC) : Prop where
  caller : c.callerDone = false
  exec : c.execDone = false
  none_done : wsum wD c.m.exs = 0

theorem waiting_init (c0 hosts e : Nat) : Waiting (initC c0 hosts e) :=
  ⟨rfl, rfl, by simp [initC, init, wsum_replicate_idle wD rfl]⟩

theorem stepC_waiting (pol : Option Policy) (c : MC) (a : ActC)
    (hi : c.result = none → Waiting c) (h : (stepC pol c a).result = none) :
    Waiting (stepC pol c a) := by
  cases a with
  | callerCancel => simp [stepC] at h
  | execCancel =>
    simp only [stepC] at h ⊢
    split
    · rename_i hs
      split at h
      · simp only at h; rw [h] at hs; simp at hs
      · exact absurd hs ‹_›
    · exact hi (by split at h <;> first | exact h | (simp only at h; exact h))
  | ex a =>
    simp only [stepC] at h ⊢
    by_cases hd : c.attDone = true
    · simp only [hd, if_true] at h ⊢
      have w := hi h
      simp [MC.attDone, w.caller, w.exec] at hd
    · simp only [hd] at h ⊢
      cases a with
      | abort i => exact hi h
      | launch i =>
        simp only at h ⊢
        have hr : c.result = none := by
          cases hr : c.result with
          | none => rfl
          | some r => simp [hr] at h
        have w := hi hr
        have h' : returned pol c.m (.launch i) = none := by simpa [w.exec, hr] using h
        exact ⟨w.caller, w.exec, by
          have := returned_none_done pol c.m (.launch i) (by intro j; simp) h'
          show wsum wD (step pol c.m _).exs = 0
          rw [this]; exact w.none_done⟩
      | complete i r =>
        simp only at h ⊢
        have hr : c.result = none := by
          cases hr : c.result with
          | none => rfl
          | some r => simp [hr] at h
        have w := hi hr
        exact ⟨w.caller, w.exec, by
          have := returned_none_done pol c.m (.complete i r) (by intro j; simp) rfl
          show wsum wD (step pol c.m _).exs = 0
          rw [this]; exact w.none_done⟩
      | decide i =>
        simp only at h ⊢
        have hr : c.result = none := by
          cases hr : c.result with
          | none => rfl
          | some r => simp [hr] at h
        have w := hi hr
        have h' : returned pol c.m (.decide i) = none := by simpa [w.exec, hr] using h
        exact ⟨w.caller, w.exec, by
          have := returned_none_done pol c.m (.decide i) (by intro j; simp) h'
          show wsum wD (step pol c.m _).exs = 0
          rw [this]; exact w.none_done⟩

theorem runC_waiting (pol : Option Policy) :
    ∀ (sched : List ActC) (c : MC), (c.result = none → Waiting c) →
      (runC pol c sched).result = none → Waiting (runC pol c sched)
  | [], c, hi, h => hi h
  | a :: sched, c, hi, h => by
    simp only [runC, List.foldl_cons] at h ⊢
    exact runC_waiting pol sched _ (stepC_waiting pol c a hi) h

/-! ### the plain machine's invariants carry over -/

/-- every step of the machine with cancellation is a step of the plain machine, or leaves it alone -/
theorem stepC_m (pol : Option Policy) (c : MC) (a : ActC) :
    (stepC pol c a).m = c.m ∨ ∃ a', (stepC pol c a).m = step pol c.m a' := by
  cases a with
  | callerCancel => exact Or.inl rfl
  | execCancel => simp only [stepC]; split <;> exact Or.inl rfl
  | ex a =>
    simp only [stepC]
    split
    · exact Or.inr ⟨deaden a, rfl⟩
    · cases a with
      | abort i => exact Or.inl rfl
      | launch i => exact Or.inr ⟨.launch i, rfl⟩
      | complete i r => exact Or.inr ⟨.complete i r, rfl⟩
      | decide i => exact Or.inr ⟨.decide i, rfl⟩

theorem runC_acc (pol : Option Policy) (c0 e : Nat) :
    ∀ (sched : List ActC) (c : MC), Acc c0 e c.m → Acc c0 e (runC pol c sched).m
  | [], _, h => h
  | a :: sched, c, h => by
    simp only [runC, List.foldl_cons]
    refine runC_acc pol c0 e sched _ ?_
    rcases stepC_m pol c a with h1 | ⟨a', h1⟩
    · rw [h1]; exact h
    · rw [h1]; exact acc_step pol c0 e c.m a' h

theorem runC_inv (p : Policy) (N : Nat) (hp : ∀ m, p.attempt m = decide (m ≤ N)) (c0 e : Nat) :
    ∀ (sched : List ActC) (c : MC), Inv N c0 e c.m → Inv N c0 e (runC (some p) c sched).m
  | [], _, h => h
  | a :: sched, c, h => by
    simp only [runC, List.foldl_cons]
    refine runC_inv p N hp c0 e sched _ ?_
    rcases stepC_m (some p) c a with h1 | ⟨a', h1⟩
    · rw [h1]; exact h
    · rw [h1]; exact inv_step p N hp c0 e c.m a' h

/-! ### the consistency level under concurrent executions -/

theorem runK_c (pol : Option Policy) :
    ∀ (sched : List ActC) (k : MK), (runK pol k sched).c = runC pol k.c sched
  | [], _ => rfl
  | a :: sched, k => by
    simp only [runK, runC, List.foldl_cons]
    exact runK_c pol sched (stepK pol k a)

/-- a level the statement can have: its own, or one the policy sets -/
def Level (pol : Option Policy) (cons0 x : Nat) : Prop := x = cons0 ∨ ∃ p n, pol = some p ∧ p.newCons n = some x

theorem consAfter_level (pol : Option Policy) (cons0 : Nat) (k : MK) (a : ActC)
    (h : Level pol cons0 k.cons) : Level pol cons0 (consAfter pol k a) := by
  unfold consAfter
  split
  · rename_i _ _ i p _
    split
    · split
      · cases hn : p.newCons k.c.m.cnt with
        | none => simpa using h
        | some x => exact Or.inr ⟨p, _, rfl, by simpa using hn⟩
      · exact h
    · exact h
  · exact h

theorem stepK_level (pol : Option Policy) (cons0 : Nat) (k : MK) (a : ActC)
    (h : Level pol cons0 k.cons ∧ ∀ x ∈ k.reqCons, Level pol cons0 x) :
    Level pol cons0 (stepK pol k a).cons ∧ ∀ x ∈ (stepK pol k a).reqCons, Level pol cons0 x := by
  have h1 := consAfter_level pol cons0 k a h.1
  refine ⟨h1, ?_⟩
  intro x hx
  simp only [stepK] at hx
  split at hx
  · rcases List.mem_cons.mp hx with e | e
    · rw [e]; exact h1
    · exact h.2 x e
  · exact h.2 x hx

theorem runK_level (pol : Option Policy) (cons0 : Nat) :
    ∀ (sched : List ActC) (k : MK), (Level pol cons0 k.cons ∧ ∀ x ∈ k.reqCons, Level pol cons0 x) →
      Level pol cons0 (runK pol k sched).cons ∧ ∀ x ∈ (runK pol k sched).reqCons, Level pol cons0 x
  | [], _, h => h
  | a :: sched, k, h => by
    simp only [runK, List.foldl_cons]
    exact runK_level pol cons0 sched _ (stepK_level pol cons0 k a h)


end ExecutorConc
