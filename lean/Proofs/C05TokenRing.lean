import Model.TokenRing
/-! # C05, token strings from the network: lemmas — ParseString of the code that exists never yields a nil token -/
namespace C05TokenRing
open TokenRing

theorem parse_not_nil (p : Part) (s : Str) : (parse false p s).isNil = false := by
  cases p with
  | murmur3 => rfl
  | ordered => rfl
  | random =>
    simp only [parse]
    cases parseDec s <;> rfl

theorem any_nil_false (p : Part) (l : List Str) : (l.map (parse false p)).any Tok.isNil = false := by
  induction l with
  | nil => rfl
  | cons x xs ih => simp [List.any_cons, parse_not_nil, ih]

theorem ringOf_total (name : Str) (hosts : List (List Str)) (lookup : Str) :
    (ringOf false name hosts lookup).isCrash = false := by
  unfold ringOf
  cases partOf name with
  | none => rfl
  | some p =>
    simp only [any_nil_false, parse_not_nil, Bool.and_false, Bool.or_false, Bool.false_eq_true, if_false]
    rfl

end C05TokenRing
