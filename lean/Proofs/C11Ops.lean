import Model.Policies
import Proofs.C11Cow
import Proofs.C11Pol
import Proofs.C11Hist
import Proofs.C11Sess
/-! operation histories of the token-aware policy (`TAOp`, `TA.apply`) and what the operations leave alone;
the invariants "the table of a keyspace - ANY keyspace, after the repair of KF-C10-4 - into which nothing was
installed from outside only lists hosts of the policy's host list" (`TabFresh`) and
"the policy's host list = the hosts the history knows" -/
namespace C11
open Policies

inductive TAOp
  | add (h : Host) | remove (h : Host) | hostUp (h : Host) | hostDown (h : Host)
  | setReplicas (ks : Nat) (tab : List (Nat × List Host))      -- a replica table installed from outside (hook)
  | pick (up : Nat → Bool) (σ : List Host → List Host) (rk : Option (Nat × Nat)) (limit : Nat)
  | setCtr (n : Nat)     -- the fallback policy has served n picks already (hook VerifSetPickCount)
  | keyspaceChanged (ks : Nat)                                 -- `KeyspaceChanged`
  | setMeta (ks : Nat) (v : Option (Option Nat))               -- the keyspace metadata changes (no call into the policy)

def _root_.Policies.TA.apply (t : TA) : TAOp → TA
  | .add h => t.add h
  | .remove h => t.remove h
  | .hostUp h => t.hostUp h
  | .hostDown h => t.hostDown h
  | .setReplicas ks tab => t.setReplicas ks tab
  | .pick up σ rk limit => (t.pick up σ rk limit).1
  | .setCtr n => { t with pol := t.pol.setCtr n }
  | .keyspaceChanged ks => t.keyspaceChanged ks
  | .setMeta ks v => t.setMeta ks v

/-! ### what `updateReplicas` / `refresh` / `Pick` leave alone -/

theorem updateReplicas_fields (t : TA) (ks : Nat) :
    (t.updateReplicas ks).pol = t.pol ∧ (t.updateReplicas ks).shuffle = t.shuffle ∧
    (t.updateReplicas ks).nonlocal = t.nonlocal ∧ (t.updateReplicas ks).partSet = t.partSet ∧
    (t.updateReplicas ks).hosts = t.hosts ∧ (t.updateReplicas ks).sessKs = t.sessKs ∧
    (t.updateReplicas ks).ksMeta = t.ksMeta := by
  unfold TA.updateReplicas
  simp only
  repeat' split
  all_goals exact ⟨rfl, rfl, rfl, rfl, rfl, rfl, rfl⟩

theorem foldl_updateReplicas_fields (keys : List Nat) (t : TA) :
    (keys.foldl TA.updateReplicas t).pol = t.pol ∧ (keys.foldl TA.updateReplicas t).shuffle = t.shuffle ∧
    (keys.foldl TA.updateReplicas t).nonlocal = t.nonlocal ∧ (keys.foldl TA.updateReplicas t).partSet = t.partSet ∧
    (keys.foldl TA.updateReplicas t).hosts = t.hosts ∧ (keys.foldl TA.updateReplicas t).sessKs = t.sessKs ∧
    (keys.foldl TA.updateReplicas t).ksMeta = t.ksMeta := by
  induction keys generalizing t with
  | nil => exact ⟨rfl, rfl, rfl, rfl, rfl, rfl, rfl⟩
  | cons k r ih =>
    rw [List.foldl_cons]
    obtain ⟨a, b, c, d, e, f, g⟩ := ih (t.updateReplicas k)
    obtain ⟨a', b', c', d', e', f', g'⟩ := updateReplicas_fields t k
    exact ⟨a.trans a', b.trans b', c.trans c', d.trans d', e.trans e', f.trans f', g.trans g'⟩

theorem refresh_fields (t : TA) :
    t.refresh.pol = t.pol ∧ t.refresh.shuffle = t.shuffle ∧ t.refresh.nonlocal = t.nonlocal ∧
    t.refresh.partSet = t.partSet ∧ t.refresh.hosts = t.hosts ∧ t.refresh.sessKs = t.sessKs ∧
    t.refresh.ksMeta = t.ksMeta := foldl_updateReplicas_fields t.refreshKeys t

theorem add_fields (t : TA) (h : Host) :
    (t.add h).pol = t.pol.add h ∧ (t.add h).shuffle = t.shuffle ∧ (t.add h).nonlocal = t.nonlocal ∧
    (t.add h).partSet = t.partSet ∧ (t.add h).hosts = (cowAdd t.hosts h).1 ∧ (t.add h).sessKs = t.sessKs := by
  have hr := refresh_fields { t with hosts := (cowAdd t.hosts h).1 }
  unfold TA.add
  refine ⟨rfl, ?_, ?_, ?_, ?_, ?_⟩ <;> simp only <;> split
  all_goals first | rfl | exact hr.2.1 | exact hr.2.2.1 | exact hr.2.2.2.1 | exact hr.2.2.2.2.1 | exact hr.2.2.2.2.2.1

theorem remove_fields (t : TA) (h : Host) :
    (t.remove h).pol = t.pol.remove h ∧ (t.remove h).shuffle = t.shuffle ∧ (t.remove h).nonlocal = t.nonlocal ∧
    (t.remove h).partSet = t.partSet ∧ (t.remove h).hosts = (cowRemove t.hosts h.addr).1 ∧ (t.remove h).sessKs = t.sessKs := by
  have hr := refresh_fields { t with hosts := (cowRemove t.hosts h.addr).1 }
  unfold TA.remove
  refine ⟨rfl, ?_, ?_, ?_, ?_, ?_⟩ <;> simp only <;> split
  all_goals first | rfl | exact hr.2.1 | exact hr.2.2.1 | exact hr.2.2.2.1 | exact hr.2.2.2.2.1 | exact hr.2.2.2.2.2.1

theorem pick_pol (t : TA) (up : Nat → Bool) (σ : List Host → List Host) (rk : Option (Nat × Nat)) (limit : Nat) :
    (t.pick up σ rk limit).1.pol = t.pol ∨ (t.pick up σ rk limit).1.pol = t.pol.bump := by
  unfold TA.pick
  simp only
  repeat' split
  all_goals first | exact Or.inl rfl | exact Or.inr rfl

theorem pick_fields (t : TA) (up : Nat → Bool) (σ : List Host → List Host) (rk : Option (Nat × Nat)) (limit : Nat) :
    (t.pick up σ rk limit).1.nonlocal = t.nonlocal ∧ (t.pick up σ rk limit).1.shuffle = t.shuffle ∧
    (t.pick up σ rk limit).1.hosts = t.hosts ∧ (t.pick up σ rk limit).1.replicas = t.replicas ∧
    (t.pick up σ rk limit).1.sessKs = t.sessKs ∧ (t.pick up σ rk limit).1.partSet = t.partSet := by
  unfold TA.pick
  simp only
  repeat' split
  all_goals exact ⟨rfl, rfl, rfl, rfl, rfl, rfl⟩

/-- no operation changes the options or the session keyspace -/
theorem apply_opts (t : TA) (o : TAOp) :
    (t.apply o).nonlocal = t.nonlocal ∧ (t.apply o).shuffle = t.shuffle ∧ (t.apply o).sessKs = t.sessKs ∧
    (t.apply o).partSet = t.partSet := by
  cases o with
  | add h => exact ⟨(add_fields t h).2.2.1, (add_fields t h).2.1, (add_fields t h).2.2.2.2.2, (add_fields t h).2.2.2.1⟩
  | remove h => exact ⟨(remove_fields t h).2.2.1, (remove_fields t h).2.1, (remove_fields t h).2.2.2.2.2, (remove_fields t h).2.2.2.1⟩
  | hostUp h => exact ⟨rfl, rfl, rfl, rfl⟩
  | hostDown h => exact ⟨rfl, rfl, rfl, rfl⟩
  | setReplicas ks tab => exact ⟨rfl, rfl, rfl, rfl⟩
  | pick up σ rk limit =>
    obtain ⟨a, b, _, _, c, d⟩ := pick_fields t up σ rk limit
    exact ⟨a, b, c, d⟩
  | setCtr n => exact ⟨rfl, rfl, rfl, rfl⟩
  | keyspaceChanged ks =>
    obtain ⟨_, a, b, c, _, d, _⟩ := updateReplicas_fields t ks
    exact ⟨b, a, d, c⟩
  | setMeta ks v => exact ⟨rfl, rfl, rfl, rfl⟩

theorem run_opts (t : TA) (ops : List TAOp) :
    (ops.foldl TA.apply t).nonlocal = t.nonlocal ∧ (ops.foldl TA.apply t).shuffle = t.shuffle ∧
    (ops.foldl TA.apply t).sessKs = t.sessKs ∧ (ops.foldl TA.apply t).partSet = t.partSet := by
  induction ops generalizing t with
  | nil => exact ⟨rfl, rfl, rfl, rfl⟩
  | cons o r ih =>
    rw [List.foldl_cons]
    obtain ⟨a, b, c, d⟩ := ih (t.apply o)
    obtain ⟨a', b', c', d'⟩ := apply_opts t o
    exact ⟨a.trans a', b.trans b', c.trans c', d.trans d'⟩

/-- the fallback policy after an operation -/
theorem apply_pol (t : TA) (o : TAOp) :
    (t.apply o).pol = match o with
      | .add h => t.pol.add h
      | .remove h => t.pol.remove h
      | .hostUp h => t.pol.add h
      | .hostDown h => t.pol.remove h
      | .setCtr n => t.pol.setCtr n
      | .pick up σ rk limit => (t.pick up σ rk limit).1.pol
      | _ => t.pol := by
  cases o with
  | add h => exact (add_fields t h).1
  | remove h => exact (remove_fields t h).1
  | keyspaceChanged ks => exact (updateReplicas_fields t ks).1
  | _ => rfl

/-! ### every replica table the policy computed itself is fresh (after the repair of KF-C10-4) -/

/-- every host listed by the table of keyspace `ks` is in the policy's own host list -/
def TabFresh (t : TA) (ks : Nat) : Prop :=
  ∀ e ∈ t.replicas, e.1 = ks → ∀ f ∈ e.2, ∀ x ∈ f.2, x ∈ t.hosts

/-- the table `updateReplicas` computes lists hosts of the host list only; the other tables are kept -/
theorem updateReplicas_replicas (t : TA) (ks : Nat) (e : Nat × List (Nat × List Host)) (he : e ∈ (t.updateReplicas ks).replicas) :
    (e.1 = ks ∧ ∀ f ∈ e.2, ∀ x ∈ f.2, x ∈ t.hosts) ∨ (e.1 ≠ ks ∧ e ∈ t.replicas) := by
  have hrest : ∀ e, e ∈ t.replicas.filter (fun e => e.1 != ks) → e.1 ≠ ks ∧ e ∈ t.replicas := by
    intro e he
    rw [List.mem_filter] at he
    exact ⟨by simpa using he.2, he.1⟩
  unfold TA.updateReplicas at he
  simp only at he
  split at he
  · split at he
    · simp only [List.mem_cons] at he
      rcases he with he | he
      · left
        subst he
        refine ⟨rfl, ?_⟩
        intro f hf x hx
        rw [mem_sortByTok] at hf
        obtain ⟨en, hen, rfl⟩ := simpleMap_sub _ _ f hf x hx
        exact ringOf_sub t.hosts en hen
      · exact Or.inr (hrest e he)
    · exact Or.inr (hrest e he)
  · exact Or.inr (hrest e he)

theorem tabFresh_updateReplicas (t : TA) (k ks : Nat) (hf : TabFresh t ks) : TabFresh (t.updateReplicas k) ks := by
  intro e he hes f hfe x hx
  rw [(updateReplicas_fields t k).2.2.2.2.1]
  rcases updateReplicas_replicas t k e he with ⟨_, h2⟩ | ⟨_, h2⟩
  · exact h2 f hfe x hx
  · exact hf e h2 hes f hfe x hx

/-- `KeyspaceChanged(ks)` makes the table of `ks` fresh whatever it was before -/
theorem tabFresh_keyspaceChanged (t : TA) (ks : Nat) : TabFresh (t.updateReplicas ks) ks := by
  intro e he hes f hfe x hx
  rw [(updateReplicas_fields t ks).2.2.2.2.1]
  rcases updateReplicas_replicas t ks e he with ⟨_, h2⟩ | ⟨h1, _⟩
  · exact h2 f hfe x hx
  · exact absurd hes h1

/-- the tables after `updateReplicas` for a list of keyspaces: recomputed (fresh) for those, untouched for the others -/
theorem foldl_updateReplicas_replicas (keys : List Nat) (t : TA) (e : Nat × List (Nat × List Host))
    (he : e ∈ (keys.foldl TA.updateReplicas t).replicas) :
    (e.1 ∈ keys ∧ ∀ f ∈ e.2, ∀ x ∈ f.2, x ∈ t.hosts) ∨ (e.1 ∉ keys ∧ e ∈ t.replicas) := by
  induction keys generalizing t with
  | nil => exact Or.inr ⟨by simp, he⟩
  | cons k r ih =>
    rw [List.foldl_cons] at he
    rcases ih (t.updateReplicas k) he with ⟨h1, h2⟩ | ⟨h1, h2⟩
    · left
      refine ⟨List.mem_cons_of_mem _ h1, ?_⟩
      rw [← (updateReplicas_fields t k).2.2.2.2.1]
      exact h2
    · rcases updateReplicas_replicas t k e h2 with ⟨h3, h4⟩ | ⟨h3, h4⟩
      · exact Or.inl ⟨by rw [h3]; exact List.mem_cons_self, h4⟩
      · right
        refine ⟨?_, h4⟩
        intro hm
        rcases List.mem_cons.mp hm with hm | hm
        · exact h3 hm
        · exact h1 hm

/-- every keyspace a table is held for is among the keyspaces `refresh` recomputes -/
theorem mem_refreshKeys (t : TA) (e : Nat × List (Nat × List Host)) (he : e ∈ t.replicas) : e.1 ∈ t.refreshKeys := by
  unfold TA.refreshKeys
  rw [List.mem_append]
  by_cases h : t.sessKs = some e.1
  · left; rw [h]; exact List.mem_singleton.mpr rfl
  · right
    rw [List.mem_filter]
    exact ⟨List.mem_map.mpr ⟨e, he, rfl⟩, by simpa using h⟩

/-- after `refresh` (= `updateAllReplicas`) the table of EVERY keyspace is fresh whatever it was before -/
theorem tabFresh_refresh (t : TA) (ks : Nat) : TabFresh t.refresh ks := by
  intro e he _ f hfe x hx
  rw [(refresh_fields t).2.2.2.2.1]
  rcases foldl_updateReplicas_replicas t.refreshKeys t e he with ⟨_, h2⟩ | ⟨h1, h2⟩
  · exact h2 f hfe x hx
  · exact absurd (mem_refreshKeys t e h2) h1

theorem tabFresh_add (t : TA) (h : Host) (ks : Nat) (hf : TabFresh t ks) : TabFresh (t.add h) ks := by
  unfold TA.add
  simp only
  split
  · intro e he hes f hfe x hx
    exact tabFresh_refresh { t with hosts := (cowAdd t.hosts h).1 } ks e he hes f hfe x hx
  · rename_i hc
    have : (cowAdd t.hosts h).1 = t.hosts := by
      unfold cowAdd at hc ⊢
      split <;> simp_all
    intro e he hes f hfe x hx
    simp only [this]
    exact hf e he hes f hfe x hx

theorem tabFresh_remove (t : TA) (h : Host) (ks : Nat) (hf : TabFresh t ks) : TabFresh (t.remove h) ks := by
  unfold TA.remove
  simp only
  split
  · intro e he hes f hfe x hx
    exact tabFresh_refresh { t with hosts := (cowRemove t.hosts h.addr).1 } ks e he hes f hfe x hx
  · rename_i hc
    have : (cowRemove t.hosts h.addr).1 = t.hosts := by
      unfold cowRemove at hc ⊢
      split <;> simp_all
    intro e he hes f hfe x hx
    simp only [this]
    exact hf e he hes f hfe x hx

/-- the operation does not install a table for keyspace `ks` from outside -/
def TAOp.noInject (ks : Nat) : TAOp → Prop
  | .setReplicas k _ => k ≠ ks
  | _ => True

theorem tabFresh_apply (t : TA) (o : TAOp) (ks : Nat) (hf : TabFresh t ks) (hn : o.noInject ks) :
    TabFresh (t.apply o) ks := by
  cases o with
  | add h => exact tabFresh_add t h ks hf
  | remove h => exact tabFresh_remove t h ks hf
  | hostUp h => exact hf
  | hostDown h => exact hf
  | setReplicas k tab =>
    intro e he hes f hfe x hx
    have hks : k ≠ ks := hn
    simp only [TA.apply, TA.setReplicas, List.mem_cons] at he
    rcases he with he | he
    · subst he; exact absurd hes hks
    · rw [List.mem_filter] at he
      exact hf e he.1 hes f hfe x hx
  | pick up σ rk limit =>
    intro e he hes f hfe x hx
    obtain ⟨_, _, h3, h4, _, _⟩ := pick_fields t up σ rk limit
    simp only [TA.apply] at he ⊢
    rw [h4] at he
    rw [h3]
    exact hf e he hes f hfe x hx
  | setCtr n => exact hf
  | keyspaceChanged k => exact tabFresh_updateReplicas t k ks hf
  | setMeta k v => exact hf

/-- along any history that installs no table for `ks` from outside, the table of `ks` - session keyspace or
not - only lists hosts of the policy's own host list -/
theorem tabFresh_run (ops : List TAOp) (t : TA) (ks : Nat) (hf : TabFresh t ks)
    (hn : ∀ o ∈ ops, o.noInject ks) : TabFresh (ops.foldl TA.apply t) ks := by
  induction ops generalizing t with
  | nil => exact hf
  | cons o r ih =>
    rw [List.foldl_cons]
    apply ih
    · exact tabFresh_apply t o ks hf (hn o List.mem_cons_self)
    · intro o' ho'
      exact hn o' (List.mem_cons_of_mem _ ho')

/-! ### tables installed from outside (hook) and when the policy replaces them -/

/-- the keyspaces whose CURRENT table was installed from outside and has not been recomputed by the policy since:
`setReplicas ks` marks `ks`, `KeyspaceChanged ks` clears `ks`, an `AddHost` / `RemoveHost` that changes the policy's
host list (ring change: `updateAllReplicas`) clears all -/
def dirtyStep (t : TA) (d : List Nat) : TAOp → List Nat
  | .setReplicas ks _ => ks :: d
  | .keyspaceChanged ks => d.filter (fun k => k != ks)
  | .add h => if (cowAdd t.hosts h).2 then [] else d
  | .remove h => if (cowRemove t.hosts h.addr).2 then [] else d
  | _ => d

/-- run a history keeping the set of `dirtyStep` next to the policy state -/
def runDirty : TA × List Nat → List TAOp → TA × List Nat
  | s, [] => s
  | s, o :: r => runDirty (s.1.apply o, dirtyStep s.1 s.2 o) r

theorem runDirty_fst (s : TA × List Nat) (ops : List TAOp) : (runDirty s ops).1 = ops.foldl TA.apply s.1 := by
  induction ops generalizing s with
  | nil => rfl
  | cons o r ih => rw [runDirty, ih, List.foldl_cons]

/-- the keyspaces with an installed, not yet recomputed table after the history `ops` from a new policy -/
def dirtyOf (t0 : TA) (ops : List TAOp) : List Nat := (runDirty (t0, []) ops).2

theorem tabFresh_add_changed (t : TA) (h : Host) (ks : Nat) (hc : (cowAdd t.hosts h).2 = true) : TabFresh (t.add h) ks := by
  unfold TA.add
  simp only [hc, if_true]
  intro e he hes f hfe x hx
  exact tabFresh_refresh { t with hosts := (cowAdd t.hosts h).1 } ks e he hes f hfe x hx

theorem tabFresh_remove_changed (t : TA) (h : Host) (ks : Nat) (hc : (cowRemove t.hosts h.addr).2 = true) : TabFresh (t.remove h) ks := by
  unfold TA.remove
  simp only [hc, if_true]
  intro e he hes f hfe x hx
  exact tabFresh_refresh { t with hosts := (cowRemove t.hosts h.addr).1 } ks e he hes f hfe x hx

theorem dirty_apply (t : TA) (d : List Nat) (o : TAOp) (hf : ∀ ks, ks ∉ d → TabFresh t ks) :
    ∀ ks, ks ∉ dirtyStep t d o → TabFresh (t.apply o) ks := by
  intro ks hks
  cases o with
  | add h =>
    simp only [dirtyStep] at hks
    by_cases hc : (cowAdd t.hosts h).2 = true
    · exact tabFresh_add_changed t h ks hc
    · rw [if_neg hc] at hks
      exact tabFresh_add t h ks (hf ks hks)
  | remove h =>
    simp only [dirtyStep] at hks
    by_cases hc : (cowRemove t.hosts h.addr).2 = true
    · exact tabFresh_remove_changed t h ks hc
    · rw [if_neg hc] at hks
      exact tabFresh_remove t h ks (hf ks hks)
  | keyspaceChanged k =>
    simp only [dirtyStep, List.mem_filter, not_and, bne_iff_ne, ne_eq, Decidable.not_not] at hks
    by_cases hk : ks = k
    · subst hk; exact tabFresh_keyspaceChanged t ks
    · exact tabFresh_updateReplicas t k ks (hf ks (fun hm => hk (hks hm)))
  | setReplicas k tab =>
    simp only [dirtyStep, List.mem_cons, not_or] at hks
    exact tabFresh_apply t (.setReplicas k tab) ks (hf ks hks.2) (fun e => hks.1 e.symm)
  | hostUp h => exact tabFresh_apply t _ ks (hf ks hks) trivial
  | hostDown h => exact tabFresh_apply t _ ks (hf ks hks) trivial
  | pick up σ rk limit => exact tabFresh_apply t _ ks (hf ks hks) trivial
  | setCtr n => exact tabFresh_apply t _ ks (hf ks hks) trivial
  | setMeta k v => exact tabFresh_apply t _ ks (hf ks hks) trivial

theorem dirty_run (ops : List TAOp) (s : TA × List Nat) (hf : ∀ ks, ks ∉ s.2 → TabFresh s.1 ks) :
    ∀ ks, ks ∉ (runDirty s ops).2 → TabFresh (runDirty s ops).1 ks := by
  induction ops generalizing s with
  | nil => exact hf
  | cons o r ih => exact ih (s.1.apply o, dirtyStep s.1 s.2 o) (dirty_apply s.1 s.2 o hf)

/-- a history that installs no table for `ks` from outside leaves `ks` clean -/
theorem dirtyStep_noInject (t : TA) (d : List Nat) (o : TAOp) (ks : Nat) (hd : ks ∉ d) (hn : o.noInject ks) :
    ks ∉ dirtyStep t d o := by
  cases o with
  | add h => simp only [dirtyStep]; split <;> simp [hd]
  | remove h => simp only [dirtyStep]; split <;> simp [hd]
  | keyspaceChanged k => simp only [dirtyStep, List.mem_filter]; exact fun h => hd h.1
  | setReplicas k tab =>
    simp only [dirtyStep, List.mem_cons, not_or]
    exact ⟨fun e => hn e.symm, hd⟩
  | _ => exact hd

theorem runDirty_noInject (ops : List TAOp) (s : TA × List Nat) (ks : Nat) (hd : ks ∉ s.2)
    (hn : ∀ o ∈ ops, o.noInject ks) : ks ∉ (runDirty s ops).2 := by
  induction ops generalizing s with
  | nil => exact hd
  | cons o r ih =>
    exact ih (s.1.apply o, dirtyStep s.1 s.2 o) (dirtyStep_noInject s.1 s.2 o ks hd (hn o List.mem_cons_self))
      (fun o' ho' => hn o' (List.mem_cons_of_mem _ ho'))

/-! ### the policy's own host list against the history -/

def TAOp.ev : TAOp → Option (Ev × Host)
  | .add h => some (.add, h)
  | .remove h => some (.remove, h)
  | .hostUp h => some (.hup, h)
  | .hostDown h => some (.hdown, h)
  | _ => none

/-- the notifier calls of an operation history, oldest first -/
def evsOf (ops : List TAOp) : List (Ev × Host) := ops.filterMap TAOp.ev
def hostsOf (ops : List TAOp) : List Host := (evsOf ops).map (·.2)
def NoAlias (ops : List TAOp) : Prop := ∀ a ∈ hostsOf ops, ∀ b ∈ hostsOf ops, a.addr = b.addr → a = b

/-- what an operation does to the policy's own host list -/
theorem apply_hosts (t : TA) (o : TAOp) :
    (t.apply o).hosts = match o with
      | .add h => (cowAdd t.hosts h).1
      | .remove h => (cowRemove t.hosts h.addr).1
      | _ => t.hosts := by
  cases o with
  | add h => exact (add_fields t h).2.2.2.2.1
  | remove h => exact (remove_fields t h).2.2.2.2.1
  | pick up σ rk limit => exact (pick_fields t up σ rk limit).2.2.1
  | keyspaceChanged ks => exact (updateReplicas_fields t ks).2.2.2.2.1
  | _ => rfl

/-- the invariant tying the policy's own host list to the history: it lists exactly the hosts that were added
and not removed since (`Status.known`), along any operation history of hosts with pairwise different addresses -/
theorem hostsHist_run (U : Host → Prop) (hU : ∀ a b, U a → U b → a.addr = b.addr → a = b) (ops : List TAOp) :
    ∀ (t : TA) (S0 : Host → Status),
    (∀ o ∈ ops, ∀ e h, o.ev = some (e, h) → U h) → (∀ x ∈ t.hosts, U x) →
    (∀ x, x ∈ t.hosts ↔ (S0 x).known = true) →
    ∀ x, x ∈ (ops.foldl TA.apply t).hosts ↔ (statusFrom (S0 x) (evsOf ops) x).known = true := by
  induction ops with
  | nil => intro t S0 _ _ hs; exact hs
  | cons o r ih =>
    intro t S0 hops hk hs
    have hr : ∀ o ∈ r, ∀ e h, o.ev = some (e, h) → U h := fun o ho => hops o (List.mem_cons_of_mem _ ho)
    rw [List.foldl_cons]
    have same : (t.apply o).hosts = t.hosts → o.ev = none ∨ (∃ h, o.ev = some (.hup, h)) ∨ (∃ h, o.ev = some (.hdown, h)) →
        ∀ x, x ∈ ((r.foldl TA.apply (t.apply o)).hosts) ↔ (statusFrom (S0 x) (evsOf (o :: r)) x).known = true := by
      intro e1 e2 x
      have hev : evsOf (o :: r) = (match o.ev with | some e => [e] | none => []) ++ evsOf r := by
        unfold evsOf
        rw [List.filterMap_cons]
        cases o.ev <;> rfl
      rcases e2 with e2 | ⟨h, e2⟩ | ⟨h, e2⟩
      · rw [hev, e2]
        exact ih (t.apply o) S0 hr (by rw [e1]; exact hk) (by rw [e1]; exact hs) x
      · rw [hev, e2]
        simp only [List.cons_append, List.nil_append, statusFrom_cons]
        have := ih (t.apply o) (fun x => if h = x then (S0 x).step .hup else S0 x) hr (by rw [e1]; exact hk)
          (by intro y; rw [e1, hs y]; split <;> simp [Status.step]) x
        exact this
      · rw [hev, e2]
        simp only [List.cons_append, List.nil_append, statusFrom_cons]
        have := ih (t.apply o) (fun x => if h = x then (S0 x).step .hdown else S0 x) hr (by rw [e1]; exact hk)
          (by intro y; rw [e1, hs y]; split <;> simp [Status.step]) x
        exact this
    cases o with
    | add h =>
      intro x
      have hh : U h := hops _ List.mem_cons_self .add h rfl
      have e1 : (t.apply (.add h)).hosts = (cowAdd t.hosts h).1 := apply_hosts t (.add h)
      have hm : ∀ y, y ∈ (cowAdd t.hosts h).1 ↔ y ∈ t.hosts ∨ y = h := by
        intro y
        rw [mem_cowAdd]
        constructor
        · rintro (h1 | ⟨h1, _⟩)
          · exact Or.inl h1
          · exact Or.inr h1
        · rintro (h1 | h1)
          · exact Or.inl h1
          · by_cases hin : h ∈ t.hosts
            · exact Or.inl (h1 ▸ hin)
            · refine Or.inr ⟨h1, fun z hz e => hin ?_⟩
              rw [← hU z h (hk z hz) hh e]; exact hz
      have hev : evsOf (TAOp.add h :: r) = (.add, h) :: evsOf r := rfl
      rw [hev, statusFrom_cons]
      exact ih (t.apply (.add h)) (fun x => if h = x then (S0 x).step .add else S0 x) hr
        (by intro y hy; rw [e1, hm] at hy; rcases hy with hy | hy; exact hk y hy; exact hy ▸ hh)
        (by
          intro y; rw [e1, hm y, hs y]
          by_cases hy : h = y
          · simp [hy, Status.step]
          · simp only [if_neg hy]
            exact ⟨fun h1 => h1.elim id (fun e => absurd e.symm hy), Or.inl⟩) x
    | remove h =>
      intro x
      have hh : U h := hops _ List.mem_cons_self .remove h rfl
      have e1 : (t.apply (.remove h)).hosts = (cowRemove t.hosts h.addr).1 := apply_hosts t (.remove h)
      have hm : ∀ y, y ∈ (cowRemove t.hosts h.addr).1 ↔ y ∈ t.hosts ∧ y ≠ h := by
        intro y
        rw [mem_cowRemove]
        constructor
        · rintro ⟨h1, h2⟩; exact ⟨h1, fun e => h2 (by rw [e])⟩
        · rintro ⟨h1, h2⟩; exact ⟨h1, fun e => h2 (hU y h (hk y h1) hh e)⟩
      have hev : evsOf (TAOp.remove h :: r) = (.remove, h) :: evsOf r := rfl
      rw [hev, statusFrom_cons]
      exact ih (t.apply (.remove h)) (fun x => if h = x then (S0 x).step .remove else S0 x) hr
        (by intro y hy; rw [e1, hm] at hy; exact hk y hy.1)
        (by
          intro y; rw [e1, hm y, hs y]
          by_cases hy : h = y
          · simp [hy, Status.step]
          · simp only [if_neg hy]
            exact ⟨fun h1 => h1.1, fun h1 => ⟨h1, fun e => hy e.symm⟩⟩) x
    | hostUp h => exact same rfl (Or.inr (Or.inl ⟨h, rfl⟩))
    | hostDown h => exact same rfl (Or.inr (Or.inr ⟨h, rfl⟩))
    | setReplicas ks tab => exact same rfl (Or.inl rfl)
    | pick up σ rk limit => exact same (apply_hosts t _) (Or.inl rfl)
    | setCtr n => exact same rfl (Or.inl rfl)
    | keyspaceChanged ks => exact same (apply_hosts t _) (Or.inl rfl)
    | setMeta ks v => exact same rfl (Or.inl rfl)

end C11
