import Proofs.C01Mux
import Proofs.C06Pipe
import Proofs.C06Lock
import Proofs.C06Exec
import Proofs.C06Ctl
/-!
# C06 — every request ends exactly once; streams are never leaked (property theorems)

Same machine as C01 (`Model/Mux.lean`). Wall-clock bounds ("within a bounded time") are not
expressible; the harness measures them with a watchdog (supporting evidence, see props/C06.json).
-/
namespace C06
open Mux

/-- a request's outcome is set at most once: once a call is done, no schedule changes its outcome -/
theorem C06_exactly_one_outcome (as : List Act) (st st' : St) (c : Nat) (o : Outcome)
    (hd : st.pc c = .done o) (hr : run st as = some st') : st'.pc c = .done o :=
  done_run as st st' c o hd hr

/-- each acquired id is released at most once (so the allocator's "negative streams" panic is unreachable) -/
theorem C06_release_once (cap : Nat) (as : List Act) (st : St) (h : run (init cap) as = some st) (c : Nat) :
    st.clears c ≤ 1 := (inv_run as _ st (inv_init cap) h).clears_le c

/-- … and exactly once, with the id free again, when its response was consumed -/
theorem C06_released_when_consumed (cap : Nat) (as : List Act) (st : St) (h : run (init cap) as = some st)
    (d c k w : Nat) (hr : st.pc d = .done (.resp c k w)) : st.clears d = 1 ∧ ∀ s, st.owner s ≠ some d := by
  have inv := inv_run as _ st (inv_init cap) h
  refine ⟨inv.resp_clear d c k w hr, ?_⟩
  intro s hs
  have := inv.own_pc s d hs
  have := inv.resp_clear d c k w hr
  omega

/-- a connection with nothing outstanding has its full complement of ids: an id is only reserved by a call
    that is still in flight, or by one that gave up waiting while its response has not come (yet) -/
theorem C06_quiescent_full (cap : Nat) (as : List Act) (st : St) (h : run (init cap) as = some st)
    (hq : ∀ c s, st.pc c ≠ .acquired s ∧ st.pc c ≠ .waiting s) (hab : ∀ c, st.abandoned c = false) :
    ∀ s, st.owner s = none := by
  intro s
  have inv := inv_run as _ st (inv_init cap) h
  cases ho : st.owner s with
  | none => rfl
  | some c =>
    have := inv.own_pc s c ho
    have := hq c s
    have := hab c
    grind

/-- closing unblocks every waiting caller: after `close`, `connDone` is enabled for each of them -/
theorem C06_close_unblocks (st : St) (c s : Nat) (hc : st.closed = true) (hw : st.pc c = .waiting s) :
    (step st (.connDone c)).isSome = true := by
  simp [step, hw, hc]

/-- a waiting caller is never stuck: its timer (an environment action) is always enabled -/
theorem C06_waiting_never_stuck (st : St) (c s : Nat) (hw : st.pc c = .waiting s) :
    (step st (.timeout c)).isSome = true := by
  simp [step, hw]

/-! ## The finer receive pipeline (`Model/MuxPipe.lean`): `deliver` split into recvHeader / recvBody* / recvBodyEnd
    and the three arms of recv's final select, with a caller giving up (`timeout` / `cancel` / `connDone`)
    between ANY two of them. All theorems: every action list of the fine machine. -/

/-- a caller can give up at every point of its response's journey: its timer and its context are enabled
    whatever the receive loop is doing (reading the header, in the middle of the body, in the final select) -/
theorem C06_pipe_giveup_anywhere (st : MuxPipe.St) (c s : Nat) (hw : st.m.pc c = .waiting s) :
    (MuxPipe.step st (.mux (.timeout c))).isSome = true ∧ (MuxPipe.step st (.mux (.cancel c))).isSome = true := by
  simp [MuxPipe.step, Mux.step, hw, MuxPipe.closesTimeout]

/-- the receive loop never blocks forever in its final select — and needs neither the server nor a closer for
    that: whenever it holds a response for call `d`, either `d` is in its select (the hand-over is a rendezvous)
    or `d` has closed its timeout channel (recv releases the id itself). Restates `C06_waiting_never_stuck`
    for the receiver; this is the theorem that seeded change C06-5 falsifies (`C06_pipe_probe_early_stuck`). -/
theorem C06_pipe_recv_never_stuck (cap : Nat) (as : List MuxPipe.Act) (st : MuxPipe.St)
    (h : MuxPipe.run (MuxPipe.init cap) as = some st) (s d c k w : Nat) (hr : st.rcv = .hand s d c k w) :
    (MuxPipe.step st .handResp).isSome = true ∨ (MuxPipe.step st .handGone).isSome = true := by
  have inv := MuxPipe.pinv_run as _ st (MuxPipe.pinv_init cap) h
  obtain ⟨hw, ho⟩ := inv.held_wire s d c k w (Or.inr hr)
  have hp := inv.base.own_pc s d ho
  have ha := inv.base.acq_wire d s
  rcases hp.2.2.2 with hp | hp | ⟨_, o, hp⟩
  · have := ha hp; simp [hw] at this
  · left; simp [MuxPipe.step, hr, hp]
  · right; have := inv.done_tc s d o ho hp; simp [MuxPipe.step, hr, this]

/-- whichever of the two arms is taken, the id is released exactly once and the receive loop goes on: after
    the hand-over the id is free, its release count is 1, and recv is reading the next header … -/
theorem C06_pipe_handover_releases (cap : Nat) (as : List MuxPipe.Act) (st st' : MuxPipe.St)
    (h : MuxPipe.run (MuxPipe.init cap) as = some st) (s d c k w : Nat) (hr : st.rcv = .hand s d c k w)
    (a : MuxPipe.Act) (ha : a = .handResp ∨ a = .handGone) (hs : MuxPipe.step st a = some st') :
    st'.m.owner s = none ∧ st'.m.clears d = 1 ∧ st'.rcv = .idle := by
  have inv := MuxPipe.pinv_run as _ st (MuxPipe.pinv_init cap) h
  obtain ⟨hw, ho⟩ := inv.held_wire s d c k w (Or.inr hr)
  have hc := (inv.base.own_pc s d ho).1
  rcases ha with ha | ha <;> subst ha <;> simp only [MuxPipe.step, hr] at hs <;> split at hs <;>
    first | (simp at hs; done) | (injection hs with hs; subst hs; simp [upd, hc])

/-- … and the caller that was still in its select got the response of ITS OWN request -/
theorem C06_pipe_handover_routing (cap : Nat) (as : List MuxPipe.Act) (st st' : MuxPipe.St)
    (h : MuxPipe.run (MuxPipe.init cap) as = some st) (s d c k w : Nat) (hr : st.rcv = .hand s d c k w)
    (hs : MuxPipe.step st .handResp = some st') : c = d ∧ st'.m.pc d = .done (.resp d k w) ∧ st.m.sent d = some (k, w) := by
  have inv := MuxPipe.pinv_run as _ st (MuxPipe.pinv_init cap) h
  obtain ⟨hw, ho⟩ := inv.held_wire s d c k w (Or.inr hr)
  have hcd : c = d := by
    have := inv.base.wire_own s
    grind
  subst hcd
  refine ⟨rfl, ?_, inv.base.ans_sent s c k w hw⟩
  simp only [MuxPipe.step, hr] at hs
  split at hs
  · injection hs with hs; subst hs; simp [upd]
  · simp at hs

/-- each acquired id is released at most once on every schedule of the fine machine (`C06_release_once` restated) -/
theorem C06_pipe_release_once (cap : Nat) (as : List MuxPipe.Act) (st : MuxPipe.St)
    (h : MuxPipe.run (MuxPipe.init cap) as = some st) (c : Nat) : st.m.clears c ≤ 1 :=
  (MuxPipe.pinv_run as _ st (MuxPipe.pinv_init cap) h).base.clears_le c

/-- a call's outcome is set at most once (`C06_exactly_one_outcome` restated) -/
theorem C06_pipe_exactly_one_outcome (as : List MuxPipe.Act) (st st' : MuxPipe.St) (c : Nat) (o : Outcome)
    (hd : st.m.pc c = .done o) (hr : MuxPipe.run st as = some st') : st'.m.pc c = .done o :=
  MuxPipe.pdone_run as st st' c o hd hr

/-- while the receive loop is reading the body of (or handing over) the response on id `s`, `s` stays reserved for
    the call that sent the request — also when that call gives up in the middle of the body — so no other
    request can be sent on `s` -/
theorem C06_pipe_body_keeps_id (cap : Nat) (as : List MuxPipe.Act) (st : MuxPipe.St)
    (h : MuxPipe.run (MuxPipe.init cap) as = some st) (s d c k w : Nat)
    (hr : st.rcv = .body s d c k w ∨ st.rcv = .hand s d c k w) (c' : Nat) :
    st.m.owner s = some d ∧ MuxPipe.step st (.mux (.acquire c' s)) = none := by
  have inv := MuxPipe.pinv_run as _ st (MuxPipe.pinv_init cap) h
  obtain ⟨hw, ho⟩ := inv.held_wire s d c k w hr
  refine ⟨ho, ?_⟩
  simp [MuxPipe.step, Mux.step, ho]

/-- the exact account of reserved ids on an open connection: an id is reserved only for a call that is still in
    flight, or while the request / response it was used for is still outstanding (unanswered, on its way, or in
    the receive loop's hand). This is what the harness compares AvailableStreams() with (`a=`). -/
theorem C06_pipe_reserved_exact (cap : Nat) (as : List MuxPipe.Act) (st : MuxPipe.St)
    (h : MuxPipe.run (MuxPipe.init cap) as = some st) (hc : st.m.closed = false) (s c : Nat) (ho : st.m.owner s = some c) :
    st.m.pc c = .acquired s ∨ st.m.pc c = .waiting s ∨ st.m.wire s ≠ .none := by
  have inv := MuxPipe.pinv_run as _ st (MuxPipe.pinv_init cap) h
  rcases (inv.base.own_pc s c ho).2.2.2 with hp | hp | ⟨_, o, hp⟩
  · exact Or.inl hp
  · exact Or.inr (Or.inl hp)
  · exact Or.inr (Or.inr (inv.done_wire s c o ho hp hc))

/-- hence a quiescent open connection has its full complement of ids (`C06_quiescent_full` restated, without the
    hypothesis that nobody ever gave up) -/
theorem C06_pipe_quiescent_full (cap : Nat) (as : List MuxPipe.Act) (st : MuxPipe.St)
    (h : MuxPipe.run (MuxPipe.init cap) as = some st) (hc : st.m.closed = false)
    (hq : ∀ c s, st.m.pc c ≠ .acquired s ∧ st.m.pc c ≠ .waiting s) (hw : ∀ s, st.m.wire s = .none) :
    ∀ s, st.m.owner s = none := by
  intro s
  cases ho : st.m.owner s with
  | none => rfl
  | some c =>
    have := C06_pipe_reserved_exact cap as st h hc s c ho
    have := hq c s
    have := hw s
    grind

/-- closing unblocks a caller whatever the receive loop is doing with its response -/
theorem C06_pipe_close_unblocks (st : MuxPipe.St) (c s : Nat) (hc : st.m.closed = true) (hw : st.m.pc c = .waiting s) :
    (MuxPipe.step st (.mux (.connDone c))).isSome = true := by
  simp [MuxPipe.step, Mux.step, hw, hc, MuxPipe.closesTimeout]

/-- Counterexample for the receive loop of seeded change C06-5 (`MuxPipe.stepProbeEarly`: `call.timeout` probed once
    after the header, no `<-call.timeout` arm in the final select): the caller gives up while the body is being
    read, and the receive loop is stuck in its select with the id never released. -/
theorem C06_pipe_probe_early_stuck :
    ∃ st, MuxPipe.runProbeEarly (MuxPipe.init 128)
        [.mux (.acquire 1 5), .mux (.wrote 1), .mux (.answer 5 0 1), .recvHeader 5, .recvBody, .mux (.cancel 1), .recvBodyEnd] = some st ∧
      st.rcv = .hand 5 1 1 0 1 ∧ st.m.closed = false ∧ st.m.owner 5 = some 1 ∧
      MuxPipe.stepProbeEarly st .handResp = none ∧ MuxPipe.stepProbeEarly st .handGone = none ∧
      MuxPipe.stepProbeEarly st .handCtx = none := by
  refine ⟨_, rfl, ?_, ?_, ?_, ?_, ?_, ?_⟩ <;> decide

/-- non-vacuity: the same schedule on the machine of the code that exists: the receiver takes the `<-call.timeout`
    arm, the id comes back, and a probe request on the same id is served -/
example : ∃ st, MuxPipe.run (MuxPipe.init 128)
    [.mux (.acquire 1 5), .mux (.wrote 1), .mux (.answer 5 0 1), .recvHeader 5, .recvBody, .mux (.cancel 1), .recvBodyEnd,
     .handGone, .mux (.acquire 2 5), .mux (.wrote 2), .mux (.answer 5 1 2), .recvHeader 5, .recvBodyEnd, .handResp] = some st ∧
    st.m.pc 1 = .done .ctxErr ∧ st.m.pc 2 = .done (.resp 2 1 2) ∧ st.m.clears 1 = 1 ∧ st.m.owner 5 = none ∧ st.rcv = .idle := by
  refine ⟨_, rfl, ?_, ?_, ?_, ?_, ?_⟩ <;> decide

/-! ## The program points of Conn.exec (`Model/MuxExec.lean`): GetStream and addCall as two steps, the 'frame was never
    written' exits as three (close(call.timeout) / delete from c.calls / Clear), releaseStream after a response as its
    own step, closeWithError as its first critical section, ONE ROUND of its delivery loop per step, and its end (only
    then is the connection's context cancelled). All theorems: every action list from the initial state, i.e. every
    interleaving of any number of callers, the receive loop, the server and a closer. -/

/-- exec is never refused with "attempting to use stream already in use": an id the allocator hands out is never still
    registered in c.calls (the refusal would also leak the id: exec returns from a failed addCall without clearing it).
    This is the theorem that seeded changes C06-7 and C01-8 falsify (`C06_exec_cex_clear_before_unregister`). -/
theorem C06_exec_never_refused_in_use (cap : Nat) (as : List MuxExec.Act) (st : MuxExec.St)
    (h : MuxExec.run (MuxExec.init cap) as = some st) (c : Nat) : st.pc c ≠ .done .inUse :=
  (MuxExec.inv_run as _ st (MuxExec.inv_init cap) h).no_inuse c

/-- … because on an open connection a registered id is reserved, for the call it is registered for -/
theorem C06_exec_registered_reserved (cap : Nat) (as : List MuxExec.Act) (st : MuxExec.St)
    (h : MuxExec.run (MuxExec.init cap) as = some st) (hc : st.closed = false) (s c : Nat) (hr : st.reg s = some c) :
    st.holder s = some c := by
  have := (MuxExec.inv_run as _ st (MuxExec.inv_init cap) h).reg_hold s c hr
  grind

/-- no Clear ever finds its bit already clear or clears a bit that was handed to another call, and every call clears
    at most once (the allocator's count never goes negative) -/
theorem C06_exec_release_once (cap : Nat) (as : List MuxExec.Act) (st : MuxExec.St)
    (h : MuxExec.run (MuxExec.init cap) as = some st) : st.bad = false ∧ ∀ c, st.clears c ≤ 1 :=
  ⟨(MuxExec.inv_run as _ st (MuxExec.inv_init cap) h).not_bad, (MuxExec.inv_run as _ st (MuxExec.inv_init cap) h).clears_le⟩

/-- a call that took its response, or whose frame was never built, has released its id exactly once when it returns
    (and already when it is inside releaseStream's observer call-back) -/
theorem C06_exec_released_exactly_once (cap : Nat) (as : List MuxExec.Act) (st : MuxExec.St)
    (h : MuxExec.run (MuxExec.init cap) as = some st) (c : Nat)
    (hp : (∃ o, st.pc c = .fin o) ∨ st.pc c = .done .buildErr ∨ ∃ k, st.pc c = .done (.resp k)) :
    st.clears c = 1 ∧ ∀ s, st.holder s ≠ some c := by
  have inv := MuxExec.inv_run as _ st (MuxExec.inv_init cap) h
  have h1 : st.clears c = 1 := by
    rcases hp with ⟨o, hp⟩ | hp | ⟨k, hp⟩
    · exact inv.fin_clears c o hp
    · exact inv.build_clears c hp
    · exact inv.resp_clears c k hp
  refine ⟨h1, ?_⟩
  intro s hs
  have := (inv.hold_pc s c hs).2.2.1
  omega

/-- a quiescent open connection has its full complement of ids: nobody inside exec, nothing outstanding on the wire -/
theorem C06_exec_quiescent_full (cap : Nat) (as : List MuxExec.Act) (st : MuxExec.St)
    (h : MuxExec.run (MuxExec.init cap) as = some st) (hc : st.closed = false)
    (hq : ∀ c, st.pc c = .idle ∨ ∃ o, st.pc c = .done o) (hw : ∀ s, st.wire s = .none) : ∀ s, st.holder s = none := by
  intro s
  have inv := MuxExec.inv_run as _ st (MuxExec.inv_init cap) h
  cases ho : st.holder s with
  | none => rfl
  | some c =>
    have h1 := inv.hold_pc s c ho
    have h2 := hq c
    have h3 := hw s
    have h4 := inv.reg_hold s c
    grind

/-- the receive loop can always dispose of a response it has read on an open connection: the registered call is in its
    select (rendezvous) or has closed its timeout channel (recv releases the id) — never still building / writing -/
theorem C06_exec_recv_never_stuck (cap : Nat) (as : List MuxExec.Act) (st : MuxExec.St)
    (h : MuxExec.run (MuxExec.init cap) as = some st) (hc : st.closed = false) (s c : Nat) (hw : st.wire s = .answered c) :
    (MuxExec.step st (.deliver s)).isSome = true := by
  have inv := MuxExec.inv_run as _ st (MuxExec.inv_init cap) h
  obtain ⟨_, hp, hr⟩ := inv.wire_hold s c (Or.inr hw)
  have hr : st.reg s = some c := by grind
  rcases hp with hp | hp
  · simp [MuxExec.step, hw, hc, hr, hp]
  · by_cases hq : st.pc c = .waiting s <;> simp [MuxExec.step, hw, hc, hr, hp, hq]

/-- closeWithError's delivery loop is never stuck for good (the rendezvous the comment at conn.go:1070 is about, no
    longer atomic in the model): every call it has still to visit is in its select (`req.resp <- err` is ready), or has
    closed its timeout channel (`<-req.timeout` is ready), or is registered with its frame not yet written — and then
    the call can move on its own (the write is enabled) and EVERY step it can take makes it ready for the closer -/
theorem C06_exec_closer_never_stuck (cap : Nat) (as : List MuxExec.Act) (st : MuxExec.St)
    (h : MuxExec.run (MuxExec.init cap) as = some st) (c : Nat) (hs : c ∈ st.snap) :
    (MuxExec.step st (.closeDeliver c)).isSome = true ∨
    (∃ s, st.pc c = .reg s ∧ (MuxExec.step st (.wrote c)).isSome = true ∧
      ∀ a st', (a = .wrote c ∨ a = .buildFail c ∨ a = .writeCancelled c ∨ a = .writeFailed c) →
        MuxExec.step st a = some st' → MuxExec.deliverable st' c = true) := by
  have inv := MuxExec.inv_run as _ st (MuxExec.inv_init cap) h
  have hcl := (inv.snap_closing c hs).1
  rcases inv.snap_ok c hs with ⟨s, hp⟩ | hp | ⟨s, hp⟩
  · left; simp [MuxExec.step, hcl, hs, hp]
  · left
    simp only [MuxExec.step, hcl, hs, and_self, if_true]
    split <;> simp [hp]
  · right
    refine ⟨s, hp, by simp [MuxExec.step, hp], ?_⟩
    intro a st' ha hst
    rcases ha with ha | ha | ha | ha <;> subst ha <;> simp only [MuxExec.step, hp] at hst <;>
      injection hst with hst <;> subst hst <;> simp [MuxExec.deliverable, MuxExec.upd]

/-- … and when it is through, closing completes: the connection's context is cancelled and every caller still in its
    select can return -/
theorem C06_exec_close_completes (st st' : MuxExec.St) (hc : st.closing = true) (hs : st.snap = [])
    : (MuxExec.step st .closeFinish).isSome = true ∧
      (MuxExec.step st .closeFinish = some st' → ∀ c s, st'.pc c = .waiting s → (MuxExec.step st' (.connDone c)).isSome = true) := by
  refine ⟨by simp [MuxExec.step, hc, hs], ?_⟩
  intro h c s hw
  simp only [MuxExec.step, hc, hs, and_self, if_true] at h
  injection h with h; subst h
  simp [MuxExec.step] at hw ⊢
  simp [hw]

/-- Counterexample for the never-written exits of seeded changes C06-7 / C01-8 (`MuxExec.stepClearFirst`: the id is
    cleared BEFORE the call is removed from c.calls): call 1's frame build fails, its id 1 is cleared, call 2 is handed
    id 1 and is refused with "stream already in use" - and id 1 stays reserved for ever on an idle open connection. -/
theorem C06_exec_cex_clear_before_unregister :
    ∃ st, MuxExec.runClearFirst (MuxExec.init 128)
        [.getStream 1 1, .addCall 1, .buildFail 1, .nwDelete 1, .getStream 2 1, .addCall 2, .nwClear 1, .finish 1] = some st ∧
      st.pc 2 = .done .inUse ∧ st.pc 1 = .done .buildErr ∧ st.closed = false ∧ st.holder 1 = some 2 := by
  refine ⟨_, rfl, ?_, ?_, ?_, ?_⟩ <;> decide

/-- non-vacuity: the same schedule on the machine of the code that exists (delete, THEN clear): call 2 can only be
    handed id 1 after call 1 has unregistered; it is registered, written, answered, and both ids come back; and a run
    in which the server closes the transport while call 1 is registered but unwritten: the closer waits, the call
    writes, the closer delivers the error, closing completes -/
example : ∃ st, MuxExec.run (MuxExec.init 128)
    [.getStream 1 1, .addCall 1, .buildFail 1, .nwDelete 1, .nwClear 1, .getStream 2 1, .addCall 2, .finish 1, .wrote 2,
     .answer 1, .deliver 1, .release 2, .finish 2] = some st ∧
    st.pc 1 = .done .buildErr ∧ st.pc 2 = .done (.resp 2) ∧ st.clears 1 = 1 ∧ st.clears 2 = 1 ∧ st.holder 1 = none ∧ st.bad = false := by
  refine ⟨_, rfl, ?_, ?_, ?_, ?_, ?_, ?_⟩ <;> decide

example : ∃ st, MuxExec.run (MuxExec.init 128)
    [.getStream 1 1, .addCall 1, .closeBegin true, .wrote 1, .closeDeliver 1, .closeFinish] = some st ∧
    st.pc 1 = .done .connErr ∧ st.ctxDone = true ∧ st.snap = [] := by
  refine ⟨_, rfl, ?_, ?_, ?_⟩ <;> decide

/-! ## controlConn.close() against the heartbeat loop (`Model/CtlBeat.lean`): close() sends on the unbuffered `quit`,
    which only the heartbeat goroutine receives, and only in the select at the top of its loop. All schedules. -/

/-- while close() is blocked in its send, the heartbeat goroutine is alive; in its select the handshake is enabled; and
    anywhere else EVERY step it can take brings it nearer to that select (at most two steps away: a heartbeat in
    flight that fails, then reconnect(), which returns at once when the state is closing) -/
theorem C06_ctl_close_never_stuck (as : List CtlBeat.Act) (st : CtlBeat.St) (h : CtlBeat.run CtlBeat.init as = some st)
    (hc : st.cl = .sending) :
    (st.hb = .sel ∨ st.hb = .inflight ∨ st.hb = .reconn) ∧
    (st.hb = .sel → (CtlBeat.step st .takeQuit).isSome = true) ∧
    (st.hb ≠ .sel → (∃ a, CtlBeat.hbAct a = true ∧ (CtlBeat.step st a).isSome = true) ∧
      ∀ a st', CtlBeat.hbAct a = true → CtlBeat.step st a = some st' → CtlBeat.toSel st'.hb < CtlBeat.toSel st.hb) := by
  have inv := CtlBeat.inv_run as _ st CtlBeat.inv_init h
  have hl := (inv.sending hc).1
  refine ⟨hl, ?_, ?_⟩
  · intro hs; simp [CtlBeat.step, hs, hc]
  · intro hns
    rcases hl with hl | hl | hl
    · exact absurd hl hns
    · refine ⟨⟨.beatOk, rfl, by simp [CtlBeat.step, hl]⟩, ?_⟩
      intro a st' ha hst
      cases a <;> simp [CtlBeat.hbAct] at ha <;> simp [CtlBeat.step, hl] at hst <;> subst hst <;> simp [CtlBeat.toSel, hl]
    · refine ⟨⟨.reconnect, rfl, by simp [CtlBeat.step, hl]⟩, ?_⟩
      intro a st' ha hst
      cases a <;> simp [CtlBeat.hbAct] at ha <;> simp [CtlBeat.step, hl] at hst <;> subst hst <;> simp [CtlBeat.toSel, hl]

/-- closing can always complete: from every reachable state in which close() is blocked in its send there is a
    continuation of at most four steps after which close() has returned, the heartbeat goroutine has returned and the
    control connection is closed -/
theorem C06_ctl_close_returns (as : List CtlBeat.Act) (st : CtlBeat.St) (h : CtlBeat.run CtlBeat.init as = some st)
    (hc : st.cl = .sending) :
    ∃ bs st', bs.length ≤ 4 ∧ CtlBeat.run st bs = some st' ∧ st'.cl = .done ∧ st'.hb = .exited ∧ st'.connClosed = true := by
  have inv := CtlBeat.inv_run as _ st CtlBeat.inv_init h
  rcases (inv.sending hc).1 with hl | hl | hl
  · exact ⟨[.takeQuit, .closeConn], { st with hb := .exited, cl := .done, connClosed := true }, by simp, by simp [CtlBeat.run, CtlBeat.step, hl, hc], rfl, rfl, rfl⟩
  · exact ⟨[.beatOk, .takeQuit, .closeConn], { st with hb := .exited, cl := .done, connClosed := true }, by simp, by simp [CtlBeat.run, CtlBeat.step, hl, hc], rfl, rfl, rfl⟩
  · exact ⟨[.reconnect, .takeQuit, .closeConn], { st with hb := .exited, cl := .done, connClosed := true }, by simp, by simp [CtlBeat.run, CtlBeat.step, hl, hc], rfl, rfl, rfl⟩

/-- Counterexample for the heartbeat loop of seeded change C06-8 (`CtlBeat.stepEarlyReturn`: the goroutine returns at
    `reconn` when the state is closing): close() arrives while a heartbeat is in flight, the heartbeat fails, the
    goroutine leaves without taking the handshake - close() is blocked in its send and NOTHING can move any more. -/
theorem C06_ctl_cex_early_return :
    ∃ st, CtlBeat.runEarlyReturn CtlBeat.init [.hbStart, .timer, .closeCas, .beatFail, .reconnect] = some st ∧
      st.cl = .sending ∧ st.hb = .exited ∧ st.connClosed = false ∧
      ∀ a, CtlBeat.stepEarlyReturn st a = none := by
  refine ⟨_, rfl, by decide, by decide, by decide, ?_⟩
  intro a; cases a <;> decide

/-- non-vacuity: the same history on the machine of the code that exists -/
example : ∃ st, CtlBeat.run CtlBeat.init [.hbStart, .timer, .closeCas, .beatFail, .reconnect, .takeQuit, .closeConn] = some st ∧
    st.cl = .done ∧ st.hb = .exited ∧ st.connClosed = true := by
  refine ⟨_, rfl, ?_, ?_, ?_⟩ <;> decide

/-! ## Event handling against the receive loop (`Model/EvDeb.lean`): recv hands every EVENT frame to
    eventDebouncer.debounce, which needs the debouncer's mutex. All schedules, any number of events and handlers. -/

/-- the receive loop is never blocked by event handling: in every reachable state recv's debounce() can take the mutex
    at once, or the flusher holds it and needs exactly ONE step of its own to give it back - a step that is enabled
    whatever the handlers of earlier batches are doing (however many are running, whether or not they ever return) -/
theorem C06_ev_recv_never_blocked (as : List EvDeb.Act) (st : EvDeb.St) (h : EvDeb.run EvDeb.init as = some st) :
    (EvDeb.step st .event).isSome = true ∨
    ((EvDeb.step st .flush).isSome = true ∧ ∀ st', EvDeb.step st .flush = some st' → (EvDeb.step st' .event).isSome = true) := by
  have inv := EvDeb.inv_run as _ st EvDeb.inv_init h
  unfold EvDeb.Inv at inv
  cases hf : st.fl with
  | idle => left; simp [EvDeb.step, hf]
  | inCallback => exact absurd hf inv
  | locked =>
    right
    constructor
    · simp only [EvDeb.step, hf, if_true]; split <;> simp
    · intro st' hs
      simp only [EvDeb.step, hf, if_true] at hs
      split at hs <;> (injection hs with hs; subst hs; simp [EvDeb.step])

/-- every event the receive loop has buffered is handed to a handler by the next flush, exactly once: the count of
    events handed over plus the buffer is the number of events received -/
theorem C06_ev_all_handed (as : List EvDeb.Act) (st : EvDeb.St) (h : EvDeb.run EvDeb.init as = some st) :
    st.handed + st.buf = (as.filter (· == .event)).length := by
  suffices H : ∀ (as : List EvDeb.Act) (s s' : EvDeb.St), EvDeb.run s as = some s' →
      s'.handed + s'.buf = s.handed + s.buf + (as.filter (· == .event)).length by
    simpa [EvDeb.init] using H as _ st h
  intro as
  induction as with
  | nil => intro s s' hr; simp [EvDeb.run] at hr; subst hr; simp
  | cons a as ih =>
    intro s s' hr
    simp only [EvDeb.run] at hr
    split at hr
    · rename_i s1 hs1
      have := ih s1 s' hr
      cases a <;> simp only [EvDeb.step] at hs1 <;> (repeat' split at hs1) <;>
        first
        | (simp at hs1; done)
        | (injection hs1 with hs1; subst hs1; simp_all <;> omega)
    · simp at hr

/-- Counterexample for the flusher of seeded change C06-10 (`EvDeb.stepSync`: the handler runs on the flusher goroutine
    under the mutex): one event, the timer fires, the handler is running - a second EVENT frame blocks the receive loop,
    and the only step left is the handler returning (which, being a query on this very connection, needs the receive loop) -/
theorem C06_ev_cex_handler_under_lock :
    ∃ st, EvDeb.runSync EvDeb.init [.event, .timerFire, .flush] = some st ∧
      EvDeb.stepSync st .event = none ∧ EvDeb.stepSync st .flush = none ∧ EvDeb.stepSync st .timerFire = none := by
  refine ⟨_, rfl, ?_, ?_, ?_⟩ <;> decide

/-- non-vacuity: on the machine of the code that exists the second event is buffered while the first handler runs, and
    is handed to a second handler by the next flush -/
example : ∃ st, EvDeb.run EvDeb.init [.event, .timerFire, .flush, .event, .timerFire, .flush] = some st ∧
    st.running = 2 ∧ st.handed = 2 ∧ st.buf = 0 := by
  refine ⟨_, rfl, ?_, ?_, ?_⟩ <;> decide

/-! ## Closing calls back into the owner: the lock discipline of hostConnPool (`Model/PoolLock.lean`)

    FULL PROPERTY ("closing a connection or a session returns"), proved below without exclusion since the repair of
    KF-C06-1 (props/C06.fix-KF-C06-1.diff): for every set of goroutines each running ANY sequence of the pool's
    methods (`PoolLock.Meth`: Close, HandleError, Pick / Size, Conn.Close, closeWithError(err), the tail of
    connect()) on connections of which ANY may have a transport whose Close() reports an error (`cerr` arbitrary),
    under every schedule, no goroutine ever waits for pool.mu while holding it, the holder of pool.mu can always
    move, and as long as anybody has work left somebody can move.

    Before the repair hostConnPool.connect closed a connection that finished connecting after the pool was closed
    UNDER pool.mu (`PoolLock.pConnectTailOld`); `C06_pool_cex_connect_after_close_old` keeps the kernel-checked
    counterexample about that OLD definition as a regression witness (replay `cf 4 2 01 0 1 P`). -/

/-- the programs of the pool's methods respect the lock discipline, whatever the transports do on Close -/
theorem C06_pool_methods_ok (cerr : Nat → Bool) (c : Nat) :
    PoolLock.ok cerr false PoolLock.pClose = true ∧ PoolLock.ok cerr false (PoolLock.pHandleError c) = true ∧
    PoolLock.ok cerr false PoolLock.pPick = true ∧ PoolLock.ok cerr false [.connClose c] = true ∧
    PoolLock.ok cerr false [.connError c] = true ∧
    PoolLock.ok cerr false (PoolLock.pConnectTail c) = true := by
  simp [PoolLock.ok, PoolLock.pClose, PoolLock.pHandleError, PoolLock.pPick, PoolLock.pConnectTail]

/-- … and so does every sequence of them run by one goroutine -/
theorem C06_pool_methods_compose (cerr : Nat → Bool) (a b : List PoolLock.Instr)
    (ha : PoolLock.ok cerr false a = true) (hb : PoolLock.ok cerr false b = true) : PoolLock.ok cerr false (a ++ b) = true := by
  rw [PoolLock.ok_append cerr a b false ha]; exact hb

/-- the lock-discipline invariant holds in every reachable state of goroutines that run sequences of the pool's methods -/
theorem pool_inv (cerr : Nat → Bool) (conns : List Nat) (ms : Nat → List PoolLock.Meth) (ts : List Nat) (st : PoolLock.St)
    (hr : PoolLock.run cerr (PoolLock.init conns (fun t => PoolLock.progOf (ms t))) ts = some st) : PoolLock.LInv cerr st :=
  PoolLock.linv_run cerr ts _ st (PoolLock.linv_init cerr conns _ (fun t => PoolLock.ok_progOf cerr (ms t))) hr

/-- no goroutine ever waits for pool.mu while holding it: any goroutines, any sequences of the pool's methods, any
    transports (faulty Close or not), any schedule -/
theorem C06_pool_no_self_deadlock (cerr : Nat → Bool) (conns : List Nat) (ms : Nat → List PoolLock.Meth)
    (ts : List Nat) (st : PoolLock.St)
    (hr : PoolLock.run cerr (PoolLock.init conns (fun t => PoolLock.progOf (ms t))) ts = some st) (t : Nat) :
    PoolLock.selfDeadlocked st t = false := by
  have inv := pool_inv cerr conns ms ts st hr t
  unfold PoolLock.selfDeadlocked
  split
  · rename_i r hpr
    cases hh : decide (st.holder = some t) with
    | true => simp [hpr, hh, PoolLock.ok] at inv
    | false => simpa using hh
  · rfl

/-- whoever holds pool.mu can always move: a goroutine blocked on pool.mu (Pick, Size, HandleError, a second Close)
    waits for somebody who is not blocked -/
theorem C06_pool_holder_moves (cerr : Nat → Bool) (conns : List Nat) (ms : Nat → List PoolLock.Meth)
    (ts : List Nat) (st : PoolLock.St)
    (hr : PoolLock.run cerr (PoolLock.init conns (fun t => PoolLock.progOf (ms t))) ts = some st) (t : Nat)
    (hh : st.holder = some t) : (PoolLock.step cerr st t).isSome = true :=
  PoolLock.holder_steps cerr st t (pool_inv cerr conns ms ts st hr) hh

/-- no global deadlock: as long as some goroutine has not finished, some goroutine can move -/
theorem C06_pool_never_stuck (cerr : Nat → Bool) (conns : List Nat) (ms : Nat → List PoolLock.Meth)
    (ts : List Nat) (st : PoolLock.St)
    (hr : PoolLock.run cerr (PoolLock.init conns (fun t => PoolLock.progOf (ms t))) ts = some st) (u : Nat)
    (hu : st.prog u ≠ []) : ∃ t, (PoolLock.step cerr st t).isSome = true :=
  PoolLock.some_thread_steps cerr st u (pool_inv cerr conns ms ts st hr) hu

/-- the formerly failing history (KF-C06-1) on the repaired connect(): goroutine 0 closes the pool; goroutine 1 is the
    tail of connect() for connection 7, whose transport reports an error from Close. connect() finds the pool closed,
    gives the lock back, closes the connection; HandleError gets the lock; everybody finishes. -/
theorem C06_pool_late_connect_after_close_ok :
    ∃ st, PoolLock.run (fun c => c == 7) (PoolLock.init [1] (fun t => PoolLock.progOf (if t = 0 then [.close] else if t = 1 then [.connectTail 7] else [])))
        [0, 0, 0, 0, 0, 1, 1, 1, 1, 1, 1] = some st ∧
      st.holder = none ∧ st.closes 7 = 1 ∧ st.closes 1 = 1 ∧ st.prog 0 = [] ∧ st.prog 1 = [] := by
  refine ⟨_, rfl, ?_, ?_, ?_, ?_, ?_⟩ <;> decide

/-- Regression witness about the OLD tail of connect() (before the repair of KF-C06-1, NOT the code that exists):
    connect() found the pool closed and closed the connection under pool.mu; closeWithError reported the transport's
    error to HandleError, which waited for pool.mu on the goroutine that held it. -/
theorem C06_pool_cex_connect_after_close_old :
    ∃ st, PoolLock.run (fun c => c == 7) (PoolLock.init [1] (fun t => if t = 0 then PoolLock.pClose else if t = 1 then PoolLock.pConnectTailOld 7 else []))
        [0, 0, 0, 0, 0, 1, 1, 1] = some st ∧
      PoolLock.selfDeadlocked st 1 = true ∧ st.holder = some 1 ∧ PoolLock.step (fun c => c == 7) st 1 = none := by
  refine ⟨_, rfl, ?_, ?_, ?_⟩ <;> decide

/-- Counterexample for hostConnPool.Close of seeded change C06-6 (`pCloseHoldingLock`: the connections are closed
    while pool.mu is held): one pooled connection whose transport reports an error from Close is enough. -/
theorem C06_pool_cex_close_holding_lock :
    ∃ st, PoolLock.run (fun _ => true) (PoolLock.init [1] (fun t => if t = 0 then PoolLock.pCloseHoldingLock else []))
        [0, 0, 0, 0] = some st ∧ PoolLock.selfDeadlocked st 0 = true := by
  refine ⟨_, rfl, ?_⟩; decide

/-- non-vacuity: the code that exists closes a pool of two connections with faulty transports, both report their
    Close error to HandleError after the lock was released, a concurrent Pick and a second Close get through -/
example : ∃ st, PoolLock.run (fun _ => true)
    (PoolLock.init [1, 2] (fun t => if t = 0 then PoolLock.pClose else if t = 1 then PoolLock.pPick else if t = 2 then PoolLock.pClose else []))
    [0, 0, 0, 0, 0, 1, 1, 1, 0, 0, 0, 0, 0, 0, 0, 2, 2, 2, 2] = some st ∧
    st.holder = none ∧ st.closed = true ∧ st.conns = [] ∧ st.closes 1 = 1 ∧ st.closes 2 = 1 ∧ st.prog 0 = [] ∧ st.prog 1 = [] ∧ st.prog 2 = [] := by
  refine ⟨_, rfl, ?_, ?_, ?_, ?_, ?_, ?_, ?_, ?_⟩ <;> decide

example : ∃ st, run (init 128) [.acquire 1 5, .wrote 1, .stray 63, .answer 5 18 1, .event, .deliver 5] = some st ∧
    st.pc 1 = .done (.resp 1 18 1) ∧ st.clears 1 = 1 ∧ st.owner 5 = none := by
  refine ⟨_, rfl, ?_, ?_, ?_⟩ <;> decide

end C06
