import Proofs.C01Mux
/-!
# C06 — every request ends exactly once; streams are never leaked (property theorems)

Same machine as C01 (`Model/Mux.lean`). Wall-clock bounds ("within a bounded time") are not
expressible; the harness measures them with a watchdog (supporting evidence, see props/C06.json).
-/
namespace C06
open Mux

/-- a request's outcome is set at most once: once a call is done, no schedule changes its outcome -/
theorem C06_exactly_one_outcome (as : List Act) (st st' : St) (c : Nat) (o : Outcome)
    (hd : st.pc c = .done o) (hr : run st as = some st') : st'.pc c = .done o :=
  done_run as st st' c o hd hr

/-- each acquired id is released at most once (so the allocator's "negative streams" panic is unreachable) -/
theorem C06_release_once (cap : Nat) (as : List Act) (st : St) (h : run (init cap) as = some st) (c : Nat) :
    st.clears c ≤ 1 := (inv_run as _ st (inv_init cap) h).clears_le c

/-- … and exactly once, with the id free again, when its response was consumed -/
theorem C06_released_when_consumed (cap : Nat) (as : List Act) (st : St) (h : run (init cap) as = some st)
    (d c k w : Nat) (hr : st.pc d = .done (.resp c k w)) : st.clears d = 1 ∧ ∀ s, st.owner s ≠ some d := by
  have inv := inv_run as _ st (inv_init cap) h
  refine ⟨inv.resp_clear d c k w hr, ?_⟩
  intro s hs
  have := inv.own_pc s d hs
  have := inv.resp_clear d c k w hr
  omega

/-- a connection with nothing outstanding has its full complement of ids: an id is only reserved by a call
    that is still in flight, or by one that gave up waiting while its response has not come (yet) -/
theorem C06_quiescent_full (cap : Nat) (as : List Act) (st : St) (h : run (init cap) as = some st)
    (hq : ∀ c s, st.pc c ≠ .acquired s ∧ st.pc c ≠ .waiting s) (hab : ∀ c, st.abandoned c = false) :
    ∀ s, st.owner s = none := by
  intro s
  have inv := inv_run as _ st (inv_init cap) h
  cases ho : st.owner s with
  | none => rfl
  | some c =>
    have := inv.own_pc s c ho
    have := hq c s
    have := hab c
    grind

/-- closing unblocks every waiting caller: after `close`, `connDone` is enabled for each of them -/
theorem C06_close_unblocks (st : St) (c s : Nat) (hc : st.closed = true) (hw : st.pc c = .waiting s) :
    (step st (.connDone c)).isSome = true := by
  simp [step, hw, hc]

/-- a waiting caller is never stuck: its timer (an environment action) is always enabled -/
theorem C06_waiting_never_stuck (st : St) (c s : Nat) (hw : st.pc c = .waiting s) :
    (step st (.timeout c)).isSome = true := by
  simp [step, hw]

example : ∃ st, run (init 128) [.acquire 1 5, .wrote 1, .stray 63, .answer 5 18 1, .event, .deliver 5] = some st ∧
    st.pc 1 = .done (.resp 1 18 1) ∧ st.clears 1 = 1 ∧ st.owner 5 = none := by
  refine ⟨_, rfl, ?_, ?_, ?_⟩ <;> decide

end C06
