import Proofs.C01Own
import Proofs.C01Monitor
/-!
# The machine with the sender's steps (`Model/MuxOwn.lean`, code configuration) REFINES the abstract multiplexing
# machine (`Model/Mux.lean`)

Every step of MuxOwn is matched by zero, one or two steps of Mux such that the two states stay related (`R`) and the
observable events (`req` / `resp` / `got` / `stray` / `event`, the alphabet of the monitor that judges real runs) are
the same. Mux's `owner s` is "the call registered under s whose id has not been put up for release"; Mux's
`acquire` happens at MuxOwn's `register` (GetStream + addCall are one action of Mux), `wrote` at `write`;
`reserve`, `writeReturned`, `release`, `relDone` are stutter steps. Mux's ghost fields `clears` / `abandoned` are not
constrained (no step of Mux reads them).
-/
namespace MuxOwn

/-- the Mux actions that match one MuxOwn action -/
def tr (st : St) : Act → List Mux.Act
  | .reserve _ _ _ => []
  | .register c => match st.pc c with
      | .flight s false _ _ => if st.closed = none then [.acquire c s] else []
      | _ => []
  | .write c => [.wrote c]
  | .writeReturned _ => []
  | .writeFailed c => match st.pc c with
      | .flight _ false _ _ => [.close]
      | .flight _ true false _ => [.writeFailed c]
      | .flight _ true true _ => [.close, .connDone c]
      | _ => []
  | .answer s k t => [.answer s k t]
  | .stray s => [.stray s]
  | .event => [.event]
  | .deliver s => [.deliver s]
  | .timeout c => [.timeout c]
  | .cancel c => [.cancel c]
  | .hbReact c => match st.pc c with
      | .done (.resp f) => if f.kind = 0 ∨ f.kind = 1 then [] else [.close]
      | _ => []
  | .close => [.close]
  | .connDone c => [.connDone c]
  | .connDoneCtx c => [.connDone c]
  | .buildFailed c => [.buildFail c]
  | .writeCancelled c => [.writeCancelled c]
  | .release _ => []
  | .relDone _ => []

/-- what can be observed of one MuxOwn step from outside (the peer's log, the callers' reports) -/
def obs (st : St) : Act → List Mux.Obs
  | .write c => match st.pc c with
      | .flight s _ false false => [.req s c]
      | _ => []
  | .answer s k t => match st.wire s with
      | .pending c => [.resp s c k t]
      | _ => []
  | .deliver s => match st.wire s, st.reg s with
      | .answered _ f, some d => (match st.pc d with
          | .flight _ _ _ true => [.got d f.kind f.tag]
          | _ => [])
      | _, _ => []
  | .stray s => [.stray s]
  | .event => [.event]
  | _ => []

/-- the observation stream of a run -/
def otrace (cfg : Cfg) : St → List Act → List Mux.Obs
  | _, [] => []
  | st, a :: as => match step cfg st a with
    | some st' => obs st a ++ otrace cfg st' as
    | none => []

/-- the refinement relation -/
structure R (st : St) (m : Mux.St) : Prop where
  cap : m.cap = st.cap
  own : ∀ s d, m.owner s = some d ↔ (st.reg s = some d ∧ st.owner s = some d ∧ st.rel d ≠ .due)
  wire_none : ∀ s, st.wire s = .none → m.wire s = .none
  wire_pend : ∀ s c, st.wire s = .pending c → m.wire s = .pending c
  wire_ans : ∀ s c f, st.wire s = .answered c f → m.wire s = .answered c f.kind f.tag
  pc_idle : ∀ c, st.pc c = .idle → m.pc c = .idle
  pc_unreg : ∀ c s wr ret, st.pc c = .flight s false wr ret → m.pc c = .idle
  pc_acq : ∀ c s ret, st.pc c = .flight s true false ret → m.pc c = .acquired s
  pc_wait : ∀ c s ret, st.pc c = .flight s true true ret → m.pc c = .waiting s
  pc_resp : ∀ c f, st.pc c = .done (.resp f) → m.pc c = .done (.resp c f.kind f.tag)
  pc_done : ∀ c o, st.pc c = .done o → (∀ f, o ≠ .resp f) →
    (m.pc c = .idle ∨ ∃ o', m.pc c = .done o' ∧ ∀ a k w, o' ≠ .resp a k w)
  sent : ∀ c, m.sent c = (st.sent c).map fun f => (f.kind, f.tag)
  closed : m.closed = st.closed.isSome

theorem R_init (cap : Nat) : R (init cap) (Mux.init cap) := by
  constructor <;> simp [init, Mux.init]

theorem own_none (st : St) (m : Mux.St) (r : R st m) (s : Nat)
    (h : ∀ d, ¬ (st.reg s = some d ∧ st.owner s = some d ∧ st.rel d ≠ .due)) : m.owner s = none := by
  cases hm : m.owner s with
  | none => rfl
  | some d => exact absurd ((r.own s d).1 hm) (h d)

end MuxOwn

namespace MuxOwn

macro "close_R" r:ident inv:ident : tactic => `(tactic| (
  obtain ⟨rc, ro, rwn, rwp, rwa, rpi, rpu, rpa, rpw, rpr, rpd, rs, rcl⟩ := $r
  obtain ⟨h1, h2, h2', h3, h4, h5, h6, h7, h8, h9, h10, h11, h12⟩ := $inv
  constructor <;> simp only [upd, Mux.upd, closeWith, earlyExit] <;> grind))

set_option maxHeartbeats 2000000 in
theorem sim_reserve (st st' : St) (c s w : _) (m : Mux.St) (inv : Inv st) (r : R st m)
    (hs : step Cfg.code st (.reserve c s w) = some st') :
    ∃ m', Mux.run m (tr st (.reserve c s w)) = some m' ∧ R st' m' ∧ Mux.trace m (tr st (.reserve c s w)) = obs st (.reserve c s w) := by
  simp only [step] at hs
  split at hs
  · injection hs with hs; subst hs
    refine ⟨m, by simp [tr, Mux.run], ?_, by simp [tr, obs, Mux.trace]⟩
    close_R r inv
  · simp at hs

set_option maxHeartbeats 2000000 in
theorem sim_register (st st' : St) (c : _) (m : Mux.St) (inv : Inv st) (r : R st m)
    (hs : step Cfg.code st (.register c) = some st') :
    ∃ m', Mux.run m (tr st (.register c)) = some m' ∧ R st' m' ∧ Mux.trace m (tr st (.register c)) = obs st (.register c) := by
  simp only [step, Cfg.code] at hs
  split at hs
  · rename_i s wr ret hpc
    simp only [Bool.false_eq_true, ↓reduceIte] at hs
    split at hs
    · rename_i hwr
      split at hs
      · rename_i hcl
        split at hs
        · rename_i hreg
          injection hs with hs; subst hs
          have hm := r.pc_unreg c s wr ret hpc
          have hrg := inv.range c s false wr ret hpc
          have hfo := inv.flight_ok c s false wr ret hpc
          have hown : m.owner s = none := own_none st m r s (by intro d hd; rw [hreg] at hd; simp at hd)
          refine ⟨{ m with owner := Mux.upd m.owner s (some c), pc := Mux.upd m.pc c (.acquired s) }, ?_, ?_, ?_⟩
          · simp [tr, hpc, hcl, Mux.run, Mux.step, hm, hown, r.cap, r.closed, hrg.1, hrg.2]
          · close_R r inv
          · simp [tr, hpc, hcl, obs, Mux.trace, Mux.step, Mux.obsOf, hm, hown, r.cap, r.closed, hrg.1, hrg.2]
        · rename_i hreg
          exact absurd ((inv.flight_ok c s false wr ret hpc).2.2.2.1 rfl).1 hreg
      · rename_i hcl
        injection hs with hs; subst hs
        refine ⟨m, by simp [tr, hpc, hcl, Mux.run], ?_, by simp [tr, hpc, hcl, obs, Mux.trace]⟩
        close_R r inv
    · simp at hs
  · simp at hs

set_option maxHeartbeats 2000000 in
theorem sim_write (st st' : St) (c : _) (m : Mux.St) (inv : Inv st) (r : R st m)
    (hs : step Cfg.code st (.write c) = some st') :
    ∃ m', Mux.run m (tr st (.write c)) = some m' ∧ R st' m' ∧ Mux.trace m (tr st (.write c)) = obs st (.write c) := by
  simp only [step, Cfg.code] at hs
  split at hs
  · rename_i s rr hpc
    split at hs
    · simp at hs
    · rename_i hr
      injection hs with hs; subst hs
      have hr' : rr = true := by cases rr <;> simp_all
      subst hr'
      have hm := r.pc_acq c s false hpc
      refine ⟨{ m with wire := Mux.upd m.wire s (.pending c), pc := Mux.upd m.pc c (.waiting s) }, ?_, ?_, ?_⟩
      · simp [tr, Mux.run, Mux.step, hm]
      · close_R r inv
      · simp [tr, obs, Mux.trace, Mux.step, Mux.obsOf, hm, hpc]
  · simp at hs

set_option maxHeartbeats 2000000 in
theorem sim_writeReturned (st st' : St) (c : _) (m : Mux.St) (inv : Inv st) (r : R st m)
    (hs : step Cfg.code st (.writeReturned c) = some st') :
    ∃ m', Mux.run m (tr st (.writeReturned c)) = some m' ∧ R st' m' ∧ Mux.trace m (tr st (.writeReturned c)) = obs st (.writeReturned c) := by
  simp only [step] at hs
  split at hs
  · injection hs with hs; subst hs
    refine ⟨m, by simp [tr, Mux.run], ?_, by simp [tr, obs, Mux.trace]⟩
    close_R r inv
  · simp at hs

set_option maxHeartbeats 2000000 in
theorem sim_answer (st st' : St) (s kind tag : _) (m : Mux.St) (inv : Inv st) (r : R st m)
    (hs : step Cfg.code st (.answer s kind tag) = some st') :
    ∃ m', Mux.run m (tr st (.answer s kind tag)) = some m' ∧ R st' m' ∧ Mux.trace m (tr st (.answer s kind tag)) = obs st (.answer s kind tag) := by
  simp only [step] at hs
  split at hs
  · rename_i c hw
    injection hs with hs; subst hs
    have hm := r.wire_pend s c hw
    refine ⟨{ m with wire := Mux.upd m.wire s (.answered c kind tag), sent := Mux.upd m.sent c (some (kind, tag)) }, ?_, ?_, ?_⟩
    · simp [tr, Mux.run, Mux.step, hm]
    · close_R r inv
    · simp [tr, obs, Mux.trace, Mux.step, Mux.obsOf, hm, hw]
  · simp at hs

set_option maxHeartbeats 2000000 in
theorem sim_stray (st st' : St) (s : _) (m : Mux.St) (inv : Inv st) (r : R st m)
    (hs : step Cfg.code st (.stray s) = some st') :
    ∃ m', Mux.run m (tr st (.stray s)) = some m' ∧ R st' m' ∧ Mux.trace m (tr st (.stray s)) = obs st (.stray s) := by
  simp only [step] at hs
  split at hs
  · rename_i hc
    injection hs with hs; subst hs
    have hw := r.wire_none s hc.1
    have hown : m.owner s = none := own_none st m r s (by intro d hd; rw [hc.2] at hd; simp at hd)
    refine ⟨m, ?_, r, ?_⟩
    · simp [tr, Mux.run, Mux.step, hw, hown]
    · simp [tr, obs, Mux.trace, Mux.step, Mux.obsOf, hw, hown]
  · simp at hs

set_option maxHeartbeats 2000000 in
theorem sim_event (st st' : St) (m : Mux.St) (inv : Inv st) (r : R st m)
    (hs : step Cfg.code st .event = some st') :
    ∃ m', Mux.run m (tr st .event) = some m' ∧ R st' m' ∧ Mux.trace m (tr st .event) = obs st .event := by
  simp only [step] at hs
  injection hs with hs; subst hs
  exact ⟨m, by simp [tr, Mux.run, Mux.step], r, by simp [tr, obs, Mux.trace, Mux.step, Mux.obsOf]⟩

set_option maxHeartbeats 2000000 in
theorem sim_timeout (st st' : St) (c : _) (m : Mux.St) (inv : Inv st) (r : R st m)
    (hs : step Cfg.code st (.timeout c) = some st') :
    ∃ m', Mux.run m (tr st (.timeout c)) = some m' ∧ R st' m' ∧ Mux.trace m (tr st (.timeout c)) = obs st (.timeout c) := by
  simp only [step] at hs
  split at hs
  · rename_i s hpc
    injection hs with hs; subst hs
    have hm := r.pc_wait c s true hpc
    refine ⟨{ m with pc := Mux.upd m.pc c (.done .timeout), abandoned := Mux.upd m.abandoned c true }, ?_, ?_, ?_⟩
    · simp [tr, Mux.run, Mux.step, hm]
    · close_R r inv
    · simp [tr, obs, Mux.trace, Mux.step, Mux.obsOf, hm]
  · simp at hs

set_option maxHeartbeats 2000000 in
theorem sim_cancel (st st' : St) (c : _) (m : Mux.St) (inv : Inv st) (r : R st m)
    (hs : step Cfg.code st (.cancel c) = some st') :
    ∃ m', Mux.run m (tr st (.cancel c)) = some m' ∧ R st' m' ∧ Mux.trace m (tr st (.cancel c)) = obs st (.cancel c) := by
  simp only [step] at hs
  split at hs
  · rename_i s hpc
    injection hs with hs; subst hs
    have hm := r.pc_wait c s true hpc
    refine ⟨{ m with pc := Mux.upd m.pc c (.done .ctxErr), abandoned := Mux.upd m.abandoned c true }, ?_, ?_, ?_⟩
    · simp [tr, Mux.run, Mux.step, hm]
    · close_R r inv
    · simp [tr, obs, Mux.trace, Mux.step, Mux.obsOf, hm]
  · simp at hs

set_option maxHeartbeats 2000000 in
theorem sim_close (st st' : St) (m : Mux.St) (inv : Inv st) (r : R st m)
    (hs : step Cfg.code st .close = some st') :
    ∃ m', Mux.run m (tr st .close) = some m' ∧ R st' m' ∧ Mux.trace m (tr st .close) = obs st .close := by
  simp only [step] at hs
  injection hs with hs; subst hs
  refine ⟨{ m with closed := true }, by simp [tr, Mux.run, Mux.step], ?_, by simp [tr, obs, Mux.trace, Mux.step, Mux.obsOf]⟩
  close_R r inv

set_option maxHeartbeats 2000000 in
theorem sim_release (st st' : St) (c : _) (m : Mux.St) (inv : Inv st) (r : R st m)
    (hs : step Cfg.code st (.release c) = some st') :
    ∃ m', Mux.run m (tr st (.release c)) = some m' ∧ R st' m' ∧ Mux.trace m (tr st (.release c)) = obs st (.release c) := by
  simp only [step] at hs
  split at hs
  · injection hs with hs; subst hs
    refine ⟨m, by simp [tr, Mux.run], ?_, by simp [tr, obs, Mux.trace]⟩
    close_R r inv
  · simp at hs

set_option maxHeartbeats 2000000 in
theorem sim_relDone (st st' : St) (c : _) (m : Mux.St) (inv : Inv st) (r : R st m)
    (hs : step Cfg.code st (.relDone c) = some st') :
    ∃ m', Mux.run m (tr st (.relDone c)) = some m' ∧ R st' m' ∧ Mux.trace m (tr st (.relDone c)) = obs st (.relDone c) := by
  simp only [step, Cfg.code] at hs
  split at hs
  · injection hs with hs; subst hs
    refine ⟨m, by simp [tr, Mux.run], ?_, by simp [tr, obs, Mux.trace]⟩
    close_R r inv
  · simp at hs

set_option maxHeartbeats 2000000 in
theorem sim_connDone (st st' : St) (c : _) (m : Mux.St) (inv : Inv st) (r : R st m)
    (hs : step Cfg.code st (.connDone c) = some st') :
    ∃ m', Mux.run m (tr st (.connDone c)) = some m' ∧ R st' m' ∧ Mux.trace m (tr st (.connDone c)) = obs st (.connDone c) := by
  simp only [step] at hs
  split at hs
  · rename_i s e hpc hcl
    injection hs with hs; subst hs
    have hm := r.pc_wait c s true hpc
    have hc : m.closed = true := by rw [r.closed, hcl]; rfl
    refine ⟨{ m with pc := Mux.upd m.pc c (.done .connClosed), abandoned := Mux.upd m.abandoned c true }, ?_, ?_, ?_⟩
    · simp [tr, Mux.run, Mux.step, hm, hc]
    · close_R r inv
    · simp [tr, obs, Mux.trace, Mux.step, Mux.obsOf, hm, hc]
  · simp at hs

set_option maxHeartbeats 2000000 in
theorem sim_connDoneCtx (st st' : St) (c : _) (m : Mux.St) (inv : Inv st) (r : R st m)
    (hs : step Cfg.code st (.connDoneCtx c) = some st') :
    ∃ m', Mux.run m (tr st (.connDoneCtx c)) = some m' ∧ R st' m' ∧ Mux.trace m (tr st (.connDoneCtx c)) = obs st (.connDoneCtx c) := by
  simp only [step] at hs
  split at hs
  · rename_i s e hpc hcl
    injection hs with hs; subst hs
    have hm := r.pc_wait c s true hpc
    have hc : m.closed = true := by rw [r.closed, hcl]; rfl
    refine ⟨{ m with pc := Mux.upd m.pc c (.done .connClosed), abandoned := Mux.upd m.abandoned c true }, ?_, ?_, ?_⟩
    · simp [tr, Mux.run, Mux.step, hm, hc]
    · close_R r inv
    · simp [tr, obs, Mux.trace, Mux.step, Mux.obsOf, hm, hc]
  · simp at hs

set_option maxHeartbeats 2000000 in
theorem sim_buildFailed (st st' : St) (c : _) (m : Mux.St) (inv : Inv st) (r : R st m)
    (hs : step Cfg.code st (.buildFailed c) = some st') :
    ∃ m', Mux.run m (tr st (.buildFailed c)) = some m' ∧ R st' m' ∧ Mux.trace m (tr st (.buildFailed c)) = obs st (.buildFailed c) := by
  simp only [step, earlyExit, Cfg.code, and_true] at hs
  split at hs
  · rename_i s hpc
    injection hs with hs; subst hs
    have hm := r.pc_acq c s false hpc
    refine ⟨{ m with owner := Mux.upd m.owner s none, pc := Mux.upd m.pc c (.done .buildErr),
                      clears := Mux.upd m.clears c (m.clears c + 1) }, ?_, ?_, ?_⟩
    · simp [tr, Mux.run, Mux.step, hm]
    · by_cases hc : st.closed = none <;> simp only [hc, if_true, if_false] <;> close_R r inv
    · simp [tr, obs, Mux.trace, Mux.step, Mux.obsOf, hm]
  · simp at hs

set_option maxHeartbeats 2000000 in
theorem sim_writeCancelled (st st' : St) (c : _) (m : Mux.St) (inv : Inv st) (r : R st m)
    (hs : step Cfg.code st (.writeCancelled c) = some st') :
    ∃ m', Mux.run m (tr st (.writeCancelled c)) = some m' ∧ R st' m' ∧ Mux.trace m (tr st (.writeCancelled c)) = obs st (.writeCancelled c) := by
  simp only [step, earlyExit, Cfg.code, and_true] at hs
  split at hs
  · rename_i s hpc
    injection hs with hs; subst hs
    have hm := r.pc_acq c s false hpc
    refine ⟨{ m with owner := Mux.upd m.owner s none, pc := Mux.upd m.pc c (.done .ctxErr),
                      clears := Mux.upd m.clears c (m.clears c + 1) }, ?_, ?_, ?_⟩
    · simp [tr, Mux.run, Mux.step, hm]
    · by_cases hc : st.closed = none <;> simp only [hc, if_true, if_false] <;> close_R r inv
    · simp [tr, obs, Mux.trace, Mux.step, Mux.obsOf, hm]
  · simp at hs

set_option maxHeartbeats 2000000 in
theorem sim_hbReact (st st' : St) (c : _) (m : Mux.St) (inv : Inv st) (r : R st m)
    (hs : step Cfg.code st (.hbReact c) = some st') :
    ∃ m', Mux.run m (tr st (.hbReact c)) = some m' ∧ R st' m' ∧ Mux.trace m (tr st (.hbReact c)) = obs st (.hbReact c) := by
  simp only [step, Cfg.code] at hs
  split at hs
  · rename_i f hpc
    split at hs
    · injection hs with hs; subst hs
      by_cases h0 : f.kind = 0
      · refine ⟨m, by simp [tr, hpc, h0, Mux.run], ?_, by simp [tr, hpc, h0, obs, Mux.trace]⟩
        simp only [h0, if_true]
        close_R r inv
      · by_cases h1 : f.kind = 1
        · refine ⟨m, by simp [tr, hpc, h1, Mux.run], ?_, by simp [tr, hpc, h1, obs, Mux.trace]⟩
          simp only [h0, h1, if_true, if_false, Bool.false_eq_true]
          close_R r inv
        · refine ⟨{ m with closed := true }, by simp [tr, hpc, h0, h1, Mux.run, Mux.step], ?_,
            by simp [tr, hpc, h0, h1, obs, Mux.trace, Mux.step, Mux.obsOf]⟩
          simp only [h0, h1, if_false]
          close_R r inv
    · simp at hs
  · simp at hs

set_option maxHeartbeats 2000000 in
theorem sim_writeFailed (st st' : St) (c : _) (m : Mux.St) (inv : Inv st) (r : R st m)
    (hs : step Cfg.code st (.writeFailed c) = some st') :
    ∃ m', Mux.run m (tr st (.writeFailed c)) = some m' ∧ R st' m' ∧ Mux.trace m (tr st (.writeFailed c)) = obs st (.writeFailed c) := by
  simp only [step] at hs
  split at hs
  · rename_i s rr wr hpc
    injection hs with hs; subst hs
    cases rr with
    | false =>
      refine ⟨{ m with closed := true }, by simp [tr, hpc, Mux.run, Mux.step], ?_,
        by simp [tr, hpc, obs, Mux.trace, Mux.step, Mux.obsOf]⟩
      close_R r inv
    | true =>
      cases wr with
      | false =>
        have hm := r.pc_acq c s false hpc
        refine ⟨{ m with pc := Mux.upd m.pc c (.done .writeErr), abandoned := Mux.upd m.abandoned c true, closed := true }, ?_, ?_, ?_⟩
        · simp [tr, hpc, Mux.run, Mux.step, hm]
        · close_R r inv
        · simp [tr, hpc, obs, Mux.trace, Mux.step, Mux.obsOf, hm]
      | true =>
        have hm := r.pc_wait c s false hpc
        refine ⟨{ m with closed := true, pc := Mux.upd m.pc c (.done .connClosed), abandoned := Mux.upd m.abandoned c true }, ?_, ?_, ?_⟩
        · simp [tr, hpc, Mux.run, Mux.step, hm]
        · close_R r inv
        · simp [tr, hpc, obs, Mux.trace, Mux.step, Mux.obsOf, hm]
  · simp at hs

set_option maxHeartbeats 2000000 in
theorem sim_deliver (st st' : St) (s : _) (m : Mux.St) (inv : Inv st) (r : R st m)
    (hs : step Cfg.code st (.deliver s) = some st') :
    ∃ m', Mux.run m (tr st (.deliver s)) = some m' ∧ R st' m' ∧ Mux.trace m (tr st (.deliver s)) = obs st (.deliver s) := by
  simp only [step] at hs
  split at hs
  · rename_i c f hw
    have hmw := r.wire_ans s c f hw
    have hreg := inv.wire_reg' s c f hw
    split at hs
    · simp at hs
    · rename_i hcl
      have hopen : st.closed = none := by simpa using hcl
      have hmc : m.closed = false := by rw [r.closed, hopen]; rfl
      have hrp := inv.reg_pc s c hreg
      simp only [hreg] at hs
      split at hs
      · simp at hs
      · rename_i s' r' wr' hpc
        injection hs with hs; subst hs
        have hfo := hrp.2.2.2.1 s' r' wr' true hpc
        obtain ⟨hs', hr'⟩ := hfo
        subst hs'; subst hr'
        have hwr : wr' = true := by
          cases wr' with
          | true => rfl
          | false => have := (inv.flight_ok c s' true false true hpc).2.2.2.2 rfl; simp at this
        subst hwr
        have hm := r.pc_wait c s' true hpc
        have hrel : st.rel c ≠ .due := fun h => (inv.rel_ok c h).2.2.2.1 s' true true true hpc
        have hown : m.owner s' = some c := (r.own s' c).2 ⟨hreg, hrp.1 hopen, hrel⟩
        refine ⟨{ m with wire := Mux.upd m.wire s' .none, owner := Mux.upd m.owner s' none,
                         pc := Mux.upd m.pc c (.done (.resp c f.kind f.tag)), clears := Mux.upd m.clears c (m.clears c + 1) }, ?_, ?_, ?_⟩
        · simp [tr, Mux.run, Mux.step, hmw, hmc, hown, hm]
        · close_R r inv
        · simp [tr, obs, Mux.trace, Mux.step, Mux.obsOf, hmw, hmc, hown, hm, hw, hreg, hpc]
      · rename_i o hpc
        injection hs with hs; subst hs
        have hno : ∀ g, o ≠ .resp g := fun g h => hrp.2.2.2.2 g (by rw [hpc, h])
        have hmp := r.pc_done c o hpc hno
        have hnw : m.pc c ≠ .waiting s := by
          rcases hmp with h | ⟨o', h, _⟩ <;> simp [h]
        have hrel : st.rel c ≠ .due := fun h => by
          have := (inv.rel_ok c h).2.2.1 hopen
          rw [hrp.2.1] at this; rw [hreg] at this; simp at this
        have hown : m.owner s = some c := (r.own s c).2 ⟨hreg, hrp.1 hopen, hrel⟩
        refine ⟨{ m with wire := Mux.upd m.wire s .none, owner := Mux.upd m.owner s none,
                         clears := Mux.upd m.clears c (m.clears c + 1) }, ?_, ?_, ?_⟩
        · simp [tr, Mux.run, Mux.step, hmw, hmc, hown, hnw]
        · close_R r inv
        · simp [tr, obs, Mux.trace, Mux.step, Mux.obsOf, hmw, hmc, hown, hnw, hw, hreg, hpc]
      · simp at hs
  · simp at hs

/-- one step of MuxOwn is matched by the steps `tr st a` of Mux: the states stay related, the observable events agree -/
theorem sim_step (st st' : St) (a : Act) (m : Mux.St) (inv : Inv st) (r : R st m)
    (hs : step Cfg.code st a = some st') :
    ∃ m', Mux.run m (tr st a) = some m' ∧ R st' m' ∧ Mux.trace m (tr st a) = obs st a := by
  cases a with
  | reserve c s w => exact sim_reserve st st' c s w m inv r hs
  | register c => exact sim_register st st' c m inv r hs
  | write c => exact sim_write st st' c m inv r hs
  | writeReturned c => exact sim_writeReturned st st' c m inv r hs
  | writeFailed c => exact sim_writeFailed st st' c m inv r hs
  | answer s k t => exact sim_answer st st' s k t m inv r hs
  | stray s => exact sim_stray st st' s m inv r hs
  | event => exact sim_event st st' m inv r hs
  | deliver s => exact sim_deliver st st' s m inv r hs
  | timeout c => exact sim_timeout st st' c m inv r hs
  | cancel c => exact sim_cancel st st' c m inv r hs
  | hbReact c => exact sim_hbReact st st' c m inv r hs
  | close => exact sim_close st st' m inv r hs
  | connDone c => exact sim_connDone st st' c m inv r hs
  | connDoneCtx c => exact sim_connDoneCtx st st' c m inv r hs
  | buildFailed c => exact sim_buildFailed st st' c m inv r hs
  | writeCancelled c => exact sim_writeCancelled st st' c m inv r hs
  | release c => exact sim_release st st' c m inv r hs
  | relDone c => exact sim_relDone st st' c m inv r hs

theorem mux_run_append : ∀ (as bs : List Mux.Act) (m m1 m2 : Mux.St), Mux.run m as = some m1 → Mux.run m1 bs = some m2 →
    Mux.run m (as ++ bs) = some m2
  | [], bs, m, m1, m2, h1, h2 => by simp [Mux.run] at h1; subst h1; simpa using h2
  | a :: as, bs, m, m1, m2, h1, h2 => by
    simp only [Mux.run, List.cons_append] at h1 ⊢
    split at h1
    · rename_i m' hm'
      try simp only [hm']
      exact mux_run_append as bs m' m1 m2 h1 h2
    · simp at h1

theorem mux_trace_append : ∀ (as bs : List Mux.Act) (m m1 : Mux.St), Mux.run m as = some m1 →
    Mux.trace m (as ++ bs) = Mux.trace m as ++ Mux.trace m1 bs
  | [], bs, m, m1, h1 => by simp [Mux.run] at h1; subst h1; simp [Mux.trace]
  | a :: as, bs, m, m1, h1 => by
    simp only [Mux.run] at h1
    simp only [Mux.trace, List.cons_append]
    split at h1
    · rename_i m' hm'
      try simp only [hm']
      rw [mux_trace_append as bs m' m1 h1, List.append_assoc]
    · simp at h1

/-- the actions of Mux that match a whole history of MuxOwn -/
def trAll : St → List Act → List Mux.Act
  | _, [] => []
  | st, a :: as => match step Cfg.code st a with
    | some st' => tr st a ++ trAll st' as
    | none => []

/-- REFINEMENT: every run of MuxOwn (code configuration) is matched by the run `trAll` of Mux, which ends in a related
    state and shows the same observable events -/
theorem sim_run : ∀ (as : List Act) (st st' : St) (m : Mux.St), Inv st → R st m → run Cfg.code st as = some st' →
    ∃ m', Mux.run m (trAll st as) = some m' ∧ R st' m' ∧ Mux.trace m (trAll st as) = otrace Cfg.code st as
  | [], st, st', m, _, r, h => by
    simp [run] at h; subst h
    exact ⟨m, by simp [trAll, Mux.run], r, by simp [trAll, Mux.trace, otrace]⟩
  | a :: as, st, st', m, inv, r, h => by
    simp only [run] at h
    split at h
    · rename_i s1 hs1
      obtain ⟨m1, hr1, r1, ht1⟩ := sim_step st s1 a m inv r hs1
      obtain ⟨m2, hr2, r2, ht2⟩ := sim_run as s1 st' m1 (inv_step st s1 a inv hs1) r1 h
      refine ⟨m2, ?_, r2, ?_⟩
      · simp only [trAll, hs1]; exact mux_run_append _ _ m m1 m2 hr1 hr2
      · simp only [trAll, otrace, hs1]
        rw [mux_trace_append _ _ m m1 hr1, ht1, ht2]
    · simp at h

end MuxOwn
