import Model.MurmurPlaced
import Proofs.C09Murmur
/-!
  The hash of a key AS IT LIES IN MEMORY (`Murmur.Placed`: unsafe 16-byte loads at the address of `data[n*16]`,
  tail bytes by address) is the hash of the key's bytes (`Murmur.murmur3H1` of the view) — for every backing
  memory, every offset (alignment), whatever lies before / behind the key.
-/
namespace Murmur.Placed

theorem view_length (s : Slice) (h : s.wf) : s.view.length = s.len := by
  unfold Slice.view Slice.wf at *
  simp [List.length_take, List.length_drop]; omega

/-- a 64-bit load inside the key reads the key's bytes -/
theorem load64_in_view (s : Slice) (a : Nat) (h : a + 8 ≤ s.len) :
    load64 s.mem (s.off + a) = le64 ((s.view.drop a).take 8) := by
  unfold load64 Slice.view
  rw [List.drop_take, List.drop_drop, List.take_take]
  have : min 8 (s.len - a) = 8 := by omega
  rw [this]

/-- `getBlock` of a block that lies inside the key = the two words of that block of the view -/
theorem getBlock_in_view (s : Slice) (i : Nat) (h : i*16 + 16 ≤ s.len) :
    getBlock s i =
      (le64 (((s.view.drop (i*16)).take 16).take 8), le64 ((((s.view.drop (i*16)).take 16).drop 8).take 8)) := by
  unfold getBlock
  rw [Murmur.take8_take16, Murmur.drop8_take16, List.drop_drop]
  rw [load64_in_view s (i*16) (by omega)]
  have e : s.off + i*16 + 8 = s.off + (i*16 + 8) := by omega
  rw [e, load64_in_view s (i*16+8) (by omega)]

section generic
variable (mix : W × W → W → W → W × W)

theorem bodyLoopG_eq (s : Slice) (nB : Nat) (hB : nB*16 ≤ s.len) :
    ∀ (fuel : Nat) (h : W × W), fuel ≤ nB →
      bodyLoopG mix s nB fuel h = Murmur.bodyLoopG mix s.view nB fuel h := by
  intro fuel
  induction fuel with
  | zero => intro h _; simp only [bodyLoopG, Murmur.bodyLoopG]
  | succ f ih =>
    intro h hle
    simp only [bodyLoopG, Murmur.bodyLoopG]
    rw [getBlock_in_view s (nB - (f+1)) (by
      have : (nB - (f+1) + 1) * 16 ≤ nB * 16 := Nat.mul_le_mul_right 16 (by omega)
      omega)]
    exact ih _ (by omega)
end generic

/-- a tail byte read by address = the byte of the view's tail -/
theorem tbAt_eq (s : Slice) (base i : Nat) (h : base + i < s.len) :
    tbAt s base i = Murmur.tb (s.view.drop base) i := by
  unfold tbAt Murmur.tb Slice.at Slice.view
  congr 1
  simp only [List.getD_eq_getElem?_getD, List.getElem?_drop, List.getElem?_take]
  have : base + i < s.len := h
  simp [this]

theorem ite_rd (rd1 rd2 : Nat → W) (n k sh : Nat) (h : ∀ i, i < n → rd1 i = rd2 i) :
    (if n ≥ k+1 then rd1 k <<< sh else 0#64) = (if n ≥ k+1 then rd2 k <<< sh else 0#64) := by
  split
  · rw [h k (by omega)]
  · rfl

theorem ite_rd0 (rd1 rd2 : Nat → W) (n k : Nat) (h : ∀ i, i < n → rd1 i = rd2 i) :
    (if n ≥ k+1 then rd1 k else 0#64) = (if n ≥ k+1 then rd2 k else 0#64) := by
  split
  · rw [h k (by omega)]
  · rfl

/-- the tail words only look at the reader below `n` -/
theorem tailK1R_congr (rd1 rd2 : Nat → W) (n : Nat) (h : ∀ i, i < n → rd1 i = rd2 i) :
    tailK1R rd1 n = tailK1R rd2 n := by
  unfold tailK1R
  simp only [ite_rd rd1 rd2 n 7 _ h, ite_rd rd1 rd2 n 6 _ h, ite_rd rd1 rd2 n 5 _ h, ite_rd rd1 rd2 n 4 _ h,
    ite_rd rd1 rd2 n 3 _ h, ite_rd rd1 rd2 n 2 _ h, ite_rd rd1 rd2 n 1 _ h, ite_rd0 rd1 rd2 n 0 h]

theorem tailK2R_congr (rd1 rd2 : Nat → W) (n : Nat) (h : ∀ i, i < n → rd1 i = rd2 i) :
    tailK2R rd1 n = tailK2R rd2 n := by
  unfold tailK2R
  simp only [ite_rd rd1 rd2 n 14 _ h, ite_rd rd1 rd2 n 13 _ h, ite_rd rd1 rd2 n 12 _ h, ite_rd rd1 rd2 n 11 _ h,
    ite_rd rd1 rd2 n 10 _ h, ite_rd rd1 rd2 n 9 _ h, ite_rd0 rd1 rd2 n 8 h]

theorem tailK1_isR (t : List UInt8) (n : Nat) : Murmur.tailK1 t n = tailK1R (Murmur.tb t) n := rfl
theorem tailK2_isR (t : List UInt8) (n : Nat) : Murmur.tailK2 t n = tailK2R (Murmur.tb t) n := rfl

/-- **the placed hash is the hash of the view**: for every backing memory, offset, length -/
theorem murmur3H1_eq_view (s : Slice) (h : s.wf) : murmur3H1 s = Murmur.murmur3H1 s.view := by
  unfold murmur3H1 murmurG Murmur.murmur3H1 Murmur.bodyLoop
  simp only [view_length s h]
  rw [bodyLoopG_eq mixBlock s (s.len / 16) (by omega) (s.len / 16) _ (Nat.le_refl _)]
  have hrd : ∀ i, i < s.len % 16 → tbAt s (s.len / 16 * 16) i = Murmur.tb (s.view.drop (s.len / 16 * 16)) i := by
    intro i hi
    exact tbAt_eq s _ i (by omega)
  rw [tailK1_isR, tailK2_isR, tailK1R_congr _ _ _ hrd, tailK2R_congr _ _ _ hrd]

/-- every address `getBlock` reads during the block loop lies inside the key -/
theorem getBlockReads_in_window (s : Slice) (n : Nat) (h : n < s.len / 16) :
    ∀ a ∈ getBlockReads s n, s.off ≤ a ∧ a < s.off + s.len := by
  intro a ha
  unfold getBlockReads at ha
  simp only [List.mem_map, List.mem_range] at ha
  obtain ⟨j, hj, rfl⟩ := ha
  have : (n + 1) * 16 ≤ s.len / 16 * 16 := Nat.mul_le_mul_right 16 (by omega)
  omega

theorem place_wf (pre key post : List UInt8) (spare : Nat) : (place pre key post spare).wf := by
  simp [place, Slice.wf]

theorem place_view (pre key post : List UInt8) (spare : Nat) : (place pre key post spare).view = key := by
  simp [place, Slice.view]

/-- the routing key of placed blob components denotes `Token.routingKey` of their views -/
theorem routingKey_view (cs : List Slice) : (routingKey cs).view = Token.routingKey (cs.map Slice.view) := by
  unfold routingKey Token.routingKey
  match cs with
  | [] => simp [Slice.view]
  | [c] => simp
  | c :: d :: r => simp [Slice.view]

theorem routingKey_wf (cs : List Slice) (h : ∀ c ∈ cs, c.wf) : (routingKey cs).wf := by
  unfold routingKey
  match cs with
  | [] => simp [Slice.wf]
  | [c] => exact h c (by simp)
  | c :: d :: r => simp [Slice.wf]

end Murmur.Placed
