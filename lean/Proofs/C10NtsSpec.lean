import Model.Placement
import Proofs.C10Nts
import Proofs.C10NtsNodup
/-! C10 helper lemmas: lock-step simulation between networkTopology.replicaMap's inner loop (model) and
Cassandra's NetworkTopologyStrategy (Spec) on a walk that meets every host at most once. -/
namespace C10NtsSpec
open Placement C10Nts C10NtsNodup

/-- pigeonhole, the other direction: a duplicate-free `s ⊆ r` at least as long as `r` covers `r` -/
theorem nodup_subset_covers {α : Type} [DecidableEq α] : ∀ (s r : List α), s.Nodup → (∀ x ∈ s, x ∈ r) →
    r.length ≤ s.length → ∀ x ∈ r, x ∈ s := by
  intro s
  induction s with
  | nil =>
    intro r _ _ hlen x hx
    have : r = [] := List.length_eq_zero_iff.mp (by simpa using hlen)
    subst this; simp at hx
  | cons a s ih =>
    intro r hnd hsub hlen x hx
    rw [List.nodup_cons] at hnd
    have ha : a ∈ r := hsub a (List.mem_cons_self ..)
    by_cases hxa : x = a
    · subst hxa; exact List.mem_cons_self ..
    · have hsub' : ∀ y ∈ s, y ∈ r.erase a := by
        intro y hy
        have hne : y ≠ a := by intro e; subst e; exact hnd.1 hy
        exact (List.mem_erase_of_ne hne).mpr (hsub y (List.mem_cons_of_mem _ hy))
      have hl : (r.erase a).length ≤ s.length := by
        rw [List.length_erase_of_mem ha]
        simp only [List.length_cons] at hlen; omega
      exact List.mem_cons_of_mem _ (ih (r.erase a) hnd.2 hsub' hl x ((List.mem_erase_of_ne hxa).mpr hx))

/-- replicas of the DC plus its skipped hosts are distinct hosts of the walked prefix -/
theorem count_le (c : NtsCfg) (pre : List Host) (st : NtsSt) (g : Good c st) (j : J pre st) (d : Nat) :
    st.inDC d + (st.skipped d).length ≤ (pre.filter (fun x => decide (x.dc = d))).length := by
  have hnd : (st.replicas.filter (fun x => decide (x.dc = d)) ++ st.skipped d).Nodup := by
    rw [List.nodup_append]
    refine ⟨List.Sublist.nodup List.filter_sublist j.rnd, j.snd d, ?_⟩
    intro a ha b hb e
    subst e
    exact j.dis d a hb (List.mem_filter.mp ha).1
  have := nodup_subset_length_le _ (pre.filter (fun x => decide (x.dc = d))) hnd (by
    intro x hx
    rw [List.mem_append] at hx
    rw [List.mem_filter]
    rcases hx with hx | hx
    · exact ⟨j.rp x (List.mem_filter.mp hx).1, (List.mem_filter.mp hx).2⟩
    · exact ⟨j.sp d x hx, by simpa using g.skdc d x hx⟩)
  rw [List.length_append, g.cnt d] at this
  exact this

/-! ### the Spec step, case by case -/

theorem spec_step_skip (tp : Spec.Topo) (dcs : List Nat) (rf : Nat → Nat) (sst : Spec.St) (h : Host)
    (hc : h.dc ∉ dcs ∨ Spec.sufficient tp rf sst h.dc = true) : Spec.step tp dcs rf sst h = sst := by
  unfold Spec.step
  simp only [hc, if_true]

theorem spec_step_A (tp : Spec.Topo) (dcs : List Nat) (rf : Nat → Nat) (sst : Spec.St) (h : Host)
    (h1 : h.dc ∈ dcs) (h2 : Spec.sufficient tp rf sst h.dc = false)
    (h3 : (sst.seenRacks h.dc).length = tp.racksIn h.dc) :
    Spec.step tp dcs rf sst h =
      { sst with dcReplicas := upd sst.dcReplicas h.dc (Spec.sadd (sst.dcReplicas h.dc) h),
                 replicas := Spec.sadd sst.replicas h } := by
  unfold Spec.step
  simp [h1, h2, h3]

theorem spec_step_C (tp : Spec.Topo) (dcs : List Nat) (rf : Nat → Nat) (sst : Spec.St) (h : Host)
    (h1 : h.dc ∈ dcs) (h2 : Spec.sufficient tp rf sst h.dc = false)
    (h3 : (sst.seenRacks h.dc).length ≠ tp.racksIn h.dc) (h4 : h.rack ∈ sst.seenRacks h.dc) :
    Spec.step tp dcs rf sst h =
      { sst with skipped := upd sst.skipped h.dc (Spec.sadd (sst.skipped h.dc) h) } := by
  unfold Spec.step
  simp [h1, h2, h3, h4]

/-- state after taking `h` for a new rack -/
def st1 (sst : Spec.St) (h : Host) : Spec.St :=
  { sst with dcReplicas := upd sst.dcReplicas h.dc (Spec.sadd (sst.dcReplicas h.dc) h),
             replicas := Spec.sadd sst.replicas h,
             seenRacks := upd sst.seenRacks h.dc (Spec.sadd (sst.seenRacks h.dc) h.rack) }

theorem spec_step_B (tp : Spec.Topo) (dcs : List Nat) (rf : Nat → Nat) (sst : Spec.St) (h : Host)
    (h1 : h.dc ∈ dcs) (h2 : Spec.sufficient tp rf sst h.dc = false)
    (h3 : (sst.seenRacks h.dc).length ≠ tp.racksIn h.dc) (h4 : h.rack ∉ sst.seenRacks h.dc) :
    Spec.step tp dcs rf sst h =
      if ((st1 sst h).seenRacks h.dc).length = tp.racksIn h.dc
      then Spec.drainSk tp rf h.dc (st1 sst h) ((st1 sst h).skipped h.dc) else st1 sst h := by
  unfold Spec.step
  simp only [h1, not_true_eq_false, h2, Bool.false_eq_true, or_self, if_false, h3, h4]
  rfl

theorem sadd_new {α : Type} [DecidableEq α] (s : List α) (x : α) (h : x ∉ s) : Spec.sadd s x = s ++ [x] := by
  simp [Spec.sadd, h]

/-- Cassandra's drain = the code's drain, as long as the DC still has unseen nodes for every drained host -/
theorem drainSk_eq (tp : Spec.Topo) (rf : Nat → Nat) (dc : Nat) : ∀ (sk : List Host) (s : Spec.St),
    sk.Nodup → (∀ x ∈ sk, x ∉ s.replicas ∧ x ∉ s.dcReplicas dc) →
    (s.dcReplicas dc).length + sk.length ≤ tp.nodesIn dc →
    (Spec.drainSk tp rf dc s sk).replicas = s.replicas ++ sk.take (min sk.length (rf dc - (s.dcReplicas dc).length)) ∧
    (Spec.drainSk tp rf dc s sk).dcReplicas dc
        = s.dcReplicas dc ++ sk.take (min sk.length (rf dc - (s.dcReplicas dc).length)) ∧
    (∀ d, d ≠ dc → (Spec.drainSk tp rf dc s sk).dcReplicas d = s.dcReplicas d) ∧
    (Spec.drainSk tp rf dc s sk).seenRacks = s.seenRacks ∧
    (Spec.drainSk tp rf dc s sk).skipped = s.skipped := by
  intro sk
  induction sk with
  | nil => intro s _ _ _; simp [Spec.drainSk]
  | cons x xs ih =>
    intro s hnd hnew hlen
    unfold Spec.drainSk
    simp only [List.length_cons] at hlen
    by_cases hs : Spec.sufficient tp rf s dc = true
    · have hge : rf dc ≤ (s.dcReplicas dc).length := by
        simp only [Spec.sufficient, ge_iff_le, decide_eq_true_eq] at hs
        omega
      have hz : rf dc - (s.dcReplicas dc).length = 0 := by omega
      simp [hs, hz]
    · have hlt : (s.dcReplicas dc).length < rf dc := by
        simp only [Spec.sufficient, ge_iff_le, decide_eq_true_eq] at hs
        omega
      rw [List.nodup_cons] at hnd
      obtain ⟨hx1, hx2⟩ := hnew x (List.mem_cons_self ..)
      simp only [hs, Bool.false_eq_true, if_false, sadd_new _ _ hx1, sadd_new _ _ hx2]
      have := ih { s with dcReplicas := upd s.dcReplicas dc (s.dcReplicas dc ++ [x]),
                          replicas := s.replicas ++ [x] } hnd.2
        (by
          intro y hy
          have hne : y ≠ x := by intro e; subst e; exact hnd.1 hy
          obtain ⟨hy1, hy2⟩ := hnew y (List.mem_cons_of_mem _ hy)
          simp only [upd_same, List.mem_append, List.mem_singleton]
          exact ⟨by rintro (h | h); exact hy1 h; exact hne h, by rintro (h | h); exact hy2 h; exact hne h⟩)
        (by simp only [upd_same, List.length_append, List.length_cons, List.length_nil]; omega)
      simp only [upd_same, List.length_append, List.length_cons, List.length_nil] at this
      obtain ⟨t1, t2, t3, t4, t5⟩ := this
      have hm : min (xs.length + 1) (rf dc - (s.dcReplicas dc).length)
          = min xs.length (rf dc - ((s.dcReplicas dc).length + (0 + 1))) + 1 := by omega
      simp only [List.length_cons, hm, List.take_succ_cons]
      refine ⟨by rw [t1]; simp, by rw [t2]; simp, ?_, t4, t5⟩
      intro d hd
      rw [t3 d hd]
      exact upd_other _ _ _ _ hd

/-! ### the simulation -/

structure Env (c : NtsCfg) (tp : Spec.Topo) (l : List Host) : Prop where
  racksEq : ∀ d, tp.racksIn d = (c.racks d).length
  rackKnown : ∀ x ∈ l, x.rack ∈ c.racks x.dc
  nodes : ∀ d, (l.filter (fun x => decide (x.dc = d))).length ≤ tp.nodesIn d
  nd : l.Nodup
  keys : (c.rfs.map (·.1)).Nodup
  tot : c.totalRF = (c.rfs.map (·.2)).sum

structure Sim (c : NtsCfg) (st : NtsSt) (sst : Spec.St) : Prop where
  reps : sst.replicas = st.replicas
  dcr : ∀ d, sst.dcReplicas d = st.replicas.filter (fun x => decide (x.dc = d))
  seen : ∀ d, sst.seenRacks d = st.seen d
  skip : ∀ d, (st.seen d).length ≠ (c.racks d).length → sst.skipped d = st.skipped d
  snd : ∀ d, (st.seen d).Nodup
  ssub : ∀ d, ∀ r ∈ st.seen d, r ∈ c.racks d

theorem sim_init (c : NtsCfg) : Sim c ntsInit Spec.init :=
  ⟨rfl, by intro d; simp [ntsInit, Spec.init], by intro d; rfl, by intro d _; rfl,
   by intro d; simp [ntsInit], by intro d r hr; simp [ntsInit] at hr⟩

theorem filter_single_same (h : Host) : [h].filter (fun x => decide (x.dc = h.dc)) = [h] := by simp
theorem filter_single_other (h : Host) (d : Nat) (hd : d ≠ h.dc) : [h].filter (fun x => decide (x.dc = d)) = [] := by
  simp; omega

theorem sim_step (c : NtsCfg) (tp : Spec.Topo) (pre rest : List Host) (h : Host) (st : NtsSt) (sst : Spec.St)
    (env : Env c tp (pre ++ h :: rest)) (g : Good c st) (j : J pre st) (s : Sim c st sst) :
    Sim c (ntsStep c st h) (Spec.step tp (c.rfs.map (·.1)) (rfOf c.rfs) sst h) := by
  have hnew : h ∉ pre := by
    intro hm
    have := env.nd
    rw [List.nodup_append] at this
    exact this.2.2 h hm h (List.mem_cons_self ..) rfl
  have hnr : h ∉ st.replicas := fun hx => hnew (j.rp h hx)
  have hcnt : ∀ d, (sst.dcReplicas d).length = st.inDC d := by intro d; rw [s.dcr d, g.cnt d]
  have hcount : st.inDC h.dc + (st.skipped h.dc).length + 1 ≤ tp.nodesIn h.dc := by
    have h1 := count_le c pre st g j h.dc
    have h2 := env.nodes h.dc
    simp only [List.filter_append, List.length_append, List.filter_cons, decide_true, if_true,
      List.length_cons] at h2
    omega
  by_cases h0 : rfOf c.rfs h.dc = 0
  · rw [ntsStep_skip c st h (Or.inl h0), spec_step_skip]
    · exact s
    · by_cases hm : h.dc ∈ c.rfs.map (·.1)
      · right; simp [Spec.sufficient, h0]
      · left; exact hm
  have hmem : h.dc ∈ c.rfs.map (·.1) := List.mem_map.mpr ⟨_, rfOf_mem c.rfs h.dc h0, rfl⟩
  by_cases h1 : st.inDC h.dc ≥ rfOf c.rfs h.dc
  · have heq : st.inDC h.dc = rfOf c.rfs h.dc := by have := g.le h.dc; omega
    rw [ntsStep_skip c st h (Or.inr heq), spec_step_skip]
    · exact s
    · right
      simp only [Spec.sufficient, hcnt, ge_iff_le, decide_eq_true_eq]
      omega
  have hlt : st.inDC h.dc < rfOf c.rfs h.dc := by omega
  have hr : h.rack ∈ c.racks h.dc := env.rackKnown h (by simp)
  have hsuf : Spec.sufficient tp (rfOf c.rfs) sst h.dc = false := by
    simp only [Spec.sufficient, hcnt, ge_iff_le, decide_eq_false_iff_not]
    omega
  rcases ntsStep_active c st h h0 hlt hr with ⟨hs, hcomp, e⟩ | ⟨hs, e⟩ | ⟨hs, hncomp, e⟩
  · -- all racks used
    rw [e, spec_step_A tp _ _ sst h hmem hsuf (by rw [s.seen, env.racksEq]; exact hcomp)]
    refine ⟨?_, ?_, s.seen, s.skip, s.snd, s.ssub⟩
    · simp only [stA]; rw [s.reps, sadd_new _ _ hnr]
    · intro d
      simp only [stA, List.filter_append]
      by_cases hd : d = h.dc
      · subst hd
        rw [upd_same, s.dcr, sadd_new _ _ (fun hx => hnr (List.mem_filter.mp hx).1), filter_single_same]
      · rw [upd_other _ _ _ _ hd, s.dcr, filter_single_other h d hd]; simp
  · -- new rack
    have hncomp : (st.seen h.dc).length ≠ (c.racks h.dc).length := by
      intro heq
      exact hs (nodup_subset_covers (st.seen h.dc) (c.racks h.dc) (s.snd _) (s.ssub _) (by omega) h.rack hr)
    have hs' : h.rack ∉ sst.seenRacks h.dc := by rw [s.seen]; exact hs
    rw [e, spec_step_B tp _ _ sst h hmem hsuf (by rw [s.seen, env.racksEq]; exact hncomp) hs']
    have hsk : sst.skipped h.dc = st.skipped h.dc := s.skip _ hncomp
    have h1r : (st1 sst h).replicas = st.replicas ++ [h] := by simp only [st1]; rw [s.reps, sadd_new _ _ hnr]
    have h1d : (st1 sst h).dcReplicas h.dc = st.replicas.filter (fun x => decide (x.dc = h.dc)) ++ [h] := by
      simp only [st1, upd_same]; rw [s.dcr, sadd_new _ _ (fun hx => hnr (List.mem_filter.mp hx).1)]
    have h1do : ∀ d, d ≠ h.dc → (st1 sst h).dcReplicas d = st.replicas.filter (fun x => decide (x.dc = d)) := by
      intro d hd; simp only [st1, upd_other _ _ _ _ hd]; exact s.dcr d
    have h1s : (st1 sst h).seenRacks = upd st.seen h.dc (st.seen h.dc ++ [h.rack]) := by
      funext d
      by_cases hd : d = h.dc
      · subst hd; simp only [st1, upd_same]; rw [s.seen, sadd_new _ _ hs]
      · simp only [st1, upd_other _ _ _ _ hd]; exact s.seen d
    have h1k : (st1 sst h).skipped = sst.skipped := rfl
    -- fields of the Spec state after the (possible) drain, with k = drainCount
    have key : ∀ sst', sst' = (if ((st1 sst h).seenRacks h.dc).length = tp.racksIn h.dc
          then Spec.drainSk tp (rfOf c.rfs) h.dc (st1 sst h) ((st1 sst h).skipped h.dc) else st1 sst h) →
        sst'.replicas = st.replicas ++ [h] ++ (st.skipped h.dc).take (drainCount c st h) ∧
        sst'.dcReplicas h.dc = st.replicas.filter (fun x => decide (x.dc = h.dc)) ++ [h]
            ++ (st.skipped h.dc).take (drainCount c st h) ∧
        (∀ d, d ≠ h.dc → sst'.dcReplicas d = st.replicas.filter (fun x => decide (x.dc = d))) ∧
        sst'.seenRacks = upd st.seen h.dc (st.seen h.dc ++ [h.rack]) ∧ sst'.skipped = sst.skipped := by
      intro sst' hdef
      have hlen1 : ((st1 sst h).seenRacks h.dc).length = (st.seen h.dc).length + 1 := by
        rw [h1s, upd_same]; simp
      rw [hlen1, env.racksEq] at hdef
      unfold drainCount
      by_cases h5 : (st.seen h.dc).length + 1 = (c.racks h.dc).length
      · simp only [h5, if_true] at hdef ⊢
        rw [h1k, hsk] at hdef
        obtain ⟨t1, t2, t3, t4, t5⟩ := drainSk_eq tp (rfOf c.rfs) h.dc (st.skipped h.dc) (st1 sst h) (j.snd _)
          (by
            intro x hx
            have hxne : x ≠ h := by intro e; subst e; exact hnew (j.sp _ x hx)
            rw [h1r, h1d]
            simp only [List.mem_append, List.mem_singleton, List.mem_filter]
            exact ⟨by rintro (hh | hh); exact j.dis _ x hx hh; exact hxne hh,
                   by rintro (hh | hh); exact j.dis _ x hx hh.1; exact hxne hh⟩)
          (by rw [h1d, List.length_append, g.cnt]; simp only [List.length_cons, List.length_nil]; omega)
        have hl : ((st1 sst h).dcReplicas h.dc).length = st.inDC h.dc + 1 := by
          rw [h1d, List.length_append, g.cnt]; rfl
        rw [hl] at t1 t2
        subst hdef
        refine ⟨by rw [t1, h1r], by rw [t2, h1d], ?_, by rw [t4, h1s], by rw [t5, h1k]⟩
        intro d hd; rw [t3 d hd]; exact h1do d hd
      · simp only [h5, if_false] at hdef ⊢
        subst hdef
        refine ⟨by rw [h1r]; simp, by rw [h1d]; simp, h1do, h1s, h1k⟩
    obtain ⟨k1, k2, k3, k4, k5⟩ := key _ rfl
    have htk : ∀ x ∈ (st.skipped h.dc).take (drainCount c st h), x.dc = h.dc :=
      fun x hx => g.skdc _ x (List.mem_of_mem_take hx)
    refine ⟨?_, ?_, ?_, ?_, ?_, ?_⟩
    · rw [k1]; rfl
    · intro d
      simp only [stB, List.filter_append]
      by_cases hd : d = h.dc
      · subst hd
        have hf1 : ((st.skipped h.dc).take (drainCount c st h)).filter (fun x => decide (x.dc = h.dc))
            = (st.skipped h.dc).take (drainCount c st h) :=
          List.filter_eq_self.mpr (by intro x hx; simp [htk x hx])
        rw [k2, filter_single_same, hf1]
      · have hf2 : ((st.skipped h.dc).take (drainCount c st h)).filter (fun x => decide (x.dc = d)) = [] :=
          List.filter_eq_nil_iff.mpr (by intro x hx; rw [htk x hx]; simp; omega)
        rw [k3 d hd, filter_single_other h d hd, hf2]
        simp
    · intro d; rw [k4]; rfl
    · intro d hne
      by_cases hd : d = h.dc
      · subst hd
        simp only [stB, upd_same, List.length_append, List.length_cons, List.length_nil] at hne ⊢
        rw [k5, hsk]
        unfold drainCount
        have : ¬ ((st.seen h.dc).length + 1 = (c.racks h.dc).length) := by omega
        simp [this]
      · simp only [stB, upd_other _ _ _ _ hd] at hne ⊢
        rw [k5]; exact s.skip d hne
    · intro d
      by_cases hd : d = h.dc
      · subst hd
        simp only [stB, upd_same]
        rw [List.nodup_append]
        exact ⟨s.snd _, by simp, by intro a ha b hb; simp at hb; subst hb; intro e; subst e; exact hs ha⟩
      · simp only [stB, upd_other _ _ _ _ hd]; exact s.snd d
    · intro d r hrr
      by_cases hd : d = h.dc
      · subst hd
        simp only [stB, upd_same, List.mem_append, List.mem_singleton] at hrr
        rcases hrr with hrr | rfl
        · exact s.ssub _ r hrr
        · exact hr
      · simp only [stB, upd_other _ _ _ _ hd] at hrr
        exact s.ssub d r hrr
  · -- rack already used, others not yet
    rw [e, spec_step_C tp _ _ sst h hmem hsuf (by rw [s.seen, env.racksEq]; exact hncomp) (by rw [s.seen]; exact hs)]
    refine ⟨s.reps, s.dcr, s.seen, ?_, s.snd, s.ssub⟩
    intro d hne
    by_cases hd : d = h.dc
    · subst hd
      simp only [stC, upd_same] at hne ⊢
      rw [s.skip _ hne, sadd_new _ _ (fun hx => hnew (j.sp _ h hx))]
    · simp only [stC, upd_other _ _ _ _ hd] at hne ⊢
      exact s.skip d hne

end C10NtsSpec
