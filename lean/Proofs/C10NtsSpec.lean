import Model.Placement
import Proofs.C10Nts
import Proofs.C10NtsNodup
/-! C10 helper lemmas: lock-step simulation between networkTopology.replicaMap's inner loop (model) and
Cassandra's NetworkTopologyStrategy (Spec) on a walk that meets every host at most once. -/
namespace C10NtsSpec
open Placement C10Nts C10NtsNodup

/-- pigeonhole, the other direction: a duplicate-free `s ⊆ r` at least as long as `r` covers `r` -/
theorem nodup_subset_covers {α : Type} [DecidableEq α] : ∀ (s r : List α), s.Nodup → (∀ x ∈ s, x ∈ r) →
    r.length ≤ s.length → ∀ x ∈ r, x ∈ s := by
  intro s
  induction s with
  | nil =>
    intro r _ _ hlen x hx
    have : r = [] := List.length_eq_zero_iff.mp (by simpa using hlen)
    subst this; simp at hx
  | cons a s ih =>
    intro r hnd hsub hlen x hx
    rw [List.nodup_cons] at hnd
    have ha : a ∈ r := hsub a (List.mem_cons_self ..)
    by_cases hxa : x = a
    · subst hxa; exact List.mem_cons_self ..
    · have hsub' : ∀ y ∈ s, y ∈ r.erase a := by
        intro y hy
        have hne : y ≠ a := by intro e; subst e; exact hnd.1 hy
        exact (List.mem_erase_of_ne hne).mpr (hsub y (List.mem_cons_of_mem _ hy))
      have hl : (r.erase a).length ≤ s.length := by
        rw [List.length_erase_of_mem ha]
        simp only [List.length_cons] at hlen; omega
      exact List.mem_cons_of_mem _ (ih (r.erase a) hnd.2 hsub' hl x ((List.mem_erase_of_ne hxa).mpr hx))

/-- replicas of the DC plus its skipped hosts are distinct hosts of the walked prefix -/
theorem count_le (c : NtsCfg) (pre : List Host) (st : NtsSt) (g : Good c st) (j : J pre st) (d : Nat) :
    st.inDC d + (st.skipped d).length ≤ (pre.filter (fun x => decide (x.dc = d))).length := by
  have hnd : (st.replicas.filter (fun x => decide (x.dc = d)) ++ st.skipped d).Nodup := by
    rw [List.nodup_append]
    refine ⟨List.Sublist.nodup List.filter_sublist j.rnd, j.snd d, ?_⟩
    intro a ha b hb e
    subst e
    exact j.dis d a hb (List.mem_filter.mp ha).1
  have := nodup_subset_length_le _ (pre.filter (fun x => decide (x.dc = d))) hnd (by
    intro x hx
    rw [List.mem_append] at hx
    rw [List.mem_filter]
    rcases hx with hx | hx
    · exact ⟨j.rp x (List.mem_filter.mp hx).1, (List.mem_filter.mp hx).2⟩
    · exact ⟨j.sp d x hx, by simpa using g.skdc d x hx⟩)
  rw [List.length_append, g.cnt d] at this
  exact this

/-! ### the Spec step, case by case -/

theorem spec_step_skip (tp : Spec.Topo) (dcs : List Nat) (rf : Nat → Nat) (sst : Spec.St) (h : Host)
    (hc : h.dc ∉ dcs ∨ Spec.sufficient tp rf sst h.dc = true) : Spec.step tp dcs rf sst h = sst := by
  unfold Spec.step
  simp only [hc, if_true]

theorem spec_step_A (tp : Spec.Topo) (dcs : List Nat) (rf : Nat → Nat) (sst : Spec.St) (h : Host)
    (h1 : h.dc ∈ dcs) (h2 : Spec.sufficient tp rf sst h.dc = false)
    (h3 : (sst.seenRacks h.dc).length = tp.racksIn h.dc) :
    Spec.step tp dcs rf sst h =
      { sst with dcReplicas := upd sst.dcReplicas h.dc (Spec.sadd (sst.dcReplicas h.dc) h),
                 replicas := Spec.sadd sst.replicas h } := by
  unfold Spec.step
  simp [h1, h2, h3]

theorem spec_step_C (tp : Spec.Topo) (dcs : List Nat) (rf : Nat → Nat) (sst : Spec.St) (h : Host)
    (h1 : h.dc ∈ dcs) (h2 : Spec.sufficient tp rf sst h.dc = false)
    (h3 : (sst.seenRacks h.dc).length ≠ tp.racksIn h.dc) (h4 : h.rack ∈ sst.seenRacks h.dc) :
    Spec.step tp dcs rf sst h =
      { sst with skipped := upd sst.skipped h.dc (Spec.sadd (sst.skipped h.dc) h) } := by
  unfold Spec.step
  simp [h1, h2, h3, h4]

/-- state after taking `h` for a new rack -/
def st1 (sst : Spec.St) (h : Host) : Spec.St :=
  { sst with dcReplicas := upd sst.dcReplicas h.dc (Spec.sadd (sst.dcReplicas h.dc) h),
             replicas := Spec.sadd sst.replicas h,
             seenRacks := upd sst.seenRacks h.dc (Spec.sadd (sst.seenRacks h.dc) h.rack) }

theorem spec_step_B (tp : Spec.Topo) (dcs : List Nat) (rf : Nat → Nat) (sst : Spec.St) (h : Host)
    (h1 : h.dc ∈ dcs) (h2 : Spec.sufficient tp rf sst h.dc = false)
    (h3 : (sst.seenRacks h.dc).length ≠ tp.racksIn h.dc) (h4 : h.rack ∉ sst.seenRacks h.dc) :
    Spec.step tp dcs rf sst h =
      if ((st1 sst h).seenRacks h.dc).length = tp.racksIn h.dc
      then Spec.drainSk tp rf h.dc (st1 sst h) ((st1 sst h).skipped h.dc) else st1 sst h := by
  unfold Spec.step
  simp only [h1, not_true_eq_false, h2, Bool.false_eq_true, or_self, if_false, h3, h4]
  rfl

theorem sadd_new {α : Type} [DecidableEq α] (s : List α) (x : α) (h : x ∉ s) : Spec.sadd s x = s ++ [x] := by
  simp [Spec.sadd, h]

/-- Cassandra's drain = the code's drain, as long as the DC still has unseen nodes for every drained host -/
theorem drainSk_eq (tp : Spec.Topo) (rf : Nat → Nat) (dc : Nat) : ∀ (sk : List Host) (s : Spec.St),
    sk.Nodup → (∀ x ∈ sk, x ∉ s.replicas ∧ x ∉ s.dcReplicas dc) →
    (s.dcReplicas dc).length + sk.length ≤ tp.nodesIn dc →
    (Spec.drainSk tp rf dc s sk).replicas = s.replicas ++ sk.take (min sk.length (rf dc - (s.dcReplicas dc).length)) ∧
    (Spec.drainSk tp rf dc s sk).dcReplicas dc
        = s.dcReplicas dc ++ sk.take (min sk.length (rf dc - (s.dcReplicas dc).length)) ∧
    (∀ d, d ≠ dc → (Spec.drainSk tp rf dc s sk).dcReplicas d = s.dcReplicas d) ∧
    (Spec.drainSk tp rf dc s sk).seenRacks = s.seenRacks ∧
    (Spec.drainSk tp rf dc s sk).skipped = s.skipped := by
  intro sk
  induction sk with
  | nil => intro s _ _ _; simp [Spec.drainSk]
  | cons x xs ih =>
    intro s hnd hnew hlen
    unfold Spec.drainSk
    simp only [List.length_cons] at hlen
    by_cases hs : Spec.sufficient tp rf s dc = true
    · have hge : rf dc ≤ (s.dcReplicas dc).length := by
        simp only [Spec.sufficient, ge_iff_le, decide_eq_true_eq] at hs
        omega
      have hz : rf dc - (s.dcReplicas dc).length = 0 := by omega
      simp [hs, hz]
    · have hlt : (s.dcReplicas dc).length < rf dc := by
        simp only [Spec.sufficient, ge_iff_le, decide_eq_true_eq] at hs
        omega
      rw [List.nodup_cons] at hnd
      obtain ⟨hx1, hx2⟩ := hnew x (List.mem_cons_self ..)
      simp only [hs, Bool.false_eq_true, if_false, sadd_new _ _ hx1, sadd_new _ _ hx2]
      have := ih { s with dcReplicas := upd s.dcReplicas dc (s.dcReplicas dc ++ [x]),
                          replicas := s.replicas ++ [x] } hnd.2
        (by
          intro y hy
          have hne : y ≠ x := by intro e; subst e; exact hnd.1 hy
          obtain ⟨hy1, hy2⟩ := hnew y (List.mem_cons_of_mem _ hy)
          simp only [upd_same, List.mem_append, List.mem_singleton]
          exact ⟨by rintro (h | h); exact hy1 h; exact hne h, by rintro (h | h); exact hy2 h; exact hne h⟩)
        (by simp only [upd_same, List.length_append, List.length_cons, List.length_nil]; omega)
      simp only [upd_same, List.length_append, List.length_cons, List.length_nil] at this
      obtain ⟨t1, t2, t3, t4, t5⟩ := this
      have hm : min (xs.length + 1) (rf dc - (s.dcReplicas dc).length)
          = min xs.length (rf dc - ((s.dcReplicas dc).length + (0 + 1))) + 1 := by omega
      simp only [List.length_cons, hm, List.take_succ_cons]
      refine ⟨by rw [t1]; simp, by rw [t2]; simp, ?_, t4, t5⟩
      intro d hd
      rw [t3 d hd]
      exact upd_other _ _ _ _ hd

/-! ### the simulation -/

structure Env (c : NtsCfg) (tp : Spec.Topo) (l : List Host) : Prop where
  racksEq : ∀ d, tp.racksIn d = (c.racks d).length
  rackKnown : ∀ x ∈ l, x.rack ∈ c.racks x.dc
  nodes : ∀ d, (l.filter (fun x => decide (x.dc = d))).length ≤ tp.nodesIn d
  nd : l.Nodup
  keys : (c.rfs.map (·.1)).Nodup
  tot : c.totalRF = (c.rfs.map (·.2)).sum

structure Sim (c : NtsCfg) (st : NtsSt) (sst : Spec.St) : Prop where
  reps : sst.replicas = st.replicas
  dcr : ∀ d, sst.dcReplicas d = st.replicas.filter (fun x => decide (x.dc = d))
  seen : ∀ d, sst.seenRacks d = st.seen d
  skip : ∀ d, (st.seen d).length ≠ (c.racks d).length → sst.skipped d = st.skipped d
  snd : ∀ d, (st.seen d).Nodup
  ssub : ∀ d, ∀ r ∈ st.seen d, r ∈ c.racks d

theorem sim_init (c : NtsCfg) : Sim c ntsInit Spec.init :=
  ⟨rfl, by intro d; simp [ntsInit, Spec.init], by intro d; rfl, by intro d _; rfl,
   by intro d; simp [ntsInit], by intro d r hr; simp [ntsInit] at hr⟩

theorem filter_single_same (h : Host) : [h].filter (fun x => decide (x.dc = h.dc)) = [h] := by simp
theorem filter_single_other (h : Host) (d : Nat) (hd : d ≠ h.dc) : [h].filter (fun x => decide (x.dc = d)) = [] := by
  simp; omega

theorem sim_step (c : NtsCfg) (tp : Spec.Topo) (pre rest : List Host) (h : Host) (st : NtsSt) (sst : Spec.St)
    (env : Env c tp (pre ++ h :: rest)) (g : Good c st) (j : J pre st) (s : Sim c st sst) :
    Sim c (ntsStep c st h) (Spec.step tp (c.rfs.map (·.1)) (rfOf c.rfs) sst h) := by
  have hnew : h ∉ pre := by
    intro hm
    have := env.nd
    rw [List.nodup_append] at this
    exact this.2.2 h hm h (List.mem_cons_self ..) rfl
  have hnr : h ∉ st.replicas := fun hx => hnew (j.rp h hx)
  have hcnt : ∀ d, (sst.dcReplicas d).length = st.inDC d := by intro d; rw [s.dcr d, g.cnt d]
  have hcount : st.inDC h.dc + (st.skipped h.dc).length + 1 ≤ tp.nodesIn h.dc := by
    have h1 := count_le c pre st g j h.dc
    have h2 := env.nodes h.dc
    simp only [List.filter_append, List.length_append, List.filter_cons, decide_true, if_true,
      List.length_cons] at h2
    omega
  by_cases h0 : rfOf c.rfs h.dc = 0
  · rw [ntsStep_skip c st h (Or.inl h0), spec_step_skip]
    · exact s
    · by_cases hm : h.dc ∈ c.rfs.map (·.1)
      · right; simp [Spec.sufficient, h0]
      · left; exact hm
  have hmem : h.dc ∈ c.rfs.map (·.1) := List.mem_map.mpr ⟨_, rfOf_mem c.rfs h.dc h0, rfl⟩
  by_cases h1 : st.inDC h.dc ≥ rfOf c.rfs h.dc
  · have heq : st.inDC h.dc = rfOf c.rfs h.dc := by have := g.le h.dc; omega
    rw [ntsStep_skip c st h (Or.inr heq), spec_step_skip]
    · exact s
    · right
      simp only [Spec.sufficient, hcnt, ge_iff_le, decide_eq_true_eq]
      omega
  have hlt : st.inDC h.dc < rfOf c.rfs h.dc := by omega
  have hr : h.rack ∈ c.racks h.dc := env.rackKnown h (by simp)
  have hsuf : Spec.sufficient tp (rfOf c.rfs) sst h.dc = false := by
    simp only [Spec.sufficient, hcnt, ge_iff_le, decide_eq_false_iff_not]
    omega
  rcases ntsStep_active c st h h0 hlt hr with ⟨hs, hcomp, e⟩ | ⟨hs, e⟩ | ⟨hs, hncomp, e⟩
  · -- all racks used
    rw [e, spec_step_A tp _ _ sst h hmem hsuf (by rw [s.seen, env.racksEq]; exact hcomp)]
    refine ⟨?_, ?_, s.seen, s.skip, s.snd, s.ssub⟩
    · simp only [stA]; rw [s.reps, sadd_new _ _ hnr]
    · intro d
      simp only [stA, List.filter_append]
      by_cases hd : d = h.dc
      · subst hd
        rw [upd_same, s.dcr, sadd_new _ _ (fun hx => hnr (List.mem_filter.mp hx).1), filter_single_same]
      · rw [upd_other _ _ _ _ hd, s.dcr, filter_single_other h d hd]; simp
  · -- new rack
    have hncomp : (st.seen h.dc).length ≠ (c.racks h.dc).length := by
      intro heq
      exact hs (nodup_subset_covers (st.seen h.dc) (c.racks h.dc) (s.snd _) (s.ssub _) (by omega) h.rack hr)
    have hs' : h.rack ∉ sst.seenRacks h.dc := by rw [s.seen]; exact hs
    rw [e, spec_step_B tp _ _ sst h hmem hsuf (by rw [s.seen, env.racksEq]; exact hncomp) hs']
    have hsk : sst.skipped h.dc = st.skipped h.dc := s.skip _ hncomp
    have h1r : (st1 sst h).replicas = st.replicas ++ [h] := by simp only [st1]; rw [s.reps, sadd_new _ _ hnr]
    have h1d : (st1 sst h).dcReplicas h.dc = st.replicas.filter (fun x => decide (x.dc = h.dc)) ++ [h] := by
      simp only [st1, upd_same]; rw [s.dcr, sadd_new _ _ (fun hx => hnr (List.mem_filter.mp hx).1)]
    have h1do : ∀ d, d ≠ h.dc → (st1 sst h).dcReplicas d = st.replicas.filter (fun x => decide (x.dc = d)) := by
      intro d hd; simp only [st1, upd_other _ _ _ _ hd]; exact s.dcr d
    have h1s : (st1 sst h).seenRacks = upd st.seen h.dc (st.seen h.dc ++ [h.rack]) := by
      funext d
      by_cases hd : d = h.dc
      · subst hd; simp only [st1, upd_same]; rw [s.seen, sadd_new _ _ hs]
      · simp only [st1, upd_other _ _ _ _ hd]; exact s.seen d
    have h1k : (st1 sst h).skipped = sst.skipped := rfl
    -- fields of the Spec state after the (possible) drain, with k = drainCount
    have key : ∀ sst', sst' = (if ((st1 sst h).seenRacks h.dc).length = tp.racksIn h.dc
          then Spec.drainSk tp (rfOf c.rfs) h.dc (st1 sst h) ((st1 sst h).skipped h.dc) else st1 sst h) →
        sst'.replicas = st.replicas ++ [h] ++ (st.skipped h.dc).take (drainCount c st h) ∧
        sst'.dcReplicas h.dc = st.replicas.filter (fun x => decide (x.dc = h.dc)) ++ [h]
            ++ (st.skipped h.dc).take (drainCount c st h) ∧
        (∀ d, d ≠ h.dc → sst'.dcReplicas d = st.replicas.filter (fun x => decide (x.dc = d))) ∧
        sst'.seenRacks = upd st.seen h.dc (st.seen h.dc ++ [h.rack]) ∧ sst'.skipped = sst.skipped := by
      intro sst' hdef
      have hlen1 : ((st1 sst h).seenRacks h.dc).length = (st.seen h.dc).length + 1 := by
        rw [h1s, upd_same]; simp
      rw [hlen1, env.racksEq] at hdef
      unfold drainCount
      by_cases h5 : (st.seen h.dc).length + 1 = (c.racks h.dc).length
      · simp only [h5, if_true] at hdef ⊢
        rw [h1k, hsk] at hdef
        obtain ⟨t1, t2, t3, t4, t5⟩ := drainSk_eq tp (rfOf c.rfs) h.dc (st.skipped h.dc) (st1 sst h) (j.snd _)
          (by
            intro x hx
            have hxne : x ≠ h := by intro e; subst e; exact hnew (j.sp _ x hx)
            rw [h1r, h1d]
            simp only [List.mem_append, List.mem_singleton, List.mem_filter]
            exact ⟨by rintro (hh | hh); exact j.dis _ x hx hh; exact hxne hh,
                   by rintro (hh | hh); exact j.dis _ x hx hh.1; exact hxne hh⟩)
          (by rw [h1d, List.length_append, g.cnt]; simp only [List.length_cons, List.length_nil]; omega)
        have hl : ((st1 sst h).dcReplicas h.dc).length = st.inDC h.dc + 1 := by
          rw [h1d, List.length_append, g.cnt]; rfl
        rw [hl] at t1 t2
        subst hdef
        refine ⟨by rw [t1, h1r], by rw [t2, h1d], ?_, by rw [t4, h1s], by rw [t5, h1k]⟩
        intro d hd; rw [t3 d hd]; exact h1do d hd
      · simp only [h5, if_false] at hdef ⊢
        subst hdef
        refine ⟨by rw [h1r]; simp, by rw [h1d]; simp, h1do, h1s, h1k⟩
    obtain ⟨k1, k2, k3, k4, k5⟩ := key _ rfl
    have htk : ∀ x ∈ (st.skipped h.dc).take (drainCount c st h), x.dc = h.dc :=
      fun x hx => g.skdc _ x (List.mem_of_mem_take hx)
    refine ⟨?_, ?_, ?_, ?_, ?_, ?_⟩
    · rw [k1]; rfl
    · intro d
      simp only [stB, List.filter_append]
      by_cases hd : d = h.dc
      · subst hd
        have hf1 : ((st.skipped h.dc).take (drainCount c st h)).filter (fun x => decide (x.dc = h.dc))
            = (st.skipped h.dc).take (drainCount c st h) :=
          List.filter_eq_self.mpr (by intro x hx; simp [htk x hx])
        rw [k2, filter_single_same, hf1]
      · have hf2 : ((st.skipped h.dc).take (drainCount c st h)).filter (fun x => decide (x.dc = d)) = [] :=
          List.filter_eq_nil_iff.mpr (by intro x hx; rw [htk x hx]; simp; omega)
        rw [k3 d hd, filter_single_other h d hd, hf2]
        simp
    · intro d; rw [k4]; rfl
    · intro d hne
      by_cases hd : d = h.dc
      · subst hd
        simp only [stB, upd_same, List.length_append, List.length_cons, List.length_nil] at hne ⊢
        rw [k5, hsk]
        unfold drainCount
        have : ¬ ((st.seen h.dc).length + 1 = (c.racks h.dc).length) := by omega
        simp [this]
      · simp only [stB, upd_other _ _ _ _ hd] at hne ⊢
        rw [k5]; exact s.skip d hne
    · intro d
      by_cases hd : d = h.dc
      · subst hd
        simp only [stB, upd_same]
        rw [List.nodup_append]
        exact ⟨s.snd _, by simp, by intro a ha b hb; simp at hb; subst hb; intro e; subst e; exact hs ha⟩
      · simp only [stB, upd_other _ _ _ _ hd]; exact s.snd d
    · intro d r hrr
      by_cases hd : d = h.dc
      · subst hd
        simp only [stB, upd_same, List.mem_append, List.mem_singleton] at hrr
        rcases hrr with hrr | rfl
        · exact s.ssub _ r hrr
        · exact hr
      · simp only [stB, upd_other _ _ _ _ hd] at hrr
        exact s.ssub d r hrr
  · -- rack already used, others not yet
    rw [e, spec_step_C tp _ _ sst h hmem hsuf (by rw [s.seen, env.racksEq]; exact hncomp) (by rw [s.seen]; exact hs)]
    refine ⟨s.reps, s.dcr, s.seen, ?_, s.snd, s.ssub⟩
    intro d hne
    by_cases hd : d = h.dc
    · subst hd
      simp only [stC, upd_same] at hne ⊢
      rw [s.skip _ hne, sadd_new _ _ (fun hx => hnew (j.sp _ h hx))]
    · simp only [stC, upd_other _ _ _ _ hd] at hne ⊢
      exact s.skip d hne

/-! ### the two loop conditions -/

theorem rfOf_of_mem (rfs : List (Nat × Nat)) (hk : (rfs.map (·.1)).Nodup) (d v : Nat) (hm : (d, v) ∈ rfs) :
    rfOf rfs d = v := by
  induction rfs with
  | nil => simp at hm
  | cons p r ih =>
    obtain ⟨k, w⟩ := p
    simp only [List.map_cons, List.nodup_cons] at hk
    unfold rfOf
    simp only [List.lookup]
    rcases List.mem_cons.mp hm with e | hm'
    · cases e; simp
    · have hne : d ≠ k := by
        intro e; subst e
        exact hk.1 (List.mem_map.mpr ⟨(d, v), hm', rfl⟩)
      have : (d == k) = false := by simpa using hne
      simp only [this]
      exact ih hk.2 hm'

theorem sum_map_add {α : Type} (l : List α) (f g : α → Nat) :
    (l.map (fun k => f k + g k)).sum = (l.map f).sum + (l.map g).sum := by
  induction l with
  | nil => simp
  | cons a r ih => simp only [List.map_cons, List.sum_cons, ih]; omega

theorem sum_map_zero {α : Type} (l : List α) : (l.map (fun _ => 0)).sum = 0 := by
  induction l with
  | nil => rfl
  | cons a r ih => simp only [List.map_cons, List.sum_cons, ih]

theorem sum_indicator (ks : List Nat) (hk : ks.Nodup) (a : Nat) (ha : a ∈ ks) :
    (ks.map (fun k => if a = k then 1 else 0)).sum = 1 := by
  induction ks with
  | nil => simp at ha
  | cons k r ih =>
    rw [List.nodup_cons] at hk
    simp only [List.map_cons, List.sum_cons]
    rcases List.mem_cons.mp ha with e | ha'
    · subst e
      have : (r.map (fun k => if a = k then 1 else 0)).sum = 0 := by
        have : ∀ k ∈ r, (if a = k then 1 else 0) = 0 := by
          intro k hk'; have : a ≠ k := by intro e; subst e; exact hk.1 hk'
          simp [this]
        rw [List.map_congr_left this]; exact sum_map_zero r
      simp [this]
    · have : a ≠ k := by intro e; subst e; exact hk.1 ha'
      simp [this, ih hk.2 ha']

theorem sum_filter_keys (ks : List Nat) (hk : ks.Nodup) : ∀ (R : List Host), (∀ x ∈ R, x.dc ∈ ks) →
    (ks.map (fun k => (R.filter (fun x => decide (x.dc = k))).length)).sum = R.length := by
  intro R
  induction R with
  | nil => intro _; simpa using sum_map_zero ks
  | cons x R ih =>
    intro hR
    have hx := hR x (List.mem_cons_self ..)
    have : ∀ k, ((x :: R).filter (fun y => decide (y.dc = k))).length
        = (R.filter (fun y => decide (y.dc = k))).length + (if x.dc = k then 1 else 0) := by
      intro k
      rw [List.filter_cons]
      by_cases hd : x.dc = k <;> simp [hd]
    simp only [this]
    rw [sum_map_add, ih (fun y hy => hR y (List.mem_cons_of_mem _ hy)), sum_indicator ks hk x.dc hx]
    simp

theorem pointwise_eq (f : Nat → Nat) : ∀ (l : List (Nat × Nat)), (∀ p ∈ l, f p.1 ≤ p.2) →
    (l.map (·.2)).sum ≤ (l.map (fun p => f p.1)).sum →
    (l.map (fun p => f p.1)).sum ≤ (l.map (·.2)).sum ∧ ∀ p ∈ l, f p.1 = p.2 := by
  intro l
  induction l with
  | nil => intro _ _; simp
  | cons a r ih =>
    intro hle hsum
    have ha := hle a (List.mem_cons_self ..)
    have hr : ∀ p ∈ r, f p.1 ≤ p.2 := fun p hp => hle p (List.mem_cons_of_mem _ hp)
    have hle_r : (r.map (fun p => f p.1)).sum ≤ (r.map (·.2)).sum := by
      clear ih hsum
      induction r with
      | nil => simp
      | cons b r' ih' =>
        have := hr b (List.mem_cons_self ..)
        have := ih' (fun p hp => hle p (by
          rcases List.mem_cons.mp hp with e | hp
          · exact e ▸ List.mem_cons_self ..
          · exact List.mem_cons_of_mem _ (List.mem_cons_of_mem _ hp))) (fun p hp => hr p (List.mem_cons_of_mem _ hp))
        simp only [List.map_cons, List.sum_cons]; omega
    simp only [List.map_cons, List.sum_cons] at hsum ⊢
    have := ih hr (by omega)
    refine ⟨by omega, ?_⟩
    intro p hp
    rcases List.mem_cons.mp hp with e | hp
    · subst e; omega
    · exact this.2 p hp

/-- when the code's loop condition stops the walk, every keyspace DC has exactly rf replicas -/
theorem model_stop (c : NtsCfg) (st : NtsSt) (g : Good c st) (hk : (c.rfs.map (·.1)).Nodup)
    (htot : c.totalRF = (c.rfs.map (·.2)).sum)
    (hstop : ¬ (st.replicas.length < c.totalRF ∧ haveRF c st = false)) :
    ∀ p ∈ c.rfs, st.inDC p.1 = p.2 := by
  by_cases hh : haveRF c st = true
  · intro p hp
    unfold haveRF at hh
    simp only [Bool.and_eq_true, List.all_eq_true, beq_iff_eq] at hh
    exact (hh.2 p hp).symm
  · have hlen : c.totalRF ≤ st.replicas.length := by
      have : haveRF c st = false := by simpa using hh
      simp only [this, and_true] at hstop; omega
    have hle : ∀ p ∈ c.rfs, st.inDC p.1 ≤ p.2 := by
      intro p hp
      have := g.le p.1
      rwa [rfOf_of_mem c.rfs hk p.1 p.2 hp] at this
    have hdc : ∀ x ∈ st.replicas, x.dc ∈ c.rfs.map (·.1) := by
      intro x hx
      have h1 : 0 < (st.replicas.filter (fun y => decide (y.dc = x.dc))).length :=
        List.length_pos_of_mem (List.mem_filter.mpr ⟨hx, by simp⟩)
      rw [g.cnt] at h1
      have h2 := g.le x.dc
      exact List.mem_map.mpr ⟨_, rfOf_mem c.rfs x.dc (by omega), rfl⟩
    have hsum : (c.rfs.map (fun p => st.inDC p.1)).sum = st.replicas.length := by
      have := sum_filter_keys (c.rfs.map (·.1)) hk st.replicas hdc
      rw [List.map_map] at this
      rw [← this]
      congr 1
      apply List.map_congr_left
      intro p _
      simp only [Function.comp]
      rw [g.cnt]
    exact (pointwise_eq st.inDC c.rfs hle (by rw [hsum, ← htot]; exact hlen)).2

theorem spec_walk_stop (tp : Spec.Topo) (dcs : List Nat) (rf : Nat → Nat) (sst : Spec.St)
    (h : dcs.all (fun dc => Spec.sufficient tp rf sst dc) = true) : ∀ l, Spec.walk tp dcs rf sst l = sst := by
  intro l
  cases l with
  | nil => rfl
  | cons a r => simp [Spec.walk, h]

theorem sim_walk (c : NtsCfg) (tp : Spec.Topo) : ∀ (rest pre : List Host) (st : NtsSt) (sst : Spec.St),
    Env c tp (pre ++ rest) → Good c st → J pre st → Sim c st sst →
    (walk0 c st rest).replicas = (Spec.walk tp (c.rfs.map (·.1)) (rfOf c.rfs) sst rest).replicas := by
  intro rest
  induction rest with
  | nil => intro pre st sst _ _ _ s; simp [walk0, Spec.walk, s.reps]
  | cons h rest ih =>
    intro pre st sst env g j s
    have env' : Env c tp ((pre ++ [h]) ++ rest) := by simpa using env
    have hcnt : ∀ d, (sst.dcReplicas d).length = st.inDC d := by intro d; rw [s.dcr d, g.cnt d]
    by_cases hS : (c.rfs.map (·.1)).all (fun dc => Spec.sufficient tp (rfOf c.rfs) sst dc) = true
    · -- Cassandra's loop stops here
      rw [spec_walk_stop tp _ _ sst hS]
      unfold walk0
      simp only [g.nocrash, Bool.false_eq_true, if_false]
      by_cases hM : st.replicas.length < c.totalRF ∧ haveRF c st = false
      · simp only [hM, and_self, if_true]
        have hskip : ntsStep c st h = st := by
          apply ntsStep_skip
          by_cases h0 : rfOf c.rfs h.dc = 0
          · exact Or.inl h0
          · right
            have hmem : h.dc ∈ c.rfs.map (·.1) := List.mem_map.mpr ⟨_, rfOf_mem c.rfs h.dc h0, rfl⟩
            have hsuf := (List.all_eq_true.mp hS) h.dc hmem
            simp only [Spec.sufficient, hcnt, ge_iff_le, decide_eq_true_eq] at hsuf
            have h1 := count_le c pre st g j h.dc
            have h2 := env.nodes h.dc
            simp only [List.filter_append, List.length_append, List.filter_cons, decide_true, if_true,
              List.length_cons] at h2
            have := g.le h.dc
            omega
        rw [hskip, ih (pre ++ [h]) st sst env' g (j_mono pre h st j) s, spec_walk_stop tp _ _ sst hS, s.reps]
      · simp only [hM, if_false, s.reps]
    · -- Cassandra's loop goes on: so does the code's
      have hM : st.replicas.length < c.totalRF ∧ haveRF c st = false := by
        refine Classical.byContradiction (fun hstop => hS ?_)
        have hall := model_stop c st g env.keys env.tot hstop
        rw [List.all_eq_true]
        intro d hd
        obtain ⟨p, hp, rfl⟩ := List.mem_map.mp hd
        simp only [Spec.sufficient, hcnt, ge_iff_le, decide_eq_true_eq]
        rw [hall p hp, rfOf_of_mem c.rfs env.keys p.1 p.2 hp]
        exact Nat.min_le_right _ _
      have hnew : h ∉ pre := by
        intro hm
        have := env.nd
        rw [List.nodup_append] at this
        exact this.2.2 h hm h (List.mem_cons_self ..) rfl
      unfold walk0 Spec.walk
      simp only [g.nocrash, Bool.false_eq_true, if_false, hM, and_self, if_true, hS]
      exact ih (pre ++ [h]) _ _ env' (good_step c st h g) (j_step c pre h st g j hnew)
        (sim_step c tp pre rest h st sst env g j s)

end C10NtsSpec
