import Model.Pool
/-!
# C17 — the pool registry of one host under concurrent addHost / removeHost / Close callers (helper lemmas)
-/
namespace C17Reg
open Reg

theorem setClosed_get : ∀ (l : List Bool) (i j : Nat), (setClosed l i)[j]? = some false → l[j]? = some false ∧ j ≠ i
  | [], i, j, h => by simp [setClosed] at h
  | b :: bs, 0, 0, h => by simp [setClosed] at h
  | b :: bs, 0, j + 1, h => by simp [setClosed] at h ⊢; exact h
  | b :: bs, i + 1, 0, h => by simp [setClosed] at h ⊢; exact h
  | b :: bs, i + 1, j + 1, h => by
    simp only [setClosed, List.getElem?_cons_succ] at h ⊢
    have := setClosed_get bs i j h
    exact ⟨this.1, by omega⟩

theorem append_get (l : List Bool) (j : Nat) (h : (l ++ [false])[j]? = some false) : l[j]? = some false ∨ j = l.length := by
  by_cases hj : j < l.length
  · left; rw [List.getElem?_append_left hj] at h; exact h
  · right
    by_cases he : j = l.length
    · exact he
    · have : l.length + 1 ≤ j := by omega
      rw [List.getElem?_eq_none (by simp; omega)] at h; simp at h

structure RInv (s : St) : Prop where
  missLock : (s.crit = some (.addLooked none) ∨ ∃ i, s.crit = some (.addCreated i)) → s.reg = none
  noOrphan : ∀ i, s.pools[i]? = some false →
    s.reg = some i ∨ s.crit = some (.addCreated i) ∨ s.crit = some (.rmDeleted i) ∨ i ∈ s.toClose

theorem rinv_init (b : Bool) : RInv (St.init b) := by
  constructor
  · intro h; simp [St.init] at h
  · intro i h
    cases b
    · simp [St.init] at h
    · simp only [St.init, if_true] at h ⊢
      cases i with
      | zero => left; rfl
      | succ n => simp at h

theorem rinv_step (s s' : St) (a : Act) (h : RInv s) (hs : step s a = some s') : RInv s' := by
  obtain ⟨h1, h2⟩ := h
  cases a with
  | callAdd => simp only [step] at hs; injection hs with hs; subst hs; exact ⟨h1, h2⟩
  | callRemove => simp only [step] at hs; injection hs with hs; subst hs; exact ⟨h1, h2⟩
  | callClose => simp only [step] at hs; injection hs with hs; subst hs; exact ⟨h1, h2⟩
  | addLock =>
    simp only [step] at hs
    split at hs
    · rename_i hc
      injection hs with hs; subst hs
      refine ⟨by intro h; simp at h, ?_⟩
      intro i hi
      have := h2 i hi
      simp only [hc.1] at this
      rcases this with a | a | a | a
      · exact Or.inl a
      · simp at a
      · simp at a
      · exact Or.inr (Or.inr (Or.inr a))
    · simp at hs
  | addLookup =>
    simp only [step] at hs
    split at hs
    · rename_i hc
      split at hs
      · injection hs with hs; subst hs
        refine ⟨by intro h; simp at h, ?_⟩
        intro i hi
        have := h2 i hi
        simp only [hc] at this
        rcases this with a | a | a | a
        · exact Or.inl a
        · simp at a
        · simp at a
        · exact Or.inr (Or.inr (Or.inr a))
      · injection hs with hs; subst hs
        refine ⟨?_, ?_⟩
        · intro h
          rcases h with h | ⟨i, h⟩
          · simp at h; exact h
          · simp at h
        · intro i hi
          have := h2 i hi
          simp only [hc] at this
          rcases this with a | a | a | a
          · exact Or.inl a
          · simp at a
          · simp at a
          · exact Or.inr (Or.inr (Or.inr a))
    · simp at hs
  | addCreate =>
    simp only [step] at hs
    split at hs
    · rename_i hc
      injection hs with hs; subst hs
      have hr := h1 (Or.inl hc)
      refine ⟨fun _ => hr, ?_⟩
      intro i hi
      rcases append_get _ _ hi with hi' | hi'
      · have := h2 i hi'
        simp only [hc, hr] at this
        rcases this with a | a | a | a
        · simp at a
        · simp at a
        · simp at a
        · exact Or.inr (Or.inr (Or.inr a))
      · subst hi'; right; left; rfl
    · simp at hs
  | addStore =>
    simp only [step] at hs
    split at hs
    · rename_i i hc
      injection hs with hs; subst hs
      have hr := h1 (Or.inr ⟨i, hc⟩)
      refine ⟨?_, ?_⟩
      · intro h; rcases h with h | ⟨j, h⟩ <;> simp at h
      · intro j hj
        have := h2 j hj
        simp only [hc, hr] at this
        rcases this with a | a | a | a
        · simp at a
        · left; simp at a; simp [a]
        · simp at a
        · exact Or.inr (Or.inr (Or.inr a))
    · simp at hs
  | addUnlock =>
    simp only [step] at hs
    split at hs
    · rename_i hc
      injection hs with hs; subst hs
      refine ⟨by intro h; simp at h, ?_⟩
      intro j hj
      have := h2 j hj
      simp only [hc] at this
      rcases this with a | a | a | a
      · exact Or.inl a
      · simp at a
      · simp at a
      · exact Or.inr (Or.inr (Or.inr a))
    · rename_i i hc
      injection hs with hs; subst hs
      refine ⟨by intro h; simp at h, ?_⟩
      intro j hj
      have := h2 j hj
      simp only [hc] at this
      rcases this with a | a | a | a
      · exact Or.inl a
      · simp at a
      · simp at a
      · exact Or.inr (Or.inr (Or.inr a))
    · rename_i i hc
      injection hs with hs; subst hs
      refine ⟨by intro h; simp at h, ?_⟩
      intro j hj
      have := h2 j hj
      simp only [hc] at this
      rcases this with a | a | a | a
      · exact Or.inl a
      · simp at a
      · simp at a
      · exact Or.inr (Or.inr (Or.inr a))
    · simp at hs
  | fill i =>
    simp only [step] at hs
    split at hs
    · injection hs with hs; subst hs; exact ⟨h1, h2⟩
    · simp at hs
  | rmLock =>
    simp only [step] at hs
    split at hs
    · rename_i hc
      injection hs with hs; subst hs
      refine ⟨by intro h; simp at h, ?_⟩
      intro i hi
      have := h2 i hi
      simp only [hc.1] at this
      rcases this with a | a | a | a
      · exact Or.inl a
      · simp at a
      · simp at a
      · exact Or.inr (Or.inr (Or.inr a))
    · simp at hs
  | rmLookup =>
    simp only [step] at hs
    split at hs
    · rename_i hc
      split at hs
      · rename_i hr
        injection hs with hs; subst hs
        refine ⟨by intro h; simp at h, ?_⟩
        intro i hi
        have := h2 i hi
        simp only [hc, hr] at this
        rcases this with a | a | a | a
        · simp at a
        · simp at a
        · simp at a
        · exact Or.inr (Or.inr (Or.inr a))
      · rename_i k hr
        injection hs with hs; subst hs
        refine ⟨by intro h; simp at h, ?_⟩
        intro i hi
        have := h2 i hi
        simp only [hc, hr] at this
        rcases this with a | a | a | a
        · right; right; left; simp at a; simp [a]
        · simp at a
        · simp at a
        · exact Or.inr (Or.inr (Or.inr a))
    · simp at hs
  | rmUnlock =>
    simp only [step] at hs
    split at hs
    · rename_i hc
      injection hs with hs; subst hs
      refine ⟨by intro h; simp at h, ?_⟩
      intro i hi
      have := h2 i hi
      simp only [hc] at this
      rcases this with a | a | a | a
      · exact Or.inl a
      · simp at a
      · simp at a
      · exact Or.inr (Or.inr (Or.inr a))
    · rename_i k hc
      injection hs with hs; subst hs
      refine ⟨by intro h; simp at h, ?_⟩
      intro i hi
      have := h2 i hi
      simp only [hc] at this
      rcases this with a | a | a | a
      · exact Or.inl a
      · simp at a
      · right; right; right; simp at a; simp [a]
      · right; right; right; simp [a]
    · simp at hs
  | close k =>
    simp only [step] at hs
    split at hs
    · injection hs with hs; subst hs
      refine ⟨h1, ?_⟩
      intro i hi
      have ⟨hi', hne⟩ := setClosed_get _ _ _ hi
      have := h2 i hi'
      rcases this with a | a | a | a
      · exact Or.inl a
      · exact Or.inr (Or.inl a)
      · exact Or.inr (Or.inr (Or.inl a))
      · right; right; right; exact (List.mem_erase_of_ne hne).mpr a
    · simp at hs
  | clLock =>
    simp only [step] at hs
    split at hs
    · rename_i hc
      injection hs with hs; subst hs
      refine ⟨by intro h; simp at h, ?_⟩
      intro i hi
      have := h2 i hi
      simp only [hc.1] at this
      rcases this with a | a | a | a
      · exact Or.inl a
      · simp at a
      · simp at a
      · exact Or.inr (Or.inr (Or.inr a))
    · simp at hs
  | clSweep =>
    simp only [step] at hs
    split at hs
    · rename_i hc
      split at hs
      · rename_i hr
        injection hs with hs; subst hs
        refine ⟨by intro h; simp at h, ?_⟩
        intro i hi
        have := h2 i hi
        simp only [hc, hr] at this
        rcases this with a | a | a | a
        · simp at a
        · simp at a
        · simp at a
        · exact Or.inr (Or.inr (Or.inr a))
      · rename_i k hr
        injection hs with hs; subst hs
        refine ⟨by intro h; simp at h, ?_⟩
        intro i hi
        have ⟨hi', hne⟩ := setClosed_get _ _ _ hi
        have := h2 i hi'
        simp only [hc, hr] at this
        rcases this with a | a | a | a
        · simp at a; exact absurd a.symm hne
        · simp at a
        · simp at a
        · exact Or.inr (Or.inr (Or.inr a))
    · simp at hs
  | clUnlock =>
    simp only [step] at hs
    split at hs
    · rename_i hc
      injection hs with hs; subst hs
      refine ⟨by intro h; simp at h, ?_⟩
      intro i hi
      have := h2 i hi
      simp only [hc] at this
      rcases this with a | a | a | a
      · exact Or.inl a
      · simp at a
      · simp at a
      · exact Or.inr (Or.inr (Or.inr a))
    · simp at hs
  | sLookup => simp [step] at hs
  | sMake => simp [step] at hs
  | sStore i => simp [step] at hs

theorem rinv_run : ∀ (as : List Act) (s s' : St), RInv s → run s as = some s' → RInv s'
  | [], s, s', h, hr => by simp [run] at hr; subst hr; exact h
  | a :: as, s, s', h, hr => by
    simp only [run] at hr
    split at hr
    · rename_i s1 hs1; exact rinv_run as s1 s' (rinv_step s s1 a h hs1) hr
    · simp at hr

/-- once policyConnPool.Close has swept the map (`closed`, set under the mutex) nothing is registered any more and no
    addHost caller is on its way to a store: every later caller finds `closed` under the mutex and leaves -/
def RClosed (s : St) : Prop :=
  s.closed = true → s.reg = none ∧ (∀ x, s.crit ≠ some (.addLooked x)) ∧ (∀ i, s.crit ≠ some (.addCreated i)) ∧
    ∀ i, s.crit ≠ some (.addStored i)

theorem rclosed_init (b : Bool) : RClosed (St.init b) := by
  intro h; cases b <;> simp [St.init] at h

theorem rclosed_step (s s' : St) (a : Act) (h : RClosed s) (hs : step s a = some s') : RClosed s' := by
  unfold RClosed at h ⊢
  cases a <;> simp only [step] at hs <;> (repeat' split at hs) <;>
    first
    | (simp at hs; done)
    | (injection hs with hs; subst hs; simp_all)

theorem rclosed_run : ∀ (as : List Act) (s s' : St), RClosed s → run s as = some s' → RClosed s'
  | [], s, s', h, hr => by simp [run] at hr; subst hr; exact h
  | a :: as, s, s', h, hr => by
    simp only [run] at hr
    split at hr
    · rename_i s1 hs1; exact rclosed_run as s1 s' (rclosed_step s s1 a h hs1) hr
    · simp at hr

/-- `closed` is never reset -/
theorem closed_mono (s s' : St) (a : Act) (hs : step s a = some s') (hc : s.closed = true) : s'.closed = true := by
  cases a <;> simp only [step] at hs <;> (repeat' split at hs) <;>
    first
    | (simp at hs; done)
    | (injection hs with hs; subst hs; simp_all)

theorem closed_run : ∀ (as : List Act) (s s' : St), run s as = some s' → s.closed = true → s'.closed = true
  | [], s, s', hr, hc => by simp [run] at hr; subst hr; exact hc
  | a :: as, s, s', hr, hc => by
    simp only [run] at hr
    split at hr
    · rename_i s1 hs1; exact closed_run as s1 s' hr (closed_mono s s1 a hs1 hc)
    · simp at hr

end C17Reg

namespace C17Reg
open Reg

theorem setClosed_length : ∀ (l : List Bool) (i : Nat), (setClosed l i).length = l.length
  | [], _ => rfl
  | _ :: _, 0 => rfl
  | _ :: bs, i + 1 => by simp [setClosed, setClosed_length bs i]

theorem setClosed_zero (l : List Bool) (i : Nat) (hi : i ≠ 0) : (setClosed l i)[0]? = l[0]? := by
  cases l with
  | nil => rfl
  | cons b bs =>
    cases i with
    | zero => exact absurd rfl hi
    | succ n => simp [setClosed]

/-- "pool 0 is open and out of everybody's reach": closed under every step of the split-lock machine -/
structure Orphan0 (s : St) : Prop where
  open0 : s.pools[0]? = some false
  len : 2 ≤ s.pools.length
  notReg : s.reg ≠ some 0
  notMade : 0 ∉ s.made
  notDoomed : 0 ∉ s.toClose
  crit : s.crit ≠ some (.addLooked (some 0)) ∧ s.crit ≠ some (.addCreated 0) ∧ s.crit ≠ some (.addStored 0) ∧
    s.crit ≠ some (.rmDeleted 0)

theorem orphan0_step (s s' : St) (a : Act) (h : Orphan0 s) (hs : stepSplit s a = some s') : Orphan0 s' := by
  obtain ⟨h1, h2, h3, h4, h5, h6a, h6b, h6c, h6d⟩ := h
  cases a with
  | callAdd => simp only [stepSplit, step] at hs; injection hs with hs; subst hs; exact ⟨h1, h2, h3, h4, h5, h6a, h6b, h6c, h6d⟩
  | callRemove => simp only [stepSplit, step] at hs; injection hs with hs; subst hs; exact ⟨h1, h2, h3, h4, h5, h6a, h6b, h6c, h6d⟩
  | callClose => simp only [stepSplit, step] at hs; injection hs with hs; subst hs; exact ⟨h1, h2, h3, h4, h5, h6a, h6b, h6c, h6d⟩
  | addLock => simp [stepSplit] at hs
  | addLookup => simp [stepSplit] at hs
  | addCreate => simp [stepSplit] at hs
  | addStore => simp [stepSplit] at hs
  | addUnlock => simp [stepSplit] at hs
  | fill i =>
    simp only [stepSplit, step] at hs
    split at hs
    · injection hs with hs; subst hs; exact ⟨h1, h2, h3, h4, h5, h6a, h6b, h6c, h6d⟩
    · simp at hs
  | rmLock =>
    simp only [stepSplit, step] at hs
    split at hs
    · injection hs with hs; subst hs
      exact ⟨h1, h2, h3, h4, h5, by simp, by simp, by simp, by simp⟩
    · simp at hs
  | rmLookup =>
    simp only [stepSplit, step] at hs
    split at hs
    · split at hs
      · injection hs with hs; subst hs
        exact ⟨h1, h2, h3, h4, h5, by simp, by simp, by simp, by simp⟩
      · rename_i k hr
        injection hs with hs; subst hs
        have hk : k ≠ 0 := by intro hk; subst hk; exact h3 hr
        refine ⟨h1, h2, by simp, h4, h5, by simp, by simp, by simp, ?_⟩
        intro hc; injection hc with hc; injection hc with hc; exact hk hc
    · simp at hs
  | rmUnlock =>
    simp only [stepSplit, step] at hs
    split at hs
    · injection hs with hs; subst hs
      exact ⟨h1, h2, h3, h4, h5, by simp, by simp, by simp, by simp⟩
    · rename_i k hc
      injection hs with hs; subst hs
      have hk : k ≠ 0 := by intro hk; subst hk; exact h6d hc
      refine ⟨h1, h2, h3, h4, ?_, by simp, by simp, by simp, by simp⟩
      intro hm
      rcases List.mem_append.mp hm with hm | hm
      · exact h5 hm
      · simp at hm; exact hk hm.symm
    · simp at hs
  | close k =>
    simp only [stepSplit, step] at hs
    split at hs
    · rename_i hm
      injection hs with hs; subst hs
      have hk : k ≠ 0 := by intro hk; subst hk; exact h5 hm
      refine ⟨by simp only; rw [setClosed_zero _ _ hk]; exact h1, by simp only; rw [setClosed_length]; exact h2, h3, h4, ?_,
        h6a, h6b, h6c, h6d⟩
      intro hm'; exact h5 (List.mem_of_mem_erase hm')
    · simp at hs
  | clLock =>
    simp only [stepSplit, step] at hs
    split at hs
    · injection hs with hs; subst hs
      exact ⟨h1, h2, h3, h4, h5, by simp, by simp, by simp, by simp⟩
    · simp at hs
  | clSweep =>
    simp only [stepSplit, step] at hs
    split at hs
    · split at hs
      · injection hs with hs; subst hs
        exact ⟨h1, h2, h3, h4, h5, by simp, by simp, by simp, by simp⟩
      · rename_i k hr
        injection hs with hs; subst hs
        have hk : k ≠ 0 := by intro hk; subst hk; exact h3 hr
        exact ⟨by simp only; rw [setClosed_zero _ _ hk]; exact h1, by simp only; rw [setClosed_length]; exact h2, by simp, h4, h5,
          by simp, by simp, by simp, by simp⟩
    · simp at hs
  | clUnlock =>
    simp only [stepSplit, step] at hs
    split at hs
    · injection hs with hs; subst hs
      exact ⟨h1, h2, h3, h4, h5, by simp, by simp, by simp, by simp⟩
    · simp at hs
  | sLookup =>
    simp only [stepSplit] at hs
    split at hs
    · split at hs <;> (injection hs with hs; subst hs; exact ⟨h1, h2, h3, h4, h5, h6a, h6b, h6c, h6d⟩)
    · simp at hs
  | sMake =>
    simp only [stepSplit] at hs
    split at hs
    · injection hs with hs; subst hs
      refine ⟨?_, by simp; omega, h3, ?_, h5, h6a, h6b, h6c, h6d⟩
      · simp only; rw [List.getElem?_append_left (by omega)]; exact h1
      · intro hm
        rcases List.mem_append.mp hm with hm | hm
        · exact h4 hm
        · simp at hm; omega
    · simp at hs
  | sStore k =>
    simp only [stepSplit] at hs
    split at hs
    · rename_i hc
      injection hs with hs; subst hs
      have hk : k ≠ 0 := by intro hk; subst hk; exact h4 hc.2
      refine ⟨h1, h2, ?_, ?_, h5, h6a, h6b, h6c, h6d⟩
      · intro hr; injection hr with hr; exact hk hr
      · intro hm; exact h4 (List.mem_of_mem_erase hm)
    · simp at hs

theorem orphan0_run : ∀ (as : List Act) (s s' : St), Orphan0 s → runSplit s as = some s' → Orphan0 s'
  | [], s, s', h, hr => by simp [runSplit] at hr; subst hr; exact h
  | a :: as, s, s', h, hr => by
    simp only [runSplit] at hr
    split at hr
    · rename_i s1 hs1; exact orphan0_run as s1 s' (orphan0_step s s1 a h hs1) hr
    · simp at hr

end C17Reg
