import Model.CrashValue
/-!
  C05 / value decoders: basic lemmas about the checked primitives and the leaf decoders of
  `Model.CrashValue` (they never crash: every index / slice they perform is inside the guard that
  precedes it).
-/
namespace C05Value
open CrashValue

/-- `o` never crashes -/
def NoCrash {α : Type} (o : Res α) : Prop := ∀ s, o ≠ .crash s

/-- the same, in the form the structural lemmas use -/
def Safe {α : Type} (o : Res α) : Prop := ∀ s, o = .crash s → False

@[simp] theorem ok_bind {α β : Type} (a : α) (f : α → Res β) : (Res.ok a >>= f) = f a := rfl
@[simp] theorem err_bind {α β : Type} (f : α → Res β) : ((Res.err : Res α) >>= f) = .err := rfl
@[simp] theorem crash_bind {α β : Type} (s : Site) (f : α → Res β) : ((Res.crash s : Res α) >>= f) = .crash s := rfl

theorem NoCrash.safe {α : Type} {o : Res α} (h : NoCrash o) : Safe o :=
  fun s hs => absurd hs (h s)
theorem Safe.noCrash {α : Type} {o : Res α} (h : Safe o) : NoCrash o := fun s hs => h s hs

@[simp] theorem nocrash_ok {α : Type} (a : α) : NoCrash (Res.ok a) := fun _ h => by cases h
@[simp] theorem nocrash_err {α : Type} : NoCrash (Res.err : Res α) := fun _ h => by cases h
@[simp] theorem safe_ok {α : Type} (a : α) : Safe (Res.ok a) := fun _ h => by cases h
@[simp] theorem safe_err {α : Type} : Safe (Res.err : Res α) := fun _ h => by cases h

theorem nocrash_bind {α β : Type} {x : Res α} {f : α → Res β}
    (hx : NoCrash x) (hf : ∀ a, x = .ok a → NoCrash (f a)) : NoCrash (x >>= f) := by
  cases x with
  | ok a => exact hf a rfl
  | err => simp
  | crash s => exact absurd rfl (hx s)

theorem safe_bind {α β : Type} {x : Res α} {f : α → Res β}
    (hx : Safe x) (hf : ∀ a, x = .ok a → Safe (f a)) : Safe (x >>= f) := by
  cases x with
  | ok a => exact hf a rfl
  | err => simp
  | crash s =>
    intro s' h
    simp only [crash_bind] at h
    cases h
    exact hx s rfl

theorem safe_errIf (bad : Bool) : Safe (errIf bad) := by
  unfold errIf; split <;> simp

theorem idx_ok {fn : Fn} {d : Bytes} {i : Nat} (h : i < d.length) : idx fn d i = .ok (d.getD i 0) := by
  simp [idx, h]
theorem sliceFrom_ok {fn : Fn} {d : Bytes} {a : Nat} (h : a ≤ d.length) : sliceFrom fn d a = .ok (d.drop a) := by
  simp [sliceFrom, h]
theorem sliceTo_ok {fn : Fn} {d : Bytes} {b : Nat} (h : b ≤ d.length) : sliceTo fn d b = .ok (d.take b) := by
  simp [sliceTo, h]

/-! ### leaf decoders never crash -/

theorem decInt_nocrash (d : Bytes) : NoCrash (decInt d) := by
  unfold decInt
  split
  · simp
  · have h : d.length = 4 := by omega
    simp [idx, h]

theorem decShort_nocrash (d : Bytes) : NoCrash (decShort d) := by
  unfold decShort
  split
  · simp
  · have h : d.length = 2 := by omega
    simp [idx, h]

theorem decTiny_nocrash (d : Bytes) : NoCrash (decTiny d) := by
  unfold decTiny
  split
  · simp
  · have h : d.length = 1 := by omega
    simp [idx, h]

theorem decBigInt_nocrash (d : Bytes) : NoCrash (decBigInt d) := by
  unfold decBigInt
  split
  · simp
  · have h : d.length = 8 := by omega
    simp [idx, h]

theorem decBool_nocrash (d : Bytes) : NoCrash (decBool d) := by
  unfold decBool
  split
  · simp
  · have h : 0 < d.length := by omega
    simp [idx, h]

theorem inRange_nocrash (v lo hi : Int) : NoCrash (inRange v lo hi) := by
  unfold inRange; split <;> simp

theorem intlike_nocrash (ty : Native) (v : Int) (g : GT) : NoCrash (intlike ty v g) := by
  unfold intlike
  split <;> first | simp | exact inRange_nocrash _ _ _ | (split <;> first | simp | exact inRange_nocrash _ _ _)

theorem vintBody_nocrash (d : Bytes) : ∀ (k i : Nat), i + k < d.length → NoCrash (vintBody d k i)
  | 0, _, _ => by simp [vintBody]
  | k+1, i, h => by
      have h1 : i + 1 < d.length := by omega
      simp only [vintBody, idx_ok h1, ok_bind]
      exact vintBody_nocrash d k (i+1) (by omega)

theorem decVint_nocrash (d : Bytes) (start : Nat) : NoCrash (decVint d start) := by
  unfold decVint
  split
  · simp
  · have h : start < d.length := by omega
    simp only [idx_ok h, ok_bind]
    split
    · simp
    · split
      · simp
      · apply nocrash_bind
        · exact vintBody_nocrash _ _ _ (by omega)
        · intro _ _; simp

theorem decVints_nocrash (d : Bytes) : NoCrash (decVints d) := by
  unfold decVints
  apply nocrash_bind (decVint_nocrash _ _); intro i _
  apply nocrash_bind (decVint_nocrash _ _); intro j _
  apply nocrash_bind (decVint_nocrash _ _); intro _ _
  simp

theorem unmarshalUUID_nocrash (g : GT) (d : Bytes) : NoCrash (unmarshalUUID g d) := by
  unfold unmarshalUUID
  split
  · split <;> simp
  · split
    · simp
    · split <;> simp

end C05Value
