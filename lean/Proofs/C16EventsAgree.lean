import Proofs.C16EventsRefresh
import Proofs.C16EventsBatch
/-! helper lemmas: the invariant `Agree` (pools and policy entries belong to the ring's current objects,
policy entries sit in the list their locality assigns them to) is kept by every handler and by every
step of `refreshRing` -/
namespace C16
open Ring ClusterView

/-- every pool belongs to the ring's current object of its host id -/
def PoolsOk (v : View) : Prop := ∀ e ∈ v.pools, lookup v.ring.byId e.1 = some e.2
/-- every policy entry is the ring's current object of its host id -/
def PolOk (v : View) : Prop := ∀ h ∈ v.pol.all, lookup v.ring.byId h.id = some h
/-- the token-aware list is only used by a token-aware policy; local / remote lists hold local / remote hosts -/
def PolPlaced (env : Env) (p : Policy) : Prop :=
  (env.tokenAware = false → p.ta = []) ∧ (∀ x ∈ p.loc, env.isLocal x = true) ∧ (∀ x ∈ p.rem, env.isLocal x = false)

structure Agree (env : Env) (v : View) : Prop where
  sinv : SInv v.ring
  pools : PoolsOk v
  pol : PolOk v
  placed : PolPlaced env v.pol

/-! components of the policy operations -/
theorem fbAdd_ta (env : Env) (p : Policy) (h : RHost) : (p.fbAdd env h).ta = p.ta := by
  unfold Policy.fbAdd; split <;> rfl
theorem fbAdd_loc (env : Env) (p : Policy) (h : RHost) : (p.fbAdd env h).loc = if env.isLocal h then cowAdd p.loc h else p.loc := by
  unfold Policy.fbAdd; split <;> rfl
theorem fbAdd_rem (env : Env) (p : Policy) (h : RHost) : (p.fbAdd env h).rem = if env.isLocal h then p.rem else cowAdd p.rem h := by
  unfold Policy.fbAdd; split <;> rfl
theorem fbRemove_ta (env : Env) (p : Policy) (h : RHost) : (p.fbRemove env h).ta = p.ta := by
  unfold Policy.fbRemove; split <;> rfl
theorem fbRemove_loc (env : Env) (p : Policy) (h : RHost) :
    (p.fbRemove env h).loc = if env.isLocal h then cowRemove p.loc (cAddr h) else p.loc := by
  unfold Policy.fbRemove; split <;> rfl
theorem fbRemove_rem (env : Env) (p : Policy) (h : RHost) :
    (p.fbRemove env h).rem = if env.isLocal h then p.rem else cowRemove p.rem (cAddr h) := by
  unfold Policy.fbRemove; split <;> rfl

theorem add_ta (env : Env) (p : Policy) (h : RHost) : (p.add env h).ta = if env.tokenAware then cowAdd p.ta h else p.ta := by
  unfold Policy.add; rw [fbAdd_ta]; cases env.tokenAware <;> rfl
theorem add_loc (env : Env) (p : Policy) (h : RHost) : (p.add env h).loc = if env.isLocal h then cowAdd p.loc h else p.loc := by
  unfold Policy.add; rw [fbAdd_loc]; cases env.tokenAware <;> rfl
theorem add_rem (env : Env) (p : Policy) (h : RHost) : (p.add env h).rem = if env.isLocal h then p.rem else cowAdd p.rem h := by
  unfold Policy.add; rw [fbAdd_rem]; cases env.tokenAware <;> rfl
theorem remove_ta (env : Env) (p : Policy) (h : RHost) :
    (p.remove env h).ta = if env.tokenAware then cowRemove p.ta (cAddr h) else p.ta := by
  unfold Policy.remove; rw [fbRemove_ta]; cases env.tokenAware <;> rfl
theorem remove_loc (env : Env) (p : Policy) (h : RHost) :
    (p.remove env h).loc = if env.isLocal h then cowRemove p.loc (cAddr h) else p.loc := by
  unfold Policy.remove; rw [fbRemove_loc]; cases env.tokenAware <;> rfl
theorem remove_rem (env : Env) (p : Policy) (h : RHost) :
    (p.remove env h).rem = if env.isLocal h then p.rem else cowRemove p.rem (cAddr h) := by
  unfold Policy.remove; rw [fbRemove_rem]; cases env.tokenAware <;> rfl

theorem mem_all (p : Policy) (x : RHost) : x ∈ p.all ↔ x ∈ p.ta ∨ x ∈ p.loc ∨ x ∈ p.rem := by
  simp [Policy.all, List.mem_append]

theorem mem_cowAdd_sub (l : List RHost) (h x : RHost) (hx : x ∈ cowAdd l h) : x ∈ l ∨ x = h := by
  rcases (mem_cowAdd l h x).mp hx with h1 | h1
  · exact Or.inl h1
  · exact Or.inr h1.1

theorem mem_fbAdd_all (env : Env) (p : Policy) (h x : RHost) (hx : x ∈ (p.fbAdd env h).all) : x ∈ p.all ∨ x = h := by
  rw [mem_all, fbAdd_ta, fbAdd_loc, fbAdd_rem] at hx
  rw [mem_all]
  rcases hx with hx | hx | hx
  · exact Or.inl (Or.inl hx)
  · split at hx
    · rcases mem_cowAdd_sub _ _ _ hx with h1 | h1
      · exact Or.inl (Or.inr (Or.inl h1))
      · exact Or.inr h1
    · exact Or.inl (Or.inr (Or.inl hx))
  · split at hx
    · exact Or.inl (Or.inr (Or.inr hx))
    · rcases mem_cowAdd_sub _ _ _ hx with h1 | h1
      · exact Or.inl (Or.inr (Or.inr h1))
      · exact Or.inr h1

theorem mem_add_all (env : Env) (p : Policy) (h x : RHost) (hx : x ∈ (p.add env h).all) : x ∈ p.all ∨ x = h := by
  rw [mem_all, add_ta, add_loc, add_rem] at hx
  rw [mem_all]
  rcases hx with hx | hx | hx
  · split at hx
    · rcases mem_cowAdd_sub _ _ _ hx with h1 | h1
      · exact Or.inl (Or.inl h1)
      · exact Or.inr h1
    · exact Or.inl (Or.inl hx)
  · split at hx
    · rcases mem_cowAdd_sub _ _ _ hx with h1 | h1
      · exact Or.inl (Or.inr (Or.inl h1))
      · exact Or.inr h1
    · exact Or.inl (Or.inr (Or.inl hx))
  · split at hx
    · exact Or.inl (Or.inr (Or.inr hx))
    · rcases mem_cowAdd_sub _ _ _ hx with h1 | h1
      · exact Or.inl (Or.inr (Or.inr h1))
      · exact Or.inr h1

theorem mem_fbRemove_all (env : Env) (p : Policy) (h x : RHost) (hx : x ∈ (p.fbRemove env h).all) : x ∈ p.all := by
  rw [mem_all, fbRemove_ta, fbRemove_loc, fbRemove_rem] at hx
  rw [mem_all]
  rcases hx with hx | hx | hx
  · exact Or.inl hx
  · split at hx
    · exact Or.inr (Or.inl ((mem_cowRemove _ _ _).mp hx).1)
    · exact Or.inr (Or.inl hx)
  · split at hx
    · exact Or.inr (Or.inr hx)
    · exact Or.inr (Or.inr ((mem_cowRemove _ _ _).mp hx).1)

/-- after `policy.RemoveHost(h)` the object `h` is in none of the lists -/
theorem mem_remove_all (env : Env) (p : Policy) (hp : PolPlaced env p) (h x : RHost) (hx : x ∈ (p.remove env h).all) :
    x ∈ p.all ∧ x ≠ h := by
  rw [mem_all, remove_ta, remove_loc, remove_rem] at hx
  rw [mem_all]
  rcases hx with hx | hx | hx
  · cases ht : env.tokenAware with
    | true =>
      rw [ht] at hx
      simp only [↓reduceIte] at hx
      have := (mem_cowRemove _ _ _).mp hx
      exact ⟨Or.inl this.1, fun e => this.2 (by rw [e])⟩
    | false =>
      rw [ht] at hx
      simp only [Bool.false_eq_true, ↓reduceIte, hp.1 ht] at hx
      cases hx
  · cases hl : env.isLocal h with
    | true =>
      rw [hl] at hx
      simp only [↓reduceIte] at hx
      have := (mem_cowRemove _ _ _).mp hx
      exact ⟨Or.inr (Or.inl this.1), fun e => this.2 (by rw [e])⟩
    | false =>
      rw [hl] at hx
      simp only [Bool.false_eq_true, ↓reduceIte] at hx
      refine ⟨Or.inr (Or.inl hx), fun e => ?_⟩
      have := hp.2.1 x hx
      rw [e, hl] at this
      cases this
  · cases hl : env.isLocal h with
    | true =>
      rw [hl] at hx
      simp only [↓reduceIte] at hx
      refine ⟨Or.inr (Or.inr hx), fun e => ?_⟩
      have := hp.2.2 x hx
      rw [e, hl] at this
      cases this
    | false =>
      rw [hl] at hx
      simp only [Bool.false_eq_true, ↓reduceIte] at hx
      have := (mem_cowRemove _ _ _).mp hx
      exact ⟨Or.inr (Or.inr this.1), fun e => this.2 (by rw [e])⟩

theorem placed_cowAdd (P : RHost → Prop) (l : List RHost) (h : RHost) (hl : ∀ x ∈ l, P x) (hh : P h) : ∀ x ∈ cowAdd l h, P x := by
  intro x hx
  rcases mem_cowAdd_sub _ _ _ hx with h1 | h1
  · exact hl x h1
  · rw [h1]; exact hh

theorem placed_fbAdd (env : Env) (p : Policy) (h : RHost) (hp : PolPlaced env p) : PolPlaced env (p.fbAdd env h) := by
  refine ⟨fun ht => by rw [fbAdd_ta]; exact hp.1 ht, ?_, ?_⟩
  · rw [fbAdd_loc]
    cases hl : env.isLocal h with
    | true => simp only [↓reduceIte]; exact placed_cowAdd (fun x => env.isLocal x = true) _ _ hp.2.1 hl
    | false => simpa using hp.2.1
  · rw [fbAdd_rem]
    cases hl : env.isLocal h with
    | true => simpa using hp.2.2
    | false => simp only [Bool.false_eq_true, ↓reduceIte]; exact placed_cowAdd (fun x => env.isLocal x = false) _ _ hp.2.2 hl

theorem placed_add (env : Env) (p : Policy) (h : RHost) (hp : PolPlaced env p) : PolPlaced env (p.add env h) := by
  unfold Policy.add
  apply placed_fbAdd
  cases ht : env.tokenAware with
  | true => exact ⟨(fun e => absurd (ht.symm.trans e) (by decide)), hp.2.1, hp.2.2⟩
  | false => simpa using hp

theorem placed_fbRemove (env : Env) (p : Policy) (h : RHost) (hp : PolPlaced env p) : PolPlaced env (p.fbRemove env h) := by
  refine ⟨fun ht => by rw [fbRemove_ta]; exact hp.1 ht, ?_, ?_⟩
  · rw [fbRemove_loc]
    split
    · intro x hx; exact hp.2.1 x ((mem_cowRemove _ _ _).mp hx).1
    · exact hp.2.1
  · rw [fbRemove_rem]
    split
    · exact hp.2.2
    · intro x hx; exact hp.2.2 x ((mem_cowRemove _ _ _).mp hx).1

theorem placed_remove (env : Env) (p : Policy) (h : RHost) (hp : PolPlaced env p) : PolPlaced env (p.remove env h) := by
  unfold Policy.remove
  apply placed_fbRemove
  cases ht : env.tokenAware with
  | true => exact ⟨(fun e => absurd (ht.symm.trans e) (by decide)), hp.2.1, hp.2.2⟩
  | false => simpa using hp

/-! the invariant under the primitive steps -/

theorem lookup_add_new (r : Ring.Ring) (h : RHost) (hn : lookup r.byId h.id = none) (k : Nat) :
    lookup (r.addIfMissing h).1.byId k = if k = h.id then some h else lookup r.byId k := by
  rw [addIfMissing_of_none r h hn]
  by_cases hk : k = h.id
  · subst hk; simp [lookup_put_self]
  · simp only [hk, ↓reduceIte]; exact lookup_put_ne _ _ _ _ hk

theorem lookup_remove (r : Ring.Ring) (k k' : Nat) :
    lookup (r.remove k).1.byId k' = if k' = k then none else lookup r.byId k' := by
  cases hl : lookup r.byId k with
  | none =>
    rw [remove_of_none r k hl]
    by_cases hk : k' = k
    · subst hk; simp [hl]
    · simp [hk]
  | some h =>
    rw [remove_of_some r k h hl]
    by_cases hk : k' = k
    · subst hk; simp [lookup_erase_self]
    · simp only [hk, ↓reduceIte]; exact lookup_erase_ne _ _ _ hk

theorem hasKey_mem {β : Type} (m : List (Nat × β)) (k : Nat) : hasKey m k = true ↔ ∃ e ∈ m, e.1 = k := by
  simp [hasKey]

theorem agree_startPoolFill (env : Env) (v : View) (h : RHost) (ha : Agree env v) (hl : lookup v.ring.byId h.id = some h) :
    Agree env (v.startPoolFill env h) := by
  refine ⟨ha.sinv, ?_, ?_, placed_add env _ h ha.placed⟩
  · intro e he
    rcases (mem_poolAdd _ _ _).mp he with h1 | ⟨h1, _⟩
    · exact ha.pools e h1
    · rw [h1]; exact hl
  · intro x hx
    rcases mem_add_all env _ _ _ hx with h1 | h1
    · exact ha.pol x h1
    · rw [h1]; exact hl

theorem agree_addNew (env : Env) (v : View) (h : RHost) (ha : Agree env v) (hn : lookup v.ring.byId h.id = none) :
    Agree env (View.addNew env v h) := by
  unfold View.addNew
  apply agree_startPoolFill
  · refine ⟨SInv_addIfMissing _ ha.sinv h, ?_, ?_, ha.placed⟩
    · intro e he
      have := ha.pools e he
      show lookup (v.ring.addIfMissing h).1.byId e.1 = some e.2
      rw [lookup_add_new _ _ hn]
      have hne : e.1 ≠ h.id := fun e1 => by rw [e1, hn] at this; cases this
      simp [hne, this]
    · intro x hx
      have := ha.pol x hx
      show lookup (v.ring.addIfMissing h).1.byId x.id = some x
      rw [lookup_add_new _ _ hn]
      have hne : x.id ≠ h.id := fun e1 => by rw [e1, hn] at this; cases this
      simp [hne, this]
  · show lookup (v.ring.addIfMissing h).1.byId h.id = some h
    rw [lookup_add_new _ _ hn]; simp

theorem agree_removeHost (env : Env) (v : View) (h : RHost) (ha : Agree env v) (hl : lookup v.ring.byId h.id = some h) :
    Agree env (v.removeHost env h) := by
  refine ⟨SInv_remove _ ha.sinv h.id, ?_, ?_, placed_remove env _ h ha.placed⟩
  · intro e he
    have h1 := (mem_erase _ _ _).mp he
    show lookup (v.ring.remove h.id).1.byId e.1 = some e.2
    rw [lookup_remove]
    simp only [h1.2, ↓reduceIte]
    exact ha.pools e h1.1
  · intro x hx
    have h1 := mem_remove_all env _ ha.placed h x hx
    show lookup (v.ring.remove h.id).1.byId x.id = some x
    rw [lookup_remove]
    have hx' := ha.pol x h1.1
    have hne : x.id ≠ h.id := by
      intro e
      rw [e, hl] at hx'
      exact h1.2 (Option.some.inj hx').symm
    simp only [hne, ↓reduceIte]
    exact hx'

end C16
