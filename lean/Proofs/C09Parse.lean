import Model.Token
namespace Token

theorem digitVal_ofNat (d : Nat) (h : d < 10) : digitVal (Char.ofNat (48 + d)) = some d := by
  have : d = 0 ∨ d = 1 ∨ d = 2 ∨ d = 3 ∨ d = 4 ∨ d = 5 ∨ d = 6 ∨ d = 7 ∨ d = 8 ∨ d = 9 := by omega
  rcases this with h|h|h|h|h|h|h|h|h|h <;> subst h <;> decide

theorem parseDigits_append : ∀ (ds rest : List Char) (a : Nat),
    parseDigits (ds ++ rest) a = (parseDigits ds a).bind (parseDigits rest)
  | [], rest, a => by simp [parseDigits]
  | c :: ds, rest, a => by
    simp only [List.cons_append, parseDigits]
    cases digitVal c with
    | none => simp
    | some d => simp [parseDigits_append ds rest]

theorem natDigitsAux_spec : ∀ (f n : Nat) (acc : List Char), n < f →
    ∃ ds, natDigitsAux f n acc = ds ++ acc ∧ ds ≠ [] ∧ ∀ a, ∃ k, parseDigits ds a = some (a * 10 ^ k + n)
  | 0, n, acc, h => by omega
  | f+1, n, acc, h => by
    simp only [natDigitsAux]
    by_cases h0 : n / 10 = 0
    · simp only [h0, if_true]
      refine ⟨[Char.ofNat (48 + n % 10)], by simp, by simp, ?_⟩
      intro a
      refine ⟨1, ?_⟩
      simp only [parseDigits, digitVal_ofNat (n % 10) (Nat.mod_lt _ (by omega))]
      congr 1; omega
    · simp only [h0, if_false]
      have hn : n / 10 < f := by omega
      obtain ⟨ds, e, hne, hp⟩ := natDigitsAux_spec f (n/10) (Char.ofNat (48 + n % 10) :: acc) hn
      refine ⟨ds ++ [Char.ofNat (48 + n % 10)], by simp [e], by simp, ?_⟩
      intro a
      obtain ⟨k, hk⟩ := hp a
      refine ⟨k+1, ?_⟩
      rw [parseDigits_append, hk]
      simp only [Option.bind_some, parseDigits, digitVal_ofNat (n % 10) (Nat.mod_lt _ (by omega))]
      congr 1
      rw [Nat.pow_succ]
      have := Nat.div_add_mod n 10
      rw [Nat.add_mul, Nat.mul_assoc]
      omega

/-- parsing the printed decimal digits of `n` gives `n` back -/
theorem parseNat_natDigits (n : Nat) : parseNat (natDigits n) = some n := by
  obtain ⟨ds, e, hne, hp⟩ := natDigitsAux_spec (n+1) n [] (by omega)
  obtain ⟨k, hk⟩ := hp 0
  simp only [natDigits, parseNat, e, List.append_nil]
  have : ds.isEmpty = false := by cases ds <;> simp_all
  simp [this, hk]

theorem natDigits_head_digit (n : Nat) : ∀ c, (natDigits n).head? = some c → c ≠ '-' ∧ c ≠ '+' := by
  intro c hc
  obtain ⟨ds, e, hne, hp⟩ := natDigitsAux_spec (n+1) n [] (by omega)
  simp only [natDigits, e, List.append_nil] at hc
  obtain ⟨k, hk⟩ := hp 0
  cases ds with
  | nil => simp at hne
  | cons d ds =>
    simp at hc; subst hc
    simp only [parseDigits] at hk
    constructor <;> (intro hd; subst hd; simp [digitVal] at hk)

/-- **C09 (token strings)**: for every in-range int64 `i`, the Murmur3 `ParseString` model applied to
    the decimal string of `i` returns `i`; hence `Less` on parsed tokens is `<` on the denoted numbers. -/
theorem splitSign_plain (c : Char) (cs : List Char) (h1 : c ≠ '-') (h2 : c ≠ '+') :
    splitSign (c :: cs) = (false, c :: cs) := by
  unfold splitSign
  split
  · rename_i heq; simp at heq; exact absurd heq.1 h2
  · rename_i heq; simp at heq; exact absurd heq.1 h1
  · rfl

theorem parseInt64_printInt (i : Int) (hlo : int64Min ≤ i) (hhi : i ≤ int64Max) :
    parseInt64 (printInt i) = i := by
  unfold int64Min int64Max at *
  by_cases hneg : i < 0
  · simp only [printInt, hneg, if_true, parseInt64, splitSign, parseNat_natDigits]
    split
    · omega
    · omega
  · simp only [printInt, hneg, if_false]
    have hh := natDigits_head_digit i.natAbs
    have hp := parseNat_natDigits i.natAbs
    unfold parseInt64
    cases hds : natDigits i.natAbs with
    | nil => simp [hds, parseNat] at hp
    | cons c cs =>
      have := hh c (by simp [hds])
      rw [hds] at hp
      simp only [splitSign_plain c cs this.1 this.2, hp, int64Max]
      have hnn : ((i.natAbs : Nat) : Int) = i := by omega
      simp only [Bool.false_eq_true, if_false, hnn]
      split <;> omega

theorem parse_order (i j : Int) (hi : int64Min ≤ i ∧ i ≤ int64Max) (hj : int64Min ≤ j ∧ j ≤ int64Max) :
    (parseInt64 (printInt i) < parseInt64 (printInt j)) ↔ i < j := by
  rw [parseInt64_printInt i hi.1 hi.2, parseInt64_printInt j hj.1 hj.2]

/-- RandomPartitioner token strings (`big.Int.SetString`): the decimal string of EVERY integer (no range bound;
    Cassandra's tokens are 0 … 2^127 and the minimum token -1) parses to that integer -/
theorem parseBig_printInt (i : Int) : parseBig (printInt i) = some i := by
  by_cases hneg : i < 0
  · simp only [printInt, hneg, if_true, parseBig, splitSign, parseNat_natDigits]
    simp; omega
  · simp only [printInt, hneg, if_false]
    have hh := natDigits_head_digit i.natAbs
    have hp := parseNat_natDigits i.natAbs
    unfold parseBig
    cases hds : natDigits i.natAbs with
    | nil => simp [hds, parseNat] at hp
    | cons c cs =>
      have := hh c (by simp [hds])
      rw [hds] at hp
      simp only [splitSign_plain c cs this.1 this.2, hp]
      simp; omega

/-! ### partitioner selection by class name -/

theorem select_murmur3 (pkg : List Char) : selectPartitioner (pkg ++ nameMurmur3) = some .murmur3 := by
  simp [selectPartitioner, hasSuffix, nameMurmur3, List.reverse_append]

set_option linter.unusedSimpArgs false in
theorem select_random (pkg : List Char) : selectPartitioner (pkg ++ nameRandom) = some .random := by
  simp [selectPartitioner, hasSuffix, nameMurmur3, nameOrdered, nameRandom, List.reverse_append, List.isPrefixOf]

theorem select_byteOrdered (pkg : List Char) :
    selectPartitioner (pkg ++ 'B' :: 'y' :: 't' :: 'e' :: nameOrdered) = some .ordered := by
  simp [selectPartitioner, hasSuffix, nameMurmur3, nameOrdered, List.reverse_append, List.isPrefixOf]

theorem select_orderPreserving (pkg : List Char) :
    selectPartitioner (pkg ++ ['O','r','d','e','r','P','r','e','s','e','r','v','i','n','g','P','a','r','t','i','t','i','o','n','e','r']) = none := by
  simp [selectPartitioner, hasSuffix, nameMurmur3, nameOrdered, nameRandom, List.reverse_append, List.isPrefixOf]

end Token
