import Proofs.C12Bytes
/-!
# C12: varint — the shortest two's complement encoding (`specVarint`), its decoder, minimality,
and the trimming loop of marshalVarint
-/
namespace C12Varint
open ValueSpec Marshal C12Bytes

theorem tcDec_snoc (l : Bytes) (x : UInt8) (h : l ≠ []) : tcDec (l ++ [x]) = tcDec l * 256 + x.toNat := by
  have hx : x.toNat < 256 := x.toNat_lt
  have hlen : 1 ≤ l.length := by
    cases l with
    | nil => exact absurd rfl h
    | cons a r => simp
  obtain ⟨q, hq⟩ := pow256_even l.length hlen
  have hlt := beNat_lt l
  unfold tcDec
  rw [beNat_snoc, List.length_append, List.length_singleton, Nat.pow_succ]
  have hP : ((256:Int) ^ l.length) = ((256 ^ l.length : Nat) : Int) := (cast_pow256 _).symm
  have hP1 : ((256:Int) ^ (l.length + 1)) = ((256 ^ l.length : Nat) : Int) * 256 := by
    rw [Int.pow_succ, hP]
  rw [hP, hP1]
  generalize 256 ^ l.length = P at *
  generalize beNat l = u at *
  subst hq
  split <;> split <;> omega

theorem specVarint_ne_nil (n : Int) : specVarint n ≠ [] := by
  rw [specVarint]; split <;> simp

/-- decoding a varint gives the number back (every integer, no bound) -/
theorem tcDec_specVarint (n : Int) : tcDec (specVarint n) = n := by
  induction n using specVarint.induct with
  | case1 n h =>
    rw [specVarint, if_pos h]
    simp [tcDec, beNat, byteOfNat]
    split <;> omega
  | case2 n h ih =>
    rw [specVarint, if_neg h, tcDec_snoc _ _ (specVarint_ne_nil _), ih, byteOfNat_toNat]
    omega

/-- a number that fits `k` bytes has a varint of at most `k` bytes -/
theorem specVarint_length_le (k : Nat) (n : Int) (hk : 1 ≤ k) (h : fitsS k n = true) : (specVarint n).length ≤ k := by
  induction k generalizing n with
  | zero => omega
  | succ k ih =>
    rw [specVarint]
    split
    · simp
    · rename_i hn
      simp only [List.length_append, List.length_singleton]
      have hk1 : 1 ≤ k := by
        cases k with
        | zero => simp [fitsS, leB_iff, ltB_iff] at h; omega
        | succ j => omega
      have : fitsS k (n / 256) = true := by
        simp only [fitsS, Bool.and_eq_true, leB_iff, ltB_iff, Int.pow_succ] at h ⊢
        have hP : ((256:Int) ^ k) = ((256 ^ k : Nat) : Int) := (cast_pow256 _).symm
        obtain ⟨q, hq⟩ := pow256_even k hk1
        rw [hP] at h ⊢
        generalize 256 ^ k = P at *
        subst hq
        omega
      have := ih (n / 256) hk1 this
      omega

/-- MINIMALITY: no byte string that decodes to `n` is shorter than `specVarint n` -/
theorem specVarint_minimal (n : Int) (b : Bytes) (hb : b ≠ []) (h : tcDec b = n) :
    (specVarint n).length ≤ b.length := by
  have hlen : 1 ≤ b.length := by
    cases b with
    | nil => exact absurd rfl hb
    | cons a r => simp
  apply specVarint_length_le _ _ hlen
  have := tcDec_range b
  rw [h] at this
  simp [fitsS, leB_iff, ltB_iff, this.1, this.2]

/-! ## sign bit = top bit of the first byte; sign extension -/

theorem sign_iff_head (x : UInt8) (r : Bytes) :
    2 * beNat (x :: r) ≥ 256 ^ (x :: r).length ↔ x.toNat ≥ 128 := by
  have hx : x.toNat < 256 := x.toNat_lt
  have hr := beNat_lt r
  have hpos := pow256_pos r.length
  rw [beNat_cons, List.length_cons, Nat.pow_succ]
  generalize 256 ^ r.length = Q at *
  generalize beNat r = s at *
  constructor
  · intro h
    by_cases hc : x.toNat ≥ 128
    · exact hc
    · exfalso
      have : x.toNat * Q ≤ 127 * Q := Nat.mul_le_mul_right _ (by omega)
      omega
  · intro h
    have : 128 * Q ≤ x.toNat * Q := Nat.mul_le_mul_right _ h
    omega

theorem tcDec_cons (x : UInt8) (r : Bytes) :
    tcDec (x :: r) = (if x.toNat ≥ 128 then (x.toNat : Int) - 256 else x.toNat) * (256:Int) ^ r.length + beNat r := by
  have h := sign_iff_head x r
  unfold tcDec
  rw [beNat_cons] at h ⊢
  simp only [List.length_cons, Int.pow_succ] at h ⊢
  rw [← cast_pow256]
  generalize 256 ^ r.length = Q at *
  by_cases hc : x.toNat ≥ 128
  · rw [if_pos (h.mpr hc), if_pos hc]
    simp only [Int.natCast_add, Int.natCast_mul, Int.sub_mul]
    omega
  · rw [if_neg (fun hh => hc (h.mp hh)), if_neg hc]
    simp only [Int.natCast_add, Int.natCast_mul]

/-- a leading 0x00 before a byte with a clear top bit is redundant -/
theorem tcDec_zero_ext (b1 : UInt8) (rest : Bytes) (h : b1.toNat < 128) :
    tcDec (0 :: b1 :: rest) = tcDec (b1 :: rest) := by
  rw [tcDec_cons 0]
  simp only [show (0:UInt8).toNat = 0 by rfl]
  rw [if_neg (by omega)]
  have hs := (sign_iff_head b1 rest)
  rw [tcDec, if_neg (fun hh => by have := hs.mp hh; omega)]
  simp

/-- a leading 0xFF before a byte with a set top bit is redundant -/
theorem tcDec_ff_ext (b1 : UInt8) (rest : Bytes) (h : b1.toNat ≥ 128) :
    tcDec (255 :: b1 :: rest) = tcDec (b1 :: rest) := by
  rw [tcDec_cons 255]
  have hs := (sign_iff_head b1 rest).mpr h
  simp only [show (255:UInt8).toNat = 255 by rfl]
  rw [if_pos (by omega)]
  rw [tcDec, if_pos hs]
  simp only [List.length_cons, Int.pow_succ]
  omega

/-! ## canonical form: a byte string without a redundant leading byte IS the varint of its value -/

theorem beNat_cons_eq_zero (x : UInt8) (r : Bytes) (h : beNat (x :: r) = 0) : x.toNat = 0 := by
  rw [beNat_cons] at h
  have hpos := pow256_pos r.length
  generalize 256 ^ r.length = Q at *
  by_cases hx : x.toNat = 0
  · exact hx
  · have : 1 * Q ≤ x.toNat * Q := Nat.mul_le_mul_right _ (by omega)
    omega

theorem beNat_cons_eq_max (x : UInt8) (r : Bytes) (h : beNat (x :: r) + 1 = 256 ^ (x :: r).length) : x.toNat = 255 := by
  rw [beNat_cons, List.length_cons, Nat.pow_succ] at h
  have hr := beNat_lt r
  have hx : x.toNat < 256 := x.toNat_lt
  generalize 256 ^ r.length = Q at *
  by_cases hc : x.toNat = 255
  · exact hc
  · have : x.toNat * Q ≤ 254 * Q := Nat.mul_le_mul_right _ (by omega)
    omega

/-- value 0: first byte 0x00 and nothing but zeros behind it -/
theorem tcDec_eq_zero (a : UInt8) (m : Bytes) (h : tcDec (a :: m) = 0) : a.toNat = 0 ∧ beNat m = 0 := by
  rw [tcDec_cons, ← cast_pow256] at h
  have hm := beNat_lt m
  have hpos := pow256_pos m.length
  have ha : a.toNat < 256 := a.toNat_lt
  generalize 256 ^ m.length = Q at *
  generalize beNat m = s at *
  by_cases hc : a.toNat ≥ 128
  · exfalso
    rw [if_pos hc] at h
    have h1 : 1 * Q ≤ (256 - a.toNat) * Q := Nat.mul_le_mul_right _ (by omega)
    have h2 : ((a.toNat : Int) - 256) * (Q : Int) = -(((256 - a.toNat) * Q : Nat) : Int) := by
      rw [Int.natCast_mul, Int.natCast_sub (by omega)]
      simp only [Int.sub_mul, Int.neg_sub]
      rfl
    rw [h2] at h
    omega
  · rw [if_neg hc] at h
    by_cases h0 : a.toNat = 0
    · refine ⟨h0, ?_⟩
      rw [h0] at h
      simp at h
      omega
    · exfalso
      have h1 : 1 * Q ≤ a.toNat * Q := Nat.mul_le_mul_right _ (by omega)
      have h2 : (a.toNat : Int) * (Q : Int) = ((a.toNat * Q : Nat) : Int) := by simp
      rw [h2] at h
      omega

/-- value −1: first byte 0xFF and nothing but 0xFF behind it -/
theorem tcDec_eq_neg1 (a : UInt8) (m : Bytes) (h : tcDec (a :: m) = -1) : a.toNat = 255 ∧ beNat m + 1 = 256 ^ m.length := by
  rw [tcDec_cons, ← cast_pow256] at h
  have hm := beNat_lt m
  have hpos := pow256_pos m.length
  have ha : a.toNat < 256 := a.toNat_lt
  generalize 256 ^ m.length = Q at *
  generalize beNat m = s at *
  by_cases hc : a.toNat ≥ 128
  · rw [if_pos hc] at h
    have h2 : ((a.toNat : Int) - 256) * (Q : Int) = -(((256 - a.toNat) * Q : Nat) : Int) := by
      rw [Int.natCast_mul, Int.natCast_sub (by omega)]
      simp only [Int.sub_mul, Int.neg_sub]
      rfl
    rw [h2] at h
    by_cases h255 : a.toNat = 255
    · refine ⟨h255, ?_⟩
      rw [h255] at h
      omega
    · exfalso
      have h1 : 2 * Q ≤ (256 - a.toNat) * Q := Nat.mul_le_mul_right _ (by omega)
      omega
  · exfalso
    rw [if_neg hc] at h
    have h2 : (a.toNat : Int) * (Q : Int) = ((a.toNat * Q : Nat) : Int) := by simp
    rw [h2] at h
    omega

theorem minimalTC_snoc (a b : UInt8) (r : Bytes) (x : UInt8) :
    minimalTC (a :: b :: r ++ [x]) = minimalTC (a :: b :: r) := by
  simp [minimalTC]

theorem specVarint_single (x : UInt8) : specVarint (tcDec [x]) = [x] := by
  have hx : x.toNat < 256 := x.toNat_lt
  have hd : tcDec [x] = if x.toNat ≥ 128 then (x.toNat : Int) - 256 else x.toNat := by
    rw [tcDec_cons]; simp [beNat]
  have h1 : -128 ≤ tcDec [x] ∧ tcDec [x] < 128 := by rw [hd]; split <;> omega
  have h2 : (tcDec [x] % 256).toNat = x.toNat := by rw [hd]; split <;> omega
  rw [specVarint, if_pos h1, h2]
  simp [byteOfNat, Nat.mod_eq_of_lt hx]

/-- CANONICITY: a non-empty byte string whose first byte is not redundant is the varint of its value -/
theorem specVarint_tcDec (b : Bytes) (h : minimalTC b = true) : specVarint (tcDec b) = b := by
  generalize hk : b.length = k
  induction k generalizing b with
  | zero =>
    cases b with
    | nil => simp [minimalTC] at h
    | cons a r => simp at hk
  | succ k ih =>
    have hne : b ≠ [] := by intro hb; rw [hb] at hk; simp at hk
    obtain ⟨l, x, rfl⟩ : ∃ l x, b = l ++ [x] := ⟨b.dropLast, b.getLast hne, (List.dropLast_concat_getLast hne).symm⟩
    have hx : x.toNat < 256 := x.toNat_lt
    cases l with
    | nil => exact specVarint_single x
    | cons a m =>
      have hl : (a :: m).length = k := by simpa using hk
      have hne' : (a :: m) ≠ [] := by simp
      have hmin : minimalTC (a :: m) = true := by
        cases m with
        | nil => rfl
        | cons b' r' => rw [← minimalTC_snoc a b' r' x]; exact h
      have hdec := tcDec_snoc (a :: m) x hne'
      have hbig : ¬ (-128 ≤ tcDec ((a :: m) ++ [x]) ∧ tcDec ((a :: m) ++ [x]) < 128) := by
        intro hsmall
        rw [hdec] at hsmall
        have hcases : (tcDec (a :: m) = 0 ∧ x.toNat < 128) ∨ (tcDec (a :: m) = -1 ∧ x.toNat ≥ 128) := by omega
        rcases hcases with ⟨h0, hx0⟩ | ⟨h1, hx1⟩
        · obtain ⟨ha, hm⟩ := tcDec_eq_zero a m h0
          cases m with
          | nil =>
            simp [minimalTC] at h
            omega
          | cons b' r' =>
            have hb := beNat_cons_eq_zero b' r' hm
            simp [minimalTC] at h
            omega
        · obtain ⟨ha, hm⟩ := tcDec_eq_neg1 a m h1
          cases m with
          | nil =>
            simp [minimalTC] at h
            omega
          | cons b' r' =>
            have hb := beNat_cons_eq_max b' r' hm
            simp [minimalTC] at h
            omega
      rw [specVarint, if_neg hbig, hdec]
      have e1 : (tcDec (a :: m) * 256 + (x.toNat : Int)) / 256 = tcDec (a :: m) := by omega
      have e2 : byteOfNat ((tcDec (a :: m) * 256 + (x.toNat : Int)) % 256).toNat = x := by
        have : ((tcDec (a :: m) * 256 + (x.toNat : Int)) % 256).toNat = x.toNat := by omega
        rw [this]
        simp [byteOfNat, Nat.mod_eq_of_lt hx]
      rw [e1, e2, ih (a :: m) hmin hl]

/-! ## the trimming loop of marshalVarint -/

theorem u8_ne_zero {b : UInt8} (h : b ≠ 0) : b.toNat ≠ 0 := fun hh => h (UInt8.toNat_inj.mp (by simpa using hh))
theorem u8_ne_ff {b : UInt8} (h : b ≠ 255) : b.toNat ≠ 255 := fun hh => h (UInt8.toNat_inj.mp (by simpa using hh))

/-- the loop `for ; i < len-1; i++ { … }` of marshalVarint turns ANY non-empty two's complement byte string into
    the varint of the number it denotes -/
theorem trimTC_spec : ∀ (b : Bytes), b ≠ [] → trimTC b = specVarint (tcDec b)
  | [], h => absurd rfl h
  | [x], _ => by simp [trimTC]; exact (specVarint_single x).symm
  | b0 :: b1 :: rest, _ => by
    have ih := trimTC_spec (b1 :: rest) (by simp)
    have h0 : (0:UInt8).toNat = 0 := rfl
    have hff : (255:UInt8).toNat = 255 := rfl
    have hb1 : b1.toNat < 256 := b1.toNat_lt
    rw [trimTC]
    split
    · rename_i hc
      have := u8_ne_zero hc.1
      have := u8_ne_ff hc.2
      exact (specVarint_tcDec _ (by simp [minimalTC]; omega)).symm
    · split
      · rename_i _ hc
        obtain ⟨rfl, hb1ne⟩ := hc
        split
        · rename_i hlt
          rw [tcDec_zero_ext b1 rest hlt]
          have hne := u8_ne_zero hb1ne
          refine (specVarint_tcDec _ ?_).symm
          cases rest with
          | nil => rfl
          | cons c r => simp [minimalTC]; omega
        · rename_i hge
          exact (specVarint_tcDec _ (by simp [minimalTC, h0]; omega)).symm
      · split
        · rename_i _ _ hc
          obtain ⟨rfl, hb1ne⟩ := hc
          split
          · rename_i hge
            rw [tcDec_ff_ext b1 rest hge]
            have hne := u8_ne_ff hb1ne
            refine (specVarint_tcDec _ ?_).symm
            cases rest with
            | nil => rfl
            | cons c r => simp [minimalTC]; omega
          · rename_i hlt
            exact (specVarint_tcDec _ (by simp [minimalTC, hff]; omega)).symm
        · rename_i h1 h2 h3
          rw [ih]
          -- here b0 = b1 = 0x00 or b0 = b1 = 0xFF
          by_cases hz : b0 = 0
          · subst hz
            have : b1 = 0 := by
              by_cases hb : b1 = 0
              · exact hb
              · exact absurd ⟨rfl, hb⟩ h2
            subst this
            rw [tcDec_zero_ext 0 rest (by simp)]
          · have hf : b0 = 255 := by
              by_cases hb : b0 = 255
              · exact hb
              · exact absurd ⟨hz, hb⟩ h1
            subst hf
            have : b1 = 255 := by
              by_cases hb : b1 = 255
              · exact hb
              · exact absurd ⟨rfl, hb⟩ h3
            subst this
            rw [tcDec_ff_ext 255 rest (by simp)]

end C12Varint
