import Model.Ring
import Proofs.C16Ring
/-! helper lemmas: the diff loop of refreshRing (loop invariant on the id sets) -/
namespace C16
open Ring

/-- well-formedness of the by-id index: every entry is stored under its own host id -/
def WF (m : List (Nat × RHost)) : Prop := ∀ e ∈ m, e.2.id = e.1

theorem WF_erase (m : List (Nat × RHost)) (k : Nat) (h : WF m) : WF (erase m k) :=
  fun e he => h e ((mem_erase m k e).mp he).1

theorem WF_addIfMissing (r : Ring.Ring) (h : RHost) (hw : WF r.byId) : WF (r.addIfMissing h).1.byId := by
  unfold Ring.addIfMissing
  split
  · exact hw
  · intro e he
    simp only [put, List.mem_cons] at he
    rcases he with rfl | he
    · rfl
    · exact WF_erase _ _ hw e he

theorem WF_remove (r : Ring.Ring) (k : Nat) (hw : WF r.byId) : WF (r.remove k).1.byId := by
  unfold Ring.remove
  split
  · exact WF_erase _ _ hw
  · exact hw

theorem addIfMissing_existed (r : Ring.Ring) (h : RHost) :
    (r.addIfMissing h).2.2 = true ↔ h.id ∈ keys r.byId := by
  unfold Ring.addIfMissing
  split
  · rename_i e he
    simp [lookup_mem_keys _ _ _ he]
  · rename_i hn
    rw [lookup_eq_none] at hn
    simp [hn]

/-- loop invariant of the diff loop: `acc` = ids accepted so far -/
structure LoopInv (r0 : Ring.Ring) (acc : List Nat) (st : Ring.Ring × List (Nat × RHost) × Effects) : Prop where
  ids : ∀ id, id ∈ keys st.1.byId ↔ id ∈ keys r0.byId ∨ id ∈ acc
  prev : ∀ id, id ∈ keys st.2.1 ↔ id ∈ keys r0.byId ∧ id ∉ acc
  wf : WF st.1.byId
  wfp : WF st.2.1

theorem step_inv (filter : RHost → Bool) (r0 : Ring.Ring) (acc : List Nat)
    (st : Ring.Ring × List (Nat × RHost) × Effects) (h : RHost) (hi : LoopInv r0 acc st)
    (hf : filter h = false) (hnew : h.id ∉ acc) :
    (refreshStep filter st h).2 = .ok ∧ LoopInv r0 (acc ++ [h.id]) (refreshStep filter st h).1 := by
  obtain ⟨r, prev, eff⟩ := st
  unfold refreshStep
  simp only [hf, Bool.false_eq_true, ↓reduceIte]
  have hex := addIfMissing_existed r h
  have hids := ids_addIfMissing r h
  have hwf := WF_addIfMissing r h hi.wf
  generalize r.addIfMissing h = res at hex hids hwf
  obtain ⟨r1, e1, ex⟩ := res
  dsimp only at hex hids hwf
  cases ex with
  | false =>
    simp only [Bool.false_eq_true, false_iff] at hex
    refine ⟨rfl, ?_, ?_, hwf, WF_erase _ _ hi.wfp⟩
    · intro id
      dsimp only
      rw [hids, hi.ids, List.mem_append, List.mem_singleton]
      constructor
      · rintro (h1 | h1 | h1)
        · exact Or.inr (Or.inr h1)
        · exact Or.inl h1
        · exact Or.inr (Or.inl h1)
      · rintro (h1 | h1 | h1)
        · exact Or.inr (Or.inl h1)
        · exact Or.inr (Or.inr h1)
        · exact Or.inl h1
    · intro id
      dsimp only
      rw [mem_keys_erase, hi.prev, List.mem_append, List.mem_singleton]
      constructor
      · rintro ⟨⟨h1, h2⟩, h3⟩; exact ⟨h1, fun hh => hh.elim h2 h3⟩
      · rintro ⟨h1, h2⟩; exact ⟨⟨h1, fun hh => h2 (Or.inl hh)⟩, fun hh => h2 (Or.inr hh)⟩
  | true =>
    simp only [true_iff] at hex
    have hin0 : h.id ∈ keys r0.byId := by
      rcases (hi.ids h.id).mp hex with h1 | h1
      · exact h1
      · exact absurd h1 hnew
    have hinp : h.id ∈ keys prev := (hi.prev h.id).mpr ⟨hin0, hnew⟩
    simp only
    cases hl : lookup prev h.id with
    | none => rw [lookup_eq_none] at hl; exact absurd hinp hl
    | some existing =>
      have hexid : existing.id = h.id := hi.wfp _ (lookup_some_mem _ _ _ hl)
      simp only
      have accIds : ∀ id, (id ∈ keys r.byId ↔ id ∈ keys r0.byId ∨ id ∈ acc ++ [h.id]) := by
        intro id
        rw [hi.ids, List.mem_append, List.mem_singleton]
        constructor
        · rintro (h1 | h1)
          · exact Or.inl h1
          · exact Or.inr (Or.inl h1)
        · rintro (h1 | h1 | h1)
          · exact Or.inl h1
          · exact Or.inr h1
          · subst h1; exact Or.inl hin0
      have prevIds : ∀ id, id ∈ keys (erase prev h.id) ↔ id ∈ keys r0.byId ∧ id ∉ acc ++ [h.id] := by
        intro id
        rw [mem_keys_erase, hi.prev, List.mem_append, List.mem_singleton]
        constructor
        · rintro ⟨⟨h1, h2⟩, h3⟩; exact ⟨h1, fun hh => hh.elim h2 h3⟩
        · rintro ⟨h1, h2⟩; exact ⟨⟨h1, fun hh => h2 (Or.inl hh)⟩, fun hh => h2 (Or.inr hh)⟩
      split
      · exact ⟨rfl, accIds, prevIds, hi.wf, WF_erase _ _ hi.wfp⟩
      · -- address changed: remove the old object, add the new one
        have hrm := ids_remove r existing.id
        have hwr := WF_remove r existing.id hi.wf
        generalize (r.remove existing.id).1 = r2 at hrm hwr
        have hex2 := addIfMissing_existed r2 h
        have hids2 := ids_addIfMissing r2 h
        have hwf2 := WF_addIfMissing r2 h hwr
        generalize r2.addIfMissing h = res2 at hex2 hids2 hwf2
        obtain ⟨r3, e3, ex3⟩ := res2
        dsimp only at hex2 hids2 hwf2
        cases ex3 with
        | true =>
          simp only [true_iff] at hex2
          rw [hrm, hexid] at hex2
          exact absurd rfl hex2.2
        | false =>
          refine ⟨rfl, ?_, prevIds, hwf2, WF_erase _ _ hi.wfp⟩
          intro id
          dsimp only
          rw [hids2, hrm, hexid, ← accIds]
          constructor
          · rintro (h1 | h1)
            · subst h1; exact hex
            · exact h1.1
          · intro h1
            by_cases e : id = h.id
            · exact Or.inl e
            · exact Or.inr ⟨h1, e⟩

theorem step_filtered (filter : RHost → Bool) (st : Ring.Ring × List (Nat × RHost) × Effects) (h : RHost)
    (hf : filter h = true) : refreshStep filter st h = (st, .ok) := by
  obtain ⟨r, prev, eff⟩ := st
  simp [refreshStep, hf]

def acceptedIds (filter : RHost → Bool) (reported : List RHost) : List Nat :=
  (reported.filter (fun h => !filter h)).map (·.id)

theorem loop_inv (filter : RHost → Bool) (r0 : Ring.Ring) (reported : List RHost) :
    ∀ (acc : List Nat) (st : Ring.Ring × List (Nat × RHost) × Effects), LoopInv r0 acc st →
      (acceptedIds filter reported).Nodup → (∀ id ∈ acceptedIds filter reported, id ∉ acc) →
      (refreshLoop filter reported st).2 = .ok ∧
      LoopInv r0 (acc ++ acceptedIds filter reported) (refreshLoop filter reported st).1 := by
  induction reported with
  | nil =>
    intro acc st hi _ _
    simp only [acceptedIds, List.filter_nil, List.map_nil, List.append_nil]
    exact ⟨rfl, hi⟩
  | cons h t ih =>
    intro acc st hi hn hd
    unfold refreshLoop
    cases hf : filter h with
    | true =>
      rw [step_filtered filter st h hf]
      simp only [if_true]
      have e : acceptedIds filter (h :: t) = acceptedIds filter t := by simp [acceptedIds, hf]
      rw [e] at hn hd ⊢
      exact ih acc st hi hn hd
    | false =>
      have e : acceptedIds filter (h :: t) = h.id :: acceptedIds filter t := by simp [acceptedIds, hf]
      rw [e] at hn hd ⊢
      rw [List.nodup_cons] at hn
      have ⟨hok, hi'⟩ := step_inv filter r0 acc st h hi hf (hd h.id List.mem_cons_self)
      generalize refreshStep filter st h = res at hok hi'
      obtain ⟨st', res'⟩ := res
      dsimp only at hok hi' ⊢
      subst hok
      simp only [if_true]
      have := ih (acc ++ [h.id]) st' hi' hn.2 (by
        intro id hid hacc
        rw [List.mem_append, List.mem_singleton] at hacc
        rcases hacc with h1 | h1
        · exact hd id (List.mem_cons_of_mem _ hid) h1
        · subst h1; exact hn.1 hid)
      rw [List.append_assoc] at this
      exact this

theorem ids_removeAll (r : Ring.Ring) (prev : List (Nat × RHost)) (hw : WF prev) (id : Nat) :
    id ∈ keys (removeAll r prev).byId ↔ id ∈ keys r.byId ∧ id ∉ keys prev := by
  induction prev generalizing r with
  | nil => simp [removeAll, keys]
  | cons e t ih =>
    obtain ⟨k, h⟩ := e
    unfold removeAll
    rw [ih _ (fun e he => hw e (List.mem_cons_of_mem _ he)), ids_remove]
    have hk : h.id = k := hw (k, h) List.mem_cons_self
    simp only [keys, List.map_cons, List.mem_cons, hk]
    constructor
    · rintro ⟨⟨h1, h2⟩, h3⟩; exact ⟨h1, fun hh => hh.elim h2 h3⟩
    · rintro ⟨h1, h2⟩; exact ⟨⟨h1, fun hh => h2 (Or.inl hh)⟩, fun hh => h2 (Or.inr hh)⟩

theorem refresh_exact (r : Ring.Ring) (hw : WF r.byId) (filter : RHost → Bool) (reported : List RHost)
    (hn : (acceptedIds filter reported).Nodup) :
    (r.refresh filter reported).2.1 = .ok ∧
    ∀ id, id ∈ keys (r.refresh filter reported).1.byId ↔ id ∈ acceptedIds filter reported := by
  have h0 : LoopInv r [] (r, r.byId, {}) := ⟨by simp, by simp, hw, hw⟩
  have ⟨hok, hi⟩ := loop_inv filter r reported [] _ h0 hn (by simp)
  unfold Ring.refresh
  generalize refreshLoop filter reported (r, r.byId, {}) = res at hok hi
  obtain ⟨⟨r1, prev, eff⟩, res'⟩ := res
  dsimp only at hok hi
  subst hok
  dsimp only
  refine ⟨rfl, ?_⟩
  intro id
  rw [ids_removeAll _ _ hi.wfp, hi.ids, hi.prev]
  simp only [List.nil_append]
  constructor
  · rintro ⟨h1 | h1, h2⟩
    · by_cases h3 : id ∈ acceptedIds filter reported
      · exact h3
      · exact absurd ⟨h1, h3⟩ h2
    · exact h1
  · intro h1; exact ⟨Or.inr h1, fun hh => hh.2 h1⟩

end C16
