import Model.Ring
import Proofs.C16Ring
/-! helper lemmas: the diff part of refreshRing (repaired: removals first, then additions) — the id sets and the stored objects -/
namespace C16
open Ring

/-- well-formedness of the by-id index: every entry is stored under its own host id -/
def WF (m : List (Nat × RHost)) : Prop := ∀ e ∈ m, e.2.id = e.1

theorem WF_erase (m : List (Nat × RHost)) (k : Nat) (h : WF m) : WF (erase m k) :=
  fun e he => h e ((mem_erase m k e).mp he).1

theorem WF_addIfMissing (r : Ring.Ring) (h : RHost) (hw : WF r.byId) : WF (r.addIfMissing h).1.byId := by
  unfold Ring.addIfMissing
  split
  · exact hw
  · intro e he
    simp only [put, List.mem_cons] at he
    rcases he with rfl | he
    · rfl
    · exact WF_erase _ _ hw e he

theorem WF_remove (r : Ring.Ring) (k : Nat) (hw : WF r.byId) : WF (r.remove k).1.byId := by
  unfold Ring.remove
  split
  · exact WF_erase _ _ hw
  · exact hw

theorem addIfMissing_existed (r : Ring.Ring) (h : RHost) :
    (r.addIfMissing h).2.2 = true ↔ h.id ∈ keys r.byId := by
  unfold Ring.addIfMissing
  split
  · rename_i e he
    simp [lookup_mem_keys _ _ _ he]
  · rename_i hn
    rw [lookup_eq_none] at hn
    simp [hn]

def acceptedIds (filter : RHost → Bool) (reported : List RHost) : List Nat :=
  (reported.filter (fun h => !filter h)).map (·.id)

theorem keys_reportedMap (filter : RHost → Bool) (reported : List RHost) :
    keys (reportedMap filter reported) = acceptedIds filter reported := by
  simp [keys, reportedMap, acceptedIds, List.map_map, Function.comp_def]

/-! ### pass 1: the hosts that are gone are removed -/

theorem ids_removeAll (r : Ring.Ring) (prev : List (Nat × RHost)) (hw : WF prev) (id : Nat) :
    id ∈ keys (removeAll r prev).byId ↔ id ∈ keys r.byId ∧ id ∉ keys prev := by
  induction prev generalizing r with
  | nil => simp [removeAll, keys]
  | cons e t ih =>
    obtain ⟨k, h⟩ := e
    unfold removeAll
    rw [ih _ (fun e he => hw e (List.mem_cons_of_mem _ he)), ids_remove]
    have hk : h.id = k := hw (k, h) List.mem_cons_self
    simp only [keys, List.map_cons, List.mem_cons, hk]
    constructor
    · rintro ⟨⟨h1, h2⟩, h3⟩; exact ⟨h1, fun hh => hh.elim h2 h3⟩
    · rintro ⟨h1, h2⟩; exact ⟨⟨h1, fun hh => h2 (Or.inl hh)⟩, fun hh => h2 (Or.inr hh)⟩

theorem WF_removeAll (prev : List (Nat × RHost)) : ∀ (r : Ring.Ring), WF r.byId → WF (removeAll r prev).byId := by
  induction prev with
  | nil => intro r h; exact h
  | cons e t ih => intro r h; obtain ⟨k, v⟩ := e; exact ih _ (WF_remove r v.id h)

/-- membership in the by-id index after the removals -/
theorem mem_removeAll (prev : List (Nat × RHost)) (hw : WF prev) : ∀ (r : Ring.Ring) (e : Nat × RHost),
    e ∈ (removeAll r prev).byId ↔ e ∈ r.byId ∧ e.1 ∉ keys prev := by
  induction prev with
  | nil => intro r e; simp [removeAll, keys]
  | cons p t ih =>
    intro r e
    obtain ⟨k, h⟩ := p
    have hk : h.id = k := hw (k, h) List.mem_cons_self
    unfold removeAll
    rw [ih (fun e he => hw e (List.mem_cons_of_mem _ he)), hk]
    have hm : e ∈ (r.remove k).1.byId ↔ e ∈ r.byId ∧ e.1 ≠ k := by
      unfold Ring.remove
      split
      · exact mem_erase _ _ _
      · rename_i hn
        rw [lookup_eq_none] at hn
        exact ⟨fun h1 => ⟨h1, fun hk' => hn (hk' ▸ List.mem_map.mpr ⟨e, h1, rfl⟩)⟩, fun h1 => h1.1⟩
    rw [hm]
    simp only [keys, List.map_cons, List.mem_cons]
    constructor
    · rintro ⟨⟨h1, h2⟩, h3⟩; exact ⟨h1, fun hh => hh.elim h2 h3⟩
    · rintro ⟨h1, h2⟩; exact ⟨⟨h1, fun hh => h2 (Or.inl hh)⟩, fun hh => h2 (Or.inr hh)⟩

/-- the hosts removed by pass 1 -/
def goneOf (r : Ring.Ring) (filter : RHost → Bool) (reported : List RHost) : List (Nat × RHost) :=
  r.byId.filter (fun e => !stays (reportedMap filter reported) e)

theorem WF_gone (r : Ring.Ring) (hw : WF r.byId) (filter : RHost → Bool) (reported : List RHost) :
    WF (goneOf r filter reported) := fun e he => hw e (List.mem_filter.mp he).1

/-- after pass 1 the ring holds exactly the hosts that stay -/
theorem mem_pass1 (r : Ring.Ring) (hw : WF r.byId) (hn : (keys r.byId).Nodup) (filter : RHost → Bool) (reported : List RHost)
    (e : Nat × RHost) :
    e ∈ (removeAll r (goneOf r filter reported)).byId ↔ e ∈ r.byId ∧ stays (reportedMap filter reported) e = true := by
  rw [mem_removeAll _ (WF_gone r hw filter reported)]
  constructor
  · rintro ⟨h1, h2⟩
    refine ⟨h1, ?_⟩
    cases hs : stays (reportedMap filter reported) e with
    | true => rfl
    | false =>
      exfalso
      apply h2
      exact List.mem_map.mpr ⟨e, List.mem_filter.mpr ⟨h1, by simp [hs]⟩, rfl⟩
  · rintro ⟨h1, h2⟩
    refine ⟨h1, ?_⟩
    intro hk
    obtain ⟨e', he', hk'⟩ := List.mem_map.mp hk
    have hm := List.mem_filter.mp he'
    have : e' = e := mem_key_unique _ hn e' e hm.1 h1 hk'
    subst this
    simp [h2] at hm

/-! ### pass 2: the accepted hosts that are missing are added -/

theorem addStep_ring (st : Ring.Ring × List RHost) (h : RHost) : (addStep st h).1 = (st.1.addIfMissing h).1 := by
  unfold addStep
  cases hl : lookup st.1.byId h.id with
  | none => rw [addIfMissing_of_none _ h hl]
  | some e => rw [addIfMissing_of_some _ h e hl]

/-- the ring after pass 2 does not depend on the list of filled hosts -/
theorem foldl_addStep_ring (l : List RHost) : ∀ (st : Ring.Ring × List RHost),
    (l.foldl addStep st).1 = l.foldl (fun r h => (r.addIfMissing h).1) st.1 := by
  induction l with
  | nil => intro st; rfl
  | cons h t ih => intro st; simp only [List.foldl_cons]; rw [ih, addStep_ring]

theorem ids_addAll (l : List RHost) : ∀ (r : Ring.Ring) (id : Nat),
    id ∈ keys (l.foldl (fun r h => (r.addIfMissing h).1) r).byId ↔ id ∈ keys r.byId ∨ id ∈ l.map (·.id) := by
  induction l with
  | nil => intro r id; simp
  | cons h t ih =>
    intro r id
    simp only [List.foldl_cons, List.map_cons, List.mem_cons]
    rw [ih, ids_addIfMissing]
    constructor
    · rintro ((h1 | h1) | h1)
      · exact Or.inr (Or.inl h1)
      · exact Or.inl h1
      · exact Or.inr (Or.inr h1)
    · rintro (h1 | h1 | h1)
      · exact Or.inl (Or.inr h1)
      · exact Or.inl (Or.inl h1)
      · exact Or.inr h1

theorem WF_addAll (l : List RHost) : ∀ (r : Ring.Ring), WF r.byId → WF (l.foldl (fun r h => (r.addIfMissing h).1) r).byId := by
  induction l with
  | nil => intro r h; exact h
  | cons h t ih => intro r hw; exact ih _ (WF_addIfMissing r h hw)

/-- the stored object of an id after pass 2: the one that was there, else the FIRST row of that id -/
theorem lookup_addAll (l : List RHost) : ∀ (r : Ring.Ring) (id : Nat),
    lookup (l.foldl (fun r h => (r.addIfMissing h).1) r).byId id =
      match lookup r.byId id with
      | some s => some s
      | none => lookup (l.map (fun h => (h.id, h))) id := by
  induction l with
  | nil =>
    intro r id
    simp only [List.foldl_nil, List.map_nil]
    cases hl : lookup r.byId id with
    | none => rfl
    | some s => rfl
  | cons h t ih =>
    intro r id
    simp only [List.foldl_cons, List.map_cons]
    rw [ih]
    cases hl : lookup r.byId h.id with
    | some e =>
      rw [addIfMissing_of_some r h e hl]
      cases hid : lookup r.byId id with
      | some s => rfl
      | none =>
        dsimp only
        have hne : h.id ≠ id := fun e' => by rw [e', hid] at hl; cases hl
        simp [lookup, hne]
    | none =>
      rw [addIfMissing_of_none r h hl]
      dsimp only
      by_cases hk : id = h.id
      · subst hk
        rw [lookup_put_self, hl]
        simp [lookup]
      · rw [lookup_put_ne _ _ _ _ hk]
        cases hid : lookup r.byId id with
        | some s => rfl
        | none =>
          dsimp only
          have hne : ¬ h.id = id := fun e' => hk e'.symm
          simp [lookup, hne]

/-! ### the refresh -/

theorem refresh_ring (r : Ring.Ring) (filter : RHost → Bool) (reported : List RHost) :
    (r.refresh filter reported).1 =
      (reported.filter (fun h => !filter h)).foldl (fun r h => (r.addIfMissing h).1) (removeAll r (goneOf r filter reported)) := by
  unfold Ring.refresh goneOf
  dsimp only
  rw [foldl_addStep_ring]

/-- after the refresh the host ids of the ring are EXACTLY the accepted reported ids (no hypothesis on the report) -/
theorem refresh_exact (r : Ring.Ring) (hw : WF r.byId) (filter : RHost → Bool) (reported : List RHost) :
    ∀ id, id ∈ keys (r.refresh filter reported).1.byId ↔ id ∈ acceptedIds filter reported := by
  intro id
  rw [refresh_ring, ids_addAll, ids_removeAll _ _ (WF_gone r hw filter reported)]
  show _ ∨ id ∈ acceptedIds filter reported ↔ _
  constructor
  · rintro (⟨h1, h2⟩ | h1)
    · obtain ⟨e, he, rfl⟩ := List.mem_map.mp h1
      cases hs : stays (reportedMap filter reported) e with
      | false => exact absurd (List.mem_map.mpr ⟨e, List.mem_filter.mpr ⟨he, by simp [hs]⟩, rfl⟩) h2
      | true =>
        unfold stays at hs
        cases hl : lookup (reportedMap filter reported) e.1 with
        | none => rw [hl] at hs; cases hs
        | some x => rw [← keys_reportedMap]; exact lookup_mem_keys _ _ _ hl
    · exact h1
  · intro h1; exact Or.inr h1

theorem WF_refresh (r : Ring.Ring) (hw : WF r.byId) (filter : RHost → Bool) (reported : List RHost) :
    WF (r.refresh filter reported).1.byId := by
  rw [refresh_ring]
  exact WF_addAll _ _ (WF_removeAll _ r hw)

/-- the stored object of a reported id carries the node address and connect address of the FIRST accepted
row of that id (it is the object that was there when that row has its addresses, else the row's object) -/
theorem refresh_stored (r : Ring.Ring) (hw : WF r.byId) (hn : (keys r.byId).Nodup) (filter : RHost → Bool)
    (reported : List RHost) (id : Nat) (h : RHost) (hl : lookup (reportedMap filter reported) id = some h) :
    ∃ s, lookup (r.refresh filter reported).1.byId id = some s ∧ s.addr = h.addr ∧ s.caddr = h.caddr ∧
      (lookup r.byId id = some s ∨ s = h) := by
  rw [refresh_ring, lookup_addAll]
  cases hp : lookup (removeAll r (goneOf r filter reported)).byId id with
  | some s =>
    have hm := (mem_pass1 r hw hn filter reported (id, s)).mp (lookup_some_mem _ _ _ hp)
    have hst := hm.2
    unfold stays at hst
    rw [hl] at hst
    simp only [Bool.and_eq_true, beq_iff_eq] at hst
    exact ⟨s, rfl, hst.2.symm, hst.1.symm, Or.inl (lookup_of_mem_nodup _ hn (id, s) hm.1)⟩
  | none => exact ⟨h, hl, rfl, rfl, Or.inr rfl⟩

end C16
