/- C04 helper lemmas: every message kind is read back (ERROR with every code, RESULT kinds, EVENT, ...) -/
import Proofs.C04Meta
namespace C04
open FrameRead RespSpec

/-! ## ERROR -/

theorem readErrorMap_ok (m : List (FrameRead.Bytes × Nat)) (r : FrameRead.Bytes)
    (hn : m.length < 2147483648) (ha : m.all (fun ac => isAddr ac.1 && isShort ac.2) = true)
    (hd : (m.map (fun ac => ipKey ac.1)).Nodup) :
    readErrorMap (eInt m.length ++ m.flatMap (fun ac => eInetAddr ac.1 ++ eShort ac.2) ++ r)
      = .ok (m.map (fun ac => (ipKey ac.1, ac.2)), r) := by
  unfold readErrorMap
  rw [List.append_assoc, bind_ok (readInt_eInt_nat _ _ hn)]
  simp only [Int.toNat_natCast]
  rw [bind_ok (readN_flatMap _ (fun ac : FrameRead.Bytes × Nat => eInetAddr ac.1 ++ eShort ac.2)
    (fun ac => (ipKey ac.1, ac.2)) m r
    (fun x hx r' => by
      have hx' := List.all_eq_true.mp ha x hx
      simp only [Bool.and_eq_true] at hx'
      rw [List.append_assoc, bind_ok (readInetAdressOnly_e x.1 _ hx'.1),
        bind_ok (readShort_eShort x.2 r' (by simpa [isShort] using hx'.2))]
      rfl))]
  rw [pure_apply, mapOfList_nodup _ (by simpa [List.map_map, Function.comp_def] using hd)]

theorem readFailures_ok (v : Nat) (f : Failures) (r : FrameRead.Bytes) (hw : wfFailures v f = true) :
    readFailures v (eFailures f ++ r) = .ok (viewFailures f, r) := by
  cases f with
  | count n =>
    have h : v ≤ 4 ∧ isInt32 n = true := by simpa [wfFailures] using hw
    have hv : ¬ v > 4 := by omega
    unfold readFailures
    simp only [hv, if_false, eFailures]
    rw [bind_ok (readInt_eInt n r h.2)]
    rfl
  | reasons m =>
    have h : ((v > 4 ∧ m.length < 2147483648) ∧ (m.all (fun ac => isAddr ac.1 && isShort ac.2) = true)) ∧
        (m.map (fun ac => ipKey ac.1)).Nodup := by
      simpa [wfFailures] using hw
    unfold readFailures
    simp only [h.1.1.1, if_true, eFailures]
    rw [bind_ok (readErrorMap_ok m r h.1.1.2 h.1.2 h.2)]
    simp [pure_apply, viewFailures]

theorem code_isInt32 (e : ErrBody) (hw : wfErr v e = true) : isInt32 (e.code : Int) = true := by
  cases e <;> try (simp [ErrBody.code, isInt32])
  case simple c =>
    simp [wfErr, simpleCodes] at hw
    rcases hw with h | h | h | h | h | h | h | h | h | h <;> simp [h]

theorem parseErrorFrame_ok (v : Nat) (msg : FrameRead.Bytes) (e : ErrBody) (r : FrameRead.Bytes)
    (hm : fitsShort msg = true) (hw : wfErr v e = true) :
    parseErrorFrame v (eInt e.code ++ (eString msg ++ eErrBody e) ++ r)
      = .ok (.error e.code msg (viewErr e), r) := by
  unfold parseErrorFrame
  simp only [List.append_assoc]
  rw [bind_ok (readInt_eInt _ _ (code_isInt32 e hw)), bind_ok (readString_eString msg _ hm)]
  cases e with
  | simple c =>
    simp [wfErr, simpleCodes] at hw
    rcases hw with h | h | h | h | h | h | h | h | h | h <;> subst h <;>
      simp [ErrBody.code, eErrBody, viewErr, pure_apply]
  | unavailable cl rq al =>
    have h : (isShort cl = true ∧ isInt32 rq = true) ∧ isInt32 al = true := by simpa [wfErr] using hw
    simp only [ErrBody.code, eErrBody, List.append_assoc, readConsistency]
    simp [bind_ok (readShort_eShort cl _ (by simpa [isShort] using h.1.1)), bind_ok (readInt_eInt rq _ h.1.2),
      bind_ok (readInt_eInt al r h.2), pure_apply, viewErr]
  | writeTimeout cl rc bf wt =>
    have h : ((isShort cl = true ∧ isInt32 rc = true) ∧ isInt32 bf = true) ∧ fitsShort wt = true := by
      simpa [wfErr] using hw
    simp only [ErrBody.code, eErrBody, List.append_assoc, readConsistency]
    simp [bind_ok (readShort_eShort cl _ (by simpa [isShort] using h.1.1.1)), bind_ok (readInt_eInt rc _ h.1.1.2),
      bind_ok (readInt_eInt bf _ h.1.2), bind_ok (readString_eString wt r h.2), pure_apply, viewErr]
  | readTimeout cl rc bf dp =>
    have h : ((isShort cl = true ∧ isInt32 rc = true) ∧ isInt32 bf = true) ∧ dp < 256 := by
      simpa [wfErr] using hw
    simp only [ErrBody.code, eErrBody, List.append_assoc, readConsistency]
    simp [bind_ok (readShort_eShort cl _ (by simpa [isShort] using h.1.1.1)), bind_ok (readInt_eInt rc _ h.1.1.2),
      bind_ok (readInt_eInt bf _ h.1.2), bind_ok (readByte_eByte dp r), pure_apply, viewErr]
  | readFailure cl rc bf f dp =>
    have h : (((isShort cl = true ∧ isInt32 rc = true) ∧ isInt32 bf = true) ∧ wfFailures v f = true) ∧ dp < 256 := by
      simpa [wfErr] using hw
    have hdp : (UInt8.ofNat dp != 0) = (dp != 0) := by
      by_cases h0 : dp = 0
      · subst h0; rfl
      · have hne : UInt8.ofNat dp ≠ 0 := by
          intro hh
          have := congrArg UInt8.toNat hh
          simp at this; omega
        have e1 : (UInt8.ofNat dp == 0) = false := beq_eq_false_iff_ne.mpr hne
        have e2 : (dp == 0) = false := beq_eq_false_iff_ne.mpr h0
        simp only [bne, e1, e2]
    simp only [ErrBody.code, eErrBody, List.append_assoc, readConsistency]
    simp [bind_ok (readShort_eShort cl _ (by simpa [isShort] using h.1.1.1.1)), bind_ok (readInt_eInt rc _ h.1.1.1.2),
      bind_ok (readInt_eInt bf _ h.1.1.2), bind_ok (readFailures_ok v f _ h.1.2), bind_ok (readByte_eByte dp r),
      pure_apply, viewErr, hdp]
  | functionFailure ks fn args =>
    have h : ((fitsShort ks = true ∧ fitsShort fn = true) ∧ isShort args.length = true) ∧ args.all fitsShort = true := by
      simpa [wfErr] using hw
    simp only [ErrBody.code, eErrBody, List.append_assoc]
    simp [bind_ok (readString_eString ks _ h.1.1.1), bind_ok (readString_eString fn _ h.1.1.2),
      bind_ok (readStringList_eStringList args r h.1.2 h.2), pure_apply, viewErr]
  | writeFailure cl rc bf f wt =>
    have h : (((isShort cl = true ∧ isInt32 rc = true) ∧ isInt32 bf = true) ∧ wfFailures v f = true) ∧ fitsShort wt = true := by
      simpa [wfErr] using hw
    simp only [ErrBody.code, eErrBody, List.append_assoc, readConsistency]
    simp [bind_ok (readShort_eShort cl _ (by simpa [isShort] using h.1.1.1.1)), bind_ok (readInt_eInt rc _ h.1.1.1.2),
      bind_ok (readInt_eInt bf _ h.1.1.2), bind_ok (readFailures_ok v f _ h.1.2), bind_ok (readString_eString wt r h.2),
      pure_apply, viewErr]
  | cdcWriteFailure =>
    simp [ErrBody.code, eErrBody, viewErr, pure_apply]
  | casWriteUnknown cl rc bf =>
    have h : (isShort cl = true ∧ isInt32 rc = true) ∧ isInt32 bf = true := by simpa [wfErr] using hw
    simp only [ErrBody.code, eErrBody, List.append_assoc, readConsistency]
    simp [bind_ok (readShort_eShort cl _ (by simpa [isShort] using h.1.1)), bind_ok (readInt_eInt rc _ h.1.2),
      bind_ok (readInt_eInt bf r h.2), pure_apply, viewErr]
  | alreadyExists ks tb =>
    have h : fitsShort ks = true ∧ fitsShort tb = true := by simpa [wfErr] using hw
    simp only [ErrBody.code, eErrBody, List.append_assoc]
    simp [bind_ok (readString_eString ks _ h.1), bind_ok (readString_eString tb r h.2), pure_apply, viewErr]
  | unprepared id =>
    have h : fitsShort id = true := by simpa [wfErr] using hw
    simp only [ErrBody.code, eErrBody, List.append_assoc]
    simp [bind_ok (readShortBytes_eString id r h), pure_apply, viewErr]

/-! ## SCHEMA_CHANGE (RESULT kind 5 and EVENT) -/

theorem fitsShort_lit (l : FrameRead.Bytes) (h : l.length < 65536) : fitsShort l = true := by
  simp [fitsShort, h]

theorem parseSchemaChange_ok (v : Nat) (sc : SchemaChange) (r : FrameRead.Bytes) (hv : 1 ≤ v)
    (hw : wfSchemaChange v sc = true) :
    parseResultSchemaChange v (eSchemaChange v sc ++ r) = .ok (viewSchemaChange sc, r) := by
  unfold parseResultSchemaChange
  by_cases h2 : v ≤ 2
  · have h2' : ¬ v > 2 := by omega
    simp only [h2, if_true]
    cases sc with
    | keyspace ch ks =>
      have h : fitsShort ch = true ∧ fitsShort ks = true := by simpa [wfSchemaChange] using hw
      simp only [eSchemaChange, h2, if_true, List.append_assoc]
      simp [bind_ok (readString_eString ch _ h.1), bind_ok (readString_eString ks _ h.2),
        bind_ok (readString_eString [] r rfl), pure_apply, viewSchemaChange]
    | table ch ks n =>
      have h : ((fitsShort ch = true ∧ fitsShort ks = true) ∧ fitsShort n = true) ∧ n ≠ [] := by
        simpa [wfSchemaChange, h2'] using hw
      simp only [eSchemaChange, h2, if_true, List.append_assoc]
      simp [bind_ok (readString_eString ch _ h.1.1.1), bind_ok (readString_eString ks _ h.1.1.2),
        bind_ok (readString_eString n r h.1.2), pure_apply, viewSchemaChange, h.2]
    | udt ch ks n => simp [wfSchemaChange, h2'] at hw
    | function ch ks n a => simp [wfSchemaChange, h2'] at hw
    | aggregate ch ks n a => simp [wfSchemaChange, h2'] at hw
  · simp only [h2, if_false]
    cases sc with
    | keyspace ch ks =>
      have h : fitsShort ch = true ∧ fitsShort ks = true := by simpa [wfSchemaChange] using hw
      simp only [eSchemaChange, h2, if_false, List.append_assoc]
      rw [bind_ok (readString_eString ch _ h.1), bind_ok (readString_eString _ _ (fitsShort_lit _ (by decide)))]
      simp [bind_ok (readString_eString ks r h.2), pure_apply, viewSchemaChange]
    | table ch ks n =>
      have h : ((fitsShort ch = true ∧ fitsShort ks = true) ∧ fitsShort n = true) ∧ True := by
        simp only [wfSchemaChange, Bool.and_eq_true] at hw
        exact ⟨hw.1, trivial⟩
      simp only [eSchemaChange, h2, if_false, List.append_assoc]
      rw [bind_ok (readString_eString ch _ h.1.1.1), bind_ok (readString_eString _ _ (fitsShort_lit _ (by decide)))]
      simp [bind_ok (readString_eString ks _ h.1.1.2), bind_ok (readString_eString n r h.1.2), pure_apply, viewSchemaChange]
    | udt ch ks n =>
      have h : ((True ∧ fitsShort ch = true) ∧ fitsShort ks = true) ∧ fitsShort n = true := by
        simp only [wfSchemaChange, Bool.and_eq_true] at hw
        exact ⟨⟨⟨trivial, hw.1.1.2⟩, hw.1.2⟩, hw.2⟩
      simp only [eSchemaChange, List.append_assoc]
      rw [bind_ok (readString_eString ch _ h.1.1.2), bind_ok (readString_eString _ _ (fitsShort_lit _ (by decide)))]
      simp [bind_ok (readString_eString ks _ h.1.2), bind_ok (readString_eString n r h.2), pure_apply, viewSchemaChange]
    | function ch ks n a =>
      have h : ((((True ∧ fitsShort ch = true) ∧ fitsShort ks = true) ∧ fitsShort n = true) ∧ isShort a.length = true) ∧
          a.all fitsShort = true := by
        simp only [wfSchemaChange, Bool.and_eq_true] at hw
        exact ⟨⟨⟨⟨⟨trivial, hw.1.1.1.1.2⟩, hw.1.1.1.2⟩, hw.1.1.2⟩, hw.1.2⟩, hw.2⟩
      simp only [eSchemaChange, List.append_assoc]
      rw [bind_ok (readString_eString ch _ h.1.1.1.1.2), bind_ok (readString_eString _ _ (fitsShort_lit _ (by decide)))]
      simp [bind_ok (readString_eString ks _ h.1.1.1.2), bind_ok (readString_eString n _ h.1.1.2),
        bind_ok (readStringList_eStringList a r h.1.2 h.2), pure_apply, viewSchemaChange]
    | aggregate ch ks n a =>
      have h : ((((True ∧ fitsShort ch = true) ∧ fitsShort ks = true) ∧ fitsShort n = true) ∧ isShort a.length = true) ∧
          a.all fitsShort = true := by
        simp only [wfSchemaChange, Bool.and_eq_true] at hw
        exact ⟨⟨⟨⟨⟨trivial, hw.1.1.1.1.2⟩, hw.1.1.1.2⟩, hw.1.1.2⟩, hw.1.2⟩, hw.2⟩
      simp only [eSchemaChange, List.append_assoc]
      rw [bind_ok (readString_eString ch _ h.1.1.1.1.2), bind_ok (readString_eString _ _ (fitsShort_lit _ (by decide)))]
      simp [bind_ok (readString_eString ks _ h.1.1.1.2), bind_ok (readString_eString n _ h.1.1.2),
        bind_ok (readStringList_eStringList a r h.1.2 h.2), pure_apply, viewSchemaChange]

/-! ## RESULT -/

theorem parseResultFrame_ok (v : Nat) (res : Result) (r : FrameRead.Bytes) (hv : 1 ≤ v)
    (hw : wfResult v res = true) :
    parseResultFrame v (eResult v res ++ r)
      = .ok (viewBody v (.result res), restOfBody (.result res) ++ r) := by
  unfold parseResultFrame
  cases res with
  | void =>
    simp only [eResult]
    rw [bind_ok (readInt_eInt 1 r (by decide))]
    simp [pure_apply, viewBody, restOfBody]
  | rows m rs =>
    have h : wfMeta m = true ∧ rs.length < 2147483648 := by simpa [wfResult] using hw
    simp only [eResult, List.append_assoc]
    rw [bind_ok (readInt_eInt 2 _ (by decide))]
    have : parseResultRows (eMeta m ++ (eInt rs.length ++ (eRows rs ++ r))) =
        .ok (.resultRows (viewMeta m) rs.length, eRows rs ++ r) := by
      unfold parseResultRows
      rw [bind_ok (parseResultMetadata_ok m _ h.1), bind_ok (readInt_eInt_nat _ _ h.2)]
      have : ¬ ((rs.length : Int) < 0) := by omega
      simp [this, pure_apply]
    simp [this, viewBody, restOfBody]
  | setKeyspace ks =>
    have h : fitsShort ks = true := by simpa [wfResult] using hw
    simp only [eResult, List.append_assoc]
    rw [bind_ok (readInt_eInt 3 _ (by decide))]
    simp [bind_ok (readString_eString ks r h), pure_apply, viewBody, restOfBody]
  | prepared id pk req resp =>
    cases resp with
    | none =>
      have h : (((fitsShort id = true ∧ wfMeta req = true) ∧ pk.length < 2147483648) ∧ pk.all isShort = true) ∧ v < 2 := by
        simpa [wfResult] using hw
      simp only [eResult, List.append_assoc]
      rw [bind_ok (readInt_eInt 4 _ (by decide))]
      have : parseResultPrepared v (eString id ++ (ePreparedMeta v pk req ++ ([] ++ r))) =
          .ok (viewBody v (.result (.prepared id pk req none)), r) := by
        unfold parseResultPrepared
        rw [List.nil_append, bind_ok (readShortBytes_eString id _ h.1.1.1.1),
          bind_ok (parsePreparedMetadata_ok v pk req _ h.1.1.1.2 h.1.1.2 h.1.2)]
        simp [h.2, pure_apply, viewBody]
      rw [List.nil_append] at this
      simp [this, restOfBody]
    | some m =>
      have h : (((fitsShort id = true ∧ wfMeta req = true) ∧ pk.length < 2147483648) ∧ pk.all isShort = true) ∧
          (v ≥ 2 ∧ wfMeta m = true) := by
        simpa [wfResult] using hw
      simp only [eResult, List.append_assoc]
      rw [bind_ok (readInt_eInt 4 _ (by decide))]
      have : parseResultPrepared v (eString id ++ (ePreparedMeta v pk req ++ (eMeta m ++ r))) =
          .ok (viewBody v (.result (.prepared id pk req (some m))), r) := by
        unfold parseResultPrepared
        rw [bind_ok (readShortBytes_eString id _ h.1.1.1.1),
          bind_ok (parsePreparedMetadata_ok v pk req _ h.1.1.1.2 h.1.1.2 h.1.2)]
        have hv1 : ¬ v < 2 := by omega
        simp only [hv1, if_false]
        rw [bind_ok (parseResultMetadata_ok m r h.2.2)]
        simp [pure_apply, viewBody]
      simp [this, restOfBody]
  | schemaChange sc =>
    have h : wfSchemaChange v sc = true := by simpa [wfResult] using hw
    simp only [eResult, List.append_assoc]
    rw [bind_ok (readInt_eInt 5 _ (by decide))]
    simp [parseSchemaChange_ok v sc r hv h, viewBody, restOfBody]

/-! ## EVENT -/

theorem parseEventFrame_ok (v : Nat) (e : Event) (r : FrameRead.Bytes) (hv : 1 ≤ v) (hw : wfEvent v e = true) :
    parseEventFrame v (eEvent v e ++ r) = .ok (viewBody v (.event e), r) := by
  unfold parseEventFrame
  cases e with
  | topology ch a p =>
    have h : (fitsShort ch = true ∧ isAddr a = true) ∧ isInt32 p = true := by simpa [wfEvent] using hw
    simp only [eEvent, List.append_assoc]
    rw [bind_ok (readString_eString _ _ (fitsShort_lit _ (by decide)))]
    simp [bind_ok (readString_eString ch _ h.1.1), bind_ok (readInet_e a r p h.1.2 h.2), pure_apply, viewBody]
  | status ch a p =>
    have h : (fitsShort ch = true ∧ isAddr a = true) ∧ isInt32 p = true := by simpa [wfEvent] using hw
    simp only [eEvent, List.append_assoc]
    rw [bind_ok (readString_eString _ _ (fitsShort_lit _ (by decide)))]
    simp [bind_ok (readString_eString ch _ h.1.1), bind_ok (readInet_e a r p h.1.2 h.2), pure_apply, viewBody]
  | schema sc =>
    have h : wfSchemaChange v sc = true := by simpa [wfEvent] using hw
    simp only [eEvent, List.append_assoc]
    rw [bind_ok (readString_eString _ _ (fitsShort_lit _ (by decide)))]
    simp [parseSchemaChange_ok v sc r hv h, viewBody]

end C04
