import Model.Dispatch
/-!
# C05 (no bytes from the network can crash the application) — response-kind dispatch

Model: `Model/Dispatch.lean` (the code after the repairs of KF-C05-22, 23, 24, 25).

FULL PROPERTY, proved here without exclusion:

    ∀ site kind, (dispatch site kind).isCrash = false                                  C05_dispatch_total
    ∀ site frames, siteRun dispatch site frames = none                                 C05_stream_total
    ∀ cfg frames, (hsRun dispatch cfg .awaitSupported frames).isCrashed = false        C05_handshake_total

by `decide` over all 14 × 18 cells of the table and the lifting lemmas from the finite table to every
sequence of response frames (`siteRun_safe`, `hsRun_safe`, generic in the table). The histories that killed
the process before the repairs (the `ops` of the findings) are regression examples.
-/
namespace C05Dispatch
open Dispatch

/-- a statement about every cell follows from checking the two finite lists -/
theorem all_cells {P : Site → FrameKind → Prop}
    (h : ∀ s ∈ Site.all, ∀ k ∈ FrameKind.all, P s k) : ∀ s k, P s k :=
  fun s k => h s (Site.mem_all s) k (FrameKind.mem_all k)

/-! ## the table -/

/-- FULL: no frame kind crashes any dispatch site. -/
theorem C05_dispatch_total : ∀ s k, (dispatch s k).isCrash = false := all_cells (by decide)

/-- the cells that crashed before the repairs are `error` now: the two heartbeat `default:` arms
    (15 kinds each: everything but SUPPORTED and the two error kinds) and AUTH_CHALLENGE with a nil
    challenger -/
theorem C05_former_crash_cells_are_errors :
    (∀ k, k ≠ .supported → k.isError = false →
      dispatch .connHeartBeat k = .error ∧ dispatch .controlHeartBeat k = .error) ∧
    dispatch (.authHandshake true) .authChallenge = .error := by
  refine ⟨fun k => ?_, by decide⟩
  cases k <;> decide

/-- non-vacuity: every non-crash outcome is present in the table -/
example : Site.all.length * FrameKind.all.length = 252 := by decide
example : dispatch .startup .ready = .handled ∧ dispatch .startup .supported = .error ∧
    dispatch .handleEvent .ready = .ignored ∧ dispatch .handleNodeEvent .error = .ignored ∧
    dispatch .connHeartBeat .supported = .handled ∧ dispatch .executeQuery .unprepared = .handled ∧
    dispatch (.authHandshake false) .authChallenge = .handled := by decide

/-! ## lifting: a site fed any sequence of frames -/

theorem siteRun_eq_none_iff (tbl : Site → FrameKind → Outcome) (s : Site) (fs : List FrameKind) :
    siteRun tbl s fs = none ↔ ∀ k ∈ fs, (tbl s k).isCrash = false := by
  induction fs with
  | nil => simp [siteRun]
  | cons k ks ih =>
    simp only [siteRun, List.mem_cons, forall_eq_or_imp]
    cases h : tbl s k <;> simp [Outcome.isCrash, ih]

/-- LIFTING LEMMA: a table without crashing cells for the frames fed ⇒ the loop never crashes. -/
theorem siteRun_safe (tbl : Site → FrameKind → Outcome) (s : Site) (fs : List FrameKind)
    (h : ∀ k ∈ fs, (tbl s k).isCrash = false) : siteRun tbl s fs = none :=
  (siteRun_eq_none_iff tbl s fs).2 h

/-- FULL: heartbeat loops, the event stream, any request site: no sequence of response frames
    crashes it. -/
theorem C05_stream_total (s : Site) (fs : List FrameKind) : siteRun dispatch s fs = none :=
  siteRun_safe _ _ _ fun k _ => C05_dispatch_total s k

/-- regression (KF-C05-22/23 as histories): three good heartbeats, then the server answers OPTIONS
    with READY; a control heartbeat answered with RESULT/Rows — the loops go on -/
example : siteRun dispatch .connHeartBeat [.supported, .supported, .error, .ready, .supported] = none ∧
    siteRun dispatch .controlHeartBeat [.supported, .resultRows] = none := by decide

/-! ## lifting: the handshake machine (options → startup → authenticateHandshake loop) -/

theorem hsRun_done (tbl : Site → FrameKind → Outcome) (cfg : AuthCfg) (b : Bool) (fs : List FrameKind) :
    hsRun tbl cfg (.done b) fs = .done b := by
  induction fs with
  | nil => rfl
  | cons k ks ih => simpa [hsRun, hsStep] using ih

theorem hsRun_crashed (tbl : Site → FrameKind → Outcome) (cfg : AuthCfg) (h : How) (fs : List FrameKind) :
    hsRun tbl cfg (.crashed h) fs = .crashed h := by
  induction fs with
  | nil => rfl
  | cons k ks ih => simpa [hsRun, hsStep] using ih

/-- invariant of the machine: not dead, and if the loop is running with a nil challenger then the
    nil-challenger row of the table has no crashing cell -/
def HSInv (tbl : Site → FrameKind → Outcome) : HS → Prop
  | .crashed _ => False
  | .authLoop _ true => ∀ k, (tbl (.authHandshake true) k).isCrash = false
  | _ => True

theorem hsStep_inv (tbl : Site → FrameKind → Outcome) (cfg : AuthCfg)
    (h0 : ∀ k, (tbl .options k).isCrash = false) (h1 : ∀ k, (tbl .startup k).isCrash = false)
    (h2 : ∀ k, (tbl (.authHandshake false) k).isCrash = false)
    (hn : cfg.nilAfter = none ∨ ∀ k, (tbl (.authHandshake true) k).isCrash = false)
    (s : HS) (k : FrameKind) (hs : HSInv tbl s) : HSInv tbl (hsStep tbl cfg s k) := by
  have nilInv : ∀ n m, HSInv tbl (.authLoop n (cfg.nilAfter == some m)) := by
    intro n m
    cases hb : (cfg.nilAfter == some m) with
    | false => trivial
    | true =>
      cases hn with
      | inl hnone => rw [hnone] at hb; exact absurd hb (by simp)
      | inr hall => exact hall
  cases s with
  | awaitSupported =>
    have hk := h0 k
    cases hc : tbl .options k with
    | crash h => rw [hc] at hk; exact absurd hk (by simp [Outcome.isCrash])
    | handled => simp only [hsStep, hc]; trivial
    | ignored => simp only [hsStep, hc]; trivial
    | error => simp only [hsStep, hc]; trivial
  | awaitStartup =>
    have hk := h1 k
    cases hc : tbl .startup k with
    | crash h => rw [hc] at hk; exact absurd hk (by simp [Outcome.isCrash])
    | handled =>
      simp only [hsStep, hc]
      split
      · split
        · exact nilInv 1 0
        · trivial
      · trivial
    | ignored => simp only [hsStep, hc]; trivial
    | error => simp only [hsStep, hc]; trivial
  | authLoop n chNil =>
    have hk : (tbl (.authHandshake chNil) k).isCrash = false := by
      cases chNil with
      | false => exact h2 k
      | true => exact hs k
    cases hc : tbl (.authHandshake chNil) k with
    | crash h => rw [hc] at hk; exact absurd hk (by simp [Outcome.isCrash])
    | handled =>
      simp only [hsStep, hc]
      split
      · exact nilInv (n + 1) n
      · trivial
    | ignored => simp only [hsStep, hc]; trivial
    | error => simp only [hsStep, hc]; trivial
  | done b => simp only [hsStep]; trivial
  | crashed h => exact absurd hs (fun h => h)

/-- LIFTING LEMMA (generic in the table): if no cell of the three handshake rows crashes, and either
    the authenticator never hands back a nil challenger or the nil-challenger row does not crash
    either, then NO sequence of response frames crashes the handshake. -/
theorem hsRun_safe (tbl : Site → FrameKind → Outcome) (cfg : AuthCfg)
    (h0 : ∀ k, (tbl .options k).isCrash = false) (h1 : ∀ k, (tbl .startup k).isCrash = false)
    (h2 : ∀ k, (tbl (.authHandshake false) k).isCrash = false)
    (hn : cfg.nilAfter = none ∨ ∀ k, (tbl (.authHandshake true) k).isCrash = false)
    (fs : List FrameKind) : ∀ s, HSInv tbl s → (hsRun tbl cfg s fs).isCrashed = false := by
  induction fs with
  | nil =>
    intro s hs
    cases s <;> simp_all [hsRun, HS.isCrashed, HSInv]
  | cons k ks ih =>
    intro s hs
    exact ih _ (hsStep_inv tbl cfg h0 h1 h2 hn s k hs)

/-- FULL: no sequence of response frames crashes the handshake, whatever the authenticator returns
    (in particular gocql.PasswordAuthenticator, whose Challenge returns a nil next challenger). -/
theorem C05_handshake_total (cfg : AuthCfg) (fs : List FrameKind) :
    (hsRun dispatch cfg .awaitSupported fs).isCrashed = false :=
  hsRun_safe _ cfg (fun k => C05_dispatch_total _ k) (fun k => C05_dispatch_total _ k)
    (fun k => C05_dispatch_total _ k) (Or.inr fun k => C05_dispatch_total _ k) fs _ trivial

/-- regression (KF-C05-24 as a history): PasswordAuthenticator, server sends SUPPORTED, AUTHENTICATE,
    AUTH_CHALLENGE — the handshake ends with an error; a custom authenticator whose SECOND Challenge
    returns nil likewise one AUTH_CHALLENGE later -/
example : hsRun dispatch passwordAuth .awaitSupported [.supported, .authenticate, .authChallenge]
    = .done false := by decide
example : hsRun dispatch ⟨true, true, some 1⟩ .awaitSupported
    [.supported, .authenticate, .authChallenge, .authChallenge] = .done false := by decide
/-- non-vacuity: a challenger chain completes -/
example : hsRun dispatch ⟨true, true, none⟩ .awaitSupported
    [.supported, .authenticate, .authChallenge, .authChallenge, .authSuccess] = .done true := by decide

/-! ## UNPREPARED re-enters executeQuery / executeBatch: the recursion depth is whatever the server
    wants (no crash cell in the table; recorded as a resource finding, KF-C05-26) -/

theorem C05_retry_depth_unbounded (n : Nat) :
    retryDepth .executeQuery (List.replicate n .unprepared) = n ∧
    retryDepth .executeBatch (List.replicate n .unprepared) = n := by
  induction n with
  | zero => exact ⟨rfl, rfl⟩
  | succ n ih =>
    have h1 : action .executeQuery .unprepared = some .retry := by decide
    have h2 : action .executeBatch .unprepared = some .retry := by decide
    simp [List.replicate_succ, retryDepth, h1, h2, ih.1, ih.2]

/-- ... and only UNPREPARED does that, only at those two sites -/
theorem C05_retry_only_unprepared : ∀ s k, action s k = some .retry →
    (s = .executeQuery ∨ s = .executeBatch) ∧ k = .unprepared := all_cells (by decide)

end C05Dispatch
