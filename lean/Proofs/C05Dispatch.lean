import Model.Dispatch
/-!
# C05 (no bytes from the network can crash the application) — response-kind dispatch

Model: `Model/Dispatch.lean` (`fx = false`: the code that exists).

FULL PROPERTY (false for the unchanged code, see the counterexample theorems):

    ∀ site kind, (dispatch false site kind).isCrash = false
    ∀ cfg frames, (hsRun (dispatch false) cfg .awaitSupported frames).isCrashed = false
    ∀ site frames, siteRun (dispatch false) site frames = none

Proved here: the same statements with exactly the known-bad cells excluded (`knownBad`, a predicate,
not a list of inputs), exactness (the unchanged code crashes at a cell IFF the cell is known-bad),
one kernel-checked counterexample per known finding, and the lifting lemmas from the finite table
(`decide` over all 14 × 18 cells) to every sequence of response frames.
The statements without exclusion are proved for `fx = true` in `Proofs/C05DispatchFixed.lean`.
-/
namespace C05Dispatch
open Dispatch

/-- a statement about every cell follows from checking the two finite lists -/
theorem all_cells {P : Site → FrameKind → Prop}
    (h : ∀ s ∈ Site.all, ∀ k ∈ FrameKind.all, P s k) : ∀ s k, P s k :=
  fun s k => h s (Site.mem_all s) k (FrameKind.mem_all k)

/-! ## the table -/

/-- EXACTNESS: the unchanged code crashes at (site, kind) iff the cell is one of the known-bad ones. -/
theorem C05_dispatch_crash_iff : ∀ s k, (dispatch false s k).isCrash = knownBad s k :=
  all_cells (by decide)

/-- PARTIAL (excluded: `knownBad`): at every other cell no frame kind crashes the site. -/
theorem C05_dispatch_total_partial (s : Site) (k : FrameKind) (h : knownBad s k = false) :
    (dispatch false s k).isCrash = false := by
  rw [C05_dispatch_crash_iff, h]

/-- every crash of the table is one of three shapes -/
theorem C05_dispatch_crash_shapes : ∀ s k h, dispatch false s k = .crash h →
    (s = .connHeartBeat ∧ h = .panicDefault) ∨ (s = .controlHeartBeat ∧ h = .panicDefault) ∨
    (s = .authHandshake true ∧ k = .authChallenge ∧ h = .nilDeref) := by
  have : ∀ s k, ∀ h ∈ [How.panicDefault, How.nilDeref, How.assertFail], dispatch false s k = .crash h →
      (s = .connHeartBeat ∧ h = .panicDefault) ∨ (s = .controlHeartBeat ∧ h = .panicDefault) ∨
      (s = .authHandshake true ∧ k = .authChallenge ∧ h = .nilDeref) := all_cells (by decide)
  intro s k h
  exact this s k h (by cases h <;> decide)

/-- KF-C05-disp-1: Conn.heartBeat answers READY (any frame other than SUPPORTED / ERROR) with `panic`. -/
theorem C05_cex_conn_heartbeat :
    dispatch false .connHeartBeat .ready = .crash .panicDefault ∧
    dispatch false .connHeartBeat .resultVoid = .crash .panicDefault := by decide

/-- KF-C05-disp-2: controlConn.heartBeat likewise. -/
theorem C05_cex_control_heartbeat :
    dispatch false .controlHeartBeat .ready = .crash .panicDefault ∧
    dispatch false .controlHeartBeat .resultVoid = .crash .panicDefault := by decide

/-- KF-C05-disp-3: AUTH_CHALLENGE while `challenger` is nil dereferences nil. -/
theorem C05_cex_nil_challenger :
    dispatch false (.authHandshake true) .authChallenge = .crash .nilDeref := by decide

/-- non-vacuity: the exclusion leaves 221 of the 252 cells, with every non-crash outcome present -/
example : ((Site.all.flatMap fun s => FrameKind.all.filter (knownBad s)).length = 31) ∧
    Site.all.length * FrameKind.all.length = 252 := by decide
example : dispatch false .startup .ready = .handled ∧ dispatch false .startup .supported = .error ∧
    dispatch false .handleEvent .ready = .ignored ∧ dispatch false .handleNodeEvent .error = .ignored ∧
    dispatch false .connHeartBeat .supported = .handled ∧ dispatch false .executeQuery .unprepared = .handled ∧
    dispatch false (.authHandshake false) .authChallenge = .handled := by decide

/-! ## lifting: a site fed any sequence of frames -/

theorem siteRun_eq_none_iff (tbl : Site → FrameKind → Outcome) (s : Site) (fs : List FrameKind) :
    siteRun tbl s fs = none ↔ ∀ k ∈ fs, (tbl s k).isCrash = false := by
  induction fs with
  | nil => simp [siteRun]
  | cons k ks ih =>
    simp only [siteRun, List.mem_cons, forall_eq_or_imp]
    cases h : tbl s k <;> simp [Outcome.isCrash, ih]

/-- LIFTING LEMMA: a table without crashing cells for the frames fed ⇒ the loop never crashes. -/
theorem siteRun_safe (tbl : Site → FrameKind → Outcome) (s : Site) (fs : List FrameKind)
    (h : ∀ k ∈ fs, (tbl s k).isCrash = false) : siteRun tbl s fs = none :=
  (siteRun_eq_none_iff tbl s fs).2 h

/-- PARTIAL: heartbeat loops, the event stream, any request site: no sequence of response frames
    that avoids the known-bad cells crashes it. -/
theorem C05_stream_total_partial (s : Site) (fs : List FrameKind)
    (h : ∀ k ∈ fs, knownBad s k = false) : siteRun (dispatch false) s fs = none :=
  siteRun_safe _ _ _ fun k hk => C05_dispatch_total_partial s k (h k hk)

/-- EXACTNESS: a frame sequence kills the process at a site iff it contains a known-bad frame. -/
theorem C05_stream_crash_iff (s : Site) (fs : List FrameKind) :
    siteRun (dispatch false) s fs ≠ none ↔ ∃ k ∈ fs, knownBad s k = true := by
  rw [Ne, siteRun_eq_none_iff]
  simp [C05_dispatch_crash_iff]

/-- counterexample as a history: three good heartbeats, then the server answers OPTIONS with READY -/
theorem C05_cex_heartbeat_history :
    siteRun (dispatch false) .connHeartBeat [.supported, .supported, .error, .ready, .supported]
      = some .panicDefault ∧
    siteRun (dispatch false) .controlHeartBeat [.supported, .resultRows] = some .panicDefault := by
  decide

example : siteRun (dispatch false) .connHeartBeat [.supported, .error, .unprepared, .supported] = none := by
  decide

/-! ## lifting: the handshake machine (options → startup → authenticateHandshake loop) -/

theorem hsRun_done (tbl : Site → FrameKind → Outcome) (cfg : AuthCfg) (b : Bool) (fs : List FrameKind) :
    hsRun tbl cfg (.done b) fs = .done b := by
  induction fs with
  | nil => rfl
  | cons k ks ih => simpa [hsRun, hsStep] using ih

theorem hsRun_crashed (tbl : Site → FrameKind → Outcome) (cfg : AuthCfg) (h : How) (fs : List FrameKind) :
    hsRun tbl cfg (.crashed h) fs = .crashed h := by
  induction fs with
  | nil => rfl
  | cons k ks ih => simpa [hsRun, hsStep] using ih

/-- invariant of the machine: not dead, and if the loop is running with a nil challenger then the
    nil-challenger row of the table has no crashing cell -/
def HSInv (tbl : Site → FrameKind → Outcome) : HS → Prop
  | .crashed _ => False
  | .authLoop _ true => ∀ k, (tbl (.authHandshake true) k).isCrash = false
  | _ => True

theorem hsStep_inv (tbl : Site → FrameKind → Outcome) (cfg : AuthCfg)
    (h0 : ∀ k, (tbl .options k).isCrash = false) (h1 : ∀ k, (tbl .startup k).isCrash = false)
    (h2 : ∀ k, (tbl (.authHandshake false) k).isCrash = false)
    (hn : cfg.nilAfter = none ∨ ∀ k, (tbl (.authHandshake true) k).isCrash = false)
    (s : HS) (k : FrameKind) (hs : HSInv tbl s) : HSInv tbl (hsStep tbl cfg s k) := by
  have nilInv : ∀ n m, HSInv tbl (.authLoop n (cfg.nilAfter == some m)) := by
    intro n m
    cases hb : (cfg.nilAfter == some m) with
    | false => trivial
    | true =>
      cases hn with
      | inl hnone => rw [hnone] at hb; exact absurd hb (by simp)
      | inr hall => exact hall
  cases s with
  | awaitSupported =>
    have hk := h0 k
    cases hc : tbl .options k with
    | crash h => rw [hc] at hk; exact absurd hk (by simp [Outcome.isCrash])
    | handled => simp only [hsStep, hc]; trivial
    | ignored => simp only [hsStep, hc]; trivial
    | error => simp only [hsStep, hc]; trivial
  | awaitStartup =>
    have hk := h1 k
    cases hc : tbl .startup k with
    | crash h => rw [hc] at hk; exact absurd hk (by simp [Outcome.isCrash])
    | handled =>
      simp only [hsStep, hc]
      split
      · split
        · exact nilInv 1 0
        · trivial
      · trivial
    | ignored => simp only [hsStep, hc]; trivial
    | error => simp only [hsStep, hc]; trivial
  | authLoop n chNil =>
    have hk : (tbl (.authHandshake chNil) k).isCrash = false := by
      cases chNil with
      | false => exact h2 k
      | true => exact hs k
    cases hc : tbl (.authHandshake chNil) k with
    | crash h => rw [hc] at hk; exact absurd hk (by simp [Outcome.isCrash])
    | handled =>
      simp only [hsStep, hc]
      split
      · exact nilInv (n + 1) n
      · trivial
    | ignored => simp only [hsStep, hc]; trivial
    | error => simp only [hsStep, hc]; trivial
  | done b => simp only [hsStep]; trivial
  | crashed h => exact absurd hs (fun h => h)

/-- LIFTING LEMMA (generic in the table): if no cell of the three handshake rows crashes, and either
    the authenticator never hands back a nil challenger or the nil-challenger row does not crash
    either, then NO sequence of response frames crashes the handshake. -/
theorem hsRun_safe (tbl : Site → FrameKind → Outcome) (cfg : AuthCfg)
    (h0 : ∀ k, (tbl .options k).isCrash = false) (h1 : ∀ k, (tbl .startup k).isCrash = false)
    (h2 : ∀ k, (tbl (.authHandshake false) k).isCrash = false)
    (hn : cfg.nilAfter = none ∨ ∀ k, (tbl (.authHandshake true) k).isCrash = false)
    (fs : List FrameKind) : ∀ s, HSInv tbl s → (hsRun tbl cfg s fs).isCrashed = false := by
  induction fs with
  | nil =>
    intro s hs
    cases s <;> simp_all [hsRun, HS.isCrashed, HSInv]
  | cons k ks ih =>
    intro s hs
    exact ih _ (hsStep_inv tbl cfg h0 h1 h2 hn s k hs)

/-- PARTIAL (excluded: an authenticator that returns a nil next challenger, which is what
    gocql.PasswordAuthenticator does): no sequence of response frames crashes the handshake. -/
theorem C05_handshake_total_partial (cfg : AuthCfg) (fs : List FrameKind) (h : cfg.nilAfter = none) :
    (hsRun (dispatch false) cfg .awaitSupported fs).isCrashed = false :=
  hsRun_safe _ cfg (fun k => C05_dispatch_total_partial _ k (by cases k <;> rfl))
    (fun k => C05_dispatch_total_partial _ k (by cases k <;> rfl))
    (fun k => C05_dispatch_total_partial _ k (by cases k <;> rfl))
    (Or.inl h) fs _ trivial

/-- KF-C05-disp-3 as a history: PasswordAuthenticator, server sends SUPPORTED, AUTHENTICATE,
    AUTH_CHALLENGE — the third frame dereferences the nil challenger. Two steps are not enough. -/
theorem C05_cex_password_handshake :
    hsRun (dispatch false) passwordAuth .awaitSupported [.supported, .authenticate, .authChallenge]
      = .crashed .nilDeref ∧
    hsRun (dispatch false) passwordAuth .awaitSupported [.supported, .authenticate]
      = .authLoop 1 true := by decide

/-- EXACTNESS for PasswordAuthenticator: the handshake kills the process iff the server's first three
    frames are SUPPORTED, AUTHENTICATE, AUTH_CHALLENGE. -/
theorem C05_password_handshake_crash_iff (fs : List FrameKind) :
    (hsRun (dispatch false) passwordAuth .awaitSupported fs).isCrashed = true ↔
      [.supported, .authenticate, .authChallenge] <+: fs := by
  match fs with
  | [] => simp [hsRun, HS.isCrashed]
  | a :: r1 =>
    cases a <;> try (simp [hsRun, hsStep, dispatch, action, desc, firstArm, Pat.matches, outcomeOf,
      hsRun_done, HS.isCrashed, FrameKind.isError]; done)
    -- a = supported
    match r1 with
    | [] => simp [hsRun, hsStep, dispatch, action, desc, firstArm, Pat.matches, outcomeOf, HS.isCrashed]
    | b :: r2 =>
      cases b <;> try (simp [hsRun, hsStep, dispatch, action, desc, firstArm, Pat.matches, outcomeOf,
        hsRun_done, HS.isCrashed, FrameKind.isError, passwordAuth]; done)
      -- b = authenticate
      match r2 with
      | [] => simp [hsRun, hsStep, dispatch, action, desc, firstArm, Pat.matches, outcomeOf, HS.isCrashed,
          FrameKind.isError, passwordAuth]
      | c :: r3 =>
        cases c <;> simp [hsRun, hsStep, dispatch, action, desc, firstArm, Pat.matches, outcomeOf,
          hsRun_done, hsRun_crashed, HS.isCrashed, FrameKind.isError, passwordAuth]

/-- a non-nil challenger chain is safe whatever the server sends (instance of the partial theorem) -/
example (fs : List FrameKind) :
    (hsRun (dispatch false) ⟨true, true, none⟩ .awaitSupported fs).isCrashed = false :=
  C05_handshake_total_partial _ fs rfl
example : hsRun (dispatch false) ⟨true, true, none⟩ .awaitSupported
    [.supported, .authenticate, .authChallenge, .authChallenge, .authSuccess] = .done true := by decide
/-- a custom authenticator whose SECOND Challenge returns nil dies one AUTH_CHALLENGE later -/
example : hsRun (dispatch false) ⟨true, true, some 1⟩ .awaitSupported
    [.supported, .authenticate, .authChallenge, .authChallenge] = .crashed .nilDeref := by decide

/-! ## UNPREPARED re-enters executeQuery / executeBatch: the recursion depth is whatever the server
    wants (no crash cell in the table; recorded as a resource finding, see props/C05.disp.json) -/

theorem C05_retry_depth_unbounded (n : Nat) :
    retryDepth false .executeQuery (List.replicate n .unprepared) = n ∧
    retryDepth false .executeBatch (List.replicate n .unprepared) = n := by
  induction n with
  | zero => exact ⟨rfl, rfl⟩
  | succ n ih =>
    have h1 : action false .executeQuery .unprepared = some .retry := by decide
    have h2 : action false .executeBatch .unprepared = some .retry := by decide
    simp [List.replicate_succ, retryDepth, h1, h2, ih.1, ih.2]

/-- ... and only UNPREPARED does that, only at those two sites -/
theorem C05_retry_only_unprepared : ∀ s k, action false s k = some .retry →
    (s = .executeQuery ∨ s = .executeBatch) ∧ k = .unprepared := all_cells (by decide)

end C05Dispatch
